(** The reader (slots, reused across Reset and across files) refines the
    line-by-line map specification; positions; unit metadata persists. *)
From Perf Require Import Base.Bytes Base.B64 Base.Utf8 Model.Name Model.Extract Model.Units Model.Reader Model.Files
  Proofs.ReaderSlots.

Definition rec_equiv (a b : record) : Prop :=
  match a, b with
  | RRes r, RRes r' =>
      cfg_equiv (r_cfg r) (r_cfg r') /\ r_name r = r_name r' /\ r_iters r = r_iters r' /\
      r_vals r = r_vals r' /\ r_file r = r_file r' /\ r_line r = r_line r'
  | RUnit u, RUnit u' => u = u'
  | RErr f l k, RErr f' l' k' => f = f' /\ l = l' /\ k = k'
  | _, _ => False
  end.

Lemma rec_equiv_refl_nonres rs :
  Forall (fun r => match r with RRes _ => False | _ => True end) rs -> Forall2 rec_equiv rs rs.
Proof.
  induction 1 as [|r rs Hr _ IH]; constructor; auto.
  destruct r; cbn; auto. contradiction.
Qed.

Definition rec_file (r : record) : bytes :=
  match r with RRes r => r_file r | RUnit u => up_file u | RErr f _ _ => f end.
Definition rec_line (r : record) : Z :=
  match r with RRes r => r_line r | RUnit u => up_line u | RErr _ l _ => l end.

Section ReaderProofs.
Variables is_space is_lower is_upper : N -> bool.
Variable atoi : bytes -> option Z.
Variable parse_float : bytes -> option b64.

Notation step := (step is_space is_lower is_upper atoi parse_float).
Notation spec_step := (spec_step is_space is_lower is_upper atoi parse_float).
Notation read_lines := (read_lines is_space is_lower is_upper atoi parse_float).
Notation spec_lines := (spec_lines is_space is_lower is_upper atoi parse_float).
Notation read_file := (read_file is_space is_lower is_upper atoi parse_float).
Notation linespec := (linespec is_space is_lower is_upper atoi parse_float).
Notation classify := (classify is_space is_lower is_upper atoi parse_float).
Notation unit_line := (unit_line is_space).
Notation unit_fields := (unit_fields).

(** ** unit lines: only non-result records, all at the line, table only grows *)
Lemma unit_fields_facts fname n unit tu fs : forall m rs m',
  unit_fields fname n unit tu fs m = (rs, m') ->
  Forall (fun r => match r with RRes _ => False | _ => True end) rs /\
  Forall (fun r => rec_file r = fname /\ rec_line r = n) rs /\
  exists ext, m' = m ++ ext.
Proof.
  induction fs as [|f fs IH]; intros m rs m'; cbn [Reader.unit_fields].
  - intros [= <- <-]. repeat split; auto. exists []. now rewrite app_nil_r.
  - destruct (parse_unit_field f) as [|k v].
    + destruct (Reader.unit_fields fname n unit tu fs m) as [rs1 m1] eqn:E. intros [= <- <-].
      destruct (IH _ _ _ E) as (H1 & H2 & H3). repeat split; auto.
    + destruct (umap_find m tu k) as [have|].
      * destruct (beq (u_value (up_meta have)) v); [apply IH|].
        destruct (Reader.unit_fields fname n unit tu fs m) as [rs1 m1] eqn:E. intros [= <- <-].
        destruct (IH _ _ _ E) as (H1 & H2 & H3). repeat split; auto.
      * destruct (Reader.unit_fields fname n unit tu fs (m ++ _)) as [rs1 m1] eqn:E. intros [= <- <-].
        destruct (IH _ _ _ E) as (H1 & H2 & (ext & H3)). repeat split; auto.
        eexists. rewrite H3, <- app_assoc. reflexivity.
Qed.

Lemma unit_line_facts fname n fs m rs m' :
  unit_line fname n fs m = (rs, m') ->
  Forall (fun r => match r with RRes _ => False | _ => True end) rs /\
  Forall (fun r => rec_file r = fname /\ rec_line r = n) rs /\
  exists ext, m' = m ++ ext.
Proof.
  unfold Reader.unit_line. destruct fs as [|u fs].
  - intros [= <- <-]. split; [repeat constructor|]. split; [repeat constructor|].
    exists []. now rewrite app_nil_r.
  - apply unit_fields_facts.
Qed.

(** ** one line *)
Lemma step_refines fname n st m line rs st' :
  sim (rs_cfg st) m ->
  step fname n st line = (rs, st') ->
  exists rs2 m',
    spec_step fname n m (rs_units st) line = (rs2, m', rs_units st') /\
    Forall2 rec_equiv rs rs2 /\ sim (rs_cfg st') m'.
Proof.
  intros Hsim. unfold Reader.step, Reader.spec_step.
  destruct (classify line) as [[|k|name iters vals]|fs|k v|].
  - intros [= <- <-]. exists [], m. split; [reflexivity|]. split; [constructor|exact Hsim].
  - intros [= <- <-]. exists [RErr fname n k], m. split; [reflexivity|].
    split; [|exact Hsim]. constructor; [cbn; auto|constructor].
  - intros [= <- <-]. eexists _, m. split; [reflexivity|]. split; [|exact Hsim].
    constructor; [|constructor]. cbn. destruct Hsim as [_ He]. repeat split; auto; apply He.
  - destruct (unit_line fname n fs (rs_units st)) as [rs1 m1] eqn:E. intros [= <- <-]. cbn [rs_units rs_cfg].
    exists rs1, m. split; [reflexivity|]. split; [|exact Hsim].
    apply rec_equiv_refl_nonres. apply (unit_line_facts _ _ _ _ _ _ E).
  - intros [= <- <-]. cbn [rs_units rs_cfg]. exists [], (cm_set m k v true).
    split; [reflexivity|]. split; [constructor|]. now apply sim_file_config.
  - intros [= <- <-]. exists [], m. split; [reflexivity|]. split; [constructor|exact Hsim].
Qed.

Lemma read_lines_refines fname ls : forall n st m rs e st',
  sim (rs_cfg st) m ->
  read_lines fname n st ls = (rs, e, st') ->
  exists rs2, spec_lines fname n m (rs_units st) ls = (rs2, e, rs_units st') /\ Forall2 rec_equiv rs rs2.
Proof.
  induction ls as [|[b|] ls IH]; intros n st m rs e st' Hsim; cbn [Reader.read_lines Reader.spec_lines].
  - intros [= <- <- <-]. exists []. auto.
  - destruct (step fname (n + 1) st b) as [rs1 st1] eqn:E1.
    destruct (read_lines fname (n + 1) st1 ls) as [[rs' e'] st2] eqn:E2. intros [= <- <- <-].
    destruct (step_refines _ _ _ _ _ _ _ Hsim E1) as (rs2 & m' & Hs & Hf & Hsim').
    rewrite Hs. destruct (IH _ _ _ _ _ _ Hsim' E2) as (rs3 & Hs3 & Hf3). rewrite Hs3.
    exists (rs2 ++ rs3). split; auto. now apply Forall2_app.
  - intros [= <- <- <-]. exists []. auto.
Qed.

(** the reader, from ANY earlier state of its reused result, delivers what the
    format prescribes for this input and these labels *)
Theorem reader_refines_linespec st fname labels content :
  forall rs e st', read_file st fname labels content = (rs, e, st') ->
  exists rs2, linespec (rs_units st) fname labels content = (rs2, e, rs_units st') /\
              Forall2 rec_equiv rs rs2.
Proof.
  intros rs e st' H. unfold Reader.read_file in H. unfold Reader.linespec.
  eapply read_lines_refines in H; [exact H|]. cbn [rs_cfg]. apply sim_reset_config.
Qed.

(** ** Scan by Scan: a caller that stops after [k] records *)
Notation scan_n := (scan_n is_space is_lower is_upper atoi parse_float).
Notation spec_lines_take := (spec_lines_take is_space is_lower is_upper atoi parse_float).

Lemma step_q fname n st line rs st' : step fname n st line = (rs, st') -> rs_q st' = rs_q st.
Proof.
  unfold Reader.step. destruct (classify line) as [[|k|name iters vals]|fs|k v|];
    try (intros [= <- <-]; reflexivity).
  destruct (unit_line fname n fs (rs_units st)) as [rs1 m1]. intros [= <- <-]. reflexivity.
Qed.

(** queued records are delivered first, without consuming input *)
Lemma scan_n_pop fname ls n q : forall k st,
  rs_q st = q ->
  scan_n k fname n st ls =
  if (k <=? length q)%nat then (firstn k q, None, set_q st (skipn k q))
  else let '(rs, e, st2) := scan_n (k - length q) fname n (set_q st []) ls in (q ++ rs, e, st2).
Proof.
  induction q as [|r q IH]; intros k st Hq.
  - destruct k; cbn [Nat.leb length firstn skipn].
    + cbn. destruct st; cbn in *; subst; reflexivity.
    + rewrite Nat.sub_0_r. replace (set_q st []) with st by (destruct st; cbn in *; subst; reflexivity).
      destruct (scan_n (S k) fname n st ls) as [[rs e] st2]. reflexivity.
  - destruct k.
    + cbn. destruct st; cbn in *; subst; reflexivity.
    + cbn [Reader.scan_n]. unfold Reader.scan at 1. rewrite Hq.
      rewrite (IH k (set_q st q) eq_refl). cbn [length Nat.leb Nat.sub firstn skipn].
      destruct (k <=? length q)%nat; [reflexivity|].
      replace (set_q (set_q st q) []) with (set_q st []) by reflexivity.
      destruct (scan_n (k - length q) fname n (set_q st []) ls) as [[rs e] st2]. reflexivity.
Qed.

Lemma Forall2_len {A B} (R : A -> B -> Prop) a b : Forall2 R a b -> length a = length b.
Proof. induction 1; cbn; auto. Qed.

Lemma Forall2_firstn {A B} (R : A -> B -> Prop) k : forall a b, Forall2 R a b -> Forall2 R (firstn k a) (firstn k b).
Proof. induction k; intros a b H; [constructor|]. destruct H; cbn; constructor; auto. Qed.

Lemma scan_n_refines fname ls : forall k n st m rs e st',
  sim (rs_cfg st) m -> rs_q st = [] ->
  scan_n k fname n st ls = (rs, e, st') ->
  exists rs2, spec_lines_take fname n m (rs_units st) ls k = (rs2, e, rs_units st') /\
              Forall2 rec_equiv rs rs2.
Proof.
  induction ls as [|[b|] ls IH]; intros k n st m rs e st' Hsim Hq.
  - destruct k; cbn [Reader.scan_n Reader.spec_lines_take].
    + intros [= <- <- <-]. exists []. auto.
    + unfold Reader.scan. rewrite Hq. cbn. intros [= <- <- <-]. exists []. auto.
  - destruct k as [|k]; cbn [Reader.scan_n Reader.spec_lines_take].
    { intros [= <- <- <-]. exists []. auto. }
    unfold Reader.scan. rewrite Hq. cbn [Reader.fill].
    destruct (step fname (n + 1) st b) as [rs1 st1] eqn:E1.
    destruct (step_refines _ _ _ _ _ _ _ Hsim E1) as (rs2 & m' & Hs & Hf & Hsim').
    pose proof (step_q _ _ _ _ _ _ E1) as Hq1. rewrite Hq in Hq1.
    rewrite Hs. pose proof (Forall2_len _ _ _ Hf) as Hlen.
    destruct rs1 as [|r q].
    + (* the line queued nothing: the same Scan goes on to the next line *)
      inversion Hf; subst. cbn [length Nat.leb Nat.sub app].
      intros H.
      assert (H' : scan_n (S k) fname (n + 1) st1 ls = (rs, e, st')).
      { cbn [Reader.scan_n]. unfold Reader.scan. rewrite Hq1. exact H. }
      destruct (IH (S k) _ _ _ _ _ _ Hsim' Hq1 H') as (rs3 & Hs3 & Hf3). rewrite Hs3. exists rs3. auto.
    + rewrite (scan_n_pop fname ls (n + 1) q k (set_q st1 q) eq_refl).
      rewrite <- Hlen. cbn [length Nat.leb].
      destruct (k <=? length q)%nat eqn:Ek.
      * intros [= <- <- <-]. cbn [rs_units set_q]. exists (firstn (S k) rs2). split; auto.
        apply (Forall2_firstn rec_equiv (S k) _ _ Hf).
      * replace (set_q (set_q st1 q) []) with (set_q st1 []) by reflexivity.
        destruct (scan_n (k - length q) fname (n + 1) (set_q st1 []) ls) as [[rs' e'] st2] eqn:E2.
        intros [= <- <- <-].
        destruct (IH (k - length q)%nat (n + 1)%Z (set_q st1 []) m' rs' e' st2 Hsim' eq_refl E2) as (rs3 & Hs3 & Hf3).
        cbn [rs_units set_q] in Hs3. cbn [Nat.sub]. rewrite Hs3.
        exists (rs2 ++ rs3). split; auto.
        change (r :: q ++ rs') with ((r :: q) ++ rs'). now apply Forall2_app.
  - destruct k; cbn [Reader.scan_n Reader.spec_lines_take].
    + intros [= <- <- <-]. exists []. auto.
    + unfold Reader.scan. rewrite Hq. cbn. intros [= <- <- <-]. exists []. auto.
Qed.

(** Reset in the middle of the records of a line: whatever the earlier state
    (configuration, stale slots, undelivered queue), the first [k] records of the
    next input are the first [k] records the format prescribes for it alone *)
Theorem reader_take_refines_linespec k st fname labels content :
  forall rs e st', read_file_take is_space is_lower is_upper atoi parse_float k st fname labels content = (rs, e, st') ->
  exists rs2, linespec_take is_space is_lower is_upper atoi parse_float k (rs_units st) fname labels content
                = (rs2, e, rs_units st') /\
              Forall2 rec_equiv rs rs2.
Proof.
  intros rs e st' H. unfold Reader.read_file_take in H. unfold Reader.linespec_take.
  eapply scan_n_refines in H; [exact H| |reflexivity]. apply sim_reset_config.
Qed.

(** the undelivered queue of the previous input cannot influence the next one *)
Theorem reset_discards_queue st q labels : reset (set_q st q) labels = reset st labels.
Proof. reflexivity. Qed.

(** ** several files through one reader *)
Notation files_loop := (files_loop is_space is_lower is_upper atoi parse_float).
Notation files_spec_loop := (files_spec_loop is_space is_lower is_upper atoi parse_float).

Theorem files_no_leak fs ins : forall st rs e st',
  files_loop fs ins st = (rs, e, st') ->
  exists rs2, files_spec_loop fs ins (rs_units st) = (rs2, e, rs_units st') /\ Forall2 rec_equiv rs rs2.
Proof.
  induction ins as [|i ins IH]; intros st rs e st'; cbn [Files.files_loop Files.files_spec_loop].
  - intros [= <- <- <-]. exists []. auto.
  - destruct (fs_find fs (fi_path i)) as [content|]; [|intros [= <- <- <-]; exists []; auto].
    destruct (read_file st (fi_path i) [(key_file, fi_label i)] content) as [[rs1 e1] st1] eqn:E1.
    destruct (reader_refines_linespec _ _ _ _ _ _ _ E1) as (rs2 & Hs & Hf). rewrite Hs.
    destruct e1 as [n|].
    + intros [= <- <- <-]. exists rs2. auto.
    + destruct (files_loop fs ins st1) as [[rs' e'] st2] eqn:E2. intros [= <- <- <-].
      destruct (IH _ _ _ _ E2) as (rs3 & Hs3 & Hf3). rewrite Hs3.
      exists (rs2 ++ rs3). split; auto. now apply Forall2_app.
Qed.

(** ** positions *)
Lemma step_positions fname n st line rs st' :
  step fname n st line = (rs, st') ->
  Forall (fun r => rec_file r = fname /\ rec_line r = n) rs.
Proof.
  unfold Reader.step. destruct (classify line) as [[|k|name iters vals]|fs|k v|].
  - intros [= <- <-]. constructor.
  - intros [= <- <-]. repeat constructor.
  - intros [= <- <-]. repeat constructor.
  - destruct (unit_line fname n fs (rs_units st)) as [rs1 m1] eqn:E. intros [= <- <-].
    apply (unit_line_facts _ _ _ _ _ _ E).
  - intros [= <- <-]. constructor.
  - intros [= <- <-]. constructor.
Qed.

Theorem records_positioned fname ls : forall n st rs e st',
  read_lines fname n st ls = (rs, e, st') ->
  Forall (fun r => rec_file r = fname /\ (n < rec_line r <= n + Z.of_nat (length ls))%Z) rs /\
  match e with Some k => (n <= k < n + Z.of_nat (length ls))%Z | None => True end.
Proof.
  induction ls as [|[b|] ls IH]; intros n st rs e st'; cbn [Reader.read_lines].
  - intros [= <- <- <-]. split; auto.
  - destruct (step fname (n + 1) st b) as [rs1 st1] eqn:E1.
    destruct (read_lines fname (n + 1) st1 ls) as [[rs' e'] st2] eqn:E2. intros [= <- <- <-].
    pose proof (step_positions _ _ _ _ _ _ E1) as H1.
    destruct (IH _ _ _ _ _ E2) as [H2 H3]. cbn [length]. split.
    + apply Forall_app. split.
      * eapply Forall_impl; [|exact H1]. cbn. intros r [-> ->]. split; auto. lia.
      * eapply Forall_impl; [|exact H2]. cbn. intros r [-> Hl]. split; auto. lia.
    + destruct e'; auto. lia.
  - intros [= <- <- <-]. split; auto. cbn [length]. lia.
Qed.

(** ** unit metadata only accumulates (also across Reset: Reset keeps the table) *)
Theorem units_persist fname ls : forall n st rs e st',
  read_lines fname n st ls = (rs, e, st') -> exists ext, rs_units st' = rs_units st ++ ext.
Proof.
  induction ls as [|[b|] ls IH]; intros n st rs e st'; cbn [Reader.read_lines].
  - intros [= <- <- <-]. exists []. now rewrite app_nil_r.
  - destruct (step fname (n + 1) st b) as [rs1 st1] eqn:E1.
    destruct (read_lines fname (n + 1) st1 ls) as [[rs' e'] st2] eqn:E2. intros [= <- <- <-].
    destruct (IH _ _ _ _ _ E2) as (ext2 & H2).
    assert (H1 : exists ext, rs_units st1 = rs_units st ++ ext).
    { unfold Reader.step in E1. destruct (classify b) as [[|k|name iters vals]|fs|k v|];
        try (injection E1 as <- <-; exists []; cbn; now rewrite app_nil_r).
      destruct (unit_line fname (n + 1) fs (rs_units st)) as [rs0 m0] eqn:E. injection E1 as <- <-.
      cbn [rs_units]. apply (unit_line_facts _ _ _ _ _ _ E). }
    destruct H1 as (ext1 & H1). exists (ext1 ++ ext2). now rewrite H2, H1, app_assoc.
  - intros [= <- <- <-]. exists []. now rewrite app_nil_r.
Qed.

(** ** lines of other classes are inert; malformed lines give positioned errors *)
Theorem other_line_inert fname n st line :
  classify line = LOther -> step fname n st line = ([], st).
Proof. unfold Reader.step. now intros ->. Qed.

Theorem skipped_line_inert fname n st line :
  classify line = LBench BSkip -> step fname n st line = ([], st).
Proof. unfold Reader.step. now intros ->. Qed.

Theorem malformed_bench_is_positioned_error fname n st line k :
  classify line = LBench (BErr k) -> step fname n st line = ([RErr fname n k], st).
Proof. unfold Reader.step. now intros ->. Qed.

(** a unit line without a unit, or with a field that is not key=value, yields an error at its line *)
Theorem unit_without_unit_is_error fname n st :
  fst (step fname n st (bs "Unit")) = [RErr fname n EUnitMissing].
Proof. reflexivity. Qed.

(** totality: every input and every earlier state give a record list (the
    functions are structurally recursive; the only fuel is the length-bounded
    UTF-8 traversal [runes]) *)
Theorem reader_total st fname labels content :
  exists rs e st', read_file st fname labels content = (rs, e, st').
Proof. destruct (read_file st fname labels content) as [[rs e] st']. eauto. Qed.

End ReaderProofs.

(** ** malformed unit lines: at least one error at the line, never a result *)
Section UnitErrors.
Variables is_space is_lower is_upper : N -> bool.
Variable atoi : bytes -> option Z.
Variable parse_float : bytes -> option b64.

Lemma unit_fields_bad fname n unit tu fs : forall m f,
  In f fs -> parse_unit_field f = UFBad ->
  In (RErr fname n EUnitKV) (fst (Reader.unit_fields fname n unit tu fs m)).
Proof.
  induction fs as [|g fs IH]; intros m f Hin Hbad; [contradiction|].
  cbn [Reader.unit_fields]. destruct Hin as [->|Hin].
  - rewrite Hbad. destruct (Reader.unit_fields fname n unit tu fs m). now left.
  - destruct (parse_unit_field g) as [|k v].
    + specialize (IH m f Hin Hbad). destruct (Reader.unit_fields fname n unit tu fs m). now right.
    + destruct (umap_find m tu k) as [have|].
      * destruct (beq (u_value (up_meta have)) v); [eapply IH; eauto|].
        specialize (IH m f Hin Hbad). destruct (Reader.unit_fields fname n unit tu fs m). now right.
      * specialize (IH (m ++ [mkUmetap (mkUmeta tu k unit v) fname n]) f Hin Hbad).
        destruct (Reader.unit_fields fname n unit tu fs (m ++ _)). now right.
Qed.

(** a unit line with no unit, or with an item that is not key=value (no '=', or
    '=' first), yields an error positioned at that line; a unit line never
    yields a result and never touches the configuration *)
Theorem malformed_unit_is_positioned_error fname n st line fs :
  Reader.classify is_space is_lower is_upper atoi parse_float line = LUnit fs ->
  (fs = [] \/ exists f, In f (tl fs) /\ parse_unit_field f = UFBad) ->
  let '(rs, st') := Reader.step is_space is_lower is_upper atoi parse_float fname n st line in
  (exists k, In (RErr fname n k) rs) /\
  Forall (fun r => match r with RRes _ => False | _ => True end) rs /\
  Forall (fun r => rec_file r = fname /\ rec_line r = n) rs /\
  rs_cfg st' = rs_cfg st.
Proof.
  intros Hc Hbad. unfold Reader.step. rewrite Hc.
  destruct (Reader.unit_line is_space fname n fs (rs_units st)) as [rs m] eqn:E.
  destruct (unit_line_facts is_space fname n fs (rs_units st) rs m E) as (H1 & H2 & _).
  split; [|split; [exact H1|split; [exact H2|reflexivity]]].
  unfold Reader.unit_line in E. destruct Hbad as [->|(f & Hin & Hf)].
  - injection E as <- <-. exists EUnitMissing. now left.
  - destruct fs as [|u fs]; [contradiction|]. cbn [tl] in Hin. exists EUnitKV.
    pose proof (unit_fields_bad fname n u (snd (tidy is_space b64_one u)) fs (rs_units st) f Hin Hf) as H.
    rewrite E in H. exact H.
Qed.
End UnitErrors.
