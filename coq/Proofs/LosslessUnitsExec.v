(** C08: the executable losslessness check of the correspondence evaluator
    (Corr/RunC08.v: [same_info] with its unit conjunct, [lossless_ok], [judged])
    decides exactly the right-hand side of
    projections_plus_residue_lossless_units (Proofs/LosslessUnits.v), on pairs
    of results that satisfy that theorem's hypothesis about measurements. *)
From Perf Require Import Base.Bytes Model.Name Model.Extract Model.Key Model.Projection
  Proofs.Key Proofs.Extract Proofs.Projection Proofs.Exclusion Proofs.KeyGet Proofs.Lossless
  Proofs.LosslessExec Proofs.LosslessUnits.
From Perf Require Corr.RunC08.

Lemma existsb_calls_of ex : existsb fst (calls_of ex) = existsb X.e_unit ex.
Proof. unfold calls_of. now rewrite existsb_map. Qed.

(** [RunC08.same_info] (all five conjuncts) is [same_info_units] *)
Theorem same_info_exec_units ex a b :
  Forall call_ok (calls_of ex) ->
  (X.same_info ex a b = true <-> same_info_units (calls_of ex) a b).
Proof.
  intros Hok. unfold same_info_units. rewrite existsb_calls_of. apply (same_info_exec ex a b Hok).
Qed.

Lemma zll_eqb_eq a b : X.zll_eqb a b = true <-> a = b.
Proof.
  unfold X.zll_eqb. apply list_eqb_spec. intros x y. apply list_eqb_spec. apply Z.eqb_eq.
Qed.

(** [lossless_ok]: for every ordered pair of the list, the observed Key lists are
    equal iff [same_info_units] *)
Theorem lossless_ok_decides ex rs :
  Forall call_ok (calls_of ex) ->
  (X.lossless_ok ex rs = true <->
   ForallOrdPairs (fun x y => snd x = snd y <-> same_info_units (calls_of ex) (fst x) (fst y)) rs).
Proof.
  intros Hok. induction rs as [|[a ka] rs IH]; cbn [X.lossless_ok].
  - split; [constructor|reflexivity].
  - rewrite andb_true_iff, IH, forallb_forall. split.
    + intros [H1 H2]. constructor; [|exact H2]. apply Forall_forall. intros [b kb] Hin.
      specialize (H1 (b, kb) Hin). cbn beta iota in H1. cbn [fst snd].
      apply Bool.eqb_prop in H1. rewrite <- (same_info_exec_units ex a b Hok), <- H1. symmetry. apply zll_eqb_eq.
    + intros H. inversion H as [|? ? H1 H2]; subst. split; [|exact H2]. intros [b kb] Hin.
      rewrite Forall_forall in H1. specialize (H1 (b, kb) Hin). cbn [fst snd] in H1.
      rewrite <- (same_info_exec_units ex a b Hok), <- zll_eqb_eq in H1.
      apply Bool.eq_iff_eq_true in H1. rewrite H1. apply Bool.eqb_reflx.
Qed.

(** [judged]: when some expression carries .unit, the pairwise check is applied
    to the results that have a measurement — so every pair it is applied to
    satisfies the hypothesis of projections_plus_residue_lossless_units *)
Theorem judged_has_values ex rs x :
  In x (X.judged ex rs) ->
  In x rs /\ (existsb fst (calls_of ex) = true -> r_units (fst x) <> []).
Proof.
  unfold X.judged. rewrite existsb_calls_of. destruct (existsb X.e_unit ex).
  - intros H. apply filter_In in H as [H1 H2]. split; [exact H1|]. intros _ Hn.
    rewrite Hn in H2. discriminate H2.
  - intros H. split; [exact H|discriminate].
Qed.
