(** AssumeNormal.Summary (Model/BenchMath.v [summary_normal], i.e.
    stats.MeanCI): the centre is the incremental binary64 mean and the
    interval mean -/+ w contains it, because the half-width
    w = (-tq) * sd / sqrt(n) is a non-negative number whenever the t quantile
    tq is <= 0 and w is not NaN. Rounding monotonicity of [+ -] through Flocq
    (classical reals in Print Assumptions). *)
From Coq Require Import ZArith Reals Lia Lra Bool List.
From Flocq Require Import Core BinarySingleNaN.
From Perf Require Import Base.Bytes Base.B64 Base.B64Order Model.StatsF Model.MoreMathU Model.BenchMath
     Model.Legacy Proofs.B64Flocq Proofs.LegacySort Proofs.LegacyMean Proofs.BenchMathScale Proofs.BenchMath
     Proofs.BenchMathInterp.
Import ListNotations.
Local Open Scope Z_scope.

(** * every operation keeps binary64 values valid *)
Lemma b64_sqrt_Bsqrt (x : Bf) : b64_sqrt (B2SF x) = B2SF (Bsqrt mode_NE x).
Proof.
  destruct x as [sx|[|]| |[|] mx ex Bx]; try reflexivity.
  unfold b64_sqrt. simpl. rewrite B2SF_SF2B.
  set (melz := SFsqrt_core_binary _ _ _ _). case melz as [[mz ez] lz].
  apply binary_round_aux_equiv.
Qed.

Lemma valid_add x y : valid x = true -> valid y = true -> valid (b64_add x y) = true.
Proof.
  intros Hx Hy. rewrite <- (B2SF_SF2B 53 1024 x Hx), <- (B2SF_SF2B 53 1024 y Hy), b64_add_Bplus.
  apply valid_binary_B2SF.
Qed.
Lemma valid_sub x y : valid x = true -> valid y = true -> valid (b64_sub x y) = true.
Proof.
  intros Hx Hy. rewrite <- (B2SF_SF2B 53 1024 x Hx), <- (B2SF_SF2B 53 1024 y Hy), b64_sub_Bminus.
  apply valid_binary_B2SF.
Qed.
Lemma valid_mul x y : valid x = true -> valid y = true -> valid (b64_mul x y) = true.
Proof.
  intros Hx Hy. rewrite <- (B2SF_SF2B 53 1024 x Hx), <- (B2SF_SF2B 53 1024 y Hy), b64_mul_Bmult.
  apply valid_binary_B2SF.
Qed.
Lemma valid_sqrt x : valid x = true -> valid (b64_sqrt x) = true.
Proof.
  intros Hx. rewrite <- (B2SF_SF2B 53 1024 x Hx), b64_sqrt_Bsqrt. apply valid_binary_B2SF.
Qed.
Lemma valid_of_Z z : valid (b64_of_Z z) = true.
Proof. rewrite b64_of_Z_BofZ. apply valid_binary_B2SF. Qed.
Lemma valid_neg x : valid x = true -> valid (b64_neg x) = true.
Proof. destruct x; auto. Qed.

Lemma valid_mean_loop xs : forall m i,
  valid m = true -> Forall (fun x => valid x = true) xs -> valid (mean_loop m i xs) = true.
Proof.
  induction xs as [|x xs IH]; intros m i Hm Hall; cbn [mean_loop]; [exact Hm|].
  inversion Hall; subst. apply IH; auto.
  unfold mean_step. auto using valid_add, b64_div_valid, valid_sub, valid_of_Z.
Qed.
Lemma valid_mean xs : Forall (fun x => valid x = true) xs -> valid (mean_f xs) = true.
Proof. intros H. destruct xs; [reflexivity|]. unfold mean_f. now apply valid_mean_loop. Qed.

Lemma valid_welford_loop xs : forall st n,
  valid (fst st) = true -> valid (snd st) = true -> Forall (fun x => valid x = true) xs ->
  valid (fst (welford_loop st n xs)) = true /\ valid (snd (welford_loop st n xs)) = true.
Proof.
  induction xs as [|x xs IH]; intros [mean M2] n Hm HM Hall; cbn [welford_loop]; [auto|].
  inversion Hall; subst. cbn [fst snd] in *. apply IH; auto; unfold welford_step; cbn [fst snd];
    auto 10 using valid_add, b64_div_valid, valid_sub, valid_mul, valid_of_Z.
Qed.
Lemma valid_variance xs : Forall (fun x => valid x = true) xs -> valid (variance_f xs) = true.
Proof.
  intros H. unfold variance_f. destruct xs as [|x [|y xs]]; try reflexivity.
  destruct (valid_welford_loop (x :: y :: xs) (f_zero, f_zero) 0 eq_refl eq_refl H) as [_ H2].
  destruct (welford_loop _ _ _) as [mm M2]. cbn [snd] in H2.
  auto using b64_div_valid, valid_of_Z.
Qed.

(** * signs: the half-width is not negative *)
Definition nonneg (x : b64) : Prop := b64_le f_zero x = true.

Lemma nonneg_cases x : nonneg x <->
  match x with S754_zero _ | S754_infinity false | S754_finite false _ _ => True | _ => False end.
Proof. unfold nonneg. destruct x as [s|[|]| |[|] m e]; cbn; intuition discriminate. Qed.

(** the rounding step keeps the sign it is given *)
Lemma bra_sign s m e l :
  match SpecFloat.binary_round_aux 53 1024 s m e l with
  | S754_zero s' | S754_infinity s' | S754_finite s' _ _ => s' = s
  | S754_nan => True
  end.
Proof.
  unfold SpecFloat.binary_round_aux.
  destruct (shr_fexp _ _ _ _ _) as [mrs' e']. destruct (shr_fexp _ _ _ _ _) as [mrs'' e''].
  destruct (shr_m mrs''); auto. destruct (Zle_bool _ _); reflexivity.
Qed.

Lemma bra_nonneg m e l :
  b64_is_nan (SpecFloat.binary_round_aux 53 1024 false m e l) = false ->
  nonneg (SpecFloat.binary_round_aux 53 1024 false m e l).
Proof.
  intros H. pose proof (bra_sign false m e l) as S. apply nonneg_cases.
  destruct (SpecFloat.binary_round_aux 53 1024 false m e l); try discriminate; subst; exact I.
Qed.

Lemma nonneg_sqrt x : b64_is_nan (b64_sqrt x) = false -> nonneg (b64_sqrt x).
Proof.
  destruct x as [s|[|]| |[|] m e]; try discriminate; intros H; try (apply nonneg_cases; exact I).
  revert H. unfold b64_sqrt, SFsqrt.
  destruct (SFsqrt_core_binary _ _ _ _) as [[mz ez] lz]. apply bra_nonneg.
Qed.

Lemma nonneg_mul x y : nonneg x -> nonneg y -> b64_is_nan (b64_mul x y) = false -> nonneg (b64_mul x y).
Proof.
  intros Hx Hy. apply nonneg_cases in Hx, Hy.
  destruct x as [sx|[|]| |[|] mx ex], y as [sy|[|]| |[|] my ey]; try tauto; try discriminate;
    intros H; try (apply nonneg_cases; cbn; exact I).
  revert H. unfold b64_mul, SFmul. apply bra_nonneg.
Qed.

(** strictly positive: the divisor must not be a zero (x / -0 = -Inf) *)
Definition positive_f (x : b64) : Prop :=
  match x with S754_infinity false | S754_finite false _ _ => True | _ => False end.

Lemma nonneg_div x y : nonneg x -> positive_f y -> b64_is_nan (b64_div x y) = false -> nonneg (b64_div x y).
Proof.
  intros Hx Hy. apply nonneg_cases in Hx. unfold positive_f in Hy.
  destruct x as [sx|[|]| |[|] mx ex], y as [sy|[|]| |[|] my ey]; try tauto; try discriminate;
    intros H; try (apply nonneg_cases; cbn; exact I).
  revert H. unfold b64_div, SFdiv. destruct (SFdiv_core_binary _ _ _ _ _ _) as [[mz ez] lz].
  apply bra_nonneg.
Qed.

(** sqrt(float64(n)) > 0 for n >= 1 *)
Lemma sqrt_len_positive n : (1 <= n < 2 ^ 53)%Z -> positive_f (b64_sqrt (b64_of_Z n)).
Proof.
  intros Hn. rewrite b64_of_Z_BofZ, b64_sqrt_Bsqrt.
  destruct (BofZ_exact n ltac:(lia)) as [Fn Rn].
  pose proof (Bsqrt_correct 53 1024 _ _ mode_NE (BofZ n)) as (H1 & H2 & H3). cbn [round_mode] in H1.
  assert (Hge : (1 <= B2R (Bsqrt mode_NE (BofZ n)))%R).
  { rewrite H1, Rn. rewrite <- (RN_id 1%R) by (apply (F64_IZR 1); lia). apply RN_le.
    rewrite <- sqrt_1. apply sqrt_le_1_alt. apply (IZR_le 1). lia. }
  destruct (Bsqrt mode_NE (BofZ n)) as [s|[|]| |[|] m e B]; cbn in Hge |- *; try lra; try exact I.
  pose proof (F2R_lt_0 radix2 (Float radix2 (Zneg m) e) eq_refl). lra.
Qed.

Lemma mul_nan_args x y : b64_is_nan (b64_mul x y) = false -> b64_is_nan x = false /\ b64_is_nan y = false.
Proof. destruct x, y; cbn; auto; discriminate. Qed.
Lemma div_nan_args x y : b64_is_nan (b64_div x y) = false -> b64_is_nan x = false /\ b64_is_nan y = false.
Proof. destruct x, y; cbn; auto; discriminate. Qed.

Lemma nonneg_neg x : b64_le x f_zero = true -> nonneg (b64_neg x).
Proof. intros H. apply nonneg_cases. destruct x as [s|[|]| |[|] m e]; try discriminate; exact I. Qed.

(** * x - w <= x <= x + w for a non-negative w *)
Local Open Scope R_scope.

Lemma Bminus_le_self (X W : Bf) :
  is_finite X = true -> is_finite W = true -> 0 <= B2R W ->
  b64_le (B2SF (Bminus mode_NE X W)) (B2SF X) = true.
Proof.
  intros FX FW HW.
  pose proof (Bminus_correct 53 1024 _ _ mode_NE X W FX FW) as H. cbn [round_mode] in H.
  pose proof (abs_B2R_lt_emax 53 1024 X) as AX. pose proof (abs_B2R_lt_emax 53 1024 W) as AW.
  assert (Up : RN (B2R X - B2R W) <= B2R X).
  { rewrite <- (RN_id (B2R X) (F64_B2R X)) at 2. apply RN_le. lra. }
  destruct (Rlt_bool_spec (Rabs (RN (B2R X - B2R W))) (bpow radix2 1024)) as [L|L].
  - destruct H as (H1 & H2 & _). apply le_of_R; auto. now rewrite H1.
  - destruct H as (H1 & _). rewrite H1. unfold binary_overflow. cbn [overflow_to_inf].
    (* the overflow is downward, so X is negative *)
    assert (Neg : B2R X < 0).
    { apply Rnot_le_lt. intros Pos.
      assert (Lo : - B2R W <= RN (B2R X - B2R W)).
      { rewrite <- (RN_id (- B2R W)) by (apply generic_format_opp, F64_B2R). apply RN_le. lra. }
      apply Rabs_lt_inv in AX. apply Rabs_lt_inv in AW.
      assert (Rabs (RN (B2R X - B2R W)) < bpow radix2 1024) by (apply Rabs_lt; lra). lra. }
    destruct X as [s|s| |[|] m e B]; try discriminate; cbn in Neg |- *; try lra; try reflexivity.
    exfalso. pose proof (F2R_gt_0 radix2 (Float radix2 (Zpos m) e) eq_refl). lra.
Qed.

Lemma Bplus_ge_self (X W : Bf) :
  is_finite X = true -> is_finite W = true -> 0 <= B2R W ->
  b64_le (B2SF X) (B2SF (Bplus mode_NE X W)) = true.
Proof.
  intros FX FW HW.
  pose proof (Bplus_correct 53 1024 _ _ mode_NE X W FX FW) as H. cbn [round_mode] in H.
  pose proof (abs_B2R_lt_emax 53 1024 X) as AX. pose proof (abs_B2R_lt_emax 53 1024 W) as AW.
  assert (Lo : B2R X <= RN (B2R X + B2R W)).
  { rewrite <- (RN_id (B2R X) (F64_B2R X)) at 1. apply RN_le. lra. }
  destruct (Rlt_bool_spec (Rabs (RN (B2R X + B2R W))) (bpow radix2 1024)) as [L|L].
  - destruct H as (H1 & H2 & _). apply le_of_R; auto. now rewrite H1.
  - destruct H as (H1 & _). rewrite H1. unfold binary_overflow. cbn [overflow_to_inf].
    assert (Pos : 0 < B2R X).
    { apply Rnot_le_lt. intros Neg.
      assert (Up : RN (B2R X + B2R W) <= B2R W).
      { rewrite <- (RN_id (B2R W) (F64_B2R W)) at 2. apply RN_le. lra. }
      apply Rabs_lt_inv in AX. apply Rabs_lt_inv in AW.
      assert (Rabs (RN (B2R X + B2R W)) < bpow radix2 1024) by (apply Rabs_lt; lra). lra. }
    destruct X as [s|s| |[|] m e B]; try discriminate; cbn in Pos |- *; try lra; try reflexivity.
    exfalso. pose proof (F2R_lt_0 radix2 (Float radix2 (Zneg m) e) eq_refl). lra.
Qed.

Local Open Scope Z_scope.

Lemma around_self_finite x w :
  valid x = true -> b64_is_finite x = true -> valid w = true -> b64_is_finite w = true -> nonneg w ->
  b64_le (b64_sub x w) x = true /\ b64_le x (b64_add x w) = true.
Proof.
  intros Vx Fx Vw Fw Nw.
  assert (HW : (0 <= SF2R radix2 w)%R).
  { apply nonneg_cases in Nw. destruct w as [sw|[|]| |[|] mw ew]; try tauto; try discriminate; cbn; try lra.
    apply F2R_ge_0; cbn; lia. }
  rewrite <- (B2SF_SF2B 53 1024 x Vx), <- (B2SF_SF2B 53 1024 w Vw) in *.
  set (X := SF2B x Vx) in *. set (W := SF2B w Vw) in *.
  rewrite b64_is_finite_B2SF in Fx, Fw. rewrite SF2R_B2SF in HW.
  rewrite b64_sub_Bminus, b64_add_Bplus.
  split; [now apply Bminus_le_self|now apply Bplus_ge_self].
Qed.

Lemma around_self x w :
  valid x = true -> b64_is_finite x = true -> valid w = true -> nonneg w ->
  b64_le (b64_sub x w) x = true /\ b64_le x (b64_add x w) = true.
Proof.
  intros Vx Fx Vw Nw. destruct (b64_is_finite w) eqn:Fw; [now apply around_self_finite|].
  apply nonneg_cases in Nw.
  destruct w as [sw|[|]| |[|] mw ew]; try tauto; try discriminate.
  destruct x as [s|s| |s m e]; try discriminate; split; reflexivity.
Qed.

(** * the summary *)
(** the half-width as stats.MeanCI computes it *)
Definition normal_halfwidth (tinv_o : b64 -> option b64) (xs : list b64) (conf : b64) : option b64 :=
  if b64_le conf f_zero then Some f_zero
  else if b64_ge conf b64_one || (zlen xs <=? 1) then Some (f_inf false)
  else
    let sd := stddev_f xs in
    let alpha := b64_div (b64_sub b64_one conf) (b64_of_Z 2) in
    match tinv_o alpha with
    | Some tq => Some (b64_div (b64_mul (b64_neg tq) sd) (b64_sqrt (f_len xs)))
    | None => None
    end.

(** the no-overflow guard, exactly: no difference formed by the incremental
    mean overflows ([mean_no_overflow], Model/Legacy.v) and the half-width is a
    number (it is NaN when the variance is, through Inf - Inf in Welford's
    update, or when 0 meets an infinity in (-tq) * sd) *)
Definition normal_no_overflow (tinv_o : b64 -> option b64) (xs : list b64) (conf : b64) : bool :=
  mean_no_overflow xs
  && match normal_halfwidth tinv_o xs conf with
     | Some w => negb (b64_is_nan w)
     | None => true
     end.

Lemma summary_normal_eq tinv_o s conf :
  summary_normal tinv_o s conf =
  match normal_halfwidth tinv_o (s_values s) conf with
  | Some w => Some (mkSummary (mean_f (s_values s)) (b64_sub (mean_f (s_values s)) w)
                              (b64_add (mean_f (s_values s)) w) conf [])
  | None => None
  end.
Proof. reflexivity. Qed.

Theorem normal_summary_centre_is_mean tinv_o s conf sm :
  summary_normal tinv_o s conf = Some sm ->
  sm_center sm = mean_f (s_values s) /\ sm_conf sm = conf /\ sm_warn sm = []
  /\ exists w, normal_halfwidth tinv_o (s_values s) conf = Some w
               /\ sm_lo sm = b64_sub (mean_f (s_values s)) w /\ sm_hi sm = b64_add (mean_f (s_values s)) w.
Proof.
  rewrite summary_normal_eq. destruct (normal_halfwidth _ _ _) as [w|]; [|discriminate].
  intros [= <-]. cbn. repeat split. exists w. auto.
Qed.

Lemma between_finite mn m mx :
  b64_is_finite mn = true -> b64_is_finite mx = true ->
  b64_le mn m = true -> b64_le m mx = true -> b64_is_finite m = true.
Proof.
  intros Fn Fx L1 L2. destruct m as [s|[|]| |s mm e]; try reflexivity; exfalso.
  - destruct mn as [s|s| |[|] m' e']; discriminate.
  - destruct mx as [s|s| |[|] m' e']; discriminate.
  - destruct mn as [s|s| |[|] m' e']; discriminate.
Qed.

Lemma halfwidth_nonneg tinv_o xs conf w :
  (forall a tq, tinv_o a = Some tq -> valid tq = true /\ b64_le tq f_zero = true) ->
  Forall (fun x => valid x = true) xs -> zlen xs < 2 ^ 53 ->
  normal_halfwidth tinv_o xs conf = Some w -> b64_is_nan w = false ->
  valid w = true /\ nonneg w.
Proof.
  intros Ho Hv Hlen. unfold normal_halfwidth.
  destruct (b64_le conf f_zero); [intros [= <-] _; split; reflexivity|].
  destruct (b64_ge conf b64_one); [intros [= <-] _; split; reflexivity|]. cbn [orb].
  destruct (_ <=? 1) eqn:Hgt; [intros [= <-] _; split; reflexivity|]. apply Z.leb_gt in Hgt.
  assert (Hlen' : 1 <= Z.of_nat (length xs) < 2 ^ 53) by (split; [apply Z.lt_le_incl, Hgt|exact Hlen]).
  destruct (tinv_o _) as [tq|] eqn:T; [|discriminate]. intros [= <-] Hn.
  destruct (Ho _ _ T) as [Vt Lt].
  destruct (div_nan_args _ _ Hn) as [Hn1 Hn2]. destruct (mul_nan_args _ _ Hn1) as [_ Hn3].
  split.
  - apply b64_div_valid; [apply valid_mul; [now apply valid_neg|]|].
    + apply valid_sqrt, valid_variance, Hv.
    + apply valid_sqrt, valid_of_Z.
  - apply nonneg_div; auto.
    + apply nonneg_mul; auto; [now apply nonneg_neg|now apply nonneg_sqrt].
    + apply sqrt_len_positive. exact Hlen'.
Qed.

Theorem normal_interval_contains_mean tinv_o :
  (forall a tq, tinv_o a = Some tq -> valid tq = true /\ b64_le tq f_zero = true) ->
  forall vs t conf sm,
  vs <> [] -> Forall fin_valid vs -> zlen vs < 2 ^ 53 ->
  normal_no_overflow tinv_o (sort_f vs) conf = true ->
  summary_normal tinv_o (new_sample vs t) conf = Some sm ->
  sm_center sm = mean_f (sort_f vs)
  /\ b64_is_finite (sm_center sm) = true
  /\ b64_le (sm_lo sm) (sm_center sm) = true /\ b64_le (sm_center sm) (sm_hi sm) = true.
Proof.
  intros Ho vs t conf sm Hne Hall Hlen Hg Hs.
  apply normal_summary_centre_is_mean in Hs. cbn [new_sample s_values] in Hs.
  destruct Hs as (Ec & _ & _ & w & Ew & Elo & Ehi).
  set (xs := sort_f vs) in *.
  pose proof (sort_f_Forall fin_valid vs Hall) as Hall'. fold xs in Hall'.
  assert (Hv : Forall (fun x => valid x = true) xs) by (eapply Forall_impl; [|exact Hall']; now intros x [V _]).
  assert (Hl : length xs = length vs).
  { unfold xs. now rewrite <- (Permutation.Permutation_length (sort_f_perm vs)). }
  assert (Hne' : xs <> []) by (intros E; rewrite E in Hl; destruct vs; [congruence|discriminate]).
  unfold normal_no_overflow in Hg. rewrite Ew in Hg. apply andb_prop in Hg as [Hm Hw].
  apply negb_true_iff in Hw.
  assert (Hlen' : zlen xs < 2 ^ 53) by (unfold zlen in *; lia).
  destruct (halfwidth_nonneg tinv_o xs conf w Ho Hv Hlen' Ew Hw) as [Vw Nw].
  (* the mean is a finite valid number *)
  pose proof (min_le_mean_le_max_b64 xs Hne' Hall' ltac:(unfold zlen in Hlen; lia) Hm) as [L1 L2].
  assert (HNN : Forall not_nan xs).
  { eapply Forall_impl; [|exact Hall']. intros x [_ F]. unfold not_nan. destruct x; auto; discriminate. }
  pose proof (bounds_are_extremes xs Hne' HNN) as HB.
  destruct (bounds_f xs) as [mn mx]. destruct HB as (Imn & Imx & _). cbn [fst snd] in L1, L2.
  rewrite Forall_forall in Hall'.
  assert (Fm : b64_is_finite (mean_f xs) = true).
  { apply (between_finite mn (mean_f xs) mx); auto; [apply (Hall' _ Imn)|apply (Hall' _ Imx)]. }
  destruct (around_self (mean_f xs) w (valid_mean xs Hv) Fm Vw Nw) as [A1 A2].
  rewrite Ec, Elo, Ehi. auto.
Qed.
