(** The Mann-Whitney recurrence is a counting identity of the specification:
    with c_{n,m}(u) = number of choices of n out of n+m untied pooled values with
    U = u,   c_{n,m}(u) = c_{n-1,m}(u - m) + c_{n,m-1}(u).
    (UDist.p runs this recurrence, scaled by C(n+m,n), in float64.) *)
From Coq Require Import ZArith List Bool Lia Permutation.
From Perf Require Import Model.UStat Model.UDistSpec Model.UDistImpl.
From Perf Require Import Proofs.UStat Proofs.UDistSpec Proofs.UDistImpl.
Import ListNotations.
Local Open Scope Z_scope.

Theorem count_if_snoc P t tK n : Forall (fun x => 0 <= x) t -> 0 <= tK ->
  count_if P (t ++ [tK]) n
  = sumf (fun rK => choose tK rK * count_if (fun w => P (w + rK * (2 * zsum t + tK - 2 * n + rK))) t (n - rK)) (zrange 0 tK).
Proof.
  intros Ht HtK. unfold count_if. rewrite (sumf_vecs_snoc t Ht tK HtK).
  apply sumf_ext. intros rK. rewrite <- sumf_scale. apply sumf_ext_in. intros r' Hr'.
  destruct (vecs_in _ _ _ Hr') as (Hl & Hs & _).
  unfold twoU_of. rewrite combine_snoc by (symmetry; exact Hl). rewrite twoU_vec_snoc, sumv_combine by exact Hl.
  rewrite weight_snoc by exact Hl. rewrite Hs.
  replace (twoU_vec 0 (combine t r') + rK * (2 * (0 + (zsum t - (n - rK))) + (tK - rK)))
    with (twoU_vec 0 (combine t r') + rK * (2 * zsum t + tK - 2 * n + rK)) by ring.
  destruct (P _); lia.
Qed.

Definition ones (N : Z) : list Z := repeat 1 (Z.to_nat N).
(** number of choices with U = u (2U = 2u) for n out of n+m untied values *)
Definition cuntied (n m u : Z) : Z := count_eq (ones (n + m)) n (2 * u).

Lemma ones_snoc N : 0 <= N -> ones (N + 1) = ones N ++ [1].
Proof.
  intros HN. unfold ones. replace (Z.to_nat (N + 1)) with (S (Z.to_nat N)) by lia.
  generalize (Z.to_nat N) as k. induction k as [|k IH]; [reflexivity|].
  cbn [repeat app] in *. now rewrite IH.
Qed.
Lemma ones_nonneg N : Forall (fun x => 0 <= x) (ones N).
Proof. unfold ones. generalize (Z.to_nat N) as k. induction k; cbn [repeat]; constructor; [lia | assumption]. Qed.
Lemma ones_sum N : 0 <= N -> zsum (ones N) = N.
Proof.
  intros HN. unfold ones. rewrite <- (Z2Nat.id N HN) at 2. generalize (Z.to_nat N) as k.
  induction k as [|k IH]; [reflexivity|]. cbn [repeat]. change (zsum (1 :: repeat 1 k)) with (1 + zsum (repeat 1 k)). lia.
Qed.

Theorem mann_whitney_recurrence n m u : 1 <= n -> 1 <= m ->
  cuntied n m u = cuntied (n - 1) m (u - m) + cuntied n (m - 1) u.
Proof.
  intros Hn Hm. unfold cuntied, count_eq.
  replace (n + m) with ((n + m - 1) + 1) by lia. rewrite ones_snoc by lia.
  rewrite count_if_snoc by (apply ones_nonneg || lia). rewrite ones_sum by lia.
  unfold zrange. replace (Z.to_nat (1 - 0 + 1)) with 2%nat by lia. cbn [zrange_aux]. rewrite !sumf_cons. cbn [sumf fold_right].
  replace (choose 1 0) with 1 by reflexivity. replace (choose 1 (0 + 1)) with 1 by reflexivity.
  replace (n - 1 + m) with (n + m - 1) by lia. replace (n + (m - 1)) with (n + m - 1) by lia.
  replace (n - 0) with n by lia. replace (n - (0 + 1)) with (n - 1) by lia.
  unfold count_if.
  assert (E1 : forall w, (w + 0 * (2 * (n + m - 1) + 1 - 2 * n + 0) =? 2 * u) = (w =? 2 * u)) by (intros; f_equal; lia).
  assert (E2 : forall w, (w + (0 + 1) * (2 * (n + m - 1) + 1 - 2 * n + (0 + 1)) =? 2 * u) = (w =? 2 * (u - m))).
  { intros w. destruct (Z.eqb_spec (w + (0 + 1) * (2 * (n + m - 1) + 1 - 2 * n + (0 + 1))) (2 * u)), (Z.eqb_spec w (2 * (u - m))); lia. }
  rewrite (sumf_ext _ (fun r => if twoU_of (ones (n + m - 1)) r =? 2 * u then weight (ones (n + m - 1)) r else 0) (vecs (ones (n + m - 1)) n))
    by (intros r; now rewrite E1).
  rewrite (sumf_ext _ (fun r => if twoU_of (ones (n + m - 1)) r =? 2 * (u - m) then weight (ones (n + m - 1)) r else 0) (vecs (ones (n + m - 1)) (n - 1)))
    by (intros r; now rewrite E2).
  lia.
Qed.

(** boundary: nothing chosen, or everything chosen *)
Example cuntied_small : cuntied 0 3 0 = 1 /\ cuntied 0 3 1 = 0 /\ cuntied 2 0 0 = 1 /\ cuntied 2 2 2 = 2 /\ cuntied 3 5 7 = 6.
Proof. vm_compute. repeat split. Qed.

(** bounded check (labelled): the table organisation of UDist.p in the model
    ([p_counts]: rows m, mirrored entry at n = m, in-place update, truncation at U)
    yields these counts, for all n, m <= 6, all U and all u <= U *)
Example p_counts_agree_bounded :
  forallb (fun n => forallb (fun m => forallb (fun U =>
     forallb (fun u => nth (Z.to_nat u) (p_counts n m U) 0 =? cuntied n m u) (zrange 0 U))
     (zrange 0 (n * m))) (zrange 1 6)) (zrange 1 6) = true.
Proof. vm_compute. reflexivity. Qed.
