(** C09: the model's parseNum / num comparator / fixed comparator meet their
    declarative specifications (Model/Sort.v, "Specification"). *)
From Perf Require Import Base.Bytes Base.B64 Model.Name Model.Key Model.Projection Model.Sort
  Proofs.Sort.
Local Open Scope Z_scope.

(** ** the scanner is "leftmost maximal run of [0-9.]" *)
Lemma drop_nonnum_spec s : drop_nonnum s = drop_while (fun c => negb (is_numch c)) s.
Proof. induction s as [|c s IH]; cbn; auto. destruct (is_numch c); cbn; auto. Qed.

Lemma span_num_spec s : span_num s = (take_while is_numch s, drop_while is_numch s).
Proof.
  induction s as [|c s IH]; cbn; auto. destruct (is_numch c); auto. now rewrite IH.
Qed.

(** that run really is: preceded by no such byte, non-empty, maximal *)
Lemma take_drop_while f s : s = take_while f s ++ drop_while f s.
Proof. induction s as [|c s IH]; cbn; auto. destruct (f c); cbn; congruence. Qed.

Lemma take_while_all f s : forallb f (take_while f s) = true.
Proof. induction s as [|c s IH]; cbn; auto. destruct (f c) eqn:E; cbn; auto. now rewrite E. Qed.

Lemma drop_while_head f s : match drop_while f s with c :: _ => f c = false | [] => True end.
Proof. induction s as [|c s IH]; cbn; auto. destruct (f c) eqn:E; auto. Qed.

Theorem leftmost_run_spec x :
  let s := drop_while (fun c => negb (is_numch c)) x in
  let pre := take_while (fun c => negb (is_numch c)) x in
  let run := take_while is_numch s in
  let rest := drop_while is_numch s in
  x = pre ++ run ++ rest /\
  forallb (fun c => negb (is_numch c)) pre = true /\
  forallb is_numch run = true /\
  (run = [] -> rest = []) /\
  match rest with c :: _ => is_numch c = false | [] => True end.
Proof.
  cbn. repeat split.
  - rewrite <- take_drop_while. apply take_drop_while.
  - apply take_while_all.
  - apply take_while_all.
  - pose proof (drop_while_head (fun c => negb (is_numch c)) x) as H.
    destruct (drop_while (fun c => negb (is_numch c)) x) as [|c s]; cbn; auto.
    apply negb_false_iff in H. rewrite H. discriminate.
  - apply drop_while_head.
Qed.

(** ** the prefix letters *)
Definition is_prefix_letter (c : byte) : bool :=
  Byte.eqb c c_k || match index_of c num_prefixes with Some _ => true | None => false end.

Lemma prefix_letter_table c :
  match assoc_byte c si_exponents with
  | Some e => is_prefix_letter c = true /\ prefix_exp [c] = e /\ Byte.eqb c c_i = false /\ (e <= 8)%nat
  | None => is_prefix_letter c = false
  end.
Proof. destruct c; cbn; repeat split; auto; lia. Qed.

Section NumSpecProofs.
Variable parse_float : bytes -> option b64.
Variable pow : bool -> nat -> b64.

(** the one fact used about math.Pow: for the nine exponents the code can ask
    for, it returns the correctly rounded power (exact except for 1000^8);
    checked on the recorded table of every case (RunC09.pow_table_ok) *)
Hypothesis pow_rounded : forall (iec : bool) (e : nat), (e <= 8)%nat ->
  pow iec e = b64_of_Z ((if iec then 1024 else 1000) ^ Z.of_nat e).

Lemma suffix_value rest :
  let g2 := match rest with
            | c :: rest' =>
                if is_prefix_letter c
                then match rest' with d :: _ => if Byte.eqb d c_i then [c; d] else [c] | [] => [c] end
                else []
            | [] => []
            end in
  pow (prefix_iec g2) (prefix_exp g2) = b64_of_Z (suffix_multiplier rest).
Proof.
  cbn. destruct rest as [|c rest']; cbn [suffix_multiplier].
  - rewrite pow_rounded by (cbn; lia). reflexivity.
  - pose proof (prefix_letter_table c) as T. destruct (assoc_byte c si_exponents) as [e|].
    + destruct T as [T1 [T2 [T3 T4]]]. rewrite T1.
      assert (forall r, prefix_exp (c :: r) = e) as Hexp by (intros r; exact T2).
      destruct rest' as [|d r].
      * rewrite pow_rounded by (rewrite Hexp; auto). rewrite Hexp.
        unfold prefix_iec. cbn. now rewrite T3.
      * destruct (Byte.eqb d c_i) eqn:Ed.
        -- rewrite pow_rounded by (rewrite Hexp; auto). rewrite Hexp.
           unfold prefix_iec. cbn. now rewrite Ed.
        -- rewrite pow_rounded by (rewrite Hexp; auto). rewrite Hexp.
           unfold prefix_iec. cbn. now rewrite T3.
    + rewrite T. rewrite pow_rounded by (cbn; lia). reflexivity.
Qed.

(** num_spec: parseNum computes the denoted value *)
Theorem num_spec x : parse_num parse_float pow x = num_denote parse_float x.
Proof.
  unfold parse_num, num_denote. destruct (parse_float x); auto.
  unfold num_match. rewrite drop_nonnum_spec.
  set (s := drop_while (fun c => negb (is_numch c)) x).
  pose proof (drop_while_head (fun c => negb (is_numch c)) x) as Hh. fold s in Hh.
  destruct s as [|c0 s0] eqn:Es; [reflexivity|].
  apply negb_false_iff in Hh.
  rewrite span_num_spec.
  assert (take_while is_numch (c0 :: s0) = c0 :: take_while is_numch s0) as Htw by (cbn; now rewrite Hh).
  rewrite Htw. destruct (parse_float (c0 :: take_while is_numch s0)); auto.
  f_equal. f_equal. exact (suffix_value (drop_while is_numch (c0 :: s0))).
Qed.

(** the num comparator is the specified order on the denoted values *)
Lemma nan_eq x : b64_is_nan x = true -> x = S754_nan.
Proof. destruct x; cbn; congruence. Qed.

Theorem cmp_num_is_num_order a b :
  cmp_num parse_float pow a b =
  match num_order (num_denote parse_float a) (num_denote parse_float b) with
  | Lt => -1 | Eq => 0 | Gt => 1 end.
Proof.
  unfold cmp_num. rewrite !num_spec.
  destruct (num_denote parse_float a) as [x|], (num_denote parse_float b) as [y|];
    unfold num_order; cbn [num_class]; try reflexivity.
  - destruct (b64_is_nan x) eqn:Nx, (b64_is_nan y) eqn:Ny; cbn.
    + apply nan_eq in Nx, Ny. subst. reflexivity.
    + apply nan_eq in Nx. subst. rewrite b64_lt_nan_l, b64_lt_nan_r. reflexivity.
    + apply nan_eq in Ny. subst. rewrite b64_lt_nan_r. reflexivity.
    + rewrite !orb_false_r. destruct (b64_lt x y); auto. destruct (b64_lt y x); auto.
  - destruct (b64_is_nan x); reflexivity.
  - destruct (b64_is_nan y); reflexivity.
Qed.

(** what [less] decides on a num field is [num_before] *)
Theorem val_less_num a b :
  val_less (cmp_num parse_float pow) a b = num_before parse_float a b.
Proof.
  unfold val_less, num_before. rewrite cmp_num_is_num_order.
  destruct (num_order _ _); reflexivity.
Qed.

End NumSpecProofs.

(** ** fixed lists *)
Lemma last_index_absent v l : forall i acc, ~ In v l -> last_index v l i acc = acc.
Proof.
  induction l as [|x l IH]; intros i acc H; cbn; auto.
  destruct (beq_spec x v) as [->|Hne]; [exfalso; apply H; now left|].
  apply IH. intros Hin. apply H. now right.
Qed.

Lemma last_index_split v l1 l2 : forall i acc,
  ~ In v l2 -> last_index v (l1 ++ v :: l2) i acc = (i + length l1)%nat.
Proof.
  induction l1 as [|x l1 IH]; intros i acc H; cbn.
  - rewrite beq_refl, last_index_absent by auto. lia.
  - rewrite IH by auto. lia.
Qed.

Lemma in_split_last (v : bytes) l : In v l -> exists l1 l2, l = l1 ++ v :: l2 /\ ~ In v l2.
Proof.
  induction l as [|x l IH]; [contradiction|]. intros H.
  destruct (in_dec (fun a b => match beq_spec a b with ReflectT _ e => left e | ReflectF _ n => right n end) v l)
    as [Hin|Hnin].
  - destruct (IH Hin) as [l1 [l2 [-> H2]]]. exists (x :: l1), l2. auto.
  - destruct H as [->|H]; [|contradiction]. exists [], l. auto.
Qed.

(** fixed_spec: the rank of a listed word is the LAST position at which it is
    listed; an unlisted word has rank 0 (Go's missing map key) *)
Theorem fixed_spec l v :
  (In v l -> last_listed_at l v (fixed_rank l v)) /\ (~ In v l -> fixed_rank l v = 0%nat).
Proof.
  split.
  - intros H. destruct (in_split_last v l H) as [l1 [l2 [-> H2]]].
    unfold fixed_rank. rewrite last_index_split by auto. cbn. split.
    + rewrite nth_error_app2 by lia. now rewrite Nat.sub_diag.
    + intros q Hq Hn. apply H2.
      rewrite nth_error_app2 in Hn by lia.
      destruct (q - length l1)%nat as [|m] eqn:E; [lia|]. cbn in Hn. eapply nth_error_In; eauto.
  - intros H. unfold fixed_rank. now apply last_index_absent.
Qed.

(** for a list without repetitions: listed words compare by their positions *)
Corollary fixed_spec_nodup l i j a b :
  NoDup l -> nth_error l i = Some a -> nth_error l j = Some b ->
  cmp_fixed l a b = Z.of_nat i - Z.of_nat j.
Proof.
  intros Hnd Ha Hb. unfold cmp_fixed.
  assert (forall k v, nth_error l k = Some v -> fixed_rank l v = k) as R.
  { intros k v Hk. destruct (fixed_spec l v) as [F _].
    destruct (F (nth_error_In _ _ Hk)) as [H1 _].
    eapply (proj1 (NoDup_nth_error l) Hnd); [apply nth_error_Some; congruence|congruence]. }
  now rewrite (R _ _ Ha), (R _ _ Hb).
Qed.
