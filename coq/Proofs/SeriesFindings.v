(** SeriesFindings: the recorded order / map-order dependences of
    benchseries.Builder on result sets outside the well-formed domain, evaluated
    on the model (vm_compute on concrete sets), and what [excuses]
    (Model/SeriesFindings.v) excuses on them.  The order-dependence witnesses of
    the four classes are in Proofs/SeriesWitness.v (order_dependent_a .. _d). *)
From Coq Require Import Permutation Strings.String.
From Perf Require Import Base.Bytes Base.Usort Model.Dates Model.Series Model.SeriesSpec Model.SeriesFindings
     Proofs.SeriesWitness Proofs.SeriesSpec.
Local Open Scope Z_scope.

(** class B, DUPE_COMBINE, deterministic: two commits with one commit time in
    ONE trial - the single baseline measurement (10) is counted once per test
    hash, whereas "exactly the measurements whose ... role match" is [10] *)
Definition wit_b2 := [mk e1 s1 RDen "" "d" 10; mk e1 s1 RNum "h1" "d" 1; mk e1 s1 RNum "h2" "d" 2].

Lemma combine_counts_baseline_twice :
  option_map (map (fun s => map oc_den (se_cells s))) (out true wit_b2) = Some [[[10; 10]]] /\
  option_map (map (fun s => map oc_den (se_cells s))) (spec_series true wit_b2) = Some [[[10]]] /\
  option_map (map (fun s => map oc_num (se_cells s))) (out true wit_b2) = Some [[[1; 2]]].
Proof. vm_compute. repeat split; reflexivity. Qed.

(** what is excused on the witnesses: A - the two stamps of the hash, entirely;
    B (two numerator hashes in one trial) - the hash pair of the point and the
    cell; C - the denominator hash of the pair of the point, nothing else;
    D - the cell under DUPE_REPLACE, nothing under DUPE_COMBINE *)
Definition n1 := bs "2021-12-01T00:00:00+00:00".
Definition n2 := bs "2021-12-02T00:00:00+00:00".

Lemma excuses_on_witnesses :
  excuses true false wit_a = [mkEx [n1; n2] [] [] []] /\
  excuses true false wit_b2 = [mkEx [] [n1; n1] [] [(bs "A", n1); (bs "A", n1)]] /\
  excuses true false wit_c = [mkEx [] [] [n1] []] /\
  excuses true false wit_d = [mkEx [] [] [] [(bs "A", n1); (bs "A", n1)]] /\
  excuses true true wit_d = [ex_none] /\
  excuses false false wit_a = [ex_none].
Proof. vm_compute. repeat split; reflexivity. Qed.

(** nothing is excused on a well-formed set (the 11-result example over 2
    tables, 3 benchmarks, 2 experiments, 2 series points) *)
Lemma excuses_none_on_example :
  wf_a_norm Ex.rs && wf_b Ex.rs && wf_c Ex.rs && wf_d Ex.rs = true /\
  forallb ex_empty (excuses true false Ex.rs) = true /\ forallb ex_empty (excuses true true Ex.rs) = true /\
  exA_err Ex.rs (bad_hashes Ex.rs) = false.
Proof. vm_compute. repeat split; reflexivity. Qed.

(** an ill-formed trial in one table leaves the other table judged in full:
    wit_c in table "t1" next to a well-formed table "t2" *)
Definition in_tab (t : string) (r : res) : res :=
  mkRes (r_unit r) (bs t) (r_bench r) (r_exp r) (r_ser r) (r_role r) (r_nh r) (r_dh r) (r_val r).
Definition wit_two_tables := map (in_tab "t1") wit_c ++ map (in_tab "t2") [mk e1 s2 RDen "k" "dk" 5; mk e1 s2 RNum "k" "dk" 6].

Lemma excuses_per_table :
  excuses true false wit_two_tables = [mkEx [] [] [n1] []; ex_none].
Proof. vm_compute. reflexivity. Qed.
