(** The in-place configuration of benchfmt.Result (slots + configPos, with
    append / slot reuse / swap-delete) refines a finite map. *)
From Perf Require Import Base.Bytes Model.Name Model.Extract Model.Reader.

(** ** association lists of the index *)
Lemma beq_sym a b : beq a b = beq b a.
Proof. destruct (beq_spec a b), (beq_spec b a); congruence. Qed.

Lemma pos_find_del p k k' :
  pos_find (pos_del p k) k' = if beq k k' then None else pos_find p k'.
Proof.
  unfold pos_find, pos_del. induction p as [|[a i] p IH]; cbn [filter find fst snd].
  - now destruct (beq k k').
  - destruct (beq_spec a k) as [->|Hn]; cbn [negb find fst snd].
    + destruct (beq_spec k k') as [->|Hn']; [exact IH|exact IH].
    + destruct (beq_spec a k') as [->|Hn'].
      * destruct (beq_spec k k'); [congruence|reflexivity].
      * exact IH.
Qed.

Lemma pos_find_set p k i k' :
  pos_find (pos_set p k i) k' = if beq k k' then Some i else pos_find p k'.
Proof.
  unfold pos_set. unfold pos_find at 1. cbn [find fst snd].
  destruct (beq_spec k k') as [->|Hn]; auto.
  fold (pos_find (pos_del p k) k'). rewrite pos_find_del.
  destruct (beq_spec k k'); [congruence|reflexivity].
Qed.

(** ** set_nth *)
Lemma set_nth_length {A} n (x : A) l : length (set_nth n x l) = length l.
Proof. revert n; induction l as [|y l IH]; intros [|n]; cbn; auto. Qed.

Lemma nth_error_set_nth {A} n (x : A) l i :
  nth_error (set_nth n x l) i =
  if (i =? n)%nat then (if (n <? length l)%nat then Some x else None) else nth_error l i.
Proof.
  revert n i; induction l as [|y l IH]; intros n i.
  - destruct n, i; cbn; auto. now destruct (i =? n)%nat.
  - destruct n, i; cbn [set_nth nth_error Nat.eqb length]; auto. rewrite IH. reflexivity.
Qed.

(** ** the live slots as a partial function of the index *)
Definition slot_at (st : cstate) (i : nat) : option cfg :=
  if (i <? cs_len st)%nat then nth_error (cs_slots st) i else None.

Definition inv (st : cstate) : Prop :=
  (cs_len st <= length (cs_slots st))%nat /\
  forall k i, pos_find (cs_pos st) k = Some i <-> exists c, slot_at st i = Some c /\ c_key c = k.

(** the map a state denotes *)
Definition denotes (st : cstate) (k : bytes) : option cfg :=
  match pos_find (cs_pos st) k with Some i => slot_at st i | None => None end.

Lemma nth_error_firstn_lt {A} (l : list A) : forall n i, (i < n)%nat -> nth_error (firstn n l) i = nth_error l i.
Proof.
  induction l as [|x l IH]; intros n i H.
  - now rewrite firstn_nil.
  - destruct n; [lia|]. destruct i; cbn; auto. apply IH. lia.
Qed.

Lemma slot_at_live st i : slot_at st i = nth_error (live st) i.
Proof.
  unfold slot_at, live. destruct (i <? cs_len st)%nat eqn:E.
  - apply Nat.ltb_lt in E. now rewrite nth_error_firstn_lt by exact E.
  - apply Nat.ltb_ge in E. symmetry. apply nth_error_None. rewrite firstn_length. lia.
Qed.

Lemma cfg_lookup_first l k :
  match cfg_lookup l k with
  | Some c => exists i, nth_error l i = Some c /\ c_key c = k /\
                        forall j c', (j < i)%nat -> nth_error l j = Some c' -> c_key c' <> k
  | None => forall j c', nth_error l j = Some c' -> c_key c' <> k
  end.
Proof.
  induction l as [|x l IH]; cbn.
  - intros [|j] c'; cbn; discriminate.
  - destruct (beq_spec (c_key x) k) as [E|Hn].
    + exists 0%nat. cbn. repeat split; auto. intros; lia.
    + destruct (cfg_lookup l k) as [c|].
      * destruct IH as (i & Hi & Hk & Hm). exists (S i). cbn. repeat split; auto.
        intros [|j] c' Hj; cbn; [intros [= <-]; auto|]. intros H. eapply Hm; eauto. lia.
      * intros [|j] c'; cbn; [intros [= <-]; auto|]. apply IH.
Qed.

(** under the invariant the linear search of the live slots is the indexed lookup *)
Lemma lookup_denotes st k : inv st -> cfg_lookup (live st) k = denotes st k.
Proof.
  intros [Hlen Hinv]. unfold denotes.
  pose proof (cfg_lookup_first (live st) k) as H.
  destruct (cfg_lookup (live st) k) as [c|].
  - destruct H as (i & Hi & Hk & _). rewrite <- slot_at_live in Hi.
    assert (Hp : pos_find (cs_pos st) k = Some i) by (apply Hinv; eauto).
    now rewrite Hp, Hi.
  - destruct (pos_find (cs_pos st) k) as [i|] eqn:Hp; auto.
    apply Hinv in Hp as (c & Hc & Hk). rewrite slot_at_live in Hc. exfalso. eapply H; eauto.
Qed.

Lemma inv_keys_unique st i j c d :
  inv st -> slot_at st i = Some c -> slot_at st j = Some d -> c_key c = c_key d -> i = j.
Proof.
  intros [_ Hinv] Hi Hj E.
  assert (H1 : pos_find (cs_pos st) (c_key c) = Some i) by (apply Hinv; eauto).
  assert (H2 : pos_find (cs_pos st) (c_key c) = Some j) by (apply Hinv; eauto).
  congruence.
Qed.

Lemma inv_nodup st : inv st -> NoDup (map c_key (live st)).
Proof.
  intros Hinv. apply (proj2 (NoDup_nth_error (map c_key (live st)))). intros i j Hi E.
  rewrite map_length in Hi.
  rewrite !nth_error_map in E.
  destruct (nth_error (live st) i) as [c|] eqn:Ei; [|apply nth_error_None in Ei; lia].
  destruct (nth_error (live st) j) as [d|] eqn:Ej; [|discriminate].
  rewrite <- slot_at_live in Ei, Ej. cbn in E. injection E as E.
  eapply inv_keys_unique; eauto.
Qed.

Lemma inv_reset slots : inv (mkCstate slots 0 []).
Proof.
  split; [cbn; lia|]. intros k i. unfold slot_at. cbn. split; [discriminate|].
  intros (c & H & _). discriminate.
Qed.

(** ** ensureConfig *)
Lemma ensure_spec st k v f : inv st ->
  inv (ensure_config st k v f) /\
  forall k', denotes (ensure_config st k v f) k' =
             if beq k k' then Some (mkCfg k v f) else denotes st k'.
Proof.
  intros Hinv. pose proof Hinv as [Hlen HI]. unfold ensure_config.
  destruct (pos_find (cs_pos st) k) as [p|] eqn:Hp.
  - (* present: overwritten in place *)
    pose proof Hp as Hp'. apply HI in Hp' as (old & Hold & Hk).
    unfold slot_at in Hold. destruct (p <? cs_len st)%nat eqn:Hpl; [|discriminate].
    apply Nat.ltb_lt in Hpl. rewrite Hold. rewrite Hk.
    set (st' := mkCstate (set_nth p (mkCfg k v f) (cs_slots st)) (cs_len st) (cs_pos st)).
    assert (Hs : forall i, slot_at st' i = if (i =? p)%nat then Some (mkCfg k v f) else slot_at st i).
    { intros i. unfold slot_at, st'. cbn [cs_len cs_slots]. rewrite nth_error_set_nth.
      destruct (Nat.eqb_spec i p) as [->|Hne]; auto.
      replace (p <? cs_len st)%nat with true by (symmetry; apply Nat.ltb_lt; lia).
      replace (p <? length (cs_slots st))%nat with true by (symmetry; apply Nat.ltb_lt; lia). reflexivity. }
    split.
    + split; [unfold st'; cbn; rewrite set_nth_length; exact Hlen|].
      intros k' i. unfold st' at 1. cbn [cs_pos]. rewrite HI, Hs.
      destruct (Nat.eqb_spec i p) as [->|Hne]; [|reflexivity].
      unfold slot_at. replace (p <? cs_len st)%nat with true by (symmetry; apply Nat.ltb_lt; lia).
      rewrite Hold. split; intros (c & [= <-] & E); eexists; split; eauto; cbn in *; congruence.
    + intros k'. unfold denotes. unfold st' at 1. cbn [cs_pos].
      destruct (beq_spec k k') as [<-|Hne].
      * rewrite Hp, Hs, Nat.eqb_refl. reflexivity.
      * destruct (pos_find (cs_pos st) k') as [i|] eqn:Hi; auto. rewrite Hs.
        destruct (Nat.eqb_spec i p) as [->|]; auto. exfalso.
        apply HI in Hi as (c & Hc & Hkc). unfold slot_at in Hc.
        rewrite (proj2 (Nat.ltb_lt _ _) Hpl) in Hc. congruence.
  - (* absent: appended, or the slot behind the live ones is reused *)
    set (x := mkCfg k v f). set (n := cs_len st).
    set (sl := if (n <? length (cs_slots st))%nat then set_nth n x (cs_slots st) else cs_slots st ++ [x]).
    set (st' := mkCstate sl (S n) (pos_set (cs_pos st) k n)).
    assert (Hnth : forall i, (i <= n)%nat -> nth_error sl i = if (i =? n)%nat then Some x else nth_error (cs_slots st) i).
    { intros i Hi. unfold sl. destruct (n <? length (cs_slots st))%nat eqn:E.
      - rewrite nth_error_set_nth. destruct (i =? n)%nat; auto. now rewrite E.
      - apply Nat.ltb_ge in E. assert (length (cs_slots st) = n) by (unfold n in *; lia).
        destruct (Nat.eqb_spec i n) as [->|Hne].
        + rewrite nth_error_app2 by lia. replace (n - length (cs_slots st))%nat with 0%nat by lia. reflexivity.
        + rewrite nth_error_app1 by lia. reflexivity. }
    assert (Hs : forall i, slot_at st' i = if (i =? n)%nat then Some x else slot_at st i).
    { intros i. unfold slot_at, st'. cbn [cs_len cs_slots]. fold n.
      destruct (Nat.eqb_spec i n) as [->|Hne].
      - replace (n <? S n)%nat with true by (symmetry; apply Nat.ltb_lt; lia). rewrite Hnth by lia.
        now rewrite Nat.eqb_refl.
      - destruct (i <? n)%nat eqn:E.
        + replace (i <? S n)%nat with true by (symmetry; apply Nat.ltb_lt; apply Nat.ltb_lt in E; lia).
          apply Nat.ltb_lt in E. rewrite Hnth by lia. destruct (Nat.eqb_spec i n); [lia|reflexivity].
        + replace (i <? S n)%nat with false by (symmetry; apply Nat.ltb_ge; apply Nat.ltb_ge in E; lia).
          reflexivity. }
    assert (Hnone : slot_at st n = None).
    { unfold slot_at. fold n. now rewrite Nat.ltb_irrefl. }
    split.
    + split.
      { unfold st', sl. cbn [cs_len cs_slots]. destruct (n <? length (cs_slots st))%nat eqn:E.
        - rewrite set_nth_length. apply Nat.ltb_lt in E. lia.
        - rewrite app_length. cbn. unfold n in *. lia. }
      intros k' i. unfold st' at 1. cbn [cs_pos]. rewrite pos_find_set, Hs.
      destruct (beq_spec k k') as [<-|Hne].
      * split.
        -- intros [= <-]. rewrite Nat.eqb_refl. exists x. auto.
        -- intros (c & Hc & Hk). destruct (Nat.eqb_spec i n) as [->|Hin]; auto.
           assert (pos_find (cs_pos st) k = Some i) by (apply HI; eauto). congruence.
      * rewrite HI. destruct (Nat.eqb_spec i n) as [->|Hin]; [|reflexivity].
        rewrite Hnone. split; intros (c & Hc & Hk); [discriminate|].
        injection Hc as <-. cbn in Hk. congruence.
    + intros k'. unfold denotes. unfold st' at 1. cbn [cs_pos]. rewrite pos_find_set.
      destruct (beq_spec k k') as [<-|Hne].
      * now rewrite Hs, Nat.eqb_refl.
      * destruct (pos_find (cs_pos st) k') as [i|] eqn:Hi; auto. rewrite Hs.
        destruct (Nat.eqb_spec i n) as [->|]; auto.
        apply HI in Hi as (c & Hc & _). congruence.
Qed.

(** ** deleteConfig *)
Lemma delete_spec st k : inv st ->
  inv (delete_config st k) /\
  forall k', denotes (delete_config st k) k' = if beq k k' then None else denotes st k'.
Proof.
  intros Hinv. pose proof Hinv as [Hlen HI]. unfold delete_config.
  destruct (pos_find (cs_pos st) k) as [p|] eqn:Hp.
  2:{ split; auto. intros k'. destruct (beq_spec k k') as [<-|]; auto. unfold denotes. now rewrite Hp. }
  pose proof Hp as Hp'. apply HI in Hp' as (a & Ha & Hka).
  assert (Hpl : (p < cs_len st)%nat).
  { unfold slot_at in Ha. destruct (p <? cs_len st)%nat eqn:E; [now apply Nat.ltb_lt|discriminate]. }
  set (last := (cs_len st - 1)%nat).
  assert (Hll : (last < cs_len st)%nat) by (unfold last; lia).
  destruct (nth_error (cs_slots st) last) as [b|] eqn:Hb.
  2:{ apply nth_error_None in Hb. lia. }
  assert (Hsb : slot_at st last = Some b).
  { unfold slot_at. now rewrite (proj2 (Nat.ltb_lt _ _) Hll). }
  assert (Hna : nth_error (cs_slots st) p = Some a).
  { unfold slot_at in Ha. now rewrite (proj2 (Nat.ltb_lt _ _) Hpl) in Ha. }
  rewrite Hna.
  set (st' := mkCstate (set_nth last a (set_nth p b (cs_slots st))) last
                       (pos_del (pos_set (cs_pos st) (c_key b) p) k)).
  assert (Hs : forall i, slot_at st' i =
                         if (i <? last)%nat then (if (i =? p)%nat then Some b else slot_at st i) else None).
  { intros i. unfold slot_at at 1. unfold st'. cbn [cs_len cs_slots].
    destruct (i <? last)%nat eqn:E; [|reflexivity]. apply Nat.ltb_lt in E.
    rewrite nth_error_set_nth. destruct (Nat.eqb_spec i last); [lia|].
    rewrite nth_error_set_nth. destruct (Nat.eqb_spec i p) as [->|Hne].
    - now rewrite (proj2 (Nat.ltb_lt _ _) (Nat.lt_le_trans _ _ _ Hpl Hlen)).
    - unfold slot_at. now rewrite (proj2 (Nat.ltb_lt _ _) (Nat.lt_trans _ _ _ E Hll)). }
  assert (Hpos : forall k', pos_find (cs_pos st') k' =
                            if beq k k' then None else if beq (c_key b) k' then Some p else pos_find (cs_pos st) k').
  { intros k'. unfold st'. cbn [cs_pos]. now rewrite pos_find_del, pos_find_set. }
  (* uniqueness facts *)
  assert (Uk : forall i c, slot_at st i = Some c -> c_key c = k -> i = p).
  { intros i c Hc E. eapply (inv_keys_unique st i p c a); eauto. congruence. }
  assert (Ub : forall i c, slot_at st i = Some c -> c_key c = c_key b -> i = last).
  { intros i c Hc E. eapply (inv_keys_unique st i last c b); eauto. }
  assert (Hlt : forall i c, slot_at st i = Some c -> (i < cs_len st)%nat).
  { intros i c Hc. unfold slot_at in Hc. destruct (i <? cs_len st)%nat eqn:E; [now apply Nat.ltb_lt|discriminate]. }
  assert (Hpb : c_key b <> k -> (p < last)%nat).
  { intros Hne. destruct (Nat.eq_dec p last) as [E|]; [|lia]. exfalso. rewrite E in Ha. congruence. }
  split.
  - split; [unfold st'; cbn [cs_len cs_slots]; rewrite !set_nth_length; lia|].
    intros k' i. rewrite Hpos, Hs.
    destruct (beq_spec k k') as [<-|Hkk].
    + split; [discriminate|]. intros (c & Hc & Hk). exfalso.
      destruct (i <? last)%nat eqn:E; [|discriminate]. apply Nat.ltb_lt in E.
      destruct (Nat.eqb_spec i p) as [->|Hne].
      * injection Hc as <-. assert (last = p) by (eapply Uk; eauto). lia.
      * apply Hne. eapply Uk; eauto.
    + destruct (beq_spec (c_key b) k') as [<-|Hbk].
      * split.
        -- intros [= <-]. rewrite (proj2 (Nat.ltb_lt _ _) (Hpb ltac:(congruence))), Nat.eqb_refl. eauto.
        -- intros (c & Hc & Hk). destruct (i <? last)%nat eqn:E; [|discriminate]. apply Nat.ltb_lt in E.
           destruct (Nat.eqb_spec i p) as [->|Hne]; auto.
           exfalso. assert (i = last) by (eapply Ub; eauto). lia.
      * rewrite HI. split; intros (c & Hc & Hk).
        -- assert (i <> p) by (intros ->; rewrite Ha in Hc; congruence).
           assert (i <> last) by (intros ->; rewrite Hsb in Hc; congruence).
           assert (i < last)%nat by (apply Hlt in Hc; unfold last; lia).
           rewrite (proj2 (Nat.ltb_lt _ _) H1). destruct (Nat.eqb_spec i p); [lia|]. eauto.
        -- destruct (i <? last)%nat eqn:E; [|discriminate].
           destruct (Nat.eqb_spec i p) as [->|Hne]; [injection Hc as <-; congruence|]. eauto.
  - intros k'. unfold denotes. rewrite Hpos.
    destruct (beq_spec k k') as [<-|Hkk]; auto.
    destruct (beq_spec (c_key b) k') as [<-|Hbk].
    + rewrite Hs, (proj2 (Nat.ltb_lt _ _) (Hpb ltac:(congruence))), Nat.eqb_refl.
      assert (Hpl' : pos_find (cs_pos st) (c_key b) = Some last) by (apply HI; eauto).
      now rewrite Hpl', Hsb.
    + destruct (pos_find (cs_pos st) k') as [i|] eqn:Hi; auto.
      apply HI in Hi as (c & Hc & Hk). rewrite Hs.
      assert (i <> p) by (intros ->; rewrite Ha in Hc; congruence).
      assert (i <> last) by (intros ->; rewrite Hsb in Hc; congruence).
      assert (i < last)%nat by (apply Hlt in Hc; unfold last; lia).
      rewrite (proj2 (Nat.ltb_lt _ _) H1). destruct (Nat.eqb_spec i p); [lia|reflexivity].
Qed.

(** ** the map specification *)
Lemma cm_del_lookup m k k' :
  cfg_lookup (cm_del m k) k' = if beq k k' then None else cfg_lookup m k'.
Proof.
  unfold cm_del. induction m as [|c m IH]; cbn [filter cfg_lookup].
  - now destruct (beq k k').
  - destruct (beq_spec (c_key c) k) as [E|Hn]; cbn [negb cfg_lookup].
    + rewrite IH. destruct (beq_spec k k') as [E'|Hkk]; auto.
      destruct (beq_spec (c_key c) k'); [congruence|reflexivity].
    + destruct (beq_spec (c_key c) k') as [E|Hn']; [|exact IH].
      destruct (beq_spec k k'); [congruence|reflexivity].
Qed.

Lemma cm_put_lookup m k v f k' :
  cfg_lookup (cm_put m k v f) k' = if beq k k' then Some (mkCfg k v f) else cfg_lookup m k'.
Proof.
  induction m as [|c m IH]; cbn [cm_put cfg_lookup].
  - cbn. destruct (beq k k'); reflexivity.
  - destruct (beq_spec (c_key c) k) as [E|Hn]; cbn [cfg_lookup c_key].
    + destruct (beq_spec k k') as [E'|Hkk]; auto.
      destruct (beq_spec (c_key c) k'); [congruence|reflexivity].
    + destruct (beq_spec (c_key c) k') as [E|Hn']; [|exact IH].
      destruct (beq_spec k k'); [congruence|reflexivity].
Qed.

Lemma cm_set_lookup m k v f k' :
  cfg_lookup (cm_set m k v f) k' =
  if beq k k' then (if is_nil v then None else Some (mkCfg k v f)) else cfg_lookup m k'.
Proof.
  unfold cm_set. destruct (is_nil v); [apply cm_del_lookup|apply cm_put_lookup].
Qed.

Lemma cm_del_nodup m k : NoDup (map c_key m) -> NoDup (map c_key (cm_del m k)).
Proof.
  unfold cm_del. induction m as [|c m IH]; cbn; intros H; [constructor|].
  inversion H as [|? ? Hn Hd]; subst. destruct (negb (beq (c_key c) k)); cbn; auto.
  constructor; auto. intros Hin. apply Hn. apply in_map_iff in Hin as (d & Hd1 & Hd2).
  apply filter_In in Hd2 as [Hd2 _]. apply in_map_iff. eauto.
Qed.

Lemma cm_put_keys m k v f :
  forall x, In x (map c_key (cm_put m k v f)) -> x = k \/ In x (map c_key m).
Proof.
  induction m as [|c m IH]; cbn [cm_put map]; intros x.
  - cbn. intuition.
  - destruct (beq_spec (c_key c) k) as [E|Hn]; cbn [map c_key].
    + intros [<-|H]; cbn; auto.
    + intros [<-|H]; cbn; auto. apply IH in H as [->|H]; auto.
Qed.

Lemma cm_put_nodup m k v f : NoDup (map c_key m) -> NoDup (map c_key (cm_put m k v f)).
Proof.
  induction m as [|c m IH]; cbn [cm_put map]; intros H.
  - repeat constructor. cbn. tauto.
  - inversion H as [|? ? Hn Hd]; subst.
    destruct (beq_spec (c_key c) k) as [E|Hne]; cbn [map c_key].
    + constructor; auto. now rewrite <- E.
    + constructor; auto. intros Hin. apply cm_put_keys in Hin as [E|Hin]; auto.
Qed.

Lemma cm_set_nodup m k v f : NoDup (map c_key m) -> NoDup (map c_key (cm_set m k v f)).
Proof. unfold cm_set. destruct (is_nil v); auto using cm_del_nodup, cm_put_nodup. Qed.

(** ** refinement *)
Definition cfg_equiv (a b : list cfg) : Prop :=
  NoDup (map c_key a) /\ NoDup (map c_key b) /\ forall k, cfg_lookup a k = cfg_lookup b k.

Definition sim (st : cstate) (m : cmap) : Prop := inv st /\ cfg_equiv (live st) m.

Lemma sim_update st m k v f :
  sim st m ->
  sim (if is_nil v then delete_config st k else ensure_config st k v f) (cm_set m k v f).
Proof.
  intros [Hinv (Hn1 & Hn2 & Hl)].
  assert (Hd : forall k', denotes st k' = cfg_lookup m k').
  { intros k'. rewrite <- Hl. symmetry. now apply lookup_denotes. }
  destruct (is_nil v) eqn:Ev.
  - destruct (delete_spec st k Hinv) as [Hi Hden]. split; auto.
    split; [now apply inv_nodup|]. split; [now apply cm_set_nodup|].
    intros k'. rewrite lookup_denotes by exact Hi. rewrite Hden, cm_set_lookup, Ev, Hd. reflexivity.
  - destruct (ensure_spec st k v f Hinv) as [Hi Hden]. split; auto.
    split; [now apply inv_nodup|]. split; [now apply cm_set_nodup|].
    intros k'. rewrite lookup_denotes by exact Hi. rewrite Hden, cm_set_lookup, Ev, Hd. reflexivity.
Qed.

Lemma sim_set_config st m k v : sim st m -> sim (set_config st k v) (cm_set m k v false).
Proof. apply sim_update. Qed.
Lemma sim_file_config st m k v : sim st m -> sim (file_config st k v) (cm_set m k v true).
Proof. apply sim_update. Qed.

Lemma sim_reset slots : sim (mkCstate slots 0 []) [].
Proof.
  split; [apply inv_reset|]. unfold live. cbn. repeat split; try constructor.
Qed.

(** Reset installs the labels over whatever slots an earlier input left behind *)
Lemma sim_reset_config st labels : sim (reset_config st labels) (cm_labels labels).
Proof.
  unfold reset_config, cm_labels.
  generalize (sim_reset (cs_slots st)). generalize (mkCstate (cs_slots st) 0 []). generalize (@nil cfg).
  induction labels as [|[k v] labels IH]; intros m s H; cbn [fold_left fst snd]; auto.
  apply IH. now apply sim_set_config.
Qed.

(** configuration operations and their map meaning *)
Inductive cop := CSet (k v : bytes) (file : bool) | CDel (k : bytes).
Definition apply_slot (st : cstate) (o : cop) : cstate :=
  match o with CSet k v f => ensure_config st k v f | CDel k => delete_config st k end.
Definition apply_map (m : cmap) (o : cop) : cmap :=
  match o with CSet k v f => cm_put m k v f | CDel k => cm_del m k end.

Theorem slots_refine_map (ops : list cop) (stale : list cfg) :
  let st := fold_left apply_slot ops (mkCstate stale 0 []) in
  let m := fold_left apply_map ops [] in
  NoDup (map c_key (live st)) /\
  (cs_len st <= length (cs_slots st))%nat /\
  (forall k i, pos_find (cs_pos st) k = Some i <->
               exists c, nth_error (live st) i = Some c /\ c_key c = k) /\
  (forall k, cfg_lookup (live st) k = cfg_lookup m k).
Proof.
  cbv zeta.
  assert (H : forall ops st m, inv st -> (forall k, denotes st k = cfg_lookup m k) ->
            inv (fold_left apply_slot ops st) /\
            forall k, denotes (fold_left apply_slot ops st) k = cfg_lookup (fold_left apply_map ops m) k).
  { clear. induction ops as [|o ops IH]; intros st m Hi Hd; cbn [fold_left]; auto.
    apply IH; destruct o as [k v f|k]; cbn [apply_slot apply_map].
    - apply ensure_spec; auto.
    - apply delete_spec; auto.
    - intros k'. rewrite (proj2 (ensure_spec st k v f Hi)), cm_put_lookup, Hd. reflexivity.
    - intros k'. rewrite (proj2 (delete_spec st k Hi)), cm_del_lookup, Hd. reflexivity. }
  destruct (H ops (mkCstate stale 0 []) [] (inv_reset stale)) as [Hi Hd].
  { intros k. reflexivity. }
  split; [now apply inv_nodup|]. destruct Hi as [Hlen HI]. split; [exact Hlen|]. split.
  - intros k i. rewrite HI. now setoid_rewrite slot_at_live.
  - intros k. rewrite lookup_denotes by (split; auto). apply Hd.
Qed.
