(** C16 layout theorems assembled for tables built through the API. *)
From Perf Require Import Base.Bytes Model.Runes Model.TextTab
     Proofs.Runes Proofs.TextTabWidths Proofs.TextTabEmit Proofs.TextTabFormat Proofs.TextTabBuild.
Local Open Scope Z_scope.

Definition cells_valid (cells : list cell) : Prop := Forall cell_valid cells.

Lemma row_cells_valid cells r : cells_valid cells -> Forall cell_valid (row_cells cells r).
Proof.
  intros H. apply Forall_forall. intros c Hc. apply row_cells_in in Hc as [Hc _].
  unfold cells_valid in H. rewrite Forall_forall in H. apply H. exact Hc.
Qed.

Lemma row_cells_last cells r c : In c (row_cells cells r) -> (r <= last_row cells)%nat /\ cells <> [].
Proof.
  intros Hc. apply row_cells_in in Hc as [Hc [Hp Hr]]. split; [|intros ->; exact Hc].
  unfold last_row. subst r.
  assert (Hin : In (c_row c) (map c_row (filter printed cells))).
  { apply in_map. apply filter_In. auto. }
  revert Hin. generalize (map c_row (filter printed cells)) as l.
  induction l as [|x l IH]; intros []; cbn [fold_right]; [subst; lia|].
  specialize (IH H). lia.
Qed.

(** every printed cell of every line: the line is [A ++ margin field ++ text
    field ++ Q] where [A] is exactly offs[col] runes wide; the margin is
    right-justified in the column's margin width; the text starts at
    [text_start] inside the span and ends inside it *)
Theorem layout_cells_at_offsets ops t perm l r pre c post :
  build ops = Some t -> ops_spans_pos ops -> format t perm = OOut l ->
  cells_valid (t_cells t) ->
  row_cells (t_cells t) r = pre ++ c :: post ->
  exists line A Q,
    nth_error (l_lines l) r = Some line /\
    line = A ++ (spaces (getz (l_lm l) (c_col c) - rune_count (c_margin c)) ++ c_margin c)
             ++ (spaces (text_start (l_offs l) (l_lm l) c - getz (l_offs l) (c_col c) - getz (l_lm l) (c_col c))
                 ++ c_val c)
             ++ Q /\
    rune_count A = getz (l_offs l) (c_col c) /\
    getz (l_offs l) (c_col c) + getz (l_lm l) (c_col c) <= text_start (l_offs l) (l_lm l) c /\
    cell_end (l_offs l) (l_lm l) c <= getz (l_offs l) (c_col c + c_span c).
Proof.
  intros Hb Ho Hf Hv Er.
  destruct (build_wf ops t Hb Ho) as [Hsp Hrd].
  pose proof (format_row_chain t perm l Hf Hsp Hrd r) as Hc.
  assert (Hin : In c (row_cells (t_cells t) r)) by (rewrite Er; apply in_elt).
  destruct (row_cells_last _ _ _ Hin) as [Hr Hne].
  destruct (cells_at_offsets_runes _ _ _ pre c post Hc (row_cells_valid _ r Hv) Er) as [A [Q [E [W _]]]].
  destruct (cells_at_offsets_pieces _ _ _ pre c post Hc Er) as [_ [_ [_ [_ [B1 B2]]]]].
  exists (emit_row (l_offs l) (l_lm l) (row_cells (t_cells t) r)), A, Q.
  repeat split; try assumption. apply (format_line t perm); assumption.
Qed.

(** the same without assuming well-formed UTF-8, in widths of the pieces written *)
Theorem layout_cells_at_offsets_pieces ops t perm l r pre c post :
  build ops = Some t -> ops_spans_pos ops -> format t perm = OOut l ->
  row_cells (t_cells t) r = pre ++ c :: post ->
  exists line P Q,
    nth_error (l_lines l) r = Some line /\
    line = concat P ++ (spaces (getz (l_lm l) (c_col c) - rune_count (c_margin c)) ++ c_margin c)
             ++ (spaces (text_start (l_offs l) (l_lm l) c - getz (l_offs l) (c_col c) - getz (l_lm l) (c_col c))
                 ++ c_val c)
             ++ Q /\
    width_of P = getz (l_offs l) (c_col c).
Proof.
  intros Hb Ho Hf Er.
  destruct (build_wf ops t Hb Ho) as [Hsp Hrd].
  pose proof (format_row_chain t perm l Hf Hsp Hrd r) as Hc.
  assert (Hin : In c (row_cells (t_cells t) r)) by (rewrite Er; apply in_elt).
  destruct (row_cells_last _ _ _ Hin) as [Hr Hne].
  destruct (cells_at_offsets_pieces _ _ _ pre c post Hc Er) as [P [Q [E [W _]]]].
  exists (emit_row (l_offs l) (l_lm l) (row_cells (t_cells t) r)), P, Q.
  repeat split; try assumption. apply (format_line t perm); assumption.
Qed.

(** cells of one row do not overlap: a later cell's column starts at or after
    the end of an earlier cell's text *)
Lemma chain_later offs lm : forall mid lo b post,
  chain offs lm lo (mid ++ b :: post) -> lo <= getz offs (c_col b).
Proof.
  induction mid as [|a mid IH]; intros lo b post H; cbn [app chain] in H.
  - tauto.
  - destruct H as [H1 [[Hm Hf] H3]]. specialize (IH _ _ _ H3).
    pose proof (rune_count_nonneg (c_margin a)). pose proof (rune_count_nonneg (c_val a)). lia.
Qed.

Lemma chain_skip offs lm : forall pre lo cs, chain offs lm lo (pre ++ cs) -> exists lo', chain offs lm lo' cs.
Proof.
  induction pre as [|a pre IH]; intros lo cs H; cbn [app chain] in H; [eauto|].
  destruct H as [_ [_ H]]. eapply IH. exact H.
Qed.

Theorem layout_no_overlap ops t perm l r pre a mid b post :
  build ops = Some t -> ops_spans_pos ops -> format t perm = OOut l ->
  row_cells (t_cells t) r = pre ++ a :: mid ++ b :: post ->
  cell_end (l_offs l) (l_lm l) a <= getz (l_offs l) (c_col b).
Proof.
  intros Hb Ho Hf Er.
  destruct (build_wf ops t Hb Ho) as [Hsp Hrd].
  pose proof (format_row_chain t perm l Hf Hsp Hrd r) as Hc. rewrite Er in Hc.
  destruct (chain_skip _ _ _ _ _ Hc) as [lo H]. cbn [chain] in H. destruct H as [_ [Hfa H]].
  apply chain_later in H. destruct (pad_bounds _ _ _ Hfa) as [_ He]. lia.
Qed.

(** right-aligned text ends exactly at the end of its span: all right-aligned
    cells whose spans end with the same column end at the same offset *)
Theorem layout_right_aligned_end_equal offs lm c1 c2 :
  c_align c1 = ARight -> c_align c2 = ARight ->
  all_blank (c_val c1) = false -> all_blank (c_val c2) = false ->
  (c_col c1 + c_span c1 = c_col c2 + c_span c2)%nat ->
  cell_end offs lm c1 = cell_end offs lm c2.
Proof. intros H1 H2 B1 B2 E. rewrite !right_end by assumption. rewrite E. reflexivity. Qed.

(** no trailing blanks: EVERY line with a printed cell ends with the non-blank
    text of its last printed cell ([tail_text]: the cell's text; for a blank -
    e.g. empty - text, the non-blank margin followed by that text, whatever the
    alignment): nothing is written after it *)
Theorem layout_no_trailing_blank ops t perm l r pre c :
  build ops = Some t -> ops_spans_pos ops -> format t perm = OOut l ->
  row_cells (t_cells t) r = pre ++ [c] ->
  exists line X, nth_error (l_lines l) r = Some line /\ line = X ++ tail_text c /\
    (if all_blank (c_val c) then all_blank (c_margin c) = false else True).
Proof.
  intros Hb Ho Hf Er.
  destruct (build_wf ops t Hb Ho) as [Hsp Hrd].
  pose proof (format_row_chain t perm l Hf Hsp Hrd r) as Hc.
  assert (Hin : In c (row_cells (t_cells t) r)) by (rewrite Er; apply in_elt).
  destruct (row_cells_last _ _ _ Hin) as [Hr Hnil].
  destruct (row_ends_with_last_cell _ _ _ pre c Hc Er) as [X E].
  exists (emit_row (l_offs l) (l_lm l) (row_cells (t_cells t) r)), X. split; [|split; [exact E|]].
  - apply (format_line t perm); assumption.
  - apply tail_text_nonblank. apply row_cells_in in Hin. tauto.
Qed.

(** a row without printed cells is an empty line *)
Theorem layout_blank_row t perm l r :
  format t perm = OOut l -> t_cells t <> [] -> (r <= last_row (t_cells t))%nat ->
  row_cells (t_cells t) r = [] -> nth_error (l_lines l) r = Some [].
Proof.
  intros Hf Hne Hr E. rewrite (format_line t perm l r Hf Hne Hr), E. reflexivity.
Qed.
