(** What the reader makes of each kind of line the writer emits, and of the
    writer's bytes as a whole (line splitting). *)
From Perf Require Import Base.Bytes Base.B64 Base.Utf8 Base.Unicode Model.Name Model.Extract Model.Units
  Model.Reader Model.Files Model.Writer Proofs.Units.
Local Open Scope N_scope.

(** ** an ASCII byte is a chunk of its own wherever it stands *)
Lemma firstn_app_le {A} n (a b : list A) : (n <= length a)%nat -> firstn n (a ++ b) = firstn n a.
Proof. intros H. rewrite firstn_app. replace (n - length a)%nat with 0%nat by lia. cbn. apply app_nil_r. Qed.
Lemma skipn_app_le {A} n (a b : list A) : (n <= length a)%nat -> skipn n (a ++ b) = skipn n a ++ b.
Proof. intros H. rewrite skipn_app. replace (n - length a)%nat with 0%nat by lia. reflexivity. Qed.

Lemma runes_app_ascii_fuel n : forall p x t, (length p <= n)%nat -> is_ascii x = true ->
  runes (p ++ x :: t) = runes p ++ (bN x, [x]) :: runes t.
Proof.
  induction n as [|n IH]; intros p x t Hn Hx.
  - destruct p; [|cbn in Hn; lia]. cbn [app]. rewrite runes_cons, decode_ascii by exact Hx. reflexivity.
  - destruct p as [|b p]; [cbn [app]; rewrite runes_cons, decode_ascii by exact Hx; reflexivity|].
    change ((b :: p) ++ x :: t) with (b :: (p ++ x :: t)).
    rewrite runes_cons. change (b :: (p ++ x :: t)) with ((b :: p) ++ x :: t).
    rewrite decode_sync by (congruence || exact Hx).
    pose proof (decode_width (b :: p) ltac:(congruence)) as Hw.
    destruct (decode_rune (b :: p)) as [r w] eqn:E. cbn [fst snd] in *.
    rewrite firstn_app_le, skipn_app_le by lia.
    rewrite (runes_cons b p), E. cbn [fst snd]. cbn [app]. f_equal.
    apply IH; auto. rewrite skipn_length. cbn [length] in *. lia.
Qed.

Lemma runes_app_ascii p x t : is_ascii x = true -> runes (p ++ x :: t) = runes p ++ (bN x, [x]) :: runes t.
Proof. apply (runes_app_ascii_fuel (length p)). lia. Qed.

Lemma runes_nil : runes [] = [].
Proof. reflexivity. Qed.

Lemma runes_chunks_nonempty s : Forall (fun c => snd c <> []) (runes s).
Proof.
  pose proof (wf_runes s) as H. induction (runes s) as [|c l IH]; constructor.
  - cbn in H. tauto.
  - apply IH. cbn in H. tauto.
Qed.

Lemma runes_nonempty s : s <> [] -> runes s <> [].
Proof. intros H E. apply H. rewrite <- (flat_runes s), E. reflexivity. Qed.

(** ** " f1 f2 ..." *)
Definition sp_chunk : chunk := (32, [x20]).

Lemma join_sp_cons f fs : join_sp (f :: fs) = x20 :: f ++ join_sp fs.
Proof. reflexivity. Qed.

Lemma runes_sp t : runes (x20 :: t) = sp_chunk :: runes t.
Proof. apply (runes_app_ascii [] x20 t). reflexivity. Qed.

Lemma runes_app_join p fs : runes (p ++ join_sp fs) = runes p ++ runes (join_sp fs).
Proof.
  destruct fs as [|f fs].
  - cbn. now rewrite !app_nil_r.
  - rewrite join_sp_cons. rewrite runes_app_ascii by reflexivity. now rewrite runes_sp.
Qed.

Section Lines.
Variables is_space is_lower is_upper : N -> bool.
Variable atoi : bytes -> option Z.
Variable parse_float : bytes -> option b64.
Variable fmt_g : b64 -> bytes.
(** ':' is neither white space nor upper case *)
Hypothesis Hcolon : is_space 58 = false /\ is_upper 58 = false.

Notation fspace := (fspace is_space).
Notation classify := (classify is_space is_lower is_upper atoi parse_float).
Notation atof := (atof parse_float).

Definition nsp (l : list chunk) : Prop := Forall (fun c => fspace (fst c) = false) l.
Definition field_ok (f : bytes) : Prop := f <> [] /\ nsp (runes f).

Lemma fspace_sp : fspace (fst sp_chunk) = true.
Proof. reflexivity. Qed.

Lemma take_field_nsp t c l : nsp t -> fspace (fst c) = true ->
  take_field is_space (t ++ c :: l) = (t, c :: l).
Proof.
  induction t as [|x t IH]; intros Ht Hc; cbn [app take_field].
  - now rewrite Hc.
  - inversion Ht; subst. rewrite H1. rewrite IH by auto. reflexivity.
Qed.

Lemma rev_append_app {A} (a b c : list A) : rev_append (a ++ b) c = rev_append b (rev_append a c).
Proof. revert c; induction a; intros c; cbn; auto. Qed.

Lemma frev_rev_append f : frev (rev_append f []) = f.
Proof. unfold frev. rewrite !rev_append_rev, !app_nil_r. apply rev_involutive. Qed.

Lemma fields_acc_nsp t : forall l cur inf, nsp t ->
  fields_acc is_space (t ++ l) cur inf =
  fields_acc is_space l (rev_append (flat t) cur) (inf || negb (is_nil t)).
Proof.
  induction t as [|x t IH]; intros l cur inf Ht; cbn [app].
  - cbn. now rewrite orb_false_r.
  - inversion Ht; subst. cbn [fields_acc]. rewrite H1. rewrite IH by auto.
    rewrite flat_cons, rev_append_app. f_equal. cbn. now rewrite orb_true_r.
Qed.

Definition starts_sp (l : list chunk) : Prop :=
  l = [] \/ exists c l', l = c :: l' /\ fspace (fst c) = true.

Lemma fields_flush l cur : starts_sp l ->
  fields_acc is_space l cur true = frev cur :: fields_acc is_space l [] false.
Proof.
  intros [->|(c & l' & -> & Hc)]; cbn [fields_acc]; [reflexivity|]. now rewrite Hc.
Qed.

Lemma runes_join_starts fs : starts_sp (runes (join_sp fs)).
Proof.
  destruct fs as [|f fs]; [now left|]. right. rewrite join_sp_cons, runes_sp.
  exists sp_chunk, (runes (f ++ join_sp fs)). auto.
Qed.

Lemma fields_join fs : Forall field_ok fs -> fields_acc is_space (runes (join_sp fs)) [] false = fs.
Proof.
  induction fs as [|f fs IH]; intros H; [reflexivity|].
  inversion H as [|? ? [Hne Hf] Hfs]; subst.
  rewrite join_sp_cons, runes_sp. cbn [fields_acc]. rewrite fspace_sp.
  rewrite runes_app_join, fields_acc_nsp by auto.
  assert (is_nil (runes f) = false) as ->.
  { destruct (runes f) eqn:E; auto. exfalso. eapply runes_nonempty; eauto. }
  cbn [orb negb]. rewrite flat_runes.
  rewrite fields_flush by apply runes_join_starts. rewrite frev_rev_append. f_equal. auto.
Qed.

Lemma drop_space_nsp c l : fspace (fst c) = false -> drop_space is_space (c :: l) = c :: l.
Proof. intros H. cbn. now rewrite H. Qed.

(** ** the benchmark line *)
Definition rv (p : b64 * bytes) : value := read_value is_space (fst p) (snd p).

Definition pair_fields (p : b64 * bytes) : list bytes := [fmt_g (fst p); snd p].

Lemma parse_vals_pairs ps : forall acc,
  Forall (fun p => atof (fmt_g (fst p)) = Some (fst p)) ps ->
  (ps <> [] \/ acc <> []) ->
  parse_vals is_space parse_float (flat_map pair_fields ps) acc = inr (acc ++ map rv ps).
Proof.
  induction ps as [|p ps IH]; intros acc H Hne.
  - cbn. destruct acc; [destruct Hne; congruence|]. now rewrite app_nil_r.
  - inversion H as [|? ? Hp Hps]; subst. cbn [flat_map pair_fields app parse_vals]. rewrite Hp.
    rewrite IH; auto.
    + rewrite <- app_assoc. reflexivity.
    + right. destruct acc; discriminate.
Qed.

Lemma bench_fields_eq r :
  bench_fields fmt_g r = print_Z (r_iters r) :: flat_map pair_fields (map written (r_vals r)).
Proof.
  unfold bench_fields. f_equal. induction (r_vals r) as [|v vs IH]; [reflexivity|].
  cbn [flat_map map]. destruct (written v) as [x u] eqn:E. cbn [pair_fields fst snd app]. now rewrite IH.
Qed.

Definition bench_ok (r : result) : Prop :=
  nsp (runes (r_name r)) /\
  Forall field_ok (bench_fields fmt_g r) /\
  atoi (print_Z (r_iters r)) = Some (r_iters r) /\
  Forall (fun p => atof (fmt_g (fst p)) = Some (fst p)) (map written (r_vals r)) /\
  r_vals r <> [].

Lemma classify_bench r : bench_ok r ->
  classify (render fmt_g (WBench r)) = LBench (BOk (r_name r) (r_iters r) (map rv (map written (r_vals r)))).
Proof.
  intros (Hname & Hfields & Hit & Hvals & Hne).
  unfold Reader.classify. cbn [render].
  rewrite has_prefix_app.
  replace (skipn 9 (bs "Benchmark" ++ r_name r ++ join_sp (bench_fields fmt_g r)))
    with (r_name r ++ join_sp (bench_fields fmt_g r)) by reflexivity.
  unfold parse_bench. rewrite runes_app_join.
  pose proof Hfields as Hf0. rewrite bench_fields_eq in Hf0 |- *.
  set (F := print_Z (r_iters r) :: flat_map pair_fields (map written (r_vals r))) in *.
  unfold F at 1. rewrite join_sp_cons, runes_sp.
  unfold split_field. rewrite take_field_nsp by (auto using fspace_sp).
  rewrite flat_runes.
  (* the remainder after the name *)
  inversion Hf0 as [|? ? [Hne1 Hf1] Hrest]; subst.
  rewrite runes_app_join.
  destruct (runes (print_Z (r_iters r))) as [|c1 l1] eqn:E1; [exfalso; eapply runes_nonempty; eauto|].
  inversion Hf1 as [|? ? Hc1 _]; subst.
  cbn [drop_space]. rewrite fspace_sp. cbn [app]. rewrite drop_space_nsp by exact Hc1.
  cbn [is_nil andb].
  (* its fields *)
  assert (Hfl : fields is_space (c1 :: l1 ++ runes (join_sp (flat_map pair_fields (map written (r_vals r))))) = F).
  { pose proof (fields_join F Hf0) as HF. unfold F in HF at 1. rewrite join_sp_cons, runes_sp in HF.
    cbn [fields_acc] in HF. rewrite fspace_sp in HF. rewrite runes_app_join, E1 in HF. exact HF. }
  match goal with |- LBench (match ?X with [] => _ | _ :: _ => _ end) = _ => replace X with F by (symmetry; exact Hfl) end.
  unfold F. rewrite Hit.
  rewrite parse_vals_pairs; auto.
  left. destruct (r_vals r); [congruence|discriminate].
Qed.

(** ** key/value lines *)
Fixpoint key_chunks_ok (l : list chunk) (first : bool) : bool :=
  match l with
  | [] => true
  | (r, _) :: l' =>
      (if first then is_lower r else true) && negb (is_space r || is_upper r)
      && (first || negb (r =? 58)) && key_chunks_ok l' false
  end.

(** a key the reader recognises: non-empty, lower-case first rune (so neither
    'B' nor 'U' in Go; stated for the abstract classifier), no white space, no
    upper case, no colon *)
Definition key_ok (k : bytes) : Prop :=
  match k with
  | [] => False
  | b :: _ => b <> x42 /\ b <> x55 /\ key_chunks_ok (runes k) true = true
  end.

(** a value the format can carry after "key: " *)
Definition val_ok (v : bytes) : Prop :=
  match v with
  | [] => False
  | c :: _ => c <> x20 /\ c <> x09
  end.

Lemma kv_scan_key R : forall l i,
  key_chunks_ok l (i =? 0)%nat = true -> Forall (fun c => snd c <> []) l -> (l = [] -> i <> 0%nat) ->
  kv_scan is_space is_lower is_upper (l ++ (58, [x3a]) :: R) i = Some (length (flat l) + i)%nat.
Proof.
  destruct Hcolon as [Hc1 Hc2].
  induction l as [|[r b] l IH]; intros i Hk Hne Hi.
  - cbn [app kv_scan]. specialize (Hi eq_refl).
    destruct (Nat.eqb_spec i 0); [congruence|]. cbn [andb negb]. rewrite Hc1, Hc2. cbn. reflexivity.
  - cbn [app kv_scan]. cbn [key_chunks_ok] in Hk.
    apply andb_true_iff in Hk as [Hk Hrest]. apply andb_true_iff in Hk as [Hk H3].
    apply andb_true_iff in Hk as [H1 H2]. apply negb_true_iff in H2. rewrite H2.
    inversion Hne as [|? ? Hb Hne']; subst. cbn [snd] in Hb.
    assert (E1 : ((i =? 0)%nat && negb (is_lower r)) = false).
    { destruct (i =? 0)%nat; [now rewrite H1|reflexivity]. }
    assert (E3 : (negb (i =? 0)%nat && (r =? 58)) = false).
    { destruct (i =? 0)%nat; [reflexivity|]. cbn in H3. apply negb_true_iff in H3. now rewrite H3. }
    rewrite E1, E3.
    assert (Hpos : (length b + i)%nat <> 0%nat) by (destruct b; [congruence|cbn; lia]).
    rewrite IH; auto.
    + rewrite flat_cons, app_length. cbn [snd]. f_equal. lia.
    + destruct (Nat.eqb_spec (length b + i) 0); [lia|exact Hrest].
Qed.

Lemma strip_blank_ok v : val_ok v -> strip_blank v = v.
Proof.
  destruct v as [|c v]; [contradiction|]. intros [H1 H2]. cbn.
  destruct (beqb_spec c x20); [congruence|]. destruct (beqb_spec c x09); [congruence|]. reflexivity.
Qed.

Lemma not_bench_line b t : b <> x42 -> has_prefix (b :: t) (bs "Benchmark") = false.
Proof. intros H. cbn. destruct (beqb_spec b x42); [congruence|reflexivity]. Qed.

Lemma classify_kv_gen k rest : key_ok k ->
  classify (k ++ x3a :: rest) =
  match (if is_nil rest then Some (k, [])
         else if (length (strip_blank rest) <? length rest)%nat then Some (k, strip_blank rest) else None) with
  | Some (k', v) => LKV k' v
  | None => LOther
  end.
Proof.
  destruct k as [|b k]; [contradiction|]. intros (HB & HU & Hk).
  unfold Reader.classify. cbn [app]. rewrite not_bench_line by exact HB.
  destruct (beqb_spec b x55); [congruence|].
  unfold parse_kv. change (b :: k ++ x3a :: rest) with ((b :: k) ++ x3a :: rest).
  rewrite runes_app_ascii by reflexivity. change (bN x3a) with 58.
  rewrite (kv_scan_key (runes rest) (runes (b :: k)) 0%nat Hk (runes_chunks_nonempty _)).
  2:{ intros E. exfalso. eapply (runes_nonempty (b :: k)); [congruence|exact E]. }
  rewrite flat_runes, Nat.add_0_r.
  rewrite firstn_app_exact.
  replace (skipn (S (length (b :: k))) ((b :: k) ++ x3a :: rest)) with rest.
  2:{ change (S (length (b :: k))) with (length ((b :: k) ++ [x3a]))%nat || idtac.
      replace (S (length (b :: k))) with (length ((b :: k) ++ [x3a])) by (rewrite app_length; cbn; lia).
      replace ((b :: k) ++ x3a :: rest) with (((b :: k) ++ [x3a]) ++ rest) by (rewrite <- app_assoc; reflexivity).
      rewrite skipn_app, skipn_all, Nat.sub_diag. reflexivity. }
  destruct (is_nil rest); [reflexivity|].
  destruct (length (strip_blank rest) <? length rest)%nat; reflexivity.
Qed.

Lemma classify_set k v : key_ok k -> val_ok v -> classify (render fmt_g (WSet k v)) = LKV k v.
Proof.
  intros Hk Hv. cbn [render]. change (k ++ bs ": " ++ v) with (k ++ x3a :: x20 :: v).
  rewrite classify_kv_gen by exact Hk. cbn [is_nil strip_blank]. rewrite beqb_refl. cbn [orb].
  rewrite strip_blank_ok by exact Hv. cbn [length].
  replace (length v <? S (length v))%nat with true by (symmetry; apply Nat.ltb_lt; lia). reflexivity.
Qed.

Lemma classify_del k : key_ok k -> classify (render fmt_g (WDel k)) = LKV k [].
Proof.
  intros Hk. cbn [render]. change (k ++ bs ":") with (k ++ x3a :: []).
  rewrite classify_kv_gen by exact Hk. reflexivity.
Qed.

Lemma classify_blank : classify (render fmt_g WBlank) = LOther.
Proof. reflexivity. Qed.

End Lines.

(** ** the writer's bytes split back into the lines it wrote *)
Definition line_clean (l : bytes) : Prop :=
  ~ In x0a l /\ (forall p, l <> p ++ [x0d]) /\ (N.of_nat (length l) < max_token).

Lemma split_lines_acc_line l : forall rest cur, ~ In x0a l ->
  split_lines_acc (l ++ x0a :: rest) cur = finish_line (rev_append l cur) :: split_lines_acc rest [].
Proof.
  induction l as [|c l IH]; intros rest cur Hn; cbn [app split_lines_acc rev_append].
  - unfold x_lf. now rewrite beqb_refl.
  - unfold x_lf. destruct (beqb_spec c x0a) as [->|Hc]; [exfalso; apply Hn; now left|].
    apply IH. intros H. apply Hn. now right.
Qed.

Lemma finish_line_clean l : line_clean l -> finish_line (rev_append l []) = Line l.
Proof.
  intros (_ & Hcr & Hlen). unfold finish_line.
  rewrite rev_append_rev, app_nil_r, rev_length.
  replace (max_token <=? N.of_nat (length l)) with false by (symmetry; apply N.leb_gt; exact Hlen).
  destruct (rev l) as [|c r] eqn:E.
  - assert (l = []) by (rewrite <- (rev_involutive l), E; reflexivity). now subst.
  - assert (Hl : l = rev r ++ [c]) by (rewrite <- (rev_involutive l), E; reflexivity).
    unfold x_cr. destruct (beqb_spec c x0d) as [->|Hc]; [exfalso; eapply Hcr; eauto|].
    unfold frev. rewrite rev_append_rev, app_nil_r. cbn [rev]. now rewrite Hl.
Qed.

Lemma split_join_lines ls : Forall line_clean ls -> split_lines (join_lines ls) = map Line ls.
Proof.
  unfold split_lines. induction ls as [|l ls IH]; intros H; [reflexivity|].
  inversion H as [|? ? Hl Hls]; subst. unfold join_lines. cbn [map concat].
  rewrite <- app_assoc. cbn [app]. rewrite split_lines_acc_line by apply Hl.
  rewrite finish_line_clean by exact Hl. cbn [map]. f_equal. apply IH. exact Hls.
Qed.
