(** The ErrSamplesEqual clause of the approximate path of MannWhitneyUTest:
        sigma := sqrt(n1 n2 * ((N+1) - t / (N (N-1))) / 12)   in binary64,
        if sigma == 0 { return ErrSamplesEqual }
    with t = float64(sum t_k^3 - t_k), N = float64(n1 + n2).

    (a) all pooled values equal (one run, t = N^3 - N): while N^3 - N < 2^53 every
        operand is an exact integer, t / (N (N-1)) is EXACTLY N + 1, the factor is
        exactly 0, and so is sigma  (sigma_zero_all_equal).
    (b) at least two runs: t <= (N-2)(N-1)N, so the quotient rounds to at most
        N - 1, the factor is at least 2 and sigma >= 1/4 — for every N <= 2^52,
        by monotonicity of rounding and one relative error each for float64(t) and
        float64(N(N-1)) (sigma_pos_two_runs).
    (c) FINDING. Beyond N^3 - N >= 2^53 float64(t) is rounded and the cancellation
        in (a) is no longer guaranteed: it holds by luck up to N = 330283
        (sigma_zero_all_equal_to_330283, exhaustive evaluation) and FAILS at
        N = 330284 (sigma = 0.36.., a p-value is returned for 330284 equal values)
        and N = 330292 (factor negative, sigma = NaN, p = NaN, error = nil):
        sigma_all_equal_refuted, err_samples_equal_large_refuted (about [mwu_old]).
        Confirmed on the code before hooks/fix_c11_utest_samples_equal_large.diff, which
        tests len(T) == 1 before the exact/approximate switch; the model [mwu] follows
        the repaired code, for which err_samples_equal_iff holds in both regimes.

    Real-number axioms of the standard library (through Flocq) are used. *)
From Coq Require Import ZArith List Bool Reals Lia Lra Permutation.
From Flocq Require Import Core BinarySingleNaN Relative.
From Perf Require Import Base.B64 Model.UStat Model.UDistSpec Model.UDistImpl Model.UTest.
From Perf Require Import Proofs.UStat Proofs.UDistSpec Proofs.UDistImpl Proofs.UTest Proofs.UTestExact.
From Perf Require Import Proofs.B64Flocq Proofs.B64Arith Proofs.UTestSigmaSweep.
Import ListNotations.
Local Open Scope Z_scope.

Lemma sigma_U_of s : sigma_U s = sigma_of (us_n1 s) (us_n2 s) (us_T s).
Proof. reflexivity. Qed.

(** ** exact integer steps *)
Lemma fin_ext x a b : fin x a -> a = b -> fin x b.
Proof. now intros H <-. Qed.

Lemma pow53_le_1000 : 2 ^ 53 <= 2 ^ 1000.
Proof. apply Z.pow_le_mono_r; lia. Qed.

Lemma small_of_int z : Z.abs z < 2 ^ 53 -> small (IZR z).
Proof. intros H. apply small_int. pose proof pow53_le_1000. lia. Qed.

Lemma fin_add_int x y a b : fin x (IZR a) -> fin y (IZR b) -> Z.abs (a + b) < 2 ^ 53 ->
  fin (b64_add x y) (IZR (a + b)).
Proof.
  intros Hx Hy Hs. eapply fin_ext; [apply (fin_add x y _ _ Hx Hy)|]; rewrite <- plus_IZR.
  - now apply small_of_int.
  - now apply rnd_int.
Qed.

Lemma fin_sub_int x y a b : fin x (IZR a) -> fin y (IZR b) -> Z.abs (a - b) < 2 ^ 53 ->
  fin (b64_sub x y) (IZR (a - b)).
Proof.
  intros Hx Hy Hs. eapply fin_ext; [apply (fin_sub x y _ _ Hx Hy)|]; rewrite <- minus_IZR.
  - now apply small_of_int.
  - now apply rnd_int.
Qed.

Lemma fin_mul_int x y a b : fin x (IZR a) -> fin y (IZR b) -> Z.abs (a * b) < 2 ^ 53 ->
  fin (b64_mul x y) (IZR (a * b)).
Proof.
  intros Hx Hy Hs. eapply fin_ext; [apply (fin_mul x y _ _ Hx Hy)|]; rewrite <- mult_IZR.
  - now apply small_of_int.
  - now apply rnd_int.
Qed.

Lemma fin_div_int x y a b q : fin x (IZR a) -> fin y (IZR b) -> b <> 0 -> a = q * b -> Z.abs q < 2 ^ 53 ->
  fin (b64_div x y) (IZR q).
Proof.
  intros Hx Hy Hb Ha Hs.
  assert (Hb' : IZR b <> 0%R) by (now apply not_0_IZR).
  assert (E : (IZR a / IZR b = IZR q)%R) by (subst a; rewrite mult_IZR; field; exact Hb').
  eapply fin_ext; [apply (fin_div x y _ _ Hx Hy Hb')|]; rewrite E.
  - now apply small_of_int.
  - now apply rnd_int.
Qed.

Lemma fin_one : fin b64_one 1.
Proof. apply (fin_of_Z_exact 1). reflexivity. Qed.
Lemma fin_twelve : fin b64_twelve 12.
Proof. apply (fin_of_Z_exact 12). reflexivity. Qed.

(** ** from a zero factor to a zero sigma (any n1 n2) *)
Lemma sigma_tail_zero n1n2 f r : fin n1n2 r -> fin f 0 ->
  b64_eq (b64_sqrt (b64_div (b64_mul n1n2 f) b64_twelve)) b64_zero = true.
Proof.
  intros Hn Hf.
  assert (Hg : fin (b64_mul n1n2 f) 0).
  { eapply fin_ext; [apply (fin_mul _ _ _ _ Hn Hf)|]; rewrite Rmult_0_r; [|apply rnd_0].
    unfold small. rewrite Rabs_R0. apply bpow_ge_0. }
  assert (Hh : fin (b64_div (b64_mul n1n2 f) b64_twelve) 0).
  { eapply fin_ext; [apply (fin_div _ _ _ _ Hg fin_twelve); [lra|]|].
    - unfold small, Rdiv. rewrite Rmult_0_l, Rabs_R0. apply bpow_ge_0.
    - unfold Rdiv. rewrite Rmult_0_l. apply rnd_0. }
  assert (Hs : fin (b64_sqrt (b64_div (b64_mul n1n2 f) b64_twelve)) 0).
  { eapply fin_ext; [apply (fin_sqrt _ _ Hh); lra|]. rewrite sqrt_0. apply rnd_0. }
  now apply (fin_zero_iff _ _ Hs).
Qed.

Lemma sigma_of_factor n1 n2 T :
  sigma_of n1 n2 T = b64_sqrt (b64_div (b64_mul (b64_of_Z (n1 * n2)) (factor (n1 + n2) (tie_correction T))) b64_twelve).
Proof. reflexivity. Qed.

Lemma tie_correction_single N : tie_correction [N] = N * N * N - N.
Proof. unfold tie_correction. cbn [map zsum fold_right]. lia. Qed.

(** (a) the cancellation is exact while N^3 - N is a binary64 integer *)
Lemma factor_zero_exact N : 2 <= N -> N * N * N - N < 2 ^ 53 -> fin (factor N (N * N * N - N)) 0.
Proof.
  intros HN Ht.
  assert (HNN : N * (N - 1) < 2 ^ 53) by nia.
  assert (HN53 : N + 1 < 2 ^ 53) by nia.
  pose proof (fin_of_Z_exact N ltac:(lia)) as FN.
  pose proof (fin_of_Z_exact (N * N * N - N) ltac:(nia)) as Ft.
  pose proof (fin_add_int _ _ _ _ FN fin_one ltac:(lia)) as FNp1.
  pose proof (fin_sub_int _ _ _ _ FN fin_one ltac:(lia)) as FNm1.
  pose proof (fin_mul_int _ _ _ _ FN FNm1 ltac:(nia)) as FD.
  pose proof (fin_div_int _ _ _ _ (N + 1) Ft FD ltac:(nia) ltac:(ring) ltac:(lia)) as Fq.
  pose proof (fin_sub_int _ _ _ _ FNp1 Fq ltac:(lia)) as Ff.
  replace (N + 1 - (N + 1)) with 0 in Ff by lia. exact Ff.
Qed.

Theorem sigma_zero_all_equal n1 n2 : 1 <= n1 -> 1 <= n2 ->
  let N := n1 + n2 in N * N * N - N < 2 ^ 53 ->
  b64_eq (sigma_of n1 n2 [N]) b64_zero = true.
Proof.
  intros H1 H2 N HN. rewrite sigma_of_factor, tie_correction_single. fold N.
  apply (sigma_tail_zero _ _ (IZR (n1 * n2))).
  - apply fin_of_Z_exact. nia.
  - apply factor_zero_exact; [lia | exact HN].
Qed.

(** ... and, by exhaustive evaluation of the factor, up to the last N before the first failure *)
Lemma small_le r k : (Rabs r <= IZR k)%R -> k <= 2 ^ 1000 -> small r.
Proof.
  intros H Hk. unfold small. apply Rle_trans with (1 := H).
  change (bpow radix2 1000) with (IZR (2 ^ 1000)). now apply IZR_le.
Qed.

(** the factor is a finite number for every N < 2^26, whatever t *)
Lemma rnd_nonneg a : (0 <= a)%R -> (0 <= rnd a)%R.
Proof. intros H. rewrite <- rnd_0. now apply rnd_mono. Qed.

Lemma rnd_le_int a k : (a <= IZR k)%R -> Z.abs k < 2 ^ 53 -> (rnd a <= IZR k)%R.
Proof. intros H Hk. rewrite <- (rnd_int k Hk). now apply rnd_mono. Qed.

Lemma rnd_ge_int a k : (IZR k <= a)%R -> Z.abs k < 2 ^ 53 -> (IZR k <= rnd a)%R.
Proof. intros H Hk. rewrite <- (rnd_int k Hk). now apply rnd_mono. Qed.

(** one rounding: relative error at most 2^-53 *)
Definition eps53 : R := (/ IZR (2 ^ 53))%R.

Lemma eps53_bounds : (0 < eps53 < 1)%R.
Proof.
  unfold eps53. assert (1 < IZR (2 ^ 53))%R by (apply IZR_lt; reflexivity). split.
  - apply Rinv_0_lt_compat. lra.
  - rewrite <- Rinv_1. apply Rinv_lt_contravar; lra.
Qed.

Lemma rnd_rel x : (1 <= x)%R -> (x * (1 - eps53) <= rnd x <= x * (1 + eps53))%R.
Proof.
  intros Hx.
  destruct (relative_error_N_FLT_ex radix2 (-1074) 53 ltac:(reflexivity) (fun z => negb (Z.even z)) x) as (eps & He & Hr).
  { rewrite Rabs_pos_eq by lra. apply Rle_trans with (2 := Hx).
    change 1%R with (bpow radix2 0). apply bpow_le. lia. }
  change (round radix2 (FLT_exp (-1074) 53) (Znearest (fun z => negb (Z.even z))) x) with (rnd x) in Hr.
  rewrite Hr.
  assert (Hb : (/ 2 * bpow radix2 (-53 + 1) = eps53)%R).
  { change (bpow radix2 (-53 + 1)) with (/ IZR (2 ^ 52))%R. unfold eps53.
    replace (2 ^ 53) with (2 * 2 ^ 52) by reflexivity. rewrite mult_IZR.
    assert (IZR (2 ^ 52) <> 0)%R by (apply not_0_IZR; discriminate). field. assumption. }
  assert (He' : (Rabs eps <= eps53)%R) by (rewrite <- Hb; exact He). apply Rabs_le_inv in He'.
  split; apply Rmult_le_compat_l; lra.
Qed.

Lemma bpow_format e : -1074 <= e -> generic_format radix2 (SpecFloat.fexp 53 1024) (bpow radix2 e).
Proof. intros He. change (SpecFloat.fexp 53 1024) with (FLT_exp (-1074) 53). now apply generic_format_FLT_bpow. Qed.

Lemma rnd_bpow e : -1074 <= e -> rnd (bpow radix2 e) = bpow radix2 e.
Proof. intros He. apply round_generic; [typeclasses eauto | now apply bpow_format]. Qed.

Lemma rnd_le_bpow x e : -1074 <= e -> (x <= bpow radix2 e)%R -> (rnd x <= bpow radix2 e)%R.
Proof. intros He Hx. rewrite <- (rnd_bpow e He). now apply rnd_mono. Qed.

Lemma small_bpow r e : e <= 1000 -> (Rabs r <= bpow radix2 e)%R -> small r.
Proof. intros He H. unfold small. apply Rle_trans with (1 := H). now apply bpow_le. Qed.

(** (b) two or more runs: the factor is at least 2, for every N up to 2^52.
    float64(t) <= t (1 + 2^-53), float64(N (N-1)) >= N (N-1) (1 - 2^-53) and
    t <= (N-2) N (N-1), so the quotient is at most N - 1 before and after rounding *)
Lemma factor_ge_two N t : 2 <= N <= 2 ^ 52 -> 0 <= t <= (N - 2) * (N * (N - 1)) ->
  exists r, fin (factor N t) r /\ (2 <= r <= IZR (N + 1))%R.
Proof.
  intros HN Ht.
  assert (P52 : 2 ^ 52 + 1 < 2 ^ 53) by reflexivity.
  pose proof (fin_of_Z_exact N ltac:(lia)) as FN.
  pose proof (fin_add_int _ _ _ _ FN fin_one ltac:(lia)) as FNp1.
  pose proof (fin_sub_int _ _ _ _ FN fin_one ltac:(lia)) as FNm1.
  pose proof eps53_bounds as He.
  set (a := IZR N).
  assert (Ha : (2 <= a <= IZR (2 ^ 52))%R) by (unfold a; split; apply IZR_le; lia).
  assert (Em1 : IZR (N - 1) = (a - 1)%R) by (unfold a; rewrite minus_IZR; reflexivity).
  assert (Ep1 : IZR (N + 1) = (a + 1)%R) by (unfold a; rewrite plus_IZR; reflexivity).
  set (D := (a * (a - 1))%R).
  assert (HD : (2 <= D <= bpow radix2 104)%R).
  { unfold D. split; [nra|]. replace 104 with (52 + 52) by reflexivity. rewrite bpow_plus.
    change (bpow radix2 52) with (IZR (2 ^ 52)). apply Rmult_le_compat; lra. }
  pose proof (fin_mul _ _ _ _ FN FNm1) as FD. rewrite Em1 in FD. fold a D in FD.
  specialize (FD ltac:(apply small_bpow with 104; [lia | rewrite Rabs_pos_eq; lra])).
  destruct (rnd_rel D ltac:(lra)) as [HD1 _]. set (Dh := rnd D) in *.
  assert (HDh : (0 < Dh)%R) by nra.
  (* float64(t) *)
  assert (Ft : fin (b64_of_Z t) (rnd (IZR t))).
  { apply fin_of_Z. apply small_int. assert (2 ^ 52 * (2 ^ 52 * 2 ^ 52) <= 2 ^ 1000) by (vm_compute; discriminate). nia. }
  assert (HtD : (0 <= IZR t <= (a - 2) * D)%R).
  { split; [apply IZR_le; lia|]. unfold D, a. replace 2%R with (IZR 2) by reflexivity. replace 1%R with (IZR 1) by reflexivity.
    rewrite <- !minus_IZR, <- !mult_IZR. apply IZR_le. lia. }
  assert (He1 : ((2 * a - 3) * eps53 <= 1)%R).
  { unfold eps53. assert (HP : (0 < IZR (2 ^ 53))%R) by (apply IZR_lt; reflexivity).
    apply Rmult_le_reg_r with (IZR (2 ^ 53)); [exact HP|].
    rewrite Rmult_assoc, Rinv_l, Rmult_1_r, Rmult_1_l by lra.
    replace (2 ^ 53) with (2 * 2 ^ 52) by reflexivity. rewrite mult_IZR. replace (IZR 2) with 2%R by reflexivity. lra. }
  assert (Hth : (0 <= rnd (IZR t) <= (a - 1) * Dh)%R).
  { split; [apply rnd_nonneg; lra|].
    destruct (Z.eq_dec t 0) as [->|Hnz]; [rewrite rnd_0; nra|].
    assert (H1 : (1 <= IZR t)%R) by (apply IZR_le; lia).
    destruct (rnd_rel (IZR t) H1) as [_ Hu].
    assert (S1 : (IZR t * (1 + eps53) <= (a - 2) * D * (1 + eps53))%R) by (apply Rmult_le_compat_r; lra).
    assert (S2 : ((a - 2) * D * (1 + eps53) <= (a - 1) * D * (1 - eps53))%R).
    { replace ((a - 1) * D * (1 - eps53))%R with ((a - 2) * D * (1 + eps53) + D * (1 - (2 * a - 3) * eps53))%R by ring.
      assert (0 <= D * (1 - (2 * a - 3) * eps53))%R by (apply Rmult_le_pos; lra). lra. }
    assert (S3 : ((a - 1) * D * (1 - eps53) <= (a - 1) * Dh)%R).
    { rewrite Rmult_assoc. apply Rmult_le_compat_l; lra. }
    lra. }
  (* the quotient lies in [0, N-1] *)
  assert (Hq : (0 <= rnd (IZR t) / Dh <= a - 1)%R).
  { split.
    - apply Rmult_le_pos; [lra | apply Rlt_le, Rinv_0_lt_compat, HDh].
    - apply Rmult_le_reg_r with Dh; [exact HDh|].
      unfold Rdiv. rewrite Rmult_assoc, Rinv_l, Rmult_1_r by lra. lra. }
  pose proof (fin_div _ _ _ _ Ft FD ltac:(lra)) as Fq.
  assert (Hsq : small (rnd (IZR t) / Dh)).
  { apply small_le with (2 ^ 52); [rewrite Rabs_pos_eq; lra|]. apply Z.pow_le_mono_r; lia. }
  specialize (Fq Hsq).
  set (q := rnd (rnd (IZR t) / Dh)) in *.
  assert (Hq' : (0 <= q <= a - 1)%R).
  { unfold q. split; [apply rnd_nonneg; lra|]. rewrite <- Em1. apply rnd_le_int; [rewrite Em1; lra | lia]. }
  assert (Hd : (2 <= IZR (N + 1) - q <= IZR (N + 1))%R) by (rewrite Ep1; lra).
  pose proof (fin_sub _ _ _ _ FNp1 Fq) as Ff.
  assert (Hsf : small (IZR (N + 1) - q)).
  { apply small_le with (N + 1); [rewrite Rabs_pos_eq; lra|]. pose proof pow53_le_1000. lia. }
  specialize (Ff Hsf).
  exists (rnd (IZR (N + 1) - q)). split; [exact Ff|]. split.
  - apply (rnd_ge_int _ 2); [lra | reflexivity].
  - apply rnd_le_int; [lra | lia].
Qed.

(** from a factor in [2, 2^54] and 1 <= float64(n1 n2) <= 2^110 to sigma >= 1/4 *)
Lemma sigma_tail_pos Pf p f r : fin Pf p -> (1 <= p <= bpow radix2 110)%R ->
  fin f r -> (2 <= r <= bpow radix2 54)%R ->
  b64_eq (b64_sqrt (b64_div (b64_mul Pf f) b64_twelve)) b64_zero = false.
Proof.
  intros FP HP Ff Hr.
  pose proof (bpow_gt_0 radix2 164) as B164.
  assert (Hpr : (2 <= p * r <= bpow radix2 164)%R).
  { split; [nra|]. replace 164 with (110 + 54) by reflexivity. rewrite bpow_plus. apply Rmult_le_compat; lra. }
  pose proof (fin_mul _ _ _ _ FP Ff) as Fg.
  specialize (Fg ltac:(apply small_bpow with 164; [lia | rewrite Rabs_pos_eq; lra])).
  set (g := rnd (p * r)) in *.
  assert (Hg : (2 <= g <= bpow radix2 164)%R).
  { unfold g. split; [apply (rnd_ge_int _ 2); [lra | reflexivity] | apply rnd_le_bpow; [lia | lra]]. }
  pose proof (fin_div _ _ _ _ Fg fin_twelve ltac:(lra)) as Fh.
  assert (Hgq : (/ 8 <= g / 12 <= bpow radix2 164)%R) by lra.
  specialize (Fh ltac:(apply small_bpow with 164; [lia | rewrite Rabs_pos_eq; lra])).
  set (h := rnd (g / 12)) in *.
  assert (Hh : (/ 16 <= h)%R).
  { unfold h. apply Rle_trans with (/ 8)%R; [lra|].
    replace (/ 8)%R with (bpow radix2 (-3)) by (cbn; lra). rewrite <- (rnd_bpow (-3)) by lia.
    apply rnd_mono. replace (bpow radix2 (-3)) with (/ 8)%R by (cbn; lra). lra. }
  pose proof (fin_sqrt _ _ Fh ltac:(lra)) as Fs.
  assert (Hs : (/ 4 <= rnd (sqrt h))%R).
  { replace (/ 4)%R with (bpow radix2 (-2)) by (cbn; lra). rewrite <- (rnd_bpow (-2)) by lia.
    apply rnd_mono. replace (bpow radix2 (-2)) with (/ 4)%R by (cbn; lra).
    replace (/ 4)%R with (sqrt (/ 4 * / 4)) by (apply sqrt_square; lra).
    apply sqrt_le_1_alt. lra. }
  destruct (b64_eq _ b64_zero) eqn:E; [|reflexivity].
  apply (fin_zero_iff _ _ Fs) in E. lra.
Qed.

(** ** the tie correction of a vector with at least two runs *)
Definition cube_less (t : Z) : Z := t * t * t - t.

Lemma tie_correction_cons a T : tie_correction (a :: T) = cube_less a + tie_correction T.
Proof. reflexivity. Qed.

Lemma cube_less_superadd a b : 1 <= a -> 1 <= b -> cube_less a + cube_less b <= cube_less (a + b - 1).
Proof.
  intros Ha Hb. unfold cube_less.
  assert (E : exists x y, 0 <= x /\ 0 <= y /\ a = 1 + x /\ b = 1 + y) by (exists (a - 1), (b - 1); lia).
  destruct E as (x & y & Hx & Hy & -> & ->).
  replace (1 + x + (1 + y) - 1) with (1 + x + y) by lia.
  assert (0 <= x * y) by nia. assert (0 <= x * x * y) by nia. assert (0 <= x * y * y) by nia.
  replace ((1 + x + y) * (1 + x + y) * (1 + x + y) - (1 + x + y))
    with ((1 + x) * (1 + x) * (1 + x) - (1 + x) + ((1 + y) * (1 + y) * (1 + y) - (1 + y)) + (6 * (x * y) + 3 * (x * x * y) + 3 * (x * y * y))) by ring.
  lia.
Qed.

Lemma cube_less_mono a b : 1 <= a <= b -> cube_less a <= cube_less b.
Proof.
  intros H. unfold cube_less.
  assert (E : exists d, 0 <= d /\ b = a + d) by (exists (b - a); lia). destruct E as (d & Hd & ->).
  assert (0 <= a * a * d) by nia. assert (0 <= a * d * d) by nia. assert (0 <= d * d * d) by nia.
  replace ((a + d) * (a + d) * (a + d) - (a + d)) with (a * a * a - a + (3 * (a * a * d) + 3 * (a * d * d) + d * d * d - d)) by ring.
  assert (d <= a * a * d) by nia. lia.
Qed.

Lemma cube_less_nonneg a : 1 <= a -> 0 <= cube_less a.
Proof. intros H. pose proof (cube_less_mono 1 a ltac:(lia)) as H1. unfold cube_less in *. lia. Qed.

Lemma tie_correction_nonneg T : Forall (fun x => 1 <= x) T -> 0 <= tie_correction T.
Proof.
  induction 1 as [|a T Ha _ IH]; [cbn; lia|]. rewrite tie_correction_cons.
  pose proof (cube_less_nonneg a Ha). lia.
Qed.

Lemma tie_correction_le T : Forall (fun x => 1 <= x) T -> T <> [] ->
  Z.of_nat (length T) <= zsum T /\ tie_correction T <= cube_less (zsum T - (Z.of_nat (length T) - 1)).
Proof.
  induction 1 as [|a T Ha HT IH]; intros Hne; [congruence|].
  change (zsum (a :: T)) with (a + zsum T). rewrite tie_correction_cons.
  destruct T as [|b T'].
  - cbn [length zsum fold_right tie_correction map]. split; [lia|].
    replace (a + 0 - (Z.of_nat 1 - 1)) with a by lia. unfold tie_correction. cbn [map zsum fold_right]. lia.
  - destruct (IH ltac:(discriminate)) as [IH1 IH2].
    set (T := b :: T') in *. set (S := zsum T) in *. set (k := Z.of_nat (length T)) in *.
    replace (Z.of_nat (length (a :: T))) with (k + 1) by (unfold k; cbn [length]; lia).
    split; [lia|].
    pose proof (cube_less_superadd a (S - (k - 1)) Ha ltac:(lia)) as H.
    replace (a + S - (k + 1 - 1)) with (a + (S - (k - 1)) - 1) by lia. lia.
Qed.

Lemma tie_correction_two_runs T : Forall (fun x => 1 <= x) T -> (2 <= length T)%nat ->
  let N := zsum T in 2 <= N /\ 0 <= tie_correction T <= (N - 2) * (N * (N - 1)).
Proof.
  intros HT Hlen N.
  destruct (tie_correction_le T HT) as [H1 H2]; [destruct T; [cbn in Hlen; lia | discriminate]|].
  fold N in H1, H2. split; [lia|]. split; [now apply tie_correction_nonneg|].
  pose proof (cube_less_mono (N - (Z.of_nat (length T) - 1)) (N - 1) ltac:(lia)) as H3.
  replace ((N - 2) * (N * (N - 1))) with (cube_less (N - 1)) by (unfold cube_less; ring). lia.
Qed.

Theorem sigma_pos_two_runs n1 n2 T : 1 <= n1 -> 1 <= n2 ->
  Forall (fun x => 1 <= x) T -> (2 <= length T)%nat -> zsum T = n1 + n2 -> n1 + n2 <= 2 ^ 52 ->
  b64_eq (sigma_of n1 n2 T) b64_zero = false.
Proof.
  intros H1 H2 HT Hlen Hs HN.
  destruct (tie_correction_two_runs T HT Hlen) as [HN2 Ht]. rewrite Hs in HN2, Ht.
  rewrite sigma_of_factor.
  destruct (factor_ge_two (n1 + n2) (tie_correction T) ltac:(lia) Ht) as (r & Fr & Hr).
  assert (HP : 1 <= n1 * n2 <= 2 ^ 52 * 2 ^ 52) by nia.
  apply (sigma_tail_pos _ (rnd (IZR (n1 * n2))) _ r); [| | exact Fr |].
  - apply fin_of_Z. apply small_int. assert (2 ^ 52 * 2 ^ 52 <= 2 ^ 1000) by (vm_compute; discriminate). lia.
  - split; [apply (rnd_ge_int _ 1); [apply IZR_le; lia | reflexivity]|].
    apply rnd_le_bpow; [lia|]. change (bpow radix2 110) with (IZR (2 ^ 110)). apply IZR_le.
    assert (2 ^ 52 * 2 ^ 52 <= 2 ^ 110) by (vm_compute; discriminate). lia.
  - split; [lra|]. apply Rle_trans with (1 := proj2 Hr). change (bpow radix2 54) with (IZR (2 ^ 54)).
    apply IZR_le. assert (2 ^ 52 + 1 <= 2 ^ 54) by (vm_compute; discriminate). lia.
Qed.

(** (a'), sharp range *)
Theorem sigma_zero_all_equal_to_330283 n1 n2 : 1 <= n1 -> 1 <= n2 -> n1 + n2 <= 330283 ->
  b64_eq (sigma_of n1 n2 [n1 + n2]) b64_zero = true.
Proof.
  intros H1 H2 HN. set (N := n1 + n2) in *.
  destruct (Z_lt_dec N 208064) as [Hlt|Hge].
  - apply sigma_zero_all_equal; try assumption. fold N.
    assert (208063 * 208063 * 208063 < 2 ^ 53) by reflexivity. nia.
  - rewrite sigma_of_factor, tie_correction_single. fold N.
    pose proof factor_zero_sweep as Hsw. rewrite forallb_forall in Hsw.
    specialize (Hsw N ltac:(apply zrange_in; lia)). unfold factor_is_zero in Hsw.
    (* the factor is a finite number (two-run bound does not apply: redo the chain) *)
    assert (HNr : 2 <= N <= 2 ^ 26) by (split; [lia|]; assert (330283 <= 2 ^ 26) by (vm_compute; discriminate); lia).
    assert (P26 : 2 ^ 26 * 2 ^ 26 < 2 ^ 53) by reflexivity.
    pose proof (fin_of_Z_exact N ltac:(lia)) as FN.
    pose proof (fin_add_int _ _ _ _ FN fin_one ltac:(lia)) as FNp1.
    pose proof (fin_sub_int _ _ _ _ FN fin_one ltac:(lia)) as FNm1.
    pose proof (fin_mul_int _ _ _ _ FN FNm1 ltac:(nia)) as FD.
    set (t := N * N * N - N) in *.
    assert (Ht : 0 <= t <= (N + 1) * (N * (N - 1))) by (unfold t; nia).
    assert (Ft : fin (b64_of_Z t) (rnd (IZR t))).
    { apply fin_of_Z. apply small_int. assert (2 ^ 27 * (2 ^ 26 * 2 ^ 26) <= 2 ^ 1000) by (vm_compute; discriminate). nia. }
    assert (HD : (0 < IZR (N * (N - 1)))%R) by (apply IZR_lt; nia).
    assert (Ht0 : (0 <= rnd (IZR t) <= IZR (2 ^ 80))%R).
    { split; [apply rnd_nonneg, IZR_le; lia|].
      change (IZR (2 ^ 80)) with (bpow radix2 80). rewrite <- (rnd_bpow 80) by lia. apply rnd_mono.
      change (bpow radix2 80) with (IZR (2 ^ 80)). apply IZR_le.
      assert (2 ^ 27 * (2 ^ 26 * 2 ^ 26) <= 2 ^ 80) by (vm_compute; discriminate). nia. }
    assert (HD1 : (1 <= IZR (N * (N - 1)))%R) by (apply IZR_le; nia).
    assert (Hq : (0 <= rnd (IZR t) / IZR (N * (N - 1)) <= IZR (2 ^ 80))%R).
    { split.
      - apply Rmult_le_pos; [lra | apply Rlt_le, Rinv_0_lt_compat, HD].
      - apply Rmult_le_reg_r with (IZR (N * (N - 1))); [exact HD|].
        unfold Rdiv. rewrite Rmult_assoc, Rinv_l, Rmult_1_r by lra.
        assert (0 <= IZR (2 ^ 80))%R by (apply IZR_le; vm_compute; discriminate). nra. }
    pose proof (fin_div _ _ _ _ Ft FD ltac:(lra)) as Fq.
    assert (Hsq : small (rnd (IZR t) / IZR (N * (N - 1)))).
    { apply small_le with (2 ^ 80); [rewrite Rabs_pos_eq; lra | vm_compute; discriminate]. }
    specialize (Fq Hsq). set (q := rnd (rnd (IZR t) / IZR (N * (N - 1)))) in *.
    assert (Hq' : (0 <= q <= IZR (2 ^ 80))%R).
    { unfold q. split; [apply rnd_nonneg; lra|].
      change (IZR (2 ^ 80)) with (bpow radix2 80). rewrite <- (rnd_bpow 80) by lia. apply rnd_mono.
      change (bpow radix2 80) with (IZR (2 ^ 80)). lra. }
    pose proof (fin_sub _ _ _ _ FNp1 Fq) as Ff.
    assert (HN1 : (0 <= IZR (N + 1) <= IZR (2 ^ 80))%R).
    { split; apply IZR_le; [lia|]. assert (2 ^ 27 <= 2 ^ 80) by (vm_compute; discriminate). lia. }
    assert (Hsf : small (IZR (N + 1) - q)).
    { apply small_le with (2 ^ 80); [|vm_compute; discriminate]. apply Rabs_le. lra. }
    specialize (Ff Hsf). fold (factor N t) in Ff.
    apply (fin_zero_iff _ _ Ff) in Hsw.
    apply (sigma_tail_zero _ _ (IZR (n1 * n2))).
    + apply fin_of_Z_exact. nia.
    + eapply fin_ext; [exact Ff | exact Hsw].
Qed.

(** (c) the finding *)
Definition is_nan_b64 (x : b64) : bool := match x with S754_nan => true | _ => false end.

Theorem sigma_all_equal_refuted :
  b64_eq (sigma_of 165142 165142 [330284]) b64_zero = false /\
  sigma_of 165142 165142 [330284] = b64_of_bits 0x3FD7470C73522596 /\
  is_nan_b64 (sigma_of 165146 165146 [330292]) = true.
Proof. vm_compute. repeat split. Qed.

(** ** the error clause of MannWhitneyUTest, approximate regime *)
Lemma all_equal_T x1 x2 : x1 <> [] -> (exists v, Forall (fun x => x = v) (x1 ++ x2)) ->
  us_T (ustat_of x1 x2) = [zlen x1 + zlen x2].
Proof.
  intros Hne Hall. destruct (us_T_wf x1 x2) as [_ Hsum].
  assert (Hne' : x1 ++ x2 <> []) by (destruct x1; [congruence | discriminate]).
  destruct (proj2 (pool_T_single x1 x2) (conj Hne' Hall)) as [c Hc]. rewrite <- us_T_pool in Hc.
  rewrite Hc in *. cbn [zsum fold_right] in Hsum. f_equal. lia.
Qed.

Lemma not_all_equal_T x1 x2 : x1 <> [] -> ~ (exists v, Forall (fun x => x = v) (x1 ++ x2)) ->
  (2 <= length (us_T (ustat_of x1 x2)))%nat.
Proof.
  intros Hne Hnall. destruct (us_T_wf x1 x2) as [Hpos Hsum].
  destruct (us_T (ustat_of x1 x2)) as [|c [|d T]] eqn:ET; [| |cbn [length]; lia].
  - cbn [zsum fold_right] in Hsum. destruct x1; [congruence|]. unfold zlen in Hsum. cbn [length] in Hsum. lia.
  - exfalso. apply Hnall. rewrite us_T_pool in ET.
    exact (proj2 (proj1 (pool_T_single x1 x2) (ex_intro _ c ET))).
Qed.

Section Clause.
Variable erfc : b64 -> option b64.

(** errors_iff for the model (= the repaired code): ErrSamplesEqual iff all pooled
    values are equal, in BOTH regimes.
    <= holds for all sizes by construction (Proofs/UTest.v, err_samples_equal_if_equal).
    => the single-run test is exact; behind it the approximate path still tests
    sigma == 0, which cannot fire with two or more runs while N <= 2^52
    (sigma_pos_two_runs; float64(N), N+1, N-1 are exact up to there — a Go slice cannot
    hold 2^52 values; the model computes sum t_k^3 and n1 n2 in unbounded integers,
    Go's int does up to 2^63). *)
Theorem err_samples_equal_iff x1 x2 a :
  x1 <> [] -> x2 <> [] -> zlen x1 + zlen x2 <= 2 ^ 52 ->
  (mwu erfc x1 x2 a = RErrSamplesEqual <-> exists v, Forall (fun x => x = v) (x1 ++ x2)).
Proof.
  intros H1 H2 HN. split; [|now apply err_samples_equal_if_equal].
  destruct (use_exact (ustat_of x1 x2)) eqn:He.
  - now apply (err_samples_equal_iff_exact erfc x1 x2 a H1 H2 He).
  - rewrite (err_samples_equal_approx erfc x1 x2 a H1 H2 He).
    assert (L1 : 1 <= zlen x1) by (destruct x1; [congruence | unfold zlen; cbn [length]; lia]).
    assert (L2 : 1 <= zlen x2) by (destruct x2; [congruence | unfold zlen; cbn [length]; lia]).
    pose proof (pool_T_single x1 x2) as HS. rewrite <- us_T_pool in HS.
    intros [Hc | Hz]; [exact (proj2 (proj1 HS Hc))|].
    rewrite sigma_U_of in Hz.
    change (us_n1 (ustat_of x1 x2)) with (zlen x1) in Hz. change (us_n2 (ustat_of x1 x2)) with (zlen x2) in Hz.
    destruct (us_T_wf x1 x2) as [Hpos Hsum].
    destruct (us_T (ustat_of x1 x2)) as [|c [|d T]] eqn:ET.
    + cbn [zsum fold_right] in Hsum. lia.
    + exact (proj2 (proj1 HS (ex_intro _ c eq_refl))).
    + exfalso. rewrite sigma_pos_two_runs in Hz; try assumption; try discriminate. cbn [length]. lia.
Qed.

(** the code before hooks/fix_c11_utest_samples_equal_large.diff, approximate regime:
    the clause holds up to a pooled size of 330283 and no further *)
Theorem err_samples_equal_iff_approx_old x1 x2 a :
  x1 <> [] -> x2 <> [] -> use_exact (ustat_of x1 x2) = false ->
  zlen x1 + zlen x2 <= 330283 ->
  (mwu_old erfc x1 x2 a = RErrSamplesEqual <-> exists v, Forall (fun x => x = v) (x1 ++ x2)).
Proof.
  intros H1 H2 He HN. rewrite (err_samples_equal_approx_old erfc x1 x2 a H1 H2 He), sigma_U_of.
  change (us_n1 (ustat_of x1 x2)) with (zlen x1). change (us_n2 (ustat_of x1 x2)) with (zlen x2).
  assert (L1 : 1 <= zlen x1) by (destruct x1; [congruence | unfold zlen; cbn [length]; lia]).
  assert (L2 : 1 <= zlen x2) by (destruct x2; [congruence | unfold zlen; cbn [length]; lia]).
  split.
  - intros Hz. destruct (us_T_wf x1 x2) as [Hpos Hsum].
    destruct (us_T (ustat_of x1 x2)) as [|c [|d T]] eqn:ET.
    + cbn [zsum fold_right] in Hsum. lia.
    + rewrite us_T_pool in ET. exact (proj2 (proj1 (pool_T_single x1 x2) (ex_intro _ c ET))).
    + exfalso. rewrite sigma_pos_two_runs in Hz; try assumption; try discriminate.
      * cbn [length]. lia.
      * assert (330283 <= 2 ^ 52) by (vm_compute; discriminate). lia.
  - intros Hall. rewrite (all_equal_T x1 x2 H1 Hall). now apply sigma_zero_all_equal_to_330283.
Qed.
End Clause.

Lemma zlen_repeat (v : Z) k : zlen (repeat v k) = Z.of_nat k.
Proof. unfold zlen. now rewrite repeat_length. Qed.

(** the model on two constant samples of the same value (used by the correspondence
    evaluator for the large all-equal cases, which ship sizes instead of the values) *)
Theorem mwu_all_equal_repeat erfc (v : Z) (k1 k2 : nat) a : (1 <= k1)%nat -> (1 <= k2)%nat ->
  mwu erfc (repeat v k1) (repeat v k2) a = RErrSamplesEqual.
Proof.
  intros H1 H2. apply err_samples_equal_if_equal.
  - destruct k1; [lia | discriminate].
  - destruct k2; [lia | discriminate].
  - exists v. apply Forall_app. split; apply Forall_forall; intros x Hx; now apply repeat_spec in Hx.
Qed.

(** the finding, about the OLD code: 330284 equal values, no error *)
Theorem err_samples_equal_large_refuted :
  exists x1 x2, x1 <> [] /\ x2 <> [] /\ (exists v, Forall (fun x => x = v) (x1 ++ x2)) /\
    forall erfc a, mwu_old erfc x1 x2 a <> RErrSamplesEqual.
Proof.
  set (k := Z.to_nat 165142). exists (repeat 7 k), (repeat 7 k).
  assert (Hk : Z.of_nat k = 165142) by (unfold k; lia).
  assert (Hne : repeat 7 k <> []) by (destruct k eqn:E; [lia | discriminate]).
  assert (Hall : exists v, Forall (fun x => x = v) (repeat 7 k ++ repeat 7 k)).
  { exists 7. apply Forall_app. split; apply Forall_forall; intros x Hx; now apply repeat_spec in Hx. }
  split; [exact Hne|]. split; [exact Hne|]. split; [exact Hall|].
  intros erfc a.
  assert (He : use_exact (ustat_of (repeat 7 k) (repeat 7 k)) = false).
  { unfold use_exact. change (us_n1 (ustat_of (repeat 7 k) (repeat 7 k))) with (zlen (repeat 7 k)).
    rewrite zlen_repeat, Hk. cbn. now rewrite !andb_false_r. }
  rewrite (err_samples_equal_approx_old erfc _ _ a Hne Hne He), sigma_U_of, (all_equal_T _ _ Hne Hall).
  change (us_n1 (ustat_of (repeat 7 k) (repeat 7 k))) with (zlen (repeat 7 k)).
  change (us_n2 (ustat_of (repeat 7 k) (repeat 7 k))) with (zlen (repeat 7 k)).
  rewrite zlen_repeat, Hk. change (165142 + 165142) with 330284.
  rewrite (proj1 sigma_all_equal_refuted). discriminate.
Qed.

(** ... and the repaired code on the same input *)
Theorem err_samples_equal_large_repaired erfc a :
  mwu erfc (repeat 7 (Z.to_nat 165142)) (repeat 7 (Z.to_nat 165142)) a = RErrSamplesEqual.
Proof. apply mwu_all_equal_repeat; lia. Qed.
