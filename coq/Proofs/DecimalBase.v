(** Basics for the proofs about Model/Decimal.v: the integer a digit list
    denotes, well-formed digit lists, machine words, trim. *)
From Coq Require Import ZArith List Lia Bool.
From Perf Require Import Base.Bytes Model.Decimal.
Import ListNotations.
Local Open Scope Z_scope.

Definition zlen (l : list Z) : Z := Z.of_nat (length l).

Lemma zlen_nil : zlen [] = 0. Proof. reflexivity. Qed.
Lemma zlen_cons x l : zlen (x :: l) = zlen l + 1.
Proof. unfold zlen. cbn [length]. lia. Qed.
Lemma zlen_app l m : zlen (l ++ m) = zlen l + zlen m.
Proof. unfold zlen. rewrite app_length. lia. Qed.
Lemma zlen_rev l : zlen (rev l) = zlen l.
Proof. unfold zlen. now rewrite rev_length. Qed.
Lemma zlen_nonneg l : 0 <= zlen l.
Proof. unfold zlen. lia. Qed.
Lemma zlen_zero l : zlen l = 0 -> l = [].
Proof. destruct l; [reflexivity|]. rewrite zlen_cons. pose proof (zlen_nonneg l). lia. Qed.

(** ** the number a digit list denotes (most significant digit first) *)
Definition dstep (a c : Z) : Z := a * 10 + c.
Definition dv (l : list Z) : Z := fold_left dstep l 0.

Lemma dv_acc l : forall a, fold_left dstep l a = a * 10 ^ zlen l + dv l.
Proof.
  unfold dv. induction l as [|c l IH]; intros a.
  - cbn [fold_left]. rewrite zlen_nil. lia.
  - cbn [fold_left]. pose proof (IH (dstep a c)) as E1. pose proof (IH (dstep 0 c)) as E2.
    rewrite E1, E2. unfold dstep. rewrite zlen_cons.
    rewrite Z.pow_add_r, Z.pow_1_r by (pose proof (zlen_nonneg l); lia). ring.
Qed.

Lemma dv_nil : dv [] = 0. Proof. reflexivity. Qed.

Lemma dv_cons c l : dv (c :: l) = c * 10 ^ zlen l + dv l.
Proof. unfold dv at 1. cbn [fold_left]. rewrite dv_acc. unfold dstep. ring. Qed.

Lemma dv_app l m : dv (l ++ m) = dv l * 10 ^ zlen m + dv m.
Proof. unfold dv at 1. rewrite fold_left_app. fold (dv l). apply dv_acc. Qed.

Lemma dv_snoc l c : dv (l ++ [c]) = dv l * 10 + c.
Proof. rewrite dv_app. change (zlen [c]) with 1. rewrite Z.pow_1_r. unfold dv at 2. cbn. unfold dstep. ring. Qed.

Lemma dv_single c : dv [c] = c.
Proof. reflexivity. Qed.

Definition digits_ok (l : list Z) : Prop := Forall (fun c => 0 <= c <= 9) l.

Lemma digits_ok_nil : digits_ok []. Proof. constructor. Qed.
Lemma digits_ok_cons c l : digits_ok (c :: l) <-> 0 <= c <= 9 /\ digits_ok l.
Proof. split; [intros H; inversion H; auto|intros [? ?]; constructor; auto]. Qed.
Lemma digits_ok_app l m : digits_ok (l ++ m) <-> digits_ok l /\ digits_ok m.
Proof. apply Forall_app. Qed.
Lemma digits_ok_rev l : digits_ok (rev l) <-> digits_ok l.
Proof. split; intros H; [rewrite <- (rev_involutive l)|]; now apply Forall_rev. Qed.

Lemma pow10_pos n : 0 < 10 ^ n \/ n < 0.
Proof. destruct (Z_lt_le_dec n 0); [now right|left; now apply Z.pow_pos_nonneg]. Qed.

Lemma pow10_gt0 n : 0 <= n -> 0 < 10 ^ n.
Proof. intros. now apply Z.pow_pos_nonneg. Qed.

Lemma dv_bound l : digits_ok l -> 0 <= dv l < 10 ^ zlen l.
Proof.
  induction l as [|c l IH]; intros H.
  - rewrite zlen_nil. cbn. lia.
  - apply digits_ok_cons in H as [Hc Hl]. specialize (IH Hl). rewrite dv_cons, zlen_cons.
    rewrite Z.pow_add_r, Z.pow_1_r by (pose proof (zlen_nonneg l); lia).
    pose proof (pow10_gt0 (zlen l) (zlen_nonneg l)). nia.
Qed.

Lemma dv_lower c l : digits_ok (c :: l) -> c <> 0 -> 10 ^ zlen l <= dv (c :: l).
Proof.
  intros H Hc. apply digits_ok_cons in H as [Hc9 Hl]. pose proof (dv_bound l Hl).
  rewrite dv_cons. pose proof (pow10_gt0 (zlen l) (zlen_nonneg l)). nia.
Qed.

Lemma dv_zero_iff l : digits_ok l -> (dv l = 0 <-> Forall (fun c => c = 0) l).
Proof.
  induction l as [|c l IH]; intros H.
  - split; [constructor|reflexivity].
  - apply digits_ok_cons in H as [Hc Hl]. specialize (IH Hl). pose proof (dv_bound l Hl).
    rewrite dv_cons. pose proof (pow10_gt0 (zlen l) (zlen_nonneg l)). split.
    + intros E. assert (c = 0) by nia. subst c. constructor; [reflexivity|]. apply IH. lia.
    + intros F. inversion F; subst. rewrite (proj2 IH) by assumption. lia.
Qed.

(** ** machine words *)
Lemma w64_mod z : w64 z = z mod 2 ^ 64.
Proof. unfold w64. change 0xFFFFFFFFFFFFFFFF with (Z.ones 64). now rewrite Z.land_ones. Qed.

Lemma w64_small z : 0 <= z < 2 ^ 64 -> w64 z = z.
Proof. intros H. rewrite w64_mod. now apply Z.mod_small. Qed.

Lemma shiftr_div n k : 0 <= k -> Z.shiftr n k = n / 2 ^ k.
Proof. intros. now apply Z.shiftr_div_pow2. Qed.

Lemma pow2_le_60 k : 0 <= k <= 60 -> 0 < 2 ^ k <= 2 ^ 60.
Proof. intros H. split; [apply Z.pow_pos_nonneg; lia|apply Z.pow_le_mono_r; lia]. Qed.

Lemma mask_eq k : 0 <= k <= 60 -> w64 (w64 (Z.shiftl 1 k) - 1) = Z.ones k.
Proof.
  intros H. rewrite Z.shiftl_1_l. pose proof (pow2_le_60 k H).
  rewrite (w64_small (2 ^ k)) by lia. rewrite w64_small by lia.
  rewrite Z.ones_equiv. lia.
Qed.

(** ** trim *)
Lemma trim_zeros_spec l :
  exists z, l = trim_zeros l ++ repeat 0 z /\ (trim_zeros l = [] \/ last (trim_zeros l) 0 <> 0).
Proof.
  induction l as [|x l IH].
  - exists O. split; [reflexivity|now left].
  - destruct IH as [z [E L]]. cbn [trim_zeros].
    destruct (trim_zeros l) as [|y r] eqn:T.
    + destruct (Z.eqb_spec x 0) as [->|Hx].
      * exists (S z). split; [cbn [repeat app]; now rewrite E at 1|now left].
      * exists z. split; [cbn [app]; now rewrite E at 1|right; exact Hx].
    + exists z. split; [cbn [app]; now rewrite E at 1|].
      right. destruct L as [L|L]; [discriminate|]. exact L.
Qed.

Lemma dv_repeat0 l z : dv (l ++ repeat 0 z) = dv l * 10 ^ Z.of_nat z.
Proof.
  induction z as [|z IH].
  - cbn [repeat]. rewrite app_nil_r. change (Z.of_nat 0) with 0. lia.
  - replace (repeat 0 (S z)) with (repeat 0 z ++ [0]) by (symmetry; apply repeat_cons).
    rewrite app_assoc, dv_snoc, IH. rewrite Nat2Z.inj_succ, Z.pow_succ_r by lia. ring.
Qed.

Lemma digits_ok_trim l : digits_ok l -> digits_ok (trim_zeros l).
Proof.
  intros H. destruct (trim_zeros_spec l) as [z [E _]]. rewrite E in H.
  now apply digits_ok_app in H.
Qed.

Lemma trim_zeros_hd l c r : l = c :: r -> c <> 0 -> exists r', trim_zeros l = c :: r'.
Proof.
  intros -> Hc. cbn [trim_zeros]. destruct (trim_zeros r).
  - destruct (Z.eqb_spec c 0); [contradiction|]. now exists [].
  - now eexists.
Qed.

Lemma trim_zeros_len l : zlen (trim_zeros l) <= zlen l.
Proof.
  destruct (trim_zeros_spec l) as [z [E _]]. rewrite E at 2. rewrite zlen_app.
  pose proof (zlen_nonneg (repeat 0 z)). lia.
Qed.
