(** Exhaustive evaluation (a complete finite check, labelled as such): the binary64
    factor (N+1) - float64(N^3-N) / (N (N-1)) of sigma_U is exactly zero for every
    N from 208064 (the first N with N^3 - N >= 2^53, below which Proofs/UTestSigma.v
    proves it) up to 330283, the last N before the first failure (N = 330284). *)
From Coq Require Import ZArith List Bool.
From Perf Require Import Base.B64 Model.UDistSpec.
Local Open Scope Z_scope.

(** the factor (N+1) - t/(N(N-1)) as the code computes it *)
Definition factor (N t : Z) : b64 :=
  let Nf := b64_of_Z N in
  b64_sub (b64_add Nf b64_one) (b64_div (b64_of_Z t) (b64_mul Nf (b64_sub Nf b64_one))).

Definition factor_is_zero (N : Z) : bool := b64_eq (factor N (N * N * N - N)) b64_zero.

Lemma factor_zero_sweep :
  forallb factor_is_zero (zrange 208064 330283) = true.
Proof. vm_compute. reflexivity. Qed.

(** the neighbours: N = 330284 leaves a positive factor, N = 330292 a negative one *)
Example factor_first_failures :
  factor_is_zero 330283 = true /\ factor_is_zero 330284 = false /\
  factor 330284 (330284 * 330284 * 330284 - 330284) = S754_finite false 4503599627370496 (-86) /\
  factor 330292 (330292 * 330292 * 330292 - 330292) = S754_finite true 4503599627370496 (-86).
Proof. vm_compute. repeat split. Qed.
