(** Sample.Variance (Welford's recurrence as coded in internal/stats/sample.go)
    in binary64 never returns a negative number or NaN when no difference
    x - mean overflows:

      delta := x - mean;  mean += delta / float64(n+1);  M2 += delta * (x - mean)

    The updated mean lies between the old mean and x (Proofs/LegacyMean.v), so
    x - mean' has the sign of delta or is zero: every product added to M2 is
    >= 0 (or +Inf when the product overflows), M2 stays in {>= 0 finite, +Inf}
    and so does M2 / (n - 1).

    Without the guard the claim is false: a difference that overflows gives
    delta = +Inf, mean = +Inf, x - mean = -Inf and M2 = -Inf
    ([variance_overflow_negative]).
    Through Flocq (classical reals in Print Assumptions). *)
From Coq Require Import ZArith Reals Lia Lra Bool List.
From Flocq Require Import Core BinarySingleNaN.
From Perf Require Import Base.Bytes Base.B64 Model.StatsF Model.Legacy
     Proofs.B64Flocq Proofs.LegacySort Proofs.LegacyMean Proofs.B64Ops.
Import ListNotations.
Local Open Scope R_scope.

(** non-negative or +Inf *)
Definition nn (X : Bf) : Prop := X = B754_infinity false \/ (is_finite X = true /\ 0 <= B2R X).

Lemma Bsign_pos (X : Bf) : is_finite X = true -> 0 < B2R X -> Bsign X = false.
Proof.
  destruct X as [s| | |s m e B]; try discriminate; cbn [B2R Bsign]; intros _ H; [lra|].
  destruct s; [|reflexivity]. exfalso.
  pose proof (F2R_lt_0 radix2 (Float radix2 (cond_Zopp true (Z.pos m)) e) ltac:(cbn; lia)). lra.
Qed.

Lemma Bsign_neg (X : Bf) : is_finite X = true -> B2R X < 0 -> Bsign X = true.
Proof.
  destruct X as [s| | |s m e B]; try discriminate; cbn [B2R Bsign]; intros _ H; [lra|].
  destruct s; [reflexivity|]. exfalso.
  pose proof (F2R_gt_0 radix2 (Float radix2 (cond_Zopp false (Z.pos m)) e) ltac:(cbn; lia)). lra.
Qed.

Lemma overflow_inf (W : Bf) s : B2SF W = binary_overflow 53 1024 mode_NE s -> W = B754_infinity s.
Proof.
  intros H. apply B2SF_inj. rewrite H. reflexivity.
Qed.

Lemma RN_small_0 : Rabs (RN 0) < bpow radix2 1024.
Proof. rewrite round_0 by typeclasses eauto. rewrite Rabs_R0. apply bpow_gt_0. Qed.

Lemma nn_mult (D T : Bf) : is_finite D = true -> is_finite T = true -> 0 <= B2R D * B2R T ->
  nn (Bmult mode_NE D T).
Proof.
  intros FD FT Hp.
  pose proof (Bmult_correct 53 1024 _ _ mode_NE D T) as H. cbn [round_mode] in H.
  destruct (Rlt_bool_spec (Rabs (RN (B2R D * B2R T))) (bpow radix2 1024)) as [L|L].
  - destruct H as (H1 & H2 & _). right. rewrite H2, FD, FT, H1. split; [reflexivity|].
    now apply RN_nonneg.
  - left.
    assert (Hnz : B2R D * B2R T <> 0).
    { intros E. rewrite E in L. pose proof RN_small_0. lra. }
    assert (Hs : xorb (Bsign D) (Bsign T) = false).
    { destruct (Rtotal_order (B2R D) 0) as [Hd|[Hd|Hd]].
      - assert (B2R T < 0) by nra.
        now rewrite (Bsign_neg D FD Hd), (Bsign_neg T FT).
      - rewrite Hd, Rmult_0_l in Hnz. congruence.
      - assert (0 < B2R T) by nra.
        now rewrite (Bsign_pos D FD Hd), (Bsign_pos T FT). }
    rewrite Hs in H. now apply overflow_inf.
Qed.

Lemma nn_plus (X Y : Bf) : nn X -> nn Y -> nn (Bplus mode_NE X Y).
Proof.
  intros [->|[FX HX]] [->|[FY HY]].
  - left. reflexivity.
  - left. destruct Y; try discriminate; reflexivity.
  - left. destruct X; try discriminate; reflexivity.
  - pose proof (Bplus_correct 53 1024 _ _ mode_NE X Y FX FY) as H. cbn [round_mode] in H.
    destruct (Rlt_bool_spec (Rabs (RN (B2R X + B2R Y))) (bpow radix2 1024)) as [L|L].
    + destruct H as (H1 & H2 & _). right. split; [exact H2|]. rewrite H1. apply RN_nonneg. lra.
    + left. destruct H as [H Hs].
      destruct (Bsign X) eqn:Sx.
      * exfalso.
        assert (B2R X = 0).
        { destruct (Rle_lt_or_eq_dec _ _ HX) as [P|P]; [|now symmetry].
          rewrite (Bsign_pos X FX P) in Sx. discriminate. }
        assert (B2R Y = 0).
        { destruct (Rle_lt_or_eq_dec _ _ HY) as [P|P]; [|now symmetry].
          rewrite (Bsign_pos Y FY P) in Hs. discriminate. }
        replace (B2R X + B2R Y) with 0 in L by lra. pose proof RN_small_0. lra.
      * now apply overflow_inf.
Qed.

Lemma nn_div (X N : Bf) : nn X -> is_finite N = true -> 1 <= B2R N -> nn (Bdiv mode_NE X N).
Proof.
  intros [->|[FX HX]] FN HN.
  - left. assert (SN : Bsign N = false) by (apply Bsign_pos; auto; lra).
    destruct N as [s| | |s m e B]; try discriminate.
    + cbn [B2R] in HN. lra.
    + cbn [Bsign] in SN. subst s. reflexivity.
  - right. destruct (Bdiv_cases X N FX ltac:(lra)) as [(Fq & Rq & _)|(_ & Ov)].
    + split; [exact Fq|]. rewrite Rq. apply RN_nonneg. apply Rmult_le_pos; [exact HX|].
      apply Rlt_le, Rinv_0_lt_compat. lra.
    + exfalso. pose proof (quotient_bound (B2R X) (B2R N) (F64_B2R X) HN) as Q.
      pose proof (abs_B2R_lt_emax 53 1024 X). lra.
Qed.

(** one step of Welford's recurrence, given the mean step *)
Lemma welford_step_B (m x M2 m' : Bf) (n : Z) :
  is_finite m = true -> is_finite x = true -> is_finite m' = true ->
  mean_step (B2SF m) (n - 1) (B2SF x) = B2SF m' ->
  is_finite (Bminus mode_NE x m) = true ->
  (B2R m <= B2R m' <= B2R x \/ B2R x <= B2R m' <= B2R m) ->
  nn M2 ->
  exists M2' : Bf,
    welford_step (B2SF m, B2SF M2) (n - 1) (B2SF x) = (B2SF m', B2SF M2') /\ nn M2'.
Proof.
  intros Fm Fx Fm' Em Fd Hbt HM.
  unfold welford_step. unfold mean_step in Em. rewrite Em.
  assert (Rd : B2R (Bminus mode_NE x m) = RN (B2R x - B2R m) /\ Rabs (RN (B2R x - B2R m)) < bpow radix2 1024).
  { pose proof (Bminus_correct 53 1024 _ _ mode_NE x m Fx Fm) as H. cbn [round_mode] in H.
    destruct (Rlt_bool_spec (Rabs (RN (B2R x - B2R m))) (bpow radix2 1024)) as [L|L].
    - now destruct H as [H _].
    - destruct H as [H _]. apply not_overflow_finite in H. congruence. }
  destruct Rd as [Rd Bd].
  (* x - mean' is no larger than x - mean *)
  assert (Bt : Rabs (RN (B2R x - B2R m')) < bpow radix2 1024).
  { eapply Rle_lt_trans; [|exact Bd]. apply Rabs_def2 in Bd.
    destruct Hbt as [[A B]|[A B]].
    - assert (0 <= RN (B2R x - B2R m')) by (apply RN_nonneg; lra).
      assert (RN (B2R x - B2R m') <= RN (B2R x - B2R m)) by (apply RN_le; lra).
      rewrite !Rabs_pos_eq; lra.
    - assert (RN (B2R x - B2R m') <= 0).
      { rewrite <- (round_0 radix2 fexp64 ZnearestE). apply RN_le. lra. }
      assert (RN (B2R x - B2R m) <= RN (B2R x - B2R m')) by (apply RN_le; lra).
      rewrite !Rabs_left1; lra. }
  destruct (sub_R x m' Fx Fm' Bt) as (T & ET & FT & RT).
  rewrite b64_sub_Bminus, ET, b64_mul_Bmult', b64_add_Bplus.
  exists (Bplus mode_NE M2 (Bmult mode_NE (Bminus mode_NE x m) T)). split; [reflexivity|].
  apply nn_plus; [exact HM|]. apply nn_mult; auto.
  rewrite Rd, RT.
  destruct Hbt as [[A B]|[A B]].
  - apply Rmult_le_pos; apply RN_nonneg; lra.
  - assert (RN (B2R x - B2R m') <= 0).
    { rewrite <- (round_0 radix2 fexp64 ZnearestE). apply RN_le. lra. }
    assert (RN (B2R x - B2R m) <= 0).
    { rewrite <- (round_0 radix2 fexp64 ZnearestE). apply RN_le. lra. }
    nra.
Qed.

(** the loop: the mean stays in the hull, M2 stays non-negative or +Inf *)
Lemma welford_loop_nn (bxs : list Bf) : forall (m M2 : Bf) (i : Z) (lo hi : Bf),
  is_finite m = true -> (1 <= i)%Z -> (i + Z.of_nat (length bxs) < 2 ^ 53)%Z ->
  Forall (fun x => is_finite x = true /\ B2R lo <= B2R x <= B2R hi) bxs ->
  B2R lo <= B2R m <= B2R hi -> nn M2 ->
  mean_no_overflow_loop (B2SF m) i (map B2SF bxs) = true ->
  exists m' M2' : Bf,
    welford_loop (B2SF m, B2SF M2) i (map B2SF bxs) = (B2SF m', B2SF M2') /\ nn M2'.
Proof.
  induction bxs as [|x bxs IH]; intros m M2 i lo hi Fm Hi Hlen Hall Hm HM Hg; cbn [map welford_loop].
  - exists m, M2. auto.
  - inversion Hall as [|? ? [Fx Hx] Hall']; subst.
    cbn [map mean_no_overflow_loop] in Hg. apply andb_true_iff in Hg as [Hd Hg].
    rewrite b64_sub_Bminus, b64_is_finite_B2SF in Hd.
    cbn [length] in Hlen.
    assert (Hn : (1 <= i + 1 < 2 ^ 53)%Z) by lia.
    assert (Hnf : 2 <= IZR (i + 1)) by (apply (IZR_le 2); lia).
    assert (Hs : B2R lo <= step_real (B2R m) (B2R x) (IZR (i + 1)) <= B2R hi).
    { apply step_hull; auto using F64_B2R. }
    destruct (mean_step_B m x (i + 1) Fm Fx Hn Hd) as [m' [E [Fm' Rm']]].
    + eapply Rle_lt_trans; [apply quotient_bound|].
      * apply generic_format_round; typeclasses eauto.
      * apply (IZR_le 1). lia.
      * pose proof (Bminus_correct 53 1024 _ _ mode_NE x m Fx Fm) as H. cbn [round_mode] in H.
        destruct (Rlt_bool_spec (Rabs (RN (B2R x - B2R m))) (bpow radix2 1024)) as [L|L]; auto.
        destruct H as [H _]. apply not_overflow_finite in H. congruence.
    + apply (Rabs_between _ _ _ _ Hs); apply abs_B2R_lt_emax.
    + assert (Hbt : B2R m <= B2R m' <= B2R x \/ B2R x <= B2R m' <= B2R m).
      { rewrite Rm'. unfold step_real. destruct (Rle_or_lt (B2R m) (B2R x)) as [H|H].
        - left. apply step_up; auto using F64_B2R.
        - right. apply step_down; auto using F64_B2R. lra. }
      destruct (welford_step_B m x M2 m' (i + 1) Fm Fx Fm' E Hd Hbt HM) as (M2' & EW & HM').
      replace (i + 1 - 1)%Z with i in E, EW by lia. rewrite EW. rewrite E in Hg.
      apply (IH m' M2' (i + 1)%Z lo hi); auto; try lia. now rewrite Rm'.
Qed.

Definition Bz : Bf := B754_zero false.

Theorem variance_nonneg_B (bxs : list Bf) :
  Forall (fun x => is_finite x = true) bxs ->
  (Z.of_nat (length bxs) < 2 ^ 53)%Z ->
  mean_no_overflow (map B2SF bxs) = true ->
  bxs <> [] ->
  b64_le b64_zero (variance_f (map B2SF bxs)) = true.
Proof.
  intros Hfin Hlen Hg Hne.
  destruct bxs as [|x0 bxs]; [congruence|]. destruct bxs as [|x1 bxs]; [reflexivity|].
  set (l := x0 :: x1 :: bxs) in *.
  assert (HN : Forall not_nan (map B2SF l)).
  { rewrite Forall_map. eapply Forall_impl; [|exact Hfin]. intros x. apply not_nan_finite. }
  pose proof (LegacySort.bounds_are_extremes (map B2SF l) ltac:(cbn; congruence) HN) as HB.
  destruct (bounds_f (map B2SF l)) as [mn mx].
  destruct HB as [Imn [Imx [Hext _]]].
  apply in_map_iff in Imn as [lo [<- Ilo]]. apply in_map_iff in Imx as [hi [<- Ihi]].
  rewrite Forall_forall in Hfin.
  assert (Flo := Hfin lo Ilo). assert (Fhi := Hfin hi Ihi).
  assert (Hall : Forall (fun x => is_finite x = true /\ B2R lo <= B2R x <= B2R hi) l).
  { rewrite Forall_forall. intros x Hx. assert (Fx := Hfin x Hx). split; auto.
    destruct (Hext (B2SF x) (in_map B2SF _ _ Hx)) as [H1 H2]. split.
    - apply (b64_lt_false_R x lo Fx Flo H1).
    - apply (b64_lt_false_R hi x Fhi Fx H2). }
  unfold l in Hall. inversion Hall as [|? ? [Fx0 Hx0] Hall']; subst.
  unfold mean_no_overflow in Hg. unfold l in Hg, Hlen.
  change (mean_no_overflow_loop f_zero 0 (map B2SF (x0 :: x1 :: bxs)))
    with (b64_is_finite (b64_sub (B2SF x0) f_zero)
          && mean_no_overflow_loop (mean_step f_zero 0 (B2SF x0)) (0 + 1) (map B2SF (x1 :: bxs))) in Hg.
  apply andb_true_iff in Hg as [Hd Hg].
  change f_zero with (B2SF Bz) in Hd, Hg.
  rewrite b64_sub_Bminus, b64_is_finite_B2SF in Hd.
  destruct (mean_step_B Bz x0 1 eq_refl Fx0 ltac:(lia) Hd) as [m1 [E [Fm1 Rm1]]].
  { change (B2R Bz) with 0. rewrite Rminus_0_r, (RN_id _ (F64_B2R x0)). unfold Rdiv.
    rewrite Rinv_1, Rmult_1_r, (RN_id _ (F64_B2R x0)). apply abs_B2R_lt_emax. }
  { change (B2R Bz) with 0. rewrite (step_first _ (F64_B2R x0)). apply abs_B2R_lt_emax. }
  change (B2R Bz) with 0 in Rm1. rewrite (step_first _ (F64_B2R x0)) in Rm1.
  assert (Hbt : B2R Bz <= B2R m1 <= B2R x0 \/ B2R x0 <= B2R m1 <= B2R Bz).
  { rewrite Rm1. change (B2R Bz) with 0. destruct (Rle_or_lt 0 (B2R x0)); [left|right]; lra. }
  assert (HM0 : nn Bz) by (right; split; [reflexivity|cbn; lra]).
  destruct (welford_step_B Bz x0 Bz m1 1 eq_refl Fx0 Fm1 E Hd Hbt HM0) as (M1 & EW & HM1).
  change (1 - 1)%Z with 0%Z in E, EW.
  cbn [length] in Hlen.
  rewrite E in Hg. change (0 + 1)%Z with 1%Z in Hg.
  destruct (welford_loop_nn (x1 :: bxs) m1 M1 1 lo hi Fm1 ltac:(lia) ltac:(cbn [length]; lia) Hall')
    as (m' & M2' & EL & HM2); auto.
  { now rewrite Rm1. }
  unfold variance_f, l. cbn [map].
  change (welford_loop (f_zero, f_zero) 0 (B2SF x0 :: B2SF x1 :: map B2SF bxs))
    with (welford_loop (welford_step (B2SF Bz, B2SF Bz) 0 (B2SF x0)) (0 + 1) (map B2SF (x1 :: bxs))).
  rewrite EW. change (0 + 1)%Z with 1%Z. rewrite EL.
  cbn [length]. rewrite map_length.
  set (nm1 := (Z.of_nat (S (S (length bxs))) - 1)%Z).
  assert (Hnm : (1 <= nm1 < 2 ^ 53)%Z) by (unfold nm1; lia).
  rewrite b64_of_Z_BofZ, b64_div_Bdiv.
  destruct (BofZ_exact nm1 ltac:(lia)) as [Fn Rn].
  assert (HN1 : 1 <= B2R (BofZ nm1)) by (rewrite Rn; apply (IZR_le 1); lia).
  destruct (nn_div M2' (BofZ nm1) HM2 Fn HN1) as [->|[FQ HQ]]; [reflexivity|].
  rewrite b64_zero_B. apply b64_le_of_R; auto.
Qed.

(** Theorem (variance_nonneg_b64) *)
Theorem variance_nonneg_b64 (xs : list b64) :
  xs <> [] ->
  Forall (fun x => valid x = true /\ b64_is_finite x = true) xs ->
  (Z.of_nat (length xs) < 2 ^ 53)%Z ->
  mean_no_overflow xs = true ->
  b64_le b64_zero (variance_f xs) = true.
Proof.
  intros Hne Hall Hlen Hg.
  destruct (valid_list_lift xs) as [bxs ->].
  { eapply Forall_impl; [|exact Hall]. now intros x [H _]. }
  assert (Hfin : Forall (fun x : Bf => is_finite x = true) bxs).
  { rewrite Forall_map in Hall. eapply Forall_impl; [|exact Hall].
    intros x [_ H]. now rewrite b64_is_finite_B2SF in H. }
  rewrite map_length in Hlen.
  apply variance_nonneg_B; auto. intros ->. now apply Hne.
Qed.

(** without the guard: Variance{-2^1023, 2^1023} = -Inf (the difference
    overflows: delta = +Inf, mean = +Inf, x - mean = -Inf), and with a third
    value NaN *)
Example variance_overflow_negative :
  let big := b64_of_ZE 1 1023 in
  mean_no_overflow [b64_neg big; big] = false /\
  variance_f [b64_neg big; big] = S754_infinity true /\
  variance_f [b64_neg big; big; b64_zero] = S754_nan.
Proof. vm_compute. repeat split; reflexivity. Qed.
