(** bisectBool (internal/stats/alg.go) as modelled by Model/Bisect.v: total
    correctness over binary64.

    For every boolean function g on binary64 values and valid finite
    low < high with |low|, |high| < 2^1023 and g low <> g high, with any fuel
    >= bisect_steps_bound = 2296 the loop does not run out of fuel and returns
    x1, x2 with  low <= x1 < x2 <= high,  g x1 = g low,  g x2 = g high,  and
    x2 -64 x1 <= xtol  or  x1, x2 neighbouring binary64 values.

    Why 2296: the interval length, a multiple of 2^-1074 below 2^1024, shrinks
    to at most 33/64 of itself while it is wide (Proofs/BisectReal.v:
    mid_shrink), 2196 times at most since (64/33)^2196 >= 2^2098; once narrow,
    the ends sit on a grid with at most 100 steps between them (narrow_grid)
    and every further iteration removes at least one grid step.

    The range hypothesis is necessary: beyond 2^1023 the sum high + low
    overflows, the midpoint is +Inf and the returned pair leaves [low, high]
    ([bisect_overflow_escapes]).

    Real-number reasoning through Flocq: the standard library's classical
    reals appear in Print Assumptions. *)
From Coq Require Import ZArith Reals Lia Lra Bool List.
From Flocq Require Import Core BinarySingleNaN.
From Perf Require Import Base.Bytes Base.B64 Model.Beta Model.Bisect
     Proofs.B64Flocq Proofs.LegacyMean Proofs.B64Ops Proofs.TTest Proofs.BisectReal.
Local Open Scope R_scope.

(** 2^1023 *)
Definition k_2p1023 : b64 := S754_finite false 4503599627370496 971.
Definition bisect_in_range (x : b64) : bool := b64_lt (b64_abs x) k_2p1023.

(** no binary64 value lies strictly between x1 and x2 *)
Definition b64_adjacent (x1 x2 : b64) : Prop :=
  forall y, valid y = true -> ~ (b64_lt x1 y = true /\ b64_lt y x2 = true).

Definition bisect_steps_bound : nat := 2296.

Record Inv (L H : Bf) : Prop := {
  inv_fl : is_finite L = true;
  inv_fh : is_finite H = true;
  inv_lt : B2R L < B2R H;
  inv_bl : Rabs (B2R L) < bpow radix2 1023;
  inv_bh : Rabs (B2R H) < bpow radix2 1023 }.

Lemma B2R_two : is_finite (BofZ 2) = true /\ B2R (BofZ 2) = 2.
Proof. apply (BofZ_exact 2). lia. Qed.

(** one evaluation of  mid := (high + low) / 2  in range *)
Lemma mid_B (L H : Bf) : Inv L H ->
  exists Mid : Bf,
    b64_div (b64_add (B2SF H) (B2SF L)) k_two = B2SF Mid /\ is_finite Mid = true
    /\ B2R Mid = mid_real (B2R L) (B2R H).
Proof.
  intros [Fl Fh Hlt Bl Bh].
  unfold k_two. rewrite b64_of_Z_BofZ, b64_add_Bplus, b64_div_Bdiv.
  destruct B2R_two as [F2 R2].
  set (l := B2R L) in *. set (h := B2R H) in *.
  assert (FL : F64 l) by apply F64_B2R. assert (FH : F64 h) by apply F64_B2R.
  (* the sum does not overflow *)
  assert (Hs : Rabs (RN (h + l)) < bpow radix2 1024).
  { set (m := Rmax (Rabs l) (Rabs h)).
    assert (Fm : F64 m).
    { unfold m. destruct (Rmax_case (Rabs l) (Rabs h) (fun r => r = Rabs l \/ r = Rabs h)) as [E|E]; auto;
        rewrite E; apply generic_format_abs; assumption. }
    assert (Hm : m < bpow radix2 1023) by (unfold m; apply Rmax_lub_lt; assumption).
    apply Rle_lt_trans with (2 * m).
    - apply abs_round_le_generic; try typeclasses eauto.
      + apply F64_double. exact Fm.
      + eapply Rle_trans; [apply Rabs_triang|].
        assert (Rabs l <= m) by apply Rmax_l. assert (Rabs h <= m) by apply Rmax_r. lra.
    - change (bpow radix2 1024) with (2 * bpow radix2 1023). lra. }
  pose proof (Bplus_correct 53 1024 _ _ mode_NE H L Fh Fl) as Hp. cbn [round_mode] in Hp.
  fold h l in Hp. rewrite Rlt_bool_true in Hp by exact Hs.
  destruct Hp as (Rs & Fs & _).
  set (S := Bplus mode_NE H L) in *.
  assert (P2 : 0 < B2R (BofZ 2)) by (rewrite R2; lra).
  pose proof (mid_between l h FL FH (Rlt_le _ _ Hlt)) as Hb.
  destruct (Bdiv_cases S (BofZ 2) Fs P2) as [(Fq & Rq & _)|(_ & Ov)].
  - exists (Bdiv mode_NE S (BofZ 2)). split; [reflexivity|]. split; [exact Fq|].
    rewrite Rq, Rs, R2. reflexivity.
  - exfalso. rewrite Rs, R2 in Ov. fold (mid_real l h) in Ov.
    assert (Rabs (mid_real l h) < bpow radix2 1023) by (apply (Rabs_between l h); auto).
    assert (bpow radix2 1023 < bpow radix2 1024) by (apply bpow_lt; lia). lra.
Qed.

Lemma Inv_sub L H Mid : Inv L H -> is_finite Mid = true -> B2R L < B2R Mid < B2R H ->
  Inv Mid H /\ Inv L Mid.
Proof.
  intros [Fl Fh Hlt Bl Bh] Fm [H1 H2].
  assert (Bm : Rabs (B2R Mid) < bpow radix2 1023) by (apply (Rabs_between (B2R L) (B2R H)); auto; lra).
  split; constructor; auto.
Qed.

Section Full.
  Variable g : b64 -> bool.

  Lemma loop_mono f : forall k l h flow xtol x1 x2,
    bisect_loop (total_f g) f l h flow xtol = BRes x1 x2 ->
    bisect_loop (total_f g) (f + k) l h flow xtol = BRes x1 x2.
  Proof.
    induction f as [|f IH]; intros k l h flow xtol x1 x2; cbn [bisect_loop Nat.add]; [discriminate|].
    destruct (b64_le _ _); auto. destruct (_ || _); auto.
    rewrite total_f_eq. destruct (Bool.eqb _ _); apply IH.
  Qed.

  (** the loop, given [f] units of fuel, returns an ordered pair inside
      [L, H] that meets the exit condition *)
  Definition Good (f : nat) (L H : Bf) : Prop :=
    forall flow xtol, exists X1 X2 : Bf,
      bisect_loop (total_f g) f (B2SF L) (B2SF H) flow xtol = BRes (B2SF X1) (B2SF X2) /\
      is_finite X1 = true /\ is_finite X2 = true /\
      B2R L <= B2R X1 /\ B2R X1 < B2R X2 /\ B2R X2 <= B2R H /\
      (b64_le (b64_sub (B2SF X2) (B2SF X1)) xtol = true \/ adjacentR (B2R X1) (B2R X2)).

  Lemma Good_mono f k L H : Good f L H -> Good (f + k) L H.
  Proof.
    intros Hg flow xtol. destruct (Hg flow xtol) as (X1 & X2 & E & R).
    exists X1, X2. split; [now apply loop_mono|exact R].
  Qed.

  Lemma Good_step f L H : Inv L H ->
    (forall Mid : Bf, is_finite Mid = true -> B2R Mid = mid_real (B2R L) (B2R H) ->
       B2R L < B2R Mid < B2R H -> Good f Mid H /\ Good f L Mid) ->
    Good (S f) L H.
  Proof.
    intros HI Hrec flow xtol. cbn [bisect_loop].
    pose proof HI as [Fl Fh Hlt Bl Bh].
    destruct (b64_le (b64_sub (B2SF H) (B2SF L)) xtol) eqn:Et.
    { exists L, H. repeat split; auto; try lra. }
    destruct (mid_B L H HI) as (Mid & Em & Fm & Rm). rewrite Em.
    rewrite (b64_eq_R Mid H Fm Fh), (b64_eq_R Mid L Fm Fl).
    assert (FL : F64 (B2R L)) by apply F64_B2R. assert (FH : F64 (B2R H)) by apply F64_B2R.
    pose proof (mid_between _ _ FL FH (Rlt_le _ _ Hlt)) as Hb. rewrite <- Rm in Hb.
    destruct (Req_bool_spec (B2R Mid) (B2R H)) as [EH|NH]; cbn [orb].
    { exists L, H. repeat split; auto; try lra. right.
      apply (mid_collapse_iff_adjacent _ _ FL FH Hlt). right. congruence. }
    destruct (Req_bool_spec (B2R Mid) (B2R L)) as [EL|NL].
    { exists L, H. repeat split; auto; try lra. right.
      apply (mid_collapse_iff_adjacent _ _ FL FH Hlt). left. congruence. }
    assert (Hstrict : B2R L < B2R Mid < B2R H) by lra.
    destruct (Hrec Mid Fm Rm Hstrict) as [G1 G2].
    rewrite total_f_eq. destruct (Bool.eqb (g (B2SF Mid)) flow).
    - destruct (G1 flow xtol) as (X1 & X2 & E & F1 & F2 & A & B & C & D).
      exists X1, X2. repeat split; auto; lra.
    - destruct (G2 flow xtol) as (X1 & X2 & E & F1 & F2 & A & B & C & D).
      exists X1, X2. repeat split; auto; lra.
  Qed.

  (** narrow phase: at most [n] grid steps between the ends *)
  Lemma narrow_good n : forall (L H : Bf) (gz : Z), Inv L H ->
    (forall y, F64 y -> B2R L <= y <= B2R H -> on_grid gz y) ->
    B2R H - B2R L <= IZR (Z.of_nat n) * bpow radix2 gz ->
    Good n L H.
  Proof.
    induction n as [|n IH]; intros L H gz HI Hgrid Hn.
    - exfalso. destruct HI. cbn in Hn. lra.
    - apply Good_step; [exact HI|]. intros Mid Fm Rm Hs.
      destruct (Inv_sub L H Mid HI Fm Hs) as [I1 I2].
      assert (GL : on_grid gz (B2R L)) by (apply Hgrid; [apply F64_B2R|lra]).
      assert (GH : on_grid gz (B2R H)) by (apply Hgrid; [apply F64_B2R|lra]).
      assert (GM : on_grid gz (B2R Mid)) by (apply Hgrid; [apply F64_B2R|lra]).
      pose proof (grid_step gz _ _ GL GM (proj1 Hs)).
      pose proof (grid_step gz _ _ GM GH (proj2 Hs)).
      rewrite Nat2Z.inj_succ, succ_IZR in Hn.
      split; apply (IH _ _ gz); auto; try lra; intros y Fy Hy; apply Hgrid; auto; lra.
  Qed.

  (** wide phase: the length is at most 2^-1074 (64/33)^j *)
  Lemma wide_good j : forall L H : Bf, Inv L H ->
    B2R H - B2R L <= bpow radix2 (-1074) * (64 / 33) ^ j ->
    Good (j + 100) L H.
  Proof.
    induction j as [|j IH]; intros L H HI Hn.
    - rewrite Nat.add_comm. apply (Good_mono 1 99).
      apply (narrow_good 1 L H (-1074)); auto.
      + intros y Fy _. now apply finest_grid.
      + rewrite pow_O, Rmult_1_r in Hn. change (IZR (Z.of_nat 1)) with 1. lra.
    - pose proof HI as [Fl Fh Hlt Bl Bh].
      assert (FL : F64 (B2R L)) by apply F64_B2R. assert (FH : F64 (B2R H)) by apply F64_B2R.
      destruct (Rle_or_lt (64 * gap (B2R L) (B2R H)) (B2R H - B2R L)) as [Hw|Hnar].
      + cbn [Nat.add]. apply Good_step; [exact HI|]. intros Mid Fm Rm Hs.
        destruct (Inv_sub L H Mid HI Fm Hs) as [I1 I2].
        destruct (mid_shrink _ _ FL FH (Rlt_le _ _ Hlt) Hw) as [S1 S2]. rewrite <- Rm in S1, S2.
        cbn [pow] in Hn.
        pose proof (bpow_gt_0 radix2 (-1074)).
        assert (0 < (64 / 33) ^ j) by (apply pow_lt; lra).
        split; apply IH; auto; nra.
      + destruct (narrow_grid _ _ FL FH Hlt Hnar) as (gz & Hgrid & Hb).
        rewrite Nat.add_comm. apply Good_mono. apply (narrow_good 100 L H gz); auto.
  Qed.

  Lemma pow_bound : bpow radix2 1024 <= bpow radix2 (-1074) * (64 / 33) ^ 2196.
  Proof.
    assert (Hz : (2 ^ 2098 * 33 ^ 2196 <= 64 ^ 2196)%Z) by (apply Z.leb_le; vm_compute; reflexivity).
    apply IZR_le in Hz. rewrite mult_IZR in Hz.
    change 2196%Z with (Z.of_nat 2196) in Hz. rewrite <- !pow_IZR in Hz.
    assert (P33 : 0 < 33 ^ 2196) by (apply pow_lt; lra).
    assert (E : (64 / 33) ^ 2196 = 64 ^ 2196 / 33 ^ 2196).
    { unfold Rdiv. rewrite Rpow_mult_distr, pow_inv. reflexivity. }
    rewrite E.
    replace (bpow radix2 1024) with (bpow radix2 (-1074) * IZR (2 ^ 2098)).
    - apply Rmult_le_compat_l; [apply bpow_ge_0|].
      apply Rmult_le_reg_r with (33 ^ 2196); [exact P33|].
      set (a := 33 ^ 2196) in *. set (b := 64 ^ 2196) in *. set (c := IZR (2 ^ 2098)) in *.
      unfold Rdiv. rewrite Rmult_assoc, Rinv_l by lra. lra.
    - change (2 ^ 2098)%Z with (radix_val radix2 ^ 2098)%Z. rewrite (IZR_Zpower radix2 2098) by lia. rewrite <- bpow_plus. reflexivity.
  Qed.

  Theorem bisect_loop_total L H : Inv L H -> Good bisect_steps_bound L H.
  Proof.
    intros HI. apply (wide_good 2196 L H HI).
    eapply Rle_trans; [|apply pow_bound].
    destruct HI as [_ _ Hlt Bl Bh]. apply Rabs_def2 in Bl. apply Rabs_def2 in Bh.
    change (bpow radix2 1024) with (2 * bpow radix2 1023). lra.
  Qed.
End Full.

(** * statements over [b64] values *)
Lemma b64_abs_Babs (X : Bf) : b64_abs (B2SF X) = B2SF (Babs X).
Proof. now destruct X. Qed.

Lemma k_2p1023_B : exists K : Bf, k_2p1023 = B2SF K /\ is_finite K = true /\ B2R K = bpow radix2 1023.
Proof.
  assert (V : valid k_2p1023 = true) by reflexivity.
  exists (SF2B k_2p1023 V). split; [now rewrite B2SF_SF2B|]. split; [reflexivity|].
  rewrite B2R_SF2B. cbn [SF2R k_2p1023]. unfold F2R. cbn [Fnum Fexp cond_Zopp].
  change 4503599627370496%Z with (radix_val radix2 ^ 52)%Z. rewrite (IZR_Zpower radix2 52) by lia.
  rewrite <- bpow_plus. reflexivity.
Qed.

Lemma in_range_R (X : Bf) : bisect_in_range (B2SF X) = true ->
  is_finite X = true /\ Rabs (B2R X) < bpow radix2 1023.
Proof.
  unfold bisect_in_range. rewrite b64_abs_Babs.
  intros H.
  assert (FX : is_finite X = true) by (destruct X; try reflexivity; vm_compute in H; discriminate).
  destruct k_2p1023_B as (K & EK & FK & RK). rewrite EK in H.
  split; [exact FX|].
  assert (FA : is_finite (Babs X) = true) by (now destruct X).
  pose proof (SFltb_R (Babs X) K FA FK H) as HR. rewrite B2R_Babs, RK in HR. exact HR.
Qed.

Lemma adjacent_of_R (X1 X2 : Bf) : is_finite X1 = true -> is_finite X2 = true ->
  adjacentR (B2R X1) (B2R X2) -> b64_adjacent (B2SF X1) (B2SF X2).
Proof.
  intros F1 F2 Ha y Vy [H1 H2].
  rewrite <- (B2SF_SF2B 53 1024 y Vy) in H1, H2. set (Y := SF2B y Vy) in *.
  assert (FY : is_finite Y = true).
  { destruct Y as [s|[|]| |s m e B]; try reflexivity.
    - destruct X1 as [s1|[|]| |[|] m1 e1 B1]; cbn in H1; discriminate.
    - destruct X2 as [s2|[|]| |[|] m2 e2 B2]; cbn in H2; discriminate.
    - destruct X1 as [s1|[|]| |[|] m1 e1 B1]; cbn in H1; discriminate. }
  apply (Ha (B2R Y) (F64_B2R Y)). split; apply SFltb_R; auto.
Qed.

(** Theorem (bisect_brackets): total correctness of bisectBool in range. *)
Theorem bisect_brackets (g : b64 -> bool) fuel low high xtol :
  valid low = true -> valid high = true ->
  b64_lt low high = true ->
  bisect_in_range low = true -> bisect_in_range high = true ->
  g low <> g high ->
  (bisect_steps_bound <= fuel)%nat ->
  exists x1 x2,
    bisect_bool (total_f g) fuel low high xtol = BRes x1 x2 /\
    valid x1 = true /\ valid x2 = true /\
    b64_le low x1 = true /\ b64_lt x1 x2 = true /\ b64_le x2 high = true /\
    g x1 = g low /\ g x2 = g high /\
    (b64_le (b64_sub x2 x1) xtol = true \/ b64_adjacent x1 x2).
Proof.
  intros Vl Vh Hlt Rl Rh Hg Hf.
  rewrite <- (B2SF_SF2B 53 1024 low Vl) in *. rewrite <- (B2SF_SF2B 53 1024 high Vh) in *.
  set (L := SF2B low Vl) in *. set (H := SF2B high Vh) in *.
  destruct (in_range_R L Rl) as [Fl Bl]. destruct (in_range_R H Rh) as [Fh Bh].
  assert (HI : Inv L H).
  { constructor; auto. now apply SFltb_R. }
  replace fuel with (bisect_steps_bound + (fuel - bisect_steps_bound))%nat by lia.
  pose proof (Good_mono g _ (fuel - bisect_steps_bound) L H (bisect_loop_total g L H HI)) as HG.
  set (fu := (bisect_steps_bound + (fuel - bisect_steps_bound))%nat) in *.
  destruct (HG (g (B2SF L)) xtol) as (X1 & X2 & E & F1 & F2 & A & B & C & D).
  assert (Eb : bisect_bool (total_f g) fu (B2SF L) (B2SF H) xtol = BRes (B2SF X1) (B2SF X2)).
  { unfold bisect_bool. rewrite !total_f_eq.
    destruct (Bool.eqb (g (B2SF L)) (g (B2SF H))) eqn:Ee; [apply Bool.eqb_prop in Ee; contradiction|exact E]. }
  destruct (bisect_brackets_partial g fu (B2SF L) (B2SF H) xtol) as (_ & _ & P).
  destruct (P _ _ Eb) as (P1 & P2 & _ & _).
  exists (B2SF X1), (B2SF X2). split; [exact Eb|].
  split; [apply valid_binary_B2SF|]. split; [apply valid_binary_B2SF|].
  split; [now apply b64_le_of_R|]. split; [now apply b64_lt_of_R|]. split; [now apply b64_le_of_R|].
  split; [exact P1|]. split; [exact P2|].
  destruct D as [D|D]; [now left|right]. now apply adjacent_of_R.
Qed.

(** the model's fuel for the bisection (4096) is ample *)
Lemma bisect_fuel_sufficient : (bisect_steps_bound <= bisect_fuel)%nat.
Proof. unfold bisect_steps_bound, bisect_fuel. lia. Qed.

Lemma bisect_bound_and_fuel :
  bisect_steps_bound = 2296%nat /\ (bisect_steps_bound <= bisect_fuel)%nat.
Proof. split; [reflexivity|exact bisect_fuel_sufficient]. Qed.

(** what the collapse of the midpoint means, over [b64]: in range, the test
    [mid == high || mid == low] succeeds exactly for neighbouring values *)
Theorem bisect_mid_collapse_iff_adjacent low high :
  valid low = true -> valid high = true -> b64_lt low high = true ->
  bisect_in_range low = true -> bisect_in_range high = true ->
  let mid := b64_div (b64_add high low) k_two in
  (b64_eq mid high || b64_eq mid low = true <-> b64_adjacent low high)
  /\ b64_le low mid = true /\ b64_le mid high = true.
Proof.
  intros Vl Vh Hlt Rl Rh.
  rewrite <- (B2SF_SF2B 53 1024 low Vl) in *. rewrite <- (B2SF_SF2B 53 1024 high Vh) in *.
  set (L := SF2B low Vl) in *. set (H := SF2B high Vh) in *.
  destruct (in_range_R L Rl) as [Fl Bl]. destruct (in_range_R H Rh) as [Fh Bh].
  assert (HR : B2R L < B2R H) by now apply SFltb_R.
  assert (HI : Inv L H) by (constructor; auto).
  destruct (mid_B L H HI) as (Mid & Em & Fm & Rm). cbn zeta. rewrite Em.
  assert (FL : F64 (B2R L)) by apply F64_B2R. assert (FH : F64 (B2R H)) by apply F64_B2R.
  pose proof (mid_between _ _ FL FH (Rlt_le _ _ HR)) as Hb. rewrite <- Rm in Hb.
  split; [|split; apply b64_le_of_R; auto; lra].
  rewrite (b64_eq_R Mid H Fm Fh), (b64_eq_R Mid L Fm Fl).
  pose proof (mid_collapse_iff_adjacent _ _ FL FH HR) as Hc. rewrite <- Rm in Hc.
  split.
  - intros Hor. apply adjacent_of_R; auto. apply Hc.
    apply orb_true_iff in Hor. destruct Hor as [E|E]; [right|left];
      match type of E with Req_bool ?a ?b = true => destruct (Req_bool_spec a b); [assumption|discriminate] end.
  - intros Ha. apply orb_true_iff.
    destruct (Req_bool_spec (B2R Mid) (B2R H)) as [E|NH]; [now left|right].
    destruct (Req_bool_spec (B2R Mid) (B2R L)) as [E|NL]; [reflexivity|exfalso].
    apply (Ha (B2SF Mid) (valid_binary_B2SF 53 1024 Mid)). split; apply b64_lt_of_R; auto; lra.
Qed.

(** beyond the range the midpoint overflows and the result leaves [low, high]:
    low = 2^1023, high = 1.5 * 2^1023, g x := x < 1.25 * 2^1023 returns
    (2^1023, +Inf) *)
Definition ov_low : b64 := S754_finite false 4503599627370496 971.
Definition ov_high : b64 := S754_finite false 6755399441055744 971.
Definition ov_g (x : b64) : bool := b64_lt x (S754_finite false 5629499534213120 971).

Theorem bisect_overflow_escapes :
  valid ov_low = true /\ valid ov_high = true /\ b64_lt ov_low ov_high = true /\
  ov_g ov_low <> ov_g ov_high /\
  bisect_bool (total_f ov_g) bisect_fuel ov_low ov_high k_xtol = BRes ov_low (S754_infinity false) /\
  b64_le (S754_infinity false) ov_high = false.
Proof. vm_compute. repeat split; discriminate. Qed.
