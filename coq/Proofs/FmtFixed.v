(** Characterising lemmas of Base/FmtFixed.v (exact integer arithmetic, no
    axioms): the printed scaled integer is the nearest to x * 10^prec with ties
    to even, is unique as such, within half a unit, and monotone in x. *)
From Perf Require Import Base.Bytes Base.B64 Base.FmtFixed.
Local Open Scope Z_scope.

(** ** [rne_div] *)

Lemma rne_div_cases a d : 0 < d ->
  2 * Z.abs (rne_div a d * d - a) < d \/
  (2 * Z.abs (rne_div a d * d - a) = d /\ Z.even (rne_div a d) = true).
Proof.
  intros Hd. unfold rne_div.
  pose proof (Z.div_mod a d ltac:(lia)) as E.
  pose proof (Z.mod_pos_bound a d Hd) as B.
  set (q := a / d) in *. set (r := a mod d) in *.
  destruct (Z.compare_spec (2 * r) d) as [H|H|H].
  - destruct (Z.even q) eqn:Ev.
    + right. split; [|exact Ev]. replace (q * d - a) with (- r) by lia. lia.
    + right. split.
      * replace ((q + 1) * d - a) with (d - r) by lia. lia.
      * rewrite Z.even_add, Ev. reflexivity.
  - left. replace (q * d - a) with (- r) by lia. lia.
  - left. replace ((q + 1) * d - a) with (d - r) by lia. lia.
Qed.

Lemma is_rne_iff n a d :
  is_rne n a d = true <->
  2 * Z.abs (n * d - a) < d \/ (2 * Z.abs (n * d - a) = d /\ Z.even n = true).
Proof.
  unfold is_rne. rewrite orb_true_iff, andb_true_iff, Z.ltb_lt, Z.eqb_eq. tauto.
Qed.

(** the printed integer is a nearest-even rounding ... *)
Lemma rne_div_spec a d : 0 < d -> is_rne (rne_div a d) a d = true.
Proof. intros Hd. apply is_rne_iff. now apply rne_div_cases. Qed.

Lemma rne_div_bound a d : 0 < d -> 2 * Z.abs (rne_div a d * d - a) <= d.
Proof. intros Hd. destruct (rne_div_cases a d Hd) as [H|[H _]]; lia. Qed.

Lemma mul_ge_self k d : 0 < d -> 1 <= k -> d <= k * d.
Proof. intros. nia. Qed.
Lemma mul_eq_self k d : 0 < d -> k * d = d -> k = 1.
Proof. intros. nia. Qed.
Lemma mul_le_self k d : 0 < d -> k * d <= d -> k <= 1.
Proof. intros. nia. Qed.

(** ... and nearest-even roundings are unique *)
Lemma is_rne_unique a d n1 n2 :
  0 < d -> is_rne n1 a d = true -> is_rne n2 a d = true -> n1 = n2.
Proof.
  intros Hd H1 H2. apply is_rne_iff in H1. apply is_rne_iff in H2.
  assert (Hw : forall x y, x < y ->
     (2 * Z.abs (x * d - a) < d \/ 2 * Z.abs (x * d - a) = d /\ Z.even x = true) ->
     (2 * Z.abs (y * d - a) < d \/ 2 * Z.abs (y * d - a) = d /\ Z.even y = true) -> False).
  { intros x y Hxy Hx Hy.
    assert (Hd1 : d <= (y - x) * d) by (apply mul_ge_self; lia).
    assert (Hs : (y - x) * d = (y * d - a) - (x * d - a)) by lia.
    destruct Hx as [Hx|[Hx Ex]]; destruct Hy as [Hy|[Hy Ey]]; try lia.
    assert (y - x = 1) by (apply (mul_eq_self _ d); lia).
    replace y with (x + 1) in Ey by lia.
    rewrite Z.even_add, Ex in Ey. discriminate. }
  destruct (Z.lt_trichotomy n1 n2) as [L|[L|L]]; auto; exfalso; eauto.
Qed.

Lemma rne_div_mono a b d : 0 < d -> a <= b -> rne_div a d <= rne_div b d.
Proof.
  intros Hd Hab.
  destruct (Z.eq_dec a b) as [->|Hne]; [lia|].
  pose proof (rne_div_bound a d Hd) as Ba.
  pose proof (rne_div_bound b d Hd) as Bb.
  set (n1 := rne_div a d) in *. set (n2 := rne_div b d) in *.
  destruct (Z_le_gt_dec n1 n2) as [L|G]; auto. exfalso.
  assert (d <= (n1 - n2) * d) by (apply mul_ge_self; lia).
  assert ((n1 - n2) * d = (n1 * d - a) - (n2 * d - b) + (a - b)) by lia.
  lia.
Qed.

Lemma rne_div_scale a d k : 0 < d -> 0 < k -> rne_div (a * k) (d * k) = rne_div a d.
Proof.
  intros Hd Hk. unfold rne_div.
  rewrite Z.div_mul_cancel_r by lia.
  rewrite Z.mul_mod_distr_r by lia.
  replace (2 * (a mod d * k)) with (2 * (a mod d) * k) by lia.
  rewrite <- Zmult_compare_compat_r by lia. reflexivity.
Qed.

Lemma rne_div_cross_mono a1 d1 a2 d2 :
  0 < d1 -> 0 < d2 -> a1 * d2 <= a2 * d1 -> rne_div a1 d1 <= rne_div a2 d2.
Proof.
  intros H1 H2 H.
  rewrite <- (rne_div_scale a1 d1 d2 H1 H2), <- (rne_div_scale a2 d2 d1 H2 H1).
  replace (d2 * d1) with (d1 * d2) by lia.
  apply rne_div_mono; lia.
Qed.

Lemma rne_div_1 a : rne_div a 1 = a.
Proof.
  unfold rne_div. rewrite Z.div_1_r, Z.mod_1_r. reflexivity.
Qed.

Lemma rne_div_nonneg a d : 0 < d -> 0 <= a -> 0 <= rne_div a d.
Proof.
  intros Hd Ha. rewrite <- (rne_div_1 0) at 1.
  apply rne_div_cross_mono; lia.
Qed.

(** ** the printed scaled integer *)

Definition epos (e : Z) : Z := Z.max e 0.
Definition eneg (e : Z) : Z := Z.max (- e) 0.

Lemma fx_mag_rne m e p :
  fx_mag m e p = rne_div (Zpos m * 2 ^ epos e * 10 ^ Z.of_nat p) (2 ^ eneg e).
Proof.
  unfold fx_mag, epos, eneg. destruct e as [|k|k].
  - cbn [Z.max Z.opp Z.compare]. rewrite rne_div_1. reflexivity.
  - replace (Z.max (Zpos k) 0) with (Zpos k) by lia.
    replace (Z.max (- Zpos k) 0) with 0 by lia.
    rewrite Z.pow_0_r, rne_div_1. reflexivity.
  - replace (Z.max (Zneg k) 0) with 0 by lia.
    replace (Z.max (- Zneg k) 0) with (Zpos k) by lia.
    rewrite Z.pow_0_r, Z.mul_1_r. reflexivity.
Qed.

Lemma pow2_pos' k : 0 <= k -> 0 < 2 ^ k.
Proof. intros; apply Z.pow_pos_nonneg; lia. Qed.

Lemma pow10_pos p : 0 < 10 ^ Z.of_nat p.
Proof. apply Z.pow_pos_nonneg; lia. Qed.

(** half a unit of the last printed digit, exactly: with [D = 2^max(-e,0)],
      | N * D - m * 2^max(e,0) * 10^p |  <=  D / 2
    i.e. | N / 10^p - m * 2^e | <= 1/2 * 10^-p *)
Theorem fx_value_bound m e p :
  2 * Z.abs (fx_mag m e p * 2 ^ eneg e - Zpos m * 2 ^ epos e * 10 ^ Z.of_nat p) <= 2 ^ eneg e.
Proof.
  rewrite fx_mag_rne. apply rne_div_bound. apply pow2_pos'. unfold eneg; lia.
Qed.

Theorem fx_mag_is_rne m e p :
  is_rne (fx_mag m e p) (Zpos m * 2 ^ epos e * 10 ^ Z.of_nat p) (2 ^ eneg e) = true.
Proof.
  rewrite fx_mag_rne. apply rne_div_spec. apply pow2_pos'. unfold eneg; lia.
Qed.

Lemma fx_mag_nonneg m e p : 0 <= fx_mag m e p.
Proof.
  rewrite fx_mag_rne. apply rne_div_nonneg.
  - apply pow2_pos'. unfold eneg; lia.
  - pose proof (pow2_pos' (epos e) ltac:(unfold epos; lia)). pose proof (pow10_pos p). nia.
Qed.

(** order of exact values [m1 * 2^e1 <= m2 * 2^e2], at a common exponent [c] *)
Lemma pow_split a b : 0 <= a -> 0 <= b -> 2 ^ (a + b) = 2 ^ a * 2 ^ b.
Proof. intros. apply Z.pow_add_r; lia. Qed.

Lemma fx_mag_mono m1 e1 m2 e2 p c :
  c = Z.min e1 e2 ->
  Zpos m1 * 2 ^ (e1 - c) <= Zpos m2 * 2 ^ (e2 - c) ->
  fx_mag m1 e1 p <= fx_mag m2 e2 p.
Proof.
  intros C H. assert (C1 : c <= e1) by lia. assert (C2 : c <= e2) by lia. rewrite !fx_mag_rne.
  assert (Hn1 : 0 <= eneg e1) by (unfold eneg; lia).
  assert (Hn2 : 0 <= eneg e2) by (unfold eneg; lia).
  assert (Hp1 : 0 <= epos e1) by (unfold epos; lia).
  assert (Hp2 : 0 <= epos e2) by (unfold epos; lia).
  apply rne_div_cross_mono; try (apply pow2_pos'; assumption).
  set (k := c + eneg e1 + eneg e2).
  assert (Hk : 0 <= k) by (unfold k, eneg; lia).
  assert (E1 : 2 ^ epos e1 * 2 ^ eneg e2 = 2 ^ (e1 - c) * 2 ^ k).
  { rewrite <- !pow_split by lia. f_equal. unfold k, epos, eneg. lia. }
  assert (E2 : 2 ^ epos e2 * 2 ^ eneg e1 = 2 ^ (e2 - c) * 2 ^ k).
  { rewrite <- !pow_split by lia. f_equal. unfold k, epos, eneg. lia. }
  pose proof (pow2_pos' k Hk) as Pk. pose proof (pow10_pos p) as P10.
  replace (Zpos m1 * 2 ^ epos e1 * 10 ^ Z.of_nat p * 2 ^ eneg e2)
    with (Zpos m1 * (2 ^ epos e1 * 2 ^ eneg e2) * 10 ^ Z.of_nat p) by ring.
  replace (Zpos m2 * 2 ^ epos e2 * 10 ^ Z.of_nat p * 2 ^ eneg e1)
    with (Zpos m2 * (2 ^ epos e2 * 2 ^ eneg e1) * 10 ^ Z.of_nat p) by ring.
  rewrite E1, E2.
  replace (Zpos m1 * (2 ^ (e1 - c) * 2 ^ k) * 10 ^ Z.of_nat p)
    with ((Zpos m1 * 2 ^ (e1 - c)) * (2 ^ k * 10 ^ Z.of_nat p)) by ring.
  replace (Zpos m2 * (2 ^ (e2 - c) * 2 ^ k) * 10 ^ Z.of_nat p)
    with ((Zpos m2 * 2 ^ (e2 - c)) * (2 ^ k * 10 ^ Z.of_nat p)) by ring.
  apply Z.mul_le_mono_nonneg_r; [nia|exact H].
Qed.

(** ** order of finite binary64 values through their exact numerators at a
    common exponent, and monotonicity of the whole printer *)
Definition sf_exp (x : b64) : Z := match x with S754_finite _ _ e => e | _ => 0 end.
Definition sf_num (x : b64) (c : Z) : Z :=
  match x with
  | S754_finite s m e => (if s then -1 else 1) * (Zpos m * 2 ^ (e - c))
  | _ => 0
  end.
(** [x <= y] for zeros and finite numbers, exactly *)
Definition sf_le (x y : b64) : Prop :=
  let c := Z.min (sf_exp x) (sf_exp y) in sf_num x c <= sf_num y c.

Definition sf_finite (x : b64) : bool :=
  match x with S754_zero _ | S754_finite _ _ _ => true | _ => false end.

Lemma fx_signed_finite x p : sf_finite x = true -> exists n, fx_signed x p = Some n.
Proof. destruct x; cbn; try discriminate; eauto. Qed.

Lemma fx_signed_some x p n : fx_signed x p = Some n -> sf_finite x = true.
Proof. destruct x; cbn; try discriminate; auto. Qed.

(** the printed decimal is monotone in the value printed *)
Theorem fx_signed_monotone x y p n1 n2 :
  sf_le x y -> fx_signed x p = Some n1 -> fx_signed y p = Some n2 -> n1 <= n2.
Proof.
  unfold sf_le, fx_signed.
  destruct x as [sx|sx| |sx mx ex], y as [sy|sy| |sy my ey]; cbn [fx_of sf_exp sf_num];
    try discriminate; intros H [= <-] [= <-].
  - destruct sx, sy; lia.
  - pose proof (fx_mag_nonneg my ey p).
    pose proof (pow2_pos' (ey - Z.min 0 ey) ltac:(lia)).
    destruct sx, sy; try lia; nia.
  - pose proof (fx_mag_nonneg mx ex p).
    pose proof (pow2_pos' (ex - Z.min ex 0) ltac:(lia)).
    destruct sx, sy; try lia; nia.
  - set (c := Z.min ex ey) in *.
    pose proof (fx_mag_nonneg mx ex p). pose proof (fx_mag_nonneg my ey p).
    pose proof (pow2_pos' (ex - c) ltac:(unfold c; lia)).
    pose proof (pow2_pos' (ey - c) ltac:(unfold c; lia)).
    destruct sx, sy.
    + assert (fx_mag my ey p <= fx_mag mx ex p); [|lia].
      apply (fx_mag_mono my ey mx ex p c); [unfold c; lia | lia].
    + lia.
    + exfalso. nia.
    + apply (fx_mag_mono mx ex my ey p c); [unfold c; lia | lia].
Qed.

(** ** the text: [fmt_fixed] is sign, integer digits, point, [prec] digits *)
Lemma fmt_fixed_finite s m e p :
  fmt_fixed (S754_finite s m e) p = fmt_sign s ++ fmt_mag (fx_mag m e p) p.
Proof. reflexivity. Qed.

Lemma fmt_fixed_zero s p : fmt_fixed (S754_zero s) p = fmt_sign s ++ fmt_mag 0 p.
Proof. reflexivity. Qed.

Lemma fmt_fixed_of_fixed x p : fmt_fixed x p = fmt_of_fixed (fx_of x p) p.
Proof. reflexivity. Qed.
