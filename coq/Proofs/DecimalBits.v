(** "Assemble bits" of floatBits: the word built from (mant, exp, neg) decodes
    ([b64_of_bits]) to the binary64 number  +-mant * 2^(exp - 52), a valid float. *)
From Coq Require Import ZArith Reals Lia Lra List Bool.
From Flocq Require Import Core.Core IEEE754.BinarySingleNaN.
From Perf Require Import Base.Bytes Base.B64 Model.Decimal Proofs.DecimalBase Proofs.RnB64.
Local Open Scope Z_scope.

Lemma land_low_high lo hi n : 0 <= n -> 0 <= lo < 2 ^ n -> Z.land lo (Z.shiftl hi n) = 0.
Proof.
  intros Hn Hlo. apply Z.bits_inj'. intros i Hi. rewrite Z.land_spec, Z.bits_0.
  destruct (Z_lt_le_dec i n) as [Hlt|Hge].
  - rewrite Z.shiftl_spec_low by assumption. apply andb_false_r.
  - destruct (Z.eq_dec lo 0) as [->|Hnz]; [now rewrite Z.bits_0|].
    rewrite (Z.bits_above_log2 lo i); [reflexivity|lia|].
    apply Z.lt_le_trans with n; [|assumption]. apply Z.log2_lt_pow2; lia.
Qed.

Lemma lor_low_high lo hi n : 0 <= n -> 0 <= lo < 2 ^ n -> Z.lor lo (Z.shiftl hi n) = lo + hi * 2 ^ n.
Proof.
  intros Hn Hlo. pose proof (land_low_high lo hi n Hn Hlo) as H.
  rewrite <- Z.lxor_lor, <- Z.add_nocarry_lxor by assumption. now rewrite Z.shiftl_mul_pow2.
Qed.

(** the word  lo + f * 2^52 + s * 2^63 *)
Definition word (lo f : Z) (s : bool) : Z := lo + f * 2 ^ 52 + (if s then 2 ^ 63 else 0).

Lemma word_decode lo f s : 0 <= lo < 2 ^ 52 -> 0 <= f < 2 ^ 11 ->
  Z.testbit (word lo f s) 63 = s /\ Z.land (Z.shiftr (word lo f s) 52) 2047 = f /\
  Z.land (word lo f s) (2 ^ 52 - 1) = lo.
Proof.
  intros Hlo Hf. unfold word. set (sv := if s then 2 ^ 63 else 0).
  assert (Hsv : sv = (if s then 1 else 0) * 2 ^ 11 * 2 ^ 52) by (unfold sv; destruct s; reflexivity).
  split; [|split].
  - rewrite Z.testbit_eqb by lia.
    replace (lo + f * 2 ^ 52 + sv) with ((lo + f * 2 ^ 52) + (if s then 1 else 0) * 2 ^ 63) by (unfold sv; destruct s; lia).
    rewrite Z.div_add by lia. rewrite (Z.div_small (lo + f * 2 ^ 52)) by lia. destruct s; reflexivity.
  - rewrite Z.shiftr_div_pow2 by lia. change 2047 with (Z.ones 11). rewrite Z.land_ones by lia.
    rewrite Hsv. replace (lo + f * 2 ^ 52 + (if s then 1 else 0) * 2 ^ 11 * 2 ^ 52)
      with (lo + (f + (if s then 1 else 0) * 2 ^ 11) * 2 ^ 52) by ring.
    rewrite Z.div_add by lia. rewrite (Z.div_small lo) by lia. rewrite Z.add_0_l, Z.mod_add by lia.
    apply Z.mod_small. lia.
  - change (2 ^ 52 - 1) with (Z.ones 52). rewrite Z.land_ones by lia.
    rewrite Hsv. replace (lo + f * 2 ^ 52 + (if s then 1 else 0) * 2 ^ 11 * 2 ^ 52)
      with (lo + (f + (if s then 1 else 0) * 2 ^ 11) * 2 ^ 52) by ring.
    rewrite Z.mod_add by lia. apply Z.mod_small. lia.
Qed.

Lemma fb_assemble_word mant exp neg : 0 <= mant -> 0 <= exp - flt_bias < 2 ^ 11 ->
  fb_assemble mant exp neg = word (mant mod 2 ^ 52) (exp - flt_bias) neg.
Proof.
  intros Hm He. unfold fb_assemble, word, flt_mantbits, flt_expbits.
  rewrite Z.shiftl_1_l. rewrite (w64_small (2 ^ 52)) by (split; [|reflexivity]; lia).
  change (2 ^ 52 - 1) with (Z.ones 52). rewrite Z.land_ones by lia.
  rewrite Z.shiftl_1_l. change (2 ^ 11 - 1) with (Z.ones 11). rewrite Z.land_ones by lia.
  rewrite (Z.mod_small (exp - flt_bias)) by assumption.
  rewrite (w64_small (exp - flt_bias)) by (change (2 ^ 64) with (2 ^ 53 * 2 ^ 11); lia).
  pose proof (Z.mod_pos_bound mant (2 ^ 52) ltac:(lia)) as Hmm.
  assert (Hsh : w64 (Z.shiftl (exp - flt_bias) 52) = Z.shiftl (exp - flt_bias) 52).
  { apply w64_small. rewrite Z.shiftl_mul_pow2 by lia. change (2 ^ 64) with (2 ^ 12 * 2 ^ 52). nia. }
  rewrite Hsh, (lor_low_high (mant mod 2 ^ 52) (exp - flt_bias) 52) by lia.
  destruct neg; [|lia].
  change (Z.shiftl (2 ^ 52) 11) with (Z.shiftl 1 63).
  rewrite lor_low_high; [lia|lia|]. change (2 ^ 63) with (2 ^ 11 * 2 ^ 52). nia.
Qed.

(** ** decoding *)
Lemma b64_of_bits_word lo f s : 0 <= lo < 2 ^ 52 -> 0 <= f < 2 ^ 11 ->
  b64_of_bits (word lo f s) =
  if f =? 0 then match lo with Zpos p => S754_finite s p (-1074) | _ => S754_zero s end
  else if f =? 2047 then (if lo =? 0 then S754_infinity s else S754_nan)
  else match lo + 2 ^ 52 with Zpos p => S754_finite s p (f - 1075) | _ => S754_nan end.
Proof.
  intros Hlo Hf. destruct (word_decode lo f s Hlo Hf) as (H1 & H2 & H3).
  unfold b64_of_bits. rewrite H1, H2, H3. reflexivity.
Qed.

(** ** valid floats *)
Lemma bounded_normal p e : 2 ^ 52 <= Zpos p < 2 ^ 53 -> -1074 <= e <= 971 -> bounded 53 1024 p e = true.
Proof.
  intros Hp He. unfold bounded, canonical_mantissa. rewrite Zpos_digits2_pos.
  rewrite (Zdigits_unique radix2 (Zpos p) 53) by (change (radix_val radix2) with 2; rewrite Z.abs_eq; lia).
  unfold SpecFloat.fexp, SpecFloat.emin. apply andb_true_iff. split.
  - apply Zeq_bool_true. lia.
  - apply Z.leb_le. lia.
Qed.

Lemma bounded_subnormal p : Zpos p < 2 ^ 52 -> bounded 53 1024 p (-1074) = true.
Proof.
  intros Hp. unfold bounded, canonical_mantissa. rewrite Zpos_digits2_pos.
  pose proof (Zdigits_le_Zpower radix2 52 (Zpos p) ltac:(change (radix_val radix2) with 2; rewrite Z.abs_eq; lia)) as Hd.
  pose proof (Zdigits_ge_0 radix2 (Zpos p)).
  unfold SpecFloat.fexp, SpecFloat.emin. apply andb_true_iff. split.
  - apply Zeq_bool_true. lia.
  - reflexivity.
Qed.

(** the assembled word of a mantissa below 2^53 and its exponent (mantissa below
    2^52 only at the smallest exponent) is the float  +-M * 2^(E-52) *)
Theorem assemble_decode M E neg : 0 <= M < 2 ^ 53 -> -1022 <= E <= 1023 -> (M < 2 ^ 52 -> E = -1022) ->
  let exp := if Z.land M (Z.shiftl 1 flt_mantbits) =? 0 then flt_bias else E in
  let z := b64_of_bits (fb_assemble M exp neg) in
  valid_binary 53 1024 z = true /\ is_finite_SF z = true /\ sign_SF z = neg /\
  SF2R radix2 z = ((if neg then -1 else 1) * IZR M * bpow radix2 (E - 52))%R.
Proof.
  intros HM HE Hsub. unfold flt_mantbits. cbv zeta.
  assert (Hbit : (Z.land M (Z.shiftl 1 52) =? 0) = (M <? 2 ^ 52)).
  { rewrite Z.shiftl_1_l. destruct (Z.ltb_spec M (2 ^ 52)) as [Hlt|Hge].
    - apply Z.eqb_eq. apply Z.bits_inj'. intros i Hi. rewrite Z.land_spec, Z.bits_0.
      destruct (Z.eq_dec i 52) as [->|Hne].
      + destruct (Z.eq_dec M 0) as [->|Hnz]; [now rewrite Z.bits_0|].
        rewrite (Z.bits_above_log2 M 52); [reflexivity|lia|]. apply Z.log2_lt_pow2; lia.
      + rewrite Z.pow2_bits_false by lia. apply andb_false_r.
    - apply Z.eqb_neq. intros H0. assert (Hb : Z.testbit (Z.land M (2 ^ 52)) 52 = false) by (rewrite H0; apply Z.bits_0).
      rewrite Z.land_spec, Z.pow2_bits_true, andb_true_r in Hb by lia.
      rewrite Z.testbit_eqb in Hb by lia. apply Z.eqb_neq in Hb.
      assert (M / 2 ^ 52 = 1).
      { apply Z.le_antisymm; [apply Z.lt_succ_r, Z.div_lt_upper_bound; lia|apply Z.div_le_lower_bound; lia]. }
      rewrite H in Hb. now apply Hb. }
  rewrite Hbit. destruct (Z.ltb_spec M (2 ^ 52)) as [Hlt|Hge].
  - (* subnormal or zero *)
    specialize (Hsub Hlt). subst E.
    rewrite fb_assemble_word by (unfold flt_bias; lia). replace (flt_bias - flt_bias) with 0 by lia.
    rewrite Z.mod_small by lia. rewrite b64_of_bits_word by lia. cbn [Z.eqb].
    destruct M as [|p|p]; [| |lia].
    + cbn. repeat split; try reflexivity. lra.
    + cbn [valid_binary is_finite_SF sign_SF SF2R]. split; [now apply bounded_subnormal|].
      split; [reflexivity|]. split; [reflexivity|]. unfold F2R. cbn [Fnum Fexp].
      destruct neg; cbn [cond_Zopp]; [rewrite opp_IZR|]; change (-1022 - 52) with (-1074); ring.
  - (* normal *)
    assert (Hf : 0 <= E - flt_bias < 2 ^ 11) by (unfold flt_bias; lia).
    rewrite fb_assemble_word by (try assumption; lia).
    pose proof (Z.mod_pos_bound M (2 ^ 52) ltac:(lia)) as Hmm.
    assert (Hmod : M mod 2 ^ 52 = M - 2 ^ 52).
    { symmetry. apply Z.mod_unique_pos with 1; lia. }
    rewrite b64_of_bits_word by assumption.
    destruct (Z.eqb_spec (E - flt_bias) 0) as [E0|_]; [unfold flt_bias in E0; lia|].
    destruct (Z.eqb_spec (E - flt_bias) 2047) as [E0|_]; [unfold flt_bias in E0; lia|].
    rewrite Hmod. replace (M - 2 ^ 52 + 2 ^ 52) with M by lia.
    destruct M as [|p|p]; [lia| |lia].
    replace (E - flt_bias - 1075) with (E - 52) by (unfold flt_bias; lia).
    cbn [valid_binary is_finite_SF sign_SF SF2R]. split; [apply bounded_normal; lia|].
    split; [reflexivity|]. split; [reflexivity|]. unfold F2R. cbn [Fnum Fexp].
    destruct neg; cbn [cond_Zopp]; [rewrite opp_IZR|]; ring.
Qed.

Lemma fb_overflow_decode neg : b64_of_bits (fst (fb_overflow neg)) = S754_infinity neg /\ snd (fb_overflow neg) = true.
Proof. destruct neg; split; reflexivity. Qed.

Lemma fb_zero_decode neg : b64_of_bits (fb_assemble 0 flt_bias neg) = S754_zero neg.
Proof. destruct neg; reflexivity. Qed.
