(** The transcribed slow path equals its specification:
      dec_float_bits_code d = dec_float_bits d      for every decimal the scanner stores,
      parse_float_code s    = parse_float s         for every text,
    i.e. Model/Atof.v's "modelled by specification" floatBits is what the transcription
    of decimal.go / floatBits computes (Model/Decimal.v). *)
From Coq Require Import ZArith Reals Lia Lra List Bool.
From Flocq Require Import Core.Core IEEE754.BinarySingleNaN.
From Perf Require Import Base.Bytes Base.B64 Base.DecSpec Model.Atoi Model.Atof Model.Decimal
                         Proofs.Atoi Proofs.AtofValue Proofs.AtofSlow
                         Proofs.DecimalBase Proofs.DecimalShift Proofs.RnB64 Proofs.AtofExact
                         Proofs.DecimalValue Proofs.DecimalBits Proofs.DecimalFloatBits.
Import ListNotations.
Local Open Scope Z_scope.

(** ** what decimal.set stores *)
Definition digits_shape (rv : bytes) (nd : Z) (tr : bool) : Prop :=
  nd = Z.of_nat (length rv) /\ forallb code_is_dec_digit rv = true /\
  (rv <> [] -> Byte.eqb (last rv c_zero) c_zero = false) /\ nd <= 800 /\ (tr = true -> nd = 800).

Definition ds_shape (st : ds) : Prop := digits_shape (ds_rev st) (ds_nd st) (ds_trunc st).
Definition dec_shape (d : dec) : Prop := digits_shape (d_digs d) (d_nd d) (d_trunc d).

Lemma set_digits_shape s : forall st st' rest, ds_shape st -> set_digits s st = Some (st', rest) -> ds_shape st'.
Proof.
  induction s as [|c r IH]; intros st st' rest Hs E.
  - cbn in E. now injection E as <- _.
  - cbn [set_digits] in E. destruct (Byte.eqb c c_us); [refine (IH _ _ _ _ E); exact Hs|].
    destruct (Byte.eqb c c_dot).
    { destruct (ds_sawdot st); [discriminate|]. refine (IH _ _ _ _ E); exact Hs. }
    destruct (code_is_dec_digit c) eqn:Hd; [|now injection E as <- _].
    destruct (Byte.eqb c c_zero && (ds_nd st =? 0)) eqn:Hlz; [refine (IH _ _ _ _ E); exact Hs|].
    destruct Hs as (Hn & Hdig & Hlast & H800 & Htr). unfold ds_shape, digits_shape in IH.
    destruct (Z.ltb_spec (ds_nd st) 800) as [Hlt|Hge].
    + refine (IH _ _ _ _ E). cbn [ds_rev ds_nd ds_trunc]. split; [cbn [length]; lia|].
      split; [cbn [forallb]; now rewrite Hd, Hdig|]. split; [|split; [lia|]].
      * intros _. destruct (ds_rev st) as [|y t] eqn:Er.
        -- cbn [last]. apply andb_false_iff in Hlz as [Hz|Hz]; [assumption|].
           cbn [length] in Hn. apply Z.eqb_neq in Hz. lia.
        -- cbn [last]. apply Hlast. discriminate.
      * intros Ht. specialize (Htr Ht). lia.
    + refine (IH _ _ _ _ E). cbn [ds_rev ds_nd ds_trunc].
      split; [assumption|]. split; [assumption|]. split; [assumption|]. split; [lia|]. intros _. lia.
Qed.

Lemma dec_set_gen_shape fixed s d : dec_set_gen fixed s = Some d -> dec_shape d.
Proof.
  unfold dec_set_gen. destruct s as [|c0 r0]; [discriminate|]. cbv zeta.
  set (t := if Byte.eqb c0 c_plus || Byte.eqb c0 c_minus then r0 else c0 :: r0).
  destruct (set_digits t (mkDs [] 0 0 false false false 0)) as [[st rest]|] eqn:Es; [|discriminate].
  assert (Hs : ds_shape st).
  { apply (set_digits_shape t _ st rest) in Es; [assumption|].
    unfold ds_shape, digits_shape. cbn. repeat split; try lia; try reflexivity; intros; try discriminate. now contradiction H. }
  destruct (negb (ds_sawdigits st)); [discriminate|].
  match goal with |- match ?A with _ => _ end = _ -> _ => destruct A as [[dp l]|] end; [|discriminate].
  destruct l; [|discriminate]. intros E. injection E as <-. exact Hs.
Qed.

(** ** digits *)
Lemma digits_val_dv l : digits_val 10 l = dv (digs l).
Proof.
  unfold digits_val, dv, digs. generalize 0. induction l as [|c l IH]; intros acc; [reflexivity|].
  cbn [map fold_left]. rewrite IH. reflexivity.
Qed.

Lemma digs_ok l : forallb code_is_dec_digit l = true -> digits_ok (digs l).
Proof.
  intros H. unfold digs. apply Forall_forall. intros x Hx. apply in_map_iff in Hx as (c & <- & Hc).
  rewrite forallb_forall in H. specialize (H c Hc). now destruct (dec_digit_val c H) as (_ & Hr & _).
Qed.

Lemma forallb_rev {A} (p : A -> bool) l : forallb p (rev l) = forallb p l.
Proof.
  induction l as [|x l IH]; [reflexivity|]. cbn [rev forallb]. rewrite forallb_app, IH. cbn. rewrite andb_true_r. apply andb_comm.
Qed.

Lemma decimal_of_dec_wf d : dec_shape d -> d_nd d <> 0 ->
  wf (decimal_of_dec d) /\ zlen (dc_d (decimal_of_dec d)) = d_nd d.
Proof.
  intros (Hn & Hdig & Hlast & H800 & _) Hnz. unfold decimal_of_dec, wf. cbn [dc_d].
  assert (Hl : zlen (digs (rev (d_digs d))) = d_nd d).
  { unfold zlen, digs. now rewrite map_length, rev_length. }
  split; [|exact Hl]. split; [apply digs_ok; now rewrite forallb_rev|]. split; [lia|].
  destruct (d_digs d) as [|x t] eqn:El; [cbn [length] in Hn; lia|].
  specialize (Hlast ltac:(discriminate)).
  assert (Hne : x :: t <> []) by discriminate.
  destruct (exists_last Hne) as (l' & y & Ey). rewrite Ey in *. rewrite last_last in Hlast.
  rewrite rev_app_distr. cbn [rev app digs map]. exists (digit_val y), (map digit_val (rev l')).
  split; [reflexivity|]. rewrite forallb_app in Hdig. apply andb_true_iff in Hdig as [_ Hy]. cbn in Hy. rewrite andb_true_r in Hy.
  destruct (dec_digit_val y Hy) as (_ & _ & Hz). intros E0. apply Hz in E0. congruence.
Qed.

(** ** the transcribed conversion equals the specification's *)
Theorem dec_float_bits_code_eq d : dec_shape d -> dec_float_bits_code d = dec_float_bits d.
Proof.
  intros Hs. unfold dec_float_bits_code, dec_float_bits.
  destruct (Z.eqb_spec (d_nd d) 0) as [E0|Hnz].
  - (* no digit: zero *)
    destruct Hs as (Hn & _). assert (d_digs d = []) by (destruct (d_digs d); [reflexivity|cbn [length] in Hn; lia]).
    unfold decimal_of_dec. rewrite H. cbn [rev digs map]. rewrite floatBits_unfold. cbn [dc_d dc_dp dc_neg dc_nd length Z.of_nat Z.eqb].
    unfold dc_nd. cbn [dc_d length Z.of_nat Z.eqb]. now rewrite fb_zero_decode.
  - destruct (decimal_of_dec_wf d Hs Hnz) as [Hwf Hlen].
    set (a := decimal_of_dec d) in *.
    assert (Hdp : dc_dp a = d_dp d) by reflexivity. assert (Hneg : dc_neg a = d_neg d) by reflexivity.
    assert (Htr : dc_trunc a = d_trunc d) by reflexivity.
    destruct (Z.ltb_spec 310 (d_dp d)) as [Hbig|Hnb].
    { rewrite floatBits_unfold. rewrite dc_nd_zlen, Hlen. destruct (Z.eqb_spec (d_nd d) 0); [contradiction|].
      rewrite Hdp. destruct (Z.ltb_spec 310 (d_dp d)); [|lia].
      destruct (fb_overflow_decode (dc_neg a)) as [H1 H2]. destruct (fb_overflow (dc_neg a)) as [b o]. cbn [fst snd] in *.
      now rewrite H1, H2, Hneg. }
    destruct (Z.ltb_spec (d_dp d) (-330)) as [Hsmall|Hns].
    { rewrite floatBits_unfold. rewrite dc_nd_zlen, Hlen. destruct (Z.eqb_spec (d_nd d) 0); [contradiction|].
      rewrite Hdp. destruct (Z.ltb_spec 310 (d_dp d)); [lia|]. destruct (Z.ltb_spec (d_dp d) (-330)); [|lia].
      now rewrite fb_zero_decode, Hneg. }
    destruct (floatBits_rounds a Hwf ltac:(lia)) as (bits & ovf & Efb & Hround & Hovf).
    { intros Ht. destruct Hs as (_ & _ & _ & _ & H8). rewrite Hlen. apply H8. now rewrite <- Htr. }
    rewrite Efb. rewrite Hneg in Hround.
    set (m := digits_val 10 (rev (d_digs d))). set (e := d_dp d - d_nd d).
    assert (Hm : m = dv (dc_d a)) by (unfold m; now rewrite digits_val_dv).
    assert (Hm0 : 0 <= m) by (rewrite Hm; destruct Hwf as (Hd & _); pose proof (dv_bound _ Hd); lia).
    assert (HVr : Vr a = (IZR m * bpow radix10 e)%R) by (unfold Vr; now rewrite <- Hm, Hlen, Hdp).
    assert (Hspec : rounds_to (d_neg d) (signed (d_neg d) (true_value a))
              (if d_trunc d then rn_b64 (d_neg d) (m * 10 + 1) false (e - 1) else rn_b64 (d_neg d) m false e)).
    { unfold true_value. rewrite Htr. destruct (d_trunc d).
      - eapply rounds_to_ext; [|apply rn_b64_rounds; lia]. unfold exact_value, signed.
        rewrite HVr, Hlen, Hdp. fold e. rewrite plus_IZR, mult_IZR.
        assert (Hb : bpow radix10 e = (bpow radix10 (e - 1) * 10)%R).
        { replace e with ((e - 1) + 1) at 1 by lia. rewrite bpow_plus. reflexivity. }
        rewrite Hb. destruct (d_neg d); ring.
      - eapply rounds_to_ext; [|apply rn_b64_rounds; lia]. unfold exact_value, signed. rewrite HVr.
        destruct (d_neg d); ring. }
    pose proof (rounds_to_unique _ _ _ _ Hround Hspec) as Eq.
    rewrite Eq in *. rewrite Hovf. reflexivity.
Qed.

(** * ParseFloat with the transcribed slow path = ParseFloat with the specified slow path *)
Theorem atof64_code_eq s : atof64_code s = atof64 s.
Proof.
  unfold atof64_code, atof64, atof64_gen. destruct (special s); [reflexivity|]. cbv zeta.
  assert (Hslow : match dec_set s with None => (b64_zero, ErrSyntax) | Some d => dec_float_bits_code d end =
                  match dec_set_gen true s with None => (b64_zero, ErrSyntax) | Some d => dec_float_bits d end).
  { unfold dec_set. destruct (dec_set_gen true s) as [d|] eqn:E; [|reflexivity].
    apply dec_float_bits_code_eq. now apply (dec_set_gen_shape true s). }
  destruct (read_float s) as [r|]; [|exact Hslow].
  destruct (r_hex r); [reflexivity|]. destruct (r_trunc r); [exact Hslow|].
  destruct (atof64exact _ _ _); [reflexivity|exact Hslow].
Qed.

Theorem parse_float_code_eq s : parse_float_code s = parse_float s.
Proof.
  unfold parse_float_code, parse_float, parse_float_gen. destruct (negb (underscoreOK s)); [reflexivity|].
  apply atof64_code_eq.
Qed.

(** hence, with the theorem of Proofs/AtofSlow.v: ParseFloat as transcribed — scanners, exact
    path, hex path and the decimal.go slow path as code — returns the specification's value
    and error on every non-hexadecimal text whose digits fit the 800-digit buffer *)
Theorem parse_float_code_correct_nonhex s :
  no_clamp s ->
  (forall d, dec_set s = Some d -> d_trunc d = false) ->
  (forall neg M E, lex_float s <> Some (LNum neg true M E)) ->
  parse_float_code s = parse_float_spec s.
Proof. intros H1 H2 H3. rewrite parse_float_code_eq. now apply parse_float_correct_nonhex. Qed.
