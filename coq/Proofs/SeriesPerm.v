(** series_perm_invariant: the comparison series of a well-formed result set do
    not depend on the order in which results were added nor on the order in
    which the Go maps are enumerated.  Glue between the two halves of
    Proofs/Series.v (table_enum_invariant, builder_perm_invariant). *)
From Coq Require Import Permutation.
From Perf Require Import Base.Bytes Base.Usort Model.Dates Model.Series Proofs.Series.
Local Open Scope Z_scope.

(** * omapM *)
Lemma omapM_app {A B} (f : A -> option B) l1 l2 :
  omapM f (l1 ++ l2) =
  match omapM f l1, omapM f l2 with Some a, Some b => Some (a ++ b) | _, _ => None end.
Proof.
  induction l1 as [|x l1 IH]; cbn [omapM app].
  - now destruct (omapM f l2).
  - destruct (f x); auto. rewrite IH. destruct (omapM f l1), (omapM f l2); auto.
Qed.

Lemma omapM_map {A B C} (f : B -> option C) (g : A -> B) l :
  omapM f (map g l) = omapM (fun x => f (g x)) l.
Proof. induction l as [|x l IH]; cbn [omapM map]; auto. now rewrite IH. Qed.

Lemma omapM_in {A B} (f : A -> option B) l ys y :
  omapM f l = Some ys -> In y ys -> exists x, In x l /\ f x = Some y.
Proof.
  revert ys; induction l as [|x l IH]; cbn [omapM]; intros ys H Hy.
  - injection H as <-. destruct Hy.
  - destruct (f x) as [z|] eqn:E; [|discriminate]. destruct (omapM f l) as [zs|]; [|discriminate].
    injection H as <-. destruct Hy as [<-|Hy].
    + exists x. split; auto. now left.
    + destruct (IH zs eq_refl Hy) as (x' & Hx' & Hf). exists x'. split; auto. now right.
Qed.

Definition orel {A B} (R : A -> B -> Prop) (a : option A) (b : option B) : Prop :=
  match a, b with Some x, Some y => R x y | None, None => True | _, _ => False end.

Lemma omapM_perm {A B} (f : A -> option B) l l' :
  Permutation l l' -> orel (@Permutation B) (omapM f l) (omapM f l').
Proof.
  induction 1 as [|x l l' HP IH|x y l|l l' l'' HP1 IH1 HP2 IH2]; cbn [omapM orel].
  - constructor.
  - destruct (f x); cbn; auto. destruct (omapM f l), (omapM f l'); cbn in *; auto.
  - destruct (f x), (f y); cbn; auto; destruct (omapM f l); cbn; auto. apply perm_swap.
  - destruct (omapM f l), (omapM f l'), (omapM f l''); cbn in *; auto; try contradiction.
    eapply perm_trans; eauto.
Qed.

Lemma omapM_rel {A B B'} (R : B -> B' -> Prop) (f : A -> option B) (f' : A -> option B') l :
  (forall x, In x l -> orel R (f x) (f' x)) -> orel (Forall2 R) (omapM f l) (omapM f' l).
Proof.
  induction l as [|x l IH]; intros H; cbn [omapM orel]; [constructor|].
  pose proof (H x (or_introl eq_refl)) as Hx.
  assert (IH' := IH (fun y Hy => H y (or_intror Hy))).
  destruct (f x), (f' x); cbn in Hx; try contradiction; auto.
  destruct (omapM f l), (omapM f' l); cbn in *; try contradiction; auto.
Qed.

Lemma omapM_ext_map {A B C} (g : B -> C) (f f' : A -> option B) l :
  (forall x, option_map g (f x) = option_map g (f' x)) ->
  option_map (map g) (omapM f l) = option_map (map g) (omapM f' l).
Proof.
  intros H. induction l as [|x l IH]; cbn [omapM]; auto.
  specialize (H x). destruct (f x), (f' x); cbn in H; try discriminate; auto.
  injection H as H. destruct (omapM f l), (omapM f' l); cbn in *; try discriminate; auto.
  injection IH as IH. now rewrite H, IH.
Qed.

Lemma flat_map_perm_pointwise {A B} (g g' : A -> list B) l :
  (forall x, Permutation (g x) (g' x)) -> Permutation (flat_map g l) (flat_map g' l).
Proof. intros Hg. induction l; cbn [flat_map]; auto using Permutation_app. Qed.

Lemma Permutation_flat_map_ext {A B} (g g' : A -> list B) l l' :
  Permutation l l' -> (forall x, Permutation (g x) (g' x)) -> Permutation (flat_map g l) (flat_map g' l').
Proof.
  intros HP Hg. eapply perm_trans; [apply Permutation_flat_map, HP|]. now apply flat_map_perm_pointwise.
Qed.

(** * cmp2 is a total order *)
Lemma cmp2_eq a b : cmp2 a b = Eq <-> a = b.
Proof.
  unfold cmp2. destruct a as [a1 a2], b as [b1 b2]; cbn [fst snd].
  destruct (bcmp a1 b1) eqn:E.
  - apply bcmp_eq in E. subst. rewrite bcmp_eq. split; [now intros -> | now intros [= ->]].
  - split; [discriminate|]. intros [= -> ->]. rewrite bcmp_refl in E. discriminate.
  - split; [discriminate|]. intros [= -> ->]. rewrite bcmp_refl in E. discriminate.
Qed.
Lemma cmp2_antisym a b : cmp2 b a = CompOpp (cmp2 a b).
Proof.
  unfold cmp2. rewrite (bcmp_antisym (fst a) (fst b)), (bcmp_antisym (snd a) (snd b)).
  destruct (bcmp (fst a) (fst b)); reflexivity.
Qed.
Lemma cmp2_trans a b c : cmp2 a b = Lt -> cmp2 b c = Lt -> cmp2 a c = Lt.
Proof.
  unfold cmp2. destruct (bcmp (fst a) (fst b)) eqn:E1; try discriminate;
  destruct (bcmp (fst b) (fst c)) eqn:E2; try discriminate; intros H1 H2.
  - apply bcmp_eq in E1, E2. rewrite E1, E2, bcmp_refl. eapply bcmp_trans_lt; eauto.
  - apply bcmp_eq in E1. now rewrite E1, E2.
  - apply bcmp_eq in E2. now rewrite <- E2, E1.
  - now rewrite (bcmp_trans_lt _ _ _ E1 E2).
Qed.
Lemma usort2_ext l l' : (forall x, In x l <-> In x l') -> usort cmp2 l = usort cmp2 l'.
Proof. apply usort_canonical; [apply cmp2_eq | apply cmp2_antisym | apply cmp2_trans]. Qed.

(** * hashToOrder *)
Definition numh (h : bytes) (r : res) : bool := is_num r && beq (r_nh r) h.

Definition h2o_inv (h s : bytes) (b : builder) : Prop :=
  b_h2o b [h] = Some s \/
  (b_h2o b [h] = None /\ forall r', r_nh r' = h -> b_num b (nkey r') = []).

Lemma add_h2o h s b r :
  (numh h r = true -> r_ser r = s) -> h2o_inv h s b ->
  h2o_inv h s (add b r) /\
  (numh h r = true -> b_h2o (add b r) [h] = Some s) /\
  (numh h r = false -> b_h2o (add b r) [h] = b_h2o b [h]).
Proof.
  intros Hs Hinv. unfold numh, is_num, h2o_inv in *. unfold add.
  destruct (r_role r) eqn:Er; cbn [andb] in *.
  - (* numerator *)
    destruct (beq_spec (r_nh r) h) as [Hh|Hh].
    + specialize (Hs eq_refl). subst s. cbn [b_h2o b_num].
      assert (Hv : (match b_num b (nkey r) with
                    | [] => upd (b_h2o b) [r_nh r] (Some (r_ser r))
                    | _ :: _ => b_h2o b end) [h] = Some (r_ser r)).
      { destruct (b_num b (nkey r)) eqn:En.
        - rewrite Hh. apply upd_same.
        - destruct Hinv as [Hi|[_ Hi]]; auto. rewrite (Hi r Hh) in En. discriminate. }
      split; [left; exact Hv|]. split; [auto|discriminate].
    + assert (Hne : [r_nh r] <> [h]) by (intros [= E]; auto).
      cbn [b_h2o b_num].
      assert (Hv : (match b_num b (nkey r) with
                    | [] => upd (b_h2o b) [r_nh r] (Some (r_ser r))
                    | _ :: _ => b_h2o b end) [h] = b_h2o b [h]).
      { destruct (b_num b (nkey r)); auto. now rewrite upd_other. }
      split; [|split; [discriminate|auto]].
      destruct Hinv as [Hi|[Hi1 Hi2]]; [left; congruence|right].
      split; [congruence|]. intros r' Hr'. rewrite upd_other; auto.
      unfold nkey. intros [= _ _ _ _ E]. congruence.
  - cbn [b_h2o b_num]. split; [exact Hinv|]. split; [discriminate|auto].
  - cbn [b_h2o b_num]. split; [exact Hinv|]. split; [discriminate|auto].
Qed.

Lemma adds_h2o rs : forall b h s,
  (forall r, In r rs -> numh h r = true -> r_ser r = s) -> h2o_inv h s b ->
  b_h2o (fold_left add rs b) [h] = if existsb (numh h) rs then Some s else b_h2o b [h].
Proof.
  induction rs as [|r rs IH]; intros b h s Hs Hinv; cbn [fold_left existsb]; auto.
  destruct (add_h2o h s b r (Hs r (or_introl eq_refl)) Hinv) as (Hinv' & Ht & Hf).
  rewrite (IH (add b r) h s (fun r' Hr' => Hs r' (or_intror Hr')) Hinv').
  destruct (numh h r) eqn:E; cbn [orb].
  - rewrite (Ht eq_refl). now destruct (existsb (numh h) rs).
  - now rewrite (Hf eq_refl).
Qed.

Lemma existsb_perm {A} (f : A -> bool) l l' : Permutation l l' -> existsb f l = existsb f l'.
Proof.
  intros HP. destruct (existsb f l) eqn:E.
  - apply existsb_exists in E as (x & Hin & Hx). symmetry. apply existsb_exists. exists x. split; auto.
    now apply (Permutation_in _ HP).
  - destruct (existsb f l') eqn:E'; auto.
    apply existsb_exists in E' as (x & Hin & Hx).
    assert (existsb f l = true); [|congruence].
    apply existsb_exists. exists x. split; auto. now apply (Permutation_in _ (Permutation_sym HP)).
Qed.

Definition hash_stamp (rs : list res) : Prop :=
  forall r r', In r rs -> In r' rs -> is_num r = true -> is_num r' = true -> r_nh r = r_nh r' -> r_ser r = r_ser r'.

Lemma h2o_of rs h : hash_stamp rs ->
  b_h2o (adds rs) [h] = option_map r_ser (find (numh h) rs).
Proof.
  intros Ha. unfold adds.
  set (s := match find (numh h) rs with Some r => r_ser r | None => [] end).
  rewrite (adds_h2o rs b_empty h s).
  - cbn [b_empty b_h2o]. subst s. destruct (find (numh h) rs) as [r0|] eqn:E; cbn [option_map].
    + apply find_some in E as [Hin Hn]. assert (existsb (numh h) rs = true) as ->; auto.
      apply existsb_exists. eauto.
    + destruct (existsb (numh h) rs) eqn:Ee; auto.
      apply existsb_exists in Ee as (x & Hin & Hx). eapply find_none in E; eauto. congruence.
  - intros r Hin Hn. subst s. destruct (find (numh h) rs) as [r0|] eqn:E.
    + apply find_some in E as [Hin0 Hn0]. unfold numh in Hn, Hn0.
      apply andb_true_iff in Hn as [Hn Hh], Hn0 as [Hn0 Hh0]. apply beq_eq in Hh, Hh0.
      apply Ha; auto. congruence.
    + eapply find_none in E; eauto. congruence.
  - right. split; auto.
Qed.

Lemma h2o_perm rs rs' h : hash_stamp rs -> Permutation rs rs' ->
  b_h2o (adds rs) [h] = b_h2o (adds rs') [h].
Proof.
  intros Ha HP.
  assert (Ha' : hash_stamp rs').
  { intros r r' Hr Hr'. apply Ha; now apply (Permutation_in _ (Permutation_sym HP)). }
  rewrite !h2o_of by auto.
  destruct (find (numh h) rs) as [r|] eqn:E; destruct (find (numh h) rs') as [r'|] eqn:E'; cbn; auto.
  - apply find_some in E as [Hin Hn], E' as [Hin' Hn']. f_equal.
    unfold numh in Hn, Hn'. apply andb_true_iff in Hn as [Hn Hh], Hn' as [Hn' Hh']. apply beq_eq in Hh, Hh'.
    apply Ha; auto; [|congruence]. now apply (Permutation_in _ (Permutation_sym HP)).
  - apply find_some in E as [Hin Hn]. eapply find_none in E'; [|apply (Permutation_in _ HP); eauto]. congruence.
  - apply find_some in E' as [Hin Hn]. eapply find_none in E; [|apply (Permutation_in _ (Permutation_sym HP)); eauto]. congruence.
Qed.

(** * the table output does not see the order of the values inside the visits *)
Definition ceqv (c c' : contrib) : Prop :=
  k_bench c = k_bench c' /\ k_ser c = k_ser c' /\ k_hash c = k_hash c' /\ k_bh c = k_bh c' /\
  k_date c = k_date c' /\ Permutation (k_num c) (k_num c') /\ Permutation (k_den c) (k_den c').

Definition compeqv (a b : comp) : Prop :=
  Permutation (c_num a) (c_num b) /\ Permutation (c_den a) (c_den b) /\ c_date a = c_date b.

Lemma cstep_eqv combine o o' c c' :
  orel compeqv o o' -> ceqv c c' -> orel compeqv (cstep combine o c) (cstep combine o' c').
Proof.
  intros Ho (Hb & Hs & Hh & Hbh & Hd & Hn & Hde).
  destruct o as [cc|], o' as [cc'|]; cbn in Ho; try contradiction; cbn [cstep orel].
  - destruct Ho as (Hn' & Hd' & Hdt). rewrite Hdt, Hd. destruct combine.
    + unfold compeqv; simpl. split; [|split]; auto using Permutation_app.
    + destruct (bltb (c_date cc') (k_date c')); unfold compeqv, new_comp; simpl; auto.
  - unfold compeqv, new_comp; simpl. auto.
Qed.

Lemma cfold_eqv combine l l' : Forall2 ceqv l l' -> forall o o',
  orel compeqv o o' -> orel compeqv (fold_left (cstep combine) l o) (fold_left (cstep combine) l' o').
Proof.
  induction 1 as [|c c' l l' Hc HF IH]; intros o o' Ho; cbn [fold_left]; auto.
  apply IH. now apply cstep_eqv.
Qed.

Lemma at_sk_eqv b s c c' : ceqv c c' -> at_sk b s c = at_sk b s c'.
Proof. intros (Hb & Hs & _). unfold at_sk. now rewrite Hb, Hs. Qed.

Lemma filter_eqv b s l l' : Forall2 ceqv l l' -> Forall2 ceqv (filter (at_sk b s) l) (filter (at_sk b s) l').
Proof.
  induction 1 as [|c c' l l' Hc HF IH]; cbn [filter]; [constructor|].
  rewrite (at_sk_eqv b s c c' Hc). destruct (at_sk b s c'); auto.
Qed.

Lemma comp_canon_eqv o o' : orel compeqv o o' -> comp_canon o = comp_canon o'.
Proof.
  destruct o as [a|], o' as [b|]; cbn; try contradiction; auto.
  intros (Hn & Hd & Hdt). now rewrite (vsort_perm _ _ Hn), (vsort_perm _ _ Hd), Hdt.
Qed.

Lemma find_eqv s l l' : Forall2 ceqv l l' ->
  option_map pair_of (find (fun c => beq (k_ser c) s) l) = option_map pair_of (find (fun c => beq (k_ser c) s) l').
Proof.
  induction 1 as [|c c' l l' Hc HF IH]; cbn [find]; auto.
  destruct Hc as (Hb & Hs & Hh & Hbh & _). rewrite Hs.
  destruct (beq (k_ser c') s); auto. cbn. unfold pair_of. now rewrite Hh, Hbh.
Qed.

Lemma map_kser_eqv l l' : Forall2 ceqv l l' -> map k_ser l = map k_ser l'.
Proof. induction 1 as [|c c' l l' Hc HF IH]; cbn; auto. destruct Hc as (_ & Hs & _). now rewrite Hs, IH. Qed.

Theorem table_out_ceqv combine u t bl C C' :
  Forall2 ceqv C C' -> canon_series (table_out combine u t bl C) = canon_series (table_out combine u t bl C').
Proof.
  intros HF. unfold table_out, finish, canon_series.
  cbn [se_unit se_benchmarks se_series se_hp se_cells].
  rewrite (map_kser_eqv _ _ HF). f_equal.
  - apply flat_map_ext. intros s. unfold out_hp.
    rewrite !fold_hp by apply hp_inv_empty. cbn [st_empty s_hp]. now rewrite (find_eqv s _ _ HF).
  - rewrite !map_flat_map. apply flat_map_ext. intros b.
    rewrite !map_flat_map. apply flat_map_ext. intros s.
    rewrite !out_cell_canon, !fold_cells. cbn [st_empty s_cells].
    erewrite comp_canon_eqv; [reflexivity|].
    apply cfold_eqv; [now apply filter_eqv | exact I].
Qed.

(** * the visits of one table as one flat list *)
Definition tk3 := (bytes * bytes * bytes)%type.

Definition tkeys (e : enum) (u t : bytes) : list tk3 :=
  flat_map (fun be => map (fun h => (fst be, snd be, h)) (e_tests e [u; t; fst be; snd be])) (e_cells e u t).

Definition kc (b : builder) (u t : bytes) (k : tk3) : option contrib :=
  match normalize_date (snd (fst k)) with
  | Some date => test_contrib b u t (fst (fst k)) (snd (fst k)) date (snd k)
  | None => None
  end.

Definition date_ok (be : bytes * bytes) : bool :=
  match normalize_date (snd be) with Some _ => true | None => false end.

Lemma omapM_ext {A B} (f g : A -> option B) l : (forall x, f x = g x) -> omapM f l = omapM g l.
Proof. intros H. induction l as [|x l IH]; cbn [omapM]; auto. now rewrite H, IH. Qed.

Lemma table_contribs_flat b e u t :
  table_contribs b e u t =
  if forallb date_ok (e_cells e u t) then omapM (kc b u t) (tkeys e u t) else None.
Proof.
  unfold table_contribs, tkeys. generalize (e_cells e u t) as l.
  induction l as [|be l IH]; [reflexivity|].
  cbn [omapM forallb flat_map]. rewrite omapM_app, omapM_map.
  unfold trial_contribs at 1. unfold date_ok at 1.
  destruct (normalize_date (snd be)) as [date|] eqn:Ed; cbn [andb]; [|reflexivity].
  rewrite (omapM_ext (fun x => kc b u t (fst be, snd be, x))
                     (test_contrib b u t (fst be) (snd be) date)).
  2:{ intros h. unfold kc. cbn [fst snd]. now rewrite Ed. }
  destruct (omapM (test_contrib b u t (fst be) (snd be) date) (e_tests e [u; t; fst be; snd be])) as [a|].
  - destruct (omapM (trial_contribs b e u t) l) as [ys|]; cbn [option_map concat] in *.
    + destruct (forallb date_ok l); [|discriminate]. now rewrite <- IH.
    + destruct (forallb date_ok l); auto. now rewrite <- IH.
  - now destruct (forallb date_ok l).
Qed.

Lemma forallb_perm {A} (f : A -> bool) l l' : Permutation l l' -> forallb f l = forallb f l'.
Proof.
  intros HP. destruct (forallb f l) eqn:E; destruct (forallb f l') eqn:E'; auto.
  - rewrite forallb_forall in E. assert (forallb f l' = true); [|congruence].
    apply forallb_forall. intros x Hx. apply E. now apply (Permutation_in _ (Permutation_sym HP)).
  - rewrite forallb_forall in E'. assert (forallb f l = true); [|congruence].
    apply forallb_forall. intros x Hx. apply E'. now apply (Permutation_in _ HP).
Qed.

Lemma bh_of_adds rs k : b_bh (adds rs) k = bh_of rs k.
Proof. unfold adds. rewrite adds_bh. reflexivity. Qed.

(** every visit comes from a numerator result of the set *)
Lemma contrib_witness rs en u t C c :
  hash_stamp rs -> valid_enum (adds rs) en ->
  omapM (kc (adds rs) u t) (tkeys en u t) = Some C -> In c C ->
  exists r, In r rs /\ is_num r = true /\ r_unit r = u /\ r_table r = t /\
            k_bench c = r_bench r /\ k_hash c = r_nh r /\
            normalize_date (r_ser r) = Some (k_ser c) /\
            normalize_date (r_exp r) = Some (k_date c) /\
            k_bh c = bh_of rs (tkey r) /\
            kc (adds rs) u t (r_bench r, r_exp r, r_nh r) = Some c.
Proof.
  intros Ha Hv HC Hc.
  destruct (omapM_in _ _ _ _ HC Hc) as ([[bench exp] h] & Hk & Hkc).
  unfold tkeys in Hk. apply in_flat_map in Hk as (be & Hbe & Hh).
  apply in_map_iff in Hh as (h' & Heq & Hh'). injection Heq as <- <- <-.
  destruct be as [bench exp]; cbn [fst snd] in *.
  apply (ve_tests _ _ Hv) in Hh'.
  unfold adds in Hh'. rewrite adds_num in Hh'. cbn [b_empty b_num app] in Hh'.
  destruct (filter (num_at [u; t; bench; exp; h']) rs) as [|r l] eqn:Ef; [now elim Hh'|].
  assert (Hr : In r (filter (num_at [u; t; bench; exp; h']) rs)) by (rewrite Ef; now left).
  apply filter_In in Hr as [Hin Hn]. unfold num_at in Hn. apply andb_true_iff in Hn as [Hnum Hkey].
  apply keqb_eq in Hkey. unfold nkey in Hkey. injection Hkey as Hu Ht Hb He Hnh.
  exists r. pose proof Hkc as Hkc0. unfold kc in Hkc. cbn [fst snd] in Hkc.
  destruct (normalize_date exp) as [date|] eqn:Ed; [|discriminate].
  unfold test_contrib in Hkc. rewrite (h2o_of rs h' Ha) in Hkc.
  destruct (find (numh h') rs) as [r0|] eqn:E0; cbn [option_map] in Hkc; [|discriminate].
  destruct (normalize_date (r_ser r0)) as [s|] eqn:Es; [|discriminate].
  apply find_some in E0 as [Hin0 Hn0]. unfold numh in Hn0. apply andb_true_iff in Hn0 as [Hnum0 Hh0].
  apply beq_eq in Hh0.
  assert (Hser : r_ser r = r_ser r0) by (apply Ha; auto; congruence).
  injection Hkc as Hc'. rewrite <- Hc'. cbn [k_bench k_hash k_ser k_date k_bh].
  repeat split; auto; try congruence;
    try (rewrite bh_of_adds; unfold tkey; congruence);
    try (rewrite Hb, He, Hnh, Hc'; exact Hkc0).
Qed.

(** WFset gives the two conditions of table_enum_invariant *)
Lemma wf_pair_fun rs en u t C :
  WFset rs -> valid_enum (adds rs) en ->
  omapM (kc (adds rs) u t) (tkeys en u t) = Some C -> pair_fun C.
Proof.
  intros Hwf Hv HC c c' Hc Hc' Hs.
  destruct (contrib_witness rs en u t C c (wf_hash_stamp _ Hwf) Hv HC Hc)
    as (r & Hin & Hn & Hu & Ht & Hb & Hh & Hser & Hd & Hbh & _).
  destruct (contrib_witness rs en u t C c' (wf_hash_stamp _ Hwf) Hv HC Hc')
    as (r' & Hin' & Hn' & Hu' & Ht' & Hb' & Hh' & Hser' & Hd' & Hbh' & _).
  rewrite <- Hs in Hser'.
  destruct (wf_pair _ Hwf r r' (k_ser c) Hin Hin' Hn Hn') as [E1 E2]; auto; try congruence.
  unfold pair_of. congruence.
Qed.

Lemma wf_dates_inj rs en u t C b s :
  WFset rs -> valid_enum (adds rs) en ->
  omapM (kc (adds rs) u t) (tkeys en u t) = Some C -> dates_inj (filter (at_sk b s) C).
Proof.
  intros Hwf Hv HC c c' Hc Hc' Hdt.
  apply filter_In in Hc as [Hc Ha], Hc' as [Hc' Ha'].
  apply at_sk_true in Ha, Ha'. injection Ha as Hcb Hcs. injection Ha' as Hcb' Hcs'.
  destruct (contrib_witness rs en u t C c (wf_hash_stamp _ Hwf) Hv HC Hc)
    as (r & Hin & Hn & Hu & Ht & Hb & Hh & Hser & Hd & Hbh & Hk).
  destruct (contrib_witness rs en u t C c' (wf_hash_stamp _ Hwf) Hv HC Hc')
    as (r' & Hin' & Hn' & Hu' & Ht' & Hb' & Hh' & Hser' & Hd' & Hbh' & Hk').
  rewrite Hcs in Hser. rewrite Hcs' in Hser'. rewrite <- Hdt in Hd'.
  destruct (wf_pair _ Hwf r r' s Hin Hin' Hn Hn') as [E1 _]; auto; try congruence.
  assert (E2 : r_exp r = r_exp r').
  { apply (wf_dates _ Hwf r r' s (k_date c)); auto; congruence. }
  assert (E3 : r_bench r = r_bench r') by congruence.
  rewrite E1, E2, E3 in Hk. congruence.
Qed.

(** * one table of a permuted result set under another enumeration *)
Lemma nil_perm_iff {A} (l l' : list A) : Permutation l l' -> (l <> [] <-> l' <> []).
Proof.
  intros HP. split; intros H E; subst; apply H.
  - now apply Permutation_sym, Permutation_nil in HP.
  - now apply Permutation_nil in HP.
Qed.

Lemma table_series_perm combine rs rs' en en' u t :
  WFset rs -> Permutation rs rs' ->
  valid_enum (adds rs) en -> valid_enum (adds rs') en' ->
  option_map canon_series (table_series combine (adds rs) en (u, t)) =
  option_map canon_series (table_series combine (adds rs') en' (u, t)).
Proof.
  intros Hwf HP Hv Hv'.
  pose proof (builder_perm_invariant rs rs' HP (wf_den_hash _ Hwf)) as HB.
  assert (H2 : forall h, b_h2o (adds rs) [h] = b_h2o (adds rs') [h]).
  { intros h. apply h2o_perm; auto. exact (wf_hash_stamp _ Hwf). }
  (* the enumerations list the same keys *)
  assert (Pcells : Permutation (e_cells en u t) (e_cells en' u t)).
  { apply NoDup_Permutation; [apply (ve_cells_nodup _ _ Hv) | apply (ve_cells_nodup _ _ Hv')|].
    intros [bench exp]. rewrite (ve_cells _ _ Hv), (ve_cells _ _ Hv').
    destruct (HB [u; t; bench; exp]) as (-> & _). tauto. }
  assert (Ptests : forall be, Permutation (e_tests en [u; t; fst be; snd be]) (e_tests en' [u; t; fst be; snd be])).
  { intros be. apply NoDup_Permutation; [apply (ve_tests_nodup _ _ Hv) | apply (ve_tests_nodup _ _ Hv')|].
    intros h. rewrite (ve_tests _ _ Hv), (ve_tests _ _ Hv').
    destruct (HB [u; t; fst be; snd be; h]) as (_ & _ & Hn & _). now apply nil_perm_iff. }
  assert (Pkeys : Permutation (tkeys en u t) (tkeys en' u t)).
  { unfold tkeys. apply Permutation_flat_map_ext; auto. intros be. apply Permutation_map, Ptests. }
  assert (Hkc : forall k, orel ceqv (kc (adds rs) u t k) (kc (adds rs') u t k)).
  { intros [[bench exp] h]. unfold kc. cbn [fst snd].
    destruct (normalize_date exp) as [date|]; cbn [orel]; auto.
    unfold test_contrib. rewrite <- H2.
    destruct (b_h2o (adds rs) [h]) as [ser|]; cbn [orel]; auto.
    destruct (normalize_date ser) as [s|]; cbn [orel]; auto.
    destruct (HB [u; t; bench; exp]) as (_ & Hd & _ & Hbh).
    destruct (HB [u; t; bench; exp; h]) as (_ & _ & Hn & _).
    unfold ceqv. cbn [k_bench k_ser k_hash k_bh k_date k_num k_den]. auto 10. }
  unfold table_series. rewrite !table_contribs_flat.
  rewrite <- (forallb_perm date_ok _ _ Pcells).
  destruct (forallb date_ok (e_cells en u t)); [|reflexivity].
  pose proof (omapM_perm (kc (adds rs) u t) _ _ Pkeys) as HP1.
  pose proof (omapM_rel ceqv (kc (adds rs) u t) (kc (adds rs') u t) (tkeys en' u t) (fun k _ => Hkc k)) as HP2.
  destruct (omapM (kc (adds rs) u t) (tkeys en u t)) as [C|] eqn:EC;
  destruct (omapM (kc (adds rs) u t) (tkeys en' u t)) as [C1|];
  destruct (omapM (kc (adds rs') u t) (tkeys en' u t)) as [C'|];
    cbn [orel] in HP1, HP2; try contradiction; cbn [option_map]; auto.
  f_equal.
  change (canon_series (table_out combine u t (map fst (e_cells en u t)) C) =
          canon_series (table_out combine u t (map fst (e_cells en' u t)) C')).
  rewrite <- (table_out_ceqv combine u t _ C1 C' HP2).
  apply table_enum_invariant; auto.
  - intros x. split; apply Permutation_in; [|apply Permutation_sym]; now apply Permutation_map.
  - eapply wf_pair_fun; eauto.
  - intros b s. eapply wf_dates_inj; eauto.
Qed.

(** * the whole result *)
Theorem series_perm_invariant combine rs rs' en en' :
  WFset rs -> Permutation rs rs' ->
  valid_enum (adds rs) en -> valid_enum (adds rs') en' ->
  canon (all_comparison_series combine (adds rs) en) =
  canon (all_comparison_series combine (adds rs') en').
Proof.
  intros Hwf HP Hv Hv'. unfold all_comparison_series, canon.
  assert (Ht : usort cmp2 (e_tables en) = usort cmp2 (e_tables en')).
  { apply usort2_ext. intros [u t]. rewrite (ve_tables _ _ Hv), (ve_tables _ _ Hv').
    pose proof (builder_perm_invariant rs rs' HP (wf_den_hash _ Hwf)) as HB.
    split; intros (bench & exp & H); exists bench, exp; destruct (HB [u; t; bench; exp]) as (E & _); congruence. }
  rewrite Ht. apply omapM_ext_map. intros [u t]. now apply table_series_perm.
Qed.

(** the first-insertion enumeration used to evaluate the model is valid, so the
    theorem applies to what the correspondence run computes *)
Section Dedup.
  Context {A : Type} (eqb : A -> A -> bool) (eqb_eq : forall x y, eqb x y = true <-> x = y).

  Lemma existsb_eqb x l : existsb (eqb x) l = true <-> In x l.
  Proof.
    rewrite existsb_exists. split.
    - intros (y & Hy & E). apply eqb_eq in E. now subst.
    - intros H. exists x. split; auto. now apply eqb_eq.
  Qed.

  Lemma dedup_in l : forall seen x, In x (dedup eqb seen l) <-> In x l /\ ~ In x seen.
  Proof.
    induction l as [|y l IH]; intros seen x; cbn [dedup In]; [tauto|].
    destruct (existsb (eqb y) seen) eqn:E.
    - apply existsb_eqb in E. rewrite IH. split; [tauto|]. intros [[->|H] Hn]; tauto.
    - assert (Hy : ~ In y seen) by (rewrite <- existsb_eqb; congruence).
      cbn [In]. rewrite IH. cbn [In]. split.
      + intros [->|[H Hn]]; [tauto|]. split; [tauto|]. intros Hs. apply Hn. now right.
      + intros [[->|H] Hn]; [now left|]. destruct (eqb x y) eqn:Exy.
        * apply eqb_eq in Exy. now left.
        * right. split; auto. intros [->|Hs]; [|tauto].
          assert (eqb x x = true) by now apply eqb_eq. congruence.
  Qed.

  Lemma dedup_nodup l : forall seen, NoDup (dedup eqb seen l).
  Proof.
    induction l as [|y l IH]; intros seen; cbn [dedup]; [constructor|].
    destruct (existsb (eqb y) seen); auto. constructor; auto.
    rewrite dedup_in. intros [_ H]. apply H. now left.
  Qed.
End Dedup.

Lemma beq2_eq a b : beq2 a b = true <-> a = b.
Proof.
  unfold beq2. destruct a, b; cbn [fst snd]. rewrite andb_true_iff, !beq_eq.
  split; [intros [-> ->]; auto | intros [= -> ->]; auto].
Qed.

Lemma trial_of rs k : b_trial (adds rs) k = existsb (fun r => keqb (tkey r) k) rs.
Proof. unfold adds. now rewrite adds_trial. Qed.

Theorem first_enum_valid rs : valid_enum (adds rs) (first_enum rs).
Proof.
  split; unfold first_enum; cbn [e_tables e_cells e_tests].
  - apply dedup_nodup, beq2_eq.
  - intros u t. rewrite (dedup_in beq2 beq2_eq), in_map_iff. split.
    + intros [(r & E & Hin) _]. injection E as <- <-. exists (r_bench r), (r_exp r).
      rewrite trial_of. apply existsb_exists. exists r. split; auto. apply keqb_refl.
    + intros (bench & exp & H). rewrite trial_of in H. apply existsb_exists in H as (r & Hin & Hk).
      apply keqb_eq in Hk. unfold tkey in Hk. injection Hk as <- <- _ _.
      split; [|intros []]. exists r. auto.
  - intros u t. apply dedup_nodup, beq2_eq.
  - intros u t bench exp. rewrite (dedup_in beq2 beq2_eq), in_map_iff, trial_of, existsb_exists. split.
    + intros [(r & E & Hin) _]. injection E as <- <-. apply filter_In in Hin as [Hin Hf].
      apply andb_true_iff in Hf as [Hu Ht]. apply beq_eq in Hu, Ht. subst.
      exists r. split; auto. apply keqb_refl.
    + intros (r & Hin & Hk). apply keqb_eq in Hk. unfold tkey in Hk. injection Hk as <- <- <- <-.
      split; [|intros []]. exists r. split; auto. apply filter_In. split; auto.
      now rewrite !beq_refl.
  - intros k. apply dedup_nodup, beq_eq.
  - intros u t bench exp h. rewrite (dedup_in beq beq_eq), in_map_iff.
    unfold adds. rewrite adds_num. cbn [b_empty b_num app]. split.
    + intros [(r & E & Hin) _]. subst h. apply filter_In in Hin as [Hin Hf].
      apply andb_true_iff in Hf as [Hn Hk]. apply keqb_eq in Hk.
      intros Hnil. assert (Hr : In r (filter (num_at [u; t; bench; exp; r_nh r]) rs)).
      { apply filter_In. split; auto. unfold num_at. rewrite Hn. cbn [andb]. apply keqb_eq.
        unfold nkey. unfold tkey in Hk. injection Hk as -> -> -> ->. reflexivity. }
      destruct (filter (num_at [u; t; bench; exp; r_nh r]) rs); [destruct Hr | discriminate].
    + intros Hne. destruct (filter (num_at [u; t; bench; exp; h]) rs) as [|r l] eqn:Ef; [now elim Hne|].
      assert (Hr : In r (filter (num_at [u; t; bench; exp; h]) rs)) by (rewrite Ef; now left).
      apply filter_In in Hr as [Hin Hf]. unfold num_at in Hf. apply andb_true_iff in Hf as [Hn Hk].
      apply keqb_eq in Hk. unfold nkey in Hk. injection Hk as <- <- <- <- <-.
      split; [|intros []]. exists r. split; auto. apply filter_In. split; auto.
      rewrite Hn. cbn [andb]. apply keqb_refl.
Qed.

(** what the correspondence run evaluates: the model on the result set in the
    order added, with the first-insertion enumeration *)
Corollary series_perm_invariant_first combine rs rs' :
  WFset rs -> Permutation rs rs' ->
  canon (all_comparison_series combine (adds rs) (first_enum rs)) =
  canon (all_comparison_series combine (adds rs') (first_enum rs')).
Proof. intros Hwf HP. apply series_perm_invariant; auto using first_enum_valid. Qed.
