(** Width computation of texttab.Format: the distribution loop covers the
    need, widths only grow, hence every cell finally fits its span. *)
From Coq Require Import Permutation.
From Perf Require Import Base.Bytes Model.Runes Model.TextTab.
Local Open Scope Z_scope.

Definition sumz {A} (f : A -> Z) (l : list A) : Z := fold_right Z.add 0 (map f l).

Lemma sum_range_sumz ws col span : sum_range ws col span = sumz (getz ws) (seq col span).
Proof. reflexivity. Qed.

Lemma sumz_app {A} (f : A -> Z) a b : sumz f (a ++ b) = sumz f a + sumz f b.
Proof. unfold sumz. induction a as [|x a IH]; cbn [map fold_right app]; [lia|]. rewrite IH. lia. Qed.

Lemma sumz_perm {A} (f : A -> Z) a b : Permutation a b -> sumz f a = sumz f b.
Proof.
  unfold sumz. induction 1 as [|x a b _ IH|x y a|a b c _ IH1 _ IH2]; cbn [map fold_right]; lia.
Qed.

Lemma sumz_ext {A} (f g : A -> Z) l : (forall x, In x l -> f x = g x) -> sumz f l = sumz g l.
Proof.
  unfold sumz. induction l as [|x l IH]; cbn [map fold_right]; intros H; [reflexivity|].
  rewrite H by (left; reflexivity). rewrite IH; [reflexivity|]. intros y Hy. apply H. right. exact Hy.
Qed.

Lemma sumz_le {A} (f g : A -> Z) l : (forall x, In x l -> f x <= g x) -> sumz f l <= sumz g l.
Proof.
  unfold sumz. induction l as [|x l IH]; cbn [map fold_right]; intros H; [lia|].
  pose proof (H x (or_introl eq_refl)). assert (forall y, In y l -> f y <= g y) by (intros; apply H; right; assumption).
  specialize (IH H1). lia.
Qed.

Lemma sumz_filter_split {A} (f : A -> Z) (p : A -> bool) l :
  sumz f l = sumz f (filter p l) + sumz f (filter (fun x => negb (p x)) l).
Proof.
  unfold sumz. induction l as [|x l IH]; cbn [filter map fold_right]; [lia|].
  destruct (p x); cbn [negb map fold_right]; lia.
Qed.

(** ** upd / getz *)
Lemma upd_length l i v : length (upd l i v) = length l.
Proof. revert i; induction l as [|x l IH]; intros [|i]; cbn [upd length]; auto. Qed.

Lemma getz_upd_same l i v : (i < length l)%nat -> getz (upd l i v) i = v.
Proof.
  unfold getz. revert i; induction l as [|x l IH]; intros [|i]; cbn [upd length nth]; intros H; try lia; auto.
  apply IH. lia.
Qed.

Lemma getz_upd_other l i j v : i <> j -> getz (upd l i v) j = getz l j.
Proof.
  unfold getz. revert i j; induction l as [|x l IH]; intros [|i] [|j]; cbn [upd nth]; intros H; auto; try congruence.
Qed.

Lemma getz_upd_max_ge l i j v : getz l j <= getz (upd l i (Z.max (getz l i) v)) j.
Proof.
  destruct (Nat.eq_dec i j) as [->|Hn].
  - destruct (Nat.lt_ge_cases j (length l)) as [Hl|Hl].
    + rewrite getz_upd_same by exact Hl. lia.
    + unfold getz. rewrite (nth_overflow l) by exact Hl.
      rewrite nth_overflow by (rewrite upd_length; exact Hl). lia.
  - rewrite getz_upd_other by exact Hn. lia.
Qed.

(** ** the widest-first loop *)
Lemma distribute_length order : forall ws w, length (distribute ws order w) = length ws.
Proof.
  induction order as [|c r IH]; intros ws w; cbn [distribute]; [reflexivity|].
  rewrite IH, upd_length. reflexivity.
Qed.

Lemma distribute_mono order : forall ws w i, getz ws i <= getz (distribute ws order w) i.
Proof.
  induction order as [|c r IH]; intros ws w i; cbn [distribute]; [lia|].
  eapply Z.le_trans; [|apply IH]. apply getz_upd_max_ge.
Qed.

Lemma distribute_frame order : forall ws w i, ~ In i order -> getz (distribute ws order w) i = getz ws i.
Proof.
  induction order as [|c r IH]; intros ws w i Hi; cbn [distribute]; [reflexivity|].
  rewrite IH by (intros H; apply Hi; right; exact H).
  apply getz_upd_other. intros ->. apply Hi. left. reflexivity.
Qed.

(** after the loop the processed columns together are at least the need, in
    whatever order they were processed *)
Lemma distribute_covers order : forall ws w,
  NoDup order -> (forall c, In c order -> (c < length ws)%nat) -> order <> [] ->
  w <= sumz (getz (distribute ws order w)) order.
Proof.
  induction order as [|c r IH]; intros ws w Hnd Hlt Hne; [congruence|].
  inversion Hnd as [|? ? Hnotin Hnd']; subst.
  cbn [distribute]. set (span := Z.of_nat (length (c :: r))).
  set (nw := Z.max (getz ws c) (Z.quot (w + span - 1) span)).
  unfold sumz. cbn [map fold_right]. fold (sumz (getz (distribute (upd ws c nw) r (w - nw))) r).
  rewrite distribute_frame by exact Hnotin.
  rewrite getz_upd_same by (apply Hlt; left; reflexivity).
  destruct r as [|c2 r2].
  - cbn [sumz map fold_right]. subst nw span. cbn [length Z.of_nat Pos.of_succ_nat].
    replace (w + 1 - 1) with w by lia. rewrite Z.quot_1_r. lia.
  - assert (H : w - nw <= sumz (getz (distribute (upd ws c nw) (c2 :: r2) (w - nw))) (c2 :: r2)).
    { apply IH; [exact Hnd'| |discriminate].
      intros x Hx. rewrite upd_length. apply Hlt. right. exact Hx. }
    lia.
Qed.

(** ** insertion sort of the growable columns *)
Lemma ins_desc_perm ws x l : Permutation (x :: l) (ins_desc ws x l).
Proof.
  induction l as [|y l IH]; cbn [ins_desc]; [apply Permutation_refl|].
  destruct (getz ws y <? getz ws x); [apply Permutation_refl|].
  eapply Permutation_trans; [apply perm_swap|]. apply perm_skip. exact IH.
Qed.

Lemma sort_desc_perm ws l : Permutation l (sort_desc ws l).
Proof.
  unfold sort_desc.
  assert (H : forall acc, Permutation (acc ++ l) (fold_left (fun acc x => ins_desc ws x acc) l acc)).
  { induction l as [|x l IH]; intros acc; cbn [fold_left].
    - rewrite app_nil_r. apply Permutation_refl.
    - eapply Permutation_trans; [|apply IH].
      eapply Permutation_trans; [apply Permutation_sym, Permutation_middle|].
      apply (Permutation_app_tail l (ins_desc_perm ws x acc)). }
  apply (H []).
Qed.

(** ** one cell *)
Definition cell_wf (ncols : nat) (c : cell) : Prop := (1 <= c_span c)%nat /\ (c_col c + c_span c <= ncols)%nat.

Lemma grow_fixed_split sh col span (f : nat -> Z) :
  sumz f (seq col span) = sumz f (grow_cols sh col span) + sumz f (fixed_cols sh col span).
Proof.
  unfold grow_cols, fixed_cols.
  destruct (existsb (fun j => negb (shrink_of sh j)) (seq col span)).
  - rewrite (sumz_filter_split f (fun j => negb (shrink_of sh j))).
    f_equal. f_equal. apply filter_ext. intros a. apply negb_involutive.
  - cbn [sumz map fold_right]. lia.
Qed.

Lemma grow_cols_incl sh col span x : In x (grow_cols sh col span) -> In x (seq col span).
Proof.
  unfold grow_cols. destruct (existsb _ _); [|auto]. intros H. apply filter_In in H. tauto.
Qed.

Lemma grow_cols_nodup sh col span : NoDup (grow_cols sh col span).
Proof.
  unfold grow_cols. destruct (existsb _ _); [apply NoDup_filter|]; apply seq_NoDup.
Qed.

Lemma grow_cols_nonempty sh col span : (1 <= span)%nat -> grow_cols sh col span <> [].
Proof.
  unfold grow_cols. intros Hs.
  destruct (existsb (fun j => negb (shrink_of sh j)) (seq col span)) eqn:E.
  - apply existsb_exists in E as [x [Hx Hp]]. intros Hnil.
    assert (Hin : In x (filter (fun j => negb (shrink_of sh j)) (seq col span))) by (apply filter_In; auto).
    rewrite Hnil in Hin. exact Hin.
  - destruct span; [lia|]. cbn [seq]. discriminate.
Qed.

Lemma fixed_not_grow sh col span x : In x (fixed_cols sh col span) -> ~ In x (grow_cols sh col span).
Proof.
  unfold grow_cols, fixed_cols. destruct (existsb _ _); [|intros []].
  intros H1 H2. apply filter_In in H1 as [_ H1]. apply filter_In in H2 as [_ H2].
  rewrite H1 in H2. discriminate.
Qed.

Lemma width_step_length lm sh ws c : length (width_step lm sh ws c) = length ws.
Proof.
  unfold width_step. destruct (c_span c =? 1)%nat; [apply upd_length|].
  destruct (_ <=? _); [reflexivity|]. apply distribute_length.
Qed.

Lemma width_step_mono lm sh ws c i : getz ws i <= getz (width_step lm sh ws c) i.
Proof.
  unfold width_step. destruct (c_span c =? 1)%nat; [apply getz_upd_max_ge|].
  destruct (_ <=? _); [lia|]. apply distribute_mono.
Qed.

Lemma width_step_satisfies lm sh ws c :
  cell_wf (length ws) c ->
  need lm c <= sum_range (width_step lm sh ws c) (c_col c) (c_span c).
Proof.
  intros [Hs Hc]. unfold width_step.
  destruct (Nat.eqb_spec (c_span c) 1) as [E|E].
  - rewrite E. unfold sum_range. cbn [seq map fold_right].
    rewrite getz_upd_same by lia. lia.
  - destruct (Z.leb_spec (need lm c) (sum_range ws (c_col c) (c_span c))) as [Hle|Hgt]; [exact Hle|].
    set (G := grow_cols sh (c_col c) (c_span c)).
    set (F := fixed_cols sh (c_col c) (c_span c)).
    set (w' := need lm c - fold_right Z.add 0 (map (getz ws) F)).
    set (fin := distribute ws (sort_desc ws G) w').
    rewrite sum_range_sumz, (grow_fixed_split sh). fold G F.
    assert (HP : Permutation G (sort_desc ws G)) by apply sort_desc_perm.
    assert (Hcov : w' <= sumz (getz fin) (sort_desc ws G)).
    { apply distribute_covers.
      - eapply Permutation_NoDup; [exact HP|]. apply grow_cols_nodup.
      - intros x Hx. apply (Permutation_in _ (Permutation_sym HP)) in Hx.
        apply grow_cols_incl, in_seq in Hx. lia.
      - intros Hnil. rewrite Hnil in HP. apply Permutation_sym, Permutation_nil in HP.
        revert HP. apply grow_cols_nonempty. exact Hs. }
    rewrite (sumz_perm _ _ _ HP).
    assert (HF : sumz (getz fin) F = sumz (getz ws) F).
    { apply sumz_ext. intros x Hx. apply distribute_frame.
      intros Hin. apply (Permutation_in _ (Permutation_sym HP)) in Hin.
      revert Hin. apply fixed_not_grow. exact Hx. }
    rewrite HF. subst w'. unfold sumz in *. lia.
Qed.

(** ** all cells *)
Lemma sum_range_mono ws ws' col span :
  (forall i, getz ws i <= getz ws' i) -> sum_range ws col span <= sum_range ws' col span.
Proof. intros H. rewrite !sum_range_sumz. apply sumz_le. intros x _. apply H. Qed.

Lemma widths_fold lm sh n : forall l ws,
  length ws = n -> (forall c, In c l -> cell_wf n c) ->
  let f := fold_left (width_step lm sh) l ws in
  length f = n /\ (forall i, getz ws i <= getz f i) /\
  (forall c, In c l -> need lm c <= sum_range f (c_col c) (c_span c)).
Proof.
  induction l as [|c l IH]; intros ws Hlen Hwf; cbn [fold_left].
  - repeat split; [exact Hlen|intros; lia|intros c []].
  - destruct (IH (width_step lm sh ws c)) as [H1 [H2 H3]].
    + rewrite width_step_length. exact Hlen.
    + intros x Hx. apply Hwf. right. exact Hx.
    + repeat split; [exact H1| |].
      * intros i. eapply Z.le_trans; [apply width_step_mono|apply H2].
      * intros x [<-|Hx]; [|apply H3; exact Hx].
        eapply Z.le_trans; [apply width_step_satisfies|apply sum_range_mono; exact H2].
        rewrite Hlen. apply Hwf. left. reflexivity.
Qed.

(** widths never shrink while the cells are processed *)
Lemma widths_monotone lm sh l1 l2 ws i :
  getz (fold_left (width_step lm sh) l1 ws) i <= getz (fold_left (width_step lm sh) (l1 ++ l2) ws) i.
Proof.
  rewrite fold_left_app. generalize (fold_left (width_step lm sh) l1 ws) as w0.
  induction l2 as [|c l2 IH]; intros w0; cbn [fold_left]; [lia|].
  eapply Z.le_trans; [apply width_step_mono|apply IH].
Qed.

Lemma repeat_getz n i : getz (repeat 0 n) i = 0.
Proof. unfold getz. revert i; induction n as [|n IH]; intros [|i]; cbn [repeat nth]; auto. Qed.

(** every cell fits its span, whatever the order in which they were processed *)
Lemma widths_satisfy lm sh ncols ordered c :
  (forall x, In x ordered -> cell_wf ncols x) -> In c ordered ->
  need lm c <= sum_range (widths lm sh ncols ordered) (c_col c) (c_span c).
Proof.
  intros Hwf Hin. unfold widths.
  destruct (widths_fold lm sh ncols ordered (repeat 0 ncols)) as [_ [_ H]]; [apply repeat_length|exact Hwf|].
  apply H. exact Hin.
Qed.

Lemma widths_length lm sh ncols ordered : length (widths lm sh ncols ordered) = ncols.
Proof.
  unfold widths. revert ncols. generalize (repeat_length 0 ).
  intros H ncols. specialize (H ncols). revert H. generalize (repeat 0 ncols).
  induction ordered as [|c l IH]; intros ws H; cbn [fold_left]; [exact H|].
  apply IH. rewrite width_step_length. exact H.
Qed.

Lemma widths_nonneg lm sh ncols ordered i : 0 <= getz (widths lm sh ncols ordered) i.
Proof.
  unfold widths. rewrite <- (repeat_getz ncols i) at 1.
  generalize (repeat 0 ncols). induction ordered as [|c l IH]; intros ws; cbn [fold_left]; [lia|].
  eapply Z.le_trans; [apply width_step_mono|apply IH].
Qed.

(** ** offsets *)
Lemma getz_offs_0 off ws : getz (offs_from off ws) 0 = off.
Proof. destruct ws; reflexivity. Qed.

Lemma getz_offs_S ws : forall off i, (i < length ws)%nat ->
  getz (offs_from off ws) (S i) = getz (offs_from off ws) i + getz ws i.
Proof.
  induction ws as [|w ws IH]; intros off i Hi; cbn [length] in Hi; [lia|].
  destruct i as [|i].
  - cbn [offs_from]. unfold getz at 1 2 3. cbn [nth]. fold (getz (offs_from (off + w) ws) 0).
    rewrite getz_offs_0. reflexivity.
  - cbn [offs_from]. unfold getz at 1 2 3. cbn [nth].
    fold (getz (offs_from (off + w) ws) (S i)). fold (getz (offs_from (off + w) ws) i). fold (getz ws i).
    apply IH. lia.
Qed.

Lemma offs_diff ws off : forall span col, (col + span <= length ws)%nat ->
  getz (offs_from off ws) (col + span) - getz (offs_from off ws) col = sum_range ws col span.
Proof.
  induction span as [|span IH]; intros col H.
  - rewrite Nat.add_0_r. unfold sum_range. cbn [seq map fold_right]. lia.
  - unfold sum_range. cbn [seq map fold_right]. fold (sum_range ws (S col) span).
    rewrite <- IH by lia. replace (col + S span)%nat with (S col + span)%nat by lia.
    rewrite (getz_offs_S ws off col) by lia. lia.
Qed.

Lemma offs_mono ws off : (forall i, 0 <= getz ws i) ->
  forall i j, (i <= j)%nat -> (j <= length ws)%nat -> getz (offs_from off ws) i <= getz (offs_from off ws) j.
Proof.
  intros Hnn i j Hij Hj. induction Hij as [|j Hij IH]; [lia|].
  rewrite getz_offs_S by lia. specialize (Hnn j). specialize (IH ltac:(lia)). lia.
Qed.

(** ** margins *)
Lemma lmargins_spec ncols cells :
  length (lmargins ncols cells) = ncols /\
  (forall i, 0 <= getz (lmargins ncols cells) i) /\
  (forall c, In c cells -> (c_col c < ncols)%nat ->
             rune_count (c_margin c) <= getz (lmargins ncols cells) (c_col c)).
Proof.
  unfold lmargins.
  assert (H : forall l lm, length lm = ncols -> (forall i, 0 <= getz lm i) ->
     let f := fold_left (fun lm c => upd lm (c_col c) (Z.max (rune_count (c_margin c)) (getz lm (c_col c)))) l lm in
     length f = ncols /\ (forall i, getz lm i <= getz f i) /\
     (forall c, In c l -> (c_col c < ncols)%nat -> rune_count (c_margin c) <= getz f (c_col c))).
  { induction l as [|c l IH]; intros lm Hl Hnn; cbn [fold_left].
    - repeat split; [exact Hl|intros; lia|intros c []].
    - set (lm1 := upd lm (c_col c) (Z.max (rune_count (c_margin c)) (getz lm (c_col c)))).
      assert (Hm : forall i, getz lm i <= getz lm1 i).
      { intros i. subst lm1. rewrite Z.max_comm. apply getz_upd_max_ge. }
      destruct (IH lm1) as [H1 [H2 H3]].
      + subst lm1. rewrite upd_length. exact Hl.
      + intros i. specialize (Hnn i). specialize (Hm i). lia.
      + repeat split; [exact H1| |].
        * intros i. specialize (Hm i). specialize (H2 i). lia.
        * intros x [<-|Hx] Hc; [|apply H3; assumption].
          eapply Z.le_trans; [|apply H2]. subst lm1. rewrite getz_upd_same by lia. lia. }
  destruct (H cells (repeat 0 ncols)) as [H1 [H2 H3]]; [apply repeat_length|intros; rewrite repeat_getz; lia|].
  repeat split; [exact H1| |exact H3].
  intros i. specialize (H2 i). rewrite repeat_getz in H2. exact H2.
Qed.
