(** C10, the half-unit clause at full strength is refuted by the faithful model
    (known finding C10_quotient_rounded_before_printing): Scaler.Format prints
    the decimal of the binary64 quotient val / Factor.

    (a) 0.10105 is the binary64 0.10105000000000000093...; times 1000 that is
    101.05000000000000093, which rounds to 101.1; the binary64 quotient by the
    binary64 1e-3 is 101.04999999999999715 and "101.0m" is printed: more than
    half a unit (0.05 m) away.  The correctly rounded "101.1m" would be within
    half a unit; the printed text is within the allowance of [quotient_slack].

    (b) 7.335123946664616e17 sharing the scale of 4940.7 (three decimals, k) is
    exactly 733512394666461.568 k; the binary64 quotient is ...461.625, which is
    printed: 0.057 k off, half a unit is 0.0005 k. *)
From Coq Require Import ZArith List.
From Perf Require Import Base.Bytes Base.B64 Base.FmtFixed Proofs.FmtFixed Model.Scale Model.ScaleSpec.
Import ListNotations.
Local Open Scope Z_scope.

Lemma half_unit_refuted :
  let v := b64_of_dec false 10105 (-5) in
  sf_finite v = true /\
  scale (fun _ => []) v Decimal = Some (bs "101.0m") /\
  exact_factor Decimal (bs "m") = Some (1, 1000) /\
  half_unit_of 0 1 v 1010 1 1 1000 = false /\
  half_unit_of 0 1 v 1011 1 1 1000 = true /\
  (let '(sn, sd) := quotient_slack 1 1000 in half_unit_of sn sd v 1010 1 1 1000) = true.
Proof. vm_compute. repeat split; reflexivity. Qed.

Lemma half_unit_shared_refuted :
  let lo := b64_of_dec false 4940706476680601 (-12) in
  let v := b64_of_dec false 7335123946664616 2 in
  exists s, sf_finite v = true /\
  common_scale [lo; v] Decimal = Some s /\
  s_prec s = 3 /\ s_prefix s = bs "k" /\
  exact_factor Decimal (bs "k") = Some (1000, 1) /\
  format (fun _ => []) s v = bs "733512394666461.625k" /\
  half_unit_of 0 1 v 733512394666461625 3 1000 1 = false /\
  half_unit_of 0 1 v 733512394666461568 3 1000 1 = true /\
  (let '(sn, sd) := quotient_slack 1000 1 in half_unit_of sn sd v 733512394666461625 3 1000 1) = true.
Proof. eexists. vm_compute. repeat split; reflexivity. Qed.

(** the allowance is nothing where the factor is a power of two *)
Lemma quotient_slack_binary :
  Forall (fun '(_, (fn, fd)) => quotient_slack fn fd = (0, 1)) iec_exact /\
  quotient_slack 1 1 = (0, 1).
Proof. vm_compute. repeat constructor. Qed.
