(** Key renaming for the projection stream (benchproc.Projection, C08 level).

    Keys are positions of interned rows and .config sub-fields are created when
    first seen, so the NUMBERS of Keys and of sub-fields depend on the order in
    which results are projected.  What a Key READS does not.  This file proves
    the invariants that make this precise, for any stream of Project /
    ProjectValues calls run after the Parse calls and Residue:

    - [run_cover]: every interned Key of the final state was handed out by some
      call of the stream (interning creates a Key only to return it);
    - [run_nojunk]: every field of the final state that did not exist after
      parsing is a .config sub-field named by a file-configuration key of some
      result that was projected through that projection;
    - [renaming_exists]: two final projections whose handed-out Keys read the
      same on corresponding fields, and which were handed out for the same set
      of items, are related by a bijection of Key numbers that preserves every
      reading;
    - [plain_renaming] / [unit_renaming]: hence two streams over the same Parse
      calls that project the same SET of results (resp. result-with-unit pairs)
      through a projection end with Key sets that are renamings of each other,
      and the field sets correspond by (name, kind). *)
From Perf Require Import Base.Bytes Model.Name Model.Extract Model.Key Model.Projection
  Proofs.Key Proofs.Extract Proofs.Projection Proofs.Reach Proofs.Exclusion Proofs.KeyGet
  Proofs.Lossless Proofs.LosslessUnits.
From Coq Require Import Lia.

(** * finite choice *)
Lemma finite_choice (Q : nat -> nat -> Prop) n :
  (forall k, k < n -> exists k', Q k k') -> exists phi : nat -> nat, forall k, k < n -> Q k (phi k).
Proof.
  induction n as [|n IH]; intros H.
  - exists (fun k => k). intros k Hk. lia.
  - destruct IH as [phi Hphi]. { intros k Hk. apply H. lia. }
    destruct (H n ltac:(lia)) as [kn Hkn].
    exists (fun k => if Nat.eqb k n then kn else phi k). intros k Hk.
    destruct (Nat.eqb_spec k n) as [->|Hne]; auto. apply Hphi. lia.
Qed.

(** * the generic renaming lemma *)
Section OneDirection.
Variable X : Type.
Variables p p' : projection.
Variables hd hd' : X -> nat -> Prop.
Variables rd rd' : X -> nat -> finfo -> bytes.
Variable fc : nat -> finfo -> nat -> finfo -> Prop.
Hypothesis K' : KInv p'.
Hypothesis hd_reads : forall x k, hd x k ->
  k < length (p_keys p) /\ forall idx f, nth_error (p_fields p) idx = Some f -> key_get p k idx = rd x idx f.
Hypothesis hd_reads' : forall x k, hd' x k ->
  k < length (p_keys p') /\ forall idx f, nth_error (p_fields p') idx = Some f -> key_get p' k idx = rd' x idx f.
Hypothesis fc_bwd : forall idx' f', nth_error (p_fields p') idx' = Some f' ->
  exists idx f, nth_error (p_fields p) idx = Some f /\ fc idx f idx' f'.
Hypothesis fc_rd : forall idx f idx' f' x,
  nth_error (p_fields p) idx = Some f -> nth_error (p_fields p') idx' = Some f' -> fc idx f idx' f' ->
  rd x idx f = rd' x idx' f'.

(** two items that got one Key here get one Key there *)
Lemma same_key_transfers x y k k1 k2 : hd x k -> hd y k -> hd' x k1 -> hd' y k2 -> k1 = k2.
Proof.
  intros Hx Hy Hx' Hy'.
  destruct (hd_reads x k Hx) as [_ Gx]. destruct (hd_reads y k Hy) as [_ Gy].
  destruct (hd_reads' x k1 Hx') as [L1 G1]. destruct (hd_reads' y k2 Hy') as [L2 G2].
  apply (key_eq_iff_gets p' k1 k2 K' L1 L2). intros idx' Hidx'.
  destruct (nth_error (p_fields p') idx') as [f'|] eqn:Ef'.
  2:{ apply nth_error_None in Ef'. unfold nfields in Hidx'. lia. }
  destruct (fc_bwd idx' f' Ef') as [idx [f [Ef Hfc]]].
  rewrite (G1 idx' f' Ef'), (G2 idx' f' Ef').
  rewrite <- (fc_rd idx f idx' f' x Ef Ef' Hfc), <- (fc_rd idx f idx' f' y Ef Ef' Hfc).
  rewrite <- (Gx idx f Ef), <- (Gy idx f Ef). reflexivity.
Qed.
End OneDirection.

Section Rename.
Variable X : Type.
Variables p p' : projection.
Variables hd hd' : X -> nat -> Prop.
Variables rd rd' : X -> nat -> finfo -> bytes.
Variable fc : nat -> finfo -> nat -> finfo -> Prop.
Hypothesis K : KInv p.
Hypothesis K' : KInv p'.
Hypothesis hd_reads : forall x k, hd x k ->
  k < length (p_keys p) /\ forall idx f, nth_error (p_fields p) idx = Some f -> key_get p k idx = rd x idx f.
Hypothesis hd_reads' : forall x k, hd' x k ->
  k < length (p_keys p') /\ forall idx f, nth_error (p_fields p') idx = Some f -> key_get p' k idx = rd' x idx f.
Hypothesis hd_cover : forall k, k < length (p_keys p) -> exists x, hd x k.
Hypothesis hd_cover' : forall k, k < length (p_keys p') -> exists x, hd' x k.
Hypothesis same_items : forall x, (exists k, hd x k) <-> (exists k', hd' x k').
Hypothesis fc_fwd : forall idx f, nth_error (p_fields p) idx = Some f ->
  exists idx' f', nth_error (p_fields p') idx' = Some f' /\ fc idx f idx' f'.
Hypothesis fc_bwd : forall idx' f', nth_error (p_fields p') idx' = Some f' ->
  exists idx f, nth_error (p_fields p) idx = Some f /\ fc idx f idx' f'.
Hypothesis fc_rd : forall idx f idx' f' x,
  nth_error (p_fields p) idx = Some f -> nth_error (p_fields p') idx' = Some f' -> fc idx f idx' f' ->
  rd x idx f = rd' x idx' f'.

Definition krel (k k' : nat) : Prop := exists x, hd x k /\ hd' x k'.

Lemma krel_fun k k1 k2 : krel k k1 -> krel k k2 -> k1 = k2.
Proof.
  intros [x [Hx Hx']] [y [Hy Hy']].
  exact (same_key_transfers X p p' hd hd' rd rd' fc K' hd_reads hd_reads' fc_bwd fc_rd x y k k1 k2 Hx Hy Hx' Hy').
Qed.

Lemma krel_inj k1 k2 k' : krel k1 k' -> krel k2 k' -> k1 = k2.
Proof.
  intros [x [Hx Hx']] [y [Hy Hy']].
  refine (same_key_transfers X p' p hd' hd rd' rd (fun i' f' i f => fc i f i' f') K hd_reads' hd_reads _ _
            x y k' k1 k2 Hx' Hy' Hx Hy).
  - intros idx f Hf. destruct (fc_fwd idx f Hf) as [idx' [f' [Hf' Hfc]]]. eauto.
  - intros idx' f' idx f z Hf' Hf Hfc. symmetry. eapply fc_rd; eauto.
Qed.

Lemma krel_total k : k < length (p_keys p) -> exists k', krel k k'.
Proof.
  intros Hk. destruct (hd_cover k Hk) as [x Hx].
  destruct (proj1 (same_items x) (ex_intro _ k Hx)) as [k' Hx']. exists k', x. auto.
Qed.

Lemma krel_total' k' : k' < length (p_keys p') -> exists k, krel k k'.
Proof.
  intros Hk. destruct (hd_cover' k' Hk) as [x Hx'].
  destruct (proj2 (same_items x) (ex_intro _ k' Hx')) as [k Hx]. exists k, x. auto.
Qed.

(** the bijection of Key numbers *)
Theorem renaming_exists :
  exists phi psi : nat -> nat,
    (forall k, k < length (p_keys p) -> phi k < length (p_keys p') /\ psi (phi k) = k) /\
    (forall k', k' < length (p_keys p') -> psi k' < length (p_keys p) /\ phi (psi k') = k') /\
    (forall x k, hd x k -> hd' x (phi k)) /\
    (forall x k', hd' x k' -> hd x (psi k')) /\
    (forall x k k', hd x k -> hd' x k' -> k' = phi k /\ k = psi k') /\
    (forall k idx f idx' f', k < length (p_keys p) ->
       nth_error (p_fields p) idx = Some f -> nth_error (p_fields p') idx' = Some f' -> fc idx f idx' f' ->
       key_get p k idx = key_get p' (phi k) idx').
Proof.
  destruct (finite_choice krel (length (p_keys p)) krel_total) as [phi Hphi].
  destruct (finite_choice (fun k' k => krel k k') (length (p_keys p')) krel_total') as [psi Hpsi].
  assert (Lphi : forall k, k < length (p_keys p) -> phi k < length (p_keys p')).
  { intros k Hk. destruct (Hphi k Hk) as [x [_ Hx']]. apply (hd_reads' x _ Hx'). }
  assert (Lpsi : forall k', k' < length (p_keys p') -> psi k' < length (p_keys p)).
  { intros k' Hk. destruct (Hpsi k' Hk) as [x [Hx _]]. apply (hd_reads x _ Hx). }
  exists phi, psi. split; [|split; [|split; [|split; [|split]]]].
  - intros k Hk. split; [auto|]. eapply krel_inj; [apply Hpsi; auto|apply Hphi; auto].
  - intros k' Hk. split; [auto|]. eapply krel_fun; [apply Hphi; auto|apply Hpsi; auto].
  - intros x k Hx. destruct (proj1 (same_items x) (ex_intro _ k Hx)) as [k' Hx'].
    assert (Hk : k < length (p_keys p)) by apply (hd_reads x k Hx).
    assert (k' = phi k) as <- by (eapply krel_fun; [exists x; eauto|apply Hphi; auto]). exact Hx'.
  - intros x k' Hx'. destruct (proj2 (same_items x) (ex_intro _ k' Hx')) as [k Hx].
    assert (Hk : k' < length (p_keys p')) by apply (hd_reads' x k' Hx').
    assert (k = psi k') as <- by (eapply krel_inj; [exists x; eauto|apply Hpsi; auto]). exact Hx.
  - intros x k k' Hx Hx'.
    assert (Hk : k < length (p_keys p)) by apply (hd_reads x k Hx).
    assert (Hk' : k' < length (p_keys p')) by apply (hd_reads' x k' Hx').
    split.
    + eapply krel_fun; [exists x; eauto|apply Hphi; auto].
    + eapply krel_inj; [exists x; eauto|apply Hpsi; auto].
  - intros k idx f idx' f' Hk Hf Hf' Hfc. destruct (Hphi k Hk) as [x [Hx Hx']].
    destruct (hd_reads x k Hx) as [_ G]. destruct (hd_reads' x _ Hx') as [_ G'].
    rewrite (G idx f Hf), (G' idx' f' Hf'). eapply fc_rd; eauto.
Qed.
End Rename.

(** * every interned Key was handed out *)
Lemma intern_row_cover p j :
  j < length (p_keys (fst (intern_row p))) -> j < length (p_keys p) \/ j = snd (intern_row p).
Proof.
  unfold intern_row. destruct (find_index _ _) as [k|]; cbn [fst snd p_keys]; intros Hj; auto.
  rewrite app_length in Hj. cbn in Hj. lia.
Qed.

Lemma intern_units_cover u units : forall p j,
  j < length (p_keys (fst (intern_units p u units))) ->
  j < length (p_keys p) \/
  exists jj un, nth_error (snd (intern_units p u units)) jj = Some j /\ nth_error units jj = Some un.
Proof.
  induction units as [|un units IH]; intros p j; cbn [intern_units].
  - cbn. auto.
  - pose proof (intern_row_cover (set_row p u un)) as C1.
    destruct (intern_row (set_row p u un)) as [p1 k]. cbn [fst snd] in C1.
    specialize (IH p1 j). destruct (intern_units p1 u units) as [p2 ks]. cbn [fst snd] in *. intros Hj.
    destruct (IH Hj) as [H|[jj [un' [H1 H2]]]].
    + destruct (C1 j H) as [H'| ->]; [left; exact H'|]. right. exists 0, un. auto.
    + right. exists (S jj), un'. auto.
Qed.

Lemma populate_keys pp p r : p_keys (snd (populate pp p r)) = p_keys p.
Proof. apply (kstep_populate pp p r). Qed.

Lemma project_cover pp p r j :
  j < length (p_keys (snd (fst (project pp p r)))) -> j < length (p_keys p) \/ j = snd (project pp p r).
Proof.
  unfold project. pose proof (populate_keys pp p r) as Hk.
  destruct (populate pp p r) as [pp1 p1]. cbn [snd] in Hk.
  pose proof (intern_row_cover p1 j) as C. destruct (intern_row p1) as [p2 k]. cbn [fst snd] in *.
  rewrite Hk in C. exact C.
Qed.

Lemma project_values_cover pp p r u j :
  p_unit p = Some u ->
  j < length (p_keys (snd (fst (project_values pp p r)))) ->
  j < length (p_keys p) \/
  exists jj un, nth_error (snd (project_values pp p r)) jj = Some j /\ nth_error (r_units r) jj = Some un.
Proof.
  intros HU. unfold project_values. pose proof (populate_keys pp p r) as Hk.
  pose proof (populate_unit pp p r) as U1.
  destruct (populate pp p r) as [pp1 p1]. cbn [snd] in Hk, U1. rewrite U1, HU.
  pose proof (intern_units_cover u (r_units r) p1 j) as C.
  destruct (intern_units p1 u (r_units r)) as [p2 ks]. cbn [fst snd] in *. rewrite Hk in C. exact C.
Qed.

(** a call of the stream handed Key [k] of projection [pi] out for result [r] ... *)
Definition handed_plain (ops : list op) (xs : list out) (pi : nat) (r : result) (k : nat) : Prop :=
  exists i, nth_error ops i = Some (OpProject pi r) /\ nth_error xs i = Some (OutKeys [k]).
(** ... for measurement [j] of result [fst x], whose unit is [snd x] *)
Definition handed_unit (ops : list op) (xs : list out) (pi : nat) (x : result * bytes) (k : nat) : Prop :=
  exists i ks j, nth_error ops i = Some (OpProjectValues pi (fst x)) /\ nth_error xs i = Some (OutKeys ks) /\
                 nth_error ks j = Some k /\ nth_error (r_units (fst x)) j = Some (snd x).

Definition proj_only (o : op) : Prop :=
  match o with OpProject _ _ | OpProjectValues _ _ => True | _ => False end.

Lemma proj_only_no_parse ops : Forall proj_only ops -> Forall no_parse ops.
Proof. apply Forall_impl. intros [| | |]; cbn; auto. Qed.

Lemma handed_plain_cons o x ops xs pi r k :
  handed_plain ops xs pi r k -> handed_plain (o :: ops) (x :: xs) pi r k.
Proof. intros [i [H1 H2]]. exists (S i). auto. Qed.

Lemma handed_unit_cons o x ops xs pi y k :
  handed_unit ops xs pi y k -> handed_unit (o :: ops) (x :: xs) pi y k.
Proof. intros [i [ks [j [H1 [H2 [H3 H4]]]]]]. exists (S i), ks, j. auto. Qed.

(** every Key of the final state either existed before the stream or was
    handed out by one of its calls *)
Lemma run_cover pi ops : forall w,
  Forall proj_only ops ->
  (forall r, In (OpProjectValues pi r) ops ->
     forall p, nth_error (w_projs w) pi = Some p -> exists u, p_unit p = Some u) ->
  forall pF j, nth_error (w_projs (fst (run_ops w ops))) pi = Some pF -> j < length (p_keys pF) ->
    (exists p, nth_error (w_projs w) pi = Some p /\ j < length (p_keys p)) \/
    (exists r, handed_plain ops (snd (run_ops w ops)) pi r j) \/
    (exists x, handed_unit ops (snd (run_ops w ops)) pi x j).
Proof.
  induction ops as [|o ops IH]; intros w Hpo HU pF j HpF Hj.
  - cbn in HpF. left. eauto.
  - inversion Hpo as [|? ? Ho Hpo']; subst. cbn [run_ops] in *.
    pose proof (step_unit w o) as US.
    destruct (step w o) as [w1 x] eqn:Es. cbn [fst] in US.
    assert (HU1 : forall r, In (OpProjectValues pi r) ops ->
              forall p, nth_error (w_projs w1) pi = Some p -> exists u, p_unit p = Some u).
    { intros r Hin q Hq. destruct (nth_error (w_projs w) pi) as [q0|] eqn:Eq0.
      - destruct (US _ _ Eq0) as [q' [Hq' HUq]]. assert (q' = q) by congruence. subst q'.
        destruct (HU r (or_intror Hin) q0 eq_refl) as [u Hu]. exists u. congruence.
      - (* a projection that did not exist before: impossible, the step only projects *)
        exfalso. destruct w as [pp projs]. destruct o as [wu fs| |pi0 r0|pi0 r0]; try contradiction; cbn [step w_projs w_pp] in Es, Eq0.
        + destruct (nth_error projs pi0) as [p0|] eqn:E0.
          * destruct (project pp p0 r0) as [[pp' p'] k]. injection Es as <- _. cbn [w_projs] in Hq.
            apply nth_lt in Hq. rewrite set_nth_length in Hq. apply nth_error_None in Eq0. lia.
          * injection Es as <- _. cbn in Hq. congruence.
        + destruct (nth_error projs pi0) as [p0|] eqn:E0.
          * destruct (project_values pp p0 r0) as [[pp' p'] ks]. injection Es as <- _. cbn [w_projs] in Hq.
            apply nth_lt in Hq. rewrite set_nth_length in Hq. apply nth_error_None in Eq0. lia.
          * injection Es as <- _. cbn in Hq. congruence. }
    specialize (IH w1 Hpo' HU1 pF j).
    destruct (run_ops w1 ops) as [w2 xs]. cbn [fst snd] in *.
    destruct (IH HpF Hj) as [[p1 [Hp1 Hj1]]|[[r Hr]|[y Hy]]].
    2:{ right. left. exists r. now apply handed_plain_cons. }
    2:{ right. right. exists y. now apply handed_unit_cons. }
    destruct w as [pp projs]. destruct o as [wu fs| |pi0 r0|pi0 r0]; try contradiction; cbn [step w_projs w_pp] in *.
    + destruct (nth_error projs pi0) as [p0|] eqn:E0.
      2:{ injection Es as <- _. left. eauto. }
      pose proof (project_cover pp p0 r0 j) as C.
      destruct (project pp p0 r0) as [[pp' p'] k]. injection Es as <- <-. cbn [w_projs fst snd] in *.
      destruct (Nat.eq_dec pi0 pi) as [->|Hne].
      * rewrite (nth_error_set_nth_same _ _ _ _ E0) in Hp1. injection Hp1 as <-.
        destruct (C Hj1) as [H| ->]; [left; eauto|].
        right. left. exists r0, 0. auto.
      * rewrite nth_error_set_nth_other in Hp1 by auto. left. eauto.
    + destruct (nth_error projs pi0) as [p0|] eqn:E0.
      2:{ injection Es as <- _. left. eauto. }
      destruct (Nat.eq_dec pi0 pi) as [->|Hne].
      * destruct (HU r0 (or_introl eq_refl) p0 E0) as [u Hu].
        pose proof (project_values_cover pp p0 r0 u j Hu) as C.
        destruct (project_values pp p0 r0) as [[pp' p'] ks]. injection Es as <- <-. cbn [w_projs fst snd] in *.
        rewrite (nth_error_set_nth_same _ _ _ _ E0) in Hp1. injection Hp1 as <-.
        destruct (C Hj1) as [H|[jj [un [H1 H2]]]]; [left; eauto|].
        right. right. exists (r0, un), 0, ks, jj. auto.
      * destruct (project_values pp p0 r0) as [[pp' p'] ks]. injection Es as <- <-. cbn [w_projs fst snd] in *.
        rewrite nth_error_set_nth_other in Hp1 by auto. left. eauto.
Qed.

(** * no junk: fields that appear after parsing are .config sub-fields named by
    file keys of projected results *)
Definition newby (r : result) (p p' : projection) : Prop :=
  forall i f, nfields p <= i -> nth_error (p_fields p') i = Some f ->
    fi_src f = SCfg /\ exists c, In c (r_cfg r) /\ c_file c = true /\ fi_name f = c_key c.

Lemma newby_same_n r p p' : nfields p' <= nfields p -> newby r p p'.
Proof. intros L i f Hi Hf. apply nth_lt in Hf. unfold nfields in *. lia. Qed.

Lemma newby_trans r p0 p1 p2 : sext p1 p2 -> newby r p0 p1 -> newby r p1 p2 -> newby r p0 p2.
Proof.
  intros S N1 N2 i f Hi Hf. destruct (Nat.lt_ge_cases i (nfields p1)) as [Hlt|Hge].
  - destruct (sext_field_back p1 p2 i f S Hlt Hf) as [f1 [Hf1 [Hn Hs]]].
    destruct (N1 i f1 Hi Hf1) as [A [c B]]. split; [congruence|]. exists c. rewrite Hn. exact B.
  - exact (N2 i f Hge Hf).
Qed.

Lemma newby_static r p p1 p2 : static_eq (p_fields p1) (p_fields p2) -> newby r p p1 -> newby r p p2.
Proof.
  intros S N i f Hi Hf. destruct (static_eq_bwd _ _ _ _ S Hf) as [f1 [Hf1 [Hn Hs]]].
  destruct (N i f1 Hi Hf1) as [A [c B]]. split; [congruence|]. exists c. rewrite Hn. exact B.
Qed.

Lemma run_item_newby r pp p it :
  NoDup (map c_key (r_cfg r)) -> P p -> In it (p_items p) -> newby r p (snd (run_item r (pp, p) it)).
Proof.
  intros Hnd HP Hit. destruct it as [g o|idx|k idx]; cbn [run_item snd].
  - pose proof (config_fold_facts (pp_cfg pp) g o (r_cfg r) p Hnd HP Hit) as FF.
    set (pF := fold_left (config_step (pp_cfg pp) g o) (r_cfg r) p) in *.
    destruct FF as [F_P _ _ _ _ _ F_a _]. assert (TF : TInv pF) by apply F_P.
    intros i f Hi Hf. assert (Hlt : i < nfields pF) by (unfold nfields; eapply nth_lt; eauto).
    destruct (F_a i Hlt) as [[Hlt0 _]|[c [Hc [Hfile [Hig [Hnm _]]]]]]; [lia|].
    destruct (t_sub pF TF g i Hig) as [f' [Hf' Hs]]. assert (f' = f) by congruence. subst f'.
    split; [exact Hs|]. exists c. split; [exact Hc|]. split; [exact Hfile|].
    unfold fname in Hnm. now rewrite Hf in Hnm.
  - destruct (full_extract pp (r_name r)) as [pp' v]. cbn [snd]. apply newby_same_n. reflexivity.
  - apply newby_same_n. reflexivity.
Qed.

Lemma fold_items_newby r items : forall pp p,
  NoDup (map c_key (r_cfg r)) -> P p -> (forall it, In it items -> In it (p_items p)) ->
  Clean (pp_cfg pp) p -> newby r p (snd (fold_left (run_item r) items (pp, p))).
Proof.
  induction items as [|it items IH]; intros pp p Hnd HP Hsub HC; cbn [fold_left].
  - cbn [snd]. apply newby_same_n. lia.
  - pose proof (run_item_more r pp p it Hnd HP (Hsub it (or_introl eq_refl)) HC) as M.
    pose proof (run_item_cfg r pp p it) as Hck.
    pose proof (run_item_newby r pp p it Hnd HP (Hsub it (or_introl eq_refl))) as N1. cbv zeta in M.
    destruct (run_item r (pp, p) it) as [pp1 p1]. cbn [fst snd] in *.
    destruct M as [P1 [S1 [C1 _]]].
    assert (Hsub1 : forall it', In it' items -> In it' (p_items p1)).
    { intros it' Hin. destruct S1 as [-> _]. apply Hsub. now right. }
    rewrite <- Hck in C1.
    pose proof (IH pp1 p1 Hnd P1 Hsub1 C1) as N2.
    pose proof (fold_items_more r items [] pp1 p1 Hnd P1 Hsub1 C1
                  (fun it (H : In it []) => match H with end)) as M2. cbv zeta in M2.
    destruct M2 as [_ [_ [S2 _]]].
    eapply newby_trans; eauto.
Qed.

Lemma populate_newby pp p r :
  NoDup (map c_key (r_cfg r)) -> P p -> Clean (pp_cfg pp) p -> newby r p (snd (populate pp p r)).
Proof.
  intros Hnd HP HC. unfold populate.
  exact (fold_items_newby r (p_items p) pp (clear_row p) Hnd (P_clear_row p HP) (fun it H => H) HC).
Qed.

Lemma static_eq_refl fs : static_eq fs fs.
Proof. intros i. reflexivity. Qed.

Lemma static_eq_trans a b c : static_eq a b -> static_eq b c -> static_eq a c.
Proof. intros H1 H2 i. rewrite H2. apply H1. Qed.

Lemma intern_units_static u units : forall p,
  static_eq (p_fields p) (p_fields (fst (intern_units p u units))).
Proof.
  induction units as [|un units IH]; intros p; cbn [intern_units].
  - apply static_eq_refl.
  - pose proof (intern_row_static (set_row p u un)) as S1.
    destruct (intern_row (set_row p u un)) as [p1 k]. cbn [fst] in S1.
    specialize (IH p1). destruct (intern_units p1 u units) as [p2 ks]. cbn [fst] in *.
    eapply static_eq_trans; [exact S1|exact IH].
Qed.

Lemma project_newby pp p r :
  NoDup (map c_key (r_cfg r)) -> P p -> Clean (pp_cfg pp) p -> newby r p (snd (fst (project pp p r))).
Proof.
  intros Hnd HP HC. unfold project. pose proof (populate_newby pp p r Hnd HP HC) as N.
  destruct (populate pp p r) as [pp1 p1]. cbn [snd] in N.
  pose proof (intern_row_static p1) as S. destruct (intern_row p1) as [p2 k]. cbn [fst snd] in *.
  eapply newby_static; eauto.
Qed.

Lemma project_values_newby pp p r :
  NoDup (map c_key (r_cfg r)) -> P p -> Clean (pp_cfg pp) p -> newby r p (snd (fst (project_values pp p r))).
Proof.
  intros Hnd HP HC. unfold project_values. pose proof (populate_newby pp p r Hnd HP HC) as N.
  destruct (populate pp p r) as [pp1 p1]. cbn [snd] in N. destruct (p_unit p1) as [u|].
  - pose proof (intern_units_static u (r_units r) p1) as S.
    destruct (intern_units p1 u (r_units r)) as [p2 ks]. cbn [fst snd] in *. eapply newby_static; eauto.
  - pose proof (intern_row_static p1) as S. destruct (intern_row p1) as [p2 k]. cbn [fst snd] in *.
    eapply newby_static; eauto.
Qed.

Lemma step_nojunk C E w o pi p0 p1 :
  no_parse o -> op_wf o -> PostInv C E w ->
  nth_error (w_projs w) pi = Some p0 -> nth_error (w_projs (fst (step w o))) pi = Some p1 ->
  forall i f, nfields p0 <= i -> nth_error (p_fields p1) i = Some f ->
    fi_src f = SCfg /\ exists r c, (o = OpProject pi r \/ o = OpProjectValues pi r) /\
                                    In c (r_cfg r) /\ c_file c = true /\ fi_name f = c_key c.
Proof.
  intros Hnp Hwf [I1 I2 I3 I4 I5] Hp0 Hp1 i f Hi Hf.
  assert (Hsame : p1 = p0 -> False).
  { intros ->. apply nth_lt in Hf. unfold nfields in Hi. lia. }
  destruct w as [pp projs]. cbn [w_pp w_projs] in *.
  destruct o as [wu fs| |pi0 r|pi0 r]; [contradiction| | |]; cbn [step w_pp w_projs] in Hp1.
  - destruct (residue pp) as [pp' p]. cbn [fst w_projs] in Hp1.
    rewrite (nth_error_app_old _ _ _ _ Hp0) in Hp1. exfalso. apply Hsame. congruence.
  - destruct (nth_error projs pi0) as [p|] eqn:Ep.
    2:{ cbn in Hp1. exfalso. apply Hsame. congruence. }
    assert (Hin : In p projs) by (eapply nth_error_In; eauto).
    assert (HP : P p) by (rewrite Forall_forall in I1; auto).
    pose proof (I4 p Hin) as HC. rewrite <- I2 in HC.
    pose proof (project_newby pp p r Hwf HP HC) as N.
    destruct (project pp p r) as [[pp' p'] k]. cbn [fst snd w_projs] in *.
    destruct (Nat.eq_dec pi0 pi) as [->|Hne].
    + rewrite (nth_error_set_nth_same _ _ _ _ Ep) in Hp1. injection Hp1 as <-.
      assert (p = p0) by congruence. subst p.
      destruct (N i f Hi Hf) as [A [c B]]. split; [exact A|]. exists r, c. split; [now left|exact B].
    + rewrite nth_error_set_nth_other in Hp1 by auto. exfalso. apply Hsame. congruence.
  - destruct (nth_error projs pi0) as [p|] eqn:Ep.
    2:{ cbn in Hp1. exfalso. apply Hsame. congruence. }
    assert (Hin : In p projs) by (eapply nth_error_In; eauto).
    assert (HP : P p) by (rewrite Forall_forall in I1; auto).
    pose proof (I4 p Hin) as HC. rewrite <- I2 in HC.
    pose proof (project_values_newby pp p r Hwf HP HC) as N.
    destruct (project_values pp p r) as [[pp' p'] ks]. cbn [fst snd w_projs] in *.
    destruct (Nat.eq_dec pi0 pi) as [->|Hne].
    + rewrite (nth_error_set_nth_same _ _ _ _ Ep) in Hp1. injection Hp1 as <-.
      assert (p = p0) by congruence. subst p.
      destruct (N i f Hi Hf) as [A [c B]]. split; [exact A|]. exists r, c. split; [now right|exact B].
    + rewrite nth_error_set_nth_other in Hp1 by auto. exfalso. apply Hsame. congruence.
Qed.

(** every field of the final state beyond those that existed at [w] is a
    .config sub-field named by a file key of a result the stream projected
    through that projection *)
Lemma run_nojunk C E ops : forall w,
  Forall no_parse ops -> Forall op_wf ops -> PostInv C E w ->
  forall pi p0 pF, nth_error (w_projs w) pi = Some p0 ->
    nth_error (w_projs (fst (run_ops w ops))) pi = Some pF ->
  forall i f, nfields p0 <= i -> nth_error (p_fields pF) i = Some f ->
    fi_src f = SCfg /\ exists r c, (In (OpProject pi r) ops \/ In (OpProjectValues pi r) ops) /\
                                    In c (r_cfg r) /\ c_file c = true /\ fi_name f = c_key c.
Proof.
  induction ops as [|o ops IH]; intros w Hnp Hwf HI pi p0 pF Hp0 HpF i f Hi Hf.
  - cbn in HpF. assert (pF = p0) by congruence. subst. apply nth_lt in Hf. unfold nfields in Hi. lia.
  - inversion Hnp as [|? ? Hn1 Hn2]; subst. inversion Hwf as [|? ? Hw1 Hw2]; subst.
    destruct (post_step C E w o Hn1 Hw1 HI) as [I1 S1].
    pose proof (step_nojunk C E w o pi p0) as SN.
    cbn [run_ops] in HpF. destruct (step w o) as [w1 x]. cbn [fst] in *.
    destruct (S1 _ _ Hp0) as [p1 [Hp1 S01]].
    destruct (post_run C E ops w1 Hn2 Hw2 I1) as [_ [S2 _]].
    specialize (IH w1 Hn2 Hw2 I1 pi p1 pF Hp1).
    destruct (run_ops w1 ops) as [w2 xs]. cbn [fst] in *.
    destruct (S2 _ _ Hp1) as [pF' [HpF' S1F]]. assert (pF' = pF) by congruence. subst pF'.
    destruct (Nat.lt_ge_cases i (nfields p1)) as [Hlt|Hge].
    + destruct (sext_field_back p1 pF i f S1F Hlt Hf) as [f1 [Hf1 [Hn Hs]]].
      destruct (SN p1 Hn1 Hw1 HI Hp0 Hp1 i f1 Hi Hf1) as [A [r [c [B [B1 [B2 B3]]]]]].
      split; [congruence|]. exists r, c. split; [|split; [exact B1|split; [exact B2|congruence]]].
      destruct B as [->| ->]; [left|right]; now left.
    + destruct (IH HpF i f Hge Hf) as [A [r [c [B B']]]]. split; [exact A|]. exists r, c. split; [|exact B'].
      destruct B as [B|B]; [left|right]; now right.
Qed.

(** * right after parsing nothing is interned *)
Lemma residue_keys pp : p_keys (snd (residue pp)) = [].
Proof.
  unfold residue. destruct (pp_havecfg pp); cbn [fst].
  - destruct (pp_havefull pp); [reflexivity|]. rewrite residue_add_fullname. reflexivity.
  - rewrite residue_add_config. cbn [fst pp_set_havecfg pp_havefull].
    destruct (pp_havefull pp); [reflexivity|]. rewrite residue_add_fullname. reflexivity.
Qed.

Lemma do_call_keys_nil pp c pp' p : do_call pp c = (pp', Some p) -> p_keys p = [].
Proof.
  destruct c as [[|] fs]; unfold do_call; cbn [fst snd].
  - unfold parse_with_unit, parse. destruct (make_all pp new_projection fs) as [pp1 [p1|]] eqn:E; [|discriminate].
    cbn. intros [= _ <-]. cbn. apply (kstep_make_all _ _ _ _ _ E).
  - unfold parse. intros E. apply (kstep_make_all _ _ _ _ _ E).
Qed.

Lemma proj_of_call_keys c : p_keys (proj_of_call c) = [].
Proof.
  unfold proj_of_call. destruct (do_call new_parser c) as [pp' [p|]] eqn:E; cbn [snd]; [|reflexivity].
  eapply do_call_keys_nil; eauto.
Qed.

Lemma after_parsing_no_keys calls :
  Forall call_ok calls ->
  let w0 := fst (run_ops new_world (parse_ops calls ++ [OpResidue])) in
  forall p, In p (w_projs w0) -> p_keys p = [].
Proof.
  intros Hok. cbv zeta. rewrite run_ops_app.
  pose proof (parse_ops_projs calls new_world Hok) as Hp.
  destruct (run_ops new_world (parse_ops calls)) as [w1 xs1]. cbn [fst new_world w_projs app] in Hp.
  cbn [run_ops step]. pose proof (residue_keys (w_pp w1)) as RK.
  destruct (residue (w_pp w1)) as [pp' pr]. cbn [fst snd w_projs] in *. rewrite Hp.
  intros p Hin. apply in_app_or in Hin as [Hin|[<-|[]]]; [|exact RK].
  apply in_map_iff in Hin as [c [<- _]]. apply proj_of_call_keys.
Qed.

(** * two streams over the same Parse calls *)
(** fields correspond when they have the same name and kind and both or
    neither are the projection's unit field *)
Definition same_field (p : projection) (idx : nat) (f : finfo) (p' : projection) (idx' : nat) (f' : finfo) : Prop :=
  fi_name f = fi_name f' /\ fi_src f = fi_src f' /\ (p_unit p = Some idx <-> p_unit p' = Some idx').

(** one projection's Keys in two final states are renamings of each other *)
Record key_renaming (p p' : projection) (phi psi : nat -> nat) : Prop := mkKR {
  kr_fwd : forall k, k < length (p_keys p) -> phi k < length (p_keys p') /\ psi (phi k) = k;
  kr_bwd : forall k', k' < length (p_keys p') -> psi k' < length (p_keys p) /\ phi (psi k') = k';
  kr_reads : forall k idx f idx' f', k < length (p_keys p) ->
    nth_error (p_fields p) idx = Some f -> nth_error (p_fields p') idx' = Some f' ->
    same_field p idx f p' idx' f' -> key_get p k idx = key_get p' (phi k) idx';
  kr_fields_fwd : forall idx f, nth_error (p_fields p) idx = Some f ->
    exists idx' f', nth_error (p_fields p') idx' = Some f' /\ same_field p idx f p' idx' f';
  kr_fields_bwd : forall idx' f', nth_error (p_fields p') idx' = Some f' ->
    exists idx f, nth_error (p_fields p) idx = Some f /\ same_field p idx f p' idx' f'
}.

(** [key_renaming] spelled out *)
Lemma key_renaming_spelled p p' phi psi : key_renaming p p' phi psi ->
  (forall k, k < length (p_keys p) -> phi k < length (p_keys p') /\ psi (phi k) = k) /\
  (forall k', k' < length (p_keys p') -> psi k' < length (p_keys p) /\ phi (psi k') = k') /\
  (forall k idx f idx' f', k < length (p_keys p) ->
     nth_error (p_fields p) idx = Some f -> nth_error (p_fields p') idx' = Some f' ->
     fi_name f = fi_name f' -> fi_src f = fi_src f' -> (p_unit p = Some idx <-> p_unit p' = Some idx') ->
     key_get p k idx = key_get p' (phi k) idx') /\
  (forall idx f, nth_error (p_fields p) idx = Some f ->
     exists idx' f', nth_error (p_fields p') idx' = Some f' /\
       fi_name f = fi_name f' /\ fi_src f = fi_src f' /\ (p_unit p = Some idx <-> p_unit p' = Some idx')) /\
  (forall idx' f', nth_error (p_fields p') idx' = Some f' ->
     exists idx f, nth_error (p_fields p) idx = Some f /\
       fi_name f = fi_name f' /\ fi_src f = fi_src f' /\ (p_unit p = Some idx <-> p_unit p' = Some idx')).
Proof.
  intros [A B C D E']. split; [exact A|]. split; [exact B|]. split; [|split; [exact D|exact E']].
  intros k idx f idx' f' Hk Hf Hf' Hn Hs Hu. apply (C k idx f idx' f' Hk Hf Hf'). repeat split; auto; apply Hu.
Qed.

Section TwoStreams.
Variable calls : list call.
Hypothesis calls_ok : Forall call_ok calls.

Let C := pp_cfg (parser_after calls).
Let E := pp_full (parser_after calls).
Let w0 := fst (run_ops new_world (parse_ops calls ++ [OpResidue])).

(** a field of one final state has a corresponding field in the other, as soon
    as every result projected here was projected there *)
Lemma field_partner opsA opsB pi p0 pA pB :
  Forall proj_only opsA -> Forall op_wf opsA -> Forall proj_only opsB -> Forall op_wf opsB ->
  nth_error (w_projs w0) pi = Some p0 ->
  nth_error (w_projs (fst (run_ops w0 opsA))) pi = Some pA ->
  nth_error (w_projs (fst (run_ops w0 opsB))) pi = Some pB ->
  (forall r, In (OpProject pi r) opsA -> exists i k, nth_error opsB i = Some (OpProject pi r) /\
                 nth_error (snd (run_ops w0 opsB)) i = Some (OutKeys [k])) ->
  (forall r, In (OpProjectValues pi r) opsA -> exists i ks, nth_error opsB i = Some (OpProjectValues pi r) /\
                 nth_error (snd (run_ops w0 opsB)) i = Some (OutKeys ks)) ->
  (forall r, In (OpProjectValues pi r) opsA -> p_unit p0 <> None) ->
  forall idx f, nth_error (p_fields pA) idx = Some f ->
    exists idx' f', nth_error (p_fields pB) idx' = Some f' /\ same_field pA idx f pB idx' f'.
Proof.
  intros HpoA HwfA HpoB HwfB Hp0 HpA HpB HinP HinV HV idx f Hf.
  destruct (after_parsing calls calls_ok) as [I0 _]. cbv zeta in I0. fold w0 C E in I0.
  pose proof (proj_only_no_parse _ HpoA) as HnpA. pose proof (proj_only_no_parse _ HpoB) as HnpB.
  destruct (post_run C E opsA w0 HnpA HwfA I0) as [IA [SA _]].
  destruct (post_run C E opsB w0 HnpB HwfB I0) as [IB [SB _]].
  pose proof (run_unit opsA w0) as UA. pose proof (run_unit opsB w0) as UB.
  destruct (SA _ _ Hp0) as [pA' [HpA' S0A]]. assert (pA' = pA) by congruence. subst pA'.
  destruct (SB _ _ Hp0) as [pB' [HpB' S0B]]. assert (pB' = pB) by congruence. subst pB'.
  destruct (UA _ _ Hp0) as [pA' [HpA'' U0A]]. assert (pA' = pA) by congruence. subst pA'.
  destruct (UB _ _ Hp0) as [pB' [HpB'' U0B]]. assert (pB' = pB) by congruence. subst pB'.
  assert (PA : P pA) by (destruct IA as [Q _ _ _ _]; rewrite Forall_forall in Q; apply Q; eapply nth_error_In; eauto).
  assert (PB : P pB) by (destruct IB as [Q _ _ _ _]; rewrite Forall_forall in Q; apply Q; eapply nth_error_In; eauto).
  assert (P0 : P p0).
  { destruct I0 as [Q _ _ _ _]. rewrite Forall_forall in Q. apply Q. eapply nth_error_In; eauto. }
  assert (CA : Clean C pA) by (destruct IA as [_ _ _ Q _]; apply Q; eapply nth_error_In; eauto).
  assert (Hu0 : forall u, p_unit p0 = Some u -> u < nfields p0).
  { intros u Hu. pose proof (after_parsing_units calls calls_ok pi p0 Hp0) as Sh.
    unfold unit_shape in Sh. destruct (with_unit calls pi).
    - destruct Sh as [u' [fu [HU [Hfu _]]]]. assert (u' = u) by congruence. subst. unfold nfields. eapply nth_lt; eauto.
    - congruence. }
  destruct (Nat.lt_ge_cases idx (nfields p0)) as [Hlt|Hge].
  - (* a field that exists since parsing: itself *)
    destruct (sext_field_back p0 pA idx f S0A Hlt Hf) as [f0 [Hf0 [Hn Hs]]].
    destruct (sext_field p0 pB idx f0 S0B Hf0) as [f' [Hf' [Hn' Hs']]].
    exists idx, f'. split; [exact Hf'|]. split; [congruence|]. split; [congruence|].
    rewrite U0A, U0B. tauto.
  - (* a sub-field created during the stream *)
    destruct (run_nojunk C E opsA w0 HnpA HwfA I0 pi p0 pA Hp0 HpA idx f Hge Hf) as [Hsrc [r [c [Hop [Hc [Hfile Hnm]]]]]].
    assert (TA : TInv pA) by apply PA. assert (TB : TInv pB) by apply PB.
    destruct (cv_cfg pA TA idx f Hf Hsrc) as [g [o [Hig Hit]]].
    assert (Hm : mem (c_key c) C = false).
    { pose proof (CA g idx Hig) as Hm. unfold fname in Hm. rewrite Hf in Hm. congruence. }
    assert (HitB : In (PConfig g o) (p_items pB)).
    { destruct S0A as [EA _]. destruct S0B as [EB _]. rewrite EB, <- EA. exact Hit. }
    assert (HasB : Has C r pB g).
    { destruct Hop as [Hop|Hop].
      - destruct (HinP r Hop) as [i [k [Ho Hx]]].
        destruct (key_final C E opsB w0 i pi r k HnpB HwfB I0 Ho Hx) as [pB' [HpB3 [_ [_ [_ [_ H]]]]]].
        assert (pB' = pB) by congruence. subst pB'. eauto.
      - destruct (HinV r Hop) as [i [ks [Ho Hx]]].
        pose proof (after_parsing_units calls calls_ok pi p0 Hp0) as Sh.
        destruct (p_unit p0) as [u|] eqn:EU.
        + assert (HU : exists q, nth_error (w_projs w0) pi = Some q /\ p_unit q = Some u /\ u < nfields q) by eauto.
          destruct (keys_final_u C E opsB w0 i pi r ks u HnpB HwfB I0 HU Ho Hx) as [pB' [HpB3 [_ [_ [_ [_ H]]]]]].
          assert (pB' = pB) by congruence. subst pB'. eauto.
        + exfalso. exact (HV r Hop eq_refl). }
    destruct (HasB c Hc Hfile Hm) as [idx' [Hig' Hnm']].
    destruct (t_sub pB TB g idx' Hig') as [f' [Hf' Hs']].
    exists idx', f'. split; [exact Hf'|]. split.
    { unfold fname in Hnm'. rewrite Hf' in Hnm'. congruence. }
    split; [congruence|].
    rewrite U0A, U0B. split; intros HU.
    + specialize (Hu0 idx HU). lia.
    + exfalso. assert (Hlt' : idx' < nfields p0) by (apply Hu0; exact HU).
      pose proof (after_parsing_units calls calls_ok pi p0 Hp0) as Sh. unfold unit_shape in Sh.
      destruct (with_unit calls pi); [|congruence].
      destruct Sh as [u' [fu [HU' [Hfu [Hsu _]]]]]. assert (u' = idx') by congruence. subst u'.
      destruct (sext_field p0 pB idx' fu S0B Hfu) as [f2 [Hf2 [_ Hs2]]]. congruence.
Qed.


(** ** a call on an existing projection returns Keys *)
Lemma project_out ops : forall w i pi r,
  nth_error ops i = Some (OpProject pi r) -> (exists p, nth_error (w_projs w) pi = Some p) ->
  exists k, nth_error (snd (run_ops w ops)) i = Some (OutKeys [k]).
Proof.
  induction ops as [|o ops IH]; intros w i pi r Ho [p Hp]; [destruct i; discriminate|].
  cbn [run_ops]. destruct i as [|i].
  - cbn in Ho. injection Ho as ->. cbn [step]. rewrite Hp.
    destruct (project (w_pp w) p r) as [[pp' p'] k]. destruct (run_ops _ ops) as [w2 xs]. cbn. eauto.
  - pose proof (step_unit w o) as US. destruct (step w o) as [w1 x]. cbn [fst] in US.
    destruct (US _ _ Hp) as [p1 [Hp1 _]]. specialize (IH w1 i pi r Ho (ex_intro _ p1 Hp1)).
    destruct (run_ops w1 ops) as [w2 xs]. exact IH.
Qed.

Lemma project_values_out ops : forall w i pi r,
  nth_error ops i = Some (OpProjectValues pi r) -> (exists p, nth_error (w_projs w) pi = Some p) ->
  exists ks, nth_error (snd (run_ops w ops)) i = Some (OutKeys ks).
Proof.
  induction ops as [|o ops IH]; intros w i pi r Ho [p Hp]; [destruct i; discriminate|].
  cbn [run_ops]. destruct i as [|i].
  - cbn in Ho. injection Ho as ->. cbn [step]. rewrite Hp.
    destruct (project_values (w_pp w) p r) as [[pp' p'] ks]. destruct (run_ops _ ops) as [w2 xs]. cbn. eauto.
  - pose proof (step_unit w o) as US. destruct (step w o) as [w1 x]. cbn [fst] in US.
    destruct (US _ _ Hp) as [p1 [Hp1 _]]. specialize (IH w1 i pi r Ho (ex_intro _ p1 Hp1)).
    destruct (run_ops w1 ops) as [w2 xs]. exact IH.
Qed.

(** ** the two streams project the same SET of results through projection [pi] *)
Variables opsA opsB : list op.
Hypothesis HpoA : Forall proj_only opsA.
Hypothesis HpoB : Forall proj_only opsB.
Hypothesis HwfA : Forall op_wf opsA.
Hypothesis HwfB : Forall op_wf opsB.
Variable pi : nat.
Variable p0 : projection.
Hypothesis Hp0 : nth_error (w_projs w0) pi = Some p0.
Hypothesis sameP : forall r, In (OpProject pi r) opsA <-> In (OpProject pi r) opsB.
Hypothesis sameV : forall r, In (OpProjectValues pi r) opsA <-> In (OpProjectValues pi r) opsB.

Let wA := fst (run_ops w0 opsA).
Let xsA := snd (run_ops w0 opsA).
Let wB := fst (run_ops w0 opsB).
Let xsB := snd (run_ops w0 opsB).

Lemma I0 : PostInv C E w0.
Proof. destruct (after_parsing calls calls_ok) as [I _]. exact I. Qed.

Lemma final_proj ops : Forall proj_only ops -> Forall op_wf ops ->
  exists pF, nth_error (w_projs (fst (run_ops w0 ops))) pi = Some pF /\ P pF /\ sext p0 pF /\ p_unit pF = p_unit p0.
Proof.
  intros Hpo Hwf. destruct (post_run C E ops w0 (proj_only_no_parse _ Hpo) Hwf I0) as [IF [SF _]].
  destruct (SF _ _ Hp0) as [pF [HpF S0F]]. destruct (run_unit ops w0 _ _ Hp0) as [pF' [HpF' U]].
  assert (pF' = pF) by congruence. subst pF'. exists pF. split; [exact HpF|]. split; [|split; auto].
  destruct IF as [Q _ _ _ _]. rewrite Forall_forall in Q. apply Q. eapply nth_error_In; eauto.
Qed.

Lemma in_handed_plain ops r : In (OpProject pi r) ops -> exists k, handed_plain ops (snd (run_ops w0 ops)) pi r k.
Proof.
  intros Hin. apply In_nth_error in Hin as [i Hi].
  destruct (project_out ops w0 i pi r Hi (ex_intro _ p0 Hp0)) as [k Hk]. exists k, i. auto.
Qed.

Lemma handed_plain_in ops xs r k : handed_plain ops xs pi r k -> In (OpProject pi r) ops.
Proof. intros [i [Hi _]]. eapply nth_error_In; eauto. Qed.

Lemma handed_unit_in ops xs x k : handed_unit ops xs pi x k -> In (OpProjectValues pi (fst x)) ops.
Proof. intros [i [ks [j [Hi _]]]]. eapply nth_error_In; eauto. Qed.

(** *** projections used through Project only (rows, columns, residue) *)
Section Plain.
Hypothesis noVA : forall r, ~ In (OpProjectValues pi r) opsA.

Lemma noVB : forall r, ~ In (OpProjectValues pi r) opsB.
Proof. intros r H. apply (noVA r). now apply sameV. Qed.

Lemma plain_reads ops r k : Forall proj_only ops -> Forall op_wf ops ->
  handed_plain ops (snd (run_ops w0 ops)) pi r k ->
  forall pF, nth_error (w_projs (fst (run_ops w0 ops))) pi = Some pF ->
  k < length (p_keys pF) /\ forall idx f, nth_error (p_fields pF) idx = Some f -> key_get pF k idx = want E r f.
Proof.
  intros Hpo Hwf [i [Ho Hx]] pF HpF.
  destruct (key_final C E ops w0 i pi r k (proj_only_no_parse _ Hpo) Hwf I0 Ho Hx) as [pF' [HpF' [_ [_ [L [G _]]]]]].
  assert (pF' = pF) by congruence. subst pF'. auto.
Qed.

Lemma plain_cover ops : Forall proj_only ops -> (forall r, ~ In (OpProjectValues pi r) ops) ->
  forall pF k, nth_error (w_projs (fst (run_ops w0 ops))) pi = Some pF -> k < length (p_keys pF) ->
  exists r, handed_plain ops (snd (run_ops w0 ops)) pi r k.
Proof.
  intros Hpo HnoV pF k HpF Hk.
  assert (HU : forall r, In (OpProjectValues pi r) ops ->
            forall p, nth_error (w_projs w0) pi = Some p -> exists u, p_unit p = Some u).
  { intros r Hin. exfalso. eapply HnoV; eauto. }
  destruct (run_cover pi ops w0 Hpo HU pF k HpF Hk) as [[p [Hp Hlt]]|[H|[x Hx]]]; auto.
  - assert (p = p0) by congruence. subst p.
    rewrite (after_parsing_no_keys calls calls_ok p0) in Hlt by (eapply nth_error_In; eauto). cbn in Hlt. lia.
  - exfalso. eapply HnoV. eapply handed_unit_in; eauto.
Qed.

Lemma same_field_sym p idx f p' idx' f' : same_field p idx f p' idx' f' -> same_field p' idx' f' p idx f.
Proof. intros [H1 [H2 H3]]. split; [auto|split; [auto|tauto]]. Qed.

(** two streams that project the same set of results through [pi] (by Project)
    end with Key sets that are renamings of each other: the bijection maps the
    Key a result got in one stream to the Key the same result got in the other *)
Theorem plain_renaming :
  exists pA pB phi psi,
    nth_error (w_projs wA) pi = Some pA /\ nth_error (w_projs wB) pi = Some pB /\
    key_renaming pA pB phi psi /\
    (forall r k k', handed_plain opsA xsA pi r k -> handed_plain opsB xsB pi r k' -> k' = phi k /\ k = psi k').
Proof.
  destruct (final_proj opsA HpoA HwfA) as [pA [HpA [PA [SA UA]]]].
  destruct (final_proj opsB HpoB HwfB) as [pB [HpB [PB [SB UB]]]].
  fold wA in HpA. fold wB in HpB.
  assert (FAB : forall idx f, nth_error (p_fields pA) idx = Some f ->
            exists idx' f', nth_error (p_fields pB) idx' = Some f' /\ same_field pA idx f pB idx' f').
  { apply (field_partner opsA opsB pi p0 pA pB HpoA HwfA HpoB HwfB Hp0 HpA HpB).
    - intros r Hin. apply sameP in Hin. destruct (in_handed_plain opsB r Hin) as [k [i H]]. eauto.
    - intros r Hin. exfalso. eapply noVA; eauto.
    - intros r Hin. exfalso. eapply noVA; eauto. }
  assert (FBA : forall idx' f', nth_error (p_fields pB) idx' = Some f' ->
            exists idx f, nth_error (p_fields pA) idx = Some f /\ same_field pA idx f pB idx' f').
  { intros idx' f' Hf'.
    destruct (field_partner opsB opsA pi p0 pB pA HpoB HwfB HpoA HwfA Hp0 HpB HpA) with (idx := idx') (f := f')
      as [idx [f [Hf Hsf]]]; auto.
    - intros r Hin. apply sameP in Hin. destruct (in_handed_plain opsA r Hin) as [k [i H]]. eauto.
    - intros r Hin. exfalso. eapply noVB; eauto.
    - intros r Hin. exfalso. eapply noVB; eauto.
    - exists idx, f. split; auto. now apply same_field_sym. }
  destruct (renaming_exists result pA pB (handed_plain opsA xsA pi) (handed_plain opsB xsB pi)
              (fun r _ f => want E r f) (fun r _ f => want E r f)
              (fun idx f idx' f' => same_field pA idx f pB idx' f') (proj1 PA) (proj1 PB))
    as [phi [psi [H1 [H2 [_ [_ [H4 H5]]]]]]]; auto.
  - intros r k H. exact (plain_reads opsA r k HpoA HwfA H pA HpA).
  - intros r k H. exact (plain_reads opsB r k HpoB HwfB H pB HpB).
  - intros k Hk. exact (plain_cover opsA HpoA noVA pA k HpA Hk).
  - intros k Hk. exact (plain_cover opsB HpoB noVB pB k HpB Hk).
  - intros r. split; intros [k H].
    + apply in_handed_plain. apply sameP. eapply handed_plain_in; eauto.
    + apply in_handed_plain. apply sameP. eapply handed_plain_in; eauto.
  - intros idx f idx' f' r _ _ [Hn [Hs _]]. symmetry. now apply want_static.
  - exists pA, pB, phi, psi. split; [exact HpA|]. split; [exact HpB|]. split; [|exact H4].
    constructor; auto.
Qed.
End Plain.

(** *** the projection used through ProjectValues (tables, by unit) *)
Section Unit.
Variable u : nat.
Hypothesis HU0 : p_unit p0 = Some u.
Hypothesis noPA : forall r, ~ In (OpProject pi r) opsA.

Lemma noPB : forall r, ~ In (OpProject pi r) opsB.
Proof. intros r H. apply (noPA r). now apply sameP. Qed.

Lemma u_lt : u < nfields p0.
Proof.
  pose proof (after_parsing_units calls calls_ok pi p0 Hp0) as Sh.
  unfold unit_shape in Sh. destruct (with_unit calls pi).
  - destruct Sh as [u' [fu [HU [Hfu _]]]]. assert (u' = u) by congruence. subst. unfold nfields. eapply nth_lt; eauto.
  - congruence.
Qed.

Lemma Forall2_nth_l {A B} (R : A -> B -> Prop) l1 l2 :
  Forall2 R l1 l2 -> forall j x, nth_error l1 j = Some x -> exists y, nth_error l2 j = Some y /\ R x y.
Proof.
  induction 1 as [|a b l1 l2 H _ IH]; intros [|j] x Hx; try discriminate.
  - injection Hx as <-. exists b. split; auto.
  - cbn in Hx. apply IH in Hx. exact Hx.
Qed.

Lemma Forall2_len {A B} (R : A -> B -> Prop) l1 l2 : Forall2 R l1 l2 -> length l1 = length l2.
Proof. induction 1; cbn; auto. Qed.

Lemma unit_final ops i r ks : Forall proj_only ops -> Forall op_wf ops ->
  nth_error ops i = Some (OpProjectValues pi r) -> nth_error (snd (run_ops w0 ops)) i = Some (OutKeys ks) ->
  forall pF, nth_error (w_projs (fst (run_ops w0 ops))) pi = Some pF ->
  Forall2 (fun k un => k < length (p_keys pF) /\
             forall idx f, nth_error (p_fields pF) idx = Some f -> key_get pF k idx = wantu E r u un idx f)
          ks (r_units r).
Proof.
  intros Hpo Hwf Ho Hx pF HpF.
  assert (HU : exists q, nth_error (w_projs w0) pi = Some q /\ p_unit q = Some u /\ u < nfields q).
  { exists p0. split; [exact Hp0|]. split; [exact HU0|exact u_lt]. }
  destruct (keys_final_u C E ops w0 i pi r ks u (proj_only_no_parse _ Hpo) Hwf I0 HU Ho Hx)
    as [pF' [HpF' [_ [_ [_ [FF _]]]]]].
  assert (pF' = pF) by congruence. subst pF'. exact FF.
Qed.

Lemma unit_reads ops x k : Forall proj_only ops -> Forall op_wf ops ->
  handed_unit ops (snd (run_ops w0 ops)) pi x k ->
  forall pF, nth_error (w_projs (fst (run_ops w0 ops))) pi = Some pF ->
  k < length (p_keys pF) /\
  forall idx f, nth_error (p_fields pF) idx = Some f -> key_get pF k idx = wantu E (fst x) u (snd x) idx f.
Proof.
  intros Hpo Hwf [i [ks [j [Ho [Hx [Hj Hun]]]]]] pF HpF.
  pose proof (unit_final ops i (fst x) ks Hpo Hwf Ho Hx pF HpF) as FF.
  destruct (Forall2_nth_l _ _ _ FF j k Hj) as [un [Hun' H]]. assert (un = snd x) by congruence. subst un. exact H.
Qed.

Lemma in_handed_unit ops r j un : Forall proj_only ops -> Forall op_wf ops ->
  In (OpProjectValues pi r) ops -> nth_error (r_units r) j = Some un ->
  exists k, handed_unit ops (snd (run_ops w0 ops)) pi (r, un) k.
Proof.
  intros Hpo Hwf Hin Hun. apply In_nth_error in Hin as [i Hi].
  destruct (project_values_out ops w0 i pi r Hi (ex_intro _ p0 Hp0)) as [ks Hks].
  destruct (final_proj ops Hpo Hwf) as [pF [HpF _]].
  pose proof (unit_final ops i r ks Hpo Hwf Hi Hks pF HpF) as FF.
  apply Forall2_len in FF.
  destruct (nth_error ks j) as [k|] eqn:Ek.
  2:{ apply nth_error_None in Ek. apply nth_lt in Hun. lia. }
  exists k, i, ks, j. auto.
Qed.

Lemma unit_cover ops : Forall proj_only ops -> (forall r, ~ In (OpProject pi r) ops) ->
  forall pF k, nth_error (w_projs (fst (run_ops w0 ops))) pi = Some pF -> k < length (p_keys pF) ->
  exists x, handed_unit ops (snd (run_ops w0 ops)) pi x k.
Proof.
  intros Hpo HnoP pF k HpF Hk.
  assert (HU : forall r, In (OpProjectValues pi r) ops ->
            forall p, nth_error (w_projs w0) pi = Some p -> exists u, p_unit p = Some u).
  { intros r Hin p Hp. assert (p = p0) by congruence. subst. eauto. }
  destruct (run_cover pi ops w0 Hpo HU pF k HpF Hk) as [[p [Hp Hlt]]|[[r Hr]|H]]; auto.
  - assert (p = p0) by congruence. subst p.
    rewrite (after_parsing_no_keys calls calls_ok p0) in Hlt by (eapply nth_error_In; eauto). cbn in Hlt. lia.
  - exfalso. eapply HnoP. eapply handed_plain_in; eauto.
Qed.

(** two streams that project the same set of results through [pi] (by
    ProjectValues) end with Key sets that are renamings of each other: the
    bijection maps the Key measurement [j] of a result got in one stream to
    the Key the measurement with the same unit of the same result got in the
    other *)
Theorem unit_renaming :
  exists pA pB phi psi,
    nth_error (w_projs wA) pi = Some pA /\ nth_error (w_projs wB) pi = Some pB /\
    key_renaming pA pB phi psi /\
    (forall x k k', handed_unit opsA xsA pi x k -> handed_unit opsB xsB pi x k' -> k' = phi k /\ k = psi k').
Proof.
  destruct (final_proj opsA HpoA HwfA) as [pA [HpA [PA [SA UA]]]].
  destruct (final_proj opsB HpoB HwfB) as [pB [HpB [PB [SB UB]]]].
  fold wA in HpA. fold wB in HpB.
  assert (Hnn : p_unit p0 <> None) by congruence.
  assert (FAB : forall idx f, nth_error (p_fields pA) idx = Some f ->
            exists idx' f', nth_error (p_fields pB) idx' = Some f' /\ same_field pA idx f pB idx' f').
  { apply (field_partner opsA opsB pi p0 pA pB HpoA HwfA HpoB HwfB Hp0 HpA HpB); auto.
    - intros r Hin. exfalso. eapply noPA; eauto.
    - intros r Hin. apply sameV in Hin. apply In_nth_error in Hin as [i Hi].
      destruct (project_values_out opsB w0 i pi r Hi (ex_intro _ p0 Hp0)) as [ks Hks]. eauto. }
  assert (FBA : forall idx' f', nth_error (p_fields pB) idx' = Some f' ->
            exists idx f, nth_error (p_fields pA) idx = Some f /\ same_field pA idx f pB idx' f').
  { intros idx' f' Hf'.
    destruct (field_partner opsB opsA pi p0 pB pA HpoB HwfB HpoA HwfA Hp0 HpB HpA) with (idx := idx') (f := f')
      as [idx [f [Hf Hsf]]]; auto.
    - intros r Hin. exfalso. eapply noPB; eauto.
    - intros r Hin. apply sameV in Hin. apply In_nth_error in Hin as [i Hi].
      destruct (project_values_out opsA w0 i pi r Hi (ex_intro _ p0 Hp0)) as [ks Hks]. eauto.
    - exists idx, f. split; auto. now apply same_field_sym. }
  destruct (renaming_exists (result * bytes) pA pB (handed_unit opsA xsA pi) (handed_unit opsB xsB pi)
              (fun x idx f => wantu E (fst x) u (snd x) idx f) (fun x idx f => wantu E (fst x) u (snd x) idx f)
              (fun idx f idx' f' => same_field pA idx f pB idx' f') (proj1 PA) (proj1 PB))
    as [phi [psi [H1 [H2 [_ [_ [H4 H5]]]]]]]; auto.
  - intros x k H. exact (unit_reads opsA x k HpoA HwfA H pA HpA).
  - intros x k H. exact (unit_reads opsB x k HpoB HwfB H pB HpB).
  - intros k Hk. exact (unit_cover opsA HpoA noPA pA k HpA Hk).
  - intros k Hk. exact (unit_cover opsB HpoB noPB pB k HpB Hk).
  - intros [r un]. split; intros [k [i [ks [j [Ho [Hx [Hj Hun]]]]]]]; cbn [fst snd] in *.
    + eapply in_handed_unit; eauto. apply sameV. eapply nth_error_In; eauto.
    + eapply in_handed_unit; eauto. apply sameV. eapply nth_error_In; eauto.
  - intros idx f idx' f' x _ _ [Hn [Hs Hiff]]. unfold wantu. rewrite UA, UB, HU0 in Hiff.
    destruct (Nat.eqb_spec idx u) as [->|Hne], (Nat.eqb_spec idx' u) as [->|Hne']; auto.
    + exfalso. apply Hne'. destruct Hiff as [Hi _]. specialize (Hi eq_refl). congruence.
    + exfalso. apply Hne. destruct Hiff as [_ Hi]. specialize (Hi eq_refl). congruence.
    + symmetry. now apply want_static.
  - exists pA, pB, phi, psi. split; [exact HpA|]. split; [exact HpB|]. split; [|exact H4].
    constructor; auto.
Qed.
End Unit.

End TwoStreams.
