(** The centre of the assume-nothing summary is the binary64 R8 interpolation
    a + frac*(b - a) at p = 1/2 (Model/StatsF.v [percentile_sorted_f]). This
    file proves, through Flocq, that for a sorted sample of n < 2^50 finite
    values
      - the position 1/3 + 1/2*(n + 1/3), computed in binary64, has integer
        part n/2, or (n odd) possibly (n+1)/2 with fraction exactly 0;
      - math.Modf splits it exactly;
      - the interpolated value lies between the two order statistics used,
        provided their difference does not overflow ([median_no_overflow]);
    hence x_(max(1, n/2)) <= median <= x_(n/2 + 1) (1-based), and with the
    band facts of Proofs/BenchMathSummary.v the interval ends of
    AssumeNothing.Summary bracket the centre.
    Real-number reasoning: the standard library's axioms of the classical
    reals appear in Print Assumptions. *)
From Coq Require Import ZArith Reals Lia Lra Bool List Sorting.Sorted.
From Flocq Require Import Core BinarySingleNaN Relative Plus_error Mult_error.
From Perf Require Import Base.Bytes Base.B64 Base.B64Order Model.StatsF Model.MoreMathU Model.BenchMath
     Proofs.B64Flocq Proofs.LegacyMean Proofs.BenchMathScale Proofs.BenchMath Proofs.BenchMathSummary.
Import ListNotations.
Local Open Scope R_scope.

(** * the interpolation on real numbers *)
Definition u53 : R := bpow radix2 (-53).

Lemma u53_pos : 0 < u53.
Proof. apply bpow_gt_0. Qed.
Lemma u53_lt1 : u53 < 1.
Proof. unfold u53. change 1 with (bpow radix2 0). apply bpow_lt. lia. Qed.
Lemma two_u53 : bpow radix2 (-52) = 2 * u53.
Proof. unfold u53. change (-52)%Z with (1 + -53)%Z. rewrite bpow_plus. reflexivity. Qed.

(** relative error of rounding to nearest in the normal range *)
Lemma RN_rel_up y : bpow radix2 (-1022) <= y -> RN y <= (1 + u53) * y.
Proof.
  intros Hy. assert (Hpos : 0 < y) by (pose proof (bpow_gt_0 radix2 (-1022)); lra).
  pose proof (relative_error_N_FLT radix2 (-1074) 53 b64_prec_gt_0 (fun x => negb (Z.even x)) y) as H.
  change (-1074 + 53 - 1)%Z with (-1022)%Z in H. rewrite (Rabs_pos_eq y) in H by lra.
  specialize (H Hy). change (- (53) + 1)%Z with (-52)%Z in H. rewrite two_u53 in H.
  rewrite <- fexp64_FLT in H.
  apply Rabs_le_inv in H. lra.
Qed.

Lemma interp_real a b f :
  F64 a -> F64 b -> a <= b -> 0 <= f <= 1 - bpow radix2 (-52) ->
  0 <= RN (f * RN (b - a)) /\ a + RN (f * RN (b - a)) <= b.
Proof.
  intros Fa Fb Hab [Hf0 Hf1]. rewrite two_u53 in Hf1.
  pose proof u53_pos as Hu. pose proof u53_lt1 as Hu1.
  set (y := b - a). assert (Hy : 0 <= y) by (unfold y; lra).
  set (d := RN y). assert (Hd : 0 <= d) by (apply RN_nonneg; exact Hy).
  assert (Fd : F64 d) by (apply generic_format_round; typeclasses eauto).
  split; [apply RN_nonneg; nra|].
  cut (RN (f * d) <= y); [unfold y; lra|].
  destruct (generic_format_EM radix2 fexp64 y) as [Fy|NFy].
  - (* exact difference *)
    unfold d. rewrite (RN_id y Fy). rewrite <- (RN_id y Fy) at 2. apply RN_le. nra.
  - (* inexact difference: it is in the normal range *)
    assert (Hbig : bpow radix2 (53 + -1074) < y).
    { apply Rnot_le_lt. intros Hle. apply NFy. unfold y, Rminus.
      apply (FLT_format_plus_small radix2 (-1074) 53 b (- a)).
      - exact Fb.
      - apply generic_format_opp. exact Fa.
      - fold (b - a). fold y. rewrite Rabs_pos_eq; auto. }
    change (53 + -1074)%Z with (-1021)%Z in Hbig.
    assert (H1022 : bpow radix2 (-1022) < bpow radix2 (-1021)) by (apply bpow_lt; lia).
    assert (Hdy : d <= (1 + u53) * y) by (apply RN_rel_up; lra).
    destruct (Rle_or_lt (bpow radix2 (-1022)) (f * d)) as [Hn|Hs].
    + pose proof (RN_rel_up (f * d) Hn) as Hp.
      apply Rle_trans with (1 := Hp).
      assert (E : (1 + u53) * (f * d) <= (1 + u53) * ((1 - 2 * u53) * ((1 + u53) * y))).
      { apply Rmult_le_compat_l; [lra|]. apply Rle_trans with ((1 - 2 * u53) * d).
        - apply Rmult_le_compat_r; lra.
        - apply Rmult_le_compat_l; lra. }
      apply Rle_trans with (1 := E).
      replace ((1 + u53) * ((1 - 2 * u53) * ((1 + u53) * y)))
        with (y - (3 * u53 * u53 + 2 * u53 * u53 * u53) * y) by ring.
      assert (0 <= (3 * u53 * u53 + 2 * u53 * u53 * u53) * y) by (apply Rmult_le_pos; nra).
      lra.
    + apply Rle_trans with (bpow radix2 (-1022)); [|lra].
      rewrite <- (RN_id (bpow radix2 (-1022))) by (apply generic_format_bpow; cbn; lia).
      apply RN_le. lra.
Qed.

(** * the interpolation on binary64 values *)
Lemma Bminus_finite_R (x y : Bf) :
  is_finite x = true -> is_finite y = true -> is_finite (Bminus mode_NE x y) = true ->
  B2R (Bminus mode_NE x y) = RN (B2R x - B2R y).
Proof.
  intros Fx Fy Fd.
  pose proof (Bminus_correct 53 1024 _ _ mode_NE x y Fx Fy) as H. cbn [round_mode] in H.
  destruct (Rlt_bool _ _) in H.
  - now destruct H as [H _].
  - destruct H as [H _]. exfalso. rewrite <- sf_finite_B2SF, H in Fd.
    unfold binary_overflow in Fd. cbn in Fd. discriminate.
Qed.

Lemma interp_B (a b fr : Bf) :
  is_finite a = true -> is_finite b = true -> is_finite fr = true ->
  B2R a <= B2R b -> 0 <= B2R fr <= 1 - bpow radix2 (-52) ->
  is_finite (Bminus mode_NE b a) = true ->
  exists r : Bf,
    b64_add (B2SF a) (b64_mul (B2SF fr) (b64_sub (B2SF b) (B2SF a))) = B2SF r
    /\ is_finite r = true /\ B2R a <= B2R r <= B2R b
    /\ (B2R fr = 0 -> B2R r = B2R a).
Proof.
  intros Fa Fb Ff Hab Hf Fd.
  rewrite b64_sub_Bminus, b64_mul_Bmult, b64_add_Bplus.
  set (d := Bminus mode_NE b a) in *.
  pose proof (Bminus_finite_R b a Fb Fa Fd) as Rd. fold d in Rd.
  destruct (interp_real (B2R a) (B2R b) (B2R fr) (F64_B2R a) (F64_B2R b) Hab Hf) as [Hp0 Hp1].
  set (p := Bmult mode_NE fr d).
  assert (Hd0 : 0 <= B2R d) by (rewrite Rd; apply RN_nonneg; lra).
  assert (Hpd : RN (B2R fr * B2R d) <= B2R d).
  { rewrite <- (RN_id (B2R d) (F64_B2R d)) at 2. apply RN_le.
    pose proof (bpow_gt_0 radix2 (-52)). nra. }
  assert (Hpp : is_finite p = true /\ B2R p = RN (B2R fr * B2R d)).
  { pose proof (Bmult_correct 53 1024 _ _ mode_NE fr d) as H. cbn [round_mode] in H. fold p in H.
    rewrite Rlt_bool_true in H.
    - destruct H as (H1 & H2 & _). rewrite H2, Ff, Fd. auto.
    - rewrite Rabs_pos_eq by (rewrite Rd; exact Hp0).
      apply Rle_lt_trans with (1 := Hpd). rewrite <- (Rabs_pos_eq _ Hd0). apply abs_B2R_lt_emax. }
  destruct Hpp as [Fp Rp].
  exists (Bplus mode_NE a p). split; [reflexivity|].
  pose proof (Bplus_correct 53 1024 _ _ mode_NE a p Fa Fp) as H. cbn [round_mode] in H.
  rewrite Rp, Rd in H.
  assert (Hr : B2R a <= RN (B2R a + RN (B2R fr * RN (B2R b - B2R a))) <= B2R b).
  { split.
    - rewrite <- (RN_id (B2R a) (F64_B2R a)) at 1. apply RN_le. lra.
    - rewrite <- (RN_id (B2R b) (F64_B2R b)) at 2. apply RN_le. lra. }
  rewrite Rlt_bool_true in H by (apply (Rabs_between _ _ _ _ Hr); apply abs_B2R_lt_emax).
  destruct H as (H1 & H2 & _). rewrite H1. repeat split; try tauto.
  intros Z. rewrite Z, Rmult_0_l, (round_0 radix2 fexp64 ZnearestE), Rplus_0_r. apply RN_id, F64_B2R.
Qed.

(** * math.Modf and int(.) *)
Lemma bounded_lt_53 m e : SpecFloat.bounded 53 1024 m e = true -> (Zpos m < 2 ^ 53)%Z.
Proof.
  intros B. pose proof (bounded_digits m e B) as D.
  pose proof (Zdigits_correct radix2 (Zpos m)) as [_ U]. cbn [Z.abs] in U.
  apply Z.lt_le_trans with (1 := U). change (Zpower radix2) with (Z.pow 2).
  apply Z.pow_le_mono_r; lia.
Qed.

Lemma bounded_canonical m e : SpecFloat.bounded 53 1024 m e = true ->
  SpecFloat.fexp 53 1024 (Zdigits radix2 (Zpos m) + e) = e.
Proof.
  intros B. apply andb_prop in B. destruct B as [B _].
  unfold SpecFloat.canonical_mantissa in B. apply Zeq_bool_eq in B.
  now rewrite <- Zpos_digits2_pos.
Qed.

Lemma F2R_nonneg_sign s m e : 0 <= F2R (Float radix2 (cond_Zopp s (Zpos m)) e) -> s = false.
Proof.
  destruct s; [|reflexivity]. intros H. exfalso.
  pose proof (F2R_lt_0 radix2 (Float radix2 (cond_Zopp true (Zpos m)) e)) as L.
  cbn [Fnum cond_Zopp] in L. specialize (L ltac:(lia)). cbn [cond_Zopp] in H. lra.
Qed.

(** Go's int(f) on a float holding the integer z *)
Lemma b64_to_int_exact (y : Bf) z :
  is_finite y = true -> B2R y = IZR z -> (0 <= z < 2 ^ 63)%Z -> b64_to_int (B2SF y) = Some z.
Proof.
  destruct y as [s|s| |s m e B]; try discriminate; intros _ Hy Hz; cbn [B2SF b64_to_int].
  - cbn [B2R] in Hy. apply eq_IZR in Hy. now subst z.
  - cbn [B2R] in Hy.
    assert (Hs : s = false) by (apply (F2R_nonneg_sign s m e); rewrite Hy; apply IZR_le; lia).
    subst s. cbn [cond_Zopp] in Hy. unfold F2R in Hy. cbn [Fnum Fexp] in Hy.
    destruct (Z.leb_spec 0 e) as [He|He].
    + rewrite Z.shiftl_mul_pow2 by lia.
      rewrite <- (IZR_Zpower radix2 e He), <- mult_IZR in Hy. apply eq_IZR in Hy.
      change (Zpower radix2 e) with (2 ^ e)%Z in Hy. rewrite Hy.
      destruct (Z.ltb_spec z (2 ^ 63)); [reflexivity|lia].
    + rewrite Z.shiftr_div_pow2 by lia.
      assert (E : IZR (Zpos m) = IZR (z * 2 ^ (- e))).
      { rewrite mult_IZR. change (2 ^ (- e))%Z with (Zpower radix2 (- e)).
        rewrite (IZR_Zpower radix2 (- e)) by lia. rewrite <- Hy, Rmult_assoc, <- bpow_plus.
        replace (e + - e)%Z with 0%Z by lia. cbn [bpow]. lra. }
      apply eq_IZR in E. rewrite E, Z.div_mul by (apply Z.pow_nonzero; lia).
      destruct (Z.ltb_spec z (2 ^ 63)); [reflexivity|lia].
Qed.

Lemma modf_spec (x : Bf) :
  is_finite x = true -> 0 <= B2R x -> B2R x < IZR (2 ^ 62) ->
  exists ip fr : Bf,
    modf_f (B2SF x) = (B2SF ip, B2SF fr)
    /\ is_finite fr = true
    /\ b64_to_int (B2SF ip) = Some (Zfloor (B2R x))
    /\ B2R fr = B2R x - IZR (Zfloor (B2R x))
    /\ (1 <= B2R x -> B2R fr <= 1 - bpow radix2 (-52)).
Proof.
  destruct x as [s|s| |s m e B]; try discriminate; intros _ H0 H62.
  - (* zero *)
    exists (B754_zero s), (B754_zero s). cbn [B2SF modf_f B2R b64_to_int].
    rewrite (Zfloor_IZR 0). repeat split; try lra.
  - cbn [B2R] in *.
    assert (Hs : s = false) by (apply (F2R_nonneg_sign s m e); exact H0). subst s.
    cbn [cond_Zopp] in *. cbn [B2SF modf_f]. unfold modf_abs.
    pose proof (bounded_lt_53 m e B) as Hm.
    destruct (Z.leb_spec 0 e) as [He|He].
    + (* an integer already *)
      assert (EI : F2R (Float radix2 (Zpos m) e) = IZR (Zpos m * 2 ^ e)).
      { unfold F2R. cbn [Fnum Fexp]. rewrite mult_IZR. change (2 ^ e)%Z with (Zpower radix2 e).
        now rewrite (IZR_Zpower radix2 e He). }
      exists (B754_finite false m e B), (B754_zero false). cbn [B2SF B2R cond_Zopp].
      rewrite EI, Zfloor_IZR. repeat split; try lra.
      * apply (b64_to_int_exact (B754_finite false m e B)); [reflexivity|exact EI|].
        rewrite EI in H62. apply lt_IZR in H62. lia.
      * intros _. assert (bpow radix2 (-52) <= bpow radix2 0) by (apply bpow_le; lia).
        change (bpow radix2 0) with 1 in H. lra.
    + (* m * 2^e with e < 0 *)
      set (P := (2 ^ (- e))%Z). assert (HP : (0 < P)%Z) by (apply Z.pow_pos_nonneg; lia).
      rewrite Z.shiftr_div_pow2 by lia. fold P.
      set (q := (Zpos m / P)%Z).
      assert (Hq : (0 <= q <= Zpos m)%Z).
      { unfold q. split; [apply Z.div_pos; lia|]. apply Z.div_le_upper_bound; nia. }
      assert (EP : bpow radix2 e = / IZR P).
      { unfold P. change (2 ^ (- e))%Z with (Zpower radix2 (- e)).
        rewrite (IZR_Zpower radix2 (- e)) by lia. rewrite <- bpow_opp. f_equal. lia. }
      assert (EX : F2R (Float radix2 (Zpos m) e) = IZR (Zpos m) / IZR P).
      { unfold F2R. cbn [Fnum Fexp]. now rewrite EP. }
      assert (EF : Zfloor (F2R (Float radix2 (Zpos m) e)) = q).
      { rewrite EX. apply Zfloor_div. lia. }
      rewrite EF.
      destruct (BofZ_exact q ltac:(lia)) as [Fq Rq].
      rewrite b64_of_Z_BofZ.
      change (S754_finite false m e) with (B2SF (B754_finite false m e B)).
      rewrite b64_sub_Bminus.
      set (X := B754_finite false m e B).
      (* the fractional part is representable *)
      set (r := (Zpos m mod P)%Z).
      assert (Hr : (0 <= r < P)%Z) by (apply Z.mod_pos_bound; lia).
      assert (ER : B2R X - IZR q = F2R (Float radix2 r e)).
      { cbn [X B2R cond_Zopp]. unfold F2R. cbn [Fnum Fexp].
        assert (EM : IZR (Zpos m) = IZR q * IZR P + IZR r).
        { rewrite <- mult_IZR, <- plus_IZR. f_equal. unfold q, r.
          rewrite Z.mul_comm. apply Z.div_mod. lia. }
        rewrite EM, EP. field. apply not_0_IZR. lia. }
      assert (FR : F64 (B2R X - IZR q)).
      { rewrite ER. apply generic_format_F2R. intros Hr0. unfold cexp.
        rewrite mag_F2R_Zdigits by exact Hr0.
        rewrite <- (bounded_canonical m e B) at 2.
        assert (Zdigits radix2 r <= Zdigits radix2 (Zpos m))%Z.
        { apply Zdigits_le; [lia|]. unfold r. pose proof (Z.mod_le (Zpos m) P ltac:(lia) HP). lia. }
        unfold SpecFloat.fexp, SpecFloat.emin. lia. }
      assert (Hr1 : 0 <= F2R (Float radix2 r e) <= B2R X).
      { split; [apply F2R_ge_0; cbn; lia|]. rewrite <- ER.
        assert (0 <= IZR q) by (apply IZR_le; lia). lra. }
      pose proof (Bminus_correct 53 1024 _ _ mode_NE X (BofZ q) eq_refl Fq) as H. cbn [round_mode] in H.
      rewrite Rq, (RN_id _ FR) in H.
      rewrite Rlt_bool_true in H.
      2:{ rewrite ER, Rabs_pos_eq by tauto. apply Rle_lt_trans with (B2R X); [tauto|].
          rewrite <- (Rabs_pos_eq (B2R X)) by (cbn; exact H0). apply abs_B2R_lt_emax. }
      destruct H as (H1 & H2 & _).
      exists (BofZ q), (Bminus mode_NE X (BofZ q)). repeat split; auto.
      * apply b64_to_int_exact; auto. lia.
      * (* x >= 1: the fraction is a multiple of 2^e, e >= -52, below 1 *)
        intros Hx1. rewrite H1, ER.
        assert (He52 : (-52 <= e)%Z).
        { destruct (Z_lt_le_dec e (-52)) as [L|L]; [exfalso|lia].
          cbn [X B2R cond_Zopp] in Hx1.
          assert (F2R (Float radix2 (Zpos m) e) < 1); [|lra].
          unfold F2R. cbn [Fnum Fexp].
          apply Rlt_le_trans with (IZR (2 ^ 53) * bpow radix2 (-53)).
          - apply Rle_lt_trans with (IZR (Zpos m) * bpow radix2 (-53)).
            + apply Rmult_le_compat_l; [apply IZR_le; lia|apply bpow_le; lia].
            + apply Rmult_lt_compat_r; [apply bpow_gt_0|apply IZR_lt; lia].
          - change (IZR (2 ^ 53)) with (bpow radix2 53). rewrite <- bpow_plus. cbn. lra. }
        unfold F2R. cbn [Fnum Fexp].
        apply Rle_trans with (IZR (P - 1) * bpow radix2 e).
        { apply Rmult_le_compat_r; [apply bpow_ge_0|apply IZR_le; lia]. }
        rewrite minus_IZR, Rmult_minus_distr_r, EP.
        rewrite Rinv_r by (apply not_0_IZR; lia). rewrite <- EP.
        assert (bpow radix2 (-52) <= bpow radix2 e) by (apply bpow_le; lia). lra.
Qed.

(** * the R8 position at p = 1/2 *)
Lemma f_third_bits : f_third = S754_finite false 6004799503160661 (-54).
Proof. vm_compute. reflexivity. Qed.
Lemma f_half_bits : f_half = S754_finite false 4503599627370496 (-53).
Proof. vm_compute. reflexivity. Qed.

Lemma valid_third : valid f_third = true. Proof. vm_compute. reflexivity. Qed.
Lemma valid_half : valid f_half = true. Proof. vm_compute. reflexivity. Qed.
Definition thirdB : Bf := SF2B f_third valid_third.
Definition halfB : Bf := SF2B f_half valid_half.
Definition tR : R := B2R thirdB.

Lemma third_val : 3 * tR = 1 - bpow radix2 (-54).
Proof.
  unfold tR, thirdB. rewrite B2R_SF2B, f_third_bits. cbn [SF2R cond_Zopp]. unfold F2R. cbn [Fnum Fexp].
  change (bpow radix2 (-54)) with (/ 18014398509481984). lra.
Qed.
Lemma half_val : B2R halfB = / 2.
Proof.
  unfold halfB. rewrite B2R_SF2B, f_half_bits. cbn [SF2R cond_Zopp]. unfold F2R. cbn [Fnum Fexp].
  change (bpow radix2 (-53)) with (/ 9007199254740992). lra.
Qed.
Lemma third_bounds : 0 < tR < / 3.
Proof. pose proof third_val. pose proof (bpow_gt_0 radix2 (-54)).
  assert (bpow radix2 (-54) < 1) by (change 1 with (bpow radix2 0); apply bpow_lt; lia). lra. Qed.

(** dyadic numbers with a short numerator are representable *)
Lemma F64_dyadic z e : (Z.abs z < 2 ^ 53)%Z -> (-1074 <= e)%Z -> F64 (IZR z * bpow radix2 e).
Proof.
  intros Hz He. change (IZR z * bpow radix2 e) with (F2R (Float radix2 z e)).
  apply generic_format_F2R. intros Hz0. unfold cexp. rewrite mag_F2R_Zdigits by exact Hz0.
  assert (Zdigits radix2 z <= 53)%Z.
  { apply Zdigits_le_Zpower. change (Zpower radix2 53) with (2 ^ 53)%Z. exact Hz. }
  unfold SpecFloat.fexp, SpecFloat.emin. lia.
Qed.
Lemma F64_IZR z : (Z.abs z < 2 ^ 53)%Z -> F64 (IZR z).
Proof. intros Hz. rewrite <- (Rmult_1_r (IZR z)). change 1 with (bpow radix2 0). apply F64_dyadic; [exact Hz|lia]. Qed.

Lemma mag_ge_1 x : 1 <= x -> (1 <= mag radix2 x)%Z.
Proof. intros Hx. apply mag_ge_bpow. change (bpow radix2 (1 - 1)) with 1. rewrite Rabs_pos_eq; lra. Qed.

Lemma F64_halve x : F64 x -> 1 <= x -> F64 (/ 2 * x).
Proof.
  intros Fx Hx. rewrite Rmult_comm. change (/ 2) with (bpow radix2 (-1)).
  apply (mult_bpow_exact_FLT radix2 (-1074) 53 x (-1)); [exact Fx|].
  pose proof (mag_ge_1 x Hx). lia.
Qed.

Notation ulp64 := (ulp radix2 fexp64).

Lemma ulp_double x : 1 <= x -> ulp64 (2 * x) = 2 * ulp64 x.
Proof.
  intros Hx. rewrite !ulp_neq_0 by lra. unfold cexp.
  rewrite Rmult_comm. change 2 with (bpow radix2 1) at 1.
  rewrite mag_mult_bpow by lra.
  pose proof (mag_ge_1 x Hx).
  replace (fexp64 (mag radix2 x + 1)) with (1 + fexp64 (mag radix2 x))%Z
    by (unfold SpecFloat.fexp, SpecFloat.emin; lia).
  rewrite bpow_plus. reflexivity.
Qed.

Definition posR (n : Z) : R := RN (tR + RN (/ 2 * RN (IZR n + tR))).

Section Position.
  Variable n : Z.
  Hypothesis Hn : (1 <= n < 2 ^ 50)%Z.

  Let s := RN (IZR n + tR).

  Lemma n_real : 1 <= IZR n < IZR (2 ^ 50).
  Proof. split; [apply (IZR_le 1)|apply IZR_lt]; lia. Qed.

  Lemma s_bounds : IZR n <= s <= IZR n + 1.
  Proof.
    pose proof third_bounds. unfold s. split.
    - rewrite <- (RN_id (IZR n)) at 1 by (apply F64_IZR; lia). apply RN_le. lra.
    - replace (IZR n + 1) with (IZR (n + 1)) by (rewrite plus_IZR; lra).
      rewrite <- (RN_id (IZR (n + 1))) by (apply F64_IZR; lia). apply RN_le. rewrite plus_IZR. lra.
  Qed.

  Lemma h_exact : RN (/ 2 * s) = / 2 * s.
  Proof.
    apply RN_id, F64_halve.
    - apply generic_format_round; typeclasses eauto.
    - pose proof s_bounds. pose proof n_real. lra.
  Qed.

  Lemma half_int_F64 z : (0 <= z < 2 ^ 52)%Z -> F64 (/ 2 * IZR z).
  Proof. intros Hz. rewrite Rmult_comm. change (/ 2) with (bpow radix2 (-1)). apply F64_dyadic; lia. Qed.

  Lemma pos_lower : / 2 * IZR n <= posR n.
  Proof.
    pose proof s_bounds. pose proof third_bounds. unfold posR. fold s. rewrite h_exact.
    rewrite <- (RN_id (/ 2 * IZR n)) by (apply half_int_F64; lia). apply RN_le. lra.
  Qed.

  Lemma pos_upper : posR n <= / 2 * IZR n + 7 / 8.
  Proof.
    pose proof s_bounds. pose proof third_bounds. unfold posR. fold s. rewrite h_exact.
    assert (F : F64 (/ 2 * IZR n + 7 / 8)).
    { replace (/ 2 * IZR n + 7 / 8) with (IZR (4 * n + 7) * bpow radix2 (-3)).
      - apply F64_dyadic; lia.
      - rewrite plus_IZR, mult_IZR. change (bpow radix2 (-3)) with (/ 8). lra. }
    rewrite <- (RN_id _ F). apply RN_le. lra.
  Qed.

  (** n odd: the position does not exceed (n+1)/2 *)
  Lemma pos_upper_odd : posR n <= / 2 * (IZR n + 1).
  Proof.
    pose proof s_bounds as Hs. pose proof third_bounds as Ht. pose proof n_real as Hr.
    unfold posR. fold s. rewrite h_exact.
    set (M := / 2 * (IZR n + 1)).
    assert (FM : F64 M).
    { unfold M. replace (IZR n + 1) with (IZR (n + 1)) by (rewrite plus_IZR; lra). apply half_int_F64. lia. }
    assert (HM : 1 <= M) by (unfold M; lra).
    apply round_N_le_midp; try typeclasses eauto; [exact FM|].
    rewrite succ_eq_pos by lra.
    assert (E1 : s - (IZR n + tR) <= / 2 * ulp64 (IZR n + tR)).
    { pose proof (error_le_half_ulp radix2 fexp64 (fun x => negb (Z.even x)) (IZR n + tR)) as H.
      apply Rabs_le_inv in H. unfold s. exact (proj2 H). }
    assert (E2 : ulp64 (IZR n + tR) <= 2 * ulp64 M).
    { rewrite <- ulp_double by exact HM. apply ulp_le_pos; try typeclasses eauto; unfold M; lra. }
    pose proof third_val as T3. pose proof (bpow_gt_0 radix2 (-54)).
    set (w := ulp64 M) in *. set (w' := ulp64 (IZR n + tR)) in *. unfold M. lra.
  Qed.
End Position.

Lemma bpow1024_big z : (0 <= z < 2 ^ 62)%Z -> IZR z < bpow radix2 1024.
Proof.
  intros Hz. apply Rlt_trans with (bpow radix2 62).
  - change (bpow radix2 62) with (IZR (2 ^ 62)). apply IZR_lt. lia.
  - apply bpow_lt. lia.
Qed.

Lemma thirdB_finite : is_finite thirdB = true.
Proof. unfold thirdB. rewrite is_finite_SF2B, f_third_bits. reflexivity. Qed.
Lemma halfB_finite : is_finite halfB = true.
Proof. unfold halfB. rewrite is_finite_SF2B, f_half_bits. reflexivity. Qed.

(** the binary64 computation of the position is [posR] *)
Lemma pos_B n : (1 <= n < 2 ^ 50)%Z ->
  exists p : Bf, r8_pos_f n f_half = B2SF p /\ is_finite p = true /\ B2R p = posR n.
Proof.
  intros Hn. unfold r8_pos_f.
  assert (E3 : f_third = B2SF thirdB) by (unfold thirdB; now rewrite B2SF_SF2B).
  assert (E2 : f_half = B2SF halfB) by (unfold halfB; now rewrite B2SF_SF2B).
  rewrite E3, E2, b64_of_Z_BofZ, b64_add_Bplus, b64_mul_Bmult, b64_add_Bplus.
  destruct (BofZ_exact n ltac:(lia)) as [Fn Rn].
  pose proof (s_bounds n Hn) as Hs. pose proof (n_real n Hn) as Hr. pose proof third_bounds as Ht.
  pose proof (h_exact n Hn) as Hh. pose proof (pos_lower n Hn) as Hl. pose proof (pos_upper n Hn) as Hu.
  assert (Big : IZR n + 2 < bpow radix2 1024).
  { replace (IZR n + 2) with (IZR (n + 2)) by (rewrite plus_IZR; lra). apply bpow1024_big. lia. }
  (* n + 1/3 *)
  set (S := Bplus mode_NE (BofZ n) thirdB).
  assert (HS : is_finite S = true /\ B2R S = RN (IZR n + tR)).
  { pose proof (Bplus_correct 53 1024 _ _ mode_NE (BofZ n) thirdB Fn thirdB_finite) as H.
    cbn [round_mode] in H. rewrite Rn in H. fold tR in H. rewrite Rlt_bool_true in H.
    - destruct H as (H1 & H2 & _). auto.
    - rewrite Rabs_pos_eq by lra. lra. }
  destruct HS as [FS RS].
  (* half of it *)
  set (H2 := Bmult mode_NE halfB S).
  assert (HH : is_finite H2 = true /\ B2R H2 = RN (/ 2 * RN (IZR n + tR))).
  { pose proof (Bmult_correct 53 1024 _ _ mode_NE halfB S) as H. cbn [round_mode] in H.
    rewrite half_val, RS in H. rewrite Rlt_bool_true in H.
    - destruct H as (H1 & H3 & _). unfold H2. rewrite H3, halfB_finite, FS. auto.
    - rewrite Hh, Rabs_pos_eq by lra. lra. }
  destruct HH as [FH RH].
  exists (Bplus mode_NE thirdB H2). split; [reflexivity|].
  pose proof (Bplus_correct 53 1024 _ _ mode_NE thirdB H2 thirdB_finite FH) as H.
  cbn [round_mode] in H. rewrite RH in H. fold tR in H. fold (posR n) in H.
  rewrite Rlt_bool_true in H.
  - destruct H as (H1 & H3 & _). auto.
  - rewrite Rabs_pos_eq by lra. lra.
Qed.

(** integer part and fraction of the position, as the code obtains them *)
Lemma median_position n : (1 <= n < 2 ^ 50)%Z ->
  exists (ip fr : Bf) (k : Z),
    modf_f (r8_pos_f n f_half) = (B2SF ip, B2SF fr)
    /\ b64_to_int (B2SF ip) = Some k
    /\ is_finite fr = true /\ 0 <= B2R fr
    /\ ((2 <= n)%Z -> B2R fr <= 1 - bpow radix2 (-52))
    /\ (k = (n / 2)%Z \/ (k = (n / 2 + 1)%Z /\ n = (2 * (n / 2) + 1)%Z /\ B2R fr = 0)).
Proof.
  intros Hn. destruct (pos_B n Hn) as (p & Ep & Fp & Rp).
  pose proof (n_real n Hn) as Hr. pose proof (pos_lower n Hn) as Hl. pose proof (pos_upper n Hn) as Hu.
  destruct (modf_spec p Fp) as (ip & fr & Em & Ff & Ei & Rf & Hb).
  { rewrite Rp. lra. }
  { rewrite Rp. apply Rle_lt_trans with (1 := Hu). apply Rlt_trans with (IZR n + 1); [lra|].
    replace (IZR n + 1) with (IZR (n + 1)) by (rewrite plus_IZR; lra). apply IZR_lt. lia. }
  exists ip, fr, (Zfloor (B2R p)). rewrite Ep. repeat split; auto.
  - rewrite Rf. pose proof (Zfloor_lb (B2R p)). lra.
  - intros H2. apply Hb. rewrite Rp. assert (2 <= IZR n) by (apply (IZR_le 2); lia). lra.
  - rewrite Rf, Rp. set (J := (n / 2)%Z).
    assert (HJ : n = (2 * J)%Z \/ n = (2 * J + 1)%Z) by (unfold J; Z.div_mod_to_equations; lia).
    destruct HJ as [HJ|HJ].
    + left. apply Zfloor_imp. rewrite plus_IZR.
      assert (EJ : IZR n = 2 * IZR J) by (rewrite HJ at 1; now rewrite mult_IZR). lra.
    + pose proof (pos_upper_odd n Hn) as Ho.
      assert (EJ : IZR n = 2 * IZR J + 1) by (rewrite HJ at 1; now rewrite plus_IZR, mult_IZR).
      destruct (Rlt_or_le (posR n) (IZR J + 1)) as [Lt|Ge].
      * left. apply Zfloor_imp. rewrite plus_IZR. lra.
      * right. assert (E : posR n = IZR (J + 1)) by (rewrite plus_IZR; lra).
        rewrite E, Zfloor_IZR. repeat split; auto. lra.
Qed.

(** * the median of a sorted sample *)
Local Open Scope Z_scope.

Definition fin_valid (x : b64) : Prop := valid x = true /\ b64_is_finite x = true.

(** the no-overflow guard, exactly: the difference b - a of the two order
    statistics that Sample.Quantile(0.5) interpolates between is finite (no
    guard when the position selects a single value) *)
Definition median_no_overflow (xs : list b64) : bool :=
  let len := zlen xs in
  let '(kf, _) := modf_f (r8_pos_f len f_half) in
  match b64_to_int kf with
  | Some k => (k <=? 0) || (len <=? k) || b64_is_finite (b64_sub (nth_f xs k) (nth_f xs (k - 1)))
  | None => true
  end.

Lemma le_of_R (x y : Bf) :
  is_finite x = true -> is_finite y = true -> (B2R x <= B2R y)%R -> b64_le (B2SF x) (B2SF y) = true.
Proof.
  intros Fx Fy H. change (Bleb x y = true). rewrite (Bleb_correct 53 1024 x y Fx Fy).
  now apply Rle_bool_true.
Qed.

Lemma fin_valid_nonnan x : fin_valid x -> nonnan x.
Proof. intros [_ F] ->. discriminate F. Qed.

Lemma lift_elem xs i : Forall fin_valid xs -> 0 <= i < zlen xs ->
  exists b : Bf, nth_f xs i = B2SF b /\ is_finite b = true.
Proof.
  intros Hall Hi. assert (Hin : In (nth_f xs i) xs) by (apply nth_f_in; exact Hi).
  rewrite Forall_forall in Hall. destruct (Hall _ Hin) as [V F].
  exists (SF2B _ V). rewrite B2SF_SF2B. split; [reflexivity|].
  rewrite is_finite_SF2B. destruct (nth_f xs i); try discriminate; reflexivity.
Qed.

Lemma sorted_elems_R xs i j (a b : Bf) :
  StronglySorted leP xs -> Forall fin_valid xs -> 0 <= i <= j -> j < zlen xs ->
  nth_f xs i = B2SF a -> nth_f xs j = B2SF b -> is_finite a = true -> is_finite b = true ->
  (B2R a <= B2R b)%R.
Proof.
  intros Hs Hall Hij Hj Ea Eb Fa Fb.
  assert (Nn : Forall nonnan xs) by (eapply Forall_impl; [|exact Hall]; apply fin_valid_nonnan).
  pose proof (sorted_nth_le xs Hs Nn (Z.to_nat i) (Z.to_nat j) ltac:(lia) ltac:(unfold zlen in Hj; lia)) as L.
  fold (nth_f xs i) in L. fold (nth_f xs j) in L. rewrite Ea, Eb in L.
  now apply SFleb_R.
Qed.

Lemma half_cmp : b64_le f_half f_zero = false /\ b64_ge f_half b64_one = false.
Proof. vm_compute. split; reflexivity. Qed.

(** x_(max(1, n/2)) <= Quantile(0.5) <= x_(n/2 + 1) (1-based order statistics) *)
Theorem median_between (xs : list b64) :
  xs <> [] -> Forall fin_valid xs -> StronglySorted leP xs -> zlen xs < 2 ^ 50 ->
  median_no_overflow xs = true ->
  let n := zlen xs in
  let m := quantile_f true xs f_half in
  b64_le (nth_f xs (Z.max 0 (n / 2 - 1))) m = true /\ b64_le m (nth_f xs (n / 2)) = true.
Proof.
  intros Hne Hall Hs Hlen Hg n m.
  assert (Hn : 1 <= n < 2 ^ 50).
  { unfold n, zlen in *. destruct xs; [congruence|cbn [length] in *; lia]. }
  destruct (median_position n Hn) as (ip & fr & k & Em & Ek & Ff & Hf0 & Hf1 & Hk).
  assert (Em' : m = match b64_to_int (B2SF ip) with
                    | None => f_nan
                    | Some k => if k <=? 0 then nth_f xs 0
                                else if n <=? k then nth_f xs (n - 1)
                                else b64_add (nth_f xs (k - 1))
                                             (b64_mul (B2SF fr) (b64_sub (nth_f xs k) (nth_f xs (k - 1))))
                    end).
  { unfold m, quantile_f, percentile_f. destruct xs as [|x0 xs']; [congruence|].
    destruct half_cmp as [-> ->]. unfold percentile_sorted_f.
    change (Z.of_nat (length (x0 :: xs'))) with n. rewrite Em. reflexivity. }
  rewrite Ek in Em'.
  unfold median_no_overflow in Hg. fold n in Hg. rewrite Em, Ek in Hg.
  set (J := n / 2) in *.
  assert (HJ : 2 * J <= n <= 2 * J + 1) by (unfold J; Z.div_mod_to_equations; lia).
  assert (Nn : forall i, 0 <= i < n -> nonnan (nth_f xs i)).
  { intros i Hi. apply fin_valid_nonnan. rewrite Forall_forall in Hall. apply Hall. now apply nth_f_in. }
  (* the interpolating case, shared *)
  assert (Interp : forall i, 1 <= i < n -> k = i ->
            (0 <= B2R fr <= 1 - bpow radix2 (-52))%R ->
            exists a b r : Bf, nth_f xs (i - 1) = B2SF a /\ nth_f xs i = B2SF b /\ m = B2SF r
              /\ is_finite a = true /\ is_finite b = true /\ is_finite r = true
              /\ (B2R a <= B2R r <= B2R b)%R /\ (B2R fr = 0%R -> B2R r = B2R a)).
  { intros i Hi -> Hfr.
    destruct (lift_elem xs (i - 1) Hall ltac:(fold n; lia)) as (a & Ea & Fa).
    destruct (lift_elem xs i Hall ltac:(fold n; lia)) as (b & Eb & Fb).
    assert (Hab : (B2R a <= B2R b)%R).
    { apply (sorted_elems_R xs (i - 1) i a b); auto; fold n; lia. }
    destruct (Z.leb_spec i 0); [lia|]. destruct (Z.leb_spec n i); [lia|].
    cbn [orb] in Hg. rewrite Ea, Eb, b64_sub_Bminus, b64_is_finite_B2SF in Hg.
    rewrite Ea, Eb in Em'.
    destruct (interp_B a b fr Fa Fb Ff Hab Hfr Hg) as (r & Er & Fr & Hr & Hz).
    exists a, b, r. rewrite Em', Er. repeat split; auto; tauto. }
  destruct Hk as [Hk|(Hk & Hodd & Hz)].
  - (* k = n/2 *)
    destruct (Z.eq_dec J 0) as [J0|J0].
    + (* a single value *)
      rewrite Hk, J0 in Em'. cbn [Z.leb Z.compare] in Em'. rewrite Em', J0.
      change (Z.max 0 (0 - 1)) with 0. split; apply b64_le_refl, Nn; lia.
    + destruct (Interp J ltac:(lia) Hk) as (a & b & r & Ea & Eb & Er & Fa & Fb & Fr & Hr & _).
      { split; [exact Hf0|apply Hf1; lia]. }
      replace (Z.max 0 (J - 1)) with (J - 1) by lia. rewrite Ea, Eb, Er.
      split; apply le_of_R; auto; tauto.
  - (* n odd, k = (n+1)/2, fraction 0 *)
    destruct (Z.eq_dec J 0) as [J0|J0].
    + assert (n = 1) by lia.
      rewrite Hk, J0 in Em'. cbn [Z.leb Z.compare Z.add] in Em'.
      replace (n <=? 1) with true in Em' by (symmetry; apply Z.leb_le; lia).
      rewrite Em', J0. replace (n - 1) with 0 by lia.
      change (Z.max 0 (0 - 1)) with 0. split; apply b64_le_refl, Nn; lia.
    + destruct (Interp (J + 1) ltac:(lia) Hk) as (a & b & r & Ea & Eb & Er & Fa & Fb & Fr & Hr & Hra).
      { rewrite Hz. split; [lra|]. pose proof two_u53. pose proof u53_lt1. pose proof u53_pos.
        assert (bpow radix2 (-52) <= 1)%R by (change 1%R with (bpow radix2 0); apply bpow_le; lia). lra. }
      specialize (Hra Hz). replace (J + 1 - 1) with J in Ea by lia.
      replace (Z.max 0 (J - 1)) with (J - 1) by lia.
      destruct (lift_elem xs (J - 1) Hall ltac:(fold n; lia)) as (c & Ec & Fc).
      assert (Hca : (B2R c <= B2R a)%R).
      { apply (sorted_elems_R xs (J - 1) J c a); auto; fold n; lia. }
      rewrite Ec, Ea, Er. split; apply le_of_R; auto; lra.
Qed.

Lemma le_true_nonnan_r x y : b64_le x y = true -> nonnan y.
Proof. intros H ->. destruct x as [s|s| |s m e]; try destruct s; discriminate H. Qed.
Lemma le_true_nonnan_l x y : b64_le x y = true -> nonnan x.
Proof. intros H ->. discriminate H. Qed.

(** * AssumeNothing.Summary: the interval ends bracket the centre *)
Section Brackets.
  Variable choose_o : Z -> Z -> option b64.
  Variable approx_o : Z -> option qci.
  Hypothesis approx_band : forall n ci, approx_o n = Some ci ->
    0 <= q_lo ci <= n / 2 /\ n / 2 + 1 <= q_hi ci <= n + 1.

  Theorem summary_nothing_brackets vs t conf sm :
    vs <> [] -> Forall fin_valid vs -> zlen vs < 2 ^ 50 ->
    median_no_overflow (sort_f vs) = true ->
    summary_nothing choose_o approx_o (new_sample vs t) conf = Some sm ->
    sm_center sm = quantile_f true (sort_f vs) f_half
    /\ b64_le (sm_lo sm) (sm_center sm) = true /\ b64_le (sm_center sm) (sm_hi sm) = true.
  Proof.
    intros Hne Hall Hlen Hg.
    assert (Nn : Forall nonnan vs) by (eapply Forall_impl; [|exact Hall]; apply fin_valid_nonnan).
    pose proof (sort_f_sorted vs Nn) as Hs.
    pose proof (sort_f_Forall nonnan vs Nn) as Ns.
    pose proof (sort_f_Forall fin_valid vs Hall) as Hall'.
    assert (Hl : zlen (sort_f vs) = zlen vs).
    { unfold zlen. now rewrite <- (Permutation.Permutation_length (sort_f_perm vs)). }
    assert (Hlen0 : 0 < zlen (sort_f vs)).
    { rewrite Hl. unfold zlen. destruct vs; [congruence|cbn; lia]. }
    assert (Hne' : sort_f vs <> []) by (intros E; rewrite E in Hlen0; cbn in Hlen0; lia).
    destruct (median_between (sort_f vs) Hne' Hall' Hs ltac:(lia) Hg) as [M1 M2].
    unfold summary_nothing, new_sample. cbn [s_values].
    set (xs := sort_f vs) in *. set (n := zlen xs) in *.
    set (med := quantile_f true xs f_half) in *.
    destruct (quantile_ci _ _ _ _) as [ci|] eqn:Q; [|intros HH; discriminate HH].
    apply (quantile_ci_band choose_o approx_o approx_band) in Q; [|lia].
    assert (Hx : 0 <= n / 2 < n) by (Z.div_mod_to_equations; lia).
    assert (Nnth : forall k, 0 <= k < n -> nonnan (nth_f xs k)).
    { intros k Hk. rewrite Forall_forall in Ns. apply Ns. now apply nth_f_in. }
    assert (Nmed : nonnan med) by (eapply le_true_nonnan_r; exact M1).
    unfold sample_ci. fold n. fold med.
    set (lo := if q_lo ci <? 1 then f_inf true else nth_f xs (q_lo ci - 1)).
    set (hi := if n <=? q_hi ci - 1 then f_inf false else nth_f xs (q_hi ci - 1)).
    assert (Hlo : b64_le lo med = true).
    { unfold lo. destruct (Z.ltb_spec (q_lo ci) 1).
      - apply neg_inf_le, Nmed.
      - apply b64_le_trans with (nth_f xs (Z.max 0 (n / 2 - 1))); auto; try (apply Nnth; lia).
        unfold nth_f. apply sorted_nth_le; auto; unfold n, zlen in *; lia. }
    assert (Hhi : b64_le med hi = true).
    { unfold hi. destruct (Z.leb_spec n (q_hi ci - 1)).
      - apply le_pos_inf, Nmed.
      - apply b64_le_trans with (nth_f xs (n / 2)); auto; try (apply Nnth; lia).
        unfold nth_f. apply sorted_nth_le; auto; unfold n, zlen in *; lia. }
    destruct (b64_is_inf lo || b64_is_inf hi).
    - destruct (median_samples _ _ _) as [[ge m]|]; [|intros HH; discriminate HH]. intros [= <-]. cbn. auto.
    - intros [= <-]. cbn. auto.
  Qed.
End Brackets.

(** a sufficient condition for the guard: the range of the sample does not overflow *)
Lemma median_no_overflow_of_range (xs : list b64) :
  xs <> [] -> Forall fin_valid xs -> StronglySorted leP xs ->
  b64_is_finite (b64_sub (nth_f xs (zlen xs - 1)) (nth_f xs 0)) = true ->
  median_no_overflow xs = true.
Proof.
  intros Hne Hall Hs Hr. unfold median_no_overflow.
  destruct (modf_f _) as [kf fr]. destruct (b64_to_int kf) as [k|]; [|reflexivity].
  destruct (Z.leb_spec k 0); [reflexivity|]. destruct (Z.leb_spec (zlen xs) k); [reflexivity|].
  cbn [orb].
  assert (Hn : 0 < zlen xs) by lia.
  destruct (lift_elem xs 0 Hall ltac:(lia)) as (mn & Emn & Fmn).
  destruct (lift_elem xs (zlen xs - 1) Hall ltac:(lia)) as (mx & Emx & Fmx).
  destruct (lift_elem xs (k - 1) Hall ltac:(lia)) as (a & Ea & Fa).
  destruct (lift_elem xs k Hall ltac:(lia)) as (b & Eb & Fb).
  rewrite Emn, Emx, b64_sub_Bminus, b64_is_finite_B2SF in Hr.
  rewrite Ea, Eb, b64_sub_Bminus, b64_is_finite_B2SF.
  pose proof (sorted_elems_R xs 0 (k - 1) mn a Hs Hall ltac:(lia) ltac:(lia) Emn Ea Fmn Fa) as H1.
  pose proof (sorted_elems_R xs (k - 1) k a b Hs Hall ltac:(lia) ltac:(lia) Ea Eb Fa Fb) as H2.
  pose proof (sorted_elems_R xs k (zlen xs - 1) b mx Hs Hall ltac:(lia) ltac:(lia) Eb Emx Fb Fmx) as H3.
  pose proof (Bminus_finite_R mx mn Fmx Fmn Hr) as Rr.
  pose proof (Bminus_correct 53 1024 _ _ mode_NE b a Fb Fa) as HC. cbn [round_mode] in HC.
  rewrite Rlt_bool_true in HC; [tauto|].
  assert (B : (0 <= RN (B2R b - B2R a) <= RN (B2R mx - B2R mn))%R).
  { split; [apply RN_nonneg; lra|apply RN_le; lra]. }
  rewrite Rabs_pos_eq by tauto. apply Rle_lt_trans with (1 := proj2 B).
  rewrite <- Rr. apply Rle_lt_trans with (1 := Rle_abs _). apply abs_B2R_lt_emax.
Qed.
