(** DatesRange: with the repair hooks/fix_c18_date_year_range.diff (which
    Model/Dates.v follows) every ACCEPTED timestamp denotes an instant whose UTC
    year has four digits, so "normalised strings sort chronologically" holds
    for all accepted texts without a range hypothesis.  The nanosecond field of
    a parsed text is in 0..999999999 by construction ([parsed_ns_range]). *)
From Perf Require Import Base.Bytes Model.Dates Proofs.Dates Proofs.DatesOrder.
Local Open Scope Z_scope.

Lemma is_digit_dval c : is_digit c = true -> 0 <= dval c <= 9.
Proof.
  unfold is_digit, dval. intros H. apply andb_prop in H as [A B].
  apply N.leb_le in A, B. lia.
Qed.

Lemma span_digits_all s : forall d r, span_digits s = (d, r) -> Forall (fun c => is_digit c = true) d.
Proof.
  induction s as [|c s IH]; cbn [span_digits]; intros d r E.
  - injection E as <- <-. constructor.
  - destruct (is_digit c) eqn:Dc.
    + destruct (span_digits s) as [d' r'] eqn:Es. injection E as <- <-.
      constructor; [assumption|]. eapply IH. reflexivity.
    + injection E as <- <-. constructor.
Qed.

Lemma frac_ns_bounds n : forall acc ds, Forall (fun c => is_digit c = true) ds -> 0 <= acc ->
  acc * 10 ^ Z.of_nat n <= frac_ns n acc ds < (acc + 1) * 10 ^ Z.of_nat n.
Proof.
  induction n as [|n IH]; intros acc ds Hd Ha.
  - cbn [frac_ns]. change (10 ^ Z.of_nat 0) with 1. lia.
  - cbn [frac_ns]. rewrite Nat2Z.inj_succ, Z.pow_succ_r by lia.
    assert (P : 0 < 10 ^ Z.of_nat n) by (apply Z.pow_pos_nonneg; lia).
    destruct ds as [|c ds'].
    + specialize (IH (acc * 10) [] (Forall_nil _) ltac:(lia)). nia.
    + inversion Hd as [|? ? Hc Hd']; subst. pose proof (is_digit_dval c Hc) as Dc.
      specialize (IH (acc * 10 + dval c) ds' Hd' ltac:(lia)). nia.
Qed.

Lemma frac_part_range (s : bytes) (ns : Z) (r : bytes) :
  match s with
  | [] => Some (0, s)
  | c :: s' =>
      if Byte.eqb c c_dot || Byte.eqb c c_comma then
        match span_digits s' with
        | ([], _) => None
        | ((_ :: _) as ds, r) => Some (frac_ns 9 0 ds, r)
        end
      else Some (0, s)
  end = Some (ns, r) -> 0 <= ns < 1000000000.
Proof.
  assert (K : forall (a : Z) (x y : bytes), Some (a, x) = Some (ns, y) -> ns = a).
  { intros a x y E. apply some_inj in E. apply (f_equal fst) in E. cbn [fst] in E. now symmetry. }
  destruct s as [|c s']; [intros E; apply K in E; lia|].
  destruct (Byte.eqb c c_dot || Byte.eqb c c_comma); [|intros E; apply K in E; lia].
  destruct (span_digits s') as [ds r'] eqn:Es. destruct ds as [|d ds]; [discriminate|].
  intros E. apply K in E.
  pose proof (frac_ns_bounds 9 0 (d :: ds) (span_digits_all _ _ _ Es) ltac:(lia)) as B.
  change (10 ^ Z.of_nat 9) with 1000000000 in B. lia.
Qed.

Lemma rfc3339_ns_range s c : parse_rfc3339 s = Some c -> 0 <= cns c < 1000000000.
Proof.
  unfold parse_rfc3339. intros H. cbv zeta in H.
  repeat match type of H with
         | match ?x with _ => _ end = _ => destruct x eqn:?; try discriminate H
         | (if ?x then _ else _) = _ => destruct x eqn:?; try discriminate H
         end.
  apply some_inj in H. subst c. cbn [cns].
  match goal with E : _ = Some (?z, _) |- 0 <= ?z < _ => exact (frac_part_range _ _ _ E) end.
Qed.

Lemma parsed_ns_range s c : parse_date s = Some c -> 0 <= cns c < 1000000000.
Proof. unfold parse_date. apply rfc3339_ns_range. Qed.

(** an accepted text denotes an instant in the four-digit-year range *)
Lemma normalize_some_inrange s n :
  normalize_date s = Some n ->
  exists i, denotes s = Some i /\ instant_inrange i /\ n = format_instant i.
Proof.
  unfold denotes, normalize_date. destruct (parse_date s) as [c|] eqn:P; [|discriminate].
  destruct (year_inrange_b (to_instant c)) eqn:R; [|discriminate].
  intros E. apply some_inj in E. exists (to_instant c). cbn [option_map]. split; [reflexivity|]. split; [|symmetry; exact E].
  unfold year_inrange_b in R. apply andb_prop in R as [A B]. apply Z.leb_le in A. apply Z.ltb_lt in B.
  split; [lia|]. unfold to_instant. cbn [snd]. now apply parsed_ns_range with s.
Qed.

(** normalised strings of ALL accepted texts sort chronologically *)
Theorem normalize_sorts_all s1 s2 i1 i2 n1 n2 :
  denotes s1 = Some i1 -> denotes s2 = Some i2 ->
  normalize_date s1 = Some n1 -> normalize_date s2 = Some n2 ->
  bcmp n1 n2 = instant_cmp i1 i2.
Proof.
  intros D1 D2 N1 N2.
  destruct (normalize_some_inrange _ _ N1) as [j1 [E1 [R1 _]]].
  destruct (normalize_some_inrange _ _ N2) as [j2 [E2 [R2 _]]].
  assert (j1 = i1) by congruence. assert (j2 = i2) by congruence. subst.
  eapply normalize_sorts; eassumption.
Qed.

(** texts with equal normalised strings denote one instant *)
Theorem normalize_injective_all s1 s2 i1 i2 n :
  denotes s1 = Some i1 -> denotes s2 = Some i2 ->
  normalize_date s1 = Some n -> normalize_date s2 = Some n -> i1 = i2.
Proof.
  intros D1 D2 N1 N2.
  destruct (normalize_some_inrange _ _ N1) as [j1 [E1 [R1 F1]]].
  destruct (normalize_some_inrange _ _ N2) as [j2 [E2 [R2 F2]]].
  assert (j1 = i1) by congruence. assert (j2 = i2) by congruence. subst j1 j2.
  apply normalize_injective; congruence.
Qed.

(** the code as it stands: a four-digit-year text whose zone offset moves the
    instant into year 10000 normalises to a string that sorts BEFORE that of an
    earlier instant *)
Lemma asis_year_10000 :
  let a := bs "9999-12-31T23:00:00-05:00" in
  let b := bs "9999-12-31T23:00:00Z" in
  normalize_date_asis a = Some (bs "10000-01-01T04:00:00+00:00") /\
  normalize_date_asis b = Some (bs "9999-12-31T23:00:00+00:00") /\
  (exists ia ib, denotes a = Some ia /\ denotes b = Some ib /\ instant_cmp ia ib = Gt) /\
  bcmp (bs "10000-01-01T04:00:00+00:00") (bs "9999-12-31T23:00:00+00:00") = Lt /\
  normalize_date a = None.
Proof.
  cbv zeta. repeat split; try (vm_compute; reflexivity).
  eexists. eexists. split; [vm_compute; reflexivity|]. split; vm_compute; reflexivity.
Qed.
