(** Rescaling both samples by a power of two leaves the U-test unchanged, as
    long as no value leaves the range of binary64 (no overflow, no underflow
    below the smallest subnormal step): the multiplication is then exact, hence
    strictly increasing, hence comparison-preserving, and
    utest_monotone_invariant applies. Uses Flocq (real numbers: the standard
    library's axioms of the classical reals appear in Print Assumptions). *)
From Coq Require Import ZArith Reals Lia Lra Bool List.
From Flocq Require Import Core BinarySingleNaN.
From Perf Require Import Base.Bytes Base.B64 Model.StatsF Model.MoreMathU Proofs.B64Flocq Proofs.BenchMathMono.
Local Open Scope Z_scope.

Lemma b64_mul_Bmult (x y : Bf) :
  b64_mul (B2SF x) (B2SF y) = B2SF (Bmult mode_NE x y).
Proof.
  destruct x as [sx|sx| |sx mx ex Bx], y as [sy|sy| |sy my ey By]; try reflexivity.
  unfold b64_mul. simpl. rewrite B2SF_SF2B. apply binary_round_aux_equiv.
Qed.

Lemma Rlt_bool_scale a b p : (0 < p)%R -> Rlt_bool (a * p) (b * p) = Rlt_bool a b.
Proof.
  intros Hp. destruct (Rlt_bool_spec a b) as [H|H].
  - apply Rlt_bool_true. now apply Rmult_lt_compat_r.
  - apply Rlt_bool_false. apply Rmult_le_compat_r; lra.
Qed.
Lemma Rle_bool_scale a b p : (0 < p)%R -> Rle_bool (a * p) (b * p) = Rle_bool a b.
Proof.
  intros Hp. destruct (Rle_bool_spec a b) as [H|H].
  - apply Rle_bool_true. apply Rmult_le_compat_r; lra.
  - apply Rle_bool_false. now apply Rmult_lt_compat_r.
Qed.
Lemma Req_bool_scale a b p : (0 < p)%R -> Req_bool (a * p) (b * p) = Req_bool a b.
Proof.
  intros Hp. destruct (Req_bool_spec a b) as [H|H].
  - apply Req_bool_true. now rewrite H.
  - apply Req_bool_false. intros E. apply H. apply Rmult_eq_reg_r with (1 := E). lra.
Qed.

Notation fexp64 := (SpecFloat.fexp 53 1024).

Section Scale.
  Variable k : Z.
  Variable c : Bf.
  Hypothesis c_fin : is_finite c = true.
  Hypothesis c_val : B2R c = bpow radix2 k.

  (** the scaled value stays between the smallest subnormal step and 2^1024 *)
  Definition scale_ok (x : Bf) : Prop :=
    match x with
    | B754_zero _ => True
    | B754_finite _ _ e _ => -1074 <= e + k /\ e + k + 53 <= 1024
    | _ => False
    end.

  Lemma bounded_digits m e : SpecFloat.bounded 53 1024 m e = true -> Zdigits radix2 (Zpos m) <= 53.
  Proof.
    intros B. apply andb_prop in B. destruct B as [B _].
    unfold SpecFloat.canonical_mantissa in B. apply Zeq_bool_eq in B.
    rewrite <- Zpos_digits2_pos. unfold SpecFloat.fexp, SpecFloat.emin in B. lia.
  Qed.

  Lemma scaled_F2R s m e :
    (F2R (Float radix2 (cond_Zopp s (Zpos m)) e) * bpow radix2 k
     = F2R (Float radix2 (cond_Zopp s (Zpos m)) (e + k)))%R.
  Proof. unfold F2R. cbn [Fnum Fexp]. rewrite bpow_plus. ring. Qed.

  Lemma scaled_format (x : Bf) :
    scale_ok x -> generic_format radix2 fexp64 (B2R x * bpow radix2 k).
  Proof.
    destruct x as [s|s| |s m e B]; cbn [scale_ok]; try tauto.
    - intros _. cbn [B2R]. rewrite Rmult_0_l. apply generic_format_0.
    - intros [H1 H2]. cbn [B2R]. rewrite scaled_F2R. apply generic_format_F2R. intros Hm.
      unfold cexp. rewrite mag_F2R_Zdigits by exact Hm. rewrite Zdigits_cond_Zopp.
      pose proof (bounded_digits m e B). unfold SpecFloat.fexp, SpecFloat.emin. lia.
  Qed.

  Lemma scaled_small (x : Bf) :
    scale_ok x -> (Rabs (B2R x * bpow radix2 k) < bpow radix2 1024)%R.
  Proof.
    destruct x as [s|s| |s m e B]; cbn [scale_ok]; try tauto.
    - intros _. cbn [B2R]. rewrite Rmult_0_l, Rabs_R0. apply bpow_gt_0.
    - intros [H1 H2]. cbn [B2R]. rewrite scaled_F2R. apply F2R_lt_bpow. cbn [Fnum Fexp].
      rewrite abs_cond_Zopp. cbn [Z.abs].
      pose proof (bounded_digits m e B) as D.
      pose proof (Zdigits_correct radix2 (Zpos m)) as [_ U]. cbn [Z.abs] in U.
      apply Z.lt_le_trans with (1 := U).
      change (Zpower radix2) with (Z.pow 2). apply Z.pow_le_mono_r; lia.
  Qed.

  Lemma scaled_exact (x : Bf) :
    is_finite x = true -> scale_ok x ->
    is_finite (Bmult mode_NE x c) = true /\ B2R (Bmult mode_NE x c) = (B2R x * bpow radix2 k)%R.
  Proof.
    intros Fx Ok. pose proof (Bmult_correct 53 1024 _ _ mode_NE x c) as H.
    rewrite c_val in H. cbn [round_mode] in H.
    rewrite (round_generic radix2 fexp64 ZnearestE _ (scaled_format x Ok)) in H.
    rewrite (Rlt_bool_true _ _ (scaled_small x Ok)) in H.
    destruct H as (H1 & H2 & _). rewrite H2, Fx, c_fin. auto.
  Qed.

  Lemma scaled_compare (x y : Bf) :
    is_finite x = true -> is_finite y = true -> scale_ok x -> scale_ok y ->
    SFltb (B2SF (Bmult mode_NE x c)) (B2SF (Bmult mode_NE y c)) = SFltb (B2SF x) (B2SF y)
    /\ SFleb (B2SF (Bmult mode_NE x c)) (B2SF (Bmult mode_NE y c)) = SFleb (B2SF x) (B2SF y)
    /\ SFeqb (B2SF (Bmult mode_NE x c)) (B2SF (Bmult mode_NE y c)) = SFeqb (B2SF x) (B2SF y).
  Proof.
    intros Fx Fy Ox Oy.
    destruct (scaled_exact x Fx Ox) as (Fx' & Rx). destruct (scaled_exact y Fy Oy) as (Fy' & Ry).
    assert (Hp : (0 < bpow radix2 k)%R) by apply bpow_gt_0.
    repeat split.
    - change (Bltb (Bmult mode_NE x c) (Bmult mode_NE y c) = Bltb x y).
      rewrite !Bltb_correct by assumption. rewrite Rx, Ry. now apply Rlt_bool_scale.
    - change (Bleb (Bmult mode_NE x c) (Bmult mode_NE y c) = Bleb x y).
      rewrite !Bleb_correct by assumption. rewrite Rx, Ry. now apply Rle_bool_scale.
    - change (Beqb (Bmult mode_NE x c) (Bmult mode_NE y c) = Beqb x y).
      rewrite !Beqb_correct by assumption. rewrite Rx, Ry. now apply Req_bool_scale.
  Qed.
End Scale.

(** on the values of the model: valid finite binary64 values whose scaled
    exponent stays in range *)
Definition scale_ok_sf (k : Z) (x : b64) : Prop :=
  valid x = true /\
  match x with
  | S754_zero _ => True
  | S754_finite _ _ e => -1074 <= e + k /\ e + k + 53 <= 1024
  | _ => False
  end.

Lemma utest_scale_pow2 (k : Z) (c : b64) (x1 x2 : list b64) :
  valid c = true -> SF2R radix2 c = bpow radix2 k ->
  (forall x, In x (x1 ++ x2) -> scale_ok_sf k x) ->
  utest (map (fun x => b64_mul x c) x1) (map (fun x => b64_mul x c) x2) = utest x1 x2.
Proof.
  intros Vc Rc Hall.
  set (cB := SF2B c Vc).
  assert (EcB : B2SF cB = c) by apply B2SF_SF2B.
  assert (RcB : B2R cB = bpow radix2 k) by (unfold cB; rewrite B2R_SF2B; exact Rc).
  assert (FcB : is_finite cB = true).
  { destruct cB as [s|s| |s m e B] eqn:E; try reflexivity; exfalso; cbn in RcB;
      pose proof (bpow_gt_0 radix2 k); lra. }
  apply utest_monotone_invariant. intros x y Hx Hy.
  destruct (Hall x Hx) as (Vx & Ox). destruct (Hall y Hy) as (Vy & Oy).
  set (xB := SF2B x Vx). set (yB := SF2B y Vy).
  assert (Ex : B2SF xB = x) by apply B2SF_SF2B. assert (Ey : B2SF yB = y) by apply B2SF_SF2B.
  assert (Fx : is_finite xB = true /\ scale_ok k xB).
  { unfold xB. destruct x as [s|s| |s m e]; cbn in Ox |- *; try tauto. }
  assert (Fy : is_finite yB = true /\ scale_ok k yB).
  { unfold yB. destruct y as [s|s| |s m e]; cbn in Oy |- *; try tauto. }
  rewrite <- Ex, <- Ey, <- EcB, !b64_mul_Bmult.
  destruct Fx as (Fx & Okx). destruct Fy as (Fy & Oky).
  exact (scaled_compare k cB FcB RcB xB yB Fx Fy Okx Oky).
Qed.
