(** Proofs about the rendering rules and the threshold plumbing of
    Model/BenchMath.v: FormatDelta, PctRangeString, Compare's Alpha. *)
From Perf Require Import Base.Bytes Base.B64 Base.FmtPct Model.StatsF Model.MoreMathU Model.BenchMath.
Local Open Scope Z_scope.

(** ** shapes of the formatted numbers *)
Definition is_sign_byte (b : byte) : Prop := b = x2b \/ b = x2d.

Lemma fmt_fixed_plus_head prec x :
  exists b r, fmt_fixed true prec x = b :: r /\ is_sign_byte b.
Proof.
  unfold is_sign_byte. destruct x as [s|s| |s m e]; try destruct s; cbn;
    eexists _, _; (split; [reflexivity|auto]).
Qed.

Lemma fmt_plus_pct_not_tilde prec x : fmt_fixed true prec x ++ pct_sign <> bs "~".
Proof.
  destruct (fmt_fixed_plus_head prec x) as (b & r & -> & _). destruct r; cbn; discriminate.
Qed.

Lemma fmt_plus_pct_not_quest prec x : fmt_fixed true prec x ++ pct_sign <> bs "?".
Proof.
  destruct (fmt_fixed_plus_head prec x) as (b & r & -> & _). destruct r; cbn; discriminate.
Qed.

Lemma fmt_plus_pct_not_zero prec x : fmt_fixed true prec x ++ pct_sign <> bs "0.00%".
Proof.
  destruct (fmt_fixed_plus_head prec x) as (b & r & -> & [-> | ->]); cbn; discriminate.
Qed.

(** ** FormatDelta *)
Inductive delta_class := DTilde | DZero | DQuest | DPct.

(** the documented rule, as a classification of the inputs *)
Definition delta_class_of (c : comparison) (old new : b64) : delta_class :=
  if b64_gt (c_p c) (c_alpha c) then DTilde
  else if b64_eq old new then DZero
  else if b64_eq old f_zero then DQuest
  else DPct.

Definition delta_pct (old new : b64) : b64 :=
  b64_mul (b64_sub (b64_div new old) b64_one) f_hundred.

Lemma format_delta_by_class c old new :
  format_delta c old new =
  match delta_class_of c old new with
  | DTilde => bs "~"
  | DZero => bs "0.00%"
  | DQuest => bs "?"
  | DPct => fmt_fixed true 2 (delta_pct old new) ++ pct_sign
  end.
Proof.
  unfold format_delta, delta_class_of, delta_pct.
  destruct (b64_gt _ _); [reflexivity|].
  destruct (b64_eq old new); [reflexivity|].
  destruct (b64_eq old f_zero); reflexivity.
Qed.

(** the four renderings are pairwise different, so each output identifies its case *)
Lemma format_delta_cases c old new :
  (format_delta c old new = bs "~" <-> b64_gt (c_p c) (c_alpha c) = true)
  /\ (format_delta c old new = bs "0.00%" <->
      b64_gt (c_p c) (c_alpha c) = false /\ b64_eq old new = true)
  /\ (format_delta c old new = bs "?" <->
      b64_gt (c_p c) (c_alpha c) = false /\ b64_eq old new = false /\ b64_eq old f_zero = true)
  /\ (b64_gt (c_p c) (c_alpha c) = false -> b64_eq old new = false -> b64_eq old f_zero = false ->
      format_delta c old new = fmt_fixed true 2 (delta_pct old new) ++ pct_sign).
Proof.
  rewrite format_delta_by_class. unfold delta_class_of.
  destruct (b64_gt (c_p c) (c_alpha c)) eqn:Hgt;
    [|destruct (b64_eq old new) eqn:Heq; [|destruct (b64_eq old f_zero) eqn:Hz]].
  - repeat split; try discriminate; intuition discriminate.
  - repeat split; try discriminate; intuition discriminate.
  - repeat split; try discriminate; intuition discriminate.
  - pose proof (fmt_plus_pct_not_tilde 2 (delta_pct old new)).
    pose proof (fmt_plus_pct_not_quest 2 (delta_pct old new)).
    pose proof (fmt_plus_pct_not_zero 2 (delta_pct old new)).
    repeat split; try discriminate; try tauto; intuition discriminate.
Qed.

(** a difference is shown (anything but "~") exactly when p does not exceed alpha *)
Lemma delta_shown_iff c old new :
  format_delta c old new <> bs "~" <-> b64_gt (c_p c) (c_alpha c) = false.
Proof.
  destruct (format_delta_cases c old new) as (H & _).
  destruct (b64_gt (c_p c) (c_alpha c)); split; intros; try congruence.
  - exfalso. apply H0. apply H. reflexivity.
  - intros E. apply H in E. discriminate.
Qed.

(** ** the threshold travels with the first sample *)
Lemma compare_threshold_carried uf wf a s1 s2 c :
  a <> AExact ->
  compare uf wf a s1 s2 = Some c ->
  c_alpha c = compare_alpha (s_thr s1)
  /\ c_n1 c = zlen (s_values s1) /\ c_n2 c = zlen (s_values s2).
Proof.
  intros Ha. destruct a; [|congruence|]; cbn [compare].
  - unfold compare_nothing. destruct (uf _ _).
    + intros [= <-]; cbn; auto.
    + destruct (b64_gt _ _).
      * destruct (utest_samples _). intros [= <-]; cbn; auto.
      * intros [= <-]; cbn; auto.
    + discriminate.
  - unfold compare_normal. destruct (wf _ _); try discriminate; intros [= <-]; cbn; auto.
Qed.

Lemma compare_exact_is_exact uf wf s1 s2 :
  compare uf wf AExact s1 s2 =
  Some (mkCmp f_zero (zlen (s_values s1)) (zlen (s_values s2)) f_zero []).
Proof. reflexivity. Qed.

(** for the models that test, "~" is shown exactly when p exceeds the first sample's threshold *)
Lemma compare_delta_rule uf wf a s1 s2 c old new :
  a <> AExact ->
  compare uf wf a s1 s2 = Some c ->
  (format_delta c old new = bs "~" <-> b64_gt (c_p c) (compare_alpha (s_thr s1)) = true).
Proof.
  intros Ha Hc. destruct (compare_threshold_carried _ _ _ _ _ _ Ha Hc) as (<- & _).
  apply format_delta_cases.
Qed.

(** ** PctRangeString *)
Lemma sign_f_spec x :
  sign_f x = match x with
             | S754_nan => SgnNaN
             | S754_zero _ => SgnZero
             | S754_infinity s | S754_finite s _ _ => if s then SgnNeg else SgnPos
             end.
Proof. destruct x as [s|s| |s m e]; try destruct s; reflexivity. Qed.

Inductive pct_class := PInf | PQuest | PZero | PPct.

Definition pct_class_of (c lo hi : b64) : pct_class :=
  if b64_is_inf lo || b64_is_inf hi then PInf
  else if sign_ne (sign_f c) (sign_f lo) || sign_ne (sign_f c) (sign_f hi) then PQuest
  else if b64_eq c f_zero then PZero
  else PPct.

Definition pct_value (c lo hi : b64) : b64 :=
  b64_mul f_hundred (b64_max (b64_sub (b64_div hi c) b64_one) (b64_sub b64_one (b64_div lo c))).

Lemma pct_range_by_class s :
  pct_range_string s =
  match pct_class_of (sm_center s) (sm_lo s) (sm_hi s) with
  | PInf => inf_symbol
  | PQuest => bs "?"
  | PZero => bs "0%"
  | PPct => fmt_fixed false 0 (pct_value (sm_center s) (sm_lo s) (sm_hi s)) ++ pct_sign
  end.
Proof.
  unfold pct_range_string, pct_class_of, pct_value.
  destruct (_ || _); [reflexivity|].
  destruct (_ || _); [reflexivity|].
  destruct (b64_eq _ _); reflexivity.
Qed.

(** digits *)
Definition is_digit_byte (b : byte) : Prop :=
  b = x30 \/ b = x31 \/ b = x32 \/ b = x33 \/ b = x34 \/ b = x35 \/ b = x36 \/ b = x37 \/ b = x38 \/ b = x39.

Lemma digit_byte_is_digit d : is_digit_byte (digit_byte d).
Proof.
  unfold is_digit_byte, digit_byte.
  destruct d as [|p|p]; auto.
  do 4 (destruct p as [p|p|]; auto 12).
Qed.

Lemma dec_fuel_head fuel z acc :
  (fuel <> O \/ exists b r, acc = b :: r /\ is_digit_byte b) ->
  (forall b r, acc = b :: r -> is_digit_byte b) ->
  exists b r, dec_fuel fuel z acc = b :: r /\ is_digit_byte b.
Proof.
  revert z acc. induction fuel as [|f IH]; intros z acc H1 H2.
  - destruct H1 as [H1|(b & r & -> & Hb)]; [congruence|]. cbn. eauto.
  - cbn. destruct (z / 10 =? 0).
    + eexists _, _. split; [reflexivity|apply digit_byte_is_digit].
    + apply IH.
      * right. eexists _, _. split; [reflexivity|apply digit_byte_is_digit].
      * intros b r [= <- _]. apply digit_byte_is_digit.
Qed.

Lemma dec_nonneg_head z : exists b r, dec_nonneg z = b :: r /\ is_digit_byte b.
Proof. apply dec_fuel_head; [left; discriminate|intros ? ? [=]]. Qed.

Lemma fixed_abs0_head n : exists b r, fixed_abs 0 n = b :: r /\ is_digit_byte b.
Proof.
  unfold fixed_abs. destruct (dec_nonneg_head n) as (b & r & -> & Hb).
  cbn [length]. replace (1 - S (length r))%nat with O by lia. cbn. eauto.
Qed.

(** first byte of "%.0f": a digit, '-', 'N' or '+' *)
Lemma fmt0_head x :
  exists b r, fmt_fixed false 0 x = b :: r /\ (is_digit_byte b \/ b = x2d \/ b = x4e \/ b = x2b).
Proof.
  destruct x as [s|s| |s m e].
  - unfold fmt_fixed. destruct (fixed_abs0_head 0) as (b & r & E & Hb). rewrite E.
    destruct s; cbn; eauto 10.
  - destruct s; cbn; eauto 10.
  - cbn; eauto 10.
  - unfold fmt_fixed. destruct (fixed_abs0_head (scaled_abs (Z.of_nat 0) m e)) as (b & r & E & Hb).
    rewrite E. destruct s; cbn; eauto 10.
Qed.

Lemma fmt0_pct_not_inf x : fmt_fixed false 0 x ++ pct_sign <> inf_symbol.
Proof.
  destruct (fmt0_head x) as (b & r & -> & Hb). cbn. intros [= -> _].
  unfold is_digit_byte in Hb. intuition discriminate.
Qed.

Lemma fmt0_pct_not_quest x : fmt_fixed false 0 x ++ pct_sign <> bs "?".
Proof.
  destruct (fmt0_head x) as (b & r & -> & Hb). destruct r; cbn; discriminate.
Qed.

Lemma pct_range_cases s :
  let c := sm_center s in
  let lo := sm_lo s in
  let hi := sm_hi s in
  (pct_range_string s = inf_symbol <-> b64_is_inf lo || b64_is_inf hi = true)
  /\ (pct_range_string s = bs "?" <->
      b64_is_inf lo || b64_is_inf hi = false
      /\ sign_ne (sign_f c) (sign_f lo) || sign_ne (sign_f c) (sign_f hi) = true)
  /\ (pct_class_of c lo hi = PZero -> pct_range_string s = bs "0%")
  /\ (pct_class_of c lo hi = PPct ->
      pct_range_string s = fmt_fixed false 0 (pct_value c lo hi) ++ pct_sign).
Proof.
  cbn zeta. rewrite pct_range_by_class. unfold pct_class_of.
  destruct (b64_is_inf (sm_lo s) || b64_is_inf (sm_hi s)) eqn:Hinf;
    [|destruct (sign_ne _ _ || sign_ne _ _) eqn:Hs; [|destruct (b64_eq _ _) eqn:Hz]].
  - repeat split; try discriminate; intuition discriminate.
  - repeat split; try discriminate; intuition discriminate.
  - repeat split; try discriminate; intuition discriminate.
  - pose proof (fmt0_pct_not_inf (pct_value (sm_center s) (sm_lo s) (sm_hi s))).
    pose proof (fmt0_pct_not_quest (pct_value (sm_center s) (sm_lo s) (sm_hi s))).
    repeat split; try discriminate; try tauto; intuition discriminate.
Qed.

(** what the classes mean for the three floats *)
Lemma pct_class_zero_all_zero c lo hi :
  pct_class_of c lo hi = PZero ->
  b64_is_zero c = true /\ b64_is_zero lo = true /\ b64_is_zero hi = true.
Proof.
  unfold pct_class_of. rewrite !sign_f_spec.
  destruct c as [sc|sc| |sc mc ec], lo as [sl|sl| |sl ml el], hi as [sh|sh| |sh mh eh];
    try destruct sc; try destruct sl; try destruct sh; cbn; try discriminate; auto.
Qed.

Lemma pct_class_pct_same_sign c lo hi :
  pct_class_of c lo hi = PPct ->
  b64_is_finite lo = true /\ b64_is_finite hi = true
  /\ b64_is_zero c = false /\ b64_is_nan c = false
  /\ b64_signbit lo = b64_signbit c /\ b64_signbit hi = b64_signbit c
  /\ b64_is_zero lo = false /\ b64_is_zero hi = false.
Proof.
  unfold pct_class_of. rewrite !sign_f_spec.
  destruct c as [sc|sc| |sc mc ec], lo as [sl|sl| |sl ml el], hi as [sh|sh| |sh mh eh];
    try destruct sc; try destruct sl; try destruct sh; cbn; try discriminate; auto 10.
Qed.

Lemma pct_class_quest_meaning c lo hi :
  pct_class_of c lo hi = PQuest <->
  b64_is_inf lo = false /\ b64_is_inf hi = false
  /\ (sign_f c = SgnNaN \/ sign_f lo = SgnNaN \/ sign_f hi = SgnNaN
      \/ sign_f c <> sign_f lo \/ sign_f c <> sign_f hi).
Proof.
  unfold pct_class_of. rewrite !sign_f_spec.
  destruct c as [sc|sc| |sc mc ec], lo as [sl|sl| |sl ml el], hi as [sh|sh| |sh mh eh];
    try destruct sc; try destruct sl; try destruct sh; cbn;
    (split; [intros H; try discriminate; repeat split; auto; try (right; right; right; left; discriminate);
             try (right; right; right; right; discriminate); auto 6
            |intros (H1 & H2 & H3); try discriminate; auto;
             destruct H3 as [H3|[H3|[H3|[H3|H3]]]]; congruence]).
Qed.

(** ** FmtPct and the shared FmtFixed print the same scaled integer: the exact
    value times 10^prec rounded half-to-even (FmtFixed's characterising lemmas,
    Proofs/FmtFixed.v, therefore apply to what C13 renders). The digit strings
    are compared on every rendered number by the correspondence run. *)
From Perf Require Base.FmtFixed.

Lemma scaled_abs_is_fx_mag prec m e :
  scaled_abs (Z.of_nat prec) m e = FmtFixed.fx_mag m e prec.
Proof.
  unfold scaled_abs, FmtFixed.fx_mag, rhe_div, FmtFixed.rne_div.
  destruct e as [|p|p]; reflexivity.
Qed.
