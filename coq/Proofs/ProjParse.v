(** Proofs about Model/ProjParse.v: a canonically quoted key is a projection on
    exactly that key; the projection parser's fuel is always enough; error
    offsets lie inside the text. *)
From Perf Require Import Base.Bytes Base.Rune Model.Unquote Model.Tok Model.FilterAst Model.FilterParse
  Model.ProjParse Proofs.Unquote Proofs.Tok Proofs.FilterParse.

Section Proofs.
Variable is_space : N -> bool.
Variable re_ok : bytes -> bool.

Section Denote.
Hypothesis dquote_not_space : is_space 34 = false.

Lemma proj_loop_quoted n0 f k :
  proj_loop is_space re_ok n0 (S (S f)) (cquote k ++ []) None [] =
  Some ([mkField k ord_first [] (off_of n0 (cquote k ++ [])) (off_of n0 (cquote k ++ []) + length k)], [], None).
Proof.
  cbn [proj_loop].
  rewrite (quoted_word_roundtrip is_space re_ok n0 dquote_not_space false k).
  cbn [t_kind kind_eqb_op andb]. unfold parse_field.
  rewrite (quoted_word_roundtrip is_space re_ok n0 dquote_not_space false k).
  cbn [t_kind is_word negb t_text t_off]. rewrite next_nil. cbn [t_kind eof_at kind_eqb_op negb].
  rewrite next_nil. cbn [t_kind eof_at app]. reflexivity.
Qed.

Theorem projection_denotes_string k :
  parse_projection is_space re_ok (cquote k) = Ok [mkField k ord_first [] 0 (length k)].
Proof.
  unfold parse_projection, parse_projection_fuel, proj_fuel_for.
  replace (length (cquote k) + 2) with (S (S (length (cquote k)))) by lia.
  pose proof (proj_loop_quoted (length (cquote k)) (length (cquote k)) k) as H.
  rewrite app_nil_r in H. rewrite H.
  unfold tok_end. rewrite next_nil. cbn [t_kind eof_at].
  unfold off_of. rewrite Nat.sub_diag. reflexivity.
Qed.

Corollary new_projection_denotes_string k :
  k <> [] -> k <> key_unit ->
  new_projection is_space re_ok (cquote k) = Ok [mkField k ord_first [] 0 (length k)].
Proof.
  intros Hk Hu. unfold new_projection. rewrite projection_denotes_string.
  cbn [check_fields]. unfold check_field. cbn [pf_order pf_key pf_koff pf_ooff].
  replace (known_order ord_first) with true by reflexivity. cbn [negb].
  replace (beq ord_first ord_fixed) with false by reflexivity.
  destruct (beq k key_config); [reflexivity|].
  destruct (beq k (bs ".fullname")); [reflexivity|].
  destruct (beq_spec k key_unit) as [E|_]; [contradiction|].
  destruct k; [contradiction|reflexivity].
Qed.
End Denote.

Section Total.
Variable n0 : nat.
Notation err_le := (err_le n0).

Definition lpost {A} (q : bytes) (e : err) (res : option (A * bytes * err)) : Prop :=
  match res with
  | None => False
  | Some (_, r, e') => length r <= length q /\ (err_le e -> err_le e')
  end.

Ltac nx allow q e t r q' e' :=
  let Hn := fresh "Hn" in
  pose proof (next_spec is_space re_ok n0 allow q e) as Hn;
  destruct (Tok.next is_space re_ok n0 allow q e) as [[[t r] q'] e'];
  cbn [next_post] in Hn;
  let H1 := fresh "Hq" in let H2 := fresh "Hr" in let H3 := fresh "Hk" in
  let H4 := fresh "He" in let H5 := fresh "Hs" in
  destruct Hn as (H1 & H2 & H3 & H4 & H5).

Lemma word_not_eof k : is_word k = true -> k <> KEOF.
Proof. destruct k; cbn; congruence. Qed.

Lemma fixed_loop_post f : forall q e fixed,
  length q < f -> lpost q e (fixed_loop is_space re_ok n0 f q e fixed).
Proof.
  induction f as [|f IH]; intros q e fixed Hf; [lia|].
  cbn [fixed_loop].
  nx false q e t t5 q' e1.
  destruct (is_word (t_kind t)) eqn:Ew.
  - specialize (Hk (word_not_eof _ Ew)).
    specialize (IH t5 e1 (fixed ++ [t_text t])).
    destruct (fixed_loop is_space re_ok n0 f t5 e1 (fixed ++ [t_text t])) as [[[x r] e2]|];
      cbn in IH |- *; [|exfalso; apply IH; lia].
    destruct IH as [I1 I2]; [lia|]. split; [lia|tauto].
  - destruct (kind_eqb_op (t_kind t) c_rpar).
    + destruct fixed; unfold lpost.
      * split; [cbn [length]; lia|]. intros H. apply set_err_le. auto.
      * split; [lia|exact He].
    + unfold lpost. split; [cbn [length]; lia|]. intros H. apply set_err_le. auto.
Qed.

(** a field either consumes something or ends at the end of the text *)
Lemma parse_field_post f q e :
  length q < f ->
  match parse_field is_space re_ok n0 f q e with
  | None => False
  | Some (_, r, e') => (r = [] \/ length r < length q) /\ (err_le e -> err_le e')
  end.
Proof.
  intros Hf. unfold parse_field.
  nx false q e key t2 q' e1.
  destruct (is_word (t_kind key)) eqn:Ew; cbn [negb].
  2:{ split; [auto|intros; apply set_err_le; tauto]. }
  specialize (Hk (word_not_eof _ Ew)).
  nx false t2 e1 sep t3 t2' e2.
  destruct (kind_eqb_op (t_kind sep) c_at) eqn:Eat; cbn [negb].
  2:{ split; [right; lia|tauto]. }
  assert (Hsep : t_kind sep <> KEOF) by (destruct (t_kind sep); cbn in Eat; congruence).
  specialize (Hk0 Hsep).
  nx false t3 e2 order t4 t3' e3.
  destruct (is_word (t_kind order)) eqn:Eo.
  { specialize (Hk1 (word_not_eof _ Eo)). split; [right; lia|tauto]. }
  destruct (kind_eqb_op (t_kind order) c_lpar) eqn:El.
  2:{ split; [auto|intros; apply set_err_le; tauto]. }
  assert (Hord : t_kind order <> KEOF) by (destruct (t_kind order); cbn in El; congruence).
  specialize (Hk1 Hord).
  pose proof (fixed_loop_post f t4 e3 []) as Hfx.
  destruct (fixed_loop is_space re_ok n0 f t4 e3 []) as [[[fx r] e4]|]; cbn in Hfx |- *;
    [|apply Hfx; lia].
  destruct Hfx as [F1 F2]; [lia|]. split; [right; lia|tauto].
Qed.

Lemma proj_loop_post f : forall q e fields,
  length q + 1 < f -> lpost q e (proj_loop is_space re_ok n0 f q e fields).
Proof.
  induction f as [|f IH]; intros q e fields Hf; [lia|].
  cbn [proj_loop].
  nx false q e t toks2 q' e1.
  destruct (t_kind t) eqn:Ek; try (cbn; split; [lia|tauto]);
  (match type of Hk with ?a <> _ -> _ => assert (Hne : a <> KEOF) by congruence end; specialize (Hk Hne);
   match goal with |- context [parse_field _ _ _ _ ?q1 _] => set (q1' := q1) end;
   assert (Hq1 : length q1' <= length q')
     by (subst q1'; destruct (kind_eqb_op _ c_comma && _); lia);
   pose proof (parse_field_post f q1' e1) as Hpf;
   destruct (parse_field is_space re_ok n0 f q1' e1) as [[[fld q2] e2]|]; [|apply Hpf; lia];
   destruct Hpf as [P1 P2]; [lia|];
   specialize (IH q2 e2 (fields ++ [fld]));
   destruct (proj_loop is_space re_ok n0 f q2 e2 (fields ++ [fld])) as [[[x r] e3]|];
     cbn in IH |- *;
   [ destruct IH as [I1 I2]; [destruct P1 as [->|P1]; cbn; lia|];
     split; [destruct P1 as [->|P1]; cbn in *; lia|tauto]
   | apply IH; destruct P1 as [->|P1]; cbn; lia ]).
Qed.

End Total.

Theorem parse_projection_total q : parse_projection is_space re_ok q <> OutOfFuel.
Proof.
  unfold parse_projection, parse_projection_fuel, proj_fuel_for.
  pose proof (proj_loop_post (length q) (length q + 2) q None []) as H.
  destruct (proj_loop is_space re_ok (length q) (length q + 2) q None []) as [[[x r] e]|]; cbn in H.
  - destruct (tok_end is_space re_ok (length q) r e); discriminate.
  - exfalso. apply H. lia.
Qed.

Theorem parse_projection_error_offset q off :
  parse_projection is_space re_ok q = Err off -> off <= length q.
Proof.
  unfold parse_projection, parse_projection_fuel, proj_fuel_for.
  pose proof (proj_loop_post (length q) (length q + 2) q None []) as H.
  destruct (proj_loop is_space re_ok (length q) (length q + 2) q None []) as [[[x r] e]|]; cbn in H;
    [|discriminate].
  destruct H as [_ He]; [lia|].
  pose proof (tok_end_le is_space re_ok (length q) r e (He I)) as Hle.
  destruct (tok_end is_space re_ok (length q) r e); [|discriminate].
  intros [= <-]. exact Hle.
Qed.

End Proofs.
