(** Proofs about the ordering of keys (C09). *)
From Coq Require Import Permutation Sorting.Sorted.
From Perf Require Import Base.Bytes Base.B64 Model.Name Model.Key Model.Projection Model.Sort
  Proofs.Key Proofs.Projection.
Local Open Scope Z_scope.

(** ** a comparison function followed by plain string order *)

(** what [less] asks of one field: [a] before [b] *)
Definition prec (cmp : bytes -> bytes -> Z) (a b : bytes) : Prop :=
  cmp a b < 0 \/ (cmp a b = 0 /\ bcmp a b = Lt).

(** the comparison function is (the sign of) a total preorder *)
Record consistent (cmp : bytes -> bytes -> Z) : Prop := {
  c_refl : forall a, cmp a a = 0;
  c_anti : forall a b, cmp a b < 0 <-> 0 < cmp b a;
  c_trans : forall a b c, cmp a b <= 0 -> cmp b c <= 0 -> cmp a c <= 0
}.

Lemma bltb_lt a b : bltb a b = true <-> bcmp a b = Lt.
Proof. unfold bltb. destruct (bcmp a b); split; congruence. Qed.

Lemma val_less_prec cmp a b : val_less cmp a b = true <-> prec cmp a b.
Proof.
  unfold val_less, prec. destruct (Z.eqb_spec (cmp a b) 0) as [E|E].
  - rewrite bltb_lt. split; [intros H; right; auto|intros [H|[_ H]]; [lia|auto]].
  - rewrite Z.ltb_lt. split; [auto|intros [H|[H _]]; [auto|lia]].
Qed.

Section Consistent.
Variable cmp : bytes -> bytes -> Z.
Hypothesis C : consistent cmp.

Lemma c_zero_sym a b : cmp a b = 0 -> cmp b a = 0.
Proof.
  intros H. pose proof (c_anti _ C a b). pose proof (c_anti _ C b a). lia.
Qed.

Lemma c_lt_le a b c : cmp a b < 0 -> cmp b c <= 0 -> cmp a c < 0.
Proof.
  intros H1 H2. destruct (Z_lt_ge_dec (cmp a c) 0) as [|Hge]; auto. exfalso.
  assert (cmp c a <= 0) as H3.
  { pose proof (c_anti _ C a c). lia. }
  pose proof (c_trans _ C b c a H2 H3) as H4. pose proof (c_anti _ C a b). lia.
Qed.

Lemma c_le_lt a b c : cmp a b <= 0 -> cmp b c < 0 -> cmp a c < 0.
Proof.
  intros H1 H2. destruct (Z_lt_ge_dec (cmp a c) 0) as [|Hge]; auto. exfalso.
  assert (cmp c a <= 0) as H3.
  { pose proof (c_anti _ C a c). lia. }
  pose proof (c_trans _ C c a b H3 H1) as H4. pose proof (c_anti _ C b c). lia.
Qed.

Lemma prec_irrefl a : ~ prec cmp a a.
Proof.
  intros [H|[_ H]].
  - rewrite (c_refl _ C) in H. lia.
  - assert (bcmp a a = Eq) by now apply bcmp_eq. congruence.
Qed.

Lemma prec_trans a b c : prec cmp a b -> prec cmp b c -> prec cmp a c.
Proof.
  intros [H1|[H1 B1]] [H2|[H2 B2]].
  - left. apply c_lt_le with b; auto. lia.
  - left. apply c_lt_le with b; auto. lia.
  - left. apply c_le_lt with b; auto. lia.
  - right. split; [|eapply bcmp_trans_lt; eauto].
    assert (cmp a c <= 0) by (apply (c_trans _ C a b c); lia).
    assert (cmp c a <= 0).
    { apply (c_trans _ C c b a); [rewrite (c_zero_sym b c)|rewrite (c_zero_sym a b)]; auto; lia. }
    pose proof (c_anti _ C a c). lia.
Qed.

Lemma prec_total a b : a <> b -> prec cmp a b \/ prec cmp b a.
Proof.
  intros Hne. destruct (Z.lt_trichotomy (cmp a b) 0) as [H|[H|H]].
  - left; left; auto.
  - pose proof (c_zero_sym _ _ H) as H'. destruct (bcmp a b) eqn:E.
    + apply bcmp_eq in E. contradiction.
    + left; right; auto.
    + right; right. split; auto. rewrite bcmp_antisym, E. reflexivity.
  - right; left. apply (c_anti _ C). lia.
Qed.

Lemma prec_asym a b : prec cmp a b -> ~ prec cmp b a.
Proof. intros H1 H2. apply (prec_irrefl a). eapply prec_trans; eauto. Qed.

End Consistent.

(** ** the four kinds of order are consistent *)
Lemma consistent_rank (r : bytes -> nat) :
  consistent (fun a b => Z.of_nat (r a) - Z.of_nat (r b)).
Proof. constructor; intros; lia. Qed.

Lemma consistent_first obs : consistent (cmp_first obs).
Proof. apply (consistent_rank (obs_rank obs)). Qed.

Lemma consistent_fixed l : consistent (cmp_fixed l).
Proof. apply (consistent_rank (fixed_rank l)). Qed.

Lemma consistent_const : consistent (fun _ _ => 0).
Proof. constructor; intros; lia. Qed.

Lemma consistent_alpha : consistent cmp_alpha.
Proof.
  unfold cmp_alpha. constructor.
  - intros a. assert (bcmp a a = Eq) as -> by now apply bcmp_eq. reflexivity.
  - intros a b. rewrite (bcmp_antisym a b). destruct (bcmp a b); cbn; lia.
  - intros a b c. destruct (bcmp a b) eqn:E1; destruct (bcmp b c) eqn:E2; try lia; intros _ _.
    + apply bcmp_eq in E1, E2. subst. assert (bcmp c c = Eq) as -> by now apply bcmp_eq. lia.
    + apply bcmp_eq in E1. subst. rewrite E2. lia.
    + apply bcmp_eq in E2. subst. rewrite E1. lia.
    + rewrite (bcmp_trans_lt _ _ _ E1 E2). lia.
Qed.

(** *** num: what is assumed of the oracle values *)
Lemma b64_lt_nan_l y : b64_lt S754_nan y = false.
Proof. reflexivity. Qed.
Lemma b64_lt_nan_r x : b64_lt x S754_nan = false.
Proof. destruct x as [s|s| |s m e]; try destruct s; reflexivity. Qed.

Section Num.
Variable parse_float : bytes -> option b64.
Variable pow : bool -> nat -> b64.

(** the numbers the fuzzy parser can produce *)
Definition numval (x : b64) : Prop := exists a, parse_num parse_float pow a = Some x.

(** On those values, binary64 [<] is a strict weak order: irreflexive,
    transitive, and "neither is smaller" is transitive among non-NaNs. (True of
    IEEE comparison on every well-formed binary64 value; not proved here for
    [spec_float], whose comparison is only meaningful on canonical
    representations — it is re-checked on the actual values of every generated
    case by RunC09.float_order_ok.) *)
Hypothesis lt_irrefl : forall x, numval x -> b64_lt x x = false.
Hypothesis lt_trans : forall x y z, numval x -> numval y -> numval z ->
  b64_lt x y = true -> b64_lt y z = true -> b64_lt x z = true.
Hypothesis incomp_trans : forall x y z, numval x -> numval y -> numval z ->
  b64_is_nan x = false -> b64_is_nan y = false -> b64_is_nan z = false ->
  b64_lt x y = false -> b64_lt y x = false -> b64_lt y z = false -> b64_lt z y = false ->
  b64_lt x z = false /\ b64_lt z x = false.

Lemma nan_is x : b64_is_nan x = true -> x = S754_nan.
Proof. destruct x; cbn; congruence. Qed.

Lemma lt_asym x y : numval x -> numval y -> b64_lt x y = true -> b64_lt y x = false.
Proof.
  intros Vx Vy H. destruct (b64_lt y x) eqn:E; auto.
  pose proof (lt_trans x y x Vx Vy Vx H E) as H1. rewrite lt_irrefl in H1; auto.
Qed.

Lemma lt_notnan x y : b64_lt x y = true -> b64_is_nan x = false /\ b64_is_nan y = false.
Proof.
  intros H. split.
  - destruct (b64_is_nan x) eqn:E; auto. apply nan_is in E. subst. now rewrite b64_lt_nan_l in H.
  - destruct (b64_is_nan y) eqn:E; auto. apply nan_is in E. subst. now rewrite b64_lt_nan_r in H.
Qed.

(** x < y and y ~ z (incomparable non-NaNs) give x < z; symmetrically *)
Lemma lt_incomp x y z : numval x -> numval y -> numval z ->
  b64_is_nan z = false ->
  b64_lt x y = true -> b64_lt y z = false -> b64_lt z y = false -> b64_lt x z = true.
Proof.
  intros Vx Vy Vz Nz H1 H2 H3. destruct (lt_notnan _ _ H1) as [Nx Ny].
  destruct (b64_lt x z) eqn:E; auto. exfalso.
  destruct (b64_lt z x) eqn:E2.
  - pose proof (lt_trans z x y Vz Vx Vy E2 H1). congruence.
  - destruct (incomp_trans y z x Vy Vz Vx Ny Nz Nx H2 H3 E2 E) as [A B]. congruence.
Qed.

Lemma incomp_lt x y z : numval x -> numval y -> numval z ->
  b64_is_nan x = false ->
  b64_lt x y = false -> b64_lt y x = false -> b64_lt y z = true -> b64_lt x z = true.
Proof.
  intros Vx Vy Vz Nx H1 H2 H3. destruct (lt_notnan _ _ H3) as [Ny Nz].
  destruct (b64_lt x z) eqn:E; auto. exfalso.
  destruct (b64_lt z x) eqn:E2.
  - pose proof (lt_trans y z x Vy Vz Vx H3 E2). congruence.
  - destruct (incomp_trans z x y Vz Vx Vy Nz Nx Ny E2 E H1 H2) as [A B]. congruence.
Qed.

Theorem consistent_num : consistent (cmp_num parse_float pow).
Proof.
  constructor.
  - intros a. unfold cmp_num. destruct (parse_num parse_float pow a) as [x|] eqn:Ea; auto.
    rewrite lt_irrefl by (exists a; auto). destruct (b64_is_nan x); reflexivity.
  - intros a b. unfold cmp_num.
    destruct (parse_num parse_float pow a) as [x|] eqn:Ea;
    destruct (parse_num parse_float pow b) as [y|] eqn:Eb; try lia.
    assert (numval x) as Vx by (exists a; auto). assert (numval y) as Vy by (exists b; auto).
    destruct (b64_lt x y) eqn:L1.
    + destruct (lt_notnan _ _ L1) as [Nx Ny]. rewrite (lt_asym x y), Nx, Ny; auto. cbn. lia.
    + destruct (b64_lt y x) eqn:L2.
      * destruct (lt_notnan _ _ L2) as [Ny Nx]. rewrite Nx, Ny. cbn. lia.
      * destruct (b64_is_nan x), (b64_is_nan y); cbn; lia.
  - intros a b c. unfold cmp_num.
    destruct (parse_num parse_float pow a) as [x|] eqn:Ea;
    destruct (parse_num parse_float pow b) as [y|] eqn:Eb;
    destruct (parse_num parse_float pow c) as [z|] eqn:Ec; try lia.
    assert (numval x) as Vx by (exists a; auto). assert (numval y) as Vy by (exists b; auto).
    assert (numval z) as Vz by (exists c; auto).
    destruct (b64_is_nan x) eqn:Nx; destruct (b64_is_nan y) eqn:Ny; destruct (b64_is_nan z) eqn:Nz;
      cbn [negb andb orb];
      try (apply nan_is in Nx; subst x); try (apply nan_is in Ny; subst y); try (apply nan_is in Nz; subst z);
      rewrite ?b64_lt_nan_l, ?b64_lt_nan_r, ?orb_false_r, ?orb_true_r; cbn [negb andb orb]; try lia.
    (* all three ordinary numbers *)
    destruct (b64_lt x y) eqn:Lxy; cbn [orb].
    + intros _. destruct (b64_lt y z) eqn:Lyz; cbn [orb].
      * intros _. rewrite (lt_trans x y z); auto. cbn. lia.
      * destruct (b64_lt z y) eqn:Lzy; cbn [orb]; [lia|]. intros _.
        rewrite (lt_incomp x y z); auto. cbn. lia.
    + destruct (b64_lt y x) eqn:Lyx; cbn [orb]; [lia|]. intros _.
      destruct (b64_lt y z) eqn:Lyz; cbn [orb].
      * intros _. rewrite (incomp_lt x y z); auto. cbn. lia.
      * destruct (b64_lt z y) eqn:Lzy; cbn [orb]; [lia|]. intros _.
        destruct (incomp_trans x y z) as [A B]; auto. rewrite A, B. cbn. lia.
Qed.

Theorem consistent_ord o obs : consistent (ord_cmp parse_float pow o obs).
Proof.
  destruct o; cbn.
  - apply consistent_first.
  - apply consistent_alpha.
  - apply consistent_num.
  - apply consistent_fixed.
Qed.

(** field_rel_total: for each kind of order, "comparison function, then string
    order" is a strict total order on strings *)
Theorem field_rel_total o obs :
  let R := prec (ord_cmp parse_float pow o obs) in
  (forall a, ~ R a a) /\ (forall a b c, R a b -> R b c -> R a c) /\
  (forall a b, a <> b -> R a b \/ R b a).
Proof.
  pose proof (consistent_ord o obs) as C. repeat split.
  - apply prec_irrefl; auto.
  - apply prec_trans; auto.
  - apply prec_total; auto.
Qed.

(** ** [less] on value tuples *)
Definition fless (fs : list finfo) (idx : nat) (a b : bytes) : bool :=
  match nth_error fs idx with
  | Some f => val_less (field_cmp parse_float pow f) a b
  | None => bltb a b
  end.

Definition fcmp (fs : list finfo) (idx : nat) : bytes -> bytes -> Z :=
  match nth_error fs idx with
  | Some f => field_cmp parse_float pow f
  | None => fun _ _ => 0
  end.

Lemma fless_prec fs idx a b : fless fs idx a b = true <-> prec (fcmp fs idx) a b.
Proof.
  unfold fless, fcmp. destruct (nth_error fs idx) as [f|].
  - apply val_less_prec.
  - unfold prec. rewrite bltb_lt. split; [intros H; right; auto|intros [H|[_ H]]; [lia|auto]].
Qed.

Lemma fcmp_consistent fs idx : consistent (fcmp fs idx).
Proof.
  unfold fcmp. destruct (nth_error fs idx) as [f|]; [apply consistent_ord|apply consistent_const].
Qed.

Lemma less_unfold fs idx fl a b :
  less parse_float pow fs (idx :: fl) a b =
  if beq (vals_get a idx) (vals_get b idx) then less parse_float pow fs fl a b
  else fless fs idx (vals_get a idx) (vals_get b idx).
Proof. cbn [less]. unfold fless. destruct (nth_error fs idx); reflexivity. Qed.

Lemma less_irrefl fs fl a : less parse_float pow fs fl a a = false.
Proof.
  induction fl as [|idx fl IH]; auto. rewrite less_unfold, beq_refl. exact IH.
Qed.

Lemma less_trans fs fl a b c :
  less parse_float pow fs fl a b = true -> less parse_float pow fs fl b c = true ->
  less parse_float pow fs fl a c = true.
Proof.
  induction fl as [|idx fl IH]; [discriminate|]. rewrite !less_unfold.
  pose proof (fcmp_consistent fs idx) as C.
  destruct (beq_spec (vals_get a idx) (vals_get b idx)) as [E1|N1].
  - rewrite E1. destruct (beq_spec (vals_get b idx) (vals_get c idx)); auto.
  - destruct (beq_spec (vals_get b idx) (vals_get c idx)) as [E2|N2].
    + rewrite <- E2. destruct (beq_spec (vals_get a idx) (vals_get b idx)); [contradiction|auto].
    + rewrite !fless_prec. intros H1 H2.
      pose proof (prec_trans _ C _ _ _ H1 H2) as H3.
      destruct (beq_spec (vals_get a idx) (vals_get c idx)) as [E3|N3]; [|now apply fless_prec].
      rewrite E3 in H3. exfalso. eapply prec_irrefl; eauto.
Qed.

Lemma less_total fs fl a b :
  (exists idx, In idx fl /\ vals_get a idx <> vals_get b idx) ->
  less parse_float pow fs fl a b = true \/ less parse_float pow fs fl b a = true.
Proof.
  induction fl as [|idx fl IH]; intros [i [Hi Hd]]; [contradiction|]. rewrite !less_unfold.
  destruct (beq_spec (vals_get a idx) (vals_get b idx)) as [E|N].
  - rewrite <- E, beq_refl. apply IH. destruct Hi as [<-|Hi]; [contradiction|eauto].
  - destruct (beq_spec (vals_get b idx) (vals_get a idx)); [congruence|].
    rewrite !fless_prec. apply prec_total; auto. apply fcmp_consistent.
Qed.

Lemma less_asym fs fl a b :
  less parse_float pow fs fl a b = true -> less parse_float pow fs fl b a = false.
Proof.
  intros H. destruct (less parse_float pow fs fl b a) eqn:E; auto.
  pose proof (less_trans _ _ _ _ _ H E) as H1. now rewrite less_irrefl in H1.
Qed.

(** ** Key.Less on the keys of a projection *)
Definition covers (p : projection) : Prop := forall idx, (idx < nfields p)%nat -> In idx (flat p).

Theorem less_strict_total p :
  KInv p -> covers p ->
  let L := key_less parse_float pow p in
  let n := length (p_keys p) in
  (forall k, L k k = false) /\
  (forall k1 k2 k3, L k1 k2 = true -> L k2 k3 = true -> L k1 k3 = true) /\
  (forall k1 k2, L k1 k2 = true -> L k2 k1 = false) /\
  (forall k1 k2, (k1 < n)%nat -> (k2 < n)%nat -> k1 <> k2 -> L k1 k2 = true \/ L k2 k1 = true).
Proof.
  intros HK HC. cbn. unfold key_less. repeat split.
  - intros k. apply less_irrefl.
  - intros k1 k2 k3. apply less_trans.
  - intros k1 k2. apply less_asym.
  - intros k1 k2 H1 H2 Hne. apply less_total.
    destruct (key_eq_iff_gets p k1 k2 HK H1 H2) as [_ Hb].
    (* some index below nfields separates them, classically by decidability of bytes *)
    assert (Hex : exists idx, (idx < nfields p)%nat /\ key_get p k1 idx <> key_get p k2 idx).
    { clear -Hne Hb.
      assert (D : forall n, (forall idx, (idx < n)%nat -> key_get p k1 idx = key_get p k2 idx) \/
                            (exists idx, (idx < n)%nat /\ key_get p k1 idx <> key_get p k2 idx)).
      { induction n as [|n [IH|[i [Hi Hd]]]].
        - left. intros idx Hl. lia.
        - destruct (beq_spec (key_get p k1 n) (key_get p k2 n)) as [E|N].
          + left. intros idx Hl. destruct (Nat.eq_dec idx n) as [->|]; auto. apply IH. lia.
          + right. exists n. split; auto.
        - right. exists i. split; auto. }
      destruct (D (nfields p)) as [Hall|Hex]; auto. exfalso. apply Hne. auto. }
    destruct Hex as [idx [Hl Hd]]. exists idx. split; auto.
Qed.

End Num.

(** ** sorting: under a strict total order there is exactly one sorted arrangement *)
Section SortedUnique.
Variable lt : nat -> nat -> bool.
Variable dom : nat -> Prop.
Hypothesis lt_irr : forall x, lt x x = false.
Hypothesis lt_asym : forall x y, lt x y = true -> lt y x = false.
Hypothesis lt_tot : forall x y, dom x -> dom y -> x <> y -> lt x y = true \/ lt y x = true.

(** what a comparison sort guarantees of its output: nothing later is less than
    anything earlier *)
Definition sorted (l : list nat) : Prop := StronglySorted (fun x y => lt y x = false) l.

Theorem sorted_perm_unique l1 l2 :
  NoDup l1 -> Forall dom l1 -> Permutation l1 l2 -> sorted l1 -> sorted l2 -> l1 = l2.
Proof.
  revert l2. induction l1 as [|x t1 IH]; intros l2 Hnd Hdom Hp S1 S2.
  - apply Permutation_nil in Hp. now subst.
  - destruct l2 as [|y t2]; [apply Permutation_sym, Permutation_nil in Hp; discriminate|].
    inversion S1 as [|? ? S1' F1]; subst. inversion S2 as [|? ? S2' F2]; subst.
    inversion Hnd as [|? ? Hx Hnd']; subst. inversion Hdom as [|? ? Dx Dt]; subst.
    assert (x = y) as ->.
    { destruct (Nat.eq_dec x y) as [|Hne]; auto. exfalso.
      assert (In x t2) as Hx2.
      { assert (In x (y :: t2)) as [E|E] by (eapply Permutation_in; [exact Hp|now left]); [congruence|auto]. }
      assert (In y t1) as Hy1.
      { assert (In y (x :: t1)) as [E|E] by (eapply Permutation_in; [apply Permutation_sym; exact Hp|now left]);
          [congruence|auto]. }
      rewrite Forall_forall in F1, F2, Dt.
      pose proof (F1 _ Hy1) as A. pose proof (F2 _ Hx2) as B.
      destruct (lt_tot x y Dx (Dt _ Hy1) Hne); congruence. }
    f_equal. apply IH; auto. eapply Permutation_cons_inv; eauto.
Qed.

(** SortKeys is arrangement-independent, given only that sort.Slice returns a
    sorted permutation of its input *)
Variable sort_slice : list nat -> list nat.
Hypothesis sort_perm : forall l, Permutation (sort_slice l) l.
Hypothesis sort_sorted : forall l, sorted (sort_slice l).

Theorem sort_keys_arrangement_independent l1 l2 :
  NoDup l1 -> Forall dom l1 -> Permutation l1 l2 -> sort_slice l1 = sort_slice l2.
Proof.
  intros Hnd Hdom Hp. apply sorted_perm_unique; auto.
  - eapply Permutation_NoDup; [apply Permutation_sym, sort_perm|auto].
  - rewrite Forall_forall in *. intros x Hx. apply Hdom. eapply Permutation_in; [apply sort_perm|auto].
  - eapply Permutation_trans; [apply sort_perm|].
    eapply Permutation_trans; [exact Hp|apply Permutation_sym, sort_perm].
Qed.

End SortedUnique.
