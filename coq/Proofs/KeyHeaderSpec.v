(** The declarative description of a key header (DESIGN 7.16 header_partition)
    and the proof that NewKeyHeader's tree meets it at every level.

    [header_spec nf keys lv]: [lv] has one level per field; at every level the
    cells tile the columns [0, length keys) left to right (ordered, contiguous,
    non-empty, hence pairwise disjoint and covering: every column is under
    exactly one cell); the keys under a cell agree on fields 0..level and the
    cell is labelled with their value of field [level]; keys under neighbouring
    cells do not agree on fields 0..level (the runs are maximal); the cells of
    level l+1 lie inside cells of level l, and [h_nchild] counts them.

    Route: [header_ok] (the decidable predicate evaluated on every observed
    tree) implies [header_spec] for ANY tree ([header_ok_sound]); the model's
    tree satisfies [header_ok] (KeyHeaderLevels.key_header_ok). *)
From Perf Require Import Base.Bytes Model.KeyHeader Proofs.KeyHeader Proofs.KeyHeaderLevels.
Local Open Scope nat_scope.

Definition covers (n : hnode) (e : nat) : Prop := h_start n <= e < h_start n + h_len n.
Definition agree_upto (l : nat) (a b : key) : Prop := forall i, i <= l -> kget i a = kget i b.

(** cells laid side by side from [s] to [e], each at least one column wide *)
Inductive tiling : list hnode -> nat -> nat -> Prop :=
| tiling_nil s : tiling [] s s
| tiling_cons n r s e : h_start n = s -> 1 <= h_len n -> tiling r (s + h_len n) e -> tiling (n :: r) s e.

Record level_partition (keys : list key) (l : nat) (nodes : list hnode) : Prop := {
  lp_tiling : tiling nodes 0 (length keys);
  lp_field : forall n, In n nodes -> h_field n = l;
  lp_label : forall n e k, In n nodes -> covers n e -> nth_error keys e = Some k -> kget l k = h_value n;
  lp_agree : forall n e1 e2 k1 k2, In n nodes -> covers n e1 -> covers n e2 ->
             nth_error keys e1 = Some k1 -> nth_error keys e2 = Some k2 -> agree_upto l k1 k2;
  lp_maximal : forall pre a b post e1 e2 k1 k2, nodes = pre ++ a :: b :: post ->
             covers a e1 -> covers b e2 -> nth_error keys e1 = Some k1 -> nth_error keys e2 = Some k2 ->
             ~ agree_upto l k1 k2 }.

Definition refines (ps cs : list hnode) : Prop :=
  forall m, In m cs -> exists n, In n ps /\ h_start n <= h_start m /\ h_start m + h_len m <= h_start n + h_len n.

Definition child_counts (ps : list hnode) (cs : option (list hnode)) : Prop :=
  forall n, In n ps -> h_nchild n = match cs with Some cs => length (filter (inside n) cs) | None => 0 end.

Record header_spec (nf : nat) (keys : list key) (lv : list (list hnode)) : Prop := {
  hs_empty : keys = [] -> lv = [];
  hs_depth : keys <> [] -> length lv = nf;
  hs_level : forall l nodes, nth_error lv l = Some nodes -> level_partition keys l nodes;
  hs_refine : forall l ps cs, nth_error lv l = Some ps -> nth_error lv (S l) = Some cs -> refines ps cs;
  hs_children : forall l ps, nth_error lv l = Some ps -> child_counts ps (nth_error lv (S l)) }.

(* ------------------------------------------------------------------ *)
(** ** tilings *)
Lemma contiguous_tiling : forall nodes s e, contiguous s nodes = Some e -> tiling nodes s e.
Proof.
  induction nodes as [|n nodes IH]; intros s e H; cbn [contiguous] in H.
  - injection H as <-. constructor.
  - destruct (Nat.eqb_spec (h_start n) s) as [E|E]; [|discriminate].
    destruct (Nat.leb_spec 1 (h_len n)) as [L|L]; [|discriminate]. cbn [andb] in H.
    constructor; [exact E|exact L|]. apply IH. exact H.
Qed.

Lemma tiling_bounds nodes s e : tiling nodes s e ->
  s <= e /\ forall n, In n nodes -> s <= h_start n /\ 1 <= h_len n /\ h_start n + h_len n <= e.
Proof.
  induction 1 as [s|n r s e Hs Hl Ht [IH1 IH2]].
  - split; [lia|]. intros n [].
  - split; [lia|]. intros m [<-|Hm]; [lia|]. destruct (IH2 m Hm) as [A [B C]]. lia.
Qed.

(** covering: every column is under a cell *)
Lemma tiling_cover nodes s e x : tiling nodes s e -> s <= x < e -> exists n, In n nodes /\ covers n x.
Proof.
  induction 1 as [s|n r s e Hs Hl Ht IH]; intros Hx; [lia|].
  destruct (Nat.lt_ge_cases x (s + h_len n)) as [Hlt|Hge].
  - exists n. split; [left; reflexivity|]. unfold covers. lia.
  - destruct (IH ltac:(lia)) as [m [Hm Hc]]. exists m. split; [right; exact Hm|exact Hc].
Qed.

(** disjointness: ... under exactly one cell *)
Lemma tiling_unique nodes s e x n n' :
  tiling nodes s e -> In n nodes -> In n' nodes -> covers n x -> covers n' x -> n = n'.
Proof.
  induction 1 as [s|m r s e Hs Hl Ht IH]; intros Hn Hn' Hc Hc'; [destruct Hn|].
  destruct (tiling_bounds _ _ _ Ht) as [_ B]. unfold covers in *.
  destruct Hn as [<-|Hn], Hn' as [<-|Hn'].
  - reflexivity.
  - destruct (B n' Hn'). lia.
  - destruct (B n Hn). lia.
  - apply IH; assumption.
Qed.

(** order: a later cell starts at or after the end of an earlier one *)
Lemma tiling_ordered nodes s e pre a mid b post :
  tiling nodes s e -> nodes = pre ++ a :: mid ++ b :: post -> h_start a + h_len a <= h_start b.
Proof.
  intros Ht. revert pre. induction Ht as [s|n r s e Hs Hl Ht IH]; intros pre E.
  - destruct pre; discriminate.
  - destruct pre as [|p pre]; cbn [app] in E; injection E as -> ->.
    + destruct (tiling_bounds _ _ _ Ht) as [_ B].
      destruct (B b ltac:(apply in_or_app; right; left; reflexivity)). lia.
    + apply (IH pre). reflexivity.
Qed.

(** contiguity: the next cell starts where the previous one ends *)
Lemma tiling_adjacent nodes s e pre a b post :
  tiling nodes s e -> nodes = pre ++ a :: b :: post -> h_start b = h_start a + h_len a.
Proof.
  intros Ht. revert pre. induction Ht as [s|n r s e Hs Hl Ht IH]; intros pre E.
  - destruct pre; discriminate.
  - destruct pre as [|p pre]; cbn [app] in E; injection E as -> ->.
    + inversion Ht; subst. lia.
    + apply (IH pre). reflexivity.
Qed.

Lemma tiling_next nodes s e n :
  tiling nodes s e -> In n nodes -> h_start n + h_len n < e ->
  exists pre n2 post, nodes = pre ++ n :: n2 :: post.
Proof.
  induction 1 as [s|m r s e Hs Hl Ht IH]; intros Hn Hlt; [destruct Hn|].
  destruct Hn as [<-|Hn].
  - inversion Ht as [s'|n2 r' s' e' A B C]; subst; [lia|]. exists [], n2, r'. reflexivity.
  - destruct (IH Hn Hlt) as [pre [n2 [post E]]]. exists (m :: pre), n2, post. rewrite E. reflexivity.
Qed.

(* ------------------------------------------------------------------ *)
(** ** what the evaluated predicates say *)
Lemma agree_of_prefix l a b : firstn (S l) a = firstn (S l) b -> agree_upto l a b.
Proof. intros H i Hi. eapply prefix_eq_kget; [exact H|lia]. Qed.

Lemma prefix_of_agree nf l a b :
  length a = nf -> length b = nf -> l < nf -> agree_upto l a b -> firstn (S l) a = firstn (S l) b.
Proof.
  intros Ha Hb Hl Hag.
  assert (G : forall n, n <= S l -> firstn n a = firstn n b).
  { induction n as [|n IH]; intros Hn; [reflexivity|].
    apply prefix_extend; [lia|lia|apply IH; lia|apply Hag; lia]. }
  apply G. lia.
Qed.

Lemma node_ok_elim keys l n :
  node_ok keys l n = true ->
  h_field n = l /\
  exists k0, nth_error keys (h_start n) = Some k0 /\
    forall e k, covers n e -> nth_error keys e = Some k ->
      kget l k = h_value n /\ firstn (S l) k = firstn (S l) k0.
Proof.
  unfold node_ok. intros H. apply andb_true_iff in H as [H1 H2].
  apply Nat.eqb_eq in H1. split; [exact H1|].
  destruct (nth_error keys (h_start n)) as [k0|]; [|discriminate]. exists k0. split; [reflexivity|].
  intros e k [Hc1 Hc2] Hk. rewrite forallb_forall in H2.
  assert (Hin : In k (firstn (h_len n) (skipn (h_start n) keys))).
  { apply (nth_error_In _ (e - h_start n)).
    rewrite nth_error_firstn' by lia. rewrite nth_error_skipn'. rewrite <- Hk. f_equal. lia. }
  specialize (H2 k Hin). apply andb_true_iff in H2 as [A B].
  split; [apply beq_eq; exact A|apply prefix_eqb_eq; exact B].
Qed.

Lemma nd_tail keys L a x : x <> [] -> neighbours_differ keys L (a :: x) = true -> neighbours_differ keys L x = true.
Proof.
  destruct x as [|b x]; [congruence|]. intros _ H. rewrite nd_cons2 in H. apply andb_true_iff in H as [_ H]. exact H.
Qed.

Lemma nd_elim keys L : forall pre a b post,
  neighbours_differ keys L (pre ++ a :: b :: post) = true -> nd_pair keys L a b = true.
Proof.
  induction pre as [|p pre IH]; intros a b post H.
  - cbn [app] in H. rewrite nd_cons2 in H. apply andb_true_iff in H as [H _]. exact H.
  - cbn [app] in H. apply nd_tail in H; [|destruct pre; discriminate]. eapply IH. exact H.
Qed.

Lemma levels_ok_elim keys : forall lv L,
  levels_ok keys L lv = true ->
  forall j nodes, nth_error lv j = Some nodes ->
    contiguous 0 nodes = Some (length keys) /\ forallb (node_ok keys (L + j)) nodes = true /\
    neighbours_differ keys (L + j) nodes = true /\
    forallb (children_ok (nth_error lv (S j))) nodes = true.
Proof.
  induction lv as [|nodes0 rest IH]; intros L H j nodes Hj; [destruct j; discriminate|].
  cbn [levels_ok] in H. repeat (apply andb_true_iff in H as [H ?]).
  destruct j as [|j].
  - cbn [nth_error] in Hj. injection Hj as <-. rewrite Nat.add_0_r.
    destruct (contiguous 0 nodes0) as [e|]; [|discriminate]. apply Nat.eqb_eq in H. subst e.
    split; [reflexivity|]. split; [assumption|]. split; [assumption|].
    replace (nth_error (nodes0 :: rest) 1) with (match rest with [] => None | nx :: _ => Some nx end)
      by (destruct rest; reflexivity).
    assumption.
  - cbn [nth_error] in Hj. replace (L + S j) with (S L + j) by lia.
    change (nth_error (nodes0 :: rest) (S (S j))) with (nth_error rest (S j)).
    eapply IH; eassumption.
Qed.

(** one level: the evaluated conditions give the declarative partition *)
Lemma level_partition_of_ok nf keys l nodes :
  (forall k, In k keys -> length k = nf) -> l < nf ->
  contiguous 0 nodes = Some (length keys) -> forallb (node_ok keys l) nodes = true ->
  neighbours_differ keys l nodes = true ->
  level_partition keys l nodes.
Proof.
  intros Hlen Hl Hc Hn Hd. rewrite forallb_forall in Hn.
  constructor.
  - apply contiguous_tiling. exact Hc.
  - intros n Hin. apply (node_ok_elim keys l n (Hn n Hin)).
  - intros n e k Hin Hcov Hk. destruct (node_ok_elim keys l n (Hn n Hin)) as [_ [k0 [_ G]]].
    apply (G e k Hcov Hk).
  - intros n e1 e2 k1 k2 Hin C1 C2 K1 K2. destruct (node_ok_elim keys l n (Hn n Hin)) as [_ [k0 [_ G]]].
    apply agree_of_prefix. destruct (G e1 k1 C1 K1) as [_ ->]. destruct (G e2 k2 C2 K2) as [_ ->]. reflexivity.
  - intros pre a b post e1 e2 k1 k2 E C1 C2 K1 K2 Hag. subst nodes.
    pose proof (nd_elim keys l pre a b post Hd) as Hp. unfold nd_pair in Hp.
    destruct (node_ok_elim keys l a (Hn a ltac:(apply in_or_app; right; left; reflexivity))) as [_ [ka [Ka Ga]]].
    destruct (node_ok_elim keys l b (Hn b ltac:(apply in_or_app; right; right; left; reflexivity))) as [_ [kb [Kb Gb]]].
    rewrite Ka, Kb in Hp. apply negb_true_iff in Hp.
    destruct (Ga e1 k1 C1 K1) as [_ P1]. destruct (Gb e2 k2 C2 K2) as [_ P2].
    assert (P : firstn (S l) k1 = firstn (S l) k2).
    { apply (prefix_of_agree nf); [| |exact Hl|exact Hag].
      - apply Hlen. eapply nth_error_In. exact K1.
      - apply Hlen. eapply nth_error_In. exact K2. }
    assert (Q : prefix_eqb (S l) ka kb = true) by (apply prefix_eqb_eq; rewrite <- P1, <- P2; exact P).
    congruence.
Qed.

(** the cells of the next level lie inside the cells of this level *)
Lemma partition_refines keys l ps cs :
  level_partition keys l ps -> level_partition keys (S l) cs -> refines ps cs.
Proof.
  intros Pp Pc m Hm.
  destruct (tiling_bounds _ _ _ (lp_tiling _ _ _ Pc)) as [_ Bc]. destruct (Bc m Hm) as [_ [M1 M2]].
  destruct (tiling_cover ps 0 (length keys) (h_start m) (lp_tiling _ _ _ Pp) ltac:(lia)) as [n [Hn Hcov]].
  exists n. split; [exact Hn|]. split; [apply Hcov|].
  destruct (Nat.le_gt_cases (h_start m + h_len m) (h_start n + h_len n)) as [Hle|Hgt]; [exact Hle|exfalso].
  (* the cell after [n] starts under [m]: its key agrees with [m]'s first key on 0..l+1, yet differs on 0..l *)
  destruct (tiling_next ps 0 (length keys) n (lp_tiling _ _ _ Pp) Hn ltac:(lia)) as [pre [n2 [post E]]].
  pose proof (tiling_adjacent _ _ _ _ _ _ _ (lp_tiling _ _ _ Pp) E) as Hadj.
  destruct (tiling_bounds _ _ _ (lp_tiling _ _ _ Pp)) as [_ Bp].
  destruct (Bp n2 ltac:(rewrite E; apply in_or_app; right; right; left; reflexivity)) as [_ [N1 N2]].
  destruct (nth_error keys (h_start m)) as [k1|] eqn:K1; [|apply nth_error_None in K1; lia].
  destruct (nth_error keys (h_start n2)) as [k2|] eqn:K2; [|apply nth_error_None in K2; lia].
  apply (lp_maximal _ _ _ Pp pre n n2 post (h_start m) (h_start n2) k1 k2 E Hcov ltac:(unfold covers; lia) K1 K2).
  intros i Hi. apply (lp_agree _ _ _ Pc m (h_start m) (h_start n2) k1 k2 Hm); try assumption; unfold covers in *; lia.
Qed.

(** the evaluated predicate means the declarative description (for any tree) *)
Theorem header_ok_sound nf keys lv :
  Forall (fun k => length k = nf) keys -> header_ok nf keys lv = true -> header_spec nf keys lv.
Proof.
  intros Hall H. rewrite Forall_forall in Hall. unfold header_ok in H.
  destruct keys as [|k0 keys'].
  - destruct lv; [|discriminate]. constructor.
    + reflexivity.
    + intros Hne. exfalso. apply Hne. reflexivity.
    + intros l nodes Hl. destruct l; discriminate.
    + intros l ps cs Hl. destruct l; discriminate.
    + intros l ps Hl. destruct l; discriminate.
  - set (keys := k0 :: keys') in *. apply andb_true_iff in H as [H1 H2]. apply Nat.eqb_eq in H1.
    assert (LP : forall l nodes, nth_error lv l = Some nodes -> level_partition keys l nodes).
    { intros l nodes Hl. destruct (levels_ok_elim keys lv 0 H2 l nodes Hl) as [A [B [C _]]].
      apply (level_partition_of_ok nf); try assumption.
      rewrite <- H1. apply nth_error_Some. congruence. }
    constructor.
    + discriminate.
    + intros _. exact H1.
    + exact LP.
    + intros l ps cs Hp Hc. eapply partition_refines; [apply LP; exact Hp|apply LP; exact Hc].
    + intros l ps Hp n Hn. destruct (levels_ok_elim keys lv 0 H2 l ps Hp) as [_ [_ [_ D]]].
      rewrite forallb_forall in D. specialize (D n Hn). unfold children_ok in D.
      destruct (nth_error lv (S l)); apply Nat.eqb_eq in D; exact D.
Qed.

(** ** C16 header_partition: NewKeyHeader's tree, every level *)
Theorem header_partition nf keys :
  Forall (fun k => length k = nf) keys -> header_spec nf keys (key_header nf keys).
Proof. intros H. apply header_ok_sound; [exact H|]. apply key_header_ok. exact H. Qed.

(** every column is under exactly one header cell per level, labelled with the
    column key's value of that level's field *)
Theorem header_column_unique nf keys lv l e k :
  header_spec nf keys lv -> l < nf -> nth_error keys e = Some k ->
  exists nodes n, nth_error lv l = Some nodes /\ In n nodes /\ covers n e /\ h_field n = l /\
    h_value n = kget l k /\ forall n', In n' nodes -> covers n' e -> n' = n.
Proof.
  intros S Hl Hk.
  assert (Hne : keys <> []) by (intros ->; destruct e; discriminate).
  pose proof (hs_depth _ _ _ S Hne) as Hd.
  destruct (nth_error lv l) as [nodes|] eqn:El; [|apply nth_error_None in El; lia].
  pose proof (hs_level _ _ _ S l nodes El) as P.
  assert (He : e < length keys) by (apply nth_error_Some; congruence).
  destruct (tiling_cover nodes 0 (length keys) e (lp_tiling _ _ _ P) ltac:(lia)) as [n [Hn Hc]].
  exists nodes, n. split; [reflexivity|]. split; [exact Hn|]. split; [exact Hc|].
  split; [apply (lp_field _ _ _ P n Hn)|]. split; [symmetry; apply (lp_label _ _ _ P n e k Hn Hc Hk)|].
  intros n' Hn' Hc'. eapply tiling_unique; [apply (lp_tiling _ _ _ P)| | |exact Hc'|exact Hc]; assumption.
Qed.

(** degenerate inputs: no keys, or a projection without fields: no header rows *)
Lemma key_header_no_keys nf : key_header nf [] = [].
Proof. reflexivity. Qed.
Lemma key_header_no_fields keys : key_header 0 keys = [].
Proof. destruct keys; reflexivity. Qed.
