(** Proofs about Model/UStat.v: the rank-sum statistic of the Go code equals the
    pair count (u_counts_pairs) and the count-vector form used by the
    distribution (ustat_vec); the tie vector is a function of the pooled values. *)
From Coq Require Import ZArith List Bool Lia Permutation.
From Perf Require Import Model.UStat.
Import ListNotations.
Local Open Scope Z_scope.

(** ** sortedness *)
Definition le_all (v : Z) (L : list (Z * bool)) : Prop := Forall (fun p => v <= fst p) L.
Inductive vsorted : list (Z * bool) -> Prop :=
| vs_nil : vsorted []
| vs_cons v b L : le_all v L -> vsorted L -> vsorted ((v, b) :: L).

Inductive zsorted : list Z -> Prop :=
| zs_nil : zsorted []
| zs_cons v l : Forall (fun x => v <= x) l -> zsorted l -> zsorted (v :: l).

Lemma insert_perm x l : Permutation (insert x l) (x :: l).
Proof.
  induction l as [|y l IH]; cbn [insert]; [reflexivity|].
  destruct (x <=? y); [reflexivity|].
  rewrite IH. apply perm_swap.
Qed.

Lemma isort_perm l : Permutation (isort l) l.
Proof.
  induction l as [|x l IH]; cbn [isort]; [reflexivity|].
  rewrite insert_perm. now constructor.
Qed.

Lemma insert_sorted x l : zsorted l -> zsorted (insert x l).
Proof.
  induction 1 as [|v l Hv Hs IH]; cbn [insert].
  - constructor; [constructor | constructor].
  - destruct (x <=? v) eqn:E.
    + apply Z.leb_le in E. constructor.
      * constructor; [exact E|]. eapply Forall_impl; [|exact Hv]. cbn; intros; lia.
      * now constructor.
    + apply Z.leb_gt in E. constructor; [|exact IH].
      eapply Permutation_Forall; [symmetry; apply insert_perm|].
      constructor; [lia | exact Hv].
Qed.

Lemma isort_sorted l : zsorted (isort l).
Proof. induction l as [|x l IH]; cbn [isort]; [constructor | now apply insert_sorted]. Qed.

(** a sorted list is determined by its multiset *)
Lemma zsorted_perm_eq l l' : zsorted l -> zsorted l' -> Permutation l l' -> l = l'.
Proof.
  intros Hs; revert l'. induction Hs as [|v l Hv Hs IH]; intros l' Hs' Hp.
  - now apply Permutation_nil in Hp.
  - destruct Hs' as [|w l' Hw Hs'].
    + symmetry in Hp. now apply Permutation_nil in Hp.
    + assert (Hvw : v = w).
      { assert (H1 : In v (w :: l')) by (eapply Permutation_in; [exact Hp | now left]).
        assert (H2 : In w (v :: l)) by (eapply Permutation_in; [symmetry; exact Hp | now left]).
        destruct H1 as [H1|H1]; [now symmetry|]. destruct H2 as [H2|H2]; [exact H2|].
        rewrite Forall_forall in Hv, Hw. specialize (Hv _ H2). specialize (Hw _ H1). lia. }
      subst w. f_equal. apply IH; [exact Hs'|]. eapply Permutation_cons_inv; exact Hp.
Qed.

Lemma isort_perm_eq l l' : Permutation l l' -> isort l = isort l'.
Proof.
  intros Hp. apply zsorted_perm_eq; try apply isort_sorted.
  rewrite isort_perm, Hp. symmetry; apply isort_perm.
Qed.

(** ** labeledMerge *)
Lemma lmerge_nil_l x2 : lmerge [] x2 = tag false x2.
Proof. destruct x2; reflexivity. Qed.
Lemma lmerge_nil_r x1 : lmerge x1 [] = tag true x1.
Proof. destruct x1; reflexivity. Qed.
Lemma lmerge_cons a x1 b x2 :
  lmerge (a :: x1) (b :: x2) =
  if a <? b then (a, true) :: lmerge x1 (b :: x2) else (b, false) :: lmerge (a :: x1) x2.
Proof. reflexivity. Qed.

Lemma lmerge_perm x1 x2 : Permutation (lmerge x1 x2) (tag true x1 ++ tag false x2).
Proof.
  revert x2; induction x1 as [|a x1 IH1]; intros x2.
  - rewrite lmerge_nil_l. reflexivity.
  - induction x2 as [|b x2 IH2].
    + rewrite lmerge_nil_r, app_nil_r. reflexivity.
    + rewrite lmerge_cons. destruct (a <? b).
      * cbn [tag map app]. constructor. apply IH1.
      * rewrite IH2. change (tag false (b :: x2)) with ((b, false) :: tag false x2). apply Permutation_middle.
Qed.

Lemma le_all_perm v L L' : Permutation L L' -> le_all v L -> le_all v L'.
Proof. intros Hp H. eapply Permutation_Forall; eassumption. Qed.

Lemma le_all_tag v b l : Forall (fun x => v <= x) l -> le_all v (tag b l).
Proof. induction 1; cbn; constructor; auto. Qed.

Lemma vsorted_tag b l : zsorted l -> vsorted (tag b l).
Proof.
  induction 1 as [|v l Hv Hs IH]; cbn [tag map]; [constructor|].
  fold (tag b l). constructor; [now apply le_all_tag | exact IH].
Qed.

Lemma lmerge_sorted x1 x2 : zsorted x1 -> zsorted x2 -> vsorted (lmerge x1 x2).
Proof.
  intros H1; revert x2; induction H1 as [|a x1 Ha Hs1 IH1]; intros x2 H2.
  - rewrite lmerge_nil_l. now apply vsorted_tag.
  - induction H2 as [|b x2 Hb Hs2 IH2].
    + rewrite lmerge_nil_r. apply (vsorted_tag true (a :: x1)). now constructor.
    + rewrite lmerge_cons. destruct (a <? b) eqn:E.
      * apply Z.ltb_lt in E. constructor; [|apply IH1; now constructor].
        eapply le_all_perm; [symmetry; apply lmerge_perm|].
        apply Forall_app; split; [now apply le_all_tag|].
        apply (le_all_tag a false (b :: x2)). constructor; [lia|].
        eapply Forall_impl; [|exact Hb]. cbn; intros; lia.
      * apply Z.ltb_ge in E. constructor; [|exact IH2].
        eapply le_all_perm; [symmetry; apply lmerge_perm|].
        apply Forall_app; split; [|now apply le_all_tag].
        apply (le_all_tag b true (a :: x1)). constructor; [lia|].
        eapply Forall_impl; [|exact Ha]. cbn; intros; lia.
Qed.

(** ** pair scores over a labeled list *)
Definition contrib (a b : Z * bool) : Z :=
  match snd a, snd b with
  | true, false => pair_score (fst a) (fst b)
  | false, true => pair_score (fst b) (fst a)
  | _, _ => 0
  end.
Fixpoint cross (a : Z * bool) (L : list (Z * bool)) : Z :=
  match L with [] => 0 | b :: L' => contrib a b + cross a L' end.
Fixpoint pairs2 (L : list (Z * bool)) : Z :=
  match L with [] => 0 | a :: L' => cross a L' + pairs2 L' end.

Lemma contrib_sym a b : contrib a b = contrib b a.
Proof. unfold contrib. destruct (snd a), (snd b); reflexivity. Qed.

Lemma cross_perm a L L' : Permutation L L' -> cross a L = cross a L'.
Proof. induction 1; cbn [cross]; lia. Qed.

Lemma pairs2_perm L L' : Permutation L L' -> pairs2 L = pairs2 L'.
Proof.
  induction 1 as [|x L L' Hp IH|x y L|L L' L'' _ IH1 _ IH2]; cbn [pairs2 cross].
  - reflexivity.
  - rewrite (cross_perm x L L' Hp). lia.
  - rewrite (contrib_sym y x). lia.
  - lia.
Qed.

Lemma cross_app a L1 L2 : cross a (L1 ++ L2) = cross a L1 + cross a L2.
Proof. induction L1 as [|b L1 IH]; cbn [cross app]; lia. Qed.

Fixpoint crossL (L1 L2 : list (Z * bool)) : Z :=
  match L1 with [] => 0 | a :: L1' => cross a L2 + crossL L1' L2 end.

Lemma pairs2_app L1 L2 : pairs2 (L1 ++ L2) = pairs2 L1 + pairs2 L2 + crossL L1 L2.
Proof. induction L1 as [|a L1 IH]; cbn [pairs2 crossL app]; [lia|]. rewrite cross_app. lia. Qed.

Lemma cross_same_tag v b l : cross (v, b) (tag b l) = 0.
Proof. induction l as [|x l IH]; cbn [cross tag map]; [reflexivity|]. unfold contrib; cbn. fold (tag b l). destruct b; lia. Qed.

Lemma pairs2_tag b l : pairs2 (tag b l) = 0.
Proof. induction l as [|x l IH]; cbn [pairs2 tag map]; [reflexivity|]. fold (tag b l). rewrite cross_same_tag. lia. Qed.

Lemma cross_row x ys : cross (x, true) (tag false ys) = row_score x ys.
Proof. induction ys as [|y ys IH]; cbn [cross tag map row_score]; [reflexivity|]. fold (tag false ys). rewrite IH. reflexivity. Qed.

Lemma crossL_pairs xs ys : crossL (tag true xs) (tag false ys) = twoU_pairs xs ys.
Proof. induction xs as [|x xs IH]; cbn [crossL tag map twoU_pairs]; [reflexivity|]. fold (tag true xs). rewrite cross_row, IH. reflexivity. Qed.

Lemma pairs2_tagged xs ys : pairs2 (tag true xs ++ tag false ys) = twoU_pairs xs ys.
Proof. rewrite pairs2_app, !pairs2_tag, crossL_pairs. lia. Qed.

Lemma tag_perm b l l' : Permutation l l' -> Permutation (tag b l) (tag b l').
Proof. apply Permutation_map. Qed.

Lemma twoU_pairs_perm x1 x1' x2 x2' :
  Permutation x1 x1' -> Permutation x2 x2' -> twoU_pairs x1 x2 = twoU_pairs x1' x2'.
Proof.
  intros H1 H2. rewrite <- !pairs2_tagged. apply pairs2_perm.
  apply Permutation_app; now apply tag_perm.
Qed.

(** ** counting labels and values *)
Fixpoint nlab (b : bool) (L : list (Z * bool)) : Z :=
  match L with [] => 0 | (_, c) :: L' => (if Bool.eqb c b then 1 else 0) + nlab b L' end.
Fixpoint cnt (b : bool) (v : Z) (L : list (Z * bool)) : Z :=
  match L with [] => 0 | (w, c) :: L' => (if (w =? v) && Bool.eqb c b then 1 else 0) + cnt b v L' end.

Definition gvec (gs : list grp) : list (Z * Z) := map (fun g => (g_size g, g_nx1 g)) gs.
Definition sumr (tr : list (Z * Z)) : Z := fold_right (fun p s => snd p + s) 0 tr.
Definition sumt (tr : list (Z * Z)) : Z := fold_right (fun p s => fst p + s) 0 tr.

Lemma groups_nil L : groups L = [] -> L = [].
Proof.
  destruct L as [|[v b] L]; [reflexivity|]. cbn [groups].
  destruct (groups L) as [|[[v' sz] nx] gs]; [discriminate|]. destruct (v =? v'); discriminate.
Qed.

Ltac gsimp := cbn [sumr sumt gvec map fold_right g_nx1 g_size fst snd b2z Bool.eqb length] in *.

Lemma sumr_groups L : sumr (gvec (groups L)) = nlab true L.
Proof.
  induction L as [|[v b] L IH]; [reflexivity|]. cbn [groups nlab].
  destruct (groups L) as [|[[v' sz] nx] gs].
  - gsimp. destruct b; gsimp; lia.
  - destruct (v =? v'); gsimp; destruct b; gsimp; lia.
Qed.

Lemma sumt_groups L : sumt (gvec (groups L)) = Z.of_nat (length L).
Proof.
  induction L as [|[v b] L IH]; [reflexivity|]. cbn [groups].
  destruct (groups L) as [|[[v' sz] nx] gs].
  - gsimp. lia.
  - destruct (v =? v'); gsimp; lia.
Qed.

Lemma cnt_above b v w L : v < w -> le_all w L -> cnt b v L = 0.
Proof.
  intros Hvw H; induction H as [|[x c] L Hx H IH]; cbn [cnt]; [reflexivity|].
  cbn in Hx. destruct (x =? v) eqn:E; [apply Z.eqb_eq in E; lia|]. cbn. exact IH.
Qed.

Lemma le_all_trans v w L : v <= w -> le_all w L -> le_all v L.
Proof. intros Hvw H. eapply Forall_impl; [|exact H]. cbn; intros; lia. Qed.

(** the number of (v, b) items of a sorted list whose items are all >= v is read off the first run *)
Lemma cnt_head b v L : vsorted L -> le_all v L ->
  cnt b v L = match groups L with
              | (v', sz, nx) :: _ => if v =? v' then (if b then nx else sz - nx) else 0
              | [] => 0
              end.
Proof.
  intros Hs; induction Hs as [|w c L Hw Hs IH]; intros Hv; [reflexivity|].
  inversion Hv as [|? ? Hvw HvL]; subst. cbn in Hvw.
  cbn [cnt groups].
  destruct (w =? v) eqn:Ewv.
  - apply Z.eqb_eq in Ewv; subst w. specialize (IH Hw).
    destruct (groups L) as [|[[v' sz] nx] gs] eqn:EG.
    + apply groups_nil in EG; subst L. cbn. rewrite Z.eqb_refl. destruct c, b; reflexivity.
    + destruct (v =? v') eqn:E.
      * rewrite E. rewrite IH. destruct c, b; cbn [andb Bool.eqb b2z]; lia.
      * rewrite Z.eqb_refl. rewrite IH. destruct c, b; cbn [andb Bool.eqb b2z]; lia.
  - apply Z.eqb_neq in Ewv. assert (Hlt : v < w) by lia.
    cbn. rewrite (cnt_above b v w L Hlt Hw).
    destruct (groups L) as [|[[v' sz] nx] gs] eqn:EG.
    + destruct (v =? w) eqn:E; [apply Z.eqb_eq in E; lia | reflexivity].
    + destruct (w =? v') eqn:E.
      * apply Z.eqb_eq in E; subst v'. destruct (v =? w) eqn:E2; [apply Z.eqb_eq in E2; lia | reflexivity].
      * destruct (v =? w) eqn:E2; [apply Z.eqb_eq in E2; lia | reflexivity].
Qed.

(** cross scores of a new smallest element *)
Lemma pair_score_le x y : x <= y -> pair_score x y = if x =? y then 1 else 0.
Proof. intros H. unfold pair_score. destruct (y <? x) eqn:E; [apply Z.ltb_lt in E; lia | reflexivity]. Qed.
Lemma pair_score_ge x y : y <= x -> pair_score x y = 2 - (if x =? y then 1 else 0).
Proof.
  intros H. unfold pair_score. destruct (y <? x) eqn:E.
  - apply Z.ltb_lt in E. destruct (x =? y) eqn:E2; [apply Z.eqb_eq in E2; lia | reflexivity].
  - apply Z.ltb_ge in E. assert (x = y) by lia. subst. rewrite Z.eqb_refl. reflexivity.
Qed.

Lemma cross_true v L : le_all v L -> cross (v, true) L = cnt false v L.
Proof.
  induction 1 as [|[w c] L Hw H IH]; cbn [cross cnt]; [reflexivity|]. cbn in Hw.
  rewrite IH. unfold contrib; cbn [fst snd]. destruct c; cbn [Bool.eqb].
  - rewrite andb_false_r. reflexivity.
  - rewrite andb_true_r. rewrite (pair_score_le v w Hw). rewrite (Z.eqb_sym w v). reflexivity.
Qed.

Lemma cross_false v L : le_all v L -> cross (v, false) L = 2 * nlab true L - cnt true v L.
Proof.
  induction 1 as [|[w c] L Hw H IH]; cbn [cross cnt nlab]; [reflexivity|]. cbn in Hw.
  rewrite IH. unfold contrib; cbn [fst snd]. destruct c; cbn [Bool.eqb].
  - rewrite andb_true_r. rewrite (pair_score_ge w v Hw). destruct (w =? v); lia.
  - rewrite andb_false_r. lia.
Qed.

Lemma twoU_vec_shift d tr : forall V, twoU_vec (V + d) tr = twoU_vec V tr + 2 * d * sumr tr.
Proof.
  induction tr as [|[t r] tr IH]; intros V; cbn [twoU_vec sumr fold_right snd]; [lia|].
  replace (V + d + (t - r)) with (V + (t - r) + d) by lia. rewrite IH.
  fold (sumr tr). lia.
Qed.

(** ** count-vector form = pair scores, on a sorted labeled list *)
Lemma vec_pairs2 L : vsorted L -> twoU_vec 0 (gvec (groups L)) = pairs2 L.
Proof.
  induction 1 as [|v b L Hv Hs IH]; [reflexivity|].
  cbn [pairs2 groups]. rewrite <- IH.
  pose proof (cnt_head true v L Hs Hv) as Ht.
  pose proof (cnt_head false v L Hs Hv) as Hf.
  pose proof (sumr_groups L) as HR.
  destruct (groups L) as [|[[v' sz] nx] gs] eqn:EG.
  - apply groups_nil in EG; subst L. cbn [gvec map twoU_vec cross]. destruct b; cbn [b2z g_size g_nx1 fst snd]; lia.
  - cbn [gvec map g_size g_nx1 fst snd] in *. cbn [sumr fold_right snd] in HR. fold (gvec gs) in *. fold (sumr (gvec gs)) in HR.
    destruct (v =? v') eqn:E.
    + destruct b.
      * rewrite (cross_true v L Hv), Hf. cbn [gvec map g_size g_nx1 fst snd twoU_vec b2z]. fold (gvec gs).
        replace (0 + (sz + 1 - (nx + 1))) with (0 + (sz - nx)) by lia. ring.
      * rewrite (cross_false v L Hv), Ht, <- HR. cbn [gvec map g_size g_nx1 fst snd twoU_vec b2z]. fold (gvec gs).
        replace (0 + (sz + 1 - (nx + 0))) with (0 + (sz - nx) + 1) by lia.
        rewrite twoU_vec_shift. ring.
    + destruct b.
      * rewrite (cross_true v L Hv), Hf. cbn [gvec map g_size g_nx1 fst snd twoU_vec b2z]. fold (gvec gs).
        replace (0 + (1 - 1)) with 0 by lia. ring.
      * rewrite (cross_false v L Hv), Ht, <- HR. cbn [gvec map g_size g_nx1 fst snd twoU_vec b2z]. fold (gvec gs).
        replace (0 + (1 - 0) + (sz - nx)) with (0 + (sz - nx) + 1) by lia.
        rewrite twoU_vec_shift. ring.
Qed.

(** ** rank form = count-vector form (pure algebra) *)
Fixpoint sq (Q : Z) (gs : list grp) : Z :=
  match gs with
  | [] => 0
  | (_, _, nx) :: gs' => nx * (2 * Q + nx + 1) + sq (Q + nx) gs'
  end.

Lemma sq_closed gs : forall Q, sq Q gs = (Q + sumr (gvec gs)) * (Q + sumr (gvec gs) + 1) - Q * (Q + 1).
Proof.
  induction gs as [|[[v sz] nx] gs IH]; intros Q; cbn [sq gvec map sumr fold_right g_nx1 snd]; [lia|].
  fold (gvec gs). fold (sumr (gvec gs)). rewrite IH. ring.
Qed.

Lemma rank_algebra gs : forall S Q, rank_loop S gs - sq Q gs = twoU_vec (S - Q) (gvec gs).
Proof.
  induction gs as [|[[v sz] nx] gs IH]; intros S Q; cbn [rank_loop sq gvec map twoU_vec g_size g_nx1 fst snd]; [lia|].
  fold (gvec gs). specialize (IH (S + sz) (Q + nx)).
  replace (S - Q + (sz - nx)) with (S + sz - (Q + nx)) by lia. rewrite <- IH.
  destruct (nx =? 0) eqn:E; [apply Z.eqb_eq in E; subst nx|]; ring.
Qed.

Lemma nlab_perm b L L' : Permutation L L' -> nlab b L = nlab b L'.
Proof.
  induction 1 as [|[v c] L L' _ IH|[v c] [w d] L|]; cbn [nlab]; lia.
Qed.
Lemma nlab_app b L1 L2 : nlab b (L1 ++ L2) = nlab b L1 + nlab b L2.
Proof. induction L1 as [|[v c] L1 IH]; cbn [nlab app]; lia. Qed.
Lemma nlab_tag b c l : nlab b (tag c l) = if Bool.eqb c b then Z.of_nat (length l) else 0.
Proof.
  induction l as [|x l IH]; cbn [nlab tag map length]; [destruct (Bool.eqb c b); reflexivity|].
  fold (tag c l). rewrite IH. destruct (Bool.eqb c b); lia.
Qed.

Lemma merged_perm x1 x2 : Permutation (merged x1 x2) (tag true x1 ++ tag false x2).
Proof.
  unfold merged. rewrite lmerge_perm.
  apply Permutation_app; apply tag_perm, isort_perm.
Qed.
Lemma merged_sorted x1 x2 : vsorted (merged x1 x2).
Proof. apply lmerge_sorted; apply isort_sorted. Qed.

Lemma combine_gvec gs : combine (map g_size gs) (map g_nx1 gs) = gvec gs.
Proof. induction gs as [|g gs IH]; cbn; [reflexivity | now rewrite IH]. Qed.

Lemma nlab_merged x1 x2 : nlab true (merged x1 x2) = zlen x1.
Proof.
  rewrite (nlab_perm _ _ _ (merged_perm x1 x2)), nlab_app, !nlab_tag. cbn. unfold zlen. lia.
Qed.

Theorem ustat_vec x1 x2 :
  us_twoU1 (ustat_of x1 x2) = twoU_vec 0 (combine (us_T (ustat_of x1 x2)) (us_r (ustat_of x1 x2))).
Proof.
  unfold ustat_of; cbn [us_twoU1 us_T us_r]. rewrite combine_gvec.
  pose proof (rank_algebra (groups (merged x1 x2)) 0 0) as H.
  rewrite sq_closed, sumr_groups, nlab_merged in H. cbn [Z.sub] in H.
  replace (0 - 0) with 0 in H by lia. rewrite <- H. lia.
Qed.

Theorem u_counts_pairs x1 x2 : us_twoU1 (ustat_of x1 x2) = twoU_pairs x1 x2.
Proof.
  rewrite ustat_vec. unfold ustat_of; cbn [us_T us_r]. rewrite combine_gvec.
  rewrite (vec_pairs2 _ (merged_sorted x1 x2)).
  rewrite (pairs2_perm _ _ (merged_perm x1 x2)). apply pairs2_tagged.
Qed.

(** ** mirrored statistic when the samples are swapped *)
Lemma pair_score_swap x y : pair_score x y + pair_score y x = 2.
Proof.
  unfold pair_score.
  destruct (Z.ltb_spec y x), (Z.ltb_spec x y), (Z.eqb_spec x y), (Z.eqb_spec y x); lia.
Qed.

Fixpoint col_score (y : Z) (xs : list Z) : Z :=
  match xs with [] => 0 | x :: xs' => pair_score x y + col_score y xs' end.

Lemma twoU_pairs_cons_r xs y ys : twoU_pairs xs (y :: ys) = col_score y xs + twoU_pairs xs ys.
Proof. induction xs as [|x xs IH]; cbn [twoU_pairs row_score col_score]; [reflexivity|]. rewrite IH. lia. Qed.

Lemma row_col x ys : row_score x ys + col_score x ys = 2 * Z.of_nat (length ys).
Proof.
  induction ys as [|y ys IH]; cbn [row_score col_score length]; [reflexivity|].
  pose proof (pair_score_swap x y). lia.
Qed.

Theorem twoU_pairs_swap x1 x2 :
  twoU_pairs x2 x1 = 2 * (zlen x1 * zlen x2) - twoU_pairs x1 x2.
Proof.
  unfold zlen. induction x1 as [|x x1 IH]; cbn [twoU_pairs length].
  - induction x2 as [|y x2 IH2]; cbn [twoU_pairs row_score]; lia.
  - rewrite twoU_pairs_cons_r, IH. pose proof (row_col x x2). lia.
Qed.

(** ** the tie vector depends on the pooled values only *)
Lemma groups_vruns L : map (fun g => (g_val g, g_size g)) (groups L) = vruns (map fst L).
Proof.
  induction L as [|[v b] L IH]; [reflexivity|]. cbn [groups map fst vruns]. rewrite <- IH.
  destruct (groups L) as [|[[v' sz] nx] gs]; [reflexivity|].
  cbn [map g_val g_size fst snd]. destruct (v =? v'); reflexivity.
Qed.

Lemma vsorted_fst L : vsorted L -> zsorted (map fst L).
Proof.
  induction 1 as [|v b L Hv Hs IH]; cbn [map fst]; constructor; [|exact IH].
  unfold le_all in Hv. rewrite Forall_map. exact Hv.
Qed.

Lemma map_fst_tag b l : map fst (tag b l) = l.
Proof. induction l as [|x l IH]; cbn [tag map fst]; [reflexivity|]. fold (tag b l). now rewrite IH. Qed.

Lemma merged_values x1 x2 : map fst (merged x1 x2) = isort (x1 ++ x2).
Proof.
  apply zsorted_perm_eq; [apply vsorted_fst, merged_sorted | apply isort_sorted |].
  rewrite (Permutation_map fst (merged_perm x1 x2)), map_app, !map_fst_tag.
  symmetry; apply isort_perm.
Qed.

Theorem us_T_pool x1 x2 : us_T (ustat_of x1 x2) = pool_T x1 x2.
Proof.
  unfold ustat_of, pool_T; cbn [us_T]. rewrite <- merged_values, <- groups_vruns, map_map.
  apply map_ext. intros g; reflexivity.
Qed.

Theorem pool_T_swap x1 x2 : pool_T x2 x1 = pool_T x1 x2.
Proof. unfold pool_T. do 2 f_equal. apply isort_perm_eq, Permutation_app_comm. Qed.

(** ** ties and the all-equal case *)
Lemma hasTies_iff x1 x2 :
  us_hasTies (ustat_of x1 x2) = existsb (fun t => 1 <? t) (us_T (ustat_of x1 x2)).
Proof.
  unfold ustat_of; cbn [us_hasTies us_T]. generalize (groups (merged x1 x2)) as gs.
  induction gs as [|g gs IH]; cbn [existsb map]; [reflexivity | now rewrite IH].
Qed.

Lemma vruns_nil l : vruns l = [] -> l = [].
Proof.
  destruct l as [|v l]; [reflexivity|]. cbn [vruns].
  destruct (vruns l) as [|[w c] rs]; [discriminate|]. destruct (v =? w); discriminate.
Qed.

Lemma vruns_single l : forall w,
  (exists c, vruns l = [(w, c)]) <-> (l <> [] /\ Forall (fun x => x = w) l).
Proof.
  induction l as [|v l IH]; intros w.
  - cbn. split; [intros [c H]; discriminate | intros [H _]; congruence].
  - cbn [vruns]. destruct (vruns l) as [|[w' c'] rs] eqn:ER.
    + apply vruns_nil in ER; subst l. split.
      * intros [c H]. inversion H; subst. split; [discriminate | repeat constructor].
      * intros [_ H]. inversion H; subst. now eexists.
    + destruct (v =? w') eqn:E.
      * apply Z.eqb_eq in E; subst w'. split.
        -- intros [c H]. inversion H; subst. split; [discriminate|].
           constructor; [reflexivity|]. apply (IH w). now eexists.
        -- intros [_ H]. inversion H as [|? ? Hv Hl]; subst.
           assert (Hne : l <> []) by (intros ->; discriminate).
           destruct (proj2 (IH w) (conj Hne Hl)) as [c Hc]. inversion Hc; subst. now eexists.
      * apply Z.eqb_neq in E. split.
        -- intros [c H]. discriminate.
        -- intros [_ H]. inversion H as [|? ? Hv Hl]; subst.
           assert (Hne : l <> []) by (intros ->; discriminate).
           destruct (proj2 (IH w) (conj Hne Hl)) as [c Hc]. inversion Hc; subst. congruence.
Qed.

Theorem pool_T_single x1 x2 :
  (exists c, pool_T x1 x2 = [c]) <-> (x1 ++ x2 <> [] /\ exists v, Forall (fun x => x = v) (x1 ++ x2)).
Proof.
  unfold pool_T. set (l := x1 ++ x2). clearbody l.
  assert (Hiff : forall w, (isort l <> [] /\ Forall (fun x => x = w) (isort l)) <-> (l <> [] /\ Forall (fun x => x = w) l)).
  { intros w. pose proof (isort_perm l) as Hp. split; intros [Hne Hall]; split.
    - intros ->. apply Hne. now apply Permutation_nil.
    - eapply Permutation_Forall; eassumption.
    - intros E. rewrite E in Hp. now apply Permutation_nil in Hp.
    - eapply Permutation_Forall; [symmetry; exact Hp | exact Hall]. }
  split.
  - intros [c H]. destruct (vruns (isort l)) as [|[w c'] rs] eqn:ER; [discriminate|].
    destruct rs; [|discriminate].
    destruct (proj1 (Hiff w) (proj1 (vruns_single _ w) (ex_intro _ c' ER))) as [Hne Hall].
    split; [exact Hne | now exists w].
  - intros [Hne [w Hall]].
    destruct (proj2 (vruns_single _ w) (proj2 (Hiff w) (conj Hne Hall))) as [c Hc].
    rewrite Hc. now eexists.
Qed.
