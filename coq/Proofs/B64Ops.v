(** One binary64 operation of Base/B64.v ([spec_float]) on finite operands,
    read over the reals: if the rounded exact result is below 2^1024 the
    operation returns a finite value holding RN(exact result). Comparisons
    read over the reals. Shared by the C12 binary64 range theorems.
    Through Flocq (classical reals in Print Assumptions). *)
From Coq Require Import ZArith Reals Lia Lra Bool List.
From Flocq Require Import Core BinarySingleNaN.
From Perf Require Import Base.Bytes Base.B64 Proofs.B64Flocq Proofs.LegacyMean.
Local Open Scope R_scope.

Lemma b64_mul_Bmult' (x y : Bf) : b64_mul (B2SF x) (B2SF y) = B2SF (Bmult mode_NE x y).
Proof.
  destruct x as [sx|sx| |sx mx ex Bx], y as [sy|sy| |sy my ey By]; try reflexivity.
  unfold b64_mul. simpl. rewrite B2SF_SF2B. apply binary_round_aux_equiv.
Qed.

Lemma not_overflow_finite (W : Bf) s : B2SF W = binary_overflow 53 1024 mode_NE s -> is_finite W = false.
Proof. intros H. rewrite <- sf_finite_B2SF, H. reflexivity. Qed.

Lemma add_R (X Y : Bf) : is_finite X = true -> is_finite Y = true ->
  Rabs (RN (B2R X + B2R Y)) < bpow radix2 1024 ->
  exists W : Bf, b64_add (B2SF X) (B2SF Y) = B2SF W /\ is_finite W = true
    /\ B2R W = RN (B2R X + B2R Y).
Proof.
  intros FX FY Hb. rewrite b64_add_Bplus. exists (Bplus mode_NE X Y). split; [reflexivity|].
  pose proof (Bplus_correct 53 1024 _ _ mode_NE X Y FX FY) as H. cbn [round_mode] in H.
  rewrite Rlt_bool_true in H by exact Hb. destruct H as (H1 & H2 & _). auto.
Qed.

Lemma sub_R (X Y : Bf) : is_finite X = true -> is_finite Y = true ->
  Rabs (RN (B2R X - B2R Y)) < bpow radix2 1024 ->
  exists W : Bf, b64_sub (B2SF X) (B2SF Y) = B2SF W /\ is_finite W = true
    /\ B2R W = RN (B2R X - B2R Y).
Proof.
  intros FX FY Hb. rewrite b64_sub_Bminus. exists (Bminus mode_NE X Y). split; [reflexivity|].
  pose proof (Bminus_correct 53 1024 _ _ mode_NE X Y FX FY) as H. cbn [round_mode] in H.
  rewrite Rlt_bool_true in H by exact Hb. destruct H as (H1 & H2 & _). auto.
Qed.

(** a finite difference is the rounded exact difference *)
Lemma sub_finite_R (X Y : Bf) : is_finite X = true -> is_finite Y = true ->
  b64_is_finite (b64_sub (B2SF X) (B2SF Y)) = true ->
  Rabs (RN (B2R X - B2R Y)) < bpow radix2 1024.
Proof.
  intros FX FY Hf. rewrite b64_sub_Bminus, b64_is_finite_B2SF in Hf.
  pose proof (Bminus_correct 53 1024 _ _ mode_NE X Y FX FY) as H. cbn [round_mode] in H.
  destruct (Rlt_bool_spec (Rabs (RN (B2R X - B2R Y))) (bpow radix2 1024)) as [L|L]; auto.
  destruct H as [H _]. apply not_overflow_finite in H. congruence.
Qed.

Lemma mul_R (X Y : Bf) : is_finite X = true -> is_finite Y = true ->
  Rabs (RN (B2R X * B2R Y)) < bpow radix2 1024 ->
  exists W : Bf, b64_mul (B2SF X) (B2SF Y) = B2SF W /\ is_finite W = true
    /\ B2R W = RN (B2R X * B2R Y).
Proof.
  intros FX FY Hb. rewrite b64_mul_Bmult'. exists (Bmult mode_NE X Y). split; [reflexivity|].
  pose proof (Bmult_correct 53 1024 _ _ mode_NE X Y) as H. cbn [round_mode] in H.
  rewrite Rlt_bool_true in H by exact Hb. destruct H as (H1 & H2 & _).
  rewrite FX, FY in H2. auto.
Qed.

Lemma lift_valid x : valid x = true -> exists X : Bf, x = B2SF X.
Proof. intros V. exists (SF2B x V). now rewrite B2SF_SF2B. Qed.

(** comparisons *)
Lemma b64_le_of_R (X Y : Bf) : is_finite X = true -> is_finite Y = true ->
  B2R X <= B2R Y -> b64_le (B2SF X) (B2SF Y) = true.
Proof.
  intros FX FY H. change (Bleb X Y = true). rewrite (Bleb_correct 53 1024 X Y FX FY).
  now apply Rle_bool_true.
Qed.

Lemma b64_lt_of_R (X Y : Bf) : is_finite X = true -> is_finite Y = true ->
  B2R X < B2R Y -> b64_lt (B2SF X) (B2SF Y) = true.
Proof.
  intros FX FY H. change (Bltb X Y = true). rewrite (Bltb_correct 53 1024 X Y FX FY).
  now apply Rlt_bool_true.
Qed.

Lemma b64_lt_false_R (X Y : Bf) : is_finite X = true -> is_finite Y = true ->
  b64_lt (B2SF X) (B2SF Y) = false -> B2R Y <= B2R X.
Proof.
  intros FX FY H. change (Bltb X Y = false) in H. rewrite (Bltb_correct 53 1024 X Y FX FY) in H.
  destruct (Rlt_bool_spec (B2R X) (B2R Y)); [discriminate|assumption].
Qed.

Lemma b64_eq_R (X Y : Bf) : is_finite X = true -> is_finite Y = true ->
  b64_eq (B2SF X) (B2SF Y) = Req_bool (B2R X) (B2R Y).
Proof. intros FX FY. change (Beqb X Y = Req_bool (B2R X) (B2R Y)). now apply Beqb_correct. Qed.

(** constants *)
Lemma B2R_one : is_finite (BofZ 1) = true /\ B2R (BofZ 1) = 1.
Proof. apply (BofZ_exact 1). lia. Qed.

Lemma b64_one_B : b64_one = B2SF (BofZ 1).
Proof. apply b64_of_Z_BofZ. Qed.

Definition Bzero : Bf := B754_zero false.
Lemma b64_zero_B : b64_zero = B2SF Bzero.
Proof. reflexivity. Qed.

(** [0 <= c <= 1] for a value of the format: finite, and the same over R *)
Lemma unit_R (C : Bf) :
  b64_le b64_zero (B2SF C) = true -> b64_le (B2SF C) b64_one = true ->
  is_finite C = true /\ 0 <= B2R C <= 1.
Proof.
  intros H0 H1.
  assert (FC : is_finite C = true).
  { destruct C as [s|[|]| |s m e B]; try reflexivity; try discriminate. }
  split; [exact FC|]. destruct B2R_one as [F1 R1].
  rewrite b64_one_B in H1. rewrite b64_zero_B in H0.
  pose proof (SFleb_R Bzero C eq_refl FC H0) as A. pose proof (SFleb_R C (BofZ 1) FC F1 H1) as B.
  cbn [Bzero B2R] in A. lra.
Qed.

Lemma unit_of_R (C : Bf) : is_finite C = true -> 0 <= B2R C <= 1 ->
  b64_le b64_zero (B2SF C) = true /\ b64_le (B2SF C) b64_one = true.
Proof.
  intros FC [A B]. destruct B2R_one as [F1 R1]. rewrite b64_one_B, b64_zero_B. split.
  - apply b64_le_of_R; auto.
  - apply b64_le_of_R; auto. lra.
Qed.

Lemma bpow1024_big : 2 < bpow radix2 1024.
Proof. change 2 with (bpow radix2 1). apply bpow_lt. lia. Qed.

Lemma Rabs_lt_of_bounds lo hi v b : lo <= v <= hi -> - b < lo -> hi < b -> Rabs v < b.
Proof. intros H A B. apply Rabs_def1; lra. Qed.

Lemma RN_le_F x b : F64 b -> x <= b -> RN x <= b.
Proof. intros Fb H. apply round_le_generic; try typeclasses eauto; assumption. Qed.
Lemma RN_ge_F x a : F64 a -> a <= x -> a <= RN x.
Proof. intros Fa H. apply round_ge_generic; try typeclasses eauto; assumption. Qed.
