(** What parse.ParseFilter / benchproc.NewFilter always reject (Model/FilterParse.v).

    The filter parser reads its text through the tokenizer, asking for a
    value token (regexps allowed) after a colon and inside a value list and
    for a key-or-operator token everywhere else. [filter_tokens q] is that
    token stream as a function of the text alone: the three-state machine
    [lstate] decides the mode of each call from the tokens read so far.

    [parse_filter_sound]: if the parser accepts a text then the text has no
    lexical fault, its token stream is accepted by the one-counter automaton
    [dstep] (operand / operator positions, key - colon - value, value lists,
    nesting depth of the group parentheses), every key token occurs as a key
    of the tree, and every offset in the tree lies inside the text. All
    "always rejected" clauses are consequences. *)
From Perf Require Import Base.Bytes Base.Rune Model.Unquote Model.Tok Model.FilterAst Model.FilterParse
  Proofs.Unquote Proofs.Tok Proofs.FilterParse Proofs.TokStream.

(** ** the tokenizer modes of the filter parser *)
Inductive lstate := LKey | LVal | LList.
Definition lmode (s : lstate) : bool := match s with LKey => false | _ => true end.
Definition lstep (s : lstate) (t : tok) : lstate :=
  match s with
  | LKey => if kind_eqb_op (t_kind t) c_colon then LVal else LKey
  | LVal => if kind_eqb_op (t_kind t) c_lpar then LList else LKey
  | LList => if kind_eqb_op (t_kind t) c_rpar then LKey else LList
  end.

Definition filter_tokens (is_space : N -> bool) (re_ok : bytes -> bool) (q : bytes) : lexres :=
  toks is_space re_ok (length q) lstate lmode lstep (S (length q)) LKey q.

(** an error-free run of the tokenizer over the text [q], in the parser's
    modes: it reads [ts], is then in mode state [st] and leaves [r] *)
Definition filter_lexes (is_space : N -> bool) (re_ok : bytes -> bool) (q : bytes)
    (ts : list tok) (st : lstate) (r : bytes) : Prop :=
  chain is_space re_ok (length q) lstate lmode (fun s t => Some (lstep s t)) LKey q ts st r.

(** the state of the mode machine after a list of tokens *)
Definition lstate_after (ts : list tok) : lstate := fold_left lstep ts LKey.

(** ** parentheses of a token list: depth never negative, zero at the end *)
Fixpoint paren_depth (d : nat) (ts : list tok) : option nat :=
  match ts with
  | [] => Some d
  | t :: ts' =>
      if kind_eqb_op (t_kind t) c_lpar then paren_depth (S d) ts'
      else if kind_eqb_op (t_kind t) c_rpar then
        match d with O => None | S d' => paren_depth d' ts' end
      else paren_depth d ts'
  end.
Definition balanced (ts : list tok) : bool :=
  match paren_depth 0 ts with Some O => true | _ => false end.

(** ** the automaton of accepted token streams *)
Inductive dst :=
| DO    (* an operand must follow: start, after "(", "-", OR *)
| DA    (* after an operand: AND, OR, ")", the end, or another operand *)
| DK    (* after a key: ":" *)
| DV    (* after ":" : a value or "(" *)
| DL1   (* in a value list: a value *)
| DL2.  (* in a value list after a value: OR or ")" *)
Definition dcfg := (dst * nat)%type.       (* state, depth of open group parentheses *)

Definition dmode (c : dcfg) : bool :=
  match fst c with DV | DL1 | DL2 => true | _ => false end.

Definition dstep (c : dcfg) (t : tok) : option dcfg :=
  let '(s, d) := c in
  let k := t_kind t in
  match s with
  | DO | DA =>
      match k with
      | KOp ch =>
          if Byte.eqb ch c_lpar then Some (DO, S d)
          else if Byte.eqb ch c_minus then Some (DO, d)
          else if Byte.eqb ch c_aster then Some (DA, d)
          else if Byte.eqb ch c_rpar then
            match s, d with DA, S d' => Some (DA, d') | _, _ => None end
          else None
      | KWord | KQuoted => Some (DK, d)
      | KAnd => match s with DA => Some (DA, d) | _ => None end
      | KOr => match s with DA => Some (DO, d) | _ => None end
      | _ => None
      end
  | DK => if kind_eqb_op k c_colon then Some (DV, d) else None
  | DV => if is_value k then Some (DA, d)
          else if kind_eqb_op k c_lpar then Some (DL1, d) else None
  | DL1 => if is_value k then Some (DL2, d) else None
  | DL2 => match k with
           | KOp ch => if Byte.eqb ch c_rpar then Some (DA, d) else None
           | KOr => Some (DL1, d)
           | _ => None
           end
  end.

Definition drun := run dcfg dstep.
Definition accepts (ts : list tok) : bool :=
  match drun (DO, 0) ts with Some (DA, O) => true | _ => false end.

(** key tokens: the words read where an operand may start *)
Definition key_pos (c : dcfg) : bool := match fst c with DO | DA => true | _ => false end.
Fixpoint dkeys (c : dcfg) (ts : list tok) : list bytes :=
  match ts with
  | [] => []
  | t :: ts' =>
      (if key_pos c && is_word (t_kind t) then [t_text t] else [])
      ++ match dstep c t with Some c' => dkeys c' ts' | None => [] end
  end.

(** ** keys and offsets of a tree *)
Fixpoint fkeys (x : filter) : list bytes :=
  match x with
  | FMatch k _ _ => [k]
  | FAnd l | FOr l => flat_map fkeys l
  | FNot y => fkeys y
  end.
Fixpoint foffs (x : filter) : list nat :=
  match x with
  | FMatch _ _ o => [o]
  | FAnd l | FOr l => flat_map foffs l
  | FNot y => foffs y
  end.

Lemma fkeys_mk_and l : fkeys (mk_and l) = flat_map fkeys l.
Proof. destruct l as [|t [|u l]]; cbn [mk_and fkeys flat_map]; auto. now rewrite app_nil_r. Qed.
Lemma fkeys_mk_or l : fkeys (mk_or l) = flat_map fkeys l.
Proof. destruct l as [|t [|u l]]; cbn [mk_or fkeys flat_map]; auto. now rewrite app_nil_r. Qed.
Lemma foffs_mk_and l : foffs (mk_and l) = flat_map foffs l.
Proof. destruct l as [|t [|u l]]; cbn [mk_and foffs flat_map]; auto. now rewrite app_nil_r. Qed.
Lemma foffs_mk_or l : foffs (mk_or l) = flat_map foffs l.
Proof. destruct l as [|t [|u l]]; cbn [mk_or foffs flat_map]; auto. now rewrite app_nil_r. Qed.
Lemma fkeys_mk_match off key v : fkeys (mk_match off key v) = [key].
Proof. unfold mk_match. destruct (t_kind v); reflexivity. Qed.
Lemma foffs_mk_match off key v : foffs (mk_match off key v) = [off].
Proof. unfold mk_match. destruct (t_kind v); reflexivity. Qed.

Lemma dkeys_app c ts1 ts2 c1 :
  drun c ts1 = Some c1 -> dkeys c (ts1 ++ ts2) = dkeys c ts1 ++ dkeys c1 ts2.
Proof.
  revert c; induction ts1 as [|t ts1 IH]; intros c; cbn [drun run app dkeys].
  - intros [= ->]. reflexivity.
  - destruct (dstep c t) as [c'|]; [|discriminate]. intros H.
    fold (drun c' ts1) in H. rewrite (IH _ H), app_assoc. reflexivity.
Qed.

Lemma key_pos_mode c : key_pos c = true -> dmode c = false.
Proof. destruct c as [[] d]; cbn; congruence. Qed.

Section Sound.
Variable is_space : N -> bool.
Variable re_ok : bytes -> bool.
Variable n0 : nat.

Notation next := (next is_space re_ok n0).
Notation sk q := (skip_spaces is_space q 0).
Notation dchain := (chain is_space re_ok n0 dcfg dmode dstep).
Notation match_ := (match_ is_space re_ok n0).
Notation and_loop := (and_loop is_space re_ok n0).
Notation and_expr := (and_expr is_space re_ok n0).
Notation expr_loop := (expr_loop is_space re_ok n0).
Notation vlist := (vlist is_space re_ok n0).
Notation le0 := (fun o : nat => o <= n0).

(** what a parser function that ends without a recorded error has done: it
    has read the tokens [ts] (an error-free chain accepted by the automaton
    from [c] to [c']), the key tokens among them and the keys of the trees it
    was handed are keys of its result, and the offsets of the result are in
    range if those of the trees it was handed are *)
Definition good (c c' : dcfg) (q : bytes) (terms : list filter) (x : filter) (r : bytes) : Prop :=
  exists ts, dchain c q ts c' r
    /\ incl (dkeys c ts ++ flat_map fkeys terms) (fkeys x)
    /\ (Forall le0 (flat_map foffs terms) -> Forall le0 (foffs x)).

Lemma perror_none q e x r : perror n0 q e = Some (x, r, None) -> False.
Proof. unfold perror. intros [= _ _ H]. exact (set_err_some _ _ H). Qed.

Ltac back :=
  repeat match goal with
  | H : Tok.next _ _ _ _ _ ?e = (_, _, _, None) |- _ =>
      is_var e;
      let Hq := fresh "Hq" in let Hf := fresh "Hf" in
      destruct (next_none_inv _ _ _ _ _ _ _ _ _ H) as (-> & Hq & Hf)
  end.

Ltac kinds :=
  repeat match goal with
  | H : Byte.eqb _ _ = true |- _ => apply beqb_eq in H; subst
  | H : kind_eqb_op (t_kind ?t) _ = true |- _ =>
      let c := fresh "c" in let E := fresh "Ek" in
      destruct (t_kind t) as [|c| | | | |] eqn:E; cbn [kind_eqb_op] in H; try discriminate H
  end.

Lemma flat_map_snoc {A B} (f : A -> list B) l a : flat_map f (l ++ [a]) = flat_map f l ++ f a.
Proof. rewrite flat_map_app. cbn [flat_map]. now rewrite app_nil_r. Qed.

(** *** the value list *)
Lemma vlist_sound f : forall rest e off key terms x r,
  vlist f rest e off key terms = Some (x, r, None) ->
  e = None /\ forall d, exists ts,
    dchain (DL1, d) rest ts (DA, d) r /\ dkeys (DL1, d) ts = []
    /\ incl (key :: flat_map fkeys terms) (fkeys x)
    /\ (off <= n0 -> Forall le0 (flat_map foffs terms) -> Forall le0 (foffs x)).
Proof.
  induction f as [|f IH]; intros rest e off key terms x r; cbn [FilterParse.vlist]; [discriminate|].
  destruct (next true rest e) as [[[v r2] rest'] e1] eqn:Hn1.
  destruct (is_value (t_kind v)) eqn:Ev; [|intros H; exfalso; exact (perror_none _ _ _ _ H)].
  destruct (next true r2 e1) as [[[v2 r3] r2'] e2] eqn:Hn2.
  assert (Hv : t_kind v <> KEOF) by (destruct (t_kind v); cbn in Ev; congruence).
  assert (Hs1 : forall d, dstep (DL1, d) v = Some (DL2, d)) by (intros d; cbn; now rewrite Ev).
  assert (Hk1 : forall d, key_pos (DL1, d) = false) by reflexivity.
  destruct (t_kind v2) eqn:Ek2; try (intros H; exfalso; exact (perror_none _ _ _ _ H)).
  - (* ")" *)
    destruct (Byte.eqb c c_rpar) eqn:Ec; [|intros H; exfalso; exact (perror_none _ _ _ _ H)].
    intros [= <- <- ->]. back. split; [reflexivity|]. intros d.
    exists [v; v2]. split; [|split; [|split]].
    + eapply ch_cons; [exact Hn1|exact Hv|apply Hs1|].
      eapply ch_cons; [exact Hn2|congruence|cbn; now rewrite Ek2, Ec|apply chain_refl].
    + cbn [dkeys]. rewrite Hs1. cbn. rewrite Ek2, Ec. reflexivity.
    + cbn [fkeys]. rewrite flat_map_snoc, fkeys_mk_match.
      intros k [<-|Hk]; apply in_or_app; [right; now left|now left].
    + intros Ho Ht. cbn [foffs]. rewrite flat_map_snoc, foffs_mk_match.
      apply Forall_app. split; [exact Ht|constructor; [exact Ho|constructor]].
  - (* OR *)
    intros H. apply IH in H. destruct H as (-> & H). back. split; [reflexivity|]. intros d.
    destruct (H d) as (ts & Hc & Hkeys & Hin & Hoffs).
    exists (v :: v2 :: ts). split; [|split; [|split]].
    + eapply ch_cons; [exact Hn1|exact Hv|apply Hs1|].
      eapply ch_cons; [exact Hn2|congruence|cbn; now rewrite Ek2|exact Hc].
    + cbn [dkeys]. rewrite Hs1. cbn. rewrite Ek2. exact Hkeys.
    + intros k Hk. apply Hin. destruct Hk as [<-|Hk]; [now left|].
      right. rewrite flat_map_snoc. apply in_or_app. now left.
    + intros Ho Ht. apply Hoffs; [exact Ho|]. rewrite flat_map_snoc, foffs_mk_match.
      apply Forall_app. split; [exact Ht|constructor; [exact Ho|constructor]].
Qed.

(** *** composition of [good] *)
Lemma good_nil c q terms x r :
  sk q = sk r -> incl (flat_map fkeys terms) (fkeys x) ->
  (Forall le0 (flat_map foffs terms) -> Forall le0 (foffs x)) -> good c c q terms x r.
Proof. intros E Hk Ho. exists []. split; [now constructor|]. split; [exact Hk|exact Ho]. Qed.

Lemma good_step c c1 c' q t r1 q' terms x r :
  next (dmode c) q None = (t, r1, q', None) -> t_kind t <> KEOF -> dstep c t = Some c1 ->
  (key_pos c && is_word (t_kind t) = true -> In (t_text t) (fkeys x)) ->
  good c1 c' r1 terms x r -> good c c' q terms x r.
Proof.
  intros Hn Hk Hs Hkey (ts & Hc & Hi & Ho). exists (t :: ts). split; [|split; [|exact Ho]].
  - eapply ch_cons; eauto.
  - cbn [dkeys]. rewrite Hs. intros k Hin. rewrite <- app_assoc in Hin.
    apply in_app_or in Hin. destruct Hin as [Hin|Hin]; [|now apply Hi].
    destruct (key_pos c && is_word (t_kind t)); [|contradiction].
    destruct Hin as [<-|[]]. now apply Hkey.
Qed.

Lemma good_seq c c1 c' q y r1 terms x r :
  good c c1 q [] y r1 -> good c1 c' r1 (terms ++ [y]) x r -> good c c' q terms x r.
Proof.
  intros (ts1 & Hc1 & Hi1 & Ho1) (ts2 & Hc2 & Hi2 & Ho2). exists (ts1 ++ ts2).
  split; [eapply chain_app; eauto|]. split.
  - rewrite (dkeys_app _ _ _ _ (chain_run _ _ _ _ _ _ _ _ _ _ _ Hc1)).
    rewrite flat_map_snoc in Hi2. cbn [flat_map] in Hi1. rewrite app_nil_r in Hi1.
    intros k Hin. apply Hi2. rewrite <- app_assoc in Hin.
    apply in_app_or in Hin. destruct Hin as [Hin|Hin].
    + apply in_or_app. right. apply in_or_app. right. now apply Hi1.
    + apply in_app_or in Hin. apply in_or_app. destruct Hin as [Hin|Hin]; [now left|].
      right. apply in_or_app. now left.
  - intros Ht. apply Ho2. rewrite flat_map_snoc. apply Forall_app. split; [exact Ht|].
    apply Ho1. constructor.
Qed.

Lemma good_snoc c c1 c2 q terms x r1 t r2 q' :
  good c c1 q terms x r1 -> next (dmode c1) r1 None = (t, r2, q', None) -> t_kind t <> KEOF ->
  dstep c1 t = Some c2 -> key_pos c1 && is_word (t_kind t) = false -> good c c2 q terms x r2.
Proof.
  intros (ts & Hc & Hi & Ho) Hn Hk Hs Hnk. exists (ts ++ [t]). split; [|split; [|exact Ho]].
  - eapply chain_snoc; eauto.
  - rewrite (dkeys_app _ _ _ _ (chain_run _ _ _ _ _ _ _ _ _ _ _ Hc)).
    cbn [dkeys]. rewrite Hnk, Hs. cbn [app]. rewrite app_nil_r. exact Hi.
Qed.

Lemma good_sk_start c c' q0 q terms x r :
  sk q0 = sk q -> good c c' q terms x r -> good c c' q0 terms x r.
Proof. intros E (ts & Hc & H). exists ts. split; [eapply chain_sk_start; eauto|exact H]. Qed.

Lemma good_sk_end c c' q terms x r r' :
  sk r = sk r' -> good c c' q terms x r -> good c c' q terms x r'.
Proof. intros E (ts & Hc & H). exists ts. split; [eapply chain_sk_end; eauto|exact H]. Qed.

(** *** the four mutually recursive parser functions *)
Definition I_match f := forall q e x r, match_ f q e = Some (x, r, None) ->
  e = None /\ forall s d, key_pos (s, d) = true -> good (s, d) (DA, d) q [] x r.
Definition I_loop f := forall q e terms x r, and_loop f q e terms = Some (x, r, None) ->
  e = None /\ forall d, good (DA, d) (DA, d) q terms x r.
Definition I_and f := forall q e x r, and_expr f q e = Some (x, r, None) ->
  e = None /\ forall d, good (DO, d) (DA, d) q [] x r.
Definition I_expr f := forall q e terms x r, expr_loop f q e terms = Some (x, r, None) ->
  e = None /\ forall d, good (DO, d) (DA, d) q terms x r.

Ltac refold :=
  fold (FilterParse.expr_loop is_space re_ok n0); fold (FilterParse.and_expr is_space re_ok n0);
  fold (FilterParse.and_loop is_space re_ok n0); fold (FilterParse.match_ is_space re_ok n0).

Ltac perr := let H := fresh in intros H; exfalso; exact (perror_none _ _ _ _ H).

Lemma parsers_sound f : I_match f /\ I_loop f /\ I_and f /\ I_expr f.
Proof.
  induction f as [|f (IHm & IHl & IHa & IHe)].
  { unfold I_match, I_loop, I_and, I_expr. repeat split; intros; discriminate. }
  assert (Hmatch : I_match (S f)).
  { intros start e x r. cbn [FilterParse.match_]; refold.
    destruct (next false start e) as [[[t rest] start'] e1] eqn:Hn.
    assert (Hkey : t_kind t = KWord \/ t_kind t = KQuoted ->
      match next false rest e1 with
      | (op, r2, _, e2) =>
          if negb (kind_eqb_op (t_kind op) c_colon) then perror n0 start' e2
          else match next true r2 e2 with
               | (v, r3, _, e3) =>
                   if is_value (t_kind v) then Some (mk_match (t_off t) (t_text t) v, r3, e3)
                   else if kind_eqb_op (t_kind v) c_lpar then vlist f r3 e3 (t_off t) (t_text t) []
                   else perror n0 start' e3
               end
      end = Some (x, r, None) ->
      e = None /\ forall s d, key_pos (s, d) = true -> good (s, d) (DA, d) start [] x r).
    { intros Hw.
      assert (Hw' : is_word (t_kind t) = true) by (destruct Hw as [-> | ->]; reflexivity).
      assert (Hne : t_kind t <> KEOF) by (destruct Hw as [-> | ->]; congruence).
      assert (Hoff : t_off t <= n0) by exact (next_off _ _ _ _ _ _ _ _ _ _ Hn).
      assert (Hs0 : forall s d, key_pos (s, d) = true -> dstep (s, d) t = Some (DK, d)).
      { intros s d Hp. destruct s; try discriminate Hp; cbn; destruct Hw as [-> | ->]; reflexivity. }
      destruct (next false rest e1) as [[[op r2] x2] e2] eqn:Hn2.
      destruct (kind_eqb_op (t_kind op) c_colon) eqn:Ecol; cbn [negb]; [|perr].
      assert (Hs1 : forall d, dstep (DK, d) op = Some (DV, d)) by (intros d; cbn; now rewrite Ecol).
      assert (Hne1 : t_kind op <> KEOF) by (destruct (t_kind op); cbn in Ecol; congruence).
      destruct (next true r2 e2) as [[[v r3] x3] e3] eqn:Hn3.
      destruct (is_value (t_kind v)) eqn:Ev.
      - intros [= <- <- ->]. back. split; [reflexivity|]. intros s d Hp. pose proof (key_pos_mode _ Hp) as Hmd.
        assert (Hne2 : t_kind v <> KEOF) by (destruct (t_kind v); cbn in Ev; congruence).
        eapply good_step; [rewrite Hmd; exact Hn|exact Hne|now apply Hs0| |].
        { intros _. rewrite fkeys_mk_match. now left. }
        eapply good_step; [exact Hn2|exact Hne1|apply Hs1|discriminate|].
        eapply good_step; [exact Hn3|exact Hne2|cbn; now rewrite Ev|discriminate|].
        apply good_nil; [reflexivity|intros k []|].
        intros _. rewrite foffs_mk_match. constructor; [exact Hoff|constructor].
      - destruct (kind_eqb_op (t_kind v) c_lpar) eqn:Elp; [|perr].
        intros H. apply vlist_sound in H. destruct H as (-> & H). back. split; [reflexivity|].
        intros s d Hp. pose proof (key_pos_mode _ Hp) as Hmd. destruct (H d) as (ts & Hc & Hdk & Hin & Ho).
        assert (Hne2 : t_kind v <> KEOF) by (destruct (t_kind v); cbn in Elp; congruence).
        eapply good_step; [rewrite Hmd; exact Hn|exact Hne|now apply Hs0| |].
        { intros _. apply Hin. now left. }
        eapply good_step; [exact Hn2|exact Hne1|apply Hs1|discriminate|].
        eapply good_step; [exact Hn3|exact Hne2|cbn; now rewrite Ev, Elp|discriminate|].
        exists ts. split; [exact Hc|]. split.
        + rewrite Hdk. intros k [].
        + intros _. apply Ho; [exact Hoff|constructor]. }
    destruct (t_kind t) eqn:Ek; try perr; try (apply Hkey; auto).
    (* operator *)
    assert (Hne : t_kind t <> KEOF) by congruence.
    destruct (Byte.eqb c c_lpar) eqn:Elp.
    { destruct (expr_loop f rest e1 []) as [[[x0 r1] e2]|] eqn:He; [|discriminate].
      destruct (next false r1 e2) as [[[op r2] r1'] e3] eqn:Hn2.
      destruct (kind_eqb_op (t_kind op) c_rpar) eqn:Erp; [|perr].
      intros [= <- <- ->]. back. apply IHe in He. destruct He as (-> & He). back.
      split; [reflexivity|]. intros s d Hp. pose proof (key_pos_mode _ Hp) as Hmd.
      eapply good_step; [rewrite Hmd; exact Hn|exact Hne| | |].
      { instantiate (1 := (DO, S d)). destruct s; try discriminate Hp; cbn; now rewrite Ek, Elp. }
      { rewrite Ek. rewrite andb_false_r. discriminate. }
      eapply good_snoc; [apply He|exact Hn2| | |].
      - destruct (t_kind op); cbn in Erp; congruence.
      - kinds. cbn. rewrite Ek0. reflexivity.
      - kinds. reflexivity. }
    destruct (Byte.eqb c c_minus) eqn:Emi.
    { destruct (match_ f rest e1) as [[[x0 r0] e2]|] eqn:Hm; [|discriminate].
      intros [= <- <- ->]. apply IHm in Hm. destruct Hm as (-> & Hm). back.
      split; [reflexivity|]. intros s d Hp. pose proof (key_pos_mode _ Hp) as Hmd.
      eapply good_step; [rewrite Hmd; exact Hn|exact Hne| | |].
      { instantiate (1 := (DO, d)). destruct s; try discriminate Hp; cbn; now rewrite Ek, Elp, Emi. }
      { rewrite Ek. rewrite andb_false_r. discriminate. }
      apply (Hm DO d). reflexivity. }
    destruct (Byte.eqb c c_aster) eqn:Eas; [|perr].
    intros [= <- <- ->]. back. split; [reflexivity|]. intros s d Hp. pose proof (key_pos_mode _ Hp) as Hmd.
    eapply good_step; [rewrite Hmd; exact Hn|exact Hne| | |].
    { instantiate (1 := (DA, d)). destruct s; try discriminate Hp; cbn; now rewrite Ek, Elp, Emi, Eas. }
    { rewrite Ek. rewrite andb_false_r. discriminate. }
    apply good_nil; [reflexivity|intros k []|intros _; constructor]. }
  assert (Hloop : I_loop (S f)).
  { intros q e terms x r. cbn [FilterParse.and_loop]; refold.
    destruct (next false q e) as [[[op q2] q'] e'] eqn:Hn.
    assert (Hmore : t_kind op <> KEOF ->
      match match_ f q' e' with
      | Some (t, q3, e3) => and_loop f q3 e3 (terms ++ [t])
      | None => None
      end = Some (x, r, None) ->
      e = None /\ forall d, good (DA, d) (DA, d) q terms x r).
    { intros Hne.
      destruct (match_ f q' e') as [[[t q3] e3]|] eqn:Hm; [|discriminate].
      intros Hl. apply IHl in Hl. destruct Hl as (-> & Hl).
      apply IHm in Hm. destruct Hm as (-> & Hm). back. split; [reflexivity|]. intros d.
      subst q'. apply (good_sk_start _ _ _ (sk q)); [now rewrite sk_idem|].
      eapply good_seq; [apply (Hm DA d); reflexivity|apply Hl]. }
    assert (Hret : Some (mk_and terms, q', e') = Some (x, r, None) ->
      e = None /\ forall d, good (DA, d) (DA, d) q terms x r).
    { intros [= <- <- ->]. back. split; [reflexivity|]. intros d.
      apply good_nil; [subst; now rewrite sk_idem|rewrite fkeys_mk_and; apply incl_refl|].
      now rewrite foffs_mk_and. }
    destruct (t_kind op) eqn:Ek; try perr; try exact Hret;
      try (apply Hmore; congruence).
    - destruct (Byte.eqb c c_lpar || Byte.eqb c c_minus || Byte.eqb c c_aster) eqn:E3.
      { apply Hmore; congruence. }
      destruct (Byte.eqb c c_rpar); [exact Hret|perr].
    - (* AND *)
      intros Hl. apply IHl in Hl. destruct Hl as (-> & Hl). back. split; [reflexivity|]. intros d.
      eapply good_step; [exact Hn|congruence| | |apply Hl].
      + cbn. rewrite Ek. reflexivity.
      + rewrite Ek. rewrite andb_false_r. discriminate. }
  assert (Hand : I_and (S f)).
  { intros q e x r. cbn [FilterParse.and_expr]; refold.
    destruct (match_ f q e) as [[[t q1] e1]|] eqn:Hm; [|discriminate].
    intros Hl. apply IHl in Hl. destruct Hl as (-> & Hl).
    apply IHm in Hm. destruct Hm as (-> & Hm). split; [reflexivity|]. intros d.
    eapply good_seq; [apply (Hm DO d); reflexivity|apply (Hl d)]. }
  assert (Hexpr : I_expr (S f)).
  { intros q e terms x r. cbn [FilterParse.expr_loop]; refold.
    destruct (and_expr f q e) as [[[t q1] e1]|] eqn:Ha; [|discriminate].
    destruct (next false q1 e1) as [[[op q2] q1'] e2] eqn:Hn.
    assert (Hret : Some (mk_or (terms ++ [t]), q1', e2) = Some (x, r, None) ->
      e = None /\ forall d, good (DO, d) (DA, d) q terms x r).
    { intros [= <- <- ->]. back. apply IHa in Ha. destruct Ha as (-> & Ha).
      split; [reflexivity|]. intros d.
      eapply good_seq; [apply Ha|].
      apply good_nil; [subst; now rewrite sk_idem|rewrite fkeys_mk_or; apply incl_refl|].
      now rewrite foffs_mk_or. }
    destruct (t_kind op) eqn:Ek; try exact Hret.
    intros He. apply IHe in He. destruct He as (-> & He). back.
    apply IHa in Ha. destruct Ha as (-> & Ha). split; [reflexivity|]. intros d.
    eapply good_seq; [apply Ha|].
    eapply good_step; [exact Hn|congruence| | |apply He].
    - cbn. rewrite Ek. reflexivity.
    - rewrite Ek. rewrite andb_false_r. discriminate. }
  exact (conj Hmatch (conj Hloop (conj Hand Hexpr))).
Qed.

End Sound.

(** ** facts about the automaton (token lists only) *)
Definition labs (c : dcfg) : lstate :=
  match fst c with DO | DA | DK => LKey | DV => LVal | DL1 | DL2 => LList end.

Lemma dmode_labs c : dmode c = lmode (labs c).
Proof. destruct c as [[] d]; reflexivity. Qed.

Ltac byte_cases :=
  repeat match goal with
  | |- context [Byte.eqb ?a ?b] => destruct (beqb_spec a b); subst
  | H : context [Byte.eqb ?a ?b] |- _ => destruct (beqb_spec a b); subst
  end.

Lemma dstep_labs c t c' : dstep c t = Some c' -> lstep (labs c) t = labs c'.
Proof.
  destruct c as [s d]. unfold dstep, lstep, labs, is_value, kind_eqb_op. cbn [fst].
  destruct s; destruct (t_kind t) as [|ch| | | | |]; try discriminate;
    byte_cases; try discriminate; try congruence; try (intros [= <-]; reflexivity);
    destruct d; try discriminate; intros [= <-]; reflexivity.
Qed.

Lemma drun_labs ts : forall c c', drun c ts = Some c' -> fold_left lstep ts (labs c) = labs c'.
Proof.
  induction ts as [|t ts IH]; intros c c'; cbn [drun run fold_left].
  - now intros [= ->].
  - destruct (dstep c t) as [c1|] eqn:E; [|discriminate]. intros H.
    rewrite (dstep_labs _ _ _ E). now apply IH.
Qed.

(** all parentheses (group and value-list ones): the automaton's depth plus
    one inside a value list *)
Definition total_depth (c : dcfg) : nat :=
  match fst c with DL1 | DL2 => S (snd c) | _ => snd c end.

Lemma dstep_depth c t c' ts : dstep c t = Some c' ->
  paren_depth (total_depth c) (t :: ts) = paren_depth (total_depth c') ts.
Proof.
  destruct c as [s d]. unfold dstep, total_depth, is_value. cbn [fst snd paren_depth].
  unfold kind_eqb_op.
  destruct s; destruct (t_kind t) as [|ch| | | | |]; try discriminate;
    byte_cases; try discriminate; try congruence; try (intros [= <-]; reflexivity);
    destruct d; try discriminate; intros [= <-]; reflexivity.
Qed.

Lemma drun_depth ts : forall c c', drun c ts = Some c' ->
  paren_depth (total_depth c) ts = Some (total_depth c').
Proof.
  induction ts as [|t ts IH]; intros c c'; cbn [drun run].
  - now intros [= ->].
  - destruct (dstep c t) as [c1|] eqn:E; [|discriminate]. intros H.
    rewrite (dstep_depth _ _ _ ts E). now apply IH.
Qed.

Lemma accepts_inv ts : accepts ts = true -> drun (DO, 0) ts = Some (DA, 0).
Proof. unfold accepts. destruct (drun (DO, 0) ts) as [[[] []]|]; cbn; intros H; (reflexivity || discriminate H). Qed.

Theorem accepts_balanced ts : accepts ts = true -> balanced ts = true.
Proof.
  intros H. apply accepts_inv in H. unfold balanced.
  change 0 with (total_depth (DO, 0)) at 1. now rewrite (drun_depth _ _ _ H).
Qed.

Definition is_colon (t : tok) : bool := kind_eqb_op (t_kind t) c_colon.
Definition is_lpar (t : tok) : bool := kind_eqb_op (t_kind t) c_lpar.
Definition is_rpar (t : tok) : bool := kind_eqb_op (t_kind t) c_rpar.

Lemma drun_split c pre post c' :
  drun c (pre ++ post) = Some c' -> exists c1, drun c pre = Some c1 /\ drun c1 post = Some c'.
Proof.
  unfold drun. rewrite run_app. destruct (run dcfg dstep c pre) as [c1|]; [|discriminate]. eauto.
Qed.

Lemma dstep_colon_inv c t c' : is_colon t = true -> dstep c t = Some c' ->
  exists d, c = (DK, d) /\ c' = (DV, d).
Proof.
  destruct c as [s d]. unfold is_colon, dstep, is_value, kind_eqb_op.
  destruct s; destruct (t_kind t) as [|ch| | | | |]; try discriminate;
    intros Hc; byte_cases; try discriminate; intros [= <-]; eauto.
Qed.

Lemma dstep_word_inv c t c' : is_word (t_kind t) = true -> dstep c t = Some c' ->
  (key_pos c = true /\ c' = (DK, snd c)) \/ (key_pos c = false /\ fst c' <> DK).
Proof.
  destruct c as [s d]. unfold dstep, is_value, kind_eqb_op.
  destruct s; destruct (t_kind t) as [|ch| | | | |]; try discriminate; intros _ [= <-];
    cbn; (left; split; reflexivity) || (right; split; [reflexivity|discriminate]).
Qed.

(** a word read in key mode must be followed by a colon *)
Theorem accepts_key_colon pre k post :
  accepts (pre ++ k :: post) = true -> lstate_after pre = LKey -> is_word (t_kind k) = true ->
  exists c post', post = c :: post' /\ is_colon c = true.
Proof.
  intros H Hl Hw. apply accepts_inv in H. apply drun_split in H. destruct H as (c1 & H1 & H2).
  pose proof (drun_labs _ _ _ H1) as Hst. change (labs (DO, 0)) with LKey in Hst.
  unfold lstate_after in Hl. rewrite Hl in Hst.
  unfold drun in H2; cbn [run] in H2. destruct (dstep c1 k) as [c2|] eqn:E2; [|discriminate].
  destruct (dstep_word_inv _ _ _ Hw E2) as [[Hp ->]|[Hp Hne]].
  - destruct post as [|c post']; cbn [run] in H2; [discriminate|].
    exists c, post'. split; [reflexivity|].
    unfold is_colon. cbn [dstep] in H2. destruct (kind_eqb_op (t_kind c) c_colon); [reflexivity|discriminate].
  - exfalso. destruct c1 as [[] d]; try discriminate Hp; try discriminate Hst.
    cbn in E2. destruct (t_kind k); discriminate.
Qed.

(** a colon must be followed by a value or by a non-empty value list *)
Theorem accepts_colon_value pre c post :
  accepts (pre ++ c :: post) = true -> is_colon c = true ->
  exists v post', post = v :: post' /\
    (is_value (t_kind v) = true \/
     (is_lpar v = true /\ exists v' post'', post' = v' :: post'' /\ is_value (t_kind v') = true)).
Proof.
  intros H Hc. apply accepts_inv in H. apply drun_split in H. destruct H as (c1 & H1 & H2).
  unfold drun in H2; cbn [run] in H2. destruct (dstep c1 c) as [c2|] eqn:E2; [|discriminate].
  destruct (dstep_colon_inv _ _ _ Hc E2) as (d & -> & ->).
  destruct post as [|v post']; cbn [run] in H2; [discriminate|].
  exists v, post'. split; [reflexivity|]. cbn [dstep] in H2.
  destruct (is_value (t_kind v)); [now left|]. right.
  unfold is_lpar. destruct (kind_eqb_op (t_kind v) c_lpar); [|discriminate]. split; [reflexivity|].
  destruct post' as [|v' post'']; cbn [run] in H2; [discriminate|].
  exists v', post''. split; [reflexivity|]. cbn [dstep] in H2.
  destruct (is_value (t_kind v')); [reflexivity|discriminate].
Qed.

(** a word followed by a colon is a key token *)
Theorem accepts_key_in_dkeys pre k c post :
  accepts (pre ++ k :: c :: post) = true -> is_word (t_kind k) = true -> is_colon c = true ->
  In (t_text k) (dkeys (DO, 0) (pre ++ k :: c :: post)).
Proof.
  intros H Hw Hc. apply accepts_inv in H. pose proof H as H0.
  apply drun_split in H. destruct H as (c1 & H1 & H2).
  rewrite (dkeys_app _ _ _ _ H1). apply in_or_app. right.
  unfold drun in H2; cbn [run] in H2. destruct (dstep c1 k) as [c2|] eqn:E2; [|discriminate].
  destruct (dstep c2 c) as [c3|] eqn:E3; [|discriminate].
  destruct (dstep_colon_inv _ _ _ Hc E3) as (d & -> & ->).
  destruct (dstep_word_inv _ _ _ Hw E2) as [[Hp _]|[_ Hne]]; [|now elim Hne].
  cbn [dkeys]. rewrite Hp, Hw. now left.
Qed.

(** ** the semantic walk of NewFilter *)
Lemma filter_ind' (P : filter -> Prop) :
  (forall k m o, P (FMatch k m o)) ->
  (forall l, Forall P l -> P (FAnd l)) -> (forall l, Forall P l -> P (FOr l)) ->
  (forall y, P y -> P (FNot y)) -> forall x, P x.
Proof.
  intros HM HA HO HN.
  refine (fix IH (x : filter) : P x :=
    match x with
    | FMatch k m o => HM k m o
    | FAnd l => HA l ((fix go (l : list filter) : Forall P l :=
                        match l with [] => Forall_nil P | y :: l' => Forall_cons y (IH y) (go l') end) l)
    | FOr l => HO l ((fix go (l : list filter) : Forall P l :=
                        match l with [] => Forall_nil P | y :: l' => Forall_cons y (IH y) (go l') end) l)
    | FNot y => HN y (IH y)
    end).
Qed.

Fixpoint first_err (l : list filter) : option nat :=
  match l with
  | [] => None
  | y :: l' => match check_filter y with Some o => Some o | None => first_err l' end
  end.

Lemma check_and l : check_filter (FAnd l) = first_err l.
Proof. induction l as [|y l IH]; cbn; [reflexivity|]. destruct (check_filter y); auto. Qed.
Lemma check_or l : check_filter (FOr l) = first_err l.
Proof. induction l as [|y l IH]; cbn; [reflexivity|]. destruct (check_filter y); auto. Qed.

(** a key the walk accepts: anything but ".config" and the empty key *)
Definition key_ok (k : bytes) : Prop := k <> key_config /\ k <> [].

Lemma check_match k m o :
  check_filter (FMatch k m o) = None <-> key_ok k.
Proof.
  unfold key_ok. cbn [check_filter].
  destruct (beq_spec k key_unit) as [->|Hu].
  - split; [intros _; split; discriminate|reflexivity].
  - destruct (beq_spec k key_config) as [->|Hc]; [split; [discriminate|intros [H _]; now elim H]|].
    destruct k; [split; [discriminate|intros [_ H]; now elim H]|].
    split; [intros _; split; [exact Hc|discriminate]|reflexivity].
Qed.

Lemma first_err_none l :
  Forall (fun y => check_filter y = None <-> Forall key_ok (fkeys y)) l ->
  first_err l = None <-> Forall key_ok (flat_map fkeys l).
Proof.
  induction 1 as [|y l Hy _ IH]; cbn [first_err flat_map]; [split; [constructor|reflexivity]|].
  rewrite Forall_app. destruct (check_filter y) as [o|].
  - split; [discriminate|]. intros [H _]. apply Hy in H. discriminate.
  - rewrite IH. split; [intros H; split; [now apply Hy|exact H]|tauto].
Qed.

Theorem check_filter_none x : check_filter x = None <-> Forall key_ok (fkeys x).
Proof.
  induction x as [k m o|l IH|l IH|y IH] using filter_ind'.
  - rewrite check_match. cbn [fkeys]. split; [intros H; constructor; [exact H|constructor]|].
    intros H. now inversion H.
  - rewrite check_and. cbn [fkeys]. now apply first_err_none.
  - rewrite check_or. cbn [fkeys]. now apply first_err_none.
  - exact IH.
Qed.

Lemma first_err_in l off :
  Forall (fun y => forall o, check_filter y = Some o -> In o (foffs y)) l ->
  first_err l = Some off -> In off (flat_map foffs l).
Proof.
  induction 1 as [|y l Hy _ IH]; cbn [first_err flat_map]; [discriminate|].
  destruct (check_filter y) as [o|].
  - intros [= <-]. apply in_or_app. left. now apply Hy.
  - intros H. apply in_or_app. right. now apply IH.
Qed.

Theorem check_filter_off x : forall off, check_filter x = Some off -> In off (foffs x).
Proof.
  induction x as [k m o|l IH|l IH|y IH] using filter_ind'; intros off.
  - cbn [check_filter foffs]. destruct (beq k key_unit); [discriminate|].
    destruct (beq k key_config); [intros [= <-]; now left|].
    destruct k; [intros [= <-]; now left|discriminate].
  - rewrite check_and. cbn [foffs]. now apply first_err_in.
  - rewrite check_or. cbn [foffs]. now apply first_err_in.
  - exact (IH off).
Qed.

(** ** the theorems about texts *)
Section Reject.
Variable is_space : N -> bool.
Variable re_ok : bytes -> bool.

Notation parse_filter := (parse_filter is_space re_ok).
Notation new_filter := (new_filter is_space re_ok).
Notation filter_tokens := (filter_tokens is_space re_ok).

(** the parser accepts only texts without a lexical fault whose token stream
    the automaton accepts; key tokens are keys of the tree; offsets of the
    tree are inside the text *)
Theorem parse_filter_sound q x :
  parse_filter q = Ok x ->
  exists ts, filter_tokens q = LexOk ts /\ accepts ts = true
    /\ incl (dkeys (DO, 0) ts) (fkeys x) /\ Forall (fun o => o <= length q) (foffs x).
Proof.
  unfold FilterParse.parse_filter, parse_filter_fuel. set (n0 := length q).
  destruct (expr_loop is_space re_ok n0 (fuel_for q) q None []) as [[[x0 q1] e1]|] eqn:He; [|discriminate].
  unfold tok_end.
  destruct (next is_space re_ok n0 false q1 e1) as [[[t r] q'] e'] eqn:Hn.
  intros H. destruct (t_kind t) eqn:Hk.
  2-7: exfalso; destruct (set_err e' (off_of n0 q')) eqn:E; [discriminate H|exact (set_err_some _ _ E)].
  destruct e'; [discriminate H|]. injection H as ->.
  destruct (next_none_inv _ _ _ _ _ _ _ _ _ Hn) as (-> & _ & _).
  destruct (parsers_sound is_space re_ok n0 (fuel_for q)) as (_ & _ & _ & HE).
  apply HE in He. destruct He as (_ & He). destruct (He 0) as (ts & Hc & Hi & Ho).
  exists ts. split; [|split; [|split]].
  - unfold FilterReject.filter_tokens. fold n0.
    apply (chain_map is_space re_ok n0 dmode dstep lmode (fun s t => Some (lstep s t)) labs) in Hc.
    + eapply chain_toks_ok; [exact Hc| |lia].
      exists t, r, q'. split; [exact Hn|exact Hk].
    + apply dmode_labs.
    + intros s t0 s' E. now rewrite (dstep_labs _ _ _ E).
  - unfold accepts. unfold drun. now rewrite (chain_run _ _ _ _ _ _ _ _ _ _ _ Hc).
  - cbn [flat_map] in Hi. now rewrite app_nil_r in Hi.
  - apply Ho. constructor.
Qed.

Definition rejected {A} (res : outcome A) (q : bytes) : Prop :=
  exists off, res = Err off /\ off <= length q.

Lemma not_ok_rejected q : (forall x, parse_filter q <> Ok x) -> rejected (parse_filter q) q.
Proof.
  intros H. destruct (parse_filter q) as [x|off|] eqn:E.
  - now elim (H x).
  - exists off. split; [reflexivity|]. exact (parse_filter_error_offset is_space re_ok q off E).
  - now elim (parse_filter_total is_space re_ok q).
Qed.

(** a lexical fault anywhere in the token stream *)
Theorem rejects_lexical_fault q why off :
  filter_tokens q = LexErr why off -> rejected (parse_filter q) q.
Proof.
  intros H. apply not_ok_rejected. intros x Hx.
  destruct (parse_filter_sound q x Hx) as (ts & Hts & _). congruence.
Qed.

(** a token stream the automaton does not accept *)
Theorem rejects_not_accepted q ts :
  filter_tokens q = LexOk ts -> accepts ts = false -> rejected (parse_filter q) q.
Proof.
  intros H Ha. apply not_ok_rejected. intros x Hx.
  destruct (parse_filter_sound q x Hx) as (ts' & Hts & Hacc & _). congruence.
Qed.

Theorem rejects_unbalanced q ts :
  filter_tokens q = LexOk ts -> balanced ts = false -> rejected (parse_filter q) q.
Proof.
  intros H Hb. apply (rejects_not_accepted q ts H).
  destruct (accepts ts) eqn:E; [|reflexivity]. apply accepts_balanced in E. congruence.
Qed.

Theorem rejects_missing_colon q pre k post :
  filter_tokens q = LexOk (pre ++ k :: post) ->
  lstate_after pre = LKey -> is_word (t_kind k) = true ->
  match post with [] => True | c :: _ => is_colon c = false end ->
  rejected (parse_filter q) q.
Proof.
  intros H Hl Hw Hp. apply (rejects_not_accepted q _ H).
  destruct (accepts (pre ++ k :: post)) eqn:E; [|reflexivity].
  destruct (accepts_key_colon _ _ _ E Hl Hw) as (c & post' & -> & Hc). congruence.
Qed.

Theorem rejects_missing_value q pre c post :
  filter_tokens q = LexOk (pre ++ c :: post) -> is_colon c = true ->
  match post with
  | [] => True
  | v :: post' =>
      is_value (t_kind v) = false /\
      (is_lpar v = true ->
       match post' with [] => True | v' :: _ => is_value (t_kind v') = false end)
  end ->
  rejected (parse_filter q) q.
Proof.
  intros H Hc Hp. apply (rejects_not_accepted q _ H).
  destruct (accepts (pre ++ c :: post)) eqn:E; [|reflexivity].
  destruct (accepts_colon_value _ _ _ E Hc) as (v & post' & -> & Hv).
  destruct Hp as [Hnv Hl]. destruct Hv as [Hv|(Hlp & v' & post'' & -> & Hv')]; [congruence|].
  specialize (Hl Hlp). cbn in Hl. congruence.
Qed.

(** *** NewFilter *)
Theorem new_filter_ok_iff q x :
  new_filter q = Ok x <-> parse_filter q = Ok x /\ Forall key_ok (fkeys x).
Proof.
  unfold FilterParse.new_filter. destruct (parse_filter q) as [y|off|].
  - rewrite <- check_filter_none. destruct (check_filter y) as [o|] eqn:E.
    + split; [discriminate|]. intros [[= ->] H]. congruence.
    + split; [intros [= ->]; auto|intros [[= ->] _]; reflexivity].
  - split; [discriminate|intros [H _]; discriminate].
  - split; [discriminate|intros [H _]; discriminate].
Qed.

Theorem new_filter_error_offset q off : new_filter q = Err off -> off <= length q.
Proof.
  unfold FilterParse.new_filter. destruct (parse_filter q) as [y|o|] eqn:E.
  - destruct (check_filter y) as [o|] eqn:Ec; [|discriminate]. intros [= <-].
    destruct (parse_filter_sound q y E) as (_ & _ & _ & _ & Ho).
    apply check_filter_off in Ec. rewrite Forall_forall in Ho. now apply Ho.
  - intros [= <-]. exact (parse_filter_error_offset is_space re_ok q o E).
  - discriminate.
Qed.

Theorem new_filter_total q : new_filter q <> OutOfFuel.
Proof.
  unfold FilterParse.new_filter. pose proof (parse_filter_total is_space re_ok q) as T.
  destruct (parse_filter q) as [y|o|]; [destruct (check_filter y)| |]; congruence.
Qed.

Lemma rejected_new_filter q : rejected (parse_filter q) q -> rejected (new_filter q) q.
Proof. intros (off & E & Hle). exists off. unfold FilterParse.new_filter. now rewrite E. Qed.

(** the tree has a key the walk refuses (".config" or the empty key), at any depth *)
Theorem rejects_bad_key_tree q x k :
  parse_filter q = Ok x -> In k (fkeys x) -> ~ key_ok k -> rejected (new_filter q) q.
Proof.
  intros Hp Hin Hk. destruct (new_filter q) as [y|off|] eqn:E.
  - apply new_filter_ok_iff in E. destruct E as [E Hf]. rewrite Hp in E. injection E as <-.
    rewrite Forall_forall in Hf. now elim Hk; apply Hf.
  - exists off. split; [reflexivity|]. now apply new_filter_error_offset.
  - now elim (new_filter_total q).
Qed.

Theorem rejects_config_tree q x :
  parse_filter q = Ok x -> In key_config (fkeys x) -> rejected (new_filter q) q.
Proof. intros Hp Hin. apply (rejects_bad_key_tree q x key_config Hp Hin). intros [H _]. now elim H. Qed.

(** the text has the word ".config" (bare or quoted) in front of a colon, anywhere *)
Theorem rejects_bad_key_text q pre k c post :
  filter_tokens q = LexOk (pre ++ k :: c :: post) ->
  is_word (t_kind k) = true -> is_colon c = true -> ~ key_ok (t_text k) ->
  rejected (new_filter q) q.
Proof.
  intros H Hw Hc Hk. destruct (parse_filter q) as [x|off|] eqn:E.
  - destruct (parse_filter_sound q x E) as (ts & Hts & Hacc & Hi & _).
    rewrite H in Hts. injection Hts as <-.
    apply (rejects_bad_key_tree q x (t_text k) E); [|exact Hk].
    apply Hi. now apply accepts_key_in_dkeys.
  - apply rejected_new_filter. rewrite E. exists off. split; [reflexivity|].
    exact (parse_filter_error_offset is_space re_ok q off E).
  - now elim (parse_filter_total is_space re_ok q).
Qed.

Theorem rejects_config_text q pre k c post :
  filter_tokens q = LexOk (pre ++ k :: c :: post) ->
  is_word (t_kind k) = true -> is_colon c = true -> t_text k = key_config ->
  rejected (new_filter q) q.
Proof.
  intros H Hw Hc Hk. apply (rejects_bad_key_text q pre k c post H Hw Hc).
  rewrite Hk. intros [F _]. now elim F.
Qed.

(** *** the two "unterminated" faults, spelled out: the tokenizer has read the
    tokens [ts] without a fault and then stands (after white space) in front
    of a quote that is never closed / of a slash, in value position, that
    the regexp scanner never sees closed *)
Notation sk r := (skip_spaces is_space r 0).

Theorem rejects_unterminated_quote q ts st r s :
  filter_lexes is_space re_ok q ts st r -> sk r = c_dquote :: s -> qscan s = None ->
  rejected (parse_filter q) q.
Proof.
  intros Hc Hs Hq.
  apply (rejects_lexical_fault q ENoEndQuote (off_of (length q) (c_dquote :: s))).
  unfold FilterReject.filter_tokens. eapply chain_toks_err; [exact Hc| |lia].
  apply lex_fault_quote. eauto.
Qed.

Theorem rejects_unterminated_regexp q ts st r s :
  filter_lexes is_space re_ok q ts st r -> lmode st = true ->
  sk r = c_fslash :: s -> re_scan s 0 0 false = None ->
  rejected (parse_filter q) q.
Proof.
  intros Hc Hm Hs Hq.
  apply (rejects_lexical_fault q ENoCloseSlash (off_of (length q) (c_fslash :: s))).
  unfold FilterReject.filter_tokens. eapply chain_toks_err; [exact Hc| |lia].
  apply lex_fault_slash. rewrite Hm. eauto.
Qed.

(** ... and that is what the two fault kinds of [filter_tokens] mean; the
    offset is the position of the quote / slash in the text *)
Lemma off_of_suffix (q r : bytes) p : q = p ++ r -> off_of (length q) r = length p.
Proof. intros ->. unfold off_of. rewrite app_length. lia. Qed.

Theorem filter_tokens_quote_fault q off :
  filter_tokens q = LexErr ENoEndQuote off <->
  exists ts st r p s, filter_lexes is_space re_ok q ts st r /\ sk r = c_dquote :: s /\ qscan s = None
                      /\ q = p ++ c_dquote :: s /\ off = length p.
Proof.
  split.
  - intros H. apply toks_err_chain in H. destruct H as (ts & st & r & Hc & Hl).
    apply lex_fault_quote in Hl. destruct Hl as (s & Hs & Hq & ->).
    pose proof (chain_suffix _ _ _ _ _ _ _ _ _ _ _ Hc) as (p & Hp). rewrite Hs in Hp.
    exists ts, st, r, p, s. repeat split; auto. now apply off_of_suffix.
  - intros (ts & st & r & p & s & Hc & Hs & Hq & Hp & ->).
    unfold FilterReject.filter_tokens. eapply chain_toks_err; [exact Hc| |lia].
    apply lex_fault_quote. exists s. repeat split; auto. symmetry. now apply off_of_suffix.
Qed.

Theorem filter_tokens_regexp_fault q off :
  filter_tokens q = LexErr ENoCloseSlash off <->
  exists ts st r p s, filter_lexes is_space re_ok q ts st r /\ lmode st = true /\ sk r = c_fslash :: s
                      /\ re_scan s 0 0 false = None /\ q = p ++ c_fslash :: s /\ off = length p.
Proof.
  split.
  - intros H. apply toks_err_chain in H. destruct H as (ts & st & r & Hc & Hl).
    apply lex_fault_slash in Hl. destruct Hl as (Hm & s & Hs & Hq & ->).
    pose proof (chain_suffix _ _ _ _ _ _ _ _ _ _ _ Hc) as (p & Hp). rewrite Hs in Hp.
    exists ts, st, r, p, s. repeat split; auto. now apply off_of_suffix.
  - intros (ts & st & r & p & s & Hc & Hm & Hs & Hq & Hp & ->).
    unfold FilterReject.filter_tokens. eapply chain_toks_err; [exact Hc| |lia].
    apply lex_fault_slash. split; [exact Hm|]. exists s. repeat split; auto.
    symmetry. now apply off_of_suffix.
Qed.

End Reject.
