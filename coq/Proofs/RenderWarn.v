(** Footnote agreement: the footnote marks ToText attaches to a cell denote,
    through the numbered footnote list, exactly the messages that ToCSV's
    warning stream attaches to the corresponding cell reference. *)
From Perf Require Import Base.Bytes Model.Runes Model.TextTab Model.KeyHeader Model.Render
     Proofs.KeyHeaderLevels Proofs.Render Proofs.RenderNotes Proofs.RenderRows Proofs.RenderAgree.
Local Open Scope nat_scope.

(* ------------------------------------------------------------------ *)
(** ** text side: one call of warn *)
Lemma fnotes_spec wl msgs :
  let st := fnotes wl msgs in
  prefix wl (fst st) /\ (NoDup wl -> NoDup (fst st)) /\
  (forall m, In m (fst st) <-> In m wl \/ In m msgs) /\
  map (denote (fst st)) (snd st) = map Some msgs /\
  Forall (fun i => 1 <= i <= length (fst st)) (snd st).
Proof.
  pose proof (fstep_fold_spec msgs wl []) as H. cbn zeta in H.
  destruct H as [P [N [I [new [E1 [E2 E3]]]]]]. cbn [app] in E1. unfold fnotes. cbn zeta.
  rewrite E1. repeat split; try assumption; apply I.
Qed.

(** a mark list that denotes [msgs] in [wl] and stays within the list *)
Definition marks_for (wl : list bytes) (marks : list nat) (msgs : list bytes) : Prop :=
  map (denote wl) marks = map Some msgs /\ Forall (fun i => 1 <= i <= length wl) marks.

Lemma marks_for_prefix wl wl' marks msgs : marks_for wl marks msgs -> prefix wl wl' -> marks_for wl' marks msgs.
Proof.
  intros [A B] P. split; [eapply map_denote_prefix; eassumption|].
  destruct P as [x ->]. rewrite app_length. eapply Forall_impl; [|exact B]. cbn beta. intros; lia.
Qed.

Lemma text_data_step_notes wl ops exp oc :
  let st := text_data_step (wl, ops, exp) oc in
  prefix wl (st_wl st) /\ (NoDup wl -> NoDup (st_wl st)) /\
  (forall c, oc = Some c ->
     (exists marks, In (txt_start exp + 2, OSpan 1 (marks_text marks) None ALeft) (place 0 (st_ops st)) /\
                    marks_for (st_wl st) marks (rc_swarn c ++ rc_mwarn c)) /\
     (forall cm, (if exp =? 0 then None else rc_cmp c) = Some cm ->
        exists marks, In (txt_start exp + 5, OSpan 1 (marks_text marks) None ALeft) (place 0 (st_ops st)) /\
                      marks_for (st_wl st) marks (cm_warn cm))).
Proof.
  destruct oc as [c|]; cbn [text_data_step]; cbn zeta.
  2:{ cbn [st_wl st_ops fst snd]. split; [apply prefix_refl|]. split; [auto|]. intros c H. discriminate. }
  rewrite !footnote_marks. cbn [fst snd].
  destruct (fnotes_spec wl (rc_swarn c ++ rc_mwarn c)) as [P1 [N1 [_ [D1 B1]]]].
  set (f1 := fnotes wl (rc_swarn c ++ rc_mwarn c)) in *.
  destruct (if exp =? 0 then None else rc_cmp c) as [cm|] eqn:Ecm.
  - rewrite !footnote_marks. cbn [fst snd st_wl st_ops].
    destruct (fnotes_spec (fst f1) (cm_warn cm)) as [P2 [N2 [_ [D2 B2]]]].
    set (f2 := fnotes (fst f1) (cm_warn cm)) in *.
    split; [eapply prefix_trans; eassumption|]. split; [auto|].
    intros c' [= <-]. rewrite <- app_assoc. cbn [app]. split.
    + exists (snd f1). split.
      * apply place_in_app_col. cbn [place]. right. right. left. f_equal. lia.
      * eapply marks_for_prefix; [split; eassumption|exact P2].
    + intros cm' Hcm'. rewrite Ecm in Hcm'. injection Hcm' as <-. exists (snd f2). split.
      * apply place_in_app_col. cbn [place]. do 5 right. left. f_equal. lia.
      * split; assumption.
  - cbn [fst snd st_wl st_ops]. split; [exact P1|]. split; [exact N1|].
    intros c' [= <-]. split.
    + exists (snd f1). split.
      * apply place_in_app_col. cbn [place]. right. right. left. f_equal. lia.
      * split; assumption.
    + intros cm H. rewrite Ecm in H. discriminate.
Qed.

Lemma text_data_fold_notes : forall cells wl ops exp,
  let st := fold_left text_data_step cells (wl, ops, exp) in
  prefix wl (st_wl st) /\ (NoDup wl -> NoDup (st_wl st)) /\
  (forall k c, nth_error cells k = Some (Some c) ->
     (exists marks, In (txt_start (exp + k) + 2, OSpan 1 (marks_text marks) None ALeft) (place 0 (st_ops st)) /\
                    marks_for (st_wl st) marks (rc_swarn c ++ rc_mwarn c)) /\
     (forall cm, (if exp + k =? 0 then None else rc_cmp c) = Some cm ->
        exists marks, In (txt_start (exp + k) + 5, OSpan 1 (marks_text marks) None ALeft) (place 0 (st_ops st)) /\
                      marks_for (st_wl st) marks (cm_warn cm))).
Proof.
  induction cells as [|oc cells IH]; intros wl ops exp; cbn [fold_left].
  - cbn [st_wl st_ops fst snd]. split; [apply prefix_refl|]. split; [auto|]. intros [|k] c H; discriminate.
  - pose proof (text_data_step_notes wl ops exp oc) as S1. cbn zeta in S1.
    pose proof (text_data_step_spec wl ops exp oc) as S0. cbn zeta in S0.
    destruct (text_data_step (wl, ops, exp) oc) as [[wl1 ops1] exp1] eqn:E1.
    cbn [snd fst st_wl st_ops] in S1, S0. destruct S0 as [-> _]. destruct S1 as [P1 [N1 G1]].
    specialize (IH wl1 ops1 (S exp)). cbn zeta in IH. destruct IH as [P2 [N2 G2]].
    destruct (text_data_fold cells wl1 ops1 (S exp)) as [M _].
    set (st := fold_left text_data_step cells (wl1, ops1, S exp)) in *.
    split; [eapply prefix_trans; eassumption|]. split; [auto|].
    intros [|k] c H; cbn [nth_error] in H.
    + injection H as ->. rewrite Nat.add_0_r. destruct (G1 c eq_refl) as [[m1 [A1 B1]] C1]. split.
      * exists m1. split; [apply M; exact A1|eapply marks_for_prefix; eassumption].
      * intros cm Hc. destruct (C1 cm Hc) as [m2 [A2 B2]]. exists m2.
        split; [apply M; exact A2|eapply marks_for_prefix; eassumption].
    + replace (exp + S k) with (S exp + k) by lia. apply G2. exact H.
Qed.

Lemma text_sum_step_notes wl ops exp os :
  let st := text_sum_step (wl, ops, exp) os in
  prefix wl (st_wl st) /\ (NoDup wl -> NoDup (st_wl st)) /\
  (forall s, os = Some s ->
     exists marks, In (txt_start (S exp) - 1, OSpan 1 (marks_text marks) None ALeft) (place 0 (st_ops st)) /\
                   marks_for (st_wl st) marks (rs_warn s)).
Proof.
  destruct os as [s|]; cbn [text_sum_step]; cbn zeta.
  2:{ cbn [st_wl st_ops fst snd]. split; [apply prefix_refl|]. split; [auto|]. intros s H. discriminate. }
  rewrite !footnote_marks. cbn [fst snd st_wl st_ops].
  destruct (fnotes_spec wl (rs_warn s)) as [P1 [N1 [_ [D1 B1]]]].
  split; [exact P1|]. split; [exact N1|]. intros s' [= <-].
  exists (snd (fnotes wl (rs_warn s))). split; [|split; assumption].
  apply place_in_app_col. cbn [place]. left. reflexivity.
Qed.

Lemma text_sum_fold_notes : forall sums wl ops exp,
  let st := fold_left text_sum_step sums (wl, ops, exp) in
  prefix wl (st_wl st) /\ (NoDup wl -> NoDup (st_wl st)) /\
  (forall k s, nth_error sums k = Some (Some s) ->
     exists marks, In (txt_start (S (exp + k)) - 1, OSpan 1 (marks_text marks) None ALeft) (place 0 (st_ops st)) /\
                   marks_for (st_wl st) marks (rs_warn s)).
Proof.
  induction sums as [|os sums IH]; intros wl ops exp; cbn [fold_left].
  - cbn [st_wl st_ops fst snd]. split; [apply prefix_refl|]. split; [auto|]. intros [|k] c H; discriminate.
  - pose proof (text_sum_step_notes wl ops exp os) as S1. cbn zeta in S1.
    pose proof (text_sum_step_spec wl ops exp os) as S0. cbn zeta in S0.
    destruct (text_sum_step (wl, ops, exp) os) as [[wl1 ops1] exp1] eqn:E1.
    cbn [snd fst st_wl st_ops] in S1, S0. destruct S0 as [-> _]. destruct S1 as [P1 [N1 G1]].
    specialize (IH wl1 ops1 (S exp)). cbn zeta in IH. destruct IH as [P2 [N2 G2]].
    destruct (text_sum_fold sums wl1 ops1 (S exp)) as [M _].
    set (st := fold_left text_sum_step sums (wl1, ops1, S exp)) in *.
    split; [eapply prefix_trans; eassumption|]. split; [auto|].
    intros [|k] s H; cbn [nth_error] in H.
    + injection H as ->. rewrite Nat.add_0_r. destruct (G1 s eq_refl) as [m1 [A1 B1]].
      exists m1. split; [apply M; exact A1|eapply marks_for_prefix; eassumption].
    + replace (exp + S k) with (S exp + k) by lia. apply G2. exact H.
Qed.

(* ------------------------------------------------------------------ *)
(** ** one data row / the summary row: text notes vs CSV stream *)
Theorem text_csv_agree_warnings_data srow wl label cells e c :
  sheet_ok (csv_start (length cells)) -> nth_error cells e = Some (Some c) ->
  let ws := snd (csv_data_row srow label cells) in
  let wl' := fst (text_data_ops wl label cells) in
  let tops := snd (text_data_ops wl label cells) in
  prefix wl wl' /\ (NoDup wl -> NoDup wl') /\
  (exists marks, In (txt_start e + 2, OSpan 1 (marks_text marks) None ALeft) (place 0 tops) /\
     marks_for wl' marks (warn_msgs ws (sheet_col (csv_start e)) srow) /\
     warn_msgs ws (sheet_col (csv_start e)) srow = rc_swarn c ++ rc_mwarn c) /\
  (forall cm, 0 < e -> rc_cmp c = Some cm ->
     exists marks, In (txt_start e + 5, OSpan 1 (marks_text marks) None ALeft) (place 0 tops) /\
       marks_for wl' marks (warn_msgs ws (sheet_col (csv_start e + 2)) srow) /\
       warn_msgs ws (sheet_col (csv_start e + 2)) srow = cm_warn cm).
Proof.
  intros Hok Hc. cbn zeta. rewrite csv_data_row_ws. unfold text_data_ops. cbn [fst snd].
  assert (He : e < length cells) by (apply nth_error_Some; congruence).
  destruct (text_data_fold_notes cells wl [ORow; OSpan 1 label None ALeft] 0) as [P [N G]].
  destruct (G e c Hc) as [[m1 [A1 B1]] C1]. cbn [Nat.add] in *.
  fold (@st_wl (list op) nat (fold_left text_data_step cells (wl, [ORow; OSpan 1 label None ALeft], 0))).
  fold (@st_ops (list bytes) nat (fold_left text_data_step cells (wl, [ORow; OSpan 1 label None ALeft], 0))).
  split; [exact P|]. split; [exact N|].
  assert (Ec : warn_msgs (row_wlines srow 0 cells) (sheet_col (csv_start e)) srow = rc_swarn c ++ rc_mwarn c).
  { rewrite row_filter_centre by (cbn [Nat.add]; assumption). cbn [Nat.leb]. rewrite Nat.sub_0_r.
    rewrite (nth_error_nth cells e None Hc). reflexivity. }
  split.
  - exists m1. rewrite Ec. split; [exact A1|]. split; [exact B1|reflexivity].
  - intros cm H0 Hcm.
    assert (Ed : warn_msgs (row_wlines srow 0 cells) (sheet_col (csv_start e + 2)) srow = cm_warn cm).
    { rewrite row_filter_delta by (cbn [Nat.add]; assumption). cbn [Nat.leb]. rewrite Nat.sub_0_r.
      rewrite (nth_error_nth cells e None Hc). cbn [delta_msgs]. destruct (Nat.eqb_spec e 0); [lia|]. rewrite Hcm. reflexivity. }
    destruct (C1 cm) as [m2 [A2 B2]].
    { destruct (Nat.eqb_spec e 0); [lia|exact Hcm]. }
    exists m2. rewrite Ed. split; [exact A2|]. split; [exact B2|reflexivity].
Qed.

Lemma sum_filter srow : forall sums e0 j,
  sheet_ok (csv_start (e0 + length sums)) -> j < e0 + length sums ->
  warn_msgs (sum_wlines srow e0 sums) (sheet_col (csv_start j)) srow =
  if e0 <=? j then match nth (j - e0) sums None with Some s => rs_warn s | None => [] end else [].
Proof.
  induction sums as [|os sums IH]; intros e0 j Hok Hj; cbn [sum_wlines length] in *.
  - destruct (e0 <=? j); [destruct (j - e0)|]; reflexivity.
  - rewrite warn_msgs_app. replace (e0 + S (length sums)) with (S e0 + length sums) in Hok, Hj by lia.
    assert (H1 : warn_msgs (sum_wlines1 srow e0 os) (sheet_col (csv_start j)) srow =
                 if e0 =? j then match os with Some s => rs_warn s | None => [] end else []).
    { destruct os as [s|]; cbn [sum_wlines1]; [|destruct (e0 =? j); reflexivity].
      destruct (Nat.eqb_spec e0 j) as [->|Hn]; [apply warn_msgs_same|].
      apply warn_msgs_other. left. apply sheet_col_neq.
      - eapply sheet_ok_le; [exact Hok|]. apply cs_mono. lia.
      - eapply sheet_ok_le; [exact Hok|]. apply cs_mono. lia.
      - intros E. apply Hn. apply cs_inj. exact E. }
    rewrite H1. rewrite IH by (try exact Hok; lia).
    destruct (Nat.eqb_spec e0 j) as [->|Hn].
    + destruct (Nat.leb_spec j j); [|lia]. rewrite Nat.sub_diag. cbn [nth].
      destruct (Nat.leb_spec (S j) j); [lia|]. rewrite app_nil_r. reflexivity.
    + cbn [app]. destruct (Nat.leb_spec (S e0) j), (Nat.leb_spec e0 j); try lia; [|reflexivity].
      replace (j - e0) with (S (j - S e0)) by lia. reflexivity.
Qed.

Theorem text_csv_agree_warnings_summary srow wl label sums e s :
  sheet_ok (csv_start (length sums)) -> nth_error sums e = Some (Some s) ->
  let ws := snd (csv_summary_row srow label sums) in
  let wl' := fst (text_summary_ops wl label sums) in
  let tops := snd (text_summary_ops wl label sums) in
  prefix wl wl' /\ (NoDup wl -> NoDup wl') /\
  exists marks, In (txt_start (S e) - 1, OSpan 1 (marks_text marks) None ALeft) (place 0 tops) /\
    marks_for wl' marks (warn_msgs ws (sheet_col (csv_start e)) srow) /\
    warn_msgs ws (sheet_col (csv_start e)) srow = rs_warn s.
Proof.
  intros Hok Hs. cbn zeta. rewrite csv_summary_row_ws. unfold text_summary_ops. cbn [fst snd].
  assert (He : e < length sums) by (apply nth_error_Some; congruence).
  destruct (text_sum_fold_notes sums wl [ORow; OSpan 1 label None ALeft] 0) as [P [N G]].
  destruct (G e s Hs) as [m1 [A1 B1]]. cbn [Nat.add] in *.
  fold (@st_wl (list op) nat (fold_left text_sum_step sums (wl, [ORow; OSpan 1 label None ALeft], 0))).
  fold (@st_ops (list bytes) nat (fold_left text_sum_step sums (wl, [ORow; OSpan 1 label None ALeft], 0))).
  split; [exact P|]. split; [exact N|].
  assert (Ec : warn_msgs (sum_wlines srow 0 sums) (sheet_col (csv_start e)) srow = rs_warn s).
  { rewrite sum_filter by (cbn [Nat.add]; assumption). cbn [Nat.leb]. rewrite Nat.sub_0_r.
    rewrite (nth_error_nth sums e None Hs). reflexivity. }
  exists m1. rewrite Ec. split; [exact A1|]. split; [exact B1|reflexivity].
Qed.

(* ------------------------------------------------------------------ *)
(** ** the whole table *)
Definition wrow (w : wline) : nat := snd (fst w).

Lemma warn_msgs_wrong_row ws ref srow : Forall (fun w => wrow w <> srow) ws -> warn_msgs ws ref srow = [].
Proof.
  intros H. unfold warn_msgs. rewrite filter_none; [reflexivity|].
  intros w Hw. rewrite Forall_forall in H. specialize (H w Hw). unfold wrow in H.
  apply andb_false_iff. right. apply Nat.eqb_neq. exact H.
Qed.

Lemma cell_wlines_row srow e oc : Forall (fun w => wrow w = srow) (cell_wlines srow e oc).
Proof.
  unfold cell_wlines. apply Forall_app. split; apply Forall_forall; intros w Hw;
    apply in_map_iff in Hw as [m [<- _]]; reflexivity.
Qed.

Lemma row_wlines_row srow : forall cells e, Forall (fun w => wrow w = srow) (row_wlines srow e cells).
Proof.
  induction cells as [|oc cells IH]; intros e; cbn [row_wlines]; [constructor|].
  apply Forall_app. split; [apply cell_wlines_row|apply IH].
Qed.

Lemma sum_wlines_row srow : forall sums e, Forall (fun w => wrow w = srow) (sum_wlines srow e sums).
Proof.
  induction sums as [|os sums IH]; intros e; cbn [sum_wlines]; [constructor|].
  apply Forall_app. split; [|apply IH]. destruct os as [s|]; cbn [sum_wlines1]; [|constructor].
  apply Forall_forall. intros w Hw. apply in_map_iff in Hw as [m [<- _]]. reflexivity.
Qed.

Fixpoint rows_wlines (s i : nat) (rows : list (bytes * list (option rcell))) : list wline :=
  match rows with
  | [] => []
  | (label, cells) :: r => row_wlines (s + i) 0 cells ++ rows_wlines s (S i) r
  end.

Lemma rows_wlines_range s : forall rows i,
  Forall (fun w => s + i <= wrow w < s + i + length rows) (rows_wlines s i rows).
Proof.
  induction rows as [|[label cells] rows IH]; intros i; cbn [rows_wlines length]; [constructor|].
  apply Forall_app. split.
  - eapply Forall_impl; [|apply row_wlines_row]. cbn beta. intros w ->. lia.
  - eapply Forall_impl; [|apply IH]. cbn beta. intros w H. lia.
Qed.

Lemma rows_filter s ref : forall rows i k label cells,
  nth_error rows k = Some (label, cells) ->
  warn_msgs (rows_wlines s i rows) ref (s + i + k) = warn_msgs (row_wlines (s + i + k) 0 cells) ref (s + i + k).
Proof.
  induction rows as [|[l0 c0] rows IH]; intros i k label cells H; [destruct k; discriminate|].
  cbn [rows_wlines]. rewrite warn_msgs_app. destruct k as [|k]; cbn [nth_error] in H.
  - injection H as <- <-. rewrite Nat.add_0_r.
    rewrite (warn_msgs_wrong_row (rows_wlines s (S i) rows)); [apply app_nil_r|].
    eapply Forall_impl; [|apply rows_wlines_range]. cbn beta. intros w Hw. lia.
  - rewrite (warn_msgs_wrong_row (row_wlines (s + i) 0 c0)).
    + cbn [app]. replace (s + i + S k) with (s + S i + k) by lia. apply (IH (S i) k label cells H).
    + eapply Forall_impl; [|apply row_wlines_row]. cbn beta. intros w ->. lia.
Qed.

Lemma csv_rows_ws s : forall rows b,
  flat_map snd (map (fun '(i, (label, cells)) => csv_data_row (s + i) label cells)
                    (combine (seq b (length rows)) rows)) = rows_wlines s b rows.
Proof.
  induction rows as [|[label cells] rows IH]; intros b; [reflexivity|].
  cbn [length seq combine map flat_map rows_wlines]. rewrite csv_data_row_ws, IH. reflexivity.
Qed.

Lemma csv_model_ws t start :
  let nh := rt_nf t + 1 in
  snd (csv_model t start) =
  rows_wlines (start + nh) 0 (rt_rows t) ++ sum_wlines (start + nh + length (rt_rows t)) 0 (rt_sums t).
Proof.
  cbn zeta. unfold csv_model. cbn [snd]. rewrite app_length, map_length, seq_length. cbn [length].
  rewrite csv_summary_row_ws. f_equal. apply csv_rows_ws.
Qed.

(** data rows with the footnote list threaded: row [i] starts from a list
    that extends the initial one, and the final list extends the list after row [i] *)
Lemma rows_run_nth : forall rows wl i label cells,
  nth_error rows i = Some (label, cells) ->
  exists wli, prefix wl wli /\ (NoDup wl -> NoDup wli) /\
    nth_error (snd (rows_run wl rows)) i = Some (snd (text_data_ops wli label cells)) /\
    prefix (fst (text_data_ops wli label cells)) (fst (rows_run wl rows)).
Proof.
  induction rows as [|[l0 c0] rows IH]; intros wl i label cells H; [destruct i; discriminate|].
  cbn [rows_run fst snd].
  destruct (text_data_fold_notes c0 wl [ORow; OSpan 1 l0 None ALeft] 0) as [P0 [N0 _]].
  assert (E0 : fst (text_data_ops wl l0 c0) = st_wl (fold_left text_data_step c0 (wl, [ORow; OSpan 1 l0 None ALeft], 0)))
    by reflexivity.
  destruct i as [|i]; cbn [nth_error] in H.
  - injection H as <- <-. exists wl. split; [apply prefix_refl|]. split; [auto|]. split; [reflexivity|].
    clear IH. generalize (fst (text_data_ops wl l0 c0)) as w. clear. induction rows as [|[l1 c1] rows IH]; intros w.
    + apply prefix_refl.
    + cbn [rows_run fst]. eapply prefix_trans; [|apply IH].
      destruct (text_data_fold_notes c1 w [ORow; OSpan 1 l1 None ALeft] 0) as [P _]. exact P.
  - destruct (IH (fst (text_data_ops wl l0 c0)) i label cells H) as [wli [A [B [C D]]]].
    exists wli. rewrite E0 in A, B. split; [eapply prefix_trans; eassumption|]. split; [auto|]. split; [exact C|exact D].
Qed.

Lemma rows_run_wl : forall rows wl, prefix wl (fst (rows_run wl rows)) /\ (NoDup wl -> NoDup (fst (rows_run wl rows))).
Proof.
  induction rows as [|[l0 c0] rows IH]; intros wl; cbn [rows_run fst].
  - split; [apply prefix_refl|auto].
  - destruct (text_data_fold_notes c0 wl [ORow; OSpan 1 l0 None ALeft] 0) as [P0 [N0 _]].
    destruct (IH (fst (text_data_ops wl l0 c0))) as [P1 N1].
    split; [eapply prefix_trans; [exact P0|exact P1]|]. intros H. apply N1. apply N0. exact H.
Qed.

Definition table_ok (t : rtable) : Prop :=
  rt_cols t <> [] /\
  Forall (fun r => sheet_ok (csv_start (length (snd r)))) (rt_rows t) /\
  sheet_ok (csv_start (length (rt_sums t))).

Lemma text_wl_facts t :
  NoDup (text_wl t) /\ prefix (fst (rows_run [] (rt_rows t))) (text_wl t).
Proof.
  unfold text_wl. cbn zeta. destruct (rows_run_wl (rt_rows t) []) as [_ N]. specialize (N (NoDup_nil _)).
  destruct (1 <? length (rt_rows t)).
  - destruct (text_sum_fold_notes (rt_sums t) (fst (rows_run [] (rt_rows t))) [ORow; OSpan 1 (rt_sumlabel t) None ALeft] 0)
      as [P [N2 _]]. split; [apply N2; exact N|exact P].
  - split; [exact N|apply prefix_refl].
Qed.

(** C16 text_csv_agree, warnings clause: for every cell of every data row and
    of the summary row, the footnote cell of text line [nh + i] holds marks that
    denote, in the final numbered list, exactly the messages of the CSV warning
    lines with the cell's reference (column name, spreadsheet row start + nh + i) *)
Theorem text_csv_agree_warnings t start :
  table_ok t ->
  let ops := fst (text_model t) in
  let wl := snd (text_model t) in
  let ws := snd (csv_model t start) in
  let nh := rt_nf t + 1 in
  NoDup wl /\
  (forall i label cells e c,
     nth_error (rt_rows t) i = Some (label, cells) -> nth_error cells e = Some (Some c) ->
     (exists marks, In (nh + i, txt_start e + 2, OSpan 1 (marks_text marks) None ALeft) (placed ops) /\
        marks_for wl marks (warn_msgs ws (sheet_col (csv_start e)) (start + nh + i)) /\
        warn_msgs ws (sheet_col (csv_start e)) (start + nh + i) = rc_swarn c ++ rc_mwarn c) /\
     (forall cm, 0 < e -> rc_cmp c = Some cm ->
        exists marks, In (nh + i, txt_start e + 5, OSpan 1 (marks_text marks) None ALeft) (placed ops) /\
          marks_for wl marks (warn_msgs ws (sheet_col (csv_start e + 2)) (start + nh + i)) /\
          warn_msgs ws (sheet_col (csv_start e + 2)) (start + nh + i) = cm_warn cm)) /\
  (1 < length (rt_rows t) -> forall e s, nth_error (rt_sums t) e = Some (Some s) ->
     exists marks,
       In (nh + length (rt_rows t), txt_start (S e) - 1, OSpan 1 (marks_text marks) None ALeft) (placed ops) /\
       marks_for wl marks (warn_msgs ws (sheet_col (csv_start e)) (start + nh + length (rt_rows t))) /\
       warn_msgs ws (sheet_col (csv_start e)) (start + nh + length (rt_rows t)) = rs_warn s).
Proof.
  intros [Hcols [Hrows Hsums]]. cbn zeta. rewrite csv_model_ws. cbn zeta.
  assert (Ewl : snd (text_model t) = text_wl t) by (rewrite text_model_rows; reflexivity). rewrite Ewl.
  destruct (text_wl_facts t) as [Nwl Pwl].
  set (nh := rt_nf t + 1). set (s0 := start + nh).
  split; [exact Nwl|]. split.
  - intros i label cells e c Hi Hc.
    assert (Hil : i < length (rt_rows t)) by (apply nth_error_Some; congruence).
    assert (Hok : sheet_ok (csv_start (length cells))).
    { rewrite Forall_forall in Hrows. apply (Hrows (label, cells)). eapply nth_error_In. exact Hi. }
    (* the CSV lines with row number s0 + i are those of data row i *)
    assert (F : forall ref, warn_msgs (rows_wlines s0 0 (rt_rows t) ++ sum_wlines (s0 + length (rt_rows t)) 0 (rt_sums t)) ref (s0 + i)
                            = warn_msgs (row_wlines (s0 + i) 0 cells) ref (s0 + i)).
    { intros ref. rewrite warn_msgs_app. rewrite (warn_msgs_wrong_row (sum_wlines _ _ _)).
      - rewrite app_nil_r. pose proof (rows_filter s0 ref (rt_rows t) 0 i label cells Hi) as R.
        rewrite Nat.add_0_r in R. exact R.
      - eapply Forall_impl; [|apply sum_wlines_row]. cbn beta. intros w ->. lia. }
    destruct (rows_run_nth (rt_rows t) [] i label cells Hi) as [wli [_ [_ [Hrow Hpre]]]].
    pose proof (text_rows_data t i Hcols Hil) as Hline. rewrite Hrow in Hline. fold nh in Hline.
    destruct (text_csv_agree_warnings_data (s0 + i) wli label cells e c Hok Hc) as [_ [_ [[m1 [A1 [B1 C1]]] D]]].
    rewrite csv_data_row_ws in *.
    assert (Pfin : prefix (fst (text_data_ops wli label cells)) (text_wl t)) by (eapply prefix_trans; eassumption).
    split.
    + exists m1. rewrite F. split; [eapply text_model_placed; eassumption|].
      split; [eapply marks_for_prefix; eassumption|exact C1].
    + intros cm H0 Hcm. destruct (D cm H0 Hcm) as [m2 [A2 [B2 C2]]].
      exists m2. rewrite F. split; [eapply text_model_placed; eassumption|].
      split; [eapply marks_for_prefix; eassumption|exact C2].
  - intros Hn e s Hs.
    assert (F : forall ref, warn_msgs (rows_wlines s0 0 (rt_rows t) ++ sum_wlines (s0 + length (rt_rows t)) 0 (rt_sums t)) ref
                              (s0 + length (rt_rows t))
                            = warn_msgs (sum_wlines (s0 + length (rt_rows t)) 0 (rt_sums t)) ref (s0 + length (rt_rows t))).
    { intros ref. rewrite warn_msgs_app. rewrite (warn_msgs_wrong_row (rows_wlines _ _ _)); [reflexivity|].
      eapply Forall_impl; [|apply rows_wlines_range]. cbn beta. intros w Hw. lia. }
    pose proof (text_rows_summary t Hcols Hn) as Hline. fold nh in Hline.
    destruct (text_csv_agree_warnings_summary (s0 + length (rt_rows t)) (fst (rows_run [] (rt_rows t)))
                (rt_sumlabel t) (rt_sums t) e s Hsums Hs) as [_ [_ [m1 [A1 [B1 C1]]]]].
    rewrite csv_summary_row_ws in *.
    exists m1. rewrite F. split; [eapply text_model_placed; eassumption|].
    split; [|exact C1]. unfold text_wl. cbn zeta. destruct (Nat.ltb_spec 1 (length (rt_rows t))); [exact B1|lia].
Qed.

(** the footer lists the numbered messages: line [k] is mark k+1, a blank, message k *)
Lemma text_footer_nth wl k :
  nth_error (text_footer wl) k = option_map (fun m => superscript (S k) ++ sp :: m) (nth_error wl k).
Proof.
  unfold text_footer.
  assert (G : forall b l k, nth_error (map (fun '(i, m) => superscript (S i) ++ sp :: m) (combine (seq b (length l)) l)) k
                            = option_map (fun m => superscript (S (b + k)) ++ sp :: m) (nth_error l k)).
  { intros b l; revert b. induction l as [|x l IH]; intros b j; [destruct j; reflexivity|].
    cbn [length seq combine map]. destruct j as [|j]; cbn [nth_error option_map].
    - rewrite Nat.add_0_r. reflexivity.
    - rewrite IH. replace (S b + j) with (b + S j) by lia. reflexivity. }
  apply (G 0 wl k).
Qed.

Theorem footer_denotes wl i m :
  denote wl i = Some m <-> exists k, i = S k /\ nth_error (text_footer wl) k = Some (superscript i ++ sp :: m).
Proof.
  split.
  - destruct i as [|k]; [discriminate|]. cbn [denote]. intros H. exists k. split; [reflexivity|].
    rewrite text_footer_nth, H. reflexivity.
  - intros [k [-> H]]. cbn [denote]. rewrite text_footer_nth in H.
    destruct (nth_error wl k) as [m'|]; [|discriminate]. cbn [option_map] in H. injection H as H.
    apply app_inv_head in H. injection H as ->. reflexivity.
Qed.
