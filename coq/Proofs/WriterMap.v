(** The writer's running model of the emitted configuration (benchfmt/writer.go):
    what writeFileConfig emits, applied to the configuration a reader of the
    output holds, keeps that reader at "the file part of what the writer
    believes"; and the writer's belief becomes the result's configuration.
    Pure map reasoning; no bytes here. *)
From Perf Require Import Base.Bytes Model.Name Model.Extract Model.Reader Model.Writer Proofs.ReaderSlots.

Definition vlook (l : list cfg) (k : bytes) : option (bytes * bool) :=
  option_map (fun c => (c_val c, c_file c)) (cfg_lookup l k).
Definition keys (l : list cfg) : list bytes := map c_key l.

(** the file part of an entry *)
Definition fp (o : option (bytes * bool)) : option (bytes * bool) :=
  match o with Some (v, true) => Some (v, true) | _ => None end.

Lemma cfg_lookup_some l k c : cfg_lookup l k = Some c -> c_key c = k /\ In c l.
Proof.
  induction l as [|x l IH]; cbn; [discriminate|].
  destruct (beq_spec (c_key x) k) as [E|Hn].
  - intros [= <-]. auto.
  - intros H. apply IH in H. tauto.
Qed.

Lemma cfg_lookup_none l k : cfg_lookup l k = None <-> ~ In k (keys l).
Proof.
  induction l as [|x l IH]; cbn; [tauto|].
  destruct (beq_spec (c_key x) k) as [E|Hn].
  - split; [discriminate|]. intros H. exfalso. auto.
  - rewrite IH. tauto.
Qed.

Lemma vlook_none l k : vlook l k = None <-> ~ In k (keys l).
Proof. unfold vlook. rewrite <- cfg_lookup_none. destruct (cfg_lookup l k); cbn; split; congruence. Qed.

Lemma vlook_cons x l k :
  vlook (x :: l) k = if beq (c_key x) k then Some (c_val x, c_file x) else vlook l k.
Proof. unfold vlook. cbn. now destruct (beq (c_key x) k). Qed.

Lemma vlook_app_single l c k :
  vlook (l ++ [c]) k = match vlook l k with
                       | Some x => Some x
                       | None => if beq (c_key c) k then Some (c_val c, c_file c) else None
                       end.
Proof.
  induction l as [|x l IH]; cbn [app].
  - rewrite vlook_cons. unfold vlook. cbn. reflexivity.
  - rewrite !vlook_cons. destruct (beq (c_key x) k); auto.
Qed.

(** the reader-side meaning of emitted lines, on the map *)
Definition apply_op (m : cmap) (o : wline) : cmap :=
  match o with
  | WSet k v => cm_set m k v true
  | WDel k => cm_del m k
  | _ => m
  end.
Definition apply_ops (m : cmap) (ops : list wline) : cmap := fold_left apply_op ops m.

Lemma apply_ops_app m a b : apply_ops m (a ++ b) = apply_ops (apply_ops m a) b.
Proof. apply fold_left_app. Qed.

Lemma vlook_set m k v k' : v <> [] ->
  vlook (cm_set m k v true) k' = if beq k k' then Some (v, true) else vlook m k'.
Proof.
  intros Hv. unfold vlook. rewrite cm_set_lookup. destruct (beq k k'); auto.
  destruct v; [congruence|reflexivity].
Qed.

Lemma vlook_del m k k' : vlook (cm_del m k) k' = if beq k k' then None else vlook m k'.
Proof. unfold vlook. rewrite cm_del_lookup. now destruct (beq k k'). Qed.

Lemma apply_ops_nodup ops : forall m, NoDup (keys m) -> NoDup (keys (apply_ops m ops)).
Proof.
  induction ops as [|o ops IH]; intros m H; cbn; auto. apply IH.
  destruct o; cbn; auto using cm_set_nodup, cm_del_nodup.
Qed.

(** ** walk *)
Definition file_vals_ok (R : list cfg) : Prop := Forall (fun c => c_file c = true -> c_val c <> []) R.

Lemma file_vals_ok_lookup R k c : file_vals_ok R -> cfg_lookup R k = Some c -> c_file c = true -> c_val c <> [].
Proof.
  intros H Hl. apply cfg_lookup_some in Hl as [_ Hin]. unfold file_vals_ok in H. rewrite Forall_forall in H. auto.
Qed.

Lemma same_cfg_eq h c : same_cfg h c = true -> c_val h = c_val c /\ c_file h = c_file c.
Proof.
  unfold same_cfg. rewrite andb_true_iff, beq_eq. intros [-> H]. apply Bool.eqb_prop in H. auto.
Qed.

Lemma walk_keys H R : keys (snd (walk H R)) = filter (has_key R) (keys H).
Proof.
  induction H as [|h H IH]; [reflexivity|]. cbn [walk keys map filter].
  destruct (walk H R) as [ls hv]. cbn [snd] in IH. unfold has_key at 1.
  destruct (cfg_lookup R (c_key h)) as [c|]; [|exact IH].
  destruct (same_cfg h c); cbn [snd keys map]; f_equal; exact IH.
Qed.

Lemma walk_nodup H R : NoDup (keys H) -> NoDup (keys (snd (walk H R))).
Proof. intros Hn. rewrite walk_keys. now apply NoDup_filter. Qed.

Lemma walk_look H R k : NoDup (keys H) ->
  vlook (snd (walk H R)) k = match vlook H k with None => None | Some _ => vlook R k end.
Proof.
  induction H as [|h H IH]; intros Hn; [reflexivity|].
  cbn [keys map] in Hn. inversion Hn as [|? ? Hnotin Hn']; subst.
  cbn [walk]. destruct (walk H R) as [ls hv]. cbn [snd] in IH. specialize (IH Hn').
  rewrite vlook_cons.
  destruct (beq_spec (c_key h) k) as [E|Hne].
  - assert (Hr : vlook H k = None) by (apply vlook_none; now rewrite <- E).
    rewrite Hr in IH. rewrite E.
    destruct (cfg_lookup R k) as [c|] eqn:Ec.
    + destruct (same_cfg h c) eqn:Es; cbn [snd]; rewrite vlook_cons.
      * rewrite ?E, beq_refl. apply same_cfg_eq in Es as [-> ->]. unfold vlook. now rewrite Ec.
      * cbn [c_key]. rewrite ?E, beq_refl. unfold vlook. now rewrite Ec.
    + cbn [snd]. rewrite IH. unfold vlook. now rewrite Ec.
  - destruct (cfg_lookup R (c_key h)) as [c|]; [destruct (same_cfg h c)|]; cbn [snd];
      rewrite ?vlook_cons; cbn [c_key]; destruct (beq_spec (c_key h) k); try congruence; exact IH.
Qed.

(** what the lines of the walk do to the value a reader holds for [k] *)
Definition eff (h : cfg) (R : list cfg) (old : option (bytes * bool)) : option (bytes * bool) :=
  match cfg_lookup R (c_key h) with
  | None => None
  | Some c => if same_cfg h c then old
              else if c_file c then Some (c_val c, true)
              else if c_file h then None else old
  end.

Lemma walk_effect H R k : NoDup (keys H) -> file_vals_ok R -> forall m,
  vlook (apply_ops m (fst (walk H R))) k =
  match cfg_lookup H k with None => vlook m k | Some h => eff h R (vlook m k) end.
Proof.
  intros Hn Hv. induction H as [|h H IH]; intros m; [reflexivity|].
  cbn [keys map] in Hn. inversion Hn as [|? ? Hnotin Hn']; subst. specialize (IH Hn').
  cbn [walk cfg_lookup]. destruct (walk H R) as [ls hv]. cbn [fst] in IH.
  set (hops := match cfg_lookup R (c_key h) with
               | None => [WDel (c_key h)]
               | Some c => if same_cfg h c then []
                           else if c_file c then [WSet (c_key h) (c_val c)]
                           else if c_file h then [WDel (c_key h)] else []
               end).
  match goal with |- vlook (apply_ops m (fst ?X)) k = _ => assert (Hfst : fst X = hops ++ ls) end.
  { unfold hops. destruct (cfg_lookup R (c_key h)) as [c|]; [|reflexivity].
    destruct (same_cfg h c); [reflexivity|]. reflexivity. }
  rewrite Hfst, apply_ops_app.
  assert (Hm1 : forall k', vlook (apply_ops m hops) k' =
                           if beq (c_key h) k' then eff h R (vlook m k') else vlook m k').
  { intros k'. unfold hops, eff. destruct (cfg_lookup R (c_key h)) as [c|] eqn:Ec.
    - destruct (same_cfg h c); [cbn; now destruct (beq (c_key h) k')|].
      destruct (c_file c) eqn:Ef; [|destruct (c_file h)]; cbn [apply_ops fold_left apply_op].
      + apply vlook_set. eapply file_vals_ok_lookup; eauto.
      + apply vlook_del.
      + now destruct (beq (c_key h) k').
    - cbn [apply_ops fold_left apply_op]. apply vlook_del. }
  rewrite IH, !Hm1.
  destruct (beq_spec (c_key h) k) as [E|Hne]; auto.
  assert (Hr : cfg_lookup H k = None) by (apply cfg_lookup_none; now rewrite <- E). now rewrite Hr.
Qed.

(** ** new keys *)
Lemma has_key_vlook l k : has_key l k = match vlook l k with Some _ => true | None => false end.
Proof. unfold has_key, vlook. now destruct (cfg_lookup l k). Qed.

Lemma new_look R : forall Hw k,
  vlook (snd (new_keys R Hw)) k = match vlook Hw k with Some x => Some x | None => vlook R k end.
Proof.
  induction R as [|c R IH]; intros Hw k; cbn [new_keys].
  - cbn [snd]. now destruct (vlook Hw k).
  - rewrite vlook_cons. destruct (has_key Hw (c_key c)) eqn:Eh.
    + rewrite IH. rewrite has_key_vlook in Eh.
      destruct (beq_spec (c_key c) k) as [E|Hne]; auto. rewrite <- E.
      destruct (vlook Hw (c_key c)); [reflexivity|discriminate].
    + destruct (new_keys R (Hw ++ [_])) as [ls hv] eqn:En. cbn [snd].
      specialize (IH (Hw ++ [mkCfg (c_key c) (c_val c) (c_file c)]) k). rewrite En in IH. cbn [snd] in IH.
      rewrite IH, vlook_app_single. cbn [c_key c_val c_file].
      destruct (vlook Hw k); auto. destruct (beq (c_key c) k); auto.
Qed.

Lemma new_effect R (Hv : file_vals_ok R) : forall Hw m k,
  vlook (apply_ops m (fst (new_keys R Hw))) k =
  match vlook Hw k with
  | Some _ => vlook m k
  | None => match cfg_lookup R k with
            | Some c => if c_file c then Some (c_val c, true) else vlook m k
            | None => vlook m k
            end
  end.
Proof.
  induction R as [|c R IH]; intros Hw m k; cbn [new_keys].
  - cbn. now destruct (vlook Hw k).
  - inversion Hv as [|? ? Hc HvR]; subst. specialize (IH HvR). cbn [cfg_lookup].
    destruct (has_key Hw (c_key c)) eqn:Eh.
    + rewrite IH. rewrite has_key_vlook in Eh.
      destruct (beq_spec (c_key c) k) as [E|Hne]; auto. rewrite <- E.
      destruct (vlook Hw (c_key c)); [reflexivity|discriminate].
    + destruct (new_keys R (Hw ++ [_])) as [ls hv] eqn:En. cbn [fst].
      rewrite apply_ops_app.
      specialize (IH (Hw ++ [mkCfg (c_key c) (c_val c) (c_file c)])
                     (apply_ops m (if c_file c then [WSet (c_key c) (c_val c)] else [])) k).
      rewrite En in IH. cbn [fst] in IH. rewrite IH, vlook_app_single. cbn [c_key c_val c_file].
      rewrite has_key_vlook in Eh.
      assert (Hm1 : vlook (apply_ops m (if c_file c then [WSet (c_key c) (c_val c)] else [])) k =
                    if beq (c_key c) k then (if c_file c then Some (c_val c, true) else vlook m k) else vlook m k).
      { destruct (c_file c) eqn:Ef; cbn [apply_ops fold_left apply_op].
        - apply vlook_set. auto.
        - now destruct (beq (c_key c) k). }
      rewrite Hm1.
      destruct (beq_spec (c_key c) k) as [E|Hne].
      * rewrite <- E. destruct (vlook Hw (c_key c)); [discriminate|reflexivity].
      * destruct (vlook Hw k); auto.
Qed.

Lemma NoDup_app_single {A} (l : list A) x : NoDup l -> ~ In x l -> NoDup (l ++ [x]).
Proof.
  induction l as [|y l IH]; intros Hn Hx; cbn.
  - repeat constructor. tauto.
  - inversion Hn; subst. constructor.
    + rewrite in_app_iff. cbn. intros [H|[H|[]]]; auto. subst. apply Hx. now left.
    + apply IH; auto. intros H. apply Hx. now right.
Qed.

Lemma new_keys_nodup R : forall Hw, NoDup (keys Hw) -> NoDup (keys (snd (new_keys R Hw))).
Proof.
  induction R as [|c R IH]; intros Hw Hn; cbn [new_keys]; auto.
  destruct (has_key Hw (c_key c)) eqn:Eh; auto.
  destruct (new_keys R (Hw ++ [_])) as [ls hv] eqn:En. cbn [snd].
  specialize (IH (Hw ++ [mkCfg (c_key c) (c_val c) (c_file c)])). rewrite En in IH. apply IH.
  unfold keys. rewrite map_app. cbn. apply NoDup_app_single; auto.
  apply cfg_lookup_none. unfold has_key in Eh. destruct (cfg_lookup Hw (c_key c)); [discriminate|reflexivity].
Qed.

Lemma new_keys_noop R : forall Hw, (forall c, In c R -> has_key Hw (c_key c) = true) -> new_keys R Hw = ([], Hw).
Proof.
  induction R as [|c R IH]; intros Hw H; cbn [new_keys]; auto.
  rewrite H by now left. apply IH. intros; apply H; now right.
Qed.

(** ** the configuration part of writeResult *)
Definition Inv (m : cmap) (H : list cfg) : Prop :=
  NoDup (keys m) /\ forall k, vlook m k = fp (vlook H k).

Definition cfg_part (w : wstate) (R : list cfg) : list wline * list cfg :=
  if needs_config (w_have w) R then write_file_config w R else ([], w_have w).

Lemma has_key_in l k : has_key l k = true <-> In k (keys l).
Proof.
  unfold has_key. pose proof (cfg_lookup_none l k) as H.
  destruct (cfg_lookup l k); split; intros; auto; try discriminate.
  - destruct (in_dec (fun a b => match beq_spec a b with ReflectT _ e => left e | ReflectF _ n => right n end) k (keys l)); auto.
    exfalso. apply H in n. discriminate.
  - exfalso. apply H; auto.
Qed.

(** when the belief already has as many keys as the result, there are no new keys *)
Lemma no_new_keys H R : NoDup (keys H) -> NoDup (keys R) ->
  length (snd (walk H R)) = length R -> new_keys R (snd (walk H R)) = ([], snd (walk H R)).
Proof.
  intros HnH HnR Hlen. apply new_keys_noop. intros c Hc. apply has_key_in.
  assert (Hincl : incl (keys (snd (walk H R))) (keys R)).
  { rewrite walk_keys. intros k Hk. apply filter_In in Hk as [_ Hk]. now apply has_key_in. }
  assert (Hn : NoDup (keys (snd (walk H R)))) by now apply walk_nodup.
  apply (NoDup_length_incl (l' := keys R) Hn); auto.
  - unfold keys. rewrite !map_length. lia.
  - unfold keys. now apply in_map.
Qed.

Lemma write_file_config_eq w R : NoDup (keys (w_have w)) -> NoDup (keys R) ->
  write_file_config w R =
  ((if w_first w then [] else [WBlank]) ++ fst (walk (w_have w) R)
     ++ fst (new_keys R (snd (walk (w_have w) R))) ++ [WBlank],
   snd (new_keys R (snd (walk (w_have w) R)))).
Proof.
  intros HnH HnR. unfold write_file_config.
  pose proof (no_new_keys (w_have w) R HnH HnR) as Hno.
  destruct (walk (w_have w) R) as [l1 hv1]. cbn [fst snd] in *.
  destruct (Nat.eqb_spec (length hv1) (length R)) as [E|Hne].
  - rewrite (Hno E). reflexivity.
  - destruct (new_keys R hv1). reflexivity.
Qed.

Lemma blank_no_effect m : apply_ops m [WBlank] = m.
Proof. reflexivity. Qed.

Lemma needs_config_false H R : NoDup (keys H) -> NoDup (keys R) ->
  needs_config H R = false -> forall k, vlook H k = vlook R k.
Proof.
  intros HnH HnR Hf k. unfold needs_config in Hf. apply orb_false_iff in Hf as [Hlen Hall].
  apply negb_false_iff, Nat.eqb_eq in Hlen.
  assert (Hsame : forall c, In c R -> exists h, cfg_lookup H (c_key c) = Some h /\ same_cfg h c = true).
  { intros c Hc.
    destruct (cfg_lookup H (c_key c)) as [h|] eqn:E.
    - exists h. split; auto. destruct (same_cfg h c) eqn:Es; auto. exfalso.
      assert (existsb (fun c => match cfg_lookup H (c_key c) with None => true | Some h => negb (same_cfg h c) end) R = true).
      { apply existsb_exists. exists c. split; auto. now rewrite E, Es. }
      congruence.
    - exfalso.
      assert (existsb (fun c => match cfg_lookup H (c_key c) with None => true | Some h => negb (same_cfg h c) end) R = true).
      { apply existsb_exists. exists c. split; auto. now rewrite E. }
      congruence. }
  unfold vlook. destruct (cfg_lookup R k) as [c|] eqn:Ec.
  - apply cfg_lookup_some in Ec as [Ek Hin]. destruct (Hsame c Hin) as (h & Hh & Hs).
    rewrite Ek in Hh. rewrite Hh. cbn. apply same_cfg_eq in Hs as [-> ->]. reflexivity.
  - assert (Hincl : incl (keys R) (keys H)).
    { intros k' Hk'. unfold keys in Hk'. apply in_map_iff in Hk' as (c & <- & Hc).
      destruct (Hsame c Hc) as (h & Hh & _). apply has_key_in. unfold has_key. now rewrite Hh. }
    assert (Hback : incl (keys H) (keys R)).
    { apply (NoDup_length_incl (l' := keys H) HnR); auto. unfold keys. rewrite !map_length. lia. }
    destruct (cfg_lookup H k) as [h|] eqn:Eh; auto. exfalso.
    apply cfg_lookup_none in Ec. apply Ec. apply Hback. apply has_key_in. unfold has_key. now rewrite Eh.
Qed.

Theorem cfg_part_ok w R m :
  NoDup (keys (w_have w)) -> NoDup (keys R) -> file_vals_ok R -> Inv m (w_have w) ->
  NoDup (keys (snd (cfg_part w R))) /\
  (forall k, vlook (snd (cfg_part w R)) k = vlook R k) /\
  Inv (apply_ops m (fst (cfg_part w R))) (snd (cfg_part w R)).
Proof.
  intros HnH HnR Hv [Hnm Hinv]. unfold cfg_part.
  destruct (needs_config (w_have w) R) eqn:En.
  2:{ cbn [fst snd apply_ops fold_left].
      pose proof (needs_config_false _ _ HnH HnR En) as Heq.
      repeat split; auto. }
  rewrite write_file_config_eq by auto. cbn [fst snd].
  set (H := w_have w) in *.
  assert (Hlook : forall k, vlook (snd (new_keys R (snd (walk H R)))) k = vlook R k).
  { intros k. rewrite new_look, walk_look by auto.
    destruct (vlook H k); [destruct (vlook R k); reflexivity|reflexivity]. }
  split; [apply new_keys_nodup, walk_nodup; auto|]. split; [exact Hlook|].
  split; [apply apply_ops_nodup; auto|].
  intros k. rewrite Hlook.
  rewrite !apply_ops_app.
  assert (Hpre : apply_ops m (if w_first w then [] else [WBlank]) = m) by (destruct (w_first w); reflexivity).
  rewrite Hpre, blank_no_effect.
  rewrite new_effect by auto. rewrite walk_look by auto. rewrite walk_effect by auto.
  rewrite Hinv. unfold vlook, eff, fp.
  destruct (cfg_lookup H k) as [h|] eqn:Eh; cbn [option_map].
  - apply cfg_lookup_some in Eh as [Ek _]. rewrite Ek.
    destruct (cfg_lookup R k) as [c|] eqn:Ec; cbn [option_map]; [|reflexivity].
    destruct (same_cfg h c) eqn:Es.
    + apply same_cfg_eq in Es as [-> ->]. now destruct (c_file c).
    + destruct (c_file c); [reflexivity|]. now destruct (c_file h).
  - destruct (cfg_lookup R k) as [c|]; cbn [option_map]; [|reflexivity].
    now destruct (c_file c).
Qed.
