(** Rounding-error bounds for percentile's interpolation r*(1-x) + s*x in binary64 (pure real-number lemmas; classical reals in Print Assumptions). *)
From Coq Require Import ZArith Reals Lia Lra.
From Flocq Require Import Core Ulp.
From Perf Require Import Proofs.B64Flocq Proofs.LegacyMean.
Local Open Scope R_scope.

Notation ulp64 := (ulp radix2 fexp64).

(** * small helpers *)
Lemma RN_half_ulp z : Rabs (RN z - z) <= / 2 * ulp64 z.
Proof. apply error_le_half_ulp. typeclasses eauto. Qed.

Lemma ulp64_mono a b : 0 <= a -> a <= b -> ulp64 a <= ulp64 b.
Proof. intros Ha Hab. apply ulp_le_pos; try typeclasses eauto; assumption. Qed.

Lemma ulp64_pos z : 0 < ulp64 z.
Proof.
  destruct (Req_dec z 0) as [E|N].
  - subst z. rewrite fexp64_FLT. rewrite (@ulp_FLT_0 radix2 (-1074) 53 b64_prec_gt_0). apply bpow_gt_0.
  - rewrite (ulp_neq_0 radix2 fexp64 z N). apply bpow_gt_0.
Qed.

(** strict relative bound: |z| * 2^-53 < ulp z, also in the subnormal range *)
Lemma ulp64_gt z : Rabs z * bpow radix2 (-53) < ulp64 z.
Proof. rewrite fexp64_FLT. exact (@ulp_FLT_gt radix2 (-1074) 53 b64_prec_gt_0 z). Qed.

Lemma ulp64_lt_1 t : 0 <= t < 1 -> ulp64 t <= bpow radix2 (-53).
Proof.
  intros [H0 H1]. destruct (Req_dec t 0) as [E|N].
  - subst t. rewrite fexp64_FLT. rewrite (@ulp_FLT_0 radix2 (-1074) 53 b64_prec_gt_0).
    apply bpow_le. lia.
  - rewrite (ulp_neq_0 radix2 fexp64 t N). apply bpow_le. unfold cexp.
    assert (Hm : (mag radix2 t <= 0)%Z).
    { apply mag_le_bpow; [exact N|]. rewrite Rabs_pos_eq by exact H0. simpl. exact H1. }
    rewrite fexp64_FLT. unfold FLT_exp. lia.
Qed.

Lemma F64_1 : F64 1.
Proof. change 1 with (bpow radix2 0). apply generic_format_bpow. cbn. lia. Qed.

Lemma bpow_53_54 : bpow radix2 (-53) = 2 * bpow radix2 (-54).
Proof. change (-53)%Z with (1 + -54)%Z. rewrite bpow_plus. simpl (bpow radix2 1). lra. Qed.

(** * the complement 1 - x *)
Lemma one_minus_error x :
  0 <= x <= 1 ->
  0 <= RN (1 - x) <= 1 /\ Rabs (RN (1 - x) - (1 - x)) <= bpow radix2 (-54).
Proof.
  intros Hx. split.
  - split.
    + apply RN_nonneg. lra.
    + rewrite <- (RN_id 1 F64_1) at 2. apply RN_le. lra.
  - destruct (Req_dec x 0) as [E|N].
    + subst x. replace (1 - 0) with 1 by lra. rewrite (RN_id 1 F64_1).
      replace (1 - 1) with 0 by lra. rewrite Rabs_R0. apply bpow_ge_0.
    + pose proof (RN_half_ulp (1 - x)) as He.
      pose proof (ulp64_lt_1 (1 - x) ltac:(lra)) as Hu.
      rewrite bpow_53_54 in Hu. lra.
Qed.

(** * one rounded product against a bound of its factor *)
Lemma prod_le_ulp M a t :
  0 <= a <= M -> 0 <= t <= 1 -> RN (a * t) <= M * t + / 2 * ulp64 M.
Proof.
  intros Ha Ht.
  assert (Hle : a * t <= M * t) by (apply Rmult_le_compat_r; lra).
  assert (H0 : 0 <= M * t) by (apply Rmult_le_pos; lra).
  assert (H1 : M * t <= M) by nra.
  pose proof (RN_le _ _ Hle) as Hr.
  pose proof (RN_half_ulp (M * t)) as He. apply Rabs_le_inv in He.
  pose proof (ulp64_mono _ _ H0 H1). lra.
Qed.

Lemma prod_ge_ulp m a t :
  0 <= m <= a -> 0 <= t <= 1 -> m * t - / 2 * ulp64 m <= RN (a * t).
Proof.
  intros Ha Ht.
  assert (Hle : m * t <= a * t) by (apply Rmult_le_compat_r; lra).
  assert (H0 : 0 <= m * t) by (apply Rmult_le_pos; lra).
  assert (H1 : m * t <= m) by nra.
  pose proof (RN_le _ _ Hle) as Hr.
  pose proof (RN_half_ulp (m * t)) as He. apply Rabs_le_inv in He.
  pose proof (ulp64_mono _ _ H0 H1). lra.
Qed.

(** the error of the complement, scaled by a bound, stays strictly under half an ulp *)
Lemma scaled_delta_small M d :
  0 <= M -> Rabs d <= bpow radix2 (-54) -> Rabs (M * d) < / 2 * ulp64 M.
Proof.
  intros HM Hd. rewrite Rabs_mult, (Rabs_pos_eq M HM).
  pose proof (ulp64_gt M) as Hg. rewrite (Rabs_pos_eq M HM), bpow_53_54 in Hg.
  assert (M * Rabs d <= M * bpow radix2 (-54)) by (apply Rmult_le_compat_l; assumption).
  lra.
Qed.

(** * the interpolation: exact sum before the last rounding *)
Lemma interp_sum_upper M r s x :
  0 <= r <= M -> 0 <= s <= M -> 0 <= x <= 1 ->
  RN (r * RN (1 - x)) + RN (s * x) < M + 3 / 2 * ulp64 M.
Proof.
  intros Hr Hs Hx. destruct (one_minus_error x Hx) as [Hy Hd].
  set (y := RN (1 - x)) in *.
  pose proof (prod_le_ulp M r y Hr Hy) as H1.
  pose proof (prod_le_ulp M s x Hs Hx) as H2.
  pose proof (scaled_delta_small M (y - (1 - x)) ltac:(lra) Hd) as H3.
  apply Rabs_lt_inv in H3. nra.
Qed.

Lemma interp_sum_lower m r s x :
  0 <= m -> m <= r -> m <= s -> 0 <= x <= 1 ->
  m - 3 / 2 * ulp64 m < RN (r * RN (1 - x)) + RN (s * x).
Proof.
  intros Hm Hr Hs Hx. destruct (one_minus_error x Hx) as [Hy Hd].
  set (y := RN (1 - x)) in *.
  pose proof (prod_ge_ulp m r y ltac:(lra) Hy) as H1.
  pose proof (prod_ge_ulp m s x ltac:(lra) Hx) as H2.
  pose proof (scaled_delta_small m (y - (1 - x)) Hm Hd) as H3.
  apply Rabs_lt_inv in H3. nra.
Qed.

(** * main theorems *)
Theorem interp_upper M r s x :
  F64 M -> 0 <= r <= M -> 0 <= s <= M -> 0 <= x <= 1 ->
  RN (RN (r * RN (1 - x)) + RN (s * x)) <= M + ulp64 M.
Proof.
  intros FM Hr Hs Hx.
  assert (HM : 0 <= M) by lra.
  pose proof (interp_sum_upper M r s x Hr Hs Hx) as HS.
  set (S := RN (r * RN (1 - x)) + RN (s * x)) in *.
  rewrite <- (succ_eq_pos radix2 fexp64 M HM).
  set (M1 := succ radix2 fexp64 M).
  assert (E1 : M1 = M + ulp64 M) by (unfold M1; apply succ_eq_pos; exact HM).
  pose proof (ulp64_pos M) as Hup.
  assert (FM1 : F64 M1) by (apply generic_format_succ; [typeclasses eauto|exact FM]).
  apply round_N_le_midp; [typeclasses eauto|exact FM1|].
  rewrite (succ_eq_pos radix2 fexp64 M1) by lra.
  pose proof (ulp64_mono M M1 HM ltac:(lra)). lra.
Qed.

Corollary interp_upper_succ M r s x :
  F64 M -> 0 <= r <= M -> 0 <= s <= M -> 0 <= x <= 1 ->
  RN (RN (r * RN (1 - x)) + RN (s * x)) <= succ radix2 fexp64 M.
Proof.
  intros FM Hr Hs Hx. rewrite (succ_eq_pos radix2 fexp64 M) by lra.
  now apply interp_upper.
Qed.

Theorem interp_lower m r s x :
  F64 m -> 0 <= m -> m <= r -> m <= s -> 0 <= x <= 1 ->
  m - 2 * ulp64 m < RN (RN (r * RN (1 - x)) + RN (s * x)).
Proof.
  intros Fm Hm Hr Hs Hx.
  pose proof (interp_sum_lower m r s x Hm Hr Hs Hx) as HS.
  destruct (one_minus_error x Hx) as [Hy _].
  assert (HP1 : 0 <= RN (r * RN (1 - x))) by (apply RN_nonneg; apply Rmult_le_pos; lra).
  assert (HP2 : 0 <= RN (s * x)) by (apply RN_nonneg; apply Rmult_le_pos; lra).
  set (S := RN (r * RN (1 - x)) + RN (s * x)) in *.
  assert (HS0 : 0 <= S) by (unfold S; lra).
  pose proof (ulp64_pos m) as Hup.
  destruct (Rle_or_lt m S) as [H|H].
  - pose proof (RN_le _ _ H) as Hle. rewrite (RN_id m Fm) in Hle. lra.
  - pose proof (RN_half_ulp S) as He. apply Rabs_le_inv in He.
    pose proof (ulp64_mono S m ltac:(lra) ltac:(lra)). lra.
Qed.

Theorem interp_nonneg r s x :
  0 <= r -> 0 <= s -> 0 <= x <= 1 -> 0 <= RN (RN (r * RN (1 - x)) + RN (s * x)).
Proof.
  intros Hr Hs Hx. destruct (one_minus_error x Hx) as [Hy _].
  apply RN_nonneg. apply Rplus_le_le_0_compat; apply RN_nonneg; apply Rmult_le_pos; lra.
Qed.

Print Assumptions interp_upper. Print Assumptions interp_lower.
