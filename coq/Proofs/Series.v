(** Proofs about Model/Series.v. *)
From Coq Require Import Permutation.
From Perf Require Import Base.Bytes Base.Usort Model.Dates Model.Series.
Local Open Scope Z_scope.

(** * keys and orders *)
Lemma keqb_eq a b : keqb a b = true <-> a = b.
Proof. apply list_eqb_spec, beq_eq. Qed.
Lemma keqb_refl a : keqb a a = true.
Proof. now apply keqb_eq. Qed.
Lemma keqb_neq a b : a <> b -> keqb a b = false.
Proof. intros H. destruct (keqb a b) eqn:E; auto. apply keqb_eq in E. contradiction. Qed.

Lemma upd_same {V} (f : key -> V) k v : upd f k v k = v.
Proof. unfold upd. now rewrite keqb_refl. Qed.
Lemma upd_other {V} (f : key -> V) k v k' : k <> k' -> upd f k v k' = f k'.
Proof. intros H. unfold upd. now rewrite keqb_neq. Qed.

Lemma vcmp_eq a b : vcmp a b = Eq <-> a = b.
Proof.
  unfold vcmp. destruct (Z.compare_spec (fkey a) (fkey b)) as [E|E|E].
  - apply Z.compare_eq_iff.
  - split; [discriminate|]. intros ->. lia.
  - split; [discriminate|]. intros ->. lia.
Qed.
Lemma vcmp_antisym a b : vcmp b a = CompOpp (vcmp a b).
Proof.
  unfold vcmp. rewrite (Z.compare_antisym (fkey a) (fkey b)), (Z.compare_antisym a b).
  destruct (fkey a ?= fkey b); reflexivity.
Qed.
Lemma vcmp_trans a b c : vcmp a b = Lt -> vcmp b c = Lt -> vcmp a c = Lt.
Proof.
  unfold vcmp.
  destruct (Z.compare_spec (fkey a) (fkey b)), (Z.compare_spec (fkey b) (fkey c)),
           (Z.compare_spec (fkey a) (fkey c)); try discriminate; try lia; intros; auto;
    rewrite ?Z.compare_lt_iff in *; lia.
Qed.

Lemma vsort_perm l l' : Permutation l l' -> vsort l = vsort l'.
Proof. apply isort_canonical; [apply vcmp_eq | apply vcmp_antisym | apply vcmp_trans]. Qed.
Lemma vsort_idem l : vsort (vsort l) = vsort l.
Proof. apply isort_idem; [apply vcmp_eq | apply vcmp_antisym | apply vcmp_trans]. Qed.
Lemma vsort_nil_inv l : vsort l = [] -> l = [].
Proof.
  intros H. pose proof (isort_perm vcmp l) as P. unfold vsort in H. rewrite H in P.
  now apply Permutation_sym, Permutation_nil in P.
Qed.

Lemma bcmp_refl a : bcmp a a = Eq.
Proof. now apply bcmp_eq. Qed.

Lemma bltb_irrefl a : bltb a a = false.
Proof. unfold bltb. now rewrite bcmp_refl. Qed.
Lemma bltb_trans a b c : bltb a b = true -> bltb b c = true -> bltb a c = true.
Proof.
  unfold bltb. destruct (bcmp a b) eqn:E1; try discriminate. destruct (bcmp b c) eqn:E2; try discriminate.
  intros _ _. now rewrite (bcmp_trans_lt _ _ _ E1 E2).
Qed.
Lemma bltb_total a b : bltb a b = false -> bltb b a = false -> a = b.
Proof.
  unfold bltb. rewrite (bcmp_antisym a b). destruct (bcmp a b) eqn:E; cbn; try discriminate.
  intros _ _. now apply bcmp_eq.
Qed.

Lemma usortb_ext l l' : (forall x, In x l <-> In x l') -> usort bcmp l = usort bcmp l'.
Proof. apply usort_canonical; [apply bcmp_eq | apply bcmp_antisym | apply bcmp_trans_lt]. Qed.

(** * the fold over (trial, test) visits, seen at one cell *)
Definition cstep (combine : bool) (o : option comp) (c : contrib) : option comp :=
  match o with
  | None => Some (new_comp c)
  | Some cc =>
      if combine then
        Some (mkC (c_num cc ++ k_num c) (c_den cc ++ k_den c)
                  (if bltb (c_date cc) (k_date c) then k_date c else c_date cc))
      else if bltb (c_date cc) (k_date c) then Some (new_comp c) else Some cc
  end.

Definition at_sk (b s : bytes) (c : contrib) : bool := beq (k_bench c) b && beq (k_ser c) s.

Lemma at_sk_true b s c : at_sk b s c = true <-> [k_bench c; k_ser c] = [b; s].
Proof.
  unfold at_sk. rewrite andb_true_iff, !beq_eq. split; [intros [-> ->]; auto | intros [= -> ->]; auto].
Qed.

Lemma step_cells combine st c b s :
  s_cells (step combine st c) [b; s] =
  if at_sk b s c then cstep combine (s_cells st [b; s]) c else s_cells st [b; s].
Proof.
  destruct (at_sk b s c) eqn:E.
  - apply at_sk_true in E. unfold step. rewrite E.
    destruct (s_cells st [b; s]) as [cc|] eqn:Ec; cbn [cstep].
    + destruct combine; cbn [s_cells].
      * now rewrite upd_same.
      * destruct (bltb (c_date cc) (k_date c)); [now rewrite upd_same | auto].
    + cbn [s_cells]. now rewrite upd_same.
  - assert (Hne : [k_bench c; k_ser c] <> [b; s]).
    { intros H. apply at_sk_true in H. congruence. }
    unfold step. destruct (s_cells st [k_bench c; k_ser c]) as [cc|].
    + destruct combine; cbn [s_cells].
      * now rewrite upd_other.
      * destruct (bltb (c_date cc) (k_date c)); [now rewrite upd_other | auto].
    + cbn [s_cells]. now rewrite upd_other.
Qed.

Lemma fold_cells combine C : forall st b s,
  s_cells (fold_left (step combine) C st) [b; s] =
  fold_left (cstep combine) (filter (at_sk b s) C) (s_cells st [b; s]).
Proof.
  induction C as [|c C IH]; intros st b s; cbn [fold_left filter]; auto.
  rewrite IH, step_cells. destruct (at_sk b s c); reflexivity.
Qed.

(** ** DUPE_REPLACE: the latest experiment wins *)
Lemma cfold_replace_snoc l c o :
  fold_left (cstep false) (l ++ [c]) o = cstep false (fold_left (cstep false) l o) c.
Proof. now rewrite fold_left_app. Qed.

Theorem replace_latest_wins l :
  l <> [] ->
  exists w, In w l /\ fold_left (cstep false) l None = Some (new_comp w) /\
            forall c, In c l -> bltb (k_date w) (k_date c) = false.
Proof.
  induction l as [|c l IH] using rev_ind; [congruence|]. intros _.
  rewrite cfold_replace_snoc. destruct l as [|c0 l0].
  - exists c. cbn. repeat split; auto. intros c' [<-|[]]. apply bltb_irrefl.
  - destruct IH as (w & Hin & Hf & Hmax); [discriminate|]. rewrite Hf. cbn [cstep new_comp c_date].
    destruct (bltb (k_date w) (k_date c)) eqn:E.
    + exists c. split; [apply in_or_app; right; now left|]. split; auto.
      intros c' Hc'. apply in_app_or in Hc' as [Hc'|[<-|[]]]; [|apply bltb_irrefl].
      destruct (bltb (k_date c) (k_date c')) eqn:E'; auto.
      rewrite <- (Hmax _ Hc'). symmetry. eapply bltb_trans; eauto.
    + exists w. split; [apply in_or_app; now left|]. split; auto.
      intros c' Hc'. apply in_app_or in Hc' as [Hc'|[<-|[]]]; auto.
Qed.

(** ** DUPE_COMBINE: samples are concatenated, the date is the latest *)
Definition later (a b : bytes) : bytes := if bltb a b then b else a.

Lemma cfold_combine l : forall cc,
  fold_left (cstep true) l (Some cc) =
  Some (mkC (c_num cc ++ concat (map k_num l)) (c_den cc ++ concat (map k_den l))
            (fold_left later (map k_date l) (c_date cc))).
Proof.
  induction l as [|c l IH]; intros cc; cbn [fold_left map concat cstep].
  - now rewrite !app_nil_r; destruct cc.
  - rewrite IH. cbn [c_num c_den c_date]. now rewrite <- !app_assoc.
Qed.

Theorem combine_concat c l :
  fold_left (cstep true) (c :: l) None =
  Some (mkC (concat (map k_num (c :: l))) (concat (map k_den (c :: l)))
            (fold_left later (map k_date l) (k_date c))).
Proof. cbn [fold_left cstep]. now rewrite cfold_combine. Qed.

Lemma later_max l : forall d,
  (fold_left later l d = d \/ In (fold_left later l d) l) /\ bltb (fold_left later l d) d = false /\
  forall x, In x l -> bltb (fold_left later l d) x = false.
Proof.
  induction l as [|x l IH]; intros d; cbn [fold_left].
  - split; [now left|]. split; [apply bltb_irrefl | intros ? []].
  - destruct (IH (later d x)) as (H1 & H2 & H3).
    set (m := fold_left later l (later d x)) in *.
    assert (Hd : bltb m d = false /\ bltb m x = false).
    { unfold later in H2. destruct (bltb d x) eqn:E.
      - split; auto. destruct (bltb m d) eqn:E'; auto. rewrite <- H2. symmetry. eapply bltb_trans; eauto.
      - split; auto. destruct (bltb m x) eqn:E'; auto.
        destruct (bltb d m) eqn:E''.
        + rewrite <- E. symmetry. eapply bltb_trans; eauto.
        + assert (Hdm : d = m) by (apply bltb_total; auto). rewrite <- Hdm in E'. congruence. }
    destruct Hd as [Hd Hx]. split; [|split; auto].
    + destruct H1 as [H1|H1]; [|right; now right].
      unfold later in H1. destruct (bltb d x); [right; left; auto | left; auto].
    + intros y [<-|Hy]; auto.
Qed.

(** the result of the cell fold does not depend on the order of the visits when
    different visits of the cell carry different dates *)
Definition dates_inj (l : list contrib) : Prop :=
  forall c c', In c l -> In c' l -> k_date c = k_date c' -> c = c'.

Lemma cfold_replace_perm l l' :
  Permutation l l' -> dates_inj l ->
  fold_left (cstep false) l None = fold_left (cstep false) l' None.
Proof.
  intros HP Hinj. destruct l as [|c l].
  - apply Permutation_nil in HP. now subst.
  - assert (Hne' : l' <> []).
    { intros ->. apply Permutation_sym, Permutation_nil in HP. discriminate. }
    destruct (replace_latest_wins (c :: l)) as (w & Hw & Hf & Hmax); [discriminate|].
    destruct (replace_latest_wins l' Hne') as (w' & Hw' & Hf' & Hmax').
    rewrite Hf, Hf'. do 2 f_equal.
    apply Hinj; auto.
    + apply (Permutation_in _ (Permutation_sym HP)); auto.
    + apply bltb_total.
      * apply Hmax. apply (Permutation_in _ (Permutation_sym HP)); auto.
      * apply Hmax'. apply (Permutation_in _ HP); auto.
Qed.

Lemma Permutation_concat {A} (l l' : list (list A)) :
  Permutation l l' -> Permutation (concat l) (concat l').
Proof.
  induction 1; cbn; auto.
  - now apply Permutation_app_head.
  - rewrite !app_assoc. apply Permutation_app_tail, Permutation_app_comm.
  - eapply perm_trans; eauto.
Qed.

Definition comp_canon (o : option comp) : option comp :=
  option_map (fun cc => mkC (vsort (c_num cc)) (vsort (c_den cc)) (c_date cc)) o.

Lemma fold_later_perm l l' d :
  Permutation l l' -> fold_left later l d = fold_left later l' d.
Proof.
  intros HP. pose proof (later_max l d) as (H1 & H2 & H3). pose proof (later_max l' d) as (H1' & H2' & H3').
  set (m := fold_left later l d) in *. set (m' := fold_left later l' d) in *.
  apply bltb_total.
  - destruct H1' as [->|H1']; auto. apply H3. apply (Permutation_in _ (Permutation_sym HP)); auto.
  - destruct H1 as [->|H1]; auto. apply H3'. apply (Permutation_in _ HP); auto.
Qed.

Lemma cfold_combine_perm l l' :
  Permutation l l' ->
  comp_canon (fold_left (cstep true) l None) = comp_canon (fold_left (cstep true) l' None).
Proof.
  intros HP. destruct l as [|c l].
  - apply Permutation_nil in HP. now subst.
  - destruct l' as [|c' l']; [apply Permutation_sym, Permutation_nil in HP; discriminate|].
    rewrite !combine_concat. cbn [comp_canon option_map c_num c_den c_date]. do 2 f_equal.
    + apply vsort_perm, Permutation_concat, Permutation_map, HP.
    + apply vsort_perm, Permutation_concat, Permutation_map, HP.
    + assert (Hl : forall x, later [] x = x) by (intros [|? ?]; reflexivity).
      replace (fold_left later (map k_date l) (k_date c)) with (fold_left later (map k_date (c :: l)) [])
        by (cbn [map fold_left]; now rewrite Hl).
      replace (fold_left later (map k_date l') (k_date c')) with (fold_left later (map k_date (c' :: l')) [])
        by (cbn [map fold_left]; now rewrite Hl).
      apply fold_later_perm, Permutation_map, HP.
Qed.

(** * hash pairs: the first visit of a series point names the pair *)
Definition hp_inv (st : state) : Prop := forall b s, s_cells st [b; s] <> None -> s_hp st [s] <> None.

Lemma key1_inj (a b : bytes) : [a] = [b] :> key -> a = b.
Proof. now intros [= ->]. Qed.

Lemma record_hp_at st c s :
  record_hp st c [s] =
  match s_hp st [s] with
  | Some p => Some p
  | None => if beq (k_ser c) s then Some (k_hash c, k_bh c) else None
  end.
Proof.
  unfold record_hp. destruct (beq_spec (k_ser c) s) as [->|Hne].
  - destruct (s_hp st [s]) eqn:E; auto. now rewrite upd_same.
  - destruct (s_hp st [k_ser c]) eqn:E.
    + destruct (s_hp st [s]); auto.
    + rewrite upd_other by (intros H; apply key1_inj in H; congruence). destruct (s_hp st [s]); auto.
Qed.

Lemma step_hp combine st c s : hp_inv st ->
  s_hp (step combine st c) [s] =
  match s_hp st [s] with
  | Some p => Some p
  | None => if beq (k_ser c) s then Some (k_hash c, k_bh c) else None
  end.
Proof.
  intros Hinv. unfold step. destruct (s_cells st [k_bench c; k_ser c]) as [cc|] eqn:Ec.
  - destruct combine; cbn [s_hp]; [|apply record_hp_at].
    destruct (s_hp st [s]) eqn:E; auto.
    destruct (beq_spec (k_ser c) s) as [Heq|Hne]; auto.
    exfalso. rewrite Heq in Ec. apply (Hinv (k_bench c) s); congruence.
  - cbn [s_hp]. apply record_hp_at.
Qed.

Lemma step_hp_inv combine st c : hp_inv st -> hp_inv (step combine st c).
Proof.
  intros Hinv b s H. rewrite step_hp by auto. rewrite step_cells in H.
  destruct (s_hp st [s]) eqn:E; [discriminate|].
  destruct (at_sk b s c) eqn:Ea.
  - apply at_sk_true in Ea. injection Ea as _ ->. now rewrite beq_refl.
  - exfalso. now apply (Hinv b s).
Qed.

Definition pair_of (c : contrib) : bytes * bytes := (k_hash c, k_bh c).

Lemma fold_hp combine C : forall st s, hp_inv st ->
  s_hp (fold_left (step combine) C st) [s] =
  match s_hp st [s] with
  | Some p => Some p
  | None => option_map pair_of (find (fun c => beq (k_ser c) s) C)
  end.
Proof.
  induction C as [|c C IH]; intros st s Hinv; cbn [fold_left find].
  - now destruct (s_hp st [s]).
  - rewrite IH by now apply step_hp_inv. rewrite step_hp by auto.
    destruct (s_hp st [s]); auto. destruct (beq (k_ser c) s); auto.
Qed.

Lemma hp_inv_empty : hp_inv st_empty.
Proof. intros b s H. now cbn in H. Qed.

Definition pair_fun (C : list contrib) : Prop :=
  forall c c', In c C -> In c' C -> k_ser c = k_ser c' -> pair_of c = pair_of c'.

Lemma find_pair_perm C C' s :
  Permutation C C' -> pair_fun C ->
  option_map pair_of (find (fun c => beq (k_ser c) s) C) = option_map pair_of (find (fun c => beq (k_ser c) s) C').
Proof.
  intros HP Hf.
  destruct (find (fun c => beq (k_ser c) s) C) as [c|] eqn:E;
  destruct (find (fun c => beq (k_ser c) s) C') as [c'|] eqn:E'; cbn; auto.
  - apply find_some in E as [Hin He], E' as [Hin' He']. apply beq_eq in He, He'.
    f_equal. apply Hf; auto; [|congruence]. apply (Permutation_in _ (Permutation_sym HP)); auto.
  - apply find_some in E as [Hin He]. eapply find_none in E'; [|apply (Permutation_in _ HP); eauto].
    cbn in E'. congruence.
  - apply find_some in E' as [Hin He]. eapply find_none in E; [|apply (Permutation_in _ (Permutation_sym HP)); eauto].
    cbn in E. congruence.
Qed.

(** * one (unit, table): independence of the order of the visits *)
Definition table_out (combine : bool) (u t : bytes) (benches : list bytes) (cs : list contrib) : series :=
  finish u t benches cs (fold_left (step combine) cs st_empty).

Lemma map_flat_map {A B C} (f : B -> C) (g : A -> list B) l :
  map f (flat_map g l) = flat_map (fun x => map f (g x)) l.
Proof. induction l; cbn; auto. now rewrite map_app, IHl. Qed.

Lemma vsort_nil : vsort [] = [].
Proof. reflexivity. Qed.

Lemma out_cell_canon st b s :
  map canon_cell (out_cell st b s) =
  match comp_canon (s_cells st [b; s]) with
  | Some cc => [mkO b s (c_date cc) (c_num cc) (c_den cc)]
  | None => []
  end.
Proof.
  unfold out_cell. destruct (s_cells st [b; s]) as [cc|]; cbn [comp_canon option_map]; auto.
  destruct (c_den cc) eqn:E; cbn [map canon_cell oc_bench oc_ser oc_date oc_num oc_den c_date c_num c_den].
  - reflexivity.
  - unfold canon_cell; cbn [oc_bench oc_ser oc_date oc_num oc_den]. now rewrite !vsort_idem.
Qed.

Lemma cells_perm combine C C' b s :
  Permutation C C' -> dates_inj (filter (at_sk b s) C) ->
  comp_canon (s_cells (fold_left (step combine) C st_empty) [b; s]) =
  comp_canon (s_cells (fold_left (step combine) C' st_empty) [b; s]).
Proof.
  intros HP Hinj. rewrite !fold_cells. cbn [st_empty s_cells].
  assert (HPf : Permutation (filter (at_sk b s) C) (filter (at_sk b s) C')).
  { clear Hinj. induction HP; cbn; auto.
    - destruct (at_sk b s x); auto.
    - destruct (at_sk b s x), (at_sk b s y); auto. apply perm_swap.
    - eapply perm_trans; eauto. }
  destruct combine.
  - now apply cfold_combine_perm.
  - f_equal. now apply cfold_replace_perm.
Qed.

Theorem table_enum_invariant combine u t bl bl' C C' :
  Permutation C C' -> (forall x, In x bl <-> In x bl') ->
  pair_fun C -> (forall b s, dates_inj (filter (at_sk b s) C)) ->
  canon_series (table_out combine u t bl C) = canon_series (table_out combine u t bl' C').
Proof.
  intros HP Hbl Hpf Hdi. unfold table_out, finish, canon_series.
  cbn [se_unit se_benchmarks se_series se_hp se_cells].
  rewrite (usortb_ext bl bl' Hbl).
  assert (Hs : usort bcmp (map k_ser C) = usort bcmp (map k_ser C')).
  { apply usortb_ext. intros x. split; apply Permutation_in; [|apply Permutation_sym]; now apply Permutation_map. }
  rewrite Hs. f_equal.
  - apply flat_map_ext. intros s. unfold out_hp.
    rewrite !fold_hp by apply hp_inv_empty. cbn [st_empty s_hp].
    now rewrite (find_pair_perm C C' s HP Hpf).
  - rewrite !map_flat_map. apply flat_map_ext. intros b.
    rewrite !map_flat_map. apply flat_map_ext. intros s.
    rewrite !out_cell_canon. now rewrite (cells_perm combine C C' b s HP (Hdi b s)).
Qed.

(** * the Builder after adding a result set, field by field *)
Definition den_at (k : key) (r : res) : bool := is_den r && keqb (tkey r) k.
Definition num_at (k : key) (r : res) : bool := is_num r && keqb (nkey r) k.

Lemma adds_den rs : forall b k,
  b_den (fold_left add rs b) k = b_den b k ++ map r_val (filter (den_at k) rs).
Proof.
  induction rs as [|r rs IH]; intros b k; cbn [fold_left filter map]; [now rewrite app_nil_r|].
  rewrite IH. unfold add, den_at, is_den. destruct (r_role r); cbn [b_den andb]; auto.
  destruct (keqb (tkey r) k) eqn:E.
  - apply keqb_eq in E. subst k. rewrite upd_same. cbn [map]. now rewrite <- app_assoc.
  - rewrite upd_other; auto. intros H. apply keqb_eq in H. congruence.
Qed.

Lemma adds_num rs : forall b k,
  b_num (fold_left add rs b) k = b_num b k ++ map r_val (filter (num_at k) rs).
Proof.
  induction rs as [|r rs IH]; intros b k; cbn [fold_left filter map]; [now rewrite app_nil_r|].
  rewrite IH. unfold add, num_at, is_num. destruct (r_role r); cbn [b_num andb]; auto.
  destruct (keqb (nkey r) k) eqn:E.
  - apply keqb_eq in E. subst k. rewrite upd_same. cbn [map]. now rewrite <- app_assoc.
  - rewrite upd_other; auto. intros H. apply keqb_eq in H. congruence.
Qed.

Lemma add_trial b r k : b_trial (add b r) k = b_trial b k || keqb (tkey r) k.
Proof.
  assert (H : upd (b_trial b) (tkey r) true k = b_trial b k || keqb (tkey r) k).
  { unfold upd. destruct (keqb (tkey r) k); [now rewrite orb_true_r | now rewrite orb_false_r]. }
  unfold add. destruct (r_role r); cbn [b_trial]; exact H.
Qed.

Lemma adds_trial rs : forall b k,
  b_trial (fold_left add rs b) k = b_trial b k || existsb (fun r => keqb (tkey r) k) rs.
Proof.
  induction rs as [|r rs IH]; intros b k; cbn [fold_left existsb]; [now rewrite orb_false_r|].
  now rewrite IH, add_trial, orb_assoc.
Qed.

Lemma adds_bh rs : forall b k,
  b_bh (fold_left add rs b) k =
  match b_den b k with
  | [] => match filter (den_at k) rs with r :: _ => r_dh r | [] => b_bh b k end
  | _ => b_bh b k
  end.
Proof.
  induction rs as [|r rs IH]; intros b k; cbn [fold_left filter].
  - now destruct (b_den b k).
  - rewrite IH. unfold den_at at 2. unfold add, is_den.
    destruct (r_role r) eqn:Er; cbn [b_den b_bh andb]; auto.
    destruct (keqb (tkey r) k) eqn:E.
    + apply keqb_eq in E. subst k. rewrite upd_same.
      destruct (b_den b (tkey r)) eqn:Ed; cbn [app].
      * now rewrite upd_same.
      * reflexivity.
    + assert (Hne : tkey r <> k) by (intros H; apply keqb_eq in H; congruence).
      rewrite upd_other by auto.
      destruct (b_den b (tkey r)); [rewrite upd_other by auto|]; reflexivity.
Qed.

(** values are appended in add order: a permuted result set gives the same
    cells up to the order of their values, the same trials, and (when the
    denominators of a trial carry one hash) the same baseline hash *)
Lemma filter_perm {A} (f : A -> bool) l l' : Permutation l l' -> Permutation (filter f l) (filter f l').
Proof.
  induction 1; cbn; auto.
  - destruct (f x); auto.
  - destruct (f x), (f y); auto. apply perm_swap.
  - eapply perm_trans; eauto.
Qed.

Theorem builder_perm_invariant rs rs' :
  Permutation rs rs' ->
  (forall r r', In r rs -> In r' rs -> is_den r = true -> is_den r' = true ->
                tkey r = tkey r' -> r_dh r = r_dh r') ->
  forall k,
    b_trial (adds rs) k = b_trial (adds rs') k /\
    Permutation (b_den (adds rs) k) (b_den (adds rs') k) /\
    Permutation (b_num (adds rs) k) (b_num (adds rs') k) /\
    b_bh (adds rs) k = b_bh (adds rs') k.
Proof.
  intros HP Hc k. unfold adds. rewrite !adds_trial, !adds_den, !adds_num, !adds_bh. cbn [b_empty b_trial b_den b_num b_bh app orb].
  split; [|split; [|split]].
  - destruct (existsb (fun r => keqb (tkey r) k) rs) eqn:E.
    + apply existsb_exists in E as (r & Hin & Hr). symmetry. apply existsb_exists. exists r. split; auto.
      apply (Permutation_in _ HP); auto.
    + destruct (existsb (fun r => keqb (tkey r) k) rs') eqn:E'; auto.
      apply existsb_exists in E' as (r & Hin & Hr).
      assert (existsb (fun r => keqb (tkey r) k) rs = true); [|congruence].
      apply existsb_exists. exists r. split; auto. apply (Permutation_in _ (Permutation_sym HP)); auto.
  - apply Permutation_map, filter_perm, HP.
  - apply Permutation_map, filter_perm, HP.
  - pose proof (filter_perm (den_at k) _ _ HP) as HPf.
    destruct (filter (den_at k) rs) as [|r l] eqn:E.
    + apply Permutation_nil in HPf. now rewrite HPf.
    + destruct (filter (den_at k) rs') as [|r' l'] eqn:E'.
      * apply Permutation_sym, Permutation_nil in HPf. discriminate.
      * assert (Hr : In r (filter (den_at k) rs)) by (rewrite E; now left).
        assert (Hr' : In r' (r :: l)).
        { apply (Permutation_in _ (Permutation_sym HPf)). now left. }
        rewrite <- E in Hr'.
        apply filter_In in Hr as [Hin Hd], Hr' as [Hin' Hd'].
        unfold den_at in Hd, Hd'. apply andb_true_iff in Hd as [Hd Hk], Hd' as [Hd' Hk'].
        apply keqb_eq in Hk, Hk'. apply Hc; auto. congruence.
Qed.
