(** Every reachable projection's flattened field list covers its whole field
    index space (needed for totality of Key.Less, C09), because the group a
    .config closure appends to is always a group of the tree. *)
From Perf Require Import Base.Bytes Model.Name Model.Extract Model.Key Model.Projection Model.Sort
  Proofs.Key Proofs.Projection Proofs.Sort.

Definition is_group (top : list tnode) (g : nat) : Prop :=
  exists n s, nth_error top g = Some (TGroup n s).

Definition FInv (p : projection) : Prop :=
  covers p /\ forall g o, In (PConfig g o) (p_items p) -> is_group (p_top p) g.

Definition flat_top (top : list tnode) : list nat := concat (map node_flat top).

Lemma flat_top_app a b : flat_top (a ++ b) = flat_top a ++ flat_top b.
Proof. unfold flat_top. now rewrite map_app, concat_app. Qed.

Lemma is_group_app top x g : is_group top g -> is_group (top ++ [x]) g.
Proof.
  intros [n [s H]]. exists n, s. rewrite nth_error_app1; auto. apply nth_error_Some. congruence.
Qed.

Lemma flat_top_cons t top : flat_top (t :: top) = node_flat t ++ flat_top top.
Proof. reflexivity. Qed.

Lemma top_add_sub_S t top g idx : top_add_sub (t :: top) (S g) idx = t :: top_add_sub top g idx.
Proof. destruct t; reflexivity. Qed.

Lemma top_add_sub_in top : forall g idx x,
  In x (flat_top top) -> In x (flat_top (top_add_sub top g idx)).
Proof.
  induction top as [|t top IH]; intros g idx x; [destruct g; auto|].
  destruct g as [|g].
  - destruct t as [i|n s]; auto. cbn [top_add_sub]. rewrite !flat_top_cons, !in_app_iff.
    cbn [node_flat]. rewrite in_app_iff. tauto.
  - rewrite top_add_sub_S, !flat_top_cons, !in_app_iff. intros [H|H]; auto.
Qed.

Lemma top_add_sub_new top : forall g idx,
  is_group top g -> In idx (flat_top (top_add_sub top g idx)).
Proof.
  induction top as [|t top IH]; intros g idx [n [s H]]; [destruct g; discriminate|].
  destruct g as [|g].
  - cbn in H. injection H as ->. cbn [top_add_sub]. rewrite flat_top_cons, in_app_iff.
    cbn [node_flat]. rewrite in_app_iff. cbn. tauto.
  - rewrite top_add_sub_S, flat_top_cons, in_app_iff. right. apply IH. exists n, s. auto.
Qed.

Lemma top_add_sub_group top : forall g idx g',
  is_group top g' -> is_group (top_add_sub top g idx) g'.
Proof.
  induction top as [|t top IH]; intros g idx g' [n [s H]]; [destruct g'; discriminate|].
  destruct g as [|g]; destruct g' as [|g'].
  - cbn in H. injection H as ->. exists n, (s ++ [idx]). reflexivity.
  - cbn in H. destruct t; exists n, s; auto.
  - rewrite top_add_sub_S. exists n, s. auto.
  - rewrite top_add_sub_S. cbn. apply IH. exists n, s. auto.
Qed.

Lemma FInv_add_top p n o src : FInv p -> FInv (fst (add_top_field p n o src)).
Proof.
  intros [Hc Hg]. unfold covers in Hc. split.
  - intros idx Hl. unfold add_top_field, flat, nfields in *; cbn in *.
    fold (flat_top (p_top p ++ [TLeaf (length (p_fields p))])). rewrite flat_top_app.
    rewrite app_length in Hl; cbn in Hl. apply in_or_app.
    destruct (Nat.eq_dec idx (length (p_fields p))) as [->|]; [right; cbn; auto|left; apply Hc; lia].
  - intros g o' Hi. cbn in *. apply is_group_app. eapply Hg; eauto.
Qed.

Lemma FInv_add_item_leaf p it :
  (forall g o, it <> PConfig g o) -> FInv p -> FInv (add_item p it).
Proof.
  intros Hn [Hc Hg]. split; auto. intros g o Hi. cbn in *. apply in_app_or in Hi as [Hi|[Hi|[]]].
  - eapply Hg; eauto.
  - subst. exfalso. eapply Hn; eauto.
Qed.

Lemma FInv_add_group_item p n o :
  FInv p -> FInv (add_item (fst (add_group p n)) (PConfig (snd (add_group p n)) o)).
Proof.
  intros [Hc Hg]. unfold covers in Hc. split.
  - intros idx Hl. unfold add_item, add_group, flat, nfields in *; cbn in *.
    fold (flat_top (p_top p ++ [TGroup n []])). rewrite flat_top_app. apply in_or_app. left. now apply Hc.
  - intros g o' Hi. cbn in *. apply in_app_or in Hi as [Hi|[Hi|[]]].
    + apply is_group_app. eapply Hg; eauto.
    + injection Hi as <- <-. exists n, []. rewrite nth_error_app2 by lia. now rewrite Nat.sub_diag.
Qed.

Lemma FInv_same p p' :
  p_top p' = p_top p -> p_items p' = p_items p -> nfields p' = nfields p -> FInv p -> FInv p'.
Proof.
  intros Ht Hi Hn [Hc Hg]. split.
  - intros idx Hl. unfold flat. rewrite Ht. apply Hc. lia.
  - intros g o H. rewrite Ht. rewrite Hi in H. eauto.
Qed.

Lemma FInv_set_row p i v : FInv p -> FInv (set_row p i v).
Proof. apply FInv_same; reflexivity. Qed.

Lemma FInv_clear_row p : FInv p -> FInv (clear_row p).
Proof. apply FInv_same; reflexivity. Qed.

Lemma FInv_add_sub p g n o :
  is_group (p_top p) g -> FInv p -> FInv (fst (add_sub_field p g n o)).
Proof.
  intros G [Hc Hg]. unfold covers in Hc. split.
  - intros idx Hl. unfold add_sub_field, flat, nfields in *; cbn in *.
    fold (flat_top (top_add_sub (p_top p) g (length (p_fields p)))).
    rewrite app_length in Hl; cbn in Hl.
    destruct (Nat.eq_dec idx (length (p_fields p))) as [->|].
    + now apply top_add_sub_new.
    + apply top_add_sub_in. apply Hc. lia.
  - intros g' o' Hi. cbn in *. apply top_add_sub_group. eauto.
Qed.

(** steps that keep the item list and keep groups groups *)
Definition fstep (p p' : projection) : Prop :=
  p_items p' = p_items p /\ (forall g, is_group (p_top p) g -> is_group (p_top p') g) /\
  (FInv p -> FInv p').

Lemma fstep_refl p : fstep p p.
Proof. split; [|split]; auto. Qed.

Lemma fstep_trans a b c : fstep a b -> fstep b c -> fstep a c.
Proof. intros [I1 [G1 F1]] [I2 [G2 F2]]. split; [congruence|split]; auto. Qed.

Lemma fstep_set_row p i v : fstep p (set_row p i v).
Proof. split; [|split]; auto using FInv_set_row. Qed.

Lemma fstep_config_step ck g o p c : is_group (p_top p) g -> fstep p (config_step ck g o p c).
Proof.
  intros G. unfold config_step. destruct (negb (c_file c)); [apply fstep_refl|].
  destruct (find_sub p g (c_key c)); [apply fstep_set_row|].
  destruct (mem (c_key c) ck); [apply fstep_refl|].
  assert (fstep p (fst (add_sub_field p g (c_key c) o))) as H.
  { split; [reflexivity|split].
    - intros g' Hg'. cbn. now apply top_add_sub_group.
    - now apply FInv_add_sub. }
  destruct (add_sub_field p g (c_key c) o) as [p1 idx]. cbn in H.
  eapply fstep_trans; [exact H|apply fstep_set_row].
Qed.

Lemma fstep_fold_config ck g o cs : forall p,
  is_group (p_top p) g -> fstep p (fold_left (config_step ck g o) cs p).
Proof.
  induction cs as [|c cs IH]; intros p G; cbn; [apply fstep_refl|].
  pose proof (fstep_config_step ck g o p c G) as H.
  eapply fstep_trans; [exact H|]. apply IH. destruct H as [_ [Hg _]]. auto.
Qed.

Lemma fstep_run_item r pp p it :
  FInv p -> In it (p_items p) -> fstep p (snd (run_item r (pp, p) it)).
Proof.
  intros [_ Hg] Hi. destruct it as [g o|idx|k idx]; cbn.
  - apply fstep_fold_config. eauto.
  - destruct (full_extract pp (r_name r)); cbn. apply fstep_set_row.
  - apply fstep_set_row.
Qed.

Lemma fstep_fold_items r items : forall pp p,
  FInv p -> (forall it, In it items -> In it (p_items p)) ->
  fstep p (snd (fold_left (run_item r) items (pp, p))).
Proof.
  induction items as [|it items IH]; intros pp p HF Hsub; cbn [fold_left]; [apply fstep_refl|].
  pose proof (fstep_run_item r pp p it HF (Hsub it (or_introl eq_refl))) as H.
  destruct (run_item r (pp, p) it) as [pp1 p1]. cbn in H.
  eapply fstep_trans; [exact H|]. destruct H as [Hi [_ Hf]]. apply IH; auto.
  intros it' Hin. rewrite Hi. apply Hsub. now right.
Qed.

Lemma FInv_populate pp p r : FInv p -> FInv (snd (populate pp p r)).
Proof.
  intros HF. unfold populate.
  apply (fstep_fold_items r (p_items p) pp (clear_row p)); auto using FInv_clear_row.
Qed.

Lemma FInv_intern_row p : KInv p -> FInv p -> FInv (fst (intern_row p)).
Proof.
  intros HK HF. pose proof (intern_row_spec p HK) as H.
  destruct (intern_row p) as [p' k]. destruct H as [_ [_ [_ [_ [_ [Ht [Hi [_ Hn]]]]]]]]. cbn.
  eapply FInv_same; eauto.
Qed.

Lemma FInv_intern_units u units : forall p,
  KInv p -> FInv p -> FInv (fst (intern_units p u units)).
Proof.
  induction units as [|un units IH]; intros p HK HF; cbn; auto.
  pose proof (intern_row_spec (set_row p u un) (KInv_set_row _ _ _ HK)) as H1.
  pose proof (FInv_intern_row (set_row p u un) (KInv_set_row _ _ _ HK) (FInv_set_row _ _ _ HF)) as H2.
  destruct (intern_row (set_row p u un)) as [p1 k]. destruct H1 as [K1 _]. cbn in H2.
  specialize (IH p1 K1 H2). destruct (intern_units p1 u units) as [p2 ks]. exact IH.
Qed.

Lemma FInv_project pp p r :
  KInv p -> FInv p -> let '(_, p', _) := project pp p r in FInv p'.
Proof.
  intros HK HF. unfold project.
  pose proof (kstep_populate pp p r) as Hs. pose proof (FInv_populate pp p r HF) as Hf.
  destruct (populate pp p r) as [pp1 p1]. cbn in *.
  pose proof (FInv_intern_row p1 (kstep_KInv _ _ Hs HK) Hf) as H.
  destruct (intern_row p1). exact H.
Qed.

Lemma FInv_project_values pp p r :
  KInv p -> FInv p -> let '(_, p', _) := project_values pp p r in FInv p'.
Proof.
  intros HK HF. unfold project_values.
  pose proof (kstep_populate pp p r) as Hs. pose proof (FInv_populate pp p r HF) as Hf.
  destruct (populate pp p r) as [pp1 p1]. cbn in *.
  pose proof (kstep_KInv _ _ Hs HK) as K1.
  destruct (p_unit p1) as [u|].
  - pose proof (FInv_intern_units u (r_units r) p1 K1 Hf) as H.
    destruct (intern_units p1 u (r_units r)). exact H.
  - pose proof (FInv_intern_row p1 K1 Hf) as H. destruct (intern_row p1). exact H.
Qed.

Lemma FInv_new : FInv new_projection.
Proof. split; [intros idx H; cbn in H; lia|intros g o []]. Qed.

Lemma FInv_mp_proj p s p' : mp_proj p s = Some p' -> FInv p -> FInv p'.
Proof.
  unfold mp_proj. destruct (order_of_spec s) as [o|]; [|discriminate].
  destruct (beq (ps_key s) key_config).
  { destruct (is_fixed o); [discriminate|].
    pose proof (FInv_add_group_item p key_config o) as H.
    destruct (add_group p key_config) as [p1 g]. cbn in H. intros [= <-]. exact H. }
  destruct (beq (ps_key s) key_fullname).
  { pose proof (FInv_add_top p key_fullname o SFull) as H.
    destruct (add_top_field p key_fullname o SFull) as [p1 idx]. cbn in H. intros [= <-] HF.
    apply FInv_add_item_leaf; auto. discriminate. }
  destruct (beq (ps_key s) key_unit); [discriminate|].
  destruct (is_nil (ps_key s)); [discriminate|].
  pose proof (FInv_add_top p (ps_key s) o (SKey (ps_key s))) as H.
  destruct (add_top_field p (ps_key s) o (SKey (ps_key s))) as [p1 idx]. cbn in H. intros [= <-] HF.
  apply FInv_add_item_leaf; auto. discriminate.
Qed.

Lemma FInv_make_all fs : forall pp p pp' p',
  make_all pp p fs = (pp', Some p') -> FInv p -> FInv p'.
Proof.
  induction fs as [|s fs IH]; intros pp p pp' p'; cbn [make_all].
  - intros [= _ <-]. auto.
  - unfold make_projection. destruct (mp_proj p s) as [p1|] eqn:E; [|discriminate].
    intros H HF. eapply IH; eauto. eapply FInv_mp_proj; eauto.
Qed.

Lemma FInv_parse pp fs pp' p : parse pp fs = (pp', Some p) -> FInv p.
Proof. intros H. eapply FInv_make_all; [exact H|apply FInv_new]. Qed.

Lemma FInv_parse_with_unit pp fs pp' p : parse_with_unit pp fs = (pp', Some p) -> FInv p.
Proof.
  unfold parse_with_unit. destruct (parse pp fs) as [pp1 [p1|]] eqn:E; [|discriminate].
  pose proof (FInv_add_top p1 key_unit OFirst SUnit (FInv_parse _ _ _ _ E)) as H.
  destruct (add_top_field p1 key_unit OFirst SUnit) as [p2 u]. cbn in H. intros [= _ <-].
  eapply FInv_same; [| | |exact H]; reflexivity.
Qed.

Lemma FInv_residue_add st k : FInv (snd st) -> FInv (snd (residue_add st k)).
Proof.
  intros H. unfold residue_add, make_projection.
  destruct (mp_proj (snd st) (spec_first k)) as [s1|] eqn:E; cbn; auto.
  eapply FInv_mp_proj; eauto.
Qed.

Lemma FInv_residue pp : FInv (snd (residue pp)).
Proof.
  unfold residue.
  set (st1 := if pp_havecfg pp then (pp, new_projection)
              else residue_add (pp, new_projection) key_config).
  assert (FInv (snd st1)) as H1.
  { unfold st1. destruct (pp_havecfg pp); [apply FInv_new|]. apply FInv_residue_add, FInv_new. }
  destruct (pp_havefull (fst st1)); auto. now apply FInv_residue_add.
Qed.

(** worlds: both invariants together *)
Definition RInv (w : world) : Prop := Forall (fun p => KInv p /\ FInv p) (w_projs w).

Lemma step_RInv w o : RInv w -> RInv (fst (step w o)).
Proof.
  intros HW. destruct w as [pp projs]. unfold RInv in *; cbn in HW.
  destruct o as [wu fs| |pi r|pi r]; cbn.
  - destruct wu.
    + destruct (parse_with_unit pp fs) as [pp' [p|]] eqn:E; cbn; auto.
      apply Forall_app. split; auto. constructor; auto. split.
      * eapply KInv_parse_with_unit; eauto.
      * eapply FInv_parse_with_unit; eauto.
    + destruct (parse pp fs) as [pp' [p|]] eqn:E; cbn; auto.
      apply Forall_app. split; auto. constructor; auto. split.
      * eapply KInv_parse; eauto.
      * eapply FInv_parse; eauto.
  - pose proof (KInv_residue pp) as H1. pose proof (FInv_residue pp) as H2.
    destruct (residue pp) as [pp' p]. cbn in *. apply Forall_app. split; auto.
  - destruct (nth_error projs pi) as [p|] eqn:E; cbn; auto.
    assert (KInv p /\ FInv p) as [Kp Fp].
    { rewrite Forall_forall in HW. apply HW. eapply nth_error_In; eauto. }
    pose proof (project_spec pp p r Kp) as H1. pose proof (FInv_project pp p r Kp Fp) as H2.
    destruct (project pp p r) as [[pp' p'] k]. destruct H1 as [K _]. cbn.
    apply Forall_set_nth; auto.
  - destruct (nth_error projs pi) as [p|] eqn:E; cbn; auto.
    assert (KInv p /\ FInv p) as [Kp Fp].
    { rewrite Forall_forall in HW. apply HW. eapply nth_error_In; eauto. }
    pose proof (project_values_spec pp p r Kp) as H1. pose proof (FInv_project_values pp p r Kp Fp) as H2.
    destruct (project_values pp p r) as [[pp' p'] ks]. destruct H1 as [K _]. cbn.
    apply Forall_set_nth; auto.
Qed.

Lemma run_ops_RInv ops : forall w, RInv w -> RInv (fst (run_ops w ops)).
Proof.
  induction ops as [|o ops IH]; intros w HW; cbn; auto.
  pose proof (step_RInv w o HW) as H1. destruct (step w o) as [w1 x]. cbn in H1.
  specialize (IH w1 H1). destruct (run_ops w1 ops) as [w2 xs]. exact IH.
Qed.

Theorem reachable_inv ops w xs p :
  run_ops new_world ops = (w, xs) -> In p (w_projs w) -> KInv p /\ covers p.
Proof.
  intros H Hp. pose proof (run_ops_RInv ops new_world (Forall_nil _)) as R. rewrite H in R.
  unfold RInv in R. cbn in R. rewrite Forall_forall in R. destruct (R p Hp) as [K [C _]]. auto.
Qed.

(** ** first-observation order: what interning a new key does to the order maps *)
Lemma upd_nth_nth_error {A} (f : A -> A) l : forall n m,
  nth_error (upd_nth n f l) m = if Nat.eqb n m then option_map f (nth_error l m) else nth_error l m.
Proof.
  induction l as [|x l IH]; intros [|n] [|m]; cbn; auto.
  destruct (Nat.eqb n m); reflexivity.
Qed.

Lemma observe_idem v f : observe v (observe v f) = observe v f.
Proof.
  unfold observe. destruct (tracks (fi_ord f)) eqn:T; cbn; [|now rewrite T].
  destruct (mem v (fi_obs f)) eqn:M; cbn.
  - now rewrite T, M.
  - rewrite T. unfold mem. rewrite existsb_app. cbn. rewrite beq_refl, orb_true_r. reflexivity.
Qed.

Lemma update_obs_nth fl rw : forall fs idx,
  nth_error (update_obs fs fl rw) idx =
  option_map (fun f => if existsb (Nat.eqb idx) fl then observe (vals_get rw idx) f else f)
             (nth_error fs idx).
Proof.
  unfold update_obs. induction fl as [|i fl IH]; intros fs idx; cbn.
  - destruct (nth_error fs idx); reflexivity.
  - rewrite IH, upd_nth_nth_error. rewrite (Nat.eqb_sym idx i).
    destruct (Nat.eqb_spec i idx) as [->|Hne]; cbn.
    + destruct (nth_error fs idx) as [f|]; cbn; auto.
      destruct (existsb (Nat.eqb idx) fl); [now rewrite observe_idem|reflexivity].
    + reflexivity.
Qed.

(** interning a row that is not yet a key shows its value to the order map of
    EVERY field of the projection — top-level fields and .config sub-fields
    alike — and nothing else touches the order maps at that moment *)
Theorem intern_observes p :
  covers p ->
  let rw := trim (p_row p) in
  let '(p', k) := intern_row p in
  (k < length (p_keys p) -> p' = p) /\
  (k = length (p_keys p) ->
   forall idx f, nth_error (p_fields p) idx = Some f ->
     nth_error (p_fields p') idx = Some (observe (vals_get rw idx) f)).
Proof.
  intros HC. cbn. unfold intern_row.
  destruct (find_index (equal_row (trim (p_row p))) (p_keys p)) as [k|] eqn:E.
  - split; auto. intros Hk. destruct (find_index_some _ _ _ [] E) as [Hl _]. exfalso. subst k. exact (Nat.lt_irrefl _ Hl).
  - split; [lia|]. intros _ idx f Hf. cbn. rewrite update_obs_nth, Hf. cbn.
    assert (existsb (Nat.eqb idx) (flat p) = true) as ->; auto.
    apply existsb_exists. exists idx. split; [|apply Nat.eqb_refl].
    apply HC. apply nth_error_Some. unfold nfields. congruence.
Qed.

Lemma find_index_app_some {A} (f : A -> bool) l1 l2 i :
  find_index f l1 = Some i -> find_index f (l1 ++ l2) = Some i.
Proof.
  revert i; induction l1 as [|x l1 IH]; intros i; cbn; [discriminate|].
  destruct (f x); auto. destruct (find_index f l1) as [j|]; [|discriminate].
  intros [= <-]. now rewrite (IH j eq_refl).
Qed.

Lemma find_index_app_none {A} (f : A -> bool) l1 l2 :
  find_index f l1 = None -> find_index f (l1 ++ l2) = option_map (fun j => length l1 + j)%nat (find_index f l2).
Proof.
  induction l1 as [|x l1 IH]; cbn.
  - intros _. destruct (find_index f l2); reflexivity.
  - destruct (f x); [discriminate|]. destruct (find_index f l1); [discriminate|]. intros _.
    rewrite IH by reflexivity. destruct (find_index f l2); reflexivity.
Qed.

Lemma find_index_mem v obs : mem v obs = true <-> exists i, find_index (beq v) obs = Some i.
Proof.
  induction obs as [|x obs IH]; cbn.
  - split; [discriminate|intros [i H]; discriminate].
  - destruct (beq v x); cbn; [split; eauto|].
    rewrite IH. split; intros [i H].
    + rewrite H. cbn. eauto.
    + destruct (find_index (beq v) obs); [eauto|discriminate].
Qed.

(** ... and observing a value keeps every rank already handed out, and gives a
    not yet seen value the next rank, after all the others *)
Theorem observe_ranks v f :
  tracks (fi_ord f) = true ->
  let obs := fi_obs f in
  let obs' := fi_obs (observe v f) in
  (forall a, mem a obs = true -> mem a obs' = true /\ obs_rank obs' a = obs_rank obs a) /\
  mem v obs' = true /\
  (mem v obs = false ->
     obs_rank obs' v = length obs /\ forall a, mem a obs = true -> (obs_rank obs a < length obs)%nat).
Proof.
  intros T. cbn. unfold observe. rewrite T. cbn [andb].
  destruct (mem v (fi_obs f)) eqn:M; cbn [negb fi_obs].
  - split; [auto|]. split; [auto|]. discriminate.
  - split; [|split].
    + intros a Ha. split.
      * unfold mem. rewrite existsb_app. unfold mem in Ha. now rewrite Ha.
      * apply find_index_mem in Ha as [i Hi]. unfold obs_rank.
        now rewrite (find_index_app_some _ _ _ _ Hi), Hi.
    + unfold mem. rewrite existsb_app. cbn. now rewrite beq_refl, orb_true_r.
    + intros _. split.
      * unfold obs_rank. rewrite find_index_app_none.
        -- cbn. rewrite beq_refl. cbn. lia.
        -- destruct (find_index (beq v) (fi_obs f)) eqn:E; auto.
           assert (mem v (fi_obs f) = true) by (apply find_index_mem; eauto). congruence.
      * intros a Ha. apply find_index_mem in Ha as [i Hi]. unfold obs_rank. rewrite Hi.
        destruct (find_index_some _ _ _ [] Hi). auto.
Qed.
