(** What the legacy Reader returns is well-formed in the sense of the
    printer/reader round trip ([wf_result]) — so the round trip applies to
    everything read from ANY text, stored record or /search response, with
    exactly the two recorded exceptions: a value or line ending in CR (known
    finding C19_trailing_cr_lost) and a benchmark line with an empty name
    (C19_empty_name_label_value). *)
From Perf Require Import Base.Bytes Model.Words Model.Query Model.StoreFmt
     Proofs.Query Proofs.StoreFmt Proofs.ReaderKeys.

(** ** the scanner's lines contain no LF *)

Lemma drop_cr_no_lf rl : ~ In c_lf rl -> ~ In c_lf (drop_cr rl).
Proof.
  unfold drop_cr. destruct rl as [|c r]; [auto|]. intros H.
  destruct (Byte.eqb c c_cr); intros Hin; apply in_rev in Hin; apply H; [right; exact Hin | exact Hin].
Qed.

Lemma lines_aux_no_lf s : forall cur, ~ In c_lf cur -> Forall (fun l => ~ In c_lf l) (lines_aux s cur).
Proof.
  induction s as [|c s IH]; intros cur H; cbn [lines_aux].
  - destruct cur; constructor; [apply drop_cr_no_lf; exact H | constructor].
  - destruct (beqb_spec c c_lf) as [->|Hne].
    + constructor; [apply drop_cr_no_lf; exact H | apply IH; intros []].
    + apply IH. intros [E|Hin]; [congruence | exact (H Hin)].
Qed.

Lemma scan_lines_no_lf text : Forall (fun l => ~ In c_lf l) (scan_lines text).
Proof. apply lines_aux_no_lf. intros []. Qed.

(** ** values *)

Lemma strip_blanks_head s c r : strip_blanks s = c :: r -> is_blank c = false.
Proof.
  induction s as [|x s IH]; cbn [strip_blanks]; [discriminate|].
  destruct (is_blank x) eqn:E; [exact IH | intros [= <- _]; exact E].
Qed.

Lemma strip_blanks_In s x : In x (strip_blanks s) -> In x s.
Proof.
  induction s as [|y s IH]; cbn [strip_blanks]; [auto|].
  destruct (is_blank y); [intros H; right; exact (IH H) | auto].
Qed.

(** a label value as the Reader keeps it: all of [val_ok] but the CR clause *)
Definition val_read (v : bytes) : Prop :=
  v <> [] /\ (forall c r, v = c :: r -> is_blank c = false) /\ ~ In c_lf v.

Definition vals_read (l : labels) : Prop := forall k v, In (k, v) l -> val_read v.

Lemma parse_kv_line_value line k v :
  ~ In c_lf line -> parse_kv_line line = Some (k, v) -> v <> [] -> val_read v.
Proof.
  intros Hlf H Hne. destruct (parse_kv_line_shape _ _ _ H) as (rest & -> & _ & -> & _).
  split; [exact Hne|]. destruct rest as [|c0 r0]; [congruence|]. split.
  - intros c r E. eapply strip_blanks_head; exact E.
  - intros Hin. apply strip_blanks_In in Hin. apply Hlf. apply in_or_app. right. right. exact Hin.
Qed.

(** ** the Reader's results *)

Lemma read_loop_shape ls : Forall (fun l => ~ In c_lf l) ls ->
  forall lab perm have seen n, vals_read lab ->
  forall r, In r (read_loop ls lab perm have seen n) ->
    vals_read (r_labels r) /\ ~ In c_lf (r_content r) /\ parse_kv_line (r_content r) = None
    /\ exists name, parse_benchmark_line (r_content r) = Some name
                    /\ (name <> [] -> r_namelabels r = name_labels name).
Proof.
  induction 1 as [|line ls Hline _ IH]; intros lab perm have seen n Hlab r Hr; cbn [read_loop] in Hr; [destruct Hr|].
  destruct (parse_kv_line line) as [[k0 v0]|] eqn:Ekv.
  - destruct (match perm with Some p => lhas k0 p | None => false end); [exact (IH _ _ _ _ _ Hlab r Hr)|].
    refine (IH _ _ _ _ _ _ r Hr). intros k v Hin. destruct (beq_spec v0 []) as [E|Hne].
    + apply (Hlab k v). eapply In_ldel; exact Hin.
    + apply In_lset in Hin as [E|Hin]; [|exact (Hlab k v Hin)]. inversion E; subst.
      exact (parse_kv_line_value _ _ _ Hline Ekv Hne).
  - destruct (parse_benchmark_line line) as [name|] eqn:Eb; [|exact (IH _ _ _ _ _ Hlab r Hr)].
    destruct Hr as [<-|Hr]; [|exact (IH _ _ _ _ _ Hlab r Hr)]. cbn [r_labels r_content r_namelabels].
    split; [exact Hlab|]. split; [exact Hline|]. split; [exact Ekv|]. exists name. split; [exact Eb|]. intros Hne.
    destruct name; [congruence | reflexivity].
Qed.

(** the two exceptions, as predicates on a result *)
Definition no_trailing_cr (r : result) : Prop :=
  (forall p, r_content r <> p ++ [c_cr]) /\ forall k v, In (k, v) (r_labels r) -> forall p, v <> p ++ [c_cr].
Definition named (r : result) : Prop :=
  forall name, parse_benchmark_line (r_content r) = Some name -> name <> [].

(** every result the Reader returns for ANY text is well-formed, unless a value
    or the line ends in CR or the benchmark name is empty *)
Theorem reader_results_wf text r :
  In r (read_plain text) -> no_trailing_cr r -> named r -> wf_result r.
Proof.
  intros Hr [Hcr Hvcr] Hnamed.
  destruct (read_loop_shape _ (scan_lines_no_lf text) [] None false false 0%N (fun k v (H : In (k, v) []) => match H with end) r Hr)
    as (Hv & Hlf & Hkv & name & Hb & Hnl).
  split; [|split; [|split]].
  - split; [exact (reader_labels_sorted text r Hr)|]. intros k v Hin. split.
    + exact (reader_keys_accepted text r k v Hr Hin).
    + destruct (Hv k v Hin) as (Hne & Hbl & Hvlf). split; [exact Hne|]. split; [exact Hbl|].
      split; [exact Hvlf | exact (Hvcr k v Hin)].
  - split; assumption.
  - exact Hkv.
  - exists name. split; [exact Hb|]. split; [exact (Hnamed name Hb)|]. exact (Hnl (Hnamed name Hb)).
Qed.

(** ... hence: read any text, print the results, read again — the same results.
    No hypothesis about keys, values, UTF-8 validity or the shape of the text
    other than the two exceptions. *)
Theorem reread_roundtrip text :
  let rs := read_plain text in
  Forall no_trailing_cr rs -> Forall named rs ->
  Forall2 res_same (read_plain (print_all [] rs)) rs.
Proof.
  cbv zeta. intros Hcr Hn. apply printer_reader_roundtrip.
  rewrite Forall_forall in *. intros r Hr. apply (reader_results_wf text); auto.
Qed.
