(** The executable reader (Model/Reader.v) against the declarative grammar of
    Model/ReaderSpec.v, first part:

      - [white_fspace]   : the grammar's white space is splitField's;
      - [split_nl_Lines], [Lines_functional], [Lines_iff] : the line splitter
        without a limit computes the one list of lines the grammar allows;
        [split_lines_short] : bufio.ScanLines agrees with it when no line is
        too long;
      - [rune_below_128] : only a single byte decodes to a rune below U+0080
        (so a colon rune is the byte ':');
      - [parse_kv_iff]   : parseKeyValueLine is sound and complete for
        [KVLine]; [KVLine_functional], [parse_kv_none_iff]. *)
From Perf Require Import Base.Bytes Base.B64 Base.Utf8 Base.Unicode Model.Name Model.Extract Model.Units
  Model.Reader Model.Files Model.Writer Model.ReaderSpec Proofs.Units Proofs.WriterLines Proofs.ReaderFields.
Local Open Scope N_scope.

(** ** 4. white space *)
Lemma white_fspace is_space r : white is_space r = fspace is_space r.
Proof.
  unfold white, fspace, ascii_space. destruct (r <? 128); [|reflexivity].
  destruct (N.eqb_spec r 9) as [->|H9]; [reflexivity|].
  destruct (N.eqb_spec r 10) as [->|H10]; [reflexivity|].
  destruct (N.eqb_spec r 11) as [->|H11]; [reflexivity|].
  destruct (N.eqb_spec r 12) as [->|H12]; [reflexivity|].
  destruct (N.eqb_spec r 13) as [->|H13]; [reflexivity|].
  destruct (N.eqb_spec r 32) as [->|H32]; [reflexivity|].
  cbn [orb].
  destruct (N.leb_spec 9 r); destruct (N.leb_spec r 13); cbn [andb orb]; try reflexivity. lia.
Qed.

(** ** 3. lines *)
Lemma chomp_cr_functional l c c' : chomp_cr l c -> chomp_cr l c' -> c = c'.
Proof.
  intros [H|[H Hn]] [H'|[H' Hn']].
  - rewrite H in H'. now apply app_inj_tail in H' as [? _].
  - exfalso. eapply Hn'; eauto.
  - exfalso. eapply Hn; eauto.
  - congruence.
Qed.

Lemma finish_nl_chomp p : chomp_cr p (finish_nl (rev p)).
Proof.
  destruct (rev p) as [|c r] eqn:E.
  - assert (p = []) as -> by (rewrite <- (rev_involutive p), E; reflexivity).
    right. split; [reflexivity|]. intros q H. destruct q; discriminate.
  - assert (Hp : p = rev r ++ [c]) by (rewrite <- (rev_involutive p), E; reflexivity).
    cbn [finish_nl]. unfold x_cr. destruct (beqb_spec c x0d) as [->|Hc].
    + left. unfold frev. now rewrite rev_append_rev, app_nil_r.
    + right. unfold frev. rewrite rev_append_rev, app_nil_r. cbn [rev]. split; [now symmetry|].
      intros q H. rewrite Hp in H. apply app_inj_tail in H as [_ H]. congruence.
Qed.

Lemma split_nl_acc_Lines s : forall p, ~ In x0a p -> Lines (p ++ s) (split_nl_acc s (rev p)).
Proof.
  induction s as [|c s IH]; intros p Hp; cbn [split_nl_acc].
  - rewrite app_nil_r. destruct (rev p) as [|c r] eqn:E.
    + assert (p = []) as -> by (rewrite <- (rev_involutive p), E; reflexivity). constructor.
    + rewrite <- E. apply Lines_last; [|exact Hp|apply finish_nl_chomp].
      intros ->. discriminate.
  - unfold x_lf. destruct (beqb_spec c x0a) as [->|Hc].
    + apply Lines_lf; [exact Hp|apply finish_nl_chomp|]. apply (IH []). intros [].
    + replace (p ++ c :: s) with ((p ++ [c]) ++ s) by (rewrite <- app_assoc; reflexivity).
      replace (c :: rev p) with (rev (p ++ [c])) by (rewrite rev_app_distr; reflexivity).
      apply IH. intros H. apply in_app_or in H as [H|[H|[]]]; [auto|congruence].
Qed.

Theorem split_nl_Lines s : Lines s (split_nl s).
Proof. apply (split_nl_acc_Lines s []). intros []. Qed.

(** a text is cut at its first LF in one way only *)
Lemma cut_unique (l l' r r' : bytes) : ~ In x0a l -> ~ In x0a l' ->
  l ++ x0a :: r = l' ++ x0a :: r' -> l = l' /\ r = r'.
Proof.
  revert l'. induction l as [|b l IH]; intros [|b' l'] Hl Hl' H; cbn [app] in H.
  - injection H as ->. auto.
  - injection H as <- _. exfalso. apply Hl'. now left.
  - injection H as -> _. exfalso. apply Hl. now left.
  - injection H as -> H. apply IH in H as [-> ->]; auto.
    + intros H0. apply Hl. now right.
    + intros H0. apply Hl'. now right.
Qed.

Theorem Lines_functional s a b : Lines s a -> Lines s b -> a = b.
Proof.
  intros Ha. revert b. induction Ha as [|l c Hne Hn Hc|l c rest ls Hn Hc Hr IH]; intros b Hb.
  - inversion Hb as [|l' c' Hne' Hn' Hc' E|l' c' rest' ls' Hn' Hc' Hr' E]; subst.
    + reflexivity.
    + congruence.
    + destruct l'; discriminate.
  - inversion Hb as [E|l' c' Hne' Hn' Hc' E|l' c' rest' ls' Hn' Hc' Hr' E]; subst.
    + congruence.
    + f_equal. eapply chomp_cr_functional; eauto.
    + exfalso. apply Hn. apply in_or_app. right. now left.
  - inversion Hb as [E|l' c' Hne' Hn' Hc' E|l' c' rest' ls' Hn' Hc' Hr' E]; subst.
    + destruct l; discriminate.
    + exfalso. apply Hn'. apply in_or_app. right. now left.
    + apply cut_unique in E as [-> ->]; auto.
      f_equal; [eapply chomp_cr_functional; eauto|auto].
Qed.

Theorem Lines_iff s ls : Lines s ls <-> split_nl s = ls.
Proof.
  split.
  - intros H. eapply Lines_functional; [apply split_nl_Lines|exact H].
  - intros <-. apply split_nl_Lines.
Qed.

(** bufio.ScanLines and the splitter without a limit *)
Lemma finish_line_short cur :
  match finish_line cur with TooLong => False | Line _ => True end -> finish_line cur = Line (finish_nl cur).
Proof.
  unfold finish_line, finish_nl. destruct (max_token <=? N.of_nat (length cur)); [intros []|].
  intros _. destruct cur as [|c r]; [reflexivity|]. destruct (Byte.eqb c x_cr); reflexivity.
Qed.

Lemma split_lines_acc_short s : forall cur,
  Forall (fun t => match t with TooLong => False | Line _ => True end) (split_lines_acc s cur) ->
  split_lines_acc s cur = map Line (split_nl_acc s cur).
Proof.
  induction s as [|c s IH]; intros cur H; cbn [split_lines_acc split_nl_acc] in *.
  - destruct cur as [|c r]; [reflexivity|]. inversion H as [|? ? H1 _]; subst.
    cbn [map]. now rewrite finish_line_short.
  - destruct (Byte.eqb c x_lf).
    + inversion H as [|? ? H1 H2]; subst. cbn [map]. rewrite finish_line_short by exact H1.
      f_equal. now apply IH.
    + now apply IH.
Qed.

Theorem split_lines_short s : lines_short s -> split_lines s = lines_nl s.
Proof. apply split_lines_acc_short. Qed.

(** ** 1. runes below U+0080 are single bytes *)
Lemma conts_lb k : forall lo hi t acc r, conts k lo hi t acc = Some r -> acc * 64 ^ N.of_nat k <= r.
Proof.
  induction k as [|k IH]; intros lo hi t acc r; cbn [conts].
  - intros [= <-]. change (64 ^ N.of_nat 0) with 1. lia.
  - destruct t as [|b t]; [discriminate|]. destruct (_ && _); [|discriminate].
    intros H. apply IH in H. rewrite Nat2N.inj_succ, N.pow_succ_r'.
    assert (acc * (64 * 64 ^ N.of_nat k) = acc * 64 * 64 ^ N.of_nat k) as -> by lia.
    eapply N.le_trans; [|exact H]. apply N.mul_le_mono_r. lia.
Qed.

Lemma conts_lb1 k lo hi t acc r : conts (S k) lo hi t acc = Some r -> 128 <= lo ->
  (acc * 64 + (lo - 128)) * 64 ^ N.of_nat k <= r.
Proof.
  cbn [conts]. destruct t as [|b t]; [discriminate|].
  destruct (N.leb_spec lo (bN b)) as [Hlo|]; [|discriminate]. destruct (bN b <=? hi); [|discriminate].
  cbn [andb]. intros H Hl. apply conts_lb in H.
  eapply N.le_trans; [|exact H]. apply N.mul_le_mono_r. lia.
Qed.

Lemma lead_multi_lb b sz lo hi pay : lead_of b = LMulti sz lo hi pay ->
  exists k, (sz - 1)%nat = S k /\ 128 <= lo /\ 128 <= (pay * 64 + (lo - 128)) * 64 ^ N.of_nat k.
Proof.
  unfold lead_of.
  repeat match goal with
         | |- context [if ?x <? ?y then _ else _] => destruct (N.ltb_spec x y)
         | |- context [if ?x =? ?y then _ else _] => destruct (N.eqb_spec x y)
         end;
    intros [= <- <- <- <-] || intros [=];
    (eexists; split; [reflexivity|]; split; [lia|]);
    match goal with |- context [64 ^ N.of_nat ?k] =>
      let v := eval vm_compute in (64 ^ N.of_nat k) in change (64 ^ N.of_nat k) with v end; lia.
Qed.

Lemma rune_below_128 p r w : p <> [] -> decode_rune p = (r, w) -> r < 128 ->
  exists b t, p = b :: t /\ bN b = r /\ w = 1%nat.
Proof.
  destruct p as [|b t]; [congruence|]. intros _. cbn [decode_rune].
  destruct (lead_of b) as [| |sz lo hi pay] eqn:E.
  - intros [= <- <-] _. eauto.
  - intros [= <- <-]. unfold rune_error. lia.
  - destruct (lead_multi_lb _ _ _ _ _ E) as (k & Hk & Hlo & Hb). rewrite Hk.
    destruct (conts (S k) lo hi t pay) as [r'|] eqn:Ec.
    + intros [= <- <-] Hr. apply conts_lb1 in Ec; [|exact Hlo]. lia.
    + intros [= <- <-]. unfold rune_error. lia.
Qed.

Lemma byte_58 b : bN b = 58 -> b = x3a.
Proof. intros H. apply to_N_inj. exact H. Qed.

(** the colon rune of a decoded string is the byte ':' *)
Lemma wf_colon_chunk a c R : wf (a ++ c :: R) -> fst c = 58 -> snd c = [x3a].
Proof.
  intros Hw Hc. apply wf_app_r in Hw. cbn [wf] in Hw. destruct Hw as (Hne & Hd & _).
  apply rune_below_128 in Hd as (b & t & E & Hb & Hl).
  - destruct (snd c) as [|b' [|b'' s]]; [congruence| |discriminate].
    cbn [app] in E. injection E as -> _. f_equal. apply byte_58. congruence.
  - destruct (snd c); [congruence|discriminate].
  - rewrite Hc. lia.
Qed.

Lemma wf_colon_in l c : wf l -> In c l -> fst c = 58 -> snd c = [x3a].
Proof.
  intros Hw Hin. apply in_split in Hin as (a & R & ->). now apply (wf_colon_chunk a c R).
Qed.

Lemma runes_colon_in s c : In c (runes s) -> fst c = 58 -> snd c = [x3a].
Proof. apply wf_colon_in. apply wf_runes. Qed.

(** ** 2. key/value lines *)
Lemma skipn_app_cons {A} (a : list A) x r : skipn (S (length a)) (a ++ x :: r) = r.
Proof. induction a as [|y a IH]; [reflexivity|exact IH]. Qed.

Lemma strip_blank_spec v : exists bl, v = bl ++ strip_blank v /\ Forall is_blank bl /\
  match strip_blank v with [] => True | b :: _ => ~ is_blank b end.
Proof.
  induction v as [|c v IH]; [exists []; repeat split; constructor|]. cbn [strip_blank].
  destruct (beqb_spec c x20) as [->|H1]; cbn [orb].
  - destruct IH as (bl & E & Hb & Hs). exists (x20 :: bl). cbn [app]. rewrite <- E.
    split; [reflexivity|]. split; [constructor; [now left|exact Hb]|exact Hs].
  - destruct (beqb_spec c x09) as [->|H2].
    + destruct IH as (bl & E & Hb & Hs). exists (x09 :: bl). cbn [app]. rewrite <- E.
      split; [reflexivity|]. split; [constructor; [now right|exact Hb]|exact Hs].
    + exists []. split; [reflexivity|]. split; [constructor|]. intros [|]; congruence.
Qed.

Lemma strip_blank_app bl v : Forall is_blank bl -> match v with [] => True | b :: _ => ~ is_blank b end ->
  strip_blank (bl ++ v) = v.
Proof.
  intros Hb Hv. induction Hb as [|c bl Hc _ IH]; cbn [app strip_blank].
  - destruct v as [|b v]; [reflexivity|]. cbn [strip_blank]. unfold is_blank in Hv.
    destruct (beqb_spec b x20); [tauto|]. destruct (beqb_spec b x09); [tauto|]. reflexivity.
  - destruct Hc as [->| ->]; cbn; exact IH.
Qed.

Section KV.
Variables is_space is_lower is_upper : N -> bool.
Notation key_chunks_ok := (key_chunks_ok is_space is_lower is_upper).
Notation KeyRunes := (KeyRunes is_space is_lower is_upper).
Notation KVLine := (KVLine is_space is_lower is_upper).
Notation parse_kv := (parse_kv is_space is_lower is_upper).
Notation kv_scan := (kv_scan is_space is_lower is_upper).

(** [key_chunks_ok] is the boolean form of [KeyRunes] *)
Lemma key_chunks_ok_false l : key_chunks_ok l false = true <->
  Forall (fun c : chunk => is_space (fst c) = false /\ is_upper (fst c) = false) l /\
  Forall (fun c : chunk => fst c <> 58) l.
Proof.
  induction l as [|[r b] l IH]; cbn [WriterLines.key_chunks_ok].
  - split; auto.
  - cbn [orb andb]. split.
    + intros H. apply andb_true_iff in H as [H H3]. apply andb_true_iff in H as [H1 H2].
      apply negb_true_iff, orb_false_iff in H1 as [Ha Hb]. apply negb_true_iff, N.eqb_neq in H2.
      apply IH in H3 as [H3 H4]. split; constructor; auto.
    + intros [Ha Hb]. inversion Ha as [|? ? [H1 H2] Ha']; inversion Hb as [|? ? H3 Hb']; subst.
      cbn [fst] in *. rewrite H1, H2. apply N.eqb_neq in H3. rewrite H3. cbn [orb negb andb].
      apply IH. split; assumption.
Qed.

Lemma key_chunks_ok_KeyRunes c0 l : key_chunks_ok (c0 :: l) true = true <-> KeyRunes (c0 :: l).
Proof.
  destruct c0 as [r b]. cbn [WriterLines.key_chunks_ok ReaderSpec.KeyRunes fst]. split.
  - intros H. apply andb_true_iff in H as [H H4]. apply andb_true_iff in H as [H _].
    apply andb_true_iff in H as [H1 H2]. apply negb_true_iff, orb_false_iff in H2 as [Ha Hb].
    apply key_chunks_ok_false in H4 as [H4 H5]. split; [exact H1|]. split; [constructor; auto|exact H5].
  - intros (H1 & H2 & H3). inversion H2 as [|? ? [Ha Hb] H2']; subst. cbn [fst] in *.
    rewrite H1, Ha, Hb. cbn [orb negb andb]. apply key_chunks_ok_false. split; assumption.
Qed.

Lemma key_chunks_ok_iff l : l <> [] -> (key_chunks_ok l true = true <-> KeyRunes l).
Proof. destruct l as [|c0 l]; [congruence|]. intros _. apply key_chunks_ok_KeyRunes. Qed.

(** soundness: needs nothing about the classes *)
Theorem parse_kv_sound line k v : parse_kv line = Some (k, v) -> KVLine line k v.
Proof.
  unfold Reader.parse_kv. destruct (kv_scan (runes line) 0) as [i|] eqn:Es; [|discriminate].
  destruct (kv_scan_inv _ _ _ _ (runes_chunks_nonempty line) _ _ Es) as (a & c & R & El & Hc & -> & Hk & Ha).
  rewrite Nat.add_0_r. pose proof (wf_runes line) as Hw. rewrite El in Hw.
  pose proof (wf_colon_chunk _ _ _ Hw Hc) as Hsc.
  pose proof (flat_runes line) as Hfl. rewrite El, flat_app, flat_cons, Hsc in Hfl. cbn [app] in Hfl.
  assert (Hwa : wf a) by (eapply wf_app_l; eauto).
  assert (Hkey : KeyRunes (runes (flat a))).
  { rewrite runes_wf by exact Hwa. destruct a as [|c0 a]; [exfalso; now apply Ha|].
    apply key_chunks_ok_KeyRunes. exact Hk. }
  rewrite <- Hfl. rewrite firstn_app_exact, skipn_app_cons.
  destruct (is_nil (flat R)) eqn:En.
  - intros [= <- <-]. exists (flat R). split; [reflexivity|]. split; [exact Hkey|].
    left. destruct (flat R); [auto|discriminate].
  - destruct (length (strip_blank (flat R)) <? length (flat R))%nat eqn:El2; [|discriminate].
    intros [= <- <-]. apply Nat.ltb_lt in El2.
    exists (flat R). split; [reflexivity|]. split; [exact Hkey|]. right.
    destruct (strip_blank_spec (flat R)) as (bl & E & Hb & Hs).
    exists bl. split; [|split; [exact Hb|split; [exact E|exact Hs]]].
    intros ->. cbn [app] in E. rewrite <- E in El2. lia.
Qed.

(** ':' is neither white space nor upper case *)
Hypothesis Hcolon : is_space 58 = false /\ is_upper 58 = false.

Theorem parse_kv_complete line k v : KVLine line k v -> parse_kv line = Some (k, v).
Proof.
  intros (rest & -> & Hk & Hv). unfold Reader.parse_kv.
  rewrite runes_app_ascii by reflexivity. change (bN x3a) with 58.
  assert (Hne : runes k <> []) by (intros E; rewrite E in Hk; exact Hk).
  assert (Hk' : key_chunks_ok (runes k) true = true) by (apply key_chunks_ok_iff; assumption).
  rewrite (kv_scan_key is_space is_lower is_upper Hcolon (runes rest) (runes k) 0%nat Hk'
             (runes_chunks_nonempty k)) by (intros E; congruence).
  rewrite flat_runes, Nat.add_0_r, firstn_app_exact, skipn_app_cons.
  destruct Hv as [[-> ->]|(bl & Hbn & Hbl & -> & Hst)]; [reflexivity|].
  assert (En : is_nil (bl ++ v) = false) by (destruct bl; [congruence|reflexivity]).
  rewrite En, strip_blank_app by assumption.
  replace (length v <? length (bl ++ v))%nat with true; [reflexivity|].
  symmetry. apply Nat.ltb_lt. rewrite app_length. destruct bl; [congruence|cbn [length]; lia].
Qed.

Theorem parse_kv_iff line k v : parse_kv line = Some (k, v) <-> KVLine line k v.
Proof. split; [apply parse_kv_sound|apply parse_kv_complete]. Qed.

Corollary parse_kv_none_iff line : parse_kv line = None <-> forall k v, ~ KVLine line k v.
Proof.
  split.
  - intros H k v Hkv. apply parse_kv_complete in Hkv. congruence.
  - intros H. destruct (parse_kv line) as [[k v]|] eqn:E; [|reflexivity].
    exfalso. apply (H k v). now apply parse_kv_sound.
Qed.

Corollary KVLine_functional line k v k' v' : KVLine line k v -> KVLine line k' v' -> k = k' /\ v = v'.
Proof.
  intros H H'. apply parse_kv_complete in H, H'. rewrite H in H'. injection H' as -> ->. auto.
Qed.

End KV.

Example hcolon_go : go_is_space 58 = false /\ go_is_upper 58 = false.
Proof. vm_compute; auto. Qed.

(** the instance for Go's classes *)
Corollary parse_kv_iff_go line k v :
  parse_kv go_is_space go_is_lower go_is_upper line = Some (k, v) <->
  KVLine go_is_space go_is_lower go_is_upper line k v.
Proof. apply parse_kv_iff. exact hcolon_go. Qed.
