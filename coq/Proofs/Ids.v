(** Proofs about Model/Ids.v: IDs are never reused; under a non-decreasing
    clock allocation never fails and IDs increase; concurrent allocators never
    end up with the same ID, for every interleaving. *)
From Coq Require Import Permutation.
From Perf Require Import Base.Bytes Model.StoreFmt Model.Ids.

Lemma uid_eqb_eq a b : uid_eqb a b = true <-> a = b.
Proof.
  destruct a as [d s], b as [d' s']. unfold uid_eqb. cbn [fst snd].
  rewrite andb_true_iff, !N.eqb_eq. split; [intros [-> ->]; reflexivity | intros [= -> ->]; auto].
Qed.

Lemma mem_In u t : mem u t = true <-> In u t.
Proof.
  unfold mem. rewrite existsb_exists. split.
  - intros [x [Hx E]]. apply uid_eqb_eq in E. subst. exact Hx.
  - intros H. exists u. split; [exact H | apply uid_eqb_eq; reflexivity].
Qed.

Lemma insert_spec u t t' : insert u t = Some t' -> ~ In u t /\ t' = t ++ [u].
Proof.
  unfold insert. destruct (mem u t) eqn:E; [discriminate|]. intros [= <-]. split; [|reflexivity].
  intros H. apply mem_In in H. congruence.
Qed.

Lemma NoDup_app_snoc {A} (t : list A) u : NoDup t -> ~ In u t -> NoDup (t ++ [u]).
Proof.
  intros H Hn. apply (Permutation_NoDup (l := u :: t)).
  - apply Permutation_cons_append.
  - constructor; assumption.
Qed.

(** a successful allocation returns an ID that was not in the table and only adds that row *)
Theorem alloc_fresh day t u t' : alloc day t = Some (u, t') -> ~ In u t /\ t' = t ++ [u].
Proof.
  unfold alloc. destruct (insert _ t) as [t1|] eqn:E; [|discriminate].
  intros [= <- <-]. apply insert_spec. exact E.
Qed.

Definition successes (r : list (option uid)) : list uid :=
  flat_map (fun o => match o with Some u => [u] | None => [] end) r.

(** over any sequence of allocations at any clock readings (also a clock that
    steps back): rows are only added, the successful IDs are exactly the added
    rows, and no ID ever occurs twice *)
Theorem ids_never_reused days : forall t,
  let '(res, t') := alloc_seq days t in
  t' = t ++ successes res /\ (NoDup t -> NoDup t').
Proof.
  induction days as [|d ds IH]; intros t; cbn [alloc_seq].
  - cbn. rewrite app_nil_r. auto.
  - destruct (alloc d t) as [[u t1]|] eqn:E.
    + apply alloc_fresh in E as [Hn ->]. specialize (IH (t ++ [u])).
      destruct (alloc_seq ds (t ++ [u])) as [r t2]. destruct IH as [-> Hnd].
      cbn [successes flat_map app]. split; [rewrite <- app_assoc; reflexivity|].
      intros H. apply Hnd. apply NoDup_app_snoc; assumption.
    + specialize (IH t). destruct (alloc_seq ds t) as [r t2]. destruct IH as [-> Hnd].
      cbn [successes flat_map app]. auto.
Qed.

(** ** increasing IDs under a non-decreasing clock *)

Definition uid_lt (a b : uid) : Prop := uid_ltb a b = true.

Lemma uid_ltb_spec a b :
  uid_ltb a b = true <-> (fst a < fst b \/ (fst a = fst b /\ snd a < snd b))%N.
Proof.
  unfold uid_ltb. rewrite orb_true_iff, andb_true_iff, !N.ltb_lt, N.eqb_eq. reflexivity.
Qed.

Lemma uid_lt_irrefl a : ~ uid_lt a a.
Proof. unfold uid_lt. rewrite uid_ltb_spec. lia. Qed.

Lemma uid_lt_trans a b c : uid_lt a b -> uid_lt b c -> uid_lt a c.
Proof. unfold uid_lt. rewrite !uid_ltb_spec. lia. Qed.

Lemma uid_total a b : uid_lt a b \/ a = b \/ uid_lt b a.
Proof.
  unfold uid_lt. rewrite !uid_ltb_spec. destruct a as [d s], b as [d' s']. cbn [fst snd].
  destruct (N.lt_total d d') as [H|[H|H]]; [left; lia| |right; right; lia].
  destruct (N.lt_total s s') as [H2|[H2|H2]]; [left; lia | right; left; congruence | right; right; lia].
Qed.

(** the row the lastUpload statement returns is a maximum of the table *)
Lemma last_row_max t : 
  match last_row t with
  | None => t = []
  | Some m => In m t /\ forall v, In v t -> v = m \/ uid_lt v m
  end.
Proof.
  induction t as [|u t IH]; cbn [last_row]; [reflexivity|].
  destruct (last_row t) as [m|].
  - destruct IH as [Hin Hmax]. destruct (uid_ltb m u) eqn:E.
    + split; [left; reflexivity|]. intros v [<-|Hv]; [left; reflexivity|].
      right. destruct (Hmax v Hv) as [->|L]; [exact E | eapply uid_lt_trans; eassumption].
    + split; [right; exact Hin|]. intros v [<-|Hv]; [|apply Hmax; exact Hv].
      destruct (uid_total u m) as [L|[->|L]]; [right; exact L | left; reflexivity|].
      unfold uid_lt in L. congruence.
  - subst t. split; [left; reflexivity|]. intros v [<-|[]]. left; reflexivity.
Qed.

(** clock reading not before any recorded day *)
Definition days_le (day : N) (t : list uid) : Prop := forall v, In v t -> (fst v <= day)%N.

(** under a clock that has not gone back, allocation succeeds and the new ID is
    above every ID in the table (in Day, Seq order) *)
Theorem alloc_increases day t :
  days_le day t ->
  exists u, alloc day t = Some (u, t ++ [u]) /\ fst u = day /\ forall v, In v t -> uid_lt v u.
Proof.
  intros Hle. unfold alloc.
  set (u := next_id day (last_row t)).
  assert (Hu : fst u = day /\ forall v, In v t -> uid_lt v u).
  { subst u. pose proof (last_row_max t) as Hm. destruct (last_row t) as [[d s]|].
    - destruct Hm as [Hin Hmax]. cbn [next_id].
      pose proof (Hle _ Hin) as Hd. cbn [fst] in Hd.
      destruct (N.eqb_spec d day) as [->|Hne]; cbn [fst]; (split; [reflexivity|]); intros v Hv.
      + assert (L : uid_lt (day, s) (day, (s + 1)%N)) by (unfold uid_lt; rewrite uid_ltb_spec; cbn; lia).
        destruct (Hmax v Hv) as [->|L2]; [exact L | eapply uid_lt_trans; eassumption].
      + assert (L : uid_lt (d, s) (day, 1%N)) by (unfold uid_lt; rewrite uid_ltb_spec; cbn; lia).
        destruct (Hmax v Hv) as [->|L2]; [exact L | eapply uid_lt_trans; eassumption].
    - subst t. cbn. split; [reflexivity|]. intros v []. }
  destruct Hu as [Hd Hgt]. exists u. unfold insert.
  destruct (mem u t) eqn:E.
  - apply mem_In in E. exfalso. exact (uid_lt_irrefl u (Hgt u E)).
  - auto.
Qed.

Fixpoint nondecreasing (l : list N) : Prop :=
  match l with
  | a :: ((b :: _) as r) => (a <= b)%N /\ nondecreasing r
  | _ => True
  end.

Fixpoint increasing (l : list uid) : Prop :=
  match l with
  | a :: ((b :: _) as r) => uid_lt a b /\ increasing r
  | _ => True
  end.

(** a sequence of allocations under a non-decreasing clock: none fails, and
    the IDs increase in creation order and lie above everything older *)
Theorem ids_increase : forall days t,
  nondecreasing days ->
  (match days with d :: _ => days_le d t | [] => True end) ->
  let '(res, t') := alloc_seq days t in
  Forall (fun r => r <> None) res
  /\ increasing (successes res)
  /\ Forall (fun u => forall v, In v t -> uid_lt v u) (successes res).
Proof.
  induction days as [|d ds IH]; intros t Hnd Hle; cbn [alloc_seq].
  - cbn. auto.
  - destruct (alloc_increases d t Hle) as (u & Ea & Hd & Hgt). rewrite Ea.
    assert (Hnd' : nondecreasing ds) by (destruct ds; [exact I | apply Hnd]).
    assert (Hle' : match ds with d' :: _ => days_le d' (t ++ [u]) | [] => True end).
    { destruct ds as [|d' ds']; [exact I|]. destruct Hnd as [Hdd _].
      intros v Hv. apply in_app_or in Hv as [Hv|[<-|[]]]; [specialize (Hle v Hv); lia | lia]. }
    specialize (IH (t ++ [u]) Hnd' Hle').
    destruct (alloc_seq ds (t ++ [u])) as [res t2]. destruct IH as (Hall & Hinc & Habove).
    cbn [successes flat_map app]. split; [constructor; [discriminate | exact Hall]|].
    split.
    + change (increasing (u :: successes res)).
      destruct (successes res) as [|w r] eqn:Es; [exact I|]. split; [|exact Hinc].
      inversion Habove as [|? ? Hw _]; subst. apply Hw. apply in_or_app. right. left. reflexivity.
    + constructor; [exact Hgt|].
      eapply Forall_impl; [|exact Habove]. intros w Hw v Hv. apply Hw. apply in_or_app. left. exact Hv.
Qed.

(** ** concurrent allocators, every interleaving *)

Definition contrib (a : astate) : list uid := match a with ADone u => [u] | _ => [] end.

Lemma done_ids_app l1 l2 :
  done_ids (mkC [] (l1 ++ l2)) = done_ids (mkC [] l1) ++ done_ids (mkC [] l2).
Proof. unfold done_ids. cbn [c_threads]. apply flat_map_app. Qed.

Lemma set_nth_split {A} (l : list A) : forall i a b,
  nth_error l i = Some a ->
  exists l1 l2, l = l1 ++ a :: l2 /\ set_nth i b l = l1 ++ b :: l2.
Proof.
  induction l as [|y l IH]; intros [|i] a b H; cbn in H; try discriminate.
  - inversion H; subst. exists [], l. split; reflexivity.
  - destruct (IH i a b H) as (l1 & l2 & -> & E). exists (y :: l1), l2. cbn. rewrite E. split; reflexivity.
Qed.

Definition dids (th : list astate) : list uid := flat_map contrib th.

Lemma done_ids_dids s : done_ids s = dids (c_threads s).
Proof. reflexivity. Qed.

(** invariant: table without duplicates containing the initial table; the
    finished allocators hold distinct IDs, all in the table and none initial *)
Record inv (t0 : list uid) (s : cstate) : Prop := mkInv {
  inv_nodup : NoDup (c_table s);
  inv_ext : forall u, In u t0 -> In u (c_table s);
  inv_done_nodup : NoDup (dids (c_threads s));
  inv_done_in : forall u, In u (dids (c_threads s)) -> In u (c_table s) /\ ~ In u t0 }.

Lemma cstep_inv t0 day s i : inv t0 s -> inv t0 (cstep day s i).
Proof.
  intros [Hnd Hext Hdn Hdi]. unfold cstep.
  destruct (nth_error (c_threads s) i) as [a|] eqn:En; [|constructor; assumption].
  destruct a as [|u|u|]; try (constructor; assumption).
  - (* read *)
    destruct (set_nth_split _ _ _ (ARead (next_id day (last_row (c_table s)))) En) as (l1 & l2 & E & ->).
    rewrite E in *. unfold dids in *. rewrite flat_map_app in *. cbn [flat_map contrib app] in *.
    constructor; cbn [c_table c_threads]; unfold dids; try assumption;
      rewrite ?flat_map_app; cbn [flat_map contrib app]; assumption.
  - (* insert *)
    destruct (insert u (c_table s)) as [t'|] eqn:Ei.
    + apply insert_spec in Ei as [Hn ->].
      destruct (set_nth_split _ _ _ (ADone u) En) as (l1 & l2 & E & ->).
      rewrite E in *. unfold dids in *. rewrite flat_map_app in *. cbn [flat_map contrib app] in *.
      constructor; cbn [c_table c_threads]; unfold dids; rewrite ?flat_map_app; cbn [flat_map contrib app].
      * apply NoDup_app_snoc; assumption.
      * intros v Hv. apply in_or_app. left. apply Hext. exact Hv.
      * apply (Permutation_NoDup (l := u :: flat_map contrib l1 ++ flat_map contrib l2)).
        { apply Permutation_middle. }
        constructor; [|exact Hdn]. intros Hin. apply Hn. apply (Hdi u Hin).
      * intros v Hv. apply in_app_or in Hv as [Hv|[<-|Hv]].
        -- destruct (Hdi v) as [H1 H2]; [apply in_or_app; left; exact Hv|]. split; [apply in_or_app; left; exact H1 | exact H2].
        -- split; [apply in_or_app; right; left; reflexivity|]. intros H0. apply Hn. apply Hext. exact H0.
        -- destruct (Hdi v) as [H1 H2]; [apply in_or_app; right; exact Hv|]. split; [apply in_or_app; left; exact H1 | exact H2].
    + destruct (set_nth_split _ _ _ AFailed En) as (l1 & l2 & E & ->).
      rewrite E in *. unfold dids in *. rewrite flat_map_app in *. cbn [flat_map contrib app] in *.
      constructor; cbn [c_table c_threads]; unfold dids; try assumption;
        rewrite ?flat_map_app; cbn [flat_map contrib app]; assumption.
Qed.

Lemma run_schedule_inv t0 sched : forall s, inv t0 s -> inv t0 (run_schedule sched s).
Proof.
  unfold run_schedule. induction sched as [|e sched IH]; intros s H; cbn [fold_left]; [exact H|].
  apply IH. apply cstep_inv. exact H.
Qed.

(** k allocators started on a duplicate-free table, moved by ANY schedule with
    ANY clock readings: the ones that finish hold pairwise distinct IDs, all
    new, and the table never holds an ID twice *)
Theorem concurrent_ids_distinct t0 k sched :
  NoDup t0 ->
  let s := run_schedule sched (mkC t0 (repeat AStart k)) in
  NoDup (done_ids s) /\ NoDup (c_table s)
  /\ (forall u, In u (done_ids s) -> In u (c_table s) /\ ~ In u t0)
  /\ (forall u, In u t0 -> In u (c_table s)).
Proof.
  intros Hnd. cbv zeta.
  assert (H0 : inv t0 (mkC t0 (repeat AStart k))).
  { assert (E : dids (repeat AStart k) = []) by (induction k; cbn; auto).
    constructor; cbn [c_table c_threads]; rewrite ?E.
    - exact Hnd.
    - auto.
    - constructor.
    - intros w Hw. destruct Hw. }
  destruct (run_schedule_inv t0 sched _ H0) as [A B C D].
  rewrite done_ids_dids. auto.
Qed.

(** the text of an ID has the form digits '.' digits *)
Lemma digit_byte m : (m < 10)%N -> exists b, Byte.of_N (48 + m) = Some b /\ is_digit b = true.
Proof.
  intros H.
  assert (C : (m = 0 \/ m = 1 \/ m = 2 \/ m = 3 \/ m = 4 \/ m = 5 \/ m = 6 \/ m = 7 \/ m = 8 \/ m = 9)%N) by lia.
  repeat (destruct C as [->|C]; [eexists; split; reflexivity|]). subst. eexists; split; reflexivity.
Qed.

Lemma dec_aux_digits fuel : forall n acc,
  forallb is_digit acc = true -> forallb is_digit (dec_aux fuel n acc) = true.
Proof.
  induction fuel as [|f IH]; intros n acc H; cbn [dec_aux]; [exact H|].
  destruct (digit_byte (n mod 10)) as (b & E & D); [apply N.mod_lt; discriminate|].
  rewrite E. destruct (n <? 10)%N.
  - cbn [forallb]. rewrite D, H. reflexivity.
  - apply IH. cbn [forallb]. rewrite D, H. reflexivity.
Qed.

Lemma dec_aux_nonempty fuel : forall n acc, acc <> [] \/ fuel <> O -> dec_aux fuel n acc <> [].
Proof.
  induction fuel as [|f IH]; intros n acc H; cbn [dec_aux].
  - destruct H as [H|H]; [exact H | congruence].
  - destruct (n <? 10)%N; [discriminate|]. apply IH. left. discriminate.
Qed.

(** the text of an ID: decimal digits, a dot, decimal digits ("YYYYMMDD.N") *)
Theorem id_form u :
  exists d s, id_text u = d ++ [x2e] ++ s
    /\ d <> [] /\ s <> [] /\ forallb is_digit d = true /\ forallb is_digit s = true.
Proof.
  exists (dec (fst u)), (dec (snd u)). unfold id_text, dec. repeat split.
  - apply dec_aux_nonempty. right. discriminate.
  - apply dec_aux_nonempty. right. discriminate.
  - apply dec_aux_digits. reflexivity.
  - apply dec_aux_digits. reflexivity.
Qed.
