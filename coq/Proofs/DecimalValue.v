(** The real number a decimal denotes, and the shifts as exact scalings by
    powers of two up to what the 800-digit buffer drops:
        Vr a' + lost = Vr a * 2^(+-k),   0 <= lost < 10^(dp' - 800),
    [lost] being exactly the dropped digits, non-zero iff [trunc] gets set. *)
From Coq Require Import ZArith Reals Lia Lra List Bool.
From Flocq Require Import Core.Core.
From Perf Require Import Base.Bytes Model.Decimal Proofs.DecimalBase Proofs.DecimalShift Proofs.RnB64.
Import ListNotations.
Local Open Scope Z_scope.

Definition Vr (a : decimal) : R := (IZR (dv (dc_d a)) * bpow radix10 (dc_dp a - zlen (dc_d a)))%R.
Definition trimmed (a : decimal) : Prop := last (dc_d a) 0 <> 0.

Lemma IZR_pow10 n : 0 <= n -> IZR (10 ^ n) = bpow radix10 n.
Proof. intros H. change 10 with (radix_val radix10). now apply IZR_Zpower. Qed.

Lemma IZR_pow2 n : 0 <= n -> IZR (2 ^ n) = bpow radix2 n.
Proof. intros H. change 2 with (radix_val radix2). now apply IZR_Zpower. Qed.

(** ** trim keeps the number *)
Lemma trim_keeps out dp ng tr :
  digits_ok out -> zlen out <= 800 -> (exists c r, out = c :: r /\ c <> 0) ->
  let b := mkDecimal out dp ng tr in
  wf (trim b) /\ trimmed (trim b) /\ Vr (trim b) = Vr b /\ dc_dp (trim b) = dp /\
  dc_neg (trim b) = ng /\ dc_trunc (trim b) = tr.
Proof.
  intros Hd Hn (c & r & E & Hc) b.
  destruct (trim_zeros_spec out) as (z & Ez & Hlast).
  destruct (trim_zeros_hd out c r E Hc) as (r' & Et).
  unfold trim, b. cbn [dc_d dc_dp dc_neg dc_trunc]. rewrite Et in *.
  split; [|split; [|split; [|repeat split]]].
  - unfold wf. cbn [dc_d]. split.
    { rewrite <- Et. now apply digits_ok_trim. }
    split; [|now exists c, r'].
    rewrite <- Et. pose proof (trim_zeros_len out). lia.
  - unfold trimmed. cbn [dc_d]. destruct Hlast as [|]; [discriminate|assumption].
  - unfold Vr. cbn [dc_d dc_dp].
    assert (Hv : dv out = dv (c :: r') * 10 ^ Z.of_nat z) by (rewrite Ez at 1; apply dv_repeat0).
    assert (Hl : zlen out = zlen (c :: r') + Z.of_nat z).
    { rewrite Ez at 1. rewrite zlen_app. f_equal. unfold zlen. now rewrite repeat_length. }
    rewrite Hv, Hl, mult_IZR, IZR_pow10 by lia.
    replace (dp - zlen (c :: r')) with (Z.of_nat z + (dp - (zlen (c :: r') + Z.of_nat z))) by lia.
    rewrite bpow_plus. ring.
Qed.

(** ** the magnitude of a well-formed decimal is given by dp *)
Lemma wf_Vr_bounds a : wf a ->
  (bpow radix10 (dc_dp a - 1) <= Vr a < bpow radix10 (dc_dp a))%R.
Proof.
  intros (Hd & Hn & c & r & E & Hc). unfold Vr.
  pose proof (dv_bound (dc_d a) Hd) as Hb.
  assert (Hl : 10 ^ (zlen (dc_d a) - 1) <= dv (dc_d a)).
  { rewrite E, zlen_cons. replace (zlen r + 1 - 1) with (zlen r) by lia. apply dv_lower; [now rewrite <- E|assumption]. }
  assert (Hnd : 0 < zlen (dc_d a)) by (rewrite E, zlen_cons; pose proof (zlen_nonneg r); lia).
  set (nd := zlen (dc_d a)) in *. set (D := dv (dc_d a)) in *.
  pose proof (bpow_gt_0 radix10 (dc_dp a - nd)) as Hp.
  split.
  - replace (dc_dp a - 1) with ((nd - 1) + (dc_dp a - nd)) by lia. rewrite bpow_plus.
    apply Rmult_le_compat_r; [lra|]. rewrite <- IZR_pow10 by lia. now apply IZR_le.
  - replace (dc_dp a) with (nd + (dc_dp a - nd)) at 2 by lia. rewrite bpow_plus.
    apply Rmult_lt_compat_r; [lra|]. rewrite <- IZR_pow10 by lia. apply IZR_lt. lia.
Qed.

Lemma wf_Vr_pos a : wf a -> (0 < Vr a)%R.
Proof. intros H. pose proof (wf_Vr_bounds a H). pose proof (bpow_gt_0 radix10 (dc_dp a - 1)). lra. Qed.

(** ** the shifts, in real numbers *)
Definition shifted (a a' : decimal) (s lost : R) : Prop :=
  wf a' /\ trimmed a' /\ dc_neg a' = dc_neg a /\
  (Vr a' + lost = Vr a * s)%R /\ (0 <= lost < bpow radix10 (dc_dp a' - 800))%R /\
  (lost = 0%R -> dc_trunc a' = dc_trunc a) /\ (lost <> 0%R -> dc_trunc a' = true).

Lemma lost_facts dr e tr : digits_ok dr ->
  let lost := (IZR (dv dr) * bpow radix10 e)%R in
  (0 <= lost < bpow radix10 (e + zlen dr))%R /\
  (lost = 0%R -> tr || (0 <? dv dr) = tr) /\ (lost <> 0%R -> tr || (0 <? dv dr) = true).
Proof.
  intros Hdr lost. pose proof (dv_bound dr Hdr) as Hb. pose proof (bpow_gt_0 radix10 e) as Hp.
  pose proof (zlen_nonneg dr).
  assert (H0 : (0 <= IZR (dv dr))%R) by (apply IZR_le; lia).
  assert (H1 : (IZR (dv dr) < bpow radix10 (zlen dr))%R) by (rewrite <- IZR_pow10 by lia; apply IZR_lt; lia).
  unfold lost. split; [split|split].
  - apply Rmult_le_pos; lra.
  - rewrite (Z.add_comm e), bpow_plus. apply Rmult_lt_compat_r; lra.
  - intros E. destruct (Z.ltb_spec 0 (dv dr)) as [Hlt|]; [|apply orb_false_r].
    apply IZR_lt in Hlt. exfalso. apply Rmult_integral in E. destruct E; lra.
  - intros E. destruct (Z.ltb_spec 0 (dv dr)) as [|Hge]; [apply orb_true_r|].
    exfalso. apply E. assert (dv dr = 0) by lia. rewrite H2. lra.
Qed.

Theorem rightShift_real a k : wf a -> 0 <= k <= 60 ->
  exists a' lost, rightShift a k = Some a' /\ shifted a a' (bpow radix2 (- k)) lost.
Proof.
  intros Hwf Hk.
  destruct (rightShift_int a k Hwf Hk) as (out & dp' & tr' & dr & s & E & Hout & Hlen & Hhd & Hdr & Hs & Hv & Hdp & Htr & Hfull).
  destruct (trim_keeps out dp' (dc_neg a) tr' Hout ltac:(lia) Hhd) as (Hwf' & Htrim & HVr & Hdp' & Hneg & Htrunc).
  set (g := dp' - zlen out - zlen dr).
  exists (trim (mkDecimal out dp' (dc_neg a) tr')), (IZR (dv dr) * bpow radix10 g)%R.
  split; [exact E|]. unfold shifted. rewrite HVr, Hdp', Hneg, Htrunc.
  split; [assumption|]. split; [assumption|]. split; [reflexivity|].
  pose proof (zlen_nonneg dr) as Hzd.
  destruct (lost_facts dr g (dc_trunc a) Hdr) as (Hlb & Hl0 & Hl1).
  split; [|split; [|rewrite Htr; split; assumption]].
  - unfold Vr. cbn [dc_d dc_dp].
    replace (dp' - zlen out) with (zlen dr + g) by (unfold g; lia). rewrite bpow_plus, <- IZR_pow10 by lia.
    apply (f_equal IZR) in Hv. rewrite !mult_IZR, plus_IZR, mult_IZR, IZR_pow2, (IZR_pow10 s) in Hv by lia.
    rewrite IZR_pow10 in Hv |- * by lia.
    replace g with ((dc_dp a - zlen (dc_d a)) + - s + 1) by (unfold g; lia).
    rewrite !bpow_plus, !bpow_opp. change (bpow radix10 1) with 10%R.
    pose proof (bpow_gt_0 radix10 s). pose proof (bpow_gt_0 radix2 k).
    set (X := bpow radix10 (dc_dp a - zlen (dc_d a))) in *.
    set (A := IZR (dv out)) in *. set (Bd := IZR (dv dr)) in *. set (T := bpow radix10 (zlen dr)) in *.
    set (S := bpow radix10 s) in *. set (P := bpow radix2 k) in *. set (D := IZR (dv (dc_d a))) in *.
    assert (HA : ((A * T + Bd) = D * S / (10 * P))%R) by (field_simplify_eq; [lra|lra]).
    transitivity ((A * T + Bd) * (X * / S * 10))%R; [ring|]. rewrite HA. field. lra.
  - split; [apply Hlb|]. destruct dr as [|x dr'].
    + rewrite dv_nil. rewrite Rmult_0_l. apply bpow_gt_0.
    + specialize (Hfull ltac:(discriminate)). replace (dp' - 800) with (g + zlen (x :: dr')) by (unfold g; lia). apply Hlb.
Qed.

Theorem leftShift_real a k : wf a -> 0 <= k <= 60 ->
  exists a' lost, leftShift a k = Some a' /\ shifted a a' (bpow radix2 k) lost.
Proof.
  intros Hwf Hk.
  destruct (leftShift_int a k Hwf Hk) as (out & delta & tr' & dr & E & Hout & Hlen & Hhd & Hdr & Hv & Hl & Hd0 & Htr & Hfull).
  destruct (trim_keeps out (dc_dp a + delta) (dc_neg a) tr' Hout ltac:(lia) Hhd) as (Hwf' & Htrim & HVr & Hdp' & Hneg & Htrunc).
  set (g := dc_dp a - zlen (dc_d a)).
  exists (trim (mkDecimal out (dc_dp a + delta) (dc_neg a) tr')), (IZR (dv dr) * bpow radix10 g)%R.
  split; [exact E|]. unfold shifted. rewrite HVr, Hdp', Hneg, Htrunc.
  split; [assumption|]. split; [assumption|]. split; [reflexivity|].
  pose proof (zlen_nonneg dr) as Hzd.
  destruct (lost_facts dr g (dc_trunc a) Hdr) as (Hlb & Hl0 & Hl1).
  split; [|split; [|rewrite Htr; split; assumption]].
  - unfold Vr. cbn [dc_d dc_dp].
    replace (dc_dp a + delta - zlen out) with (zlen dr + g) by (unfold g; lia). rewrite bpow_plus, <- IZR_pow10 by lia.
    apply (f_equal IZR) in Hv. rewrite plus_IZR, !mult_IZR, IZR_pow2 in Hv by lia.
    fold g. transitivity ((IZR (dv out) * IZR (10 ^ zlen dr) + IZR (dv dr)) * bpow radix10 g)%R; [ring|rewrite Hv; ring].
  - split; [apply Hlb|]. destruct dr as [|x dr'].
    + rewrite dv_nil. rewrite Rmult_0_l. apply bpow_gt_0.
    + specialize (Hfull ltac:(discriminate)).
      replace (dc_dp a + delta - 800) with (g + zlen (x :: dr')) by (unfold g; lia). apply Hlb.
Qed.
