(** What the reader's scanners deliver, read backwards: from "the line was
    classified as X with these pieces" to facts about the pieces.  These are the
    converses of the per-line lemmas of Proofs/WriterLines.v (which go from a
    well-formed piece to its classification):

      - a key accepted by parseKeyValueLine satisfies [key_ok], its value is
        [val_ok], both fit in the line;
      - every field splitField delivers is a field ([field_ok]: non-empty, no
        white-space rune, and decoding it on its own gives the same runes), and
        the fields with one separator each fit in the line;
      - the name of a benchmark line has no white space, it has >= 1
        measurement and its units are fields;
      - the key=value items of a unit line split and recombine;
      - the tokens of bufio.ScanLines have no LF and are short. *)
From Perf Require Import Base.Bytes Base.B64 Base.Utf8 Base.Unicode Model.Name Model.Extract Model.Units
  Model.Reader Model.Files Model.Writer Proofs.Units Proofs.WriterLines Proofs.WriterClean.
Local Open Scope N_scope.

(** ** UTF-8: decoding is stable under cutting the input behind the sequence *)
Lemma conts_prefix_some k : forall lo hi t q acc r,
  conts k lo hi (t ++ q) acc = Some r -> (k <= length t)%nat -> conts k lo hi t acc = Some r.
Proof.
  induction k as [|k IH]; intros lo hi t q acc r H Hl; [exact H|].
  destruct t as [|b t]; [cbn in Hl; lia|]. cbn [app conts] in *.
  destruct (_ && _); [|discriminate]. eapply IH; eauto. cbn in Hl. lia.
Qed.

Lemma conts_prefix_none k : forall lo hi t q acc,
  conts k lo hi (t ++ q) acc = None -> conts k lo hi t acc = None.
Proof.
  induction k as [|k IH]; intros lo hi t q acc H; [discriminate|].
  destruct t as [|b t]; [reflexivity|]. cbn [app conts] in *.
  destruct (_ && _); [|reflexivity]. eapply IH; eauto.
Qed.

Lemma decode_prefix p q : (snd (decode_rune (p ++ q)) <= length p)%nat -> decode_rune p = decode_rune (p ++ q).
Proof.
  destruct p as [|b0 t]; [cbn; intros H; destruct q as [|c q]; [reflexivity|]|].
  { pose proof (decode_width (c :: q) ltac:(congruence)). cbn [app] in H. lia. }
  cbn [app decode_rune]. destruct (lead_of b0) as [| |sz lo hi pay] eqn:E; try reflexivity.
  destruct (conts (sz - 1) lo hi (t ++ q) pay) as [r|] eqn:Ec; cbn [snd length]; intros H.
  - rewrite (conts_prefix_some _ _ _ _ _ _ _ Ec) by lia. reflexivity.
  - rewrite (conts_prefix_none _ _ _ _ _ _ Ec). reflexivity.
Qed.

Lemma wf_app_l a b : wf (a ++ b) -> wf a.
Proof.
  induction a as [|c a IH]; [intros _; exact I|]. cbn [app wf]. intros (Hc & Hd & Hw).
  split; [exact Hc|]. split; [|auto].
  rewrite flat_app, app_assoc in Hd. rewrite <- Hd. apply decode_prefix.
  rewrite Hd. cbn [snd]. rewrite app_length. lia.
Qed.

Lemma wf_nonempty l : wf l -> Forall (fun c : chunk => snd c <> []) l.
Proof. induction l as [|c l IH]; [constructor|]. cbn [wf]. intros (H & _ & Hw). constructor; auto. Qed.

Lemma skipn_nth {A} (l : list A) : forall n x, nth_error l n = Some x -> skipn n l = x :: skipn (S n) l.
Proof.
  induction l as [|y l IH]; intros [|n] x H; cbn in *; try discriminate.
  - now injection H as ->.
  - now apply IH.
Qed.

Lemma nonempty_len {A} (l : list A) : l <> [] -> (1 <= length l)%nat.
Proof. destruct l; [congruence|cbn; lia]. Qed.

Lemma frev_length cur : length (frev cur) = length cur.
Proof. unfold frev. rewrite rev_append_rev, app_nil_r. apply rev_length. Qed.

Lemma frev_rev s : frev (rev s) = s.
Proof. unfold frev. rewrite rev_append_rev, app_nil_r. apply rev_involutive. Qed.

(** ** bufio.ScanLines: tokens have no LF and are under the limit *)
Definition tok_ok (t : ltok) : Prop :=
  match t with Line b => ~ In x0a b /\ N.of_nat (length b) < max_token | TooLong => True end.

Lemma finish_line_ok cur : ~ In x0a cur -> tok_ok (finish_line cur).
Proof.
  intros Hn. unfold finish_line. destruct (N.leb_spec max_token (N.of_nat (length cur))) as [|Hlt]; [exact I|].
  assert (Hin : forall s x, In x (frev s) -> In x s).
  { intros s x H. unfold frev in H. rewrite rev_append_rev, app_nil_r in H. now apply in_rev. }
  destruct cur as [|c r]; [split; [intros []|exact Hlt]|].
  destruct (Byte.eqb c x_cr).
  - split; [intros H; apply Hn; right; auto|]. rewrite frev_length. cbn [length] in Hlt. lia.
  - split; [intros H; apply Hn; auto|]. rewrite frev_length. exact Hlt.
Qed.

Lemma split_lines_acc_ok s : forall cur, ~ In x0a cur -> Forall tok_ok (split_lines_acc s cur).
Proof.
  induction s as [|c s IH]; intros cur Hn; cbn [split_lines_acc].
  - destruct cur; [constructor|]. constructor; [now apply finish_line_ok|constructor].
  - unfold x_lf. destruct (beqb_spec c x0a) as [->|Hc].
    + constructor; [now apply finish_line_ok|]. apply IH. intros [].
    + apply IH. intros [E|H]; [congruence|auto].
Qed.

Lemma split_lines_ok s : Forall tok_ok (split_lines s).
Proof. apply split_lines_acc_ok. intros []. Qed.

(** ** key=value items of a unit line *)
Lemma parse_unit_field_inv f k v : parse_unit_field f = UFKV k v ->
  f = k ++ x3d :: v /\ k <> [] /\ ~ In x3d k.
Proof.
  unfold parse_unit_field. destruct (index_byte f x3d) as [[|e]|] eqn:E; try discriminate.
  intros [= <- <-]. apply index_byte_some in E as [Hn Hnot].
  split; [|split; [|exact Hnot]].
  - rewrite <- (firstn_skipn (S e) f) at 1. f_equal. exact (skipn_nth _ _ _ Hn).
  - destruct f as [|b f]; [destruct e; discriminate|]. discriminate.
Qed.

(** ** strip of blanks and tabs *)
Lemma strip_blank_suffix v : exists p, v = p ++ strip_blank v.
Proof.
  induction v as [|c v IH]; [exists []; reflexivity|]. cbn [strip_blank].
  destruct (Byte.eqb c x20 || Byte.eqb c x09).
  - destruct IH as [p Hp]. exists (c :: p). cbn. now rewrite <- Hp.
  - exists []. reflexivity.
Qed.

Lemma strip_blank_val_ok v : strip_blank v <> [] -> val_ok (strip_blank v).
Proof.
  induction v as [|c v IH]; [intros H; exfalso; now apply H|]. cbn [strip_blank].
  destruct (beqb_spec c x20) as [|H1]; cbn [orb]; [exact IH|].
  destruct (beqb_spec c x09) as [|H2]; [exact IH|]. intros _. split; assumption.
Qed.

(** fields with one separator byte each *)
Definition fsum (fs : list bytes) : nat := fold_right (fun f a => (S (length f) + a)%nat) 0%nat fs.

Lemma fsum_in f fs : In f fs -> (S (length f) <= fsum fs)%nat.
Proof.
  induction fs as [|g fs IH]; [intros []|]. cbn [fsum fold_right]. intros [->|H]; [lia|].
  apply IH in H. unfold fsum in H. lia.
Qed.

Section Fields.
Variables is_space is_lower is_upper : N -> bool.
Variable atoi : bytes -> option Z.
Variable parse_float : bytes -> option b64.
Notation fspace := (fspace is_space).
Notation nsp := (nsp is_space).
Notation field_ok := (field_ok is_space).
Notation starts_sp := (starts_sp is_space).
Notation key_ok := (key_ok is_space is_lower is_upper).
Notation classify := (classify is_space is_lower is_upper atoi parse_float).
Notation fields := (fields is_space).
Notation rv := (rv is_space).

(** ** splitField *)
Lemma take_field_inv l : forall f r, take_field is_space l = (f, r) -> l = f ++ r /\ nsp f /\ starts_sp r.
Proof.
  induction l as [|c l IH]; intros f r; cbn [take_field].
  - intros [= <- <-]. split; [reflexivity|]. split; [constructor|now left].
  - destruct (fspace (fst c)) eqn:Ec.
    + intros [= <- <-]. split; [reflexivity|]. split; [constructor|]. right. eauto.
    + destruct (take_field is_space l) as [f' r'] eqn:E. intros [= <- <-].
      destruct (IH _ _ eq_refl) as (-> & Hn & Hs). split; [reflexivity|]. split; [constructor; auto|exact Hs].
Qed.

Lemma drop_space_suffix r : exists sp, r = sp ++ drop_space is_space r.
Proof.
  induction r as [|c r IH]; [exists []; reflexivity|]. cbn [drop_space].
  destruct (fspace (fst c)); [|exists []; reflexivity].
  destruct IH as [sp Hsp]. exists (c :: sp). cbn. now rewrite <- Hsp.
Qed.

Lemma flat_length_app a b : length (flat (a ++ b)) = (length (flat a) + length (flat b))%nat.
Proof. now rewrite flat_app, app_length. Qed.

(** behind a field and its separators: at least one byte shorter *)
Lemma drop_space_shorter r : starts_sp r -> Forall (fun c : chunk => snd c <> []) r -> drop_space is_space r <> [] ->
  (length (flat (drop_space is_space r)) + 1 <= length (flat r))%nat.
Proof.
  intros [->|(c & r' & -> & Hc)] Hne Hd; [exfalso; now apply Hd|].
  cbn [drop_space] in *. rewrite Hc in *. destruct (drop_space_suffix r') as [sp Hsp].
  rewrite flat_cons, app_length. rewrite Hsp at 2. rewrite flat_length_app.
  inversion Hne as [|? ? Hcn _]; subst.
  assert (1 <= length (snd c))%nat by (apply nonempty_len; exact Hcn). lia.
Qed.

Lemma field_of_seg seg : wf seg -> nsp seg -> seg <> [] -> field_ok (flat seg).
Proof.
  intros Hw Hn Hne. split; [|now rewrite runes_wf].
  destruct seg as [|c seg]; [congruence|]. cbn [wf] in Hw. destruct Hw as (Hc & _).
  rewrite flat_cons. destruct (snd c); [congruence|discriminate].
Qed.

Lemma fields_acc_ok l : forall seg cur inf,
  wf (seg ++ l) -> nsp seg -> cur = rev (flat seg) -> inf = negb (is_nil seg) ->
  Forall field_ok (fields_acc is_space l cur inf).
Proof.
  induction l as [|c l IH]; intros seg cur inf Hw Hn -> ->; cbn [fields_acc].
  - rewrite app_nil_r in Hw. destruct seg as [|s seg]; cbn [is_nil negb]; [constructor|].
    constructor; [|constructor]. rewrite frev_rev. apply field_of_seg; auto. discriminate.
  - destruct (fspace (fst c)) eqn:Ec.
    + assert (Hrest : Forall field_ok (fields_acc is_space l [] false)).
      { apply (IH [] [] false); auto; [|constructor].
        apply wf_app_r in Hw. cbn [wf] in Hw. cbn [app]. tauto. }
      destruct seg as [|s seg]; cbn [is_nil negb]; [exact Hrest|].
      constructor; [|exact Hrest]. rewrite frev_rev. apply field_of_seg; auto; [|discriminate].
      eapply wf_app_l; eauto.
    + apply (IH (seg ++ [c])).
      * now rewrite <- app_assoc.
      * apply Forall_app. split; [exact Hn|]. constructor; [exact Ec|constructor].
      * rewrite rev_append_rev, flat_app, rev_app_distr. unfold flat at 2. cbn [map concat]. now rewrite app_nil_r.
      * destruct seg; reflexivity.
Qed.

Lemma fields_ok l : wf l -> Forall field_ok (fields l).
Proof. intros H. apply (fields_acc_ok l [] [] false); auto. constructor. Qed.

Lemma fields_acc_sum l : Forall (fun c : chunk => snd c <> []) l -> forall cur inf,
  (fsum (fields_acc is_space l cur inf) <= length (flat l) + length cur + 1)%nat.
Proof.
  induction 1 as [|c l Hc _ IH]; intros cur inf; cbn [fields_acc].
  - destruct inf; cbn [fsum fold_right]; [rewrite frev_length|]; cbn; lia.
  - rewrite flat_cons, app_length.
    assert (1 <= length (snd c))%nat by (apply nonempty_len; exact Hc).
    destruct (fspace (fst c)).
    + specialize (IH [] false). cbn [length] in IH.
      destruct inf; [cbn [fsum fold_right]; rewrite frev_length; fold (fsum (fields_acc is_space l [] false))|]; lia.
    + rewrite rev_append_rev. specialize (IH (rev (snd c) ++ cur) true).
      rewrite app_length, rev_length in IH. lia.
Qed.

Lemma fields_sum l : Forall (fun c : chunk => snd c <> []) l -> (fsum (fields l) <= length (flat l) + 1)%nat.
Proof. intros H. pose proof (fields_acc_sum l H [] false). cbn [length] in *. unfold Reader.fields. lia. Qed.

(** ** parseBenchmarkLine *)
Lemma parse_vals_inv n : forall fs acc vals, (length fs <= n)%nat ->
  parse_vals is_space parse_float fs acc = inr vals ->
  exists ps, vals = acc ++ map rv ps /\ Forall (fun p => In (snd p) fs) ps /\ (ps <> [] \/ acc <> []).
Proof.
  induction n as [|n IH]; intros fs acc vals Hl.
  - destruct fs; [|cbn in Hl; lia]. cbn [parse_vals]. destruct acc as [|a acc]; cbn [is_nil]; [discriminate|].
    intros [= <-]. exists []. rewrite app_nil_r. split; [reflexivity|]. split; [constructor|right; discriminate].
  - destruct fs as [|f [|u fs]]; cbn [parse_vals].
    + destruct acc as [|a acc]; cbn [is_nil]; [discriminate|].
      intros [= <-]. exists []. rewrite app_nil_r. split; [reflexivity|]. split; [constructor|right; discriminate].
    + destruct (atof parse_float f); discriminate.
    + destruct (atof parse_float f) as [x|]; [|discriminate]. intros H.
      apply IH in H as (ps & -> & Hin & _); [|cbn [length] in Hl; lia].
      exists ((x, u) :: ps). split; [rewrite <- app_assoc; reflexivity|].
      split; [|left; discriminate]. constructor; [cbn; auto|].
      eapply Forall_impl; [|exact Hin]. cbn. intros p Hp. auto.
Qed.

Lemma written_rv' p : written (rv p) = p.
Proof.
  destruct p as [x u]. unfold WriterLines.rv, read_value. cbn [fst snd].
  destruct (tidy is_space x u) as [tv tu] eqn:E.
  destruct (beq tu u) eqn:Eb; unfold written; cbn [v_ounit v_val v_unit v_oval is_nil]; [reflexivity|].
  destruct u as [|c u]; [|reflexivity].
  exfalso. unfold tidy in E. cbn in E. injection E as _ <-. discriminate.
Qed.

Lemma parse_bench_inv line name iters vals :
  parse_bench is_space atoi parse_float line = BOk name iters vals ->
  nsp (runes name) /\ vals <> [] /\ Forall (fun p => field_ok (snd p)) (map written vals).
Proof.
  unfold parse_bench, split_field.
  destruct (take_field is_space (runes line)) as [f r] eqn:Et.
  destruct (take_field_inv _ _ _ Et) as (El & Hnf & Hsr).
  pose proof (wf_runes line) as Hw. rewrite El in Hw.
  destruct (_ && _); [discriminate|].
  destruct (drop_space_suffix r) as [sp Hsp].
  assert (Hwrest : wf (drop_space is_space r)).
  { apply wf_app_r in Hw. rewrite Hsp in Hw. now apply wf_app_r in Hw. }
  pose proof (fields_ok _ Hwrest) as Hfs.
  destruct (fields (drop_space is_space r)) as [|f0 fs]; [discriminate|].
  destruct (atoi f0); [|discriminate].
  destruct (parse_vals is_space parse_float fs []) as [k|vs] eqn:Ev; [discriminate|].
  intros [= <- _ <-].
  split; [rewrite runes_wf; [exact Hnf|eapply wf_app_l; eauto]|].
  apply (parse_vals_inv (length fs)) in Ev as (ps & -> & Hin & Hne); [|lia]. cbn [app].
  split; [destruct Hne as [Hne|Hne]; [|congruence]; destruct ps; [congruence|discriminate]|].
  rewrite map_map. rewrite (map_ext _ (fun p => p)) by apply written_rv'. rewrite map_id.
  inversion Hfs as [|? ? _ Hfs']; subst. rewrite Forall_forall in Hfs'.
  eapply Forall_impl; [|exact Hin]. cbn. intros p Hp. auto.
Qed.

(** ** parseKeyValueLine *)
Lemma kv_scan_inv l : Forall (fun c : chunk => snd c <> []) l -> forall i0 i,
  kv_scan is_space is_lower is_upper l i0 = Some i ->
  exists a c R, l = a ++ c :: R /\ fst c = 58 /\ i = (length (flat a) + i0)%nat /\
                key_chunks_ok is_space is_lower is_upper a (i0 =? 0)%nat = true /\ (a = [] -> i0 <> 0%nat).
Proof.
  induction 1 as [|[r b] l Hb _ IH]; intros i0 i; cbn [kv_scan]; [discriminate|]. cbn [snd] in Hb.
  destruct ((i0 =? 0)%nat && negb (is_lower r)) eqn:E1; [discriminate|].
  destruct (is_space r || is_upper r) eqn:E2; [discriminate|].
  destruct (negb (i0 =? 0)%nat && (r =? 58)) eqn:E3.
  - intros [= <-]. apply andb_true_iff in E3 as [E3 E4]. apply N.eqb_eq in E4.
    exists [], (r, b), l. split; [reflexivity|]. split; [exact E4|]. split; [reflexivity|].
    split; [reflexivity|]. intros _ ->. discriminate.
  - intros H. apply IH in H as (a & c & R & -> & Hc & -> & Hk & _).
    exists ((r, b) :: a), c, R. split; [reflexivity|]. split; [exact Hc|].
    split; [rewrite flat_cons, app_length; cbn [snd]; lia|]. split; [|discriminate].
    cbn [key_chunks_ok]. rewrite E2. cbn [negb].
    replace (length b + i0 =? 0)%nat with false in Hk by (symmetry; apply Nat.eqb_neq; destruct b; [congruence|cbn; lia]).
    rewrite Hk. destruct (i0 =? 0)%nat; cbn [andb negb orb] in *.
    + apply negb_false_iff in E1. now rewrite E1.
    + now rewrite E3.
Qed.

(** [Hlow]: 'B' and 'U' are not lower-case letters *)
Lemma parse_kv_inv (Hlow : is_lower 66 = false /\ is_lower 85 = false) line k v :
  parse_kv is_space is_lower is_upper line = Some (k, v) ->
  key_ok k /\ (length k + 1 <= length line)%nat /\
  (v <> [] -> val_ok v /\ (length k + 2 + length v <= length line)%nat /\ exists p, line = p ++ v).
Proof.
  unfold parse_kv. destruct (kv_scan is_space is_lower is_upper (runes line) 0) as [i|] eqn:Es; [|discriminate].
  destruct (kv_scan_inv _ (runes_chunks_nonempty line) _ _ Es) as (a & c & R & El & Hc & -> & Hk & Ha).
  rewrite Nat.add_0_r. pose proof (flat_runes line) as Hfl. rewrite El, flat_app, flat_cons in Hfl.
  pose proof (wf_runes line) as Hw. rewrite El in Hw.
  assert (Hwa : wf a) by (eapply wf_app_l; eauto).
  assert (Hcn : (1 <= length (snd c))%nat).
  { apply wf_app_r in Hw. cbn [wf] in Hw. destruct Hw as (Hx & _). apply nonempty_len; exact Hx. }
  assert (Hkey : firstn (length (flat a)) line = flat a) by (rewrite <- Hfl; apply firstn_app_exact).
  assert (Hlen : length line = (length (flat a) + length (snd c) + length (flat R))%nat)
    by (rewrite <- Hfl, !app_length; lia).
  assert (Hkok : key_ok (flat a)).
  { destruct a as [|[r b] a]; [exfalso; now apply Ha|].
    pose proof (runes_wf _ Hwa) as Hr. cbn [wf fst snd] in Hwa. destruct Hwa as (Hbn & Hd & _).
    rewrite flat_cons in *. cbn [snd] in *. destruct b as [|b0 b]; [congruence|]. cbn [app].
    pose proof Hk as Hk0. cbn [Nat.eqb key_chunks_ok] in Hk.
    assert (Hlr : is_lower r = true).
    { apply andb_true_iff in Hk as [Hk _]. apply andb_true_iff in Hk as [Hk _].
      apply andb_true_iff in Hk as [Hk _]. exact Hk. }
    assert (Hne : forall x, bN x < 128 -> is_lower (bN x) = false -> b0 <> x).
    { intros x Hx Hl ->. cbn [app] in Hd. rewrite decode_ascii in Hd by (unfold is_ascii; now apply N.ltb_lt).
      injection Hd as <- _. congruence. }
    split; [apply Hne; [reflexivity|apply Hlow]|]. split; [apply Hne; [reflexivity|apply Hlow]|].
    change (b0 :: b ++ flat a) with ((b0 :: b) ++ flat a). rewrite Hr. exact Hk0. }
  rewrite Hkey.
  destruct (is_nil (skipn (S (length (flat a))) line)) eqn:En.
  - intros [= <- <-]. split; [exact Hkok|]. split; [lia|congruence].
  - set (val := skipn (S (length (flat a))) line) in *.
    destruct (length (strip_blank val) <? length val)%nat eqn:El2; [|discriminate].
    intros [= <- <-]. apply Nat.ltb_lt in El2. split; [exact Hkok|]. split; [lia|]. intros Hv.
    split; [now apply strip_blank_val_ok|].
    assert (Hvl : length val = (length line - S (length (flat a)))%nat) by (unfold val; apply skipn_length).
    split; [lia|].
    destruct (strip_blank_suffix val) as [p Hp].
    exists (firstn (S (length (flat a))) line ++ p).
    rewrite <- app_assoc, <- Hp. unfold val. symmetry. apply firstn_skipn.
Qed.

(** ** classification, read backwards *)
Lemma classify_kv_inv line k v : classify line = LKV k v -> parse_kv is_space is_lower is_upper line = Some (k, v).
Proof.
  unfold Reader.classify. destruct (has_prefix line (bs "Benchmark")); [discriminate|].
  match goal with |- match ?U with _ => _ end = _ -> _ => destruct U end; [discriminate|].
  destruct (parse_kv is_space is_lower is_upper line) as [[k' v']|]; [|discriminate]. now intros [= -> ->].
Qed.

Lemma classify_bench_inv line o : classify line = LBench o ->
  o = parse_bench is_space atoi parse_float (skipn 9 line).
Proof.
  unfold Reader.classify. destruct (has_prefix line (bs "Benchmark")); [now intros [= <-]|].
  match goal with |- match ?U with _ => _ end = _ -> _ => destruct U end; [discriminate|].
  destruct (parse_kv is_space is_lower is_upper line) as [[k' v']|]; discriminate.
Qed.

(** a unit line: its items are fields, and with the separators they fit in
    the line behind "Unit " *)
Lemma classify_unit_inv line fs : classify line = LUnit fs -> fs <> [] ->
  Forall field_ok fs /\ (fsum fs + 4 <= length line)%nat.
Proof.
  unfold Reader.classify. destruct (has_prefix line (bs "Benchmark")); [discriminate|].
  destruct line as [|c0 line']; [destruct (parse_kv _ _ _ []) as [[? ?]|]; discriminate|].
  set (line := c0 :: line') in *.
  destruct (Byte.eqb c0 x55); [|destruct (parse_kv _ _ _ line) as [[? ?]|]; discriminate].
  unfold split_field. destruct (take_field is_space (runes line)) as [f r] eqn:Et.
  destruct (beq_spec (flat f) (bs "Unit")) as [Ef|]; [|destruct (parse_kv _ _ _ line) as [[? ?]|]; discriminate].
  intros [= <-] Hne.
  destruct (take_field_inv _ _ _ Et) as (El & Hnf & Hsr).
  pose proof (wf_runes line) as Hw. rewrite El in Hw.
  destruct (drop_space_suffix r) as [sp Hsp].
  assert (Hwr : wf r) by (eapply wf_app_r; eauto).
  assert (Hwrest : wf (drop_space is_space r)) by (rewrite Hsp in Hwr; now apply wf_app_r in Hwr).
  split; [now apply fields_ok|].
  assert (Hd : drop_space is_space r <> []) by (intros E; apply Hne; now rewrite E).
  pose proof (drop_space_shorter r Hsr (wf_nonempty _ Hwr) Hd) as Hs.
  pose proof (fields_sum _ (wf_nonempty _ Hwrest)) as Hf.
  pose proof (flat_runes line) as Hfl. rewrite El, flat_app, Ef in Hfl.
  rewrite <- Hfl, app_length. change (length (bs "Unit")) with 4%nat. lia.
Qed.

End Fields.
