(** The model of summarizeCol (Model/BenchTab.v col_summary, with
    Model/SummarySpec.v col_warn_ratio for the warning it does not return)
    meets the declarative summary-row rule Model.SummarySpec.summary_rule, for
    every table, every list of rows and every column, given only that the
    geomean is NaN exactly when its argument is not a non-empty list of
    positive values. *)
From Perf Require Import Base.Bytes Base.B64 Model.BenchTab Model.SummarySpec Proofs.BenchTab.

Lemma somes_cons_some {A} (x : A) l : somes (Some x :: l) = x :: somes l.
Proof. reflexivity. Qed.
Lemma somes_cons_none {A} (l : list (option A)) : somes (None :: l) = somes l.
Proof. reflexivity. Qed.

Definition mval (q : ratio) : b64 := match q with RVal v => v | RUncomputable => b64_zero end.

Lemma mval_vals qs : existsb is_uncomputable qs = false -> map mval qs = ratio_vals qs.
Proof.
  unfold ratio_vals. induction qs as [|q qs IH]; cbn [existsb map flat_map]; [reflexivity|].
  intros H. apply orb_false_iff in H as [Hq Hqs]. destruct q; cbn in Hq; [|discriminate].
  cbn [mval app]. f_equal. now apply IH.
Qed.

Section Proof.
  Variable centre : list b64 -> b64.
  Variable geomean : list b64 -> b64.
  Hypothesis geomean_nan : forall l, b64_is_nan (geomean l) = negb (all_pos l).
  Variables (cs : list bcell) (c0 col : N).
  Let cc := cc_of centre cs.

  Lemma has_is_has_cell r c : has cc r c = has_cell cs c r.
  Proof. unfold has, cc, cc_of, has_cell. now destruct (find_cell r c cs). Qed.

  Lemma col_centres_cons x rows :
    col_centres (x :: rows) cc col =
    match cc x col with Some a => a :: col_centres rows cc col | None => col_centres rows cc col end.
  Proof. unfold col_centres. cbn [map]. now destruct (cc x col). Qed.
  Lemma col_ratios_cons x rows :
    col_ratios (x :: rows) cc c0 col =
    match cc x col, cc x c0 with
    | Some a, Some b => ratio_of a b :: col_ratios rows cc c0 col
    | _, _ => col_ratios rows cc c0 col
    end.
  Proof. unfold col_ratios. cbn [map]. destruct (cc x col); [destruct (cc x c0)|]; reflexivity. Qed.
  Lemma cc_find x c : cc x c = option_map (fun y => centre (sample_of y)) (find_cell x c cs).
  Proof. reflexivity. Qed.

  Lemma sum_fold_nonbase rows : forall s r b,
    fold_left (sum_step centre cs c0 col false) rows (s, r, b) =
    (s ++ col_centres rows cc col, r ++ map mval (col_ratios rows cc c0 col),
     b || existsb is_uncomputable (col_ratios rows cc c0 col)).
  Proof.
    induction rows as [|x rows IH]; intros s r b; cbn [fold_left].
    - unfold col_centres, col_ratios. cbn. now rewrite !app_nil_r, orb_false_r.
    - rewrite col_centres_cons, col_ratios_cons, !cc_find. unfold sum_step at 2.
      destruct (find_cell x col cs) as [y|]; cbn [option_map].
      + destruct (find_cell x c0 cs) as [yb|]; cbn [option_map].
        * unfold ratio_of.
          destruct (b64_eq (centre (sample_of y)) (centre (sample_of yb))).
          { rewrite IH. cbn [map mval existsb is_uncomputable orb]. rewrite <- !app_assoc. reflexivity. }
          destruct (b64_eq (centre (sample_of yb)) b64_zero).
          { rewrite IH. cbn [map mval existsb is_uncomputable orb]. rewrite <- !app_assoc.
            f_equal. destruct b; reflexivity. }
          rewrite IH. cbn [map mval existsb is_uncomputable orb]. rewrite <- !app_assoc. reflexivity.
        * rewrite IH. now rewrite <- app_assoc.
      + apply IH.
  Qed.

  Lemma sum_fold_base rows : forall s r b,
    fold_left (sum_step centre cs c0 col true) rows (s, r, b) = (s ++ col_centres rows cc col, r, b).
  Proof.
    induction rows as [|x rows IH]; intros s r b; cbn [fold_left].
    - unfold col_centres. cbn. now rewrite app_nil_r.
    - rewrite col_centres_cons, cc_find. unfold sum_step at 2.
      destruct (find_cell x col cs) as [y|]; cbn [option_map].
      + rewrite IH. now rewrite <- app_assoc.
      + apply IH.
  Qed.

  Lemma warn_set_rule rows :
    cs_warn_set (col_summary centre geomean cs rows c0 false col)
    = negb (forallb (fun r => Bool.eqb (has cc r c0) (has cc r col)) rows).
  Proof.
    destruct (forallb _ rows) eqn:F; cbn [negb].
    - apply set_warning_iff. intros r Hr. rewrite forallb_forall in F. specialize (F r Hr).
      rewrite !has_is_has_cell in F. now apply Bool.eqb_prop.
    - destruct (cs_warn_set _) eqn:W; [reflexivity|]. exfalso.
      rewrite set_warning_iff in W.
      assert (forallb (fun r => Bool.eqb (has cc r c0) (has cc r col)) rows = true); [|congruence].
      apply forallb_forall. intros r Hr. rewrite !has_is_has_cell, (W r Hr). apply Bool.eqb_reflx.
  Qed.

  (** the model meets the rule: which geomeans exist, of which lists, and every warning *)
  Theorem summary_rule_model rows is_base :
    let m := col_summary centre geomean cs rows c0 is_base col in
    let ru := summary_rule rows cc c0 is_base col in
    cs_has_summary m = sr_has_summary ru
    /\ negb (cs_has_summary m) = sr_warn_sum ru
    /\ cs_summary m = geomean (sr_centres ru)
    /\ cs_has_ratio m = sr_has_ratio ru
    /\ (cs_has_ratio m = true -> cs_ratio m = geomean (sr_ratios ru))
    /\ col_warn_ratio centre geomean cs rows c0 is_base col = sr_warn_ratio ru
    /\ cs_warn_set m = sr_warn_set ru.
  Proof.
    destruct is_base.
    - cbv zeta. unfold col_summary, col_warn_ratio, summary_rule. rewrite sum_fold_base.
      cbn [app negb andb cs_has_summary cs_summary cs_has_ratio cs_ratio cs_warn_set
           sr_has_summary sr_warn_sum sr_centres sr_has_ratio sr_ratios sr_warn_ratio sr_warn_set].
      rewrite geomean_nan, negb_involutive. unfold set_warning. cbn [negb andb].
      repeat split; try reflexivity; try discriminate.
    - cbv zeta. pose proof (warn_set_rule rows) as WS. revert WS.
      unfold col_summary, col_warn_ratio, summary_rule. rewrite sum_fold_nonbase.
      cbn [app negb andb orb cs_has_summary cs_summary cs_has_ratio cs_ratio cs_warn_set
           sr_has_summary sr_warn_sum sr_centres sr_has_ratio sr_ratios sr_warn_ratio sr_warn_set].
      intros WS. rewrite !geomean_nan, !negb_involutive.
      destruct (existsb is_uncomputable (col_ratios rows cc c0 col)) eqn:U; cbn [negb andb].
      + repeat split; try reflexivity; try exact WS; try discriminate.
      + rewrite (mval_vals _ U) in *. repeat split; try reflexivity; exact WS.
  Qed.

  (** a ratio is uncomputable only over a zero centre in the first column, and
      then the first column itself carries "summaries must be >0" *)
  Lemma uncomputable_zero_base rows :
    existsb is_uncomputable (col_ratios rows cc c0 col) = true ->
    exists b, In b (col_centres rows cc c0) /\ b64_eq b b64_zero = true.
  Proof.
    unfold col_ratios, col_centres. induction rows as [|x rows IH]; [discriminate|].
    cbn [map]. destruct (cc x c0) as [b|]; destruct (cc x col) as [a|]; cbn [somes existsb]; intros H.
    - apply orb_true_iff in H as [H|H].
      + exists b. split; [now left|]. unfold ratio_of in H.
        destruct (b64_eq a b); [discriminate|]. now destruct (b64_eq b b64_zero).
      + destruct (IH H) as (b' & Hin & Hz). exists b'. split; [now right|exact Hz].
    - destruct (IH H) as (b' & Hin & Hz). exists b'. split; [now right|exact Hz].
    - exact (IH H).
    - exact (IH H).
  Qed.

  Lemma all_pos_false_in l x : In x l -> positive x = false -> all_pos l = false.
  Proof.
    intros Hin Hx. destruct l as [|y l]; [destruct Hin|]. unfold all_pos.
    destruct (forallb positive (y :: l)) eqn:F; [|reflexivity].
    rewrite forallb_forall in F. rewrite (F x Hin) in Hx. discriminate.
  Qed.

  Theorem uncomputable_base_warned rows :
    existsb is_uncomputable (col_ratios rows cc c0 col) = true ->
    sr_warn_sum (summary_rule rows cc c0 true c0) = true.
  Proof.
    intros H. destruct (uncomputable_zero_base rows H) as (b & Hin & Hz).
    unfold summary_rule. cbn [sr_warn_sum]. apply negb_true_iff.
    apply (all_pos_false_in _ b Hin). unfold positive, b64_eq, b64_lt, b64_zero in *.
    destruct b as [[]|[]| |[] m e]; cbn in Hz |- *; try reflexivity; discriminate.
  Qed.
End Proof.

(** ** the recorded deviation C14_geomean_inf_order: go-moremath's GeoMean keeps
    a running mean of logarithms; with any logarithm that maps +Inf to +Inf the
    mean of the all-positive list [+Inf; 1] is NaN, so the code raises
    "summaries must be >0" where the rule shows a geomean *)
Definition running_log_mean (ln : b64 -> b64) (l : list b64) : b64 :=
  fst (fold_left (fun '(m, i) x => (b64_add m (b64_div (b64_sub (ln x) m) (b64_of_Z (Z.of_nat (S i)))), S i)) l (b64_zero, O)).
Definition pinf : b64 := S754_infinity false.

Theorem geomean_inf_order_refuted (ln : b64 -> b64) :
  ln pinf = pinf -> b64_is_finite (ln b64_one) = true ->
  exists l, all_pos l = true /\ b64_is_nan (running_log_mean ln l) = true.
Proof.
  intros Hinf Hfin. exists [pinf; b64_one]. split; [reflexivity|].
  unfold running_log_mean. cbn [fold_left fst]. rewrite Hinf.
  destruct (ln b64_one) as [s|s| |s m e]; try discriminate; reflexivity.
Qed.
