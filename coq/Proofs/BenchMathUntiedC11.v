(** The Mann-Whitney counts of the C13 development ([ecount],
    Proofs/BenchMathUntied.v: what go-moremath's untied table holds) are the
    counts of the C11 specification ([cuntied], Proofs/UDistUntied.v: number of
    choices of n out of n+m untied pooled values with U = u, over count
    vectors): same recurrence (C11_mann_whitney_recurrence), same boundary. *)
From Coq Require Import ZArith List Bool Lia.
From Perf Require Import Model.UStat Model.UDistSpec Proofs.UStat Proofs.UDistSpec Proofs.UDistUntied.
From Perf Require Proofs.BenchMathUntied.
Import ListNotations.
Local Open Scope Z_scope.

Notation ecount := Perf.Proofs.BenchMathUntied.ecount.
Notation ind0 := Perf.Proofs.BenchMathUntied.ind0.

Lemma zrange_0_0 : zrange 0 0 = [0].
Proof. reflexivity. Qed.
Lemma zrange_0_1 : zrange 0 1 = [0; 1].
Proof. reflexivity. Qed.

(** nothing chosen: the zero vector *)
Lemma vecs_ones_none k : vecs (repeat 1 k) 0 = [repeat 0 k].
Proof.
  induction k as [|k IH]; [reflexivity|]. cbn [repeat vecs].
  change (Z.min 1 0) with 0. rewrite zrange_0_0. cbn [flat_map]. rewrite app_nil_r.
  change (0 - 0) with 0. now rewrite IH.
Qed.

(** everything chosen: the all-ones vector *)
Lemma vecs_ones_all k : vecs (repeat 1 k) (Z.of_nat k) = [repeat 1 k].
Proof.
  induction k as [|k IH]; [reflexivity|]. cbn [repeat vecs].
  replace (Z.min 1 (Z.of_nat (S k))) with 1 by lia. rewrite zrange_0_1. cbn [flat_map].
  rewrite app_nil_r.
  rewrite (vecs_big (repeat 1 k)).
  - cbn [map app]. replace (Z.of_nat (S k) - 1) with (Z.of_nat k) by lia. now rewrite IH.
  - clear. induction k; cbn [repeat]; constructor; [lia|assumption].
  - rewrite Z.sub_0_r. clear. induction k as [|k IH]; [cbn; lia|].
    cbn [repeat]. change (zsum (1 :: repeat 1 k)) with (1 + zsum (repeat 1 k)). lia.
Qed.

Lemma twoU_zeros k : forall V, twoU_vec V (combine (repeat 1 k) (repeat 0 k)) = 0.
Proof. induction k as [|k IH]; intros V; [reflexivity|]. cbn [repeat combine twoU_vec]. rewrite IH. lia. Qed.
Lemma twoU_ones k : twoU_vec 0 (combine (repeat 1 k) (repeat 1 k)) = 0.
Proof.
  induction k as [|k IH]; [reflexivity|]. cbn [repeat combine twoU_vec].
  replace (0 + (1 - 1)) with 0 by lia. rewrite IH. lia.
Qed.
Lemma weight_zeros k : weight (repeat 1 k) (repeat 0 k) = 1.
Proof.
  unfold weight. induction k as [|k IH]; [reflexivity|]. cbn [repeat combine map fold_right fst snd].
  rewrite IH. reflexivity.
Qed.
Lemma weight_ones k : weight (repeat 1 k) (repeat 1 k) = 1.
Proof.
  unfold weight. induction k as [|k IH]; [reflexivity|]. cbn [repeat combine map fold_right fst snd].
  rewrite IH. reflexivity.
Qed.

Lemma cuntied_0_l m u : 0 <= m -> cuntied 0 m u = ind0 u.
Proof.
  intros Hm. unfold cuntied, count_eq, count_if, ones. rewrite Z.add_0_l, vecs_ones_none.
  cbn [sumf fold_right]. unfold twoU_of. rewrite twoU_zeros, weight_zeros.
  unfold Perf.Proofs.BenchMathUntied.ind0. destruct (Z.eqb_spec 0 (2 * u)), (Z.eqb_spec u 0); lia.
Qed.

Lemma cuntied_0_r n u : 0 <= n -> cuntied n 0 u = ind0 u.
Proof.
  intros Hn. unfold cuntied, count_eq, count_if, ones. rewrite Z.add_0_r.
  rewrite <- (Z2Nat.id n Hn) at 2. rewrite vecs_ones_all.
  cbn [sumf fold_right]. unfold twoU_of. rewrite twoU_ones, weight_ones.
  unfold Perf.Proofs.BenchMathUntied.ind0. destruct (Z.eqb_spec 0 (2 * u)), (Z.eqb_spec u 0); lia.
Qed.

(** go-moremath's table (C13) and the C11 specification count the same thing *)
Theorem ecount_is_cuntied n : forall m u, ecount n m u = cuntied (Z.of_nat n) (Z.of_nat m) u.
Proof.
  induction n as [|n IHn]; intros m u.
  - rewrite Perf.Proofs.BenchMathUntied.ecount_0_l. symmetry. apply cuntied_0_l. lia.
  - revert u. induction m as [|m IHm]; intros u.
    + rewrite Perf.Proofs.BenchMathUntied.ecount_0_r. symmetry. apply cuntied_0_r. lia.
    + rewrite Perf.Proofs.BenchMathUntied.ecount_SS, IHn, IHm.
      rewrite (mann_whitney_recurrence (Z.of_nat (S n)) (Z.of_nat (S m)) u) by lia.
      f_equal; f_equal; lia.
Qed.
