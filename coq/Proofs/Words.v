(** Proofs about Model/Words.v: a word quoted by the front end's query builder
    is split back into exactly that word. *)
From Perf Require Import Base.Bytes Model.Words.

Lemma flush_rev w : w <> [] -> flush (rev w) = [w].
Proof.
  intros Hw. unfold flush. destruct (rev w) as [|c r] eqn:E.
  - apply (f_equal (@rev byte)) in E. rewrite rev_involutive in E. cbn in E. congruence.
  - rewrite <- E, rev_involutive. reflexivity.
Qed.

(** a run of bytes that need no quoting is taken over literally *)
Lemma sw_plain w r acc :
  forallb (fun c => negb (needs_quote c)) w = true ->
  sw (w ++ r) false acc = sw r false (rev w ++ acc).
Proof.
  revert acc. induction w as [|c w IH]; intros acc Hw; cbn [app rev]; [reflexivity|].
  cbn [forallb] in Hw. apply andb_true_iff in Hw as [Hc Hw].
  unfold needs_quote in Hc. rewrite !negb_orb in Hc.
  apply andb_true_iff in Hc as [Hc Hq]. apply andb_true_iff in Hc as [Hb Hs].
  apply negb_true_iff in Hb, Hs, Hq.
  cbn [sw]. rewrite Hq, Hb, Hs. rewrite IH by exact Hw.
  rewrite <- app_assoc. reflexivity.
Qed.

(** one-pass description of the two successive replacements *)
Definition esc1 (x : byte) : bytes :=
  if Byte.eqb x w_bslash then [w_bslash; w_bslash]
  else if Byte.eqb x w_quote then [w_bslash; w_quote] else [x].
Definition esc (w : bytes) : bytes := flat_map esc1 w.

Lemma replace_byte_app c rep a b :
  replace_byte c rep (a ++ b) = replace_byte c rep a ++ replace_byte c rep b.
Proof. unfold replace_byte. apply flat_map_app. Qed.

Lemma two_pass_esc w :
  replace_byte w_quote [w_bslash; w_quote] (replace_byte w_bslash [w_bslash; w_bslash] w) = esc w.
Proof.
  induction w as [|x w IH]; [reflexivity|].
  change (replace_byte w_bslash [w_bslash; w_bslash] (x :: w))
    with ((if Byte.eqb x w_bslash then [w_bslash; w_bslash] else [x])
          ++ replace_byte w_bslash [w_bslash; w_bslash] w).
  rewrite replace_byte_app, IH. change (esc (x :: w)) with (esc1 x ++ esc w). f_equal.
  unfold esc1. destruct (beqb_spec x w_bslash) as [->|Hn].
  - reflexivity.
  - cbn. destruct (Byte.eqb x w_quote); reflexivity.
Qed.

(** inside quotes, the escaped text yields the original bytes *)
Lemma sw_escaped w r acc : sw (esc w ++ r) true acc = sw r true (rev w ++ acc).
Proof.
  revert acc. induction w as [|x w IH]; intros acc; [reflexivity|].
  change (esc (x :: w)) with (esc1 x ++ esc w). rewrite <- app_assoc. cbn [rev].
  rewrite <- app_assoc. cbn [app]. unfold esc1.
  destruct (beqb_spec x w_bslash) as [->|Hb].
  - cbn [app sw]. change (Byte.eqb w_bslash w_quote) with false. cbn match.
    rewrite beqb_refl. apply IH.
  - destruct (beqb_spec x w_quote) as [->|Hq].
    + cbn [app sw]. change (Byte.eqb w_bslash w_quote) with false. cbn match.
      rewrite beqb_refl. apply IH.
    + cbn [app sw]. apply beqb_neq in Hb, Hq. rewrite Hq, Hb. apply IH.
Qed.

Lemma existsb_false_forallb {A} (f : A -> bool) l :
  existsb f l = false -> forallb (fun c => negb (f c)) l = true.
Proof.
  induction l as [|x l IH]; cbn; [reflexivity|].
  intros H. apply orb_false_iff in H as [H1 H2]. rewrite H1, IH by exact H2. reflexivity.
Qed.

(** the quoted form of [w], followed by anything, contributes exactly the bytes of [w] *)
Lemma sw_quote_word w r acc :
  sw (quote_word w ++ r) false acc = sw r false (rev w ++ acc).
Proof.
  unfold quote_word. destruct (existsb needs_quote w) eqn:E.
  - rewrite two_pass_esc. cbn [app sw]. change (Byte.eqb w_quote w_quote) with true. cbn match.
    rewrite <- app_assoc. rewrite sw_escaped. cbn [app sw].
    change (Byte.eqb w_quote w_quote) with true. reflexivity.
  - apply sw_plain. apply existsb_false_forallb. exact E.
Qed.

Theorem splitwords_quote w : w <> [] -> split_words (quote_word w) = [w].
Proof.
  intros Hw. unfold split_words. rewrite <- (app_nil_r (quote_word w)).
  rewrite sw_quote_word. cbn [sw]. rewrite app_nil_r. apply flush_rev. exact Hw.
Qed.

Theorem splitwords_quote_then w q :
  w <> [] -> split_words (quote_word w ++ w_space :: q) = w :: split_words q.
Proof.
  intros Hw. unfold split_words. rewrite sw_quote_word. rewrite app_nil_r.
  cbn [sw]. change (Byte.eqb w_space w_quote) with false. cbn match.
  change (is_blank w_space) with true. cbn match.
  rewrite flush_rev by exact Hw. reflexivity.
Qed.

(** a whole query built from quoted words splits back into those words *)
Theorem splitwords_built_query ws :
  Forall (fun w => w <> []) ws -> split_words (join_sp (map quote_word ws)) = ws.
Proof.
  induction ws as [|w ws IH]; intros H; [reflexivity|].
  inversion H as [|? ? Hw Hws]; subst.
  destruct ws as [|w' ws'].
  - cbn [map join_sp]. apply splitwords_quote. exact Hw.
  - change (join_sp (map quote_word (w :: w' :: ws')))
      with (quote_word w ++ w_space :: join_sp (map quote_word (w' :: ws'))).
    rewrite splitwords_quote_then by exact Hw. f_equal. apply IH. exact Hws.
Qed.

(** addToQuery: the added word comes back as one word in front of the old query's words *)
Theorem splitwords_add_to_query query add :
  add <> [] ->
  split_words (add_to_query query add) =
  add :: (if existsb (Byte.eqb w_bar) query then [] else [[w_bar]]) ++ split_words query.
Proof.
  intros Ha. unfold add_to_query. destruct (existsb (Byte.eqb w_bar) query).
  - cbn [app]. apply splitwords_quote_then. exact Ha.
  - cbn [app]. rewrite splitwords_quote_then by exact Ha. reflexivity.
Qed.

(** SplitWords never returns an empty word *)
Lemma flush_nonempty acc : Forall (fun w => w <> []) (flush acc).
Proof.
  unfold flush. destruct acc as [|c r]; constructor; [|constructor].
  cbn. intros E. apply app_eq_nil in E as [_ E]. discriminate.
Qed.

Lemma sw_nonempty_fuel n : forall q quoting acc, length q <= n -> Forall (fun w => w <> []) (sw q quoting acc).
Proof.
  induction n as [|n IH]; intros q quoting acc Hn.
  - destruct q; [apply flush_nonempty | cbn in Hn; lia].
  - destruct q as [|c q]; [apply flush_nonempty|]. cbn in Hn. cbn [sw].
    destruct quoting.
    + destruct (Byte.eqb c w_quote); [apply IH; lia|].
      destruct (Byte.eqb c w_bslash); [|apply IH; lia].
      destruct q as [|d q]; [apply flush_nonempty|]. apply IH. cbn in Hn. lia.
    + destruct (Byte.eqb c w_quote); [apply IH; lia|].
      destruct (is_blank c).
      * apply Forall_app. split; [apply flush_nonempty | apply IH; lia].
      * destruct (Byte.eqb c w_bslash); [|apply IH; lia].
        destruct q as [|d q]; [apply flush_nonempty|]. apply IH. cbn in Hn. lia.
Qed.

Theorem splitwords_no_empty_word q : Forall (fun w => w <> []) (split_words q).
Proof. apply (sw_nonempty_fuel (length q)). lia. Qed.
