(** RowScaler: the row's scale is that of the least non-zero |centre| of its
    present cells, and depends on the magnitudes only (a row and its mirror
    image under negation of any cells share the scale). *)
From Coq Require Import ZArith List Bool.
From Flocq Require Import Core BinarySingleNaN.
From Perf Require Import Base.Bytes Base.B64 Base.FmtFixed Model.Scale Model.ScaleSpec Model.RowScale
     Proofs.Scale Proofs.ScaleMore.
Import ListNotations.

Lemma abs_abs (v : b64) : b64_abs (b64_abs v) = b64_abs v.
Proof. destruct v as [s|s| |s m e]; reflexivity. Qed.

Lemma min_step_abs mn v : min_step mn (b64_abs v) = min_step mn v.
Proof. unfold min_step. now rewrite abs_abs. Qed.

Lemma fold_min_abs vals : forall mn, fold_left min_step (map b64_abs vals) mn = fold_left min_step vals mn.
Proof.
  induction vals as [|v r IH]; intros mn; [reflexivity|].
  cbn [map fold_left]. rewrite min_step_abs. apply IH.
Qed.

Lemma min_nonzero_abs vals : min_nonzero (map b64_abs vals) = min_nonzero vals.
Proof. unfold min_nonzero. apply fold_min_abs. Qed.

(** flipping signs of any cells: [flip] says which *)
Fixpoint flip_signs (flip : list bool) (cells : list (option b64)) : list (option b64) :=
  match flip, cells with
  | f :: fs, c :: cs => option_map (fun v => if f then SFopp v else v) c :: flip_signs fs cs
  | _, _ => cells
  end.

Lemma abs_opp (v : b64) : b64_abs (SFopp v) = b64_abs v.
Proof. destruct v as [s|s| |s m e]; reflexivity. Qed.

Lemma row_values_abs_flip : forall flip cells,
  map b64_abs (row_values (flip_signs flip cells)) = map b64_abs (row_values cells).
Proof.
  induction flip as [|f fs IH]; intros cells; [reflexivity|].
  destruct cells as [|[v|] cs]; [reflexivity| |].
  - cbn [flip_signs option_map row_values map]. rewrite IH.
    destruct f; [now rewrite abs_opp|reflexivity].
  - cbn [flip_signs option_map row_values]. apply IH.
Qed.

Theorem row_scaler_sign_blind flip cells cls :
  row_scaler (flip_signs flip cells) cls = row_scaler cells cls.
Proof.
  unfold row_scaler, common_scale. f_equal.
  rewrite <- (min_nonzero_abs (row_values (flip_signs flip cells))), <- (min_nonzero_abs (row_values cells)).
  now rewrite row_values_abs_flip.
Qed.

Theorem row_scaler_is_min cells cls :
  Forall (fun v => b64_is_nan v = false) (row_values cells) ->
  row_scaler cells cls = common_scale (@cons spec_float (min_nonzero (row_values cells)) nil) cls.
Proof. intros Hn. unfold row_scaler. now apply common_scale_min_thm. Qed.

(** missing cells contribute nothing *)
Theorem row_scaler_missing cells cls : row_scaler (None :: cells) cls = row_scaler cells cls.
Proof. reflexivity. Qed.
