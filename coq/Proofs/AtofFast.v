(** The reader's integer fast path (benchfmt/reader.go, atof): on a non-empty
    text it returns exactly what the specification [parse_float_spec] says —
    the correctly rounded value of the integer, no error. *)
From Perf Require Import Base.Bytes Base.B64 Base.DecSpec Model.Atoi Model.Atof Proofs.Atoi Proofs.RnB64.
Local Open Scope Z_scope.

Definition fast_max : Z := 9223372036854775799.

(** the loop accepts exactly digit strings and computes their value *)
Lemma fast_loop_spec x : forall n v, fast_loop x n = Some v ->
  forallb is_dec_digit x = true /\ v = fold_left dstep x n.
Proof.
  induction x as [|c x IH]; cbn [fast_loop forallb fold_left]; intros n v H.
  - injection H as ->. auto.
  - destruct (Z.leb_spec 10 ((bZ c - 48) mod 256)) as [|Hd]; [discriminate|].
    destruct (fast_guard <? n); [discriminate|].
    pose proof (bZ_range c) as Hr.
    assert (Hc : 48 <= bZ c <= 57).
    { destruct (Z_lt_le_dec (bZ c) 48).
      - replace ((bZ c - 48) mod 256) with (bZ c + 208) in Hd by (apply Z.mod_unique with (q := -1); lia). lia.
      - rewrite Z.mod_small in Hd by lia. lia. }
    rewrite Z.mod_small in H by lia.
    apply is_dec_digit_iff in Hc. destruct (digit_val_dec c Hc) as [Hv _].
    destruct (IH _ _ H) as [Hx ->]. rewrite Hc, Hx. split; [reflexivity|].
    f_equal. unfold dstep. now rewrite Hv.
Qed.

(** the overflow guard keeps the accumulator an int64 *)
Lemma fast_loop_bound x : forall n v, 0 <= n <= fast_max -> fast_loop x n = Some v -> 0 <= v <= fast_max.
Proof.
  induction x as [|c x IH]; cbn [fast_loop]; intros n v Hn H.
  - injection H as ->. assumption.
  - destruct (Z.leb_spec 10 ((bZ c - 48) mod 256)) as [|Hd]; [discriminate|].
    destruct (Z.ltb_spec fast_guard n) as [|Hg]; [discriminate|].
    pose proof (Z.mod_pos_bound (bZ c - 48) 256 ltac:(lia)).
    apply (IH _ _) in H; [assumption|].
    change fast_guard with 922337203685477579 in Hg. unfold fast_max in *. lia.
Qed.

(** ** a non-empty digit string in the grammar *)
Lemma lowerN_digit c : is_dec_digit c = true -> lowerN c = bZ c.
Proof.
  intros H. apply is_dec_digit_iff in H. unfold lowerN.
  destruct (Z.leb_spec 65 (bZ c)); [lia|reflexivity].
Qed.

Lemma ieq_digit_head c t w0 w : is_dec_digit c = true -> 65 <= bZ w0 -> ieq (c :: t) (w0 :: w) = false.
Proof.
  intros Hc Hw. unfold ieq. cbn [map list_eqb]. rewrite (lowerN_digit c Hc).
  apply is_dec_digit_iff in Hc. destruct (Z.eqb_spec (bZ c) (bZ w0)); [lia|reflexivity].
Qed.

Lemma underscores_ok_digits x : forall prev, forallb is_dec_digit x = true ->
  underscores_ok is_dec_digit prev x = true.
Proof.
  induction x as [|c x IH]; cbn [underscores_ok forallb]; intros prev H; [reflexivity|].
  apply andb_true_iff in H as [Hc Hx]. rewrite (us_not_digit c Hc). now apply IH.
Qed.

Lemma drop_underscores_digits x : forallb is_dec_digit x = true -> drop_underscores x = x.
Proof.
  intros H. apply filter_all_id. intros c Hin.
  rewrite forallb_forall in H. now rewrite (us_not_digit c (H c Hin)).
Qed.

Lemma break_none (p : byte -> bool) x : (forall c, In c x -> p c = false) -> break p x = (x, None).
Proof.
  induction x as [|c x IH]; cbn [break]; intros H; [reflexivity|].
  rewrite (H c (or_introl eq_refl)). rewrite IH by (intros; apply H; now right). reflexivity.
Qed.

Lemma lex_float_digits x : x <> [] -> forallb is_dec_digit x = true ->
  lex_float x = Some (LNum false false (digits_val 10 x) 0).
Proof.
  intros Hne Hd. destruct x as [|c t]; [congruence|].
  pose proof Hd as Hd'. cbn [forallb] in Hd'. apply andb_true_iff in Hd' as [Hc Ht].
  destruct (not_sign_digit c Hc) as [Em Ep].
  assert (Hall : forall b, In b (c :: t) -> is_dec_digit b = true) by (now apply forallb_forall).
  unfold lex_float, lex_special. cbn [split_sign]. rewrite Ep, Em.
  change (bs "inf") with [x69; x6e; x66].
  change (bs "infinity") with [x69; x6e; x66; x69; x6e; x69; x74; x79].
  change (bs "nan") with [x6e; x61; x6e].
  rewrite !ieq_digit_head by (try assumption; cbv; discriminate). cbn [orb].
  unfold lex_number. cbn [split_sign]. rewrite Ep, Em. cbn [sign_neg].
  assert (Hhex : hex_prefix (c :: t) = None).
  { unfold hex_prefix. destruct t as [|x t']; [reflexivity|].
    assert (Hx : is_dec_digit x = true) by (apply Hall; cbn; auto).
    unfold is_char_ci. rewrite (lowerN_digit x Hx). apply is_dec_digit_iff in Hx.
    destruct (Z.eqb_spec (bZ x) 120); [lia|]. now rewrite andb_false_r. }
  rewrite Hhex. unfold lex_decimal.
  rewrite underscores_ok_digits, drop_underscores_digits by assumption.
  rewrite break_none.
  2:{ intros b Hb. unfold is_char_ci. rewrite (lowerN_digit b (Hall b Hb)).
      pose proof (proj1 (is_dec_digit_iff b) (Hall b Hb)). destruct (Z.eqb_spec (bZ b) 101); [lia|reflexivity]. }
  unfold mantissa_digits. rewrite break_none.
  2:{ intros b Hb. unfold is_char. apply beqb_neq. intros ->.
      pose proof (proj1 (is_dec_digit_iff c_dot) (Hall c_dot Hb)) as H. change (bZ c_dot) with 46 in H. lia. }
  rewrite Hd. cbn [forallb andb length Nat.add Nat.eqb negb]. rewrite app_nil_r. reflexivity.
Qed.

(** ** the fast path agrees with the specification *)
Lemma rn_b64_integer v : 0 <= v -> rn_b64 false v false 0 = b64_of_Z v.
Proof.
  intros Hv. destruct v as [|p|p]; [reflexivity| |lia].
  cbn [rn_b64]. change (0 <=? 0) with true. change (310 <=? 0) with false. cbn match.
  change (10 ^ 0) with 1. rewrite Z.mul_1_r. reflexivity.
Qed.

Theorem fastint_correct x v : x <> [] -> fast_loop x 0 = Some v ->
  parse_float_spec x = (b64_of_Z v, ErrNone).
Proof.
  intros Hne H.
  destruct (fast_loop_spec x 0 v H) as [Hd Hv].
  pose proof (fast_loop_bound x 0 v ltac:(unfold fast_max; lia) H) as Hb.
  unfold parse_float_spec. rewrite (lex_float_digits x Hne Hd).
  rewrite digits_val_fold, <- Hv. cbn [value_of_lexed].
  rewrite rn_b64_integer by lia. unfold rn_overflow.
  rewrite b64_of_Z_finite; [reflexivity|]. unfold fast_max in Hb. lia.
Qed.

(** the value is that of the digits, and every digit string up to the guard takes this path *)
Theorem fastint_value x v : fast_loop x 0 = Some v ->
  forallb is_dec_digit x = true /\ v = digits_val 10 x /\ 0 <= v <= fast_max.
Proof.
  intros H. destruct (fast_loop_spec x 0 v H) as [Hd Hv].
  repeat split; try assumption; apply (fast_loop_bound x 0 v); try assumption; unfold fast_max; lia.
Qed.

(** the reader's atof on such a text is the specification *)
Corollary reader_atof_fast x v : x <> [] -> fast_loop x 0 = Some v -> reader_atof x = parse_float_spec x.
Proof.
  intros Hne H. unfold reader_atof. rewrite H. symmetry. now apply fastint_correct.
Qed.
