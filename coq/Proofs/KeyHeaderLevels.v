(** benchproc.NewKeyHeader, ALL levels: the tree [key_header] builds satisfies
    the decidable description [header_ok] (the predicate evaluated on every
    observed NewKeyHeader result), for every key slice whose keys have the
    projection's [nf] flattened fields.

    Structure: [walk (S f)] is unfolded into the nodes of its own level
    ([run_nodes]) and the level-wise concatenation of the sub-walks of its runs
    ([sub_levels]); level [j] of a [zip_app] is the concatenation of the levels
    [j]; the four per-level conditions (contiguity, node_ok, neighbours_differ,
    children_ok) are shown to compose over that concatenation. *)
From Perf Require Import Base.Bytes Model.KeyHeader Proofs.KeyHeader.
Local Open Scope nat_scope.

(* ------------------------------------------------------------------ *)
(** ** lists *)
Lemma nth_error_skipn' {A} (l : list A) s i : nth_error (skipn s l) i = nth_error l (s + i).
Proof.
  revert l; induction s as [|s IH]; intros l; [reflexivity|].
  destruct l as [|x l]; [destruct i; reflexivity|]. cbn [skipn Nat.add nth_error]. apply IH.
Qed.

Lemma nth_error_firstn' {A} (l : list A) n i : i < n -> nth_error (firstn n l) i = nth_error l i.
Proof.
  revert l i; induction n as [|n IH]; intros l i H; [lia|].
  destruct l as [|x l]; [destruct i; reflexivity|].
  destruct i as [|i]; cbn [firstn nth_error]; [reflexivity|]. apply IH. lia.
Qed.

Lemma firstn_snoc {A} (l : list A) n d : n < length l -> firstn (S n) l = firstn n l ++ [nth n l d].
Proof.
  revert n; induction l as [|x l IH]; intros n H; cbn [length] in H; [lia|].
  destruct n as [|n]; [reflexivity|].
  change (firstn (S (S n)) (x :: l)) with (x :: firstn (S n) l).
  rewrite (IH n) by lia. reflexivity.
Qed.

Lemma nth_firstn {A} (l : list A) n i d : i < n -> nth i (firstn n l) d = nth i l d.
Proof.
  revert l i; induction n as [|n IH]; intros l i H; [lia|].
  destruct l as [|x l]; [destruct i; reflexivity|].
  destruct i as [|i]; cbn [firstn nth]; [reflexivity|]. apply IH. lia.
Qed.

Lemma filter_none {A} (f : A -> bool) l : (forall x, In x l -> f x = false) -> filter f l = [].
Proof.
  induction l as [|x l IH]; intros H; [reflexivity|]. cbn [filter].
  rewrite (H x) by (left; reflexivity). apply IH. intros y Hy. apply H. right. exact Hy.
Qed.

(* ------------------------------------------------------------------ *)
(** ** keys and prefixes *)
Lemma klist_eqb_eq a b : klist_eqb a b = true <-> a = b.
Proof. apply list_eqb_spec. apply beq_eq. Qed.

Lemma prefix_eqb_eq n a b : prefix_eqb n a b = true <-> firstn n a = firstn n b.
Proof. apply klist_eqb_eq. Qed.

Lemma prefix_eq_kget n a b i : firstn n a = firstn n b -> i < n -> kget i a = kget i b.
Proof.
  intros H Hi. unfold kget. rewrite <- (nth_firstn a n i []) by exact Hi.
  rewrite <- (nth_firstn b n i []) by exact Hi. rewrite H. reflexivity.
Qed.

Lemma prefix_differs n a b i : kget i a <> kget i b -> i < n -> prefix_eqb n a b = false.
Proof.
  intros Hd Hi. destruct (prefix_eqb n a b) eqn:E; [|reflexivity].
  exfalso. apply Hd. apply prefix_eqb_eq in E. eapply prefix_eq_kget; eassumption.
Qed.

Lemma prefix_extend n a b :
  n < length a -> n < length b -> firstn n a = firstn n b -> kget n a = kget n b ->
  firstn (S n) a = firstn (S n) b.
Proof.
  intros Ha Hb Hp Hk. rewrite (firstn_snoc a n []) by exact Ha. rewrite (firstn_snoc b n []) by exact Hb.
  unfold kget in Hk. rewrite Hp, Hk. reflexivity.
Qed.

(* ------------------------------------------------------------------ *)
(** ** slices of the key sequence *)
Definition is_slice (keys : list key) (s : nat) (sl : list key) : Prop :=
  forall i, i < length sl -> nth_error keys (s + i) = nth_error sl i.

Lemma is_slice_app keys s a b :
  is_slice keys s (a ++ b) -> is_slice keys s a /\ is_slice keys (s + length a) b.
Proof.
  intros H. split; intros i Hi.
  - rewrite (H i) by (rewrite app_length; lia). apply nth_error_app1. exact Hi.
  - rewrite <- Nat.add_assoc. rewrite (H (length a + i)) by (rewrite app_length; lia).
    rewrite nth_error_app2 by lia. f_equal. lia.
Qed.

Lemma is_slice_in keys s sl k : is_slice keys s sl -> In k sl -> In k keys.
Proof.
  intros H Hk. apply In_nth_error in Hk as [i Hi].
  assert (Hlt : i < length sl) by (apply nth_error_Some; congruence).
  rewrite <- (H i Hlt) in Hi. eapply nth_error_In. exact Hi.
Qed.

Lemma is_slice_at keys s sl p :
  is_slice keys s sl -> s <= p < s + length sl ->
  exists k, nth_error keys p = Some k /\ In k sl.
Proof.
  intros H Hp. assert (Hlt : p - s < length sl) by lia.
  destruct (nth_error sl (p - s)) as [k|] eqn:E; [|apply nth_error_None in E; lia].
  exists k. split; [|eapply nth_error_In; exact E].
  rewrite <- E, <- (H (p - s) Hlt). f_equal. lia.
Qed.

Lemma skipn_cons_nth {A} (l : list A) s k : nth_error l s = Some k -> skipn s l = k :: skipn (S s) l.
Proof.
  revert l; induction s as [|s IH]; intros [|x l] H; cbn [nth_error] in H; try discriminate.
  - injection H as ->. reflexivity.
  - cbn [skipn]. rewrite (IH l H). reflexivity.
Qed.

Lemma is_slice_firstn keys sl : forall s, is_slice keys s sl -> firstn (length sl) (skipn s keys) = sl.
Proof.
  induction sl as [|k sl IH]; intros s H; [reflexivity|].
  assert (H0 : nth_error keys s = Some k).
  { rewrite <- (Nat.add_0_r s). rewrite (H 0) by (cbn; lia). reflexivity. }
  rewrite (skipn_cons_nth keys s k H0). cbn [length firstn]. f_equal. apply IH.
  intros i Hi. replace (S s + i) with (s + S i) by lia. rewrite (H (S i)) by (cbn; lia). reflexivity.
Qed.

(* ------------------------------------------------------------------ *)
(** ** [walk] unfolded *)
Definition wstep (f level : nat) (acc : nat * list hnode * list (list hnode)) (run : bytes * list key) :=
  let '(off, nodes, below) := acc in
  let sub := walk f (S level) (snd run) off in
  (off + length (snd run),
   nodes ++ [mkH level (fst run) off (length (snd run)) (length (hd [] sub))],
   zip_app below sub).

Lemma walk_S f level slice start :
  walk (S f) level slice start =
  let '(_, nodes, below) := fold_left (wstep f level) (group_runs level slice) (start, [], []) in
  nodes :: below.
Proof. reflexivity. Qed.

Definition total (runs : list (bytes * list key)) : nat := length (concat (map snd runs)).

Lemma total_cons r rs : total (r :: rs) = length (snd r) + total rs.
Proof. unfold total. cbn [map concat]. apply app_length. Qed.

Fixpoint run_nodes (f level off : nat) (runs : list (bytes * list key)) : list hnode :=
  match runs with
  | [] => []
  | r :: rs =>
      mkH level (fst r) off (length (snd r)) (length (hd [] (walk f (S level) (snd r) off)))
      :: run_nodes f level (off + length (snd r)) rs
  end.

Fixpoint sub_levels (f level off : nat) (runs : list (bytes * list key)) : list (list hnode) :=
  match runs with
  | [] => []
  | r :: rs => zip_app (walk f (S level) (snd r) off) (sub_levels f level (off + length (snd r)) rs)
  end.

Lemma zip_app_nil_r {A} (a : list (list A)) : zip_app a [] = a.
Proof. destruct a; reflexivity. Qed.

Lemma zip_app_assoc {A} (a : list (list A)) : forall b c, zip_app (zip_app a b) c = zip_app a (zip_app b c).
Proof.
  induction a as [|x a IH]; intros b c; [reflexivity|].
  destruct b as [|y b]; [reflexivity|]. destruct c as [|z c]; [reflexivity|].
  cbn [zip_app]. rewrite IH, app_assoc. reflexivity.
Qed.

Lemma zip_app_length {A} (a : list (list A)) : forall b, length (zip_app a b) = Nat.max (length a) (length b).
Proof.
  induction a as [|x a IH]; intros b; [reflexivity|].
  destruct b as [|y b]; [cbn [zip_app length]; lia|]. cbn [zip_app length]. rewrite IH. lia.
Qed.

Lemma wfold f level runs : forall off nodes below,
  fold_left (wstep f level) runs (off, nodes, below) =
  (off + total runs, nodes ++ run_nodes f level off runs, zip_app below (sub_levels f level off runs)).
Proof.
  induction runs as [|r rs IH]; intros off nodes below.
  - cbn [fold_left run_nodes sub_levels]. unfold total. cbn [map concat length].
    rewrite Nat.add_0_r, app_nil_r, zip_app_nil_r. reflexivity.
  - cbn [fold_left]. unfold wstep at 2. rewrite IH. rewrite total_cons.
    cbn [run_nodes sub_levels]. rewrite <- app_assoc, zip_app_assoc, Nat.add_assoc. reflexivity.
Qed.

Lemma walk_S' f level slice start :
  walk (S f) level slice start =
  run_nodes f level start (group_runs level slice) :: sub_levels f level start (group_runs level slice).
Proof. rewrite walk_S, wfold. reflexivity. Qed.

(** level [j] of a list of levels *)
Definition lvl (j : nat) (W : list (list hnode)) : list hnode := nth j W [].

Lemma lvl_nil j : lvl j [] = [].
Proof. destruct j; reflexivity. Qed.

Lemma lvl_zip_app a : forall j b, lvl j (zip_app a b) = lvl j a ++ lvl j b.
Proof.
  induction a as [|x a IH]; intros j b.
  - rewrite lvl_nil. reflexivity.
  - destruct b as [|y b]; [rewrite lvl_nil, app_nil_r; reflexivity|].
    destruct j as [|j]; [reflexivity|]. cbn [zip_app].
    change (lvl j (zip_app a b) = lvl j a ++ lvl j b). apply IH.
Qed.

Lemma hd_lvl W : hd [] W = lvl 0 W.
Proof. destruct W; reflexivity. Qed.

Lemma sub_levels_cons_lvl f level off r rs j :
  lvl j (sub_levels f level off (r :: rs)) =
  lvl j (walk f (S level) (snd r) off) ++ lvl j (sub_levels f level (off + length (snd r)) rs).
Proof. cbn [sub_levels]. apply lvl_zip_app. Qed.

(** a walk over a non-empty slice has exactly [f] levels *)
Lemma group_runs_nonempty level l : l <> [] -> group_runs level l <> [].
Proof.
  intros H E. pose proof (group_runs_concat level l) as C. rewrite E in C. cbn in C. congruence.
Qed.

Lemma walk_length : forall f level slice start, slice <> [] -> length (walk f level slice start) = f.
Proof.
  induction f as [|f IH]; intros level slice start Hne; [reflexivity|].
  rewrite walk_S'. cbn [length]. f_equal.
  pose proof (group_runs_ok level slice) as Hok. pose proof (group_runs_nonempty level slice Hne) as Hn.
  revert Hok Hn. generalize (group_runs level slice) as runs. generalize start as off.
  intros off runs; revert off. induction runs as [|r rs IHr]; intros off Hok Hn; [congruence|].
  cbn [sub_levels]. rewrite zip_app_length. inversion Hok as [|? ? [Hr _] Hrs]; subst.
  rewrite (IH (S level) (snd r) off Hr).
  destruct rs as [|r2 rs']; [cbn [sub_levels length]; lia|].
  rewrite (IHr (off + length (snd r)) Hrs ltac:(discriminate)). lia.
Qed.

(* ------------------------------------------------------------------ *)
(** ** the per-level conditions compose over concatenation *)
Lemma contiguous_app a : forall s b,
  contiguous s (a ++ b) = match contiguous s a with Some m => contiguous m b | None => None end.
Proof.
  induction a as [|n a IH]; intros s b; [reflexivity|]. cbn [app contiguous].
  destruct ((h_start n =? s) && (1 <=? h_len n)); [apply IH|reflexivity].
Qed.

Lemma contiguous_bounds : forall nodes s e,
  contiguous s nodes = Some e ->
  s <= e /\ forall n, In n nodes -> s <= h_start n /\ 1 <= h_len n /\ h_start n + h_len n <= e.
Proof.
  induction nodes as [|n nodes IH]; intros s e H; cbn [contiguous] in H.
  - injection H as <-. split; [lia|]. intros n [].
  - destruct (Nat.eqb_spec (h_start n) s) as [E|E]; [|discriminate].
    destruct (Nat.leb_spec 1 (h_len n)) as [L|L]; [|discriminate]. cbn [andb] in H.
    destruct (IH _ _ H) as [B1 B2]. split; [lia|].
    intros m [<-|Hm]; [lia|]. destruct (B2 m Hm) as [C1 [C2 C3]]. lia.
Qed.

Lemma contiguous_head nodes s e :
  contiguous s nodes = Some e -> s < e -> exists n r, nodes = n :: r /\ h_start n = s.
Proof.
  destruct nodes as [|n r]; cbn [contiguous]; intros H Hlt.
  - injection H as <-. lia.
  - destruct (Nat.eqb_spec (h_start n) s) as [E|E]; [|discriminate]. exists n, r. split; [reflexivity|exact E].
Qed.

Definition nd_pair (keys : list key) (L : nat) (a b : hnode) : bool :=
  match nth_error keys (h_start a), nth_error keys (h_start b) with
  | Some ka, Some kb => negb (prefix_eqb (S L) ka kb)
  | _, _ => false
  end.

Lemma nd_cons2 keys L a b r :
  neighbours_differ keys L (a :: b :: r) = nd_pair keys L a b && neighbours_differ keys L (b :: r).
Proof.
  unfold nd_pair. cbn [neighbours_differ].
  destruct (nth_error keys (h_start a)); [|reflexivity].
  destruct (nth_error keys (h_start b)); reflexivity.
Qed.

Lemma nd_app keys L x b y :
  neighbours_differ keys L x = true -> neighbours_differ keys L (b :: y) = true ->
  (forall a, In a x -> nd_pair keys L a b = true) ->
  neighbours_differ keys L (x ++ b :: y) = true.
Proof.
  induction x as [|a x IH]; intros Hx Hy Hb; [exact Hy|].
  destruct x as [|a' x'].
  - cbn [app]. rewrite nd_cons2, Hy, (Hb a) by (left; reflexivity). reflexivity.
  - rewrite nd_cons2 in Hx. apply andb_true_iff in Hx as [H1 H2].
    change ((a :: a' :: x') ++ b :: y) with (a :: a' :: (x' ++ b :: y)). rewrite nd_cons2, H1.
    apply (IH H2 Hy). intros c Hc. apply Hb. right. exact Hc.
Qed.

Definition inside (n m : hnode) : bool := (h_start n <=? h_start m) && (h_start m <? h_start n + h_len n).

Lemma children_ok_some nx n : children_ok (Some nx) n = (h_nchild n =? length (filter (inside n) nx)).
Proof. reflexivity. Qed.

(** nodes that start outside [n]'s span do not count *)
Lemma children_ok_frame pre A B n :
  (forall m, In m pre -> h_start m < h_start n) ->
  (forall m, In m B -> h_start n + h_len n <= h_start m) ->
  children_ok (Some (pre ++ A ++ B)) n = children_ok (Some A) n.
Proof.
  intros Hp HB. rewrite !children_ok_some, !filter_app, !app_length.
  rewrite (filter_none (inside n) pre), (filter_none (inside n) B); [cbn [length]; rewrite Nat.add_0_r; reflexivity| |].
  - intros m Hm. unfold inside. specialize (HB m Hm). destruct (Nat.ltb_spec (h_start m) (h_start n + h_len n)); [lia|].
    apply andb_false_r.
  - intros m Hm. unfold inside. specialize (Hp m Hm). destruct (Nat.leb_spec (h_start n) (h_start m)); [lia|]. reflexivity.
Qed.

(* ------------------------------------------------------------------ *)
(** ** the walk satisfies the per-level conditions *)
Section Walk.
Variable keys : list key.
Variable nf : nat.
Hypothesis Hlen : forall k, In k keys -> length k = nf.

(** level conditions for the nodes covering [s, e) *)
Definition LOK (L s : nat) (nodes : list hnode) (e : nat) (next : option (list hnode)) : Prop :=
  contiguous s nodes = Some e /\ forallb (node_ok keys L) nodes = true /\
  neighbours_differ keys L nodes = true /\ forallb (children_ok next) nodes = true.

Definition nxt (pre : list hnode) (f j : nat) (W : list (list hnode)) : option (list hnode) :=
  if S j <? f then Some (pre ++ lvl (S j) W) else None.

(** the keys of the runs agree on fields [0..level) *)
Definition same_prefix (level : nat) (P : key) (sl : list key) : Prop :=
  forall k, In k sl -> firstn level k = P.

Lemma run_key level r off p :
  run_ok level r -> is_slice keys off (snd r) -> off <= p < off + length (snd r) ->
  exists k, nth_error keys p = Some k /\ In k (snd r) /\ kget level k = fst r.
Proof.
  intros [_ Hv] Hs Hp. destruct (is_slice_at keys off (snd r) p Hs Hp) as [k [H1 H2]].
  exists k. split; [exact H1|]. split; [exact H2|].
  rewrite Forall_forall in Hv. apply Hv. exact H2.
Qed.

(** within a run, keys agree on fields [0..level] *)
Lemma run_prefix level P r off a b :
  level < nf -> run_ok level r -> is_slice keys off (snd r) -> same_prefix level P (snd r) ->
  In a (snd r) -> In b (snd r) -> firstn (S level) a = firstn (S level) b.
Proof.
  intros Hl [_ Hv] Hs HP Ha Hb. rewrite Forall_forall in Hv.
  apply prefix_extend.
  - rewrite (Hlen a) by (eapply is_slice_in; eassumption). exact Hl.
  - rewrite (Hlen b) by (eapply is_slice_in; eassumption). exact Hl.
  - rewrite (HP a Ha), (HP b Hb). reflexivity.
  - rewrite (Hv a Ha), (Hv b Hb). reflexivity.
Qed.

Section Step.
Variable f : nat.
(** induction hypothesis: the statement for walks of depth [f] *)
Hypothesis IHf : forall level slice start P,
  slice <> [] -> is_slice keys start slice -> same_prefix level P slice -> level + f <= nf ->
  forall j, j < f ->
  LOK (level + j) start (lvl j (walk f level slice start)) (start + length slice)
      (nxt [] f j (walk f level slice start)).

Lemma sub_ok level P : forall runs off,
  Forall (run_ok level) runs -> adjacent_differ runs ->
  is_slice keys off (concat (map snd runs)) -> same_prefix level P (concat (map snd runs)) ->
  S level + f <= nf ->
  forall j, j < f ->
  let nodes := lvl j (sub_levels f level off runs) in
  contiguous off nodes = Some (off + total runs) /\
  forallb (node_ok keys (S level + j)) nodes = true /\
  neighbours_differ keys (S level + j) nodes = true /\
  (forall pre, (forall m, In m pre -> h_start m < off) ->
     forallb (children_ok (nxt pre f j (sub_levels f level off runs))) nodes = true).
Proof.
  induction runs as [|r rs IH]; intros off Hok Hadj Hs HP Hnf j Hj; cbn zeta.
  - cbn [sub_levels]. rewrite lvl_nil. unfold total. cbn [map concat length contiguous forallb neighbours_differ].
    rewrite Nat.add_0_r. repeat split; reflexivity.
  - inversion Hok as [|? ? Hr Hrs]; subst.
    cbn [map concat] in Hs, HP. destruct (is_slice_app _ _ _ _ Hs) as [Hs1 Hs2].
    assert (HP1 : same_prefix level P (snd r)) by (intros k Hk; apply HP, in_or_app; left; exact Hk).
    assert (HP2 : same_prefix level P (concat (map snd rs))) by (intros k Hk; apply HP, in_or_app; right; exact Hk).
    assert (Hadj2 : adjacent_differ rs) by (destruct rs; [exact I|apply Hadj]).
    destruct Hr as [Hne Hv].
    (* the sub-walk of the first run *)
    assert (HP1' : same_prefix (S level) (firstn (S level) (hd [] (snd r))) (snd r)).
    { intros k Hk. eapply (run_prefix level P r off); try eassumption; [lia|split; assumption|].
      destruct (snd r) as [|k0 ?]; [congruence|left; reflexivity]. }
    pose proof (IHf (S level) (snd r) off _ Hne Hs1 HP1' Hnf) as Hw.
    set (Wr := walk f (S level) (snd r) off) in *.
    destruct (Hw j Hj) as [X1 [X2 [X3 X4]]].
    destruct (IH (off + length (snd r)) Hrs Hadj2 Hs2 HP2 Hnf j Hj) as [Y1 [Y2 [Y3 Y4]]].
    set (y := lvl j (sub_levels f level (off + length (snd r)) rs)) in *.
    rewrite sub_levels_cons_lvl. fold Wr. fold y. set (x := lvl j Wr) in *.
    destruct (contiguous_bounds _ _ _ X1) as [_ Bx].
    destruct (contiguous_bounds _ _ _ Y1) as [_ By].
    split; [|split; [|split]].
    + rewrite contiguous_app, X1, Y1, total_cons. f_equal. lia.
    + rewrite forallb_app, X2, Y2. reflexivity.
    + destruct y as [|b y'] eqn:Ey; [rewrite app_nil_r; exact X3|].
      apply nd_app; [exact X3|exact Y3|]. intros a Ha.
      (* [a] starts inside run [r], [b] starts the next run *)
      destruct rs as [|r2 rs'].
      { exfalso. subst y. cbn [sub_levels] in Ey. rewrite lvl_nil in Ey. discriminate. }
      destruct (Bx a Ha) as [A1 [A2 A3]].
      destruct (run_key level r off (h_start a) (conj Hne Hv) Hs1 ltac:(lia)) as [ka [Ka1 [Ka2 Ka3]]].
      assert (Hb : h_start b = off + length (snd r)).
      { destruct (contiguous_head _ _ _ Y1) as [n [r' [E1 E2]]].
        - rewrite total_cons. inversion Hrs as [|? ? [Hne2 _] _]; subst.
          destruct (snd r2); [congruence|cbn [length]; lia].
        - injection E1 as <- <-. exact E2. }
      inversion Hrs as [|? ? Hr2 Hrs2]; subst.
      cbn [map concat] in Hs2. destruct (is_slice_app _ _ _ _ Hs2) as [Hs2a _].
      destruct (run_key level r2 (off + length (snd r)) (h_start b) Hr2 Hs2a) as [kb [Kb1 [Kb2 Kb3]]].
      { destruct Hr2 as [Hne2 _]. destruct (snd r2); [congruence|cbn [length]; lia]. }
      unfold nd_pair. rewrite Ka1, Kb1.
      rewrite (prefix_differs (S (S level + j)) ka kb level); [reflexivity| |lia].
      rewrite Ka3, Kb3. destruct Hadj as [Hd _]. exact Hd.
    + intros pre Hpre. rewrite forallb_app. apply andb_true_iff. split.
      * (* nodes of the first run's sub-walk *)
        unfold nxt in *. destruct (Nat.ltb_spec (S j) f) as [Hlt|Hge]; [|exact X4].
        rewrite sub_levels_cons_lvl. fold Wr.
        destruct (Hw (S j) Hlt) as [Z1 _]. destruct (contiguous_bounds _ _ _ Z1) as [_ Bz].
        destruct (IH (off + length (snd r)) Hrs Hadj2 Hs2 HP2 Hnf (S j) Hlt) as [Z2 _].
        destruct (contiguous_bounds _ _ _ Z2) as [_ Bz2].
        rewrite forallb_forall in X4 |- *. intros n Hn. cbn [app] in X4.
        rewrite children_ok_frame; [apply X4; exact Hn| |].
        -- intros m Hm. specialize (Hpre m Hm). destruct (Bx n Hn). lia.
        -- intros m Hm. destruct (Bz2 m Hm) as [C1 _]. destruct (Bx n Hn) as [_ [_ C2]]. lia.
      * (* nodes of the remaining runs: the first run's next level is to their left *)
        unfold nxt in *. destruct (Nat.ltb_spec (S j) f) as [Hlt|Hge].
        -- rewrite sub_levels_cons_lvl. fold Wr. rewrite app_assoc.
           apply Y4. intros m Hm. apply in_app_or in Hm as [Hm|Hm]; [specialize (Hpre m Hm); lia|].
           destruct (Hw (S j) Hlt) as [Z1 _]. destruct (contiguous_bounds _ _ _ Z1) as [_ Bz].
           destruct (Bz m Hm) as [_ [C1 C2]]. lia.
        -- apply (Y4 []). intros m [].
Qed.

Lemma run_nodes_ok level P : forall runs off,
  Forall (run_ok level) runs -> adjacent_differ runs ->
  is_slice keys off (concat (map snd runs)) -> same_prefix level P (concat (map snd runs)) ->
  S level + f <= nf ->
  let nodes := run_nodes f level off runs in
  contiguous off nodes = Some (off + total runs) /\
  forallb (node_ok keys level) nodes = true /\
  neighbours_differ keys level nodes = true /\
  (forall pre, (forall m, In m pre -> h_start m < off) ->
     forallb (children_ok (if 0 <? f then Some (pre ++ lvl 0 (sub_levels f level off runs)) else None)) nodes = true).
Proof.
  induction runs as [|r rs IH]; intros off Hok Hadj Hs HP Hnf; cbn zeta.
  - cbn [run_nodes]. unfold total. cbn [map concat length contiguous forallb neighbours_differ].
    rewrite Nat.add_0_r. repeat split; reflexivity.
  - inversion Hok as [|? ? Hr Hrs]; subst.
    cbn [map concat] in Hs, HP. destruct (is_slice_app _ _ _ _ Hs) as [Hs1 Hs2].
    assert (HP1 : same_prefix level P (snd r)) by (intros k Hk; apply HP, in_or_app; left; exact Hk).
    assert (HP2 : same_prefix level P (concat (map snd rs))) by (intros k Hk; apply HP, in_or_app; right; exact Hk).
    assert (Hadj2 : adjacent_differ rs) by (destruct rs; [exact I|apply Hadj]).
    destruct (IH (off + length (snd r)) Hrs Hadj2 Hs2 HP2 Hnf) as [Y1 [Y2 [Y3 Y4]]].
    pose proof Hr as [Hne Hv].
    assert (Hpos : 1 <= length (snd r)) by (destruct (snd r); [congruence|cbn [length]; lia]).
    destruct (run_key level r off off Hr Hs1 ltac:(lia)) as [k0 [K1 [K2 K3]]].
    cbn [run_nodes]. set (Wr := walk f (S level) (snd r) off) in *.
    set (n0 := mkH level (fst r) off (length (snd r)) (length (hd [] Wr))).
    split; [|split; [|split]].
    + cbn [contiguous]. unfold n0 at 1 2. cbn [h_start h_len]. rewrite Nat.eqb_refl.
      destruct (Nat.leb_spec 1 (length (snd r))); [|lia]. cbn [andb].
      unfold n0. cbn [h_len]. rewrite Y1, total_cons. f_equal. lia.
    + cbn [forallb]. rewrite Y2, andb_true_r.
      unfold node_ok, n0. cbn [h_field h_start h_len h_value]. rewrite Nat.eqb_refl, K1. cbn [andb].
      rewrite (is_slice_firstn keys (snd r) off Hs1). apply forallb_forall. intros k Hk.
      rewrite Forall_forall in Hv. rewrite (Hv k Hk), beq_refl. cbn [andb].
      apply prefix_eqb_eq. eapply (run_prefix level P r off); try eassumption. lia.
    + destruct rs as [|r2 rs']; [reflexivity|].
      cbn [run_nodes] in Y3 |- *. rewrite nd_cons2, Y3, andb_true_r.
      inversion Hrs as [|? ? Hr2 _]; subst.
      cbn [map concat] in Hs2. destruct (is_slice_app _ _ _ _ Hs2) as [Hs2a _].
      destruct (run_key level r2 (off + length (snd r)) (off + length (snd r)) Hr2 Hs2a) as [kb [Kb1 [Kb2 Kb3]]].
      { destruct Hr2 as [Hne2 _]. destruct (snd r2); [congruence|cbn [length]; lia]. }
      unfold nd_pair, n0. cbn [h_start]. rewrite K1, Kb1.
      rewrite (prefix_differs (S level) k0 kb level); [reflexivity| |lia].
      rewrite K3, Kb3. destruct Hadj as [Hd _]. exact Hd.
    + intros pre Hpre. cbn [forallb]. apply andb_true_iff.
      destruct (Nat.ltb_spec 0 f) as [Hf|Hf].
      * assert (HP1' : same_prefix (S level) (firstn (S level) (hd [] (snd r))) (snd r)).
        { intros k Hk. eapply (run_prefix level P r off); try eassumption; [lia|].
          destruct (snd r) as [|k1 ?]; [congruence|left; reflexivity]. }
        destruct (IHf (S level) (snd r) off _ Hne Hs1 HP1' Hnf 0 Hf) as [Z1 _]. fold Wr in Z1.
        destruct (contiguous_bounds _ _ _ Z1) as [_ Bz].
        destruct (sub_ok level P rs (off + length (snd r)) Hrs Hadj2 Hs2 HP2 Hnf 0 Hf) as [Z2 _].
        destruct (contiguous_bounds _ _ _ Z2) as [_ Bz2].
        rewrite sub_levels_cons_lvl. fold Wr. split.
        -- rewrite children_ok_frame.
           ++ rewrite children_ok_some. unfold n0 at 1. cbn [h_nchild]. rewrite hd_lvl.
              rewrite (filter_all_id (inside n0) (lvl 0 Wr)); [apply Nat.eqb_refl|].
              intros m Hm. destruct (Bz m Hm) as [C1 [C2 C3]]. unfold inside, n0. cbn [h_start h_len].
              destruct (Nat.leb_spec off (h_start m)); [|lia].
              destruct (Nat.ltb_spec (h_start m) (off + length (snd r))); [reflexivity|lia].
           ++ intros m Hm. specialize (Hpre m Hm). unfold n0. cbn [h_start]. exact Hpre.
           ++ intros m Hm. destruct (Bz2 m Hm) as [C1 _]. unfold n0. cbn [h_start h_len]. exact C1.
        -- rewrite app_assoc. specialize (Y4 (pre ++ lvl 0 Wr)).
           destruct (Nat.ltb_spec 0 f); [|lia]. apply Y4.
           intros m Hm. apply in_app_or in Hm as [Hm|Hm]; [specialize (Hpre m Hm); lia|].
           destruct (Bz m Hm) as [_ [C1 C2]]. lia.
      * assert (f = 0) by lia. subst f. split.
        -- unfold children_ok, n0, Wr. cbn [h_nchild walk hd length]. reflexivity.
        -- specialize (Y4 []). destruct (Nat.ltb_spec 0 0); [lia|]. apply Y4. intros m [].
Qed.
End Step.

Theorem walk_ok : forall f level slice start P,
  slice <> [] -> is_slice keys start slice -> same_prefix level P slice -> level + f <= nf ->
  forall j, j < f ->
  LOK (level + j) start (lvl j (walk f level slice start)) (start + length slice)
      (nxt [] f j (walk f level slice start)).
Proof.
  induction f as [|f IHf]; intros level slice start P Hne Hs HP Hnf j Hj; [lia|].
  rewrite walk_S'.
  pose proof (group_runs_concat level slice) as Hc.
  pose proof (group_runs_ok level slice) as Hok.
  pose proof (group_runs_maximal level slice) as Hadj.
  set (runs := group_runs level slice) in *.
  assert (Hs' : is_slice keys start (concat (map snd runs))) by (rewrite Hc; exact Hs).
  assert (HP' : same_prefix level P (concat (map snd runs))) by (rewrite Hc; exact HP).
  assert (Ht : total runs = length slice) by (unfold total; rewrite Hc; reflexivity).
  destruct j as [|j].
  - destruct (run_nodes_ok f IHf level P runs start Hok Hadj Hs' HP' ltac:(lia)) as [A1 [A2 [A3 A4]]].
    rewrite Nat.add_0_r. unfold LOK. change (lvl 0 (?a :: ?b)) with a. rewrite <- Ht.
    split; [exact A1|]. split; [exact A2|]. split; [exact A3|].
    specialize (A4 [] ltac:(intros m [])). unfold nxt. cbn [app] in A4 |- *.
    change (lvl 1 (?a :: ?b)) with (lvl 0 b).
    change (1 <? S f) with (0 <? f). exact A4.
  - destruct (sub_ok f IHf level P runs start Hok Hadj Hs' HP' ltac:(lia) j ltac:(lia)) as [A1 [A2 [A3 A4]]].
    replace (level + S j) with (S level + j) by lia. unfold LOK.
    change (lvl (S j) (?a :: ?b)) with (lvl j b). rewrite <- Ht.
    split; [exact A1|]. split; [exact A2|]. split; [exact A3|].
    specialize (A4 [] ltac:(intros m [])). unfold nxt in *. cbn [app] in A4 |- *.
    change (lvl (S (S j)) (?a :: ?b)) with (lvl (S j) b).
    change (S (S j) <? S f) with (S j <? f). exact A4.
Qed.

(** ** assembling [levels_ok] *)
Definition next_of (lv : list (list hnode)) (j : nat) : option (list hnode) := nth_error lv (S j).

Lemma levels_ok_intro : forall lv L,
  (forall j, j < length lv -> LOK (L + j) 0 (lvl j lv) (length keys) (next_of lv j)) ->
  levels_ok keys L lv = true.
Proof.
  induction lv as [|nodes rest IH]; intros L H; [reflexivity|].
  cbn [levels_ok].
  destruct (H 0 ltac:(cbn; lia)) as [A1 [A2 [A3 A4]]]. rewrite Nat.add_0_r in *.
  change (lvl 0 (nodes :: rest)) with nodes in *. rewrite A1, Nat.eqb_refl, A2, A3. cbn [andb].
  replace (match rest with [] => None | nx :: _ => Some nx end) with (next_of (nodes :: rest) 0)
    by (unfold next_of; destruct rest; reflexivity).
  rewrite A4. cbn [andb]. apply IH. intros j Hj.
  specialize (H (S j) ltac:(cbn; lia)). replace (L + S j) with (S L + j) in H by lia. exact H.
Qed.
End Walk.

(** the header tree NewKeyHeader builds satisfies the evaluated description *)
Theorem key_header_ok nf keys :
  Forall (fun k => length k = nf) keys -> header_ok nf keys (key_header nf keys) = true.
Proof.
  intros Hall. rewrite Forall_forall in Hall.
  destruct keys as [|k0 keys']; [reflexivity|].
  set (keys := k0 :: keys') in *. unfold header_ok, key_header. fold keys.
  change (match keys with [] => ?a | _ :: _ => ?b end) with b.
  change (match keys with [] => ?a | _ :: _ => ?b end) with b.
  assert (Hne : keys <> []) by discriminate.
  rewrite (walk_length nf 0 keys 0 Hne), Nat.eqb_refl. cbn [andb].
  apply (levels_ok_intro keys). intros j Hj. rewrite (walk_length nf 0 keys 0 Hne) in Hj.
  pose proof (walk_ok keys nf Hall nf 0 keys 0 [] Hne) as W.
  specialize (W ltac:(intros i Hi; reflexivity) ltac:(intros k Hk; reflexivity) ltac:(lia) j Hj).
  cbn [Nat.add] in W. unfold nxt, next_of in *. cbn [app] in W.
  destruct (Nat.ltb_spec (S j) nf) as [Hlt|Hge].
  - rewrite (nth_error_nth' _ [] (n := S j)) by (rewrite walk_length by exact Hne; exact Hlt). exact W.
  - replace (nth_error (walk nf 0 keys 0) (S j)) with (@None (list hnode)); [exact W|].
    symmetry. apply nth_error_None. rewrite walk_length by exact Hne. exact Hge.
Qed.
