(** Proofs about parseQuery and about queries / listings over the stored state
    (Model/Query.v, Model/StoreFmt.v): the parts parseQuery hands to SQL mean
    exactly the conjunction of all terms of the query text; keys come out
    sorted and distinct; a query returns exactly the stored results of the
    records satisfying every term; listings count those records per upload,
    newest first, limited. SQLite's evaluation of the generated SQL is the
    assumed meaning [part_selects] (trusted, not modelled). *)
From Coq Require Import Permutation.
From Perf Require Import Base.Bytes Model.Words Model.Query Model.StoreFmt Proofs.Query.

(** ** merge keeps the key *)
Lemma finish_ltgt_key k v v2 m : finish_ltgt k v v2 = Some m -> p_key m = k.
Proof.
  unfold finish_ltgt. destruct (ble v v2 || beq v []); [discriminate|].
  destruct (beq v2 []); intros [= <-]; reflexivity.
Qed.

Lemma merge_key p p2 m k : p_key p = k -> p_key p2 = k -> merge p p2 = Some m -> p_key m = k.
Proof.
  intros K1 K2. unfold merge.
  destruct (op_rank (p_op p2) <? op_rank (p_op p))%N; unfold merge_ordered;
    destruct (p_op p), (p_op p2);
    repeat match goal with
    | |- (if ?c then _ else _) = _ -> _ => destruct c
    end;
    intros H; try discriminate H; try congruence;
    try (apply finish_ltgt_key in H; congruence).
Qed.

(** ** a term on a label map; records the query layer can meet *)

Definition tl (L : labels) (p : part) : bool := term_holds p L.

(** label values are non-empty *)
Definition wf_map (L : labels) : Prop := forall k v, lookup k L = Some v -> v <> [].

Lemma term_merge L old p np :
  wf_map L -> p_key old = p_key p -> merge old p = Some np ->
  tl L np = tl L old && tl L p.
Proof.
  intros Hwf Hk Hm. pose proof (merge_key old p np (p_key p) Hk eq_refl Hm) as Hnk.
  unfold tl, term_holds. rewrite Hnk, Hk.
  destruct (lookup (p_key p) L) as [v|] eqn:E; [|reflexivity].
  pose proof (merge_two_conj old p v (Hwf _ _ E)) as H. rewrite Hm in H. exact H.
Qed.

Lemma term_merge_eof L old p :
  wf_map L -> p_key old = p_key p -> merge old p = None -> tl L old && tl L p = false.
Proof.
  intros Hwf Hk Hm. unfold tl, term_holds. rewrite Hk.
  destruct (lookup (p_key p) L) as [v|] eqn:E; [|reflexivity].
  pose proof (merge_two_conj old p v (Hwf _ _ E)) as H. rewrite Hm in H. symmetry. exact H.
Qed.

Lemma assoc_get_key k m p : assoc_get k m = Some p -> p_key p = k /\ In p m.
Proof.
  induction m as [|x m IH]; cbn [assoc_get]; [discriminate|].
  destruct (beq_spec (p_key x) k) as [E|_].
  - intros [= <-]. split; [exact E | left; reflexivity].
  - intros H. destruct (IH H) as [H1 H2]. split; [exact H1 | right; exact H2].
Qed.

Lemma assoc_set_forallb (f : part -> bool) m old np x :
  assoc_get (p_key np) m = Some old -> f np = f old && x ->
  forallb f (assoc_set np m) = forallb f m && x.
Proof.
  induction m as [|y m IH]; cbn [assoc_get assoc_set forallb]; [discriminate|].
  destruct (beq (p_key y) (p_key np)).
  - intros [= ->] Hf. cbn [forallb]. rewrite Hf. destruct (f old), x, (forallb f m); reflexivity.
  - intros H Hf. cbn [forallb]. rewrite (IH H Hf). rewrite andb_assoc. reflexivity.
Qed.

(** ** the word loop of parseQuery *)

Lemma parse_words_ok ws : forall m m',
  parse_words ws m = QOk m' ->
  exists ts, terms_of_words ws = Some ts
    /\ forall L, wf_map L -> forallb (tl L) m' = forallb (tl L) m && forallb (tl L) ts.
Proof.
  induction ws as [|w ws IH]; intros m m' H; cbn [parse_words terms_of_words] in *.
  - inversion H; subst. exists []. split; [reflexivity|]. intros L _. cbn. rewrite andb_true_r. reflexivity.
  - destruct (parse_word w) as [p|e]; [|discriminate].
    destruct (assoc_get (p_key p) m) as [old|] eqn:Eg.
    + destruct (merge old p) as [np|] eqn:Em; [|discriminate].
      destruct (IH _ _ H) as (ts & Ets & Hts). rewrite Ets. exists (p :: ts). split; [reflexivity|].
      intros L HL. rewrite (Hts L HL). cbn [forallb].
      destruct (assoc_get_key _ _ _ Eg) as [Hk _].
      pose proof (merge_key old p np (p_key p) Hk eq_refl Em) as Hnk.
      rewrite (assoc_set_forallb (tl L) m old np (tl L p)).
      * rewrite andb_assoc. reflexivity.
      * rewrite Hnk. exact Eg.
      * apply term_merge; assumption.
    + destruct (IH _ _ H) as (ts & Ets & Hts). rewrite Ets. exists (p :: ts). split; [reflexivity|].
      intros L HL. rewrite (Hts L HL). rewrite forallb_app. cbn [forallb].
      rewrite andb_true_r, andb_assoc. reflexivity.
Qed.

Lemma forallb_In_false {A} (f : A -> bool) l x : In x l -> f x = false -> forallb f l = false.
Proof.
  induction l as [|y l IH]; [intros []|]. intros [->|H] Hf; cbn [forallb].
  - rewrite Hf. reflexivity.
  - rewrite (IH H Hf). apply andb_false_r.
Qed.

Lemma parse_words_eof ws : forall m,
  parse_words ws m = QEof ->
  forall ts, terms_of_words ws = Some ts ->
  forall L, wf_map L -> forallb (tl L) m && forallb (tl L) ts = false.
Proof.
  induction ws as [|w ws IH]; intros m H ts Hts L HL; cbn [parse_words terms_of_words] in *; [discriminate|].
  destruct (parse_word w) as [p|e]; [|discriminate].
  destruct (terms_of_words ws) as [ts'|] eqn:Ets; [|discriminate]. inversion Hts; subst ts. cbn [forallb].
  destruct (assoc_get (p_key p) m) as [old|] eqn:Eg.
  - destruct (assoc_get_key _ _ _ Eg) as [Hk Hin].
    destruct (merge old p) as [np|] eqn:Em.
    + pose proof (merge_key old p np (p_key p) Hk eq_refl Em) as Hnk.
      pose proof (IH _ H ts' eq_refl L HL) as H2.
      rewrite (assoc_set_forallb (tl L) m old np (tl L p)) in H2.
      * rewrite andb_assoc. exact H2.
      * rewrite Hnk. exact Eg.
      * apply term_merge; assumption.
    + pose proof (term_merge_eof L old p HL Hk Em) as Hf.
      destruct (tl L p) eqn:Ep; [|rewrite andb_false_r; reflexivity].
      rewrite andb_true_r in Hf. rewrite (forallb_In_false _ _ _ Hin Hf). reflexivity.
  - pose proof (IH _ H ts' eq_refl L HL) as H2. rewrite forallb_app in H2. cbn [forallb] in H2.
    rewrite andb_true_r in H2. rewrite andb_assoc. exact H2.
Qed.

(** ** sorting the keys *)

Lemma insert_part_perm p l : Permutation (insert_part p l) (p :: l).
Proof.
  induction l as [|x l IH]; cbn [insert_part]; [reflexivity|].
  destruct (bltb (p_key x) (p_key p)); [|reflexivity].
  rewrite IH. apply perm_swap.
Qed.

Lemma sort_parts_perm l : Permutation (sort_parts l) l.
Proof.
  induction l as [|x l IH]; cbn [sort_parts fold_right]; [reflexivity|].
  fold (sort_parts l). rewrite insert_part_perm. constructor. exact IH.
Qed.

Lemma forallb_perm {A} (f : A -> bool) l l' : Permutation l l' -> forallb f l = forallb f l'.
Proof.
  induction 1; cbn [forallb]; try congruence.
  rewrite !andb_assoc, (andb_comm (f y) (f x)). reflexivity.
Qed.

(** keys in non-decreasing order *)
Fixpoint keys_sorted (l : list part) : Prop :=
  match l with
  | [] => True
  | p :: l' => (forall q, In q l' -> ~ blt_p (p_key q) (p_key p)) /\ keys_sorted l'
  end.

Lemma insert_part_sorted p l : keys_sorted l -> keys_sorted (insert_part p l).
Proof.
  induction l as [|x l IH]; cbn [insert_part keys_sorted].
  - intros _. split; [intros q [] | exact I].
  - intros [Hx Hs]. destruct (bltb_spec (p_key x) (p_key p)) as [L|N]; cbn [keys_sorted].
    + split; [|apply IH; exact Hs]. intros q Hq.
      apply (Permutation_in _ (insert_part_perm p l)) in Hq as [<-|Hq]; [|apply Hx; exact Hq].
      intros L2. exact (blt_irrefl _ (blt_trans _ _ _ L L2)).
    + split; [|split; assumption]. intros q [<-|Hq]; [exact N|].
      intros L. apply (Hx q Hq). destruct (blt_total (p_key x) (p_key p)) as [L1|[E|L1]].
      * contradiction.
      * rewrite E. exact L.
      * eapply blt_trans; eassumption.
Qed.

Lemma sort_parts_sorted l : keys_sorted (sort_parts l).
Proof.
  induction l as [|x l IH]; cbn [sort_parts fold_right]; [exact I|]. apply insert_part_sorted. exact IH.
Qed.

(** keys of the word loop's table stay distinct *)
Definition keys_of (m : list part) : list bytes := map p_key m.

Lemma assoc_get_none_notin k m : assoc_get k m = None -> ~ In k (keys_of m).
Proof.
  induction m as [|x m IH]; cbn [assoc_get keys_of map]; [intros _ []|].
  destruct (beq_spec (p_key x) k) as [|Hn]; [discriminate|].
  intros H [E|Hin]; [contradiction | exact (IH H Hin)].
Qed.

Lemma keys_assoc_set np m old :
  assoc_get (p_key np) m = Some old -> keys_of (assoc_set np m) = keys_of m.
Proof.
  induction m as [|x m IH]; cbn [assoc_get assoc_set keys_of map]; [discriminate|].
  destruct (beq_spec (p_key x) (p_key np)) as [E|_].
  - intros _. cbn [map]. rewrite E. reflexivity.
  - intros H. cbn [map]. f_equal. apply IH. exact H.
Qed.

Lemma parse_words_nodup ws : forall m m',
  NoDup (keys_of m) -> parse_words ws m = QOk m' -> NoDup (keys_of m').
Proof.
  induction ws as [|w ws IH]; intros m m' Hnd H; cbn [parse_words] in H.
  - inversion H; subst. exact Hnd.
  - destruct (parse_word w) as [p|e]; [|discriminate].
    destruct (assoc_get (p_key p) m) as [old|] eqn:Eg.
    + destruct (merge old p) as [np|] eqn:Em; [|discriminate].
      destruct (assoc_get_key _ _ _ Eg) as [Hk _].
      pose proof (merge_key old p np (p_key p) Hk eq_refl Em) as Hnk.
      apply (IH _ _) in H; [exact H|]. rewrite (keys_assoc_set np m old); [exact Hnd|].
      rewrite Hnk. exact Eg.
    + apply (IH _ _) in H; [exact H|]. unfold keys_of. rewrite map_app. cbn [map].
      apply (Permutation_NoDup (l := p_key p :: map p_key m)); [apply Permutation_cons_append|].
      constructor; [apply assoc_get_none_notin; exact Eg | exact Hnd].
Qed.

(** parseQuery hands SQL one part per key, keys strictly increasing *)
Theorem parse_query_sorted_keys q ps :
  parse_query q = QOk ps -> keys_sorted ps /\ NoDup (keys_of ps).
Proof.
  unfold parse_query. destruct (parse_words (split_words q) []) as [e| |m] eqn:E; try discriminate.
  destruct (forallb sql_ok (sort_parts m)); [|discriminate]. intros [= <-].
  split; [apply sort_parts_sorted|].
  apply (Permutation_NoDup (l := keys_of m)).
  - unfold keys_of. apply Permutation_map. symmetry. apply sort_parts_perm.
  - eapply parse_words_nodup; [|exact E]. constructor.
Qed.

(** ** what the parts select is what the terms say *)

(** a stored record as queries see it: non-empty label values, and the server's
    "upload" label is the upload ID *)
Definition wf_qrec (r : qrec) : Prop :=
  wf_map (q_labels r) /\ lookup key_upload (q_labels r) = Some (q_upload r).

Lemma part_selects_term p r : wf_qrec r -> part_selects p r = tl (q_labels r) p.
Proof.
  intros [Hwf Hup]. unfold part_selects, tl, term_holds.
  destruct (beq_spec (p_key p) key_upload) as [E|_].
  - rewrite E, Hup. reflexivity.
  - destruct (lookup (p_key p) (q_labels r)) as [v|] eqn:El; [|reflexivity].
    unfold sql_value_cond, holds. destruct (p_op p); try reflexivity.
    destruct (beq_spec (p_v p) []) as [->|_]; [|reflexivity].
    unfold bgt, bltb. destruct v; [exfalso; exact (Hwf _ _ El eq_refl) | reflexivity].
Qed.

Lemma forallb_ext' {A} (f g : A -> bool) l : (forall x, f x = g x) -> forallb f l = forallb g l.
Proof. intros H. induction l as [|x l IH]; cbn [forallb]; [reflexivity|]. rewrite H, IH. reflexivity. Qed.

(** the parts parseQuery produces select a record iff every term of the query
    text holds of its labels (bytewise comparisons, terms on one key conjoined) *)
Theorem query_means_terms q ps :
  parse_query q = QOk ps ->
  exists ts, query_terms q = Some ts
    /\ forall r, wf_qrec r -> query_selects ps r = terms_hold ts (q_labels r).
Proof.
  unfold parse_query, query_terms.
  destruct (parse_words (split_words q) []) as [e| |m] eqn:E; try discriminate.
  destruct (forallb sql_ok (sort_parts m)); [|discriminate]. intros [= <-].
  destruct (parse_words_ok _ _ _ E) as (ts & Ets & Hts). exists ts. split; [exact Ets|].
  intros r Hr. unfold query_selects, terms_hold.
  rewrite (forallb_ext' _ (tl (q_labels r))) by (intros p; apply part_selects_term; exact Hr).
  rewrite (forallb_perm _ _ _ (sort_parts_perm m)).
  rewrite (Hts _ (proj1 Hr)). reflexivity.
Qed.

(** io.EOF from parseQuery: no stored record satisfies all terms *)
Theorem query_eof_means_none q :
  parse_query q = QEof ->
  forall ts, query_terms q = Some ts -> forall L, wf_map L -> terms_hold ts L = false.
Proof.
  unfold parse_query, query_terms.
  destruct (parse_words (split_words q) []) as [e| |m] eqn:E; try discriminate.
  - intros _ ts Hts L HL. exact (parse_words_eof _ _ E ts Hts L HL).
  - destruct (forallb sql_ok (sort_parts m)); discriminate.
Qed.

(** ** queries and listings over the stored state *)

Definition wf_db (d : db) : Prop :=
  forall s rc, In s d -> In rc (s_recs s) -> wf_qrec (qrec_of (s_id s) rc).

Lemma filter_ext_in' {A} (f g : A -> bool) l : (forall x, In x l -> f x = g x) -> filter f l = filter g l.
Proof.
  induction l as [|x l IH]; intros H; cbn [filter]; [reflexivity|].
  rewrite (H x (or_introl eq_refl)), IH; [reflexivity|]. intros y Hy. apply H. right; exact Hy.
Qed.

Lemma flat_map_ext_in {A B} (f g : A -> list B) l : (forall x, In x l -> f x = g x) -> flat_map f l = flat_map g l.
Proof.
  induction l as [|x l IH]; intros H; cbn [flat_map]; [reflexivity|].
  rewrite (H x (or_introl eq_refl)), IH; [reflexivity|]. intros y Hy. apply H. right; exact Hy.
Qed.

Lemma db_records_In d id rc : In (id, rc) (db_records d) -> exists s, In s d /\ s_id s = id /\ In rc (s_recs s).
Proof.
  unfold db_records. intros H. apply in_flat_map in H as (s & Hs & H).
  apply in_map_iff in H as (rc' & E & Hrc). inversion E; subst. eauto.
Qed.

Lemma flat_map_if_filter {A B} (f : A -> bool) (g : A -> list B) l :
  flat_map (fun x => if f x then g x else []) l = flat_map g (filter f l).
Proof.
  induction l as [|x l IH]; cbn [flat_map filter]; [reflexivity|].
  destruct (f x); cbn [flat_map app]; rewrite IH; reflexivity.
Qed.

Definition rec_satisfies (ts : list part) (ir : bytes * rec) : bool :=
  terms_hold ts (q_labels (qrec_of (fst ir) (snd ir))).

(** DB.Query returns exactly the results of the stored records whose labels
    satisfy every term of the query — each record once (a filter of the record
    list), each of its lines once *)
Theorem query_returns_exactly d q ps :
  wf_db d -> parse_query q = QOk ps ->
  exists ts, query_terms q = Some ts
    /\ db_query d q = inl (flat_map (fun ir => rec_results (snd ir))
                                    (filter (rec_satisfies ts) (db_records d))).
Proof.
  intros Hd Hq. destruct (query_means_terms q ps Hq) as (ts & Ets & Hsel). exists ts. split; [exact Ets|].
  unfold db_query. rewrite Hq. f_equal. unfold run_query.
  rewrite (flat_map_if_filter (fun ir => query_selects ps (qrec_of (fst ir) (snd ir)))).
  f_equal. apply filter_ext_in'. intros [id rc] Hin. unfold rec_satisfies. cbn [fst snd].
  apply Hsel. destruct (db_records_In d id rc Hin) as (s & Hs & <- & Hrc). apply Hd; assumption.
Qed.

(** a contradictory query returns nothing, and indeed nothing satisfies it *)
Theorem query_contradiction_is_empty d q :
  parse_query q = QEof ->
  db_query d q = inl [] /\ list_uploads d q 0 = inl []
  /\ forall ts, query_terms q = Some ts -> forall L, wf_map L -> terms_hold ts L = false.
Proof.
  intros Hq. unfold db_query, list_uploads. rewrite Hq. repeat split.
  apply query_eof_means_none. exact Hq.
Qed.

(** *** listings *)

Definition upload_count (ts : list part) (s : stored) : bytes * N :=
  (s_id s, N.of_nat (length (filter (fun rc => rec_satisfies ts (s_id s, rc)) (s_recs s)))).

(** ListUploads reports, for each upload with at least one matching record, the
    number of stored (coalesced) records satisfying every term; newest upload
    first (reverse creation order); at most [limit] entries when limit > 0 *)
Theorem listing_counts_matching_records d q ps limit :
  wf_db d -> parse_query q = QOk ps ->
  exists ts, query_terms q = Some ts
    /\ list_uploads d q limit
       = inl (take_limit limit (filter (fun ic => negb (snd ic =? 0)%N) (map (upload_count ts) (rev d)))).
Proof.
  intros Hd Hq. destruct (query_means_terms q ps Hq) as (ts & Ets & Hsel). exists ts. split; [exact Ets|].
  unfold list_uploads, list_uploads_parts. rewrite Hq. do 3 f_equal.
  apply map_ext_in. intros s Hs. unfold upload_count. do 3 f_equal.
  apply filter_ext_in'. intros rc Hrc. unfold rec_satisfies. cbn [fst snd]. apply Hsel.
  apply Hd; [apply in_rev; exact Hs | exact Hrc].
Qed.

Lemma take_limit_prefix {A} limit (l : list A) : exists r, l = take_limit limit l ++ r.
Proof.
  unfold take_limit. destruct (limit <=? 0)%Z.
  - exists []. rewrite app_nil_r. reflexivity.
  - exists (skipn (Z.to_nat limit) l). symmetry. apply firstn_skipn.
Qed.

Definition part_count (ps : list part) (s : stored) : bytes * N :=
  (s_id s, N.of_nat (length (filter (fun rc => query_selects ps (qrec_of (s_id s) rc)) (s_recs s)))).

(** the listing is a prefix — the newest — of the uploads having a matching
    record, in reverse creation order; with limit > 0 at most [limit] entries;
    no listed count is zero (uploads without matching records are hidden) *)
Theorem listing_newest_first_limited d ps limit :
  let l := list_uploads_parts d ps limit in
  (exists r, filter (fun ic => negb (snd ic =? 0)%N) (map (part_count ps) (rev d)) = l ++ r)
  /\ ((0 < limit)%Z -> (Z.of_nat (length l) <= limit)%Z)
  /\ Forall (fun ic => snd ic <> 0%N) l.
Proof.
  cbv zeta. unfold list_uploads_parts. fold (part_count ps).
  set (nz := filter (fun ic : bytes * N => negb (snd ic =? 0)%N) (map (part_count ps) (rev d))).
  split; [|split].
  - apply take_limit_prefix.
  - intros Hl. unfold take_limit. destruct (Z.leb_spec limit 0) as [|_]; [lia|].
    pose proof (firstn_le_length (Z.to_nat limit) nz). lia.
  - destruct (take_limit_prefix limit nz) as [r Hr].
    assert (Hall : Forall (fun ic : bytes * N => snd ic <> 0%N) nz).
    { apply Forall_forall. intros ic Hic. apply filter_In in Hic as [_ Hic].
      apply negb_true_iff, N.eqb_neq in Hic. exact Hic. }
    rewrite Hr in Hall. apply Forall_app in Hall. exact (proj1 Hall).
Qed.
