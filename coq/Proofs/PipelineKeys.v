(** The TABLE Keys of the composed benchstat model (Model/Pipeline.v).

    Proofs/Pipeline.v's [key_meaning] speaks about the row, column and residue
    Keys of a kept result (Projection.Project).  The table Keys come from
    tableBy.ProjectValues - one Key per remaining measurement, by its tidied
    unit.  Proofs/LosslessUnits.v (C08, the .unit dimension) says what such
    Keys read in the final state; this file lifts it to the run: for every
    kept result and every one of its remaining measurements, the table Key of
    that measurement reads the measurement's tidied unit in the .unit field and
    the extractor values of the result everywhere else, every non-excluded file
    key has its .config sub-field, and - tuple by tuple - the [m_t] of the tuple
    Builder.Add received is that Key. *)
From Perf Require Import Base.Bytes Base.B64.
From Perf Require Import Model.Name Model.Extract.
From Perf Require Model.Units Model.Reader Model.Files Model.FilterAst Model.FilterParse
  Model.ProjParse Model.FilterEval Model.Key Model.Sort Model.BenchTab.
From Perf Require Import Model.Projection Model.Pipeline.
From Perf Require Import Proofs.Projection Proofs.Exclusion Proofs.KeyGet Proofs.Lossless Proofs.LosslessUnits.
From Perf Require Import Proofs.Pipeline.
From Coq Require Import Lia.

Lemma Forall2_nth_error {A B} (R : A -> B -> Prop) l1 l2 :
  Forall2 R l1 l2 -> forall j x, nth_error l1 j = Some x -> exists y, nth_error l2 j = Some y /\ R x y.
Proof.
  induction 1 as [|a b l1 l2 H _ IH]; intros [|j] x Hx; try discriminate.
  - injection Hx as <-. exists b. split; auto.
  - cbn in Hx. apply IH in Hx. exact Hx.
Qed.

Lemma Forall2_length_eq {A B} (R : A -> B -> Prop) l1 l2 : Forall2 R l1 l2 -> length l1 = length l2.
Proof. induction 1; cbn; auto. Qed.

Section PipelineKeys.
Variables is_space is_lower is_upper : N -> bool.
Variable atoi : bytes -> option Z.
Variable parse_float : bytes -> option b64.
Variable re_ok : bytes -> bool.
Variable rematch : bytes -> bytes -> bool.

Notation run_facts := (run_facts is_space is_lower is_upper atoi parse_float re_ok rematch).

Lemma table_with_unit c : with_unit (calls_of c) pi_table = true.
Proof. reflexivity. Qed.

(** position of the four projection calls of the [i]-th kept result *)
Lemma add_ops_at ks i k j : nth_error ks i = Some k -> j < 4 ->
  nth_error (flat_map add_ops ks) (4 * i + j) = nth_error (add_ops k) j.
Proof. intros Hk Hj. exact (nth_flat_map_blocks add_ops 4 (fun _ => eq_refl) _ _ _ _ Hk Hj). Qed.

Lemma outs_of_at assign i a j : nth_error assign i = Some a -> j < 4 ->
  nth_error (flat_map outs_of assign) (4 * i + j) = nth_error (outs_of a) j.
Proof.
  intros Ha Hj. apply (nth_flat_map_blocks outs_of 4); auto. now intros [[[? ?] ?] ?].
Qed.

(** the table Keys of the [i]-th kept result [k], read in the table projection
    as it is AFTER the whole run: there is one per remaining measurement, in
    order; the Key of measurement [j] holds that measurement's tidied unit in
    the projection's .unit field and, in every other field, what that field's
    extractor yields on the result ([want], as for rows and columns); every file
    key of the result that no flag names has a sub-field in every .config group
    of the table projection, holding its value in each of these Keys; no group
    has a sub-field for an individually named key *)
Theorem table_key_meaning fl files o assign i k a :
  run_facts fl files o assign ->
  nth_error (o_kept o) i = Some k -> nth_error assign i = Some a ->
  let pa := parser_after (calls_of (o_compiled o)) in
  exists pF u, nth_error (w_projs (o_world o)) pi_table = Some pF /\
    p_unit pF = Some u /\ field_name pF u = key_unit /\
    Forall2 (fun key un => key < length (p_keys pF) /\ key_get pF key u = un /\
               forall idx f, nth_error (p_fields pF) idx = Some f -> idx <> u ->
                 key_get pF key idx = want (pp_full pa) (k_res k) f)
            (a_tables a) (r_units (k_res k)) /\
    (forall g ord cf, In (PConfig g ord) (p_items pF) ->
       In cf (r_cfg (k_res k)) -> c_file cf = true -> ~ In (c_key cf) (pp_cfg pa) ->
       exists j, In j (group_subs pF g) /\ field_name pF j = c_key cf /\ j <> u /\
                 forall key, In key (a_tables a) -> key_get pF key j = c_val cf) /\
    (forall g j, In j (group_subs pF g) -> ~ In (field_name pF j) (pp_cfg pa)).
Proof.
  intros F Hk Ha. cbv zeta.
  set (calls := calls_of (o_compiled o)).
  assert (Hok : Forall call_ok calls) by apply (rf_calls _ _ _ _ _ _ _ _ _ _ _ F).
  assert (Hop : nth_error (flat_map add_ops (o_kept o)) (4 * i + 0) = Some (OpProjectValues pi_table (k_res k))).
  { rewrite (add_ops_at _ _ _ 0 Hk) by lia. reflexivity. }
  assert (Hout : nth_error (flat_map outs_of assign) (4 * i + 0) = Some (OutKeys (a_tables a))).
  { rewrite (outs_of_at _ _ _ 0 Ha) by lia. now destruct a as [[[? ?] ?] ?]. }
  pose proof (add_ops_no_parse (o_kept o)) as Hnp.
  pose proof (add_ops_wf _ (rf_kept_wf _ _ _ _ _ _ _ _ _ _ _ F)) as Hwf.
  pose proof (rf_stream _ _ _ _ _ _ _ _ _ _ _ F) as ES. rewrite setup_ops_calls in ES. fold calls in ES.
  destruct (after_parsing calls Hok) as [I0 [Hlen _]].
  pose proof (after_parsing_units calls Hok) as Hshape. cbv zeta in *.
  set (w0 := fst (run_ops new_world (parse_ops calls ++ [OpResidue]))) in *.
  destruct (nth_error (w_projs w0) pi_table) as [p0|] eqn:Hp0.
  2:{ apply nth_error_None in Hp0. unfold pi_table, calls, calls_of in *. cbn in Hlen. lia. }
  pose proof (Hshape pi_table p0 Hp0) as Hsh. change (unit_shape true p0) in Hsh. cbn [unit_shape] in Hsh.
  destruct Hsh as [u [f0 [HU0 [Hf0 [Hs0 Hn0]]]]].
  assert (Hu0 : u < nfields p0) by (unfold nfields; eapply nth_lt; eauto).
  assert (HU : exists q, nth_error (w_projs w0) pi_table = Some q /\ p_unit q = Some u /\ u < nfields q) by eauto.
  pose proof (keys_final_u _ _ (flat_map add_ops (o_kept o)) w0 (4 * i + 0) pi_table (k_res k) (a_tables a) u
                Hnp Hwf I0 HU Hop) as KF.
  rewrite ES in KF. cbn [fst snd] in KF. specialize (KF Hout).
  destruct KF as [pF [HpF [PF [CF [HUF [FF HasF]]]]]].
  destruct (post_run _ _ (flat_map add_ops (o_kept o)) w0 Hnp Hwf I0) as [_ [SF _]].
  rewrite ES in SF. cbn [fst] in SF.
  destruct (SF _ _ Hp0) as [pF' [HpF' S0]]. assert (pF' = pF) by congruence. subst pF'.
  destruct (sext_field p0 pF u f0 S0 Hf0) as [fu [Hfu [Hnu Hsu]]].
  assert (TF : TInv pF) by apply PF.
  assert (Hnd : NoDup (map c_key (r_cfg (k_res k)))).
  { pose proof (rf_kept_wf _ _ _ _ _ _ _ _ _ _ _ F) as W. rewrite Forall_forall in W.
    apply (W k). eapply nth_error_In; eauto. }
  exists pF, u. split; [exact HpF|]. split; [exact HUF|].
  split; [unfold field_name; rewrite Hfu; congruence|]. split; [|split].
  - eapply Forall2_weaken; [|exact FF]. cbn beta. intros key un [Hkey Hg]. split; [exact Hkey|]. split.
    + rewrite (Hg u fu Hfu). unfold wantu. now rewrite Nat.eqb_refl.
    + intros idx f Hf Hne. rewrite (Hg idx f Hf). unfold wantu. apply Nat.eqb_neq in Hne. now rewrite Hne.
  - intros g ord cf Hit Hcf Hfile Hex.
    assert (Hm : mem (c_key cf) (pp_cfg (parser_after calls)) = false).
    { destruct (mem (c_key cf) (pp_cfg (parser_after calls))) eqn:Em; auto. apply mem_In in Em. contradiction. }
    destruct (HasF g ord Hit cf Hcf Hfile Hm) as [j [Hj Hn]].
    destruct (t_sub pF TF g j Hj) as [f [Hfj Hs]].
    assert (Hju : j <> u). { intros ->. rewrite Hfu in Hfj. injection Hfj as <-. congruence. }
    exists j. split; [exact Hj|]. split; [exact Hn|]. split; [exact Hju|].
    intros key Hkey. apply In_nth_error in Hkey as [jj Hjj].
    destruct (Forall2_nth_error _ _ _ FF jj key Hjj) as [un [_ [_ Hg]]].
    rewrite (Hg j f Hfj). unfold wantu. apply Nat.eqb_neq in Hju. rewrite Hju.
    unfold want. rewrite Hs. unfold fname in Hn. rewrite Hfj in Hn. rewrite Hn.
    unfold cfg_file_val. now rewrite (cfg_lookup_in _ _ Hnd Hcf), Hfile.
  - intros g j Hj Hin. apply mem_In in Hin. rewrite group_subs_gsubs in Hj.
    pose proof (CF g j Hj) as Hm. rewrite field_name_fname in Hin. congruence.
Qed.

(** the same, measurement by measurement, in the vocabulary of the tuples:
    the [j]-th table Key of the [i]-th kept result goes with the [j]-th
    remaining value; Key.Get(unitField) of it ([table_unit], what main.go shows
    and GetAssumption is asked about) is that measurement's tidied unit; and
    the tuple (that Key, row, column, residue, value) is one Builder.Add got *)
Theorem table_key_of_measurement fl files o assign i k a j key :
  run_facts fl files o assign ->
  nth_error (o_kept o) i = Some k -> nth_error assign i = Some a ->
  nth_error (a_tables a) j = Some key ->
  exists un v, nth_error (r_units (k_res k)) j = Some un /\ nth_error (k_vals k) j = Some v /\
    table_unit (proj_of (o_world o) pi_table) key = un /\
    In (mk_meas (a_row a) (a_col a) (a_res a) (key, v)) (o_tuples o).
Proof.
  intros F Hk Ha Hj.
  destruct (table_key_meaning fl files o assign i k a F Hk Ha) as [pF [u [HpF [HU [_ [FF _]]]]]].
  destruct (Forall2_nth_error _ _ _ FF j key Hj) as [un [Hun [_ [Hget _]]]].
  assert (Hlen : length (a_tables a) = length (k_vals k)).
  { pose proof (rf_assign _ _ _ _ _ _ _ _ _ _ _ F) as A.
    destruct (Forall2_nth_error _ _ _ A i k Hk) as [a' [Ha' L]]. congruence. }
  destruct (nth_error (k_vals k) j) as [v|] eqn:Hv.
  2:{ apply nth_error_None in Hv. apply nth_lt in Hj. lia. }
  exists un, v. split; [exact Hun|]. split; [reflexivity|]. split.
  - unfold table_unit, proj_of. rewrite (nth_error_nth _ _ _ HpF), HU. exact Hget.
  - rewrite (rf_tuples _ _ _ _ _ _ _ _ _ _ _ F). unfold tuples_spec. apply in_flat_map.
    exists (k, a). split.
    + clear -Hk Ha. revert assign i Hk Ha. induction (o_kept o) as [|k0 ks IH]; intros [|a0 assign] [|i] Hk Ha;
        try discriminate; cbn in *.
      * injection Hk as ->. injection Ha as ->. now left.
      * right. eapply IH; eauto.
    + cbn [fst snd]. unfold meas_of. apply in_map_iff. exists (key, v). split; [reflexivity|].
      clear -Hj Hv. revert j Hj Hv. generalize (k_vals k).
      induction (a_tables a) as [|t ts IH]; intros [|v0 vs] [|j] Hj Hv; try discriminate; cbn in *.
      * injection Hj as ->. injection Hv as ->. now left.
      * right. eapply IH; eauto.
Qed.

End PipelineKeys.
