(** Proofs for Model/BenchMathCap.v: with the repair hooks/fix_c13_cap_p_at_one.diff
    (P = math.Min(res.P, 1)) the p-value AssumeNothing.Compare reports is at most 1
    whatever float the U-test of go-moremath returns, and in [0,1] as soon as that
    float is >= 0 (no hypothesis on its upper end is needed any more). *)
From Coq Require Import ZArith List Bool Lia.
From Perf Require Import Base.Bytes Base.B64 Base.B64Order Model.StatsF Model.MoreMathU Model.BenchMath
     Model.BenchMathCap Proofs.BenchMathUntied.
Import ListNotations.

Lemma b64_lt_le x y : b64_lt x y = true -> b64_le x y = true.
Proof.
  unfold b64_lt, b64_le, SFltb, SFleb. destruct (SFcompare x y) as [[]|]; congruence.
Qed.

Lemma min_one_le_one p : p <> S754_nan -> b64_le (min_one p) b64_one = true.
Proof.
  intros Hp. unfold min_one.
  destruct p; try congruence;
    match goal with |- b64_le (if ?b then _ else _) _ = _ => destruct b eqn:E end;
    try (apply b64_lt_le; exact E); reflexivity.
Qed.

Lemma min_one_ge_zero p : b64_le f_zero p = true -> b64_le f_zero (min_one p) = true.
Proof.
  intros H. unfold min_one.
  destruct p; try (cbn in H; discriminate H);
    match goal with |- b64_le _ (if ?b then _ else _) = _ => destruct b end;
    try exact H; reflexivity.
Qed.

Lemma min_one_in01 p : b64_le f_zero p = true -> in01 (min_one p).
Proof.
  intros H. split; [apply min_one_ge_zero; exact H|].
  apply min_one_le_one. intros ->. cbn in H. discriminate H.
Qed.

(** the repaired AssumeNothing.Compare: P in [0,1] for every U-test result >= 0,
    on every path (exact, tied, normal approximation, error) *)
Theorem compare_capped_nothing_in01 uf wf s1 s2 c :
  compare_capped uf wf ANothing s1 s2 = Some c ->
  (forall p, uf (s_values s1) (s_values s2) = TOk p -> b64_le f_zero p = true) ->
  in01 (c_p c).
Proof.
  unfold compare_capped. cbn [compare]. unfold compare_nothing.
  destruct (uf (s_values s1) (s_values s2)) as [w|p|] eqn:U; cbn [cap_result]; intros H Hp.
  - injection H as <-. cbn [c_p]. apply in01_one.
  - injection H as <-. cbn [c_p]. apply min_one_in01. apply Hp. reflexivity.
  - discriminate H.
Qed.

(** the other two assumptions are untouched by the repair *)
Lemma compare_capped_other uf wf a s1 s2 :
  a <> ANothing -> compare_capped uf wf a s1 s2 = compare uf wf a s1 s2.
Proof. destruct a; [congruence| |]; reflexivity. Qed.

(** the witness of the audit: go-moremath returns 1 + 2^-52 for {2,3,5} vs {1,4,6};
    the repaired comparison reports 1 *)
Example min_one_witness :
  min_one (b64_of_bits 0x3FF0000000000001) = b64_one
  /\ b64_le (b64_of_bits 0x3FF0000000000001) b64_one = false.
Proof. vm_compute. split; reflexivity. Qed.
