(** Every label key the legacy storage/benchfmt Reader itself produces from a
    text is a key its key scanner accepts again ([key_ok], the hypothesis of the
    printer/reader round trip) — for ALL byte strings, valid UTF-8 or not.

    The point that needs an argument: parseKeyValueLine walks the line rune by
    rune ([for i, c := range line]); the rune decoded at a position depends on
    up to three following bytes, so re-reading the key in front of a different
    rest ("k:" printed by the Printer, "k: v" with another value) could in
    principle decode differently near the end of the key. It cannot: the byte
    after the key is always ':' (0x3A), which is no UTF-8 continuation byte, so
    a lead byte whose sequence would reach the colon decodes to (U+FFFD, 1) in
    both texts, and every other rune lies wholly inside the key.

    Of the Unicode tables (Model/Words.v) the proofs use only that ':' and LF
    stop the key scan; they hold for any classification of the other runes. *)
From Perf Require Import Base.Bytes Model.Words Model.Query Model.StoreFmt
     Proofs.Query Proofs.StoreFmt.

(** ** decoding in front of a colon *)

Lemma bN_col : bN c_col = 58%N. Proof. reflexivity. Qed.

Lemma in_rng_col lo hi : (59 <= lo)%N -> in_rng lo hi c_col = false.
Proof.
  intros H. unfold in_rng. rewrite bN_col. apply andb_false_iff. left. apply N.leb_gt. lia.
Qed.

Ltac col_false :=
  repeat match goal with
  | |- context [in_rng ?lo ?hi c_col] =>
      rewrite (in_rng_col lo hi)
        by (repeat match goal with |- context [if ?c then _ else _] => destruct c end; lia)
  end.

(** the rune decoded at [b0] in front of [p ++ ':' :: rest] does not depend on
    [rest] and ends inside [b0 :: p] *)
Lemma decode_rune_col b0 p rest1 rest2 :
  decode_rune b0 (p ++ c_col :: rest1) = decode_rune b0 (p ++ c_col :: rest2)
  /\ (snd (decode_rune b0 (p ++ c_col :: rest1)) <= S (length p))%nat.
Proof.
  unfold decode_rune.
  destruct (bN b0 <? 128)%N; [split; [reflexivity | cbn [snd]; lia]|].
  destruct (in_rng 194 223 b0).
  { destruct p as [|b1 p]; cbn [app length].
    - col_false. split; [reflexivity | cbn [snd]; lia].
    - destruct (in_rng 128 191 b1); split; try reflexivity; cbn [snd]; lia. }
  destruct (in_rng 224 239 b0).
  { destruct p as [|b1 [|b2 p]]; cbn [app length].
    - destruct rest1, rest2; col_false; split; try reflexivity; cbn [snd]; lia.
    - col_false. rewrite !andb_false_r. split; [reflexivity | cbn [snd]; lia].
    - match goal with |- context [if ?c then _ else _] => destruct c end;
        split; try reflexivity; cbn [snd]; lia. }
  destruct (in_rng 240 244 b0).
  { destruct p as [|b1 [|b2 [|b3 p]]]; cbn [app length].
    - destruct rest1 as [|x1 [|y1 rest1]], rest2 as [|x2 [|y2 rest2]]; col_false; cbn [andb];
        split; try reflexivity; cbn [snd]; lia.
    - destruct rest1, rest2; col_false; rewrite ?andb_false_r; cbn [andb];
        split; try reflexivity; cbn [snd]; lia.
    - col_false. rewrite !andb_false_r. split; [reflexivity | cbn [snd]; lia].
    - match goal with |- context [if ?c then _ else _] => destruct c end;
        split; try reflexivity; cbn [snd]; lia. }
  split; [reflexivity | cbn [snd]; lia].
Qed.

Lemma decode_rune_pos b0 s : (1 <= snd (decode_rune b0 s))%nat.
Proof.
  unfold decode_rune.
  repeat match goal with
  | |- context [if ?c then _ else _] => destruct c
  | |- context [match ?l with [] => _ | _ :: _ => _ end] => destruct l
  end; cbn [snd]; lia.
Qed.

(** the bytes a rune consumes after its first are continuation bytes (>= 0x80) *)
Lemma decode_rune_cont b0 s :
  Forall (fun b => (128 <= bN b)%N) (firstn (snd (decode_rune b0 s) - 1) s).
Proof.
  assert (R : forall lo hi b, (128 <= lo)%N -> in_rng lo hi b = true -> (128 <= bN b)%N).
  { intros lo hi b Hlo H. unfold in_rng in H. apply andb_true_iff in H as [H _]. apply N.leb_le in H. lia. }
  assert (R' : forall (c : bool) hi b, in_rng (if c then 160 else 128) hi b = true -> (128 <= bN b)%N).
  { intros c hi b. apply R. destruct c; lia. }
  assert (R'' : forall (c : bool) hi b, in_rng (if c then 144 else 128) hi b = true -> (128 <= bN b)%N).
  { intros c hi b. apply R. destruct c; lia. }
  unfold decode_rune.
  destruct (bN b0 <? 128)%N; [constructor|].
  destruct (in_rng 194 223 b0).
  { destruct s as [|b1 s]; [constructor|].
    destruct (in_rng 128 191 b1) eqn:E1; cbn [snd Nat.sub firstn]; [|constructor].
    constructor; [apply (R _ _ _ (N.le_refl _) E1) | constructor]. }
  destruct (in_rng 224 239 b0).
  { destruct s as [|b1 [|b2 s]]; try constructor.
    match goal with |- context [if ?c then _ else _] => destruct c eqn:E end;
      cbn [snd Nat.sub firstn]; [|constructor].
    apply andb_true_iff in E as [E1 E2].
    constructor; [exact (R' _ _ _ E1)|]. constructor; [apply (R _ _ _ (N.le_refl _) E2) | constructor]. }
  destruct (in_rng 240 244 b0).
  { destruct s as [|b1 [|b2 [|b3 s]]]; try constructor.
    match goal with |- context [if ?c then _ else _] => destruct c eqn:E end;
      cbn [snd Nat.sub firstn]; [|constructor].
    apply andb_true_iff in E as [E E3]. apply andb_true_iff in E as [E1 E2].
    constructor; [exact (R'' _ _ _ E1)|].
    constructor; [apply (R _ _ _ (N.le_refl _) E2)|].
    constructor; [apply (R _ _ _ (N.le_refl _) E3) | constructor]. }
  constructor.
Qed.

(** only the byte ':' decodes to the rune ':' *)
Lemma decode_rune_58 b0 s : fst (decode_rune b0 s) = 58%N -> b0 = c_col /\ snd (decode_rune b0 s) = 1%nat.
Proof.
  unfold decode_rune, cont, rune_error, in_rng.
  destruct (N.ltb_spec (bN b0) 128) as [L|G].
  { cbn [fst snd]. intros H. split; [|reflexivity]. apply to_N_inj. exact H. }
  repeat match goal with
  | |- context [if ?c then _ else _] => destruct c eqn:?
  | |- context [match ?l with [] => _ | _ :: _ => _ end] => destruct l
  end; cbn [fst snd]; intros H; try discriminate H; exfalso;
  repeat match goal with
  | E : (_ && _) = true |- _ => apply andb_true_iff in E as [? ?]
  | E : (_ <=? _)%N = true |- _ => apply N.leb_le in E
  | E : (_ =? _)%N = true |- _ => apply N.eqb_eq in E
  | E : (_ =? _)%N = false |- _ => apply N.eqb_neq in E
  end; lia.
Qed.

Lemma decode_rune_ascii b0 s : (bN b0 < 128)%N -> decode_rune b0 s = (bN b0, 1%nat).
Proof. intros H. unfold decode_rune. apply N.ltb_lt in H. rewrite H. reflexivity. Qed.

(** ** the scan up to the colon *)

Lemma skipn_app_le {A} n (l1 l2 : list A) : (n <= length l1)%nat -> skipn n (l1 ++ l2) = skipn n l1 ++ l2.
Proof. intros H. rewrite skipn_app. replace (n - length l1)%nat with 0%nat by lia. reflexivity. Qed.

Lemma skipn_app_exact {A} (a b : list A) : skipn (length a) (a ++ b) = b.
Proof. induction a as [|x a IH]; [reflexivity | exact IH]. Qed.

Lemma skipn_add {A} a : forall b (l : list A), skipn (a + b) l = skipn b (skipn a l).
Proof.
  induction a as [|a IH]; intros b l; [reflexivity|].
  destruct l as [|x l]; cbn [Nat.add skipn]; [destruct b; reflexivity | apply IH].
Qed.

Section Scan.
Variable f : N -> bool.
Hypothesis f_col : f 58%N = true.

(** a hit lies at or after the starting offset, on an existing byte *)
Lemma index_rune_hit : forall fuel s off j r,
  index_rune_aux f fuel s off = Some (j, r) ->
  exists i b tl, j = (off + i)%nat /\ skipn i s = b :: tl /\ fst (decode_rune b tl) = r.
Proof.
  induction fuel as [|fuel IH]; intros s off j r H; cbn [index_rune_aux] in H; [discriminate|].
  destruct s as [|b0 rest]; [discriminate|].
  destruct (decode_rune b0 rest) as [r0 k] eqn:Ed.
  destruct (f r0).
  - inversion H; subst. exists 0%nat, b0, rest. rewrite Ed. repeat split. lia.
  - destruct (IH _ _ _ _ H) as (i & b & tl & -> & Hs & Hr).
    exists (k + i)%nat, b, tl. split; [lia|]. split; [|exact Hr].
    rewrite skipn_add. exact Hs.
Qed.

(** a scan that stops at the colon behind [p] does so whatever follows the colon *)
Lemma scan_col : forall fuel p rest1 off,
  index_rune_aux f fuel (p ++ c_col :: rest1) off = Some ((off + length p)%nat, 58%N) ->
  forall rest2 fuel2, (length p < fuel2)%nat ->
  index_rune_aux f fuel2 (p ++ c_col :: rest2) off = Some ((off + length p)%nat, 58%N).
Proof.
  induction fuel as [|fuel IH]; intros p rest1 off H rest2 fuel2 Hf; cbn [index_rune_aux] in H; [discriminate|].
  destruct fuel2 as [|fuel2]; [lia|]. cbn [index_rune_aux].
  destruct p as [|b0 p]; cbn [app length] in *.
  - rewrite (decode_rune_ascii c_col rest2) by (rewrite bN_col; lia). rewrite bN_col, f_col.
    rewrite Nat.add_0_r. reflexivity.
  - destruct (decode_rune_col b0 p rest1 rest2) as [E Hk].
    pose proof (decode_rune_pos b0 (p ++ c_col :: rest1)) as Hpos.
    rewrite <- E. destruct (decode_rune b0 (p ++ c_col :: rest1)) as [r k]. cbn [snd] in Hk, Hpos.
    destruct (f r); [inversion H; lia|].
    destruct k as [|k]; [lia|]. cbn [skipn] in *.
    rewrite skipn_app_le in * by lia.
    assert (El : (off + S (length p) = off + S k + length (skipn k p))%nat) by (rewrite skipn_length; lia).
    rewrite El in *. apply (IH _ _ _ H). rewrite skipn_length. lia.
Qed.

(** ... and the key it walked over contains no byte on which [f] holds as an
    ASCII rune — in particular no LF *)
Lemma scan_no_ascii_stop c : (bN c < 128)%N -> f (bN c) = true ->
  forall fuel p rest off,
  index_rune_aux f fuel (p ++ c_col :: rest) off = Some ((off + length p)%nat, 58%N) -> ~ In c p.
Proof.
  intros Hc Hfc. induction fuel as [|fuel IH]; intros p rest off H; cbn [index_rune_aux] in H; [discriminate|].
  destruct p as [|b0 p]; [intros []|]. cbn [app length] in H.
  pose proof (decode_rune_col b0 p rest rest) as [_ Hk].
  pose proof (decode_rune_pos b0 (p ++ c_col :: rest)) as Hpos.
  pose proof (decode_rune_cont b0 (p ++ c_col :: rest)) as Hcont.
  destruct (decode_rune b0 (p ++ c_col :: rest)) as [r k] eqn:Ed. cbn [snd] in Hk, Hpos, Hcont.
  destruct (f r) eqn:Efr; [inversion H; lia|].
  destruct k as [|k]; [lia|]. cbn [skipn] in H. cbn [Nat.sub] in Hcont. rewrite Nat.sub_0_r in Hcont.
  rewrite skipn_app_le in H by lia.
  assert (El : (off + S (length p) = off + S k + length (skipn k p))%nat) by (rewrite skipn_length; lia).
  rewrite El in H. apply IH in H.
  intros [E|Hin].
  - subst b0. rewrite (decode_rune_ascii c _ Hc) in Ed. inversion Ed; subst. congruence.
  - rewrite <- (firstn_skipn k p) in Hin. apply in_app_or in Hin as [Hin|Hin]; [|exact (H Hin)].
    rewrite firstn_app in Hcont. apply Forall_app in Hcont as [Hcont _].
    rewrite Forall_forall in Hcont. specialize (Hcont c Hin). lia.
Qed.

End Scan.

(** ** parseKeyValueLine *)

Lemma is_kv_stop_col : is_kv_stop 58%N = true. Proof. reflexivity. Qed.
Lemma is_kv_stop_lf : is_kv_stop (bN c_lf) = true. Proof. reflexivity. Qed.

(** the shape of a line parseKeyValueLine accepts: key, colon, rest — and the
    facts about the key that do not depend on the rest *)
Lemma parse_kv_line_shape line k v :
  parse_kv_line line = Some (k, v) ->
  exists rest, line = k ++ c_col :: rest /\ key_ok k
    /\ v = match rest with [] => [] | _ => strip_blanks rest end
    /\ match rest with [] => True | c :: _ => is_blank c = true end.
Proof.
  unfold parse_kv_line. destruct line as [|b0 tl]; [discriminate|].
  destruct (decode_rune b0 tl) as [r0 k0] eqn:Ed0.
  destruct (negb (is_lower_r r0) || is_space_r r0 || is_upper_r r0) eqn:Efirst; [discriminate|].
  destruct (index_rune is_kv_stop (skipn k0 (b0 :: tl))) as [[i r]|] eqn:Ei; [|discriminate].
  destruct (N.eqb_spec r 58) as [->|_]; [|discriminate].
  pose proof (decode_rune_pos b0 tl) as Hpos. rewrite Ed0 in Hpos. cbn [snd] in Hpos.
  destruct k0 as [|k0]; [lia|]. cbn [skipn] in Ei.
  unfold index_rune in Ei.
  destruct (index_rune_hit _ _ _ _ _ _ Ei) as (i' & b & rest & Hi & Hs & Hr). cbn [Nat.add] in Hi. subst i'.
  apply decode_rune_58 in Hr as [-> _].
  (* the tail splits as  (bytes of the first rune) ++ (scanned part) ++ ':' :: rest *)
  remember (skipn k0 tl) as q eqn:Eq.
  assert (Hq : q = firstn i q ++ c_col :: rest) by (rewrite <- Hs; symmetry; apply firstn_skipn).
  assert (Hli : length (firstn i q) = i).
  { apply firstn_length_le. apply Nat.lt_le_incl. apply (f_equal (@length byte)) in Hs.
    rewrite skipn_length in Hs. cbn [length] in Hs. lia. }
  remember (firstn i q) as p eqn:Ep.
  assert (Hk0 : (k0 <= length tl)%nat).
  { destruct (Nat.le_gt_cases k0 (length tl)) as [L|G]; [exact L|]. exfalso.
    assert (q = []) by (rewrite Eq; apply skipn_all2; lia). rewrite H in Hq. destruct p; discriminate Hq. }
  assert (Htl : tl = (firstn k0 tl ++ p) ++ c_col :: rest).
  { rewrite <- app_assoc, <- Hq, Eq. symmetry. apply firstn_skipn. }
  assert (Hlen : length (firstn k0 tl ++ p) = (k0 + i)%nat).
  { rewrite app_length, Hli, firstn_length_le by exact Hk0. reflexivity. }
  remember (firstn k0 tl ++ p) as kp eqn:Ekp.
  assert (Hkey : firstn (S k0 + i) (b0 :: tl) = b0 :: kp).
  { cbn [Nat.add firstn]. f_equal. rewrite Htl, <- Hlen. apply firstn_app_exact. }
  assert (Hval : skipn (S (S k0 + i)) (b0 :: tl) = rest).
  { cbn [Nat.add skipn]. rewrite Htl. change (skipn (S (k0 + i)) (kp ++ c_col :: rest) = rest).
    rewrite <- Hlen. replace (S (length kp)) with (length (kp ++ [c_col])) by (rewrite app_length; cbn; lia).
    change (c_col :: rest) with ([c_col] ++ rest). rewrite app_assoc. apply skipn_app_exact. }
  rewrite Hkey, Hval. intros H.
  assert (Hk : k = b0 :: kp) by (destruct rest as [|c r]; [|destruct (is_blank c)]; congruence).
  exists rest. split; [rewrite Hk, Htl; reflexivity|]. split.
  - (* key_ok *)
    rewrite Hk. rewrite Hq in Ei.
    split.
    + (* no LF *)
      intros [E|Hin].
      * subst b0. rewrite (decode_rune_ascii c_lf tl) in Ed0 by (cbn; lia). inversion Ed0; subst.
        discriminate Efirst.
      * rewrite Ekp in Hin. apply in_app_or in Hin as [Hin|Hin].
        -- pose proof (decode_rune_cont b0 tl) as Hc. rewrite Ed0 in Hc. cbn [snd Nat.sub] in Hc.
           rewrite Nat.sub_0_r in Hc. rewrite Forall_forall in Hc. specialize (Hc _ Hin). cbn in Hc. lia.
        -- revert Hin. eapply (scan_no_ascii_stop is_kv_stop c_lf); [cbn; lia | exact is_kv_stop_lf|].
           rewrite <- Hli in Ei. exact Ei.
    + intros rest'. unfold parse_kv_line. cbn [app].
      destruct (decode_rune_col b0 kp rest rest') as [E _]. rewrite <- Htl in E. rewrite <- E, Ed0, Efirst.
      cbn [skipn]. rewrite Ekp at 1. rewrite <- app_assoc.
      rewrite skipn_app_le by (rewrite firstn_length_le by exact Hk0; lia).
      rewrite (skipn_all2 (n := k0) (firstn k0 tl)) by (rewrite firstn_length; lia). cbn [app].
      unfold index_rune.
      rewrite (scan_col is_kv_stop is_kv_stop_col _ p rest 0) with (rest2 := rest')
        by (rewrite ?app_length; cbn [length]; try lia; rewrite <- Hli in Ei; exact Ei).
      rewrite Hli. cbn [Nat.add]. rewrite N.eqb_refl.
      assert (Hkey' : firstn (S (k0 + i)) (b0 :: kp ++ c_col :: rest') = b0 :: kp).
      { cbn [firstn]. f_equal. rewrite <- Hlen. apply firstn_app_exact. }
      assert (Hval' : skipn (S (k0 + i)) (kp ++ c_col :: rest') = rest').
      { rewrite <- Hlen.
        replace (S (length kp)) with (length (kp ++ [c_col])) by (rewrite app_length; cbn; lia).
        change (c_col :: rest') with ([c_col] ++ rest'). rewrite app_assoc. apply skipn_app_exact. }
      rewrite Hkey', Hval'. reflexivity.
  - destruct rest as [|c r]; [split; [congruence | exact I]|].
    destruct (is_blank c); [split; [congruence | reflexivity] | discriminate H].
Qed.

(** every key parseKeyValueLine returns is accepted by the key scanner in front
    of any continuation *)
Theorem parse_kv_line_key_ok line k v : parse_kv_line line = Some (k, v) -> key_ok k.
Proof. intros H. destruct (parse_kv_line_shape _ _ _ H) as (rest & _ & Hk & _). exact Hk. Qed.

(** ** the Reader *)

(** a property of label keys that holds of the starting labels and of every key
    parseKeyValueLine returns holds of all labels of all results *)
Lemma read_loop_keys (P : bytes -> Prop) :
  (forall line k v, parse_kv_line line = Some (k, v) -> P k) ->
  forall ls lab perm have seen n,
  (forall k v, In (k, v) lab -> P k) ->
  forall r, In r (read_loop ls lab perm have seen n) -> forall k v, In (k, v) (r_labels r) -> P k.
Proof.
  intros HP. induction ls as [|line ls IH]; intros lab perm have seen n Hlab r Hr; cbn [read_loop] in Hr; [destruct Hr|].
  destruct (parse_kv_line line) as [[k0 v0]|] eqn:Ekv.
  - destruct (match perm with Some p => lhas k0 p | None => false end); [exact (IH _ _ _ _ _ Hlab r Hr)|].
    refine (IH _ _ _ _ _ _ r Hr). intros k v Hin.
    destruct (beq v0 []).
    + apply (Hlab k v). eapply In_ldel; exact Hin.
    + apply In_lset in Hin as [E|Hin]; [inversion E; subst; exact (HP _ _ _ Ekv) | exact (Hlab k v Hin)].
  - destruct (parse_benchmark_line line) as [name|].
    + destruct Hr as [<-|Hr]; [exact Hlab | exact (IH _ _ _ _ _ Hlab r Hr)].
    + exact (IH _ _ _ _ _ Hlab r Hr).
Qed.

(** NewReader(text); Next()...: every label key of every result is [key_ok] *)
Theorem reader_keys_accepted text r k v :
  In r (read_plain text) -> In (k, v) (r_labels r) -> key_ok k.
Proof.
  unfold read_plain. intros Hr Hin.
  refine (read_loop_keys key_ok parse_kv_line_key_ok _ _ _ _ _ _ _ r Hr k v Hin). intros ? ? [].
Qed.

Lemma In_lset_all kvs : forall l a b, In (a, b) (lset_all kvs l) -> In (a, b) kvs \/ In (a, b) l.
Proof.
  induction kvs as [|[k v] kvs IH]; intros l a b H; cbn [lset_all] in H; [right; exact H|].
  apply IH in H as [H|H]; [left; right; exact H|].
  apply In_lset in H as [H|H]; [left; left; symmetry; exact H | right; exact H].
Qed.

(** with AddLabels(meta) (the server indexing an uploaded file): every label
    key is one of the added ones or [key_ok] *)
Theorem reader_keys_accepted_with meta text r k v :
  In r (read_with meta text) -> In (k, v) (r_labels r) ->
  (exists v', In (k, v') meta) \/ key_ok k.
Proof.
  unfold read_with. intros Hr Hin.
  refine (read_loop_keys (fun k => (exists v', In (k, v') meta) \/ key_ok k) _ _ _ _ _ _ _ _ r Hr k v Hin).
  - intros line k0 v0 H. right. exact (parse_kv_line_key_ok _ _ _ H).
  - intros k0 v0 H. apply In_lset_all in H as [H|[]]. left. exists v0. exact H.
Qed.

(** ** invariants of the Reader's label maps *)

(** anything the starting labels satisfy and [lset] / [ldel] preserve holds of
    the labels of every result *)
Lemma read_loop_inv (I : labels -> Prop) :
  (forall k v l, I l -> I (lset k v l)) -> (forall k l, I l -> I (ldel k l)) ->
  forall ls lab perm have seen n, I lab ->
  forall r, In r (read_loop ls lab perm have seen n) -> I (r_labels r).
Proof.
  intros Hset Hdel. induction ls as [|line ls IH]; intros lab perm have seen n Hlab r Hr; cbn [read_loop] in Hr; [destruct Hr|].
  destruct (parse_kv_line line) as [[k0 v0]|].
  - destruct (match perm with Some p => lhas k0 p | None => false end); [exact (IH _ _ _ _ _ Hlab r Hr)|].
    refine (IH _ _ _ _ _ _ r Hr). destruct (beq v0 []); [apply Hdel | apply Hset]; exact Hlab.
  - destruct (parse_benchmark_line line) as [name|].
    + destruct Hr as [<-|Hr]; [exact Hlab | exact (IH _ _ _ _ _ Hlab r Hr)].
    + exact (IH _ _ _ _ _ Hlab r Hr).
Qed.

Lemma ksorted_lset_all kvs : forall l, ksorted l -> ksorted (lset_all kvs l).
Proof.
  induction kvs as [|[k v] kvs IH]; intros l H; cbn [lset_all]; [exact H|]. apply IH, ksorted_lset, H.
Qed.

(** the Reader's label lists are sorted maps (Labels.Keys() order, keys distinct) *)
Theorem reader_labels_sorted text r : In r (read_plain text) -> ksorted (r_labels r).
Proof.
  unfold read_plain. apply (read_loop_inv ksorted); [intros; apply ksorted_lset; assumption
    | intros; apply ksorted_ldel; assumption | exact I].
Qed.

Theorem reader_labels_sorted_with meta text r : In r (read_with meta text) -> ksorted (r_labels r).
Proof.
  unfold read_with. apply (read_loop_inv ksorted); [intros; apply ksorted_lset; assumption
    | intros; apply ksorted_ldel; assumption | apply ksorted_lset_all; exact I].
Qed.

(** name labels *)
Lemma ksorted_sub_labels subs : forall i l, ksorted l -> ksorted (sub_labels i subs l).
Proof.
  induction subs as [|s subs IH]; intros i l H; cbn [sub_labels]; [exact H|].
  apply IH. destruct (index_byte s c_eq); apply ksorted_lset; exact H.
Qed.

Lemma ksorted_name_labels name : ksorted (name_labels name).
Proof.
  unfold name_labels.
  destruct (last_index c_dash name) as [d|]; [destruct (atoi_ok (skipn (S d) name))|];
    match goal with |- context [split_on c_slash ?x] => destruct (split_on c_slash x) as [p0 subs] end;
    apply ksorted_sub_labels; repeat apply ksorted_lset; exact I.
Qed.

Lemma read_loop_namelabels ls : forall lab perm have seen n r,
  In r (read_loop ls lab perm have seen n) -> ksorted (r_namelabels r).
Proof.
  induction ls as [|line ls IH]; intros lab perm have seen n r Hr; cbn [read_loop] in Hr; [destruct Hr|].
  destruct (parse_kv_line line) as [[k0 v0]|].
  - destruct (match perm with Some p => lhas k0 p | None => false end); exact (IH _ _ _ _ _ r Hr).
  - destruct (parse_benchmark_line line) as [name|]; [|exact (IH _ _ _ _ _ r Hr)].
    destruct Hr as [<-|Hr]; [|exact (IH _ _ _ _ _ r Hr)]. cbn [r_namelabels].
    destruct (is_nilb name && negb seen); [exact I | apply ksorted_name_labels].
Qed.
