(** The U-test of Model/MoreMathU.v looks at its inputs only through [<], [<=]
    and [==]: any map of the pooled values that preserves these three
    comparisons leaves the U statistic, the tie vector and therefore the whole
    outcome (path, errors, exact p) unchanged. *)
From Coq Require Import Sorting.Permutation.
From Perf Require Import Base.Bytes Base.B64 Model.StatsF Model.MoreMathU Proofs.BenchMath.
Local Open Scope Z_scope.

Section Mono.
  Variable f : b64 -> b64.
  Variable pool : list b64.
  Hypothesis f_lt : forall x y, In x pool -> In y pool -> b64_lt (f x) (f y) = b64_lt x y.
  Hypothesis f_le : forall x y, In x pool -> In y pool -> b64_le (f x) (f y) = b64_le x y.
  Hypothesis f_eq : forall x y, In x pool -> In y pool -> b64_eq (f x) (f y) = b64_eq x y.

  Lemma insert_f_map x l :
    In x pool -> incl l pool -> insert_f (f x) (map f l) = map f (insert_f x l).
  Proof.
    intros Hx. induction l as [|y l IH]; intros Hl; cbn; [reflexivity|].
    rewrite f_le by (auto; apply Hl; now left).
    destruct (b64_le x y); cbn; [reflexivity|].
    rewrite IH; [reflexivity|]. intros z Hz. apply Hl. now right.
  Qed.

  Lemma sort_f_map l : incl l pool -> sort_f (map f l) = map f (sort_f l).
  Proof.
    induction l as [|x l IH]; intros Hl; [reflexivity|].
    cbn [map]. rewrite !sort_f_cons, IH by (intros z Hz; apply Hl; now right).
    apply insert_f_map; [apply Hl; now left|].
    intros z Hz. apply Hl. right. eapply Permutation_in; [symmetry; apply sort_f_perm|exact Hz].
  Qed.

  Definition F (p : b64 * bool) : b64 * bool := (f (fst p), snd p).

  Lemma lmerge_map a : forall b,
    incl a pool -> incl b pool -> lmerge (map f a) (map f b) = map F (lmerge a b).
  Proof.
    induction a as [|x a IHa]; intros b Ha Hb.
    - destruct b; cbn; rewrite ?map_map; reflexivity.
    - induction b as [|y b IHb].
      + cbn. rewrite !map_map. reflexivity.
      + cbn [map]. cbn [lmerge]. rewrite f_lt by (try (apply Ha; now left); apply Hb; now left).
        destruct (b64_lt x y).
        * cbn [map]. f_equal. apply (IHa (y :: b)); auto. intros z Hz. apply Ha. now right.
        * cbn [map]. f_equal. apply IHb. intros z Hz. apply Hb. now right.
  Qed.

  Lemma take_run_map v l :
    In v pool -> incl (map fst l) pool ->
    take_run (f v) (map F l) = (let '(c, nx, rest) := take_run v l in (c, nx, map F rest)).
  Proof.
    intros Hv. induction l as [|[w lab] l IH]; intros Hl; [reflexivity|].
    cbn [map take_run F fst snd].
    rewrite f_eq by (auto; apply Hl; now left).
    destruct (b64_eq w v); [|reflexivity].
    rewrite IH by (intros z Hz; apply Hl; now right).
    destruct (take_run v l) as ((c, nx), rest). reflexivity.
  Qed.

  Lemma take_run_rest_incl v l :
    incl (map fst (snd (take_run v l))) (map fst l).
  Proof.
    induction l as [|[w lab] l IH]; cbn; [apply incl_refl|].
    destruct (b64_eq w v); [|apply incl_refl].
    destruct (take_run v l) as ((c, nx), rest). cbn in *. now apply incl_tl.
  Qed.

  Lemma rank_loop_map fuel : forall i l twoR1 T ties,
    incl (map fst l) pool ->
    rank_loop fuel i (map F l) twoR1 T ties = rank_loop fuel i l twoR1 T ties.
  Proof.
    induction fuel as [|fuel IH]; intros i l twoR1 T ties Hl; [reflexivity|].
    destruct l as [|[v lab] l]; [reflexivity|].
    change (map F ((v, lab) :: l)) with ((f v, lab) :: map F l).
    cbn [rank_loop].
    change ((f v, lab) :: map F l) with (map F ((v, lab) :: l)).
    rewrite take_run_map by (auto; apply Hl; now left).
    pose proof (take_run_rest_incl v ((v, lab) :: l)) as Hrest.
    destruct (take_run v ((v, lab) :: l)) as ((c, nx), rest) eqn:E. cbn [snd] in Hrest.
    destruct (c =? 0).
    - cbn [hd tl map snd F fst]. apply IH. intros z Hz. apply Hl. now right.
    - apply IH. intros z Hz. apply Hl. now apply Hrest.
  Qed.

  Lemma u_statistic_map x1 x2 :
    incl x1 pool -> incl x2 pool -> u_statistic (map f x1) (map f x2) = u_statistic x1 x2.
  Proof.
    intros H1 H2. unfold u_statistic, zlen. rewrite !map_length.
    rewrite !sort_f_map by assumption.
    assert (S1 : incl (sort_f x1) pool).
    { intros z Hz. apply H1. eapply Permutation_in; [symmetry; apply sort_f_perm|exact Hz]. }
    assert (S2 : incl (sort_f x2) pool).
    { intros z Hz. apply H2. eapply Permutation_in; [symmetry; apply sort_f_perm|exact Hz]. }
    rewrite lmerge_map by assumption. rewrite map_length.
    rewrite rank_loop_map; [reflexivity|].
    (* the merged values are values of the two samples *)
    clear -S1 S2. revert S1 S2. generalize (sort_f x1) (sort_f x2). intros a.
    induction a as [|x a IHa]; intros b Ha Hb.
    - destruct b; cbn; rewrite ?map_map; cbn; rewrite ?map_id; auto.
    - induction b as [|y b IHb].
      + cbn. rewrite map_map. cbn. rewrite map_id. exact Ha.
      + cbn [lmerge]. destruct (b64_lt x y); cbn [map fst].
        * intros z [<-|Hz]; [apply Ha; now left|].
          apply (IHa (y :: b)); auto. intros w Hw. apply Ha. now right.
        * intros z [<-|Hz]; [apply Hb; now left|].
          apply IHb; auto. intros w Hw. apply Hb. now right.
  Qed.

  (** the whole outcome of MannWhitneyUTest: errors, path, exact p *)
  Lemma utest_map x1 x2 :
    incl x1 pool -> incl x2 pool -> utest (map f x1) (map f x2) = utest x1 x2.
  Proof.
    intros H1 H2. unfold utest.
    destruct x1 as [|a x1]; [reflexivity|]. destruct x2 as [|b x2]; [reflexivity|].
    cbn [map]. change (f a :: map f x1) with (map f (a :: x1)).
    change (f b :: map f x2) with (map f (b :: x2)).
    rewrite u_statistic_map by assumption. reflexivity.
  Qed.
End Mono.

(** stated on the pooled values themselves *)
Lemma utest_monotone_invariant f x1 x2 :
  (forall x y, In x (x1 ++ x2) -> In y (x1 ++ x2) ->
     b64_lt (f x) (f y) = b64_lt x y /\ b64_le (f x) (f y) = b64_le x y /\ b64_eq (f x) (f y) = b64_eq x y) ->
  utest (map f x1) (map f x2) = utest x1 x2.
Proof.
  intros H. apply (utest_map f (x1 ++ x2)).
  - intros x y Hx Hy. now destruct (H x y Hx Hy).
  - intros x y Hx Hy. now destruct (H x y Hx Hy) as (_ & ? & _).
  - intros x y Hx Hy. now destruct (H x y Hx Hy) as (_ & _ & ?).
  - apply incl_appl, incl_refl.
  - apply incl_appr, incl_refl.
Qed.
