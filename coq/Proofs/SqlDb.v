(** The relational semantics of the generated SQL (Model/Sql.v, Proofs/Sql.v)
    instantiated at the tables the insert model produces from the stored state
    [StoreFmt.db]:

    - the storage invariant (upload IDs distinct; per record one label row per
      label name) is maintained by the insert model [apply_upload] and makes the
      tables satisfy the declared PRIMARY / FOREIGN KEY constraints;
    - the relational INSERTs of an upload the model accepts succeed and give
      the tables of the extended state; an upload the model refuses for a label
      collision is refused by the RecordLabels primary key;
    - [sql_semantics_is_query_selects]: the SQL of DB.Query evaluated
      relationally returns exactly the records [query_selects] selects, each
      once — the meaning C19_query_returns_exactly assumed;
    - [sql_listing_is_list_uploads]: the SQL of DB.ListUploads evaluated
      relationally is [list_uploads_parts]. *)
From Coq Require Import Permutation Sorted.
From Perf Require Import Base.Bytes Model.Words Model.Query Model.StoreFmt Model.Sql
     Proofs.Query Proofs.StoreFmt Proofs.QueryDb Proofs.ReaderKeys Proofs.SqlLists Proofs.Sql.

(** ** more list facts *)

Lemma NoDup_app_intro {A} (a b : list A) :
  NoDup a -> NoDup b -> (forall x, In x a -> ~ In x b) -> NoDup (a ++ b).
Proof.
  induction a as [|x a IH]; intros Ha Hb Hd; [exact Hb|]. cbn [app].
  inversion Ha as [|? ? Hn Ha']; subst. constructor.
  - intros Hin. apply in_app_or in Hin as [Hin|Hin]; [exact (Hn Hin) | exact (Hd x (or_introl eq_refl) Hin)].
  - apply IH; [exact Ha' | exact Hb|]. intros y Hy. apply Hd. right; exact Hy.
Qed.

Lemma NoDup_app_l {A} (a b : list A) : NoDup (a ++ b) -> NoDup a.
Proof.
  induction a as [|x a IH]; intros H; [constructor|]. cbn [app] in H. inversion H as [|? ? Hn Hnd]; subst.
  constructor; [|exact (IH Hnd)]. intros Hin. apply Hn. apply in_or_app. left; exact Hin.
Qed.

Lemma NoDup_app_r {A} (a b : list A) : NoDup (a ++ b) -> NoDup b.
Proof. induction a as [|x a IH]; intros H; [exact H|]. cbn [app] in H. inversion H; subst. auto. Qed.

Lemma map_flat_map {A B C} (f : B -> C) (g : A -> list B) l :
  map f (flat_map g l) = flat_map (fun x => map f (g x)) l.
Proof. induction l as [|x l IH]; cbn [flat_map]; [reflexivity|]. rewrite map_app, IH. reflexivity. Qed.

(** a flat_map whose pieces carry distinct tags is duplicate-free if the pieces are *)
Lemma NoDup_flat_map_tag {A B C} (tag : B -> C) (t : A -> C) (g : A -> list B) l :
  NoDup (map t l) -> (forall x b, In x l -> In b (g x) -> tag b = t x) ->
  (forall x, In x l -> NoDup (g x)) -> NoDup (flat_map g l).
Proof.
  induction l as [|a l IH]; cbn [map flat_map]; intros Hnd Htag Hg; [constructor|].
  inversion Hnd as [|? ? Hn Hnd']; subst. apply NoDup_app_intro.
  - apply Hg. left; reflexivity.
  - apply IH; [exact Hnd' | |]; intros; [eapply Htag | apply Hg]; try right; eassumption.
  - intros b Hb Hin. apply in_flat_map in Hin as (y & Hy & Hby). apply Hn.
    rewrite <- (Htag a b (or_introl eq_refl) Hb), (Htag y b (or_intror Hy) Hby). apply in_map. exact Hy.
Qed.

Lemma NoDup_map_injective {A B} (f : A -> B) l :
  (forall x y, f x = f y -> x = y) -> NoDup l -> NoDup (map f l).
Proof.
  intros Hinj. induction 1 as [|x l Hn _ IH]; cbn [map]; constructor; [|exact IH].
  intros Hin. apply in_map_iff in Hin as (y & E & Hy). apply Hinj in E. subst y. exact (Hn Hy).
Qed.

Lemma flat_map_nil_all {A B} (h : A -> list B) l : (forall y, In y l -> h y = []) -> flat_map h l = [].
Proof.
  induction l as [|a l IH]; intros H; cbn [flat_map]; [reflexivity|].
  rewrite (H a (or_introl eq_refl)), IH; [reflexivity|]. intros y Hy. apply H. right; exact Hy.
Qed.

(** selecting the piece of a tagged flat_map *)
Lemma filter_flat_map_select {A B} (t : A -> bytes) (tag : B -> bytes) (g : A -> list B) (P : B -> bool) l x :
  NoDup (map t l) -> In x l -> (forall y b, In y l -> In b (g y) -> tag b = t y) ->
  filter (fun b => beq (tag b) (t x) && P b) (flat_map g l) = filter P (g x).
Proof.
  induction l as [|a l IH]; cbn [map flat_map]; intros Hnd Hx Htag; [destruct Hx|].
  inversion Hnd as [|? ? Hn Hnd']; subst. rewrite filter_app.
  assert (Hsame : forall y, In y (a :: l) -> t y = t x ->
            filter (fun b => beq (tag b) (t x) && P b) (g y) = filter P (g y)).
  { intros y Hy E. apply filter_ext_in. intros b Hb. rewrite (Htag y b Hy Hb), E, beq_refl. reflexivity. }
  assert (Hdiff : forall y, In y (a :: l) -> t y <> t x ->
            filter (fun b => beq (tag b) (t x) && P b) (g y) = []).
  { intros y Hy E. apply filter_nil_all. intros b Hb. rewrite (Htag y b Hy Hb).
    destruct (beq_spec (t y) (t x)); [contradiction | reflexivity]. }
  destruct Hx as [->|Hx].
  - rewrite (Hsame x (or_introl eq_refl) eq_refl).
    assert (E : filter (fun b => beq (tag b) (t x) && P b) (flat_map g l) = []).
    { rewrite filter_flat_map. apply flat_map_nil_all. intros y Hy. apply Hdiff; [right; exact Hy|].
      intros E. apply Hn. rewrite <- E. apply in_map. exact Hy. }
    rewrite E, app_nil_r. reflexivity.
  - rewrite Hdiff; [| left; reflexivity |].
    + cbn [app]. apply IH; [exact Hnd' | exact Hx|]. intros y b Hy. apply Htag. right; exact Hy.
    + intros E. apply Hn. rewrite E. apply in_map. exact Hx.
Qed.

Lemma map_fst_combine {A B C} (h : A -> C) (l : list A) (m : list B) :
  length m = length l -> map (fun am => h (fst am)) (combine l m) = map h l.
Proof.
  revert m. induction l as [|a l IH]; intros [|b m] H; try discriminate; [reflexivity|].
  cbn [combine map fst]. rewrite IH by (cbn in H; lia). reflexivity.
Qed.

Lemma combine_app_eq {A B} (l1 l2 : list A) (m1 m2 : list B) :
  length m1 = length l1 -> combine (l1 ++ l2) (m1 ++ m2) = combine l1 m1 ++ combine l2 m2.
Proof.
  revert m1. induction l1 as [|a l1 IH]; intros [|b m1] H; try discriminate; [reflexivity|].
  cbn [app combine]. rewrite IH by (cbn in H; lia). reflexivity.
Qed.

Lemma rev_filter {A} (f : A -> bool) l : rev (filter f l) = filter f (rev l).
Proof.
  induction l as [|x l IH]; [reflexivity|]. cbn [filter rev]. rewrite filter_app. cbn [filter].
  destruct (f x); cbn [rev]; rewrite IH; [reflexivity | rewrite app_nil_r; reflexivity].
Qed.

(** ** numbering the records of an upload *)

Lemma number_In {A} (l : list A) : forall i0 i x, In (i, x) (number i0 l) -> (i0 <= i)%N.
Proof.
  induction l as [|a l IH]; intros i0 i x H; [destruct H|]. cbn [number] in H. destruct H as [E|H].
  - inversion E. lia.
  - apply IH in H. lia.
Qed.

Lemma number_nodup {A} (l : list A) : forall i0, NoDup (map fst (number i0 l)).
Proof.
  induction l as [|a l IH]; intros i0; cbn [number map fst]; constructor; [|apply IH].
  intros Hin. apply in_map_iff in Hin as ([i x] & E & Hin). cbn in E. subst i. apply number_In in Hin. lia.
Qed.

Lemma number_snd {A} (l : list A) : forall i0, map snd (number i0 l) = l.
Proof. induction l as [|a l IH]; intros i0; cbn [number map snd]; [reflexivity | rewrite IH; reflexivity]. Qed.

(** ** the storage invariant *)

(** one label row per (record, label name) *)
Definition rec_keys_distinct (rc : rec) : Prop := NoDup (map fst (rec_all_labels rc)).

Definition wf_store (d : db) : Prop :=
  NoDup (map s_id d) /\ forall s, In s d -> Forall rec_keys_distinct (s_recs s).

(** ** the rows of one upload *)

Lemma number_In_snd {A} (l : list A) i0 i x : In (i, x) (number i0 l) -> In x l.
Proof. intros H. rewrite <- (number_snd l i0). change x with (snd (i, x)). apply in_map. exact H. Qed.

Lemma In_record_rows id recs r :
  In r (record_rows id recs) <-> exists i rc, In (i, rc) (number 0 recs) /\ r = mkRr id i (rc_content rc).
Proof.
  unfold record_rows. rewrite in_map_iff. split.
  - intros ([i rc] & E & H). exists i, rc. auto.
  - intros (i & rc & H & E). exists (i, rc). auto.
Qed.

Lemma In_label_rows id recs r :
  In r (label_rows id recs) <->
  exists i rc k v, In (i, rc) (number 0 recs) /\ In (k, v) (rec_all_labels rc) /\ r = mkLr id i k v.
Proof.
  unfold label_rows. rewrite in_flat_map. split.
  - intros ([i rc] & H & Hr). apply in_map_iff in Hr as ([k v] & E & Hkv). exists i, rc, k, v. auto.
  - intros (i & rc & k & v & H & Hkv & E). exists (i, rc). split; [exact H|].
    apply in_map_iff. exists (k, v). auto.
Qed.

Lemma record_rows_nodup id recs : NoDup (map rr_key (record_rows id recs)).
Proof.
  unfold record_rows.
  assert (E : forall l : list (N * rec), map rr_key (map (fun ir => mkRr id (fst ir) (rc_content (snd ir))) l)
              = map (fun i => (id, i)) (map fst l)).
  { intros l. rewrite !map_map. apply map_ext. intros [i rc]. reflexivity. }
  rewrite E. apply NoDup_map_injective; [|apply number_nodup].
  intros x y E'. inversion E'. reflexivity.
Qed.

Lemma label_rows_nodup id recs :
  Forall rec_keys_distinct recs -> NoDup (map lr_pk (label_rows id recs)).
Proof.
  intros Hd. unfold label_rows. rewrite map_flat_map.
  apply (NoDup_flat_map_tag (fun pk : bytes * N * bytes => snd (fst pk)) (fun ir : N * rec => fst ir)).
  - apply number_nodup.
  - intros [i rc] pk _ Hpk. apply in_map_iff in Hpk as (r & <- & Hr). apply in_map_iff in Hr as (kv & <- & _). reflexivity.
  - intros [i rc] Hin. cbn [fst snd].
    assert (E : forall l : labels, map lr_pk (map (fun kv => mkLr id i (fst kv) (snd kv)) l)
                = map (fun k => (id, i, k)) (map fst l)).
    { intros l. rewrite !map_map. apply map_ext. intros [k v]. reflexivity. }
    rewrite E. apply NoDup_map_injective.
    + intros x y E'. inversion E'. reflexivity.
    + rewrite Forall_forall in Hd. apply Hd. eapply number_In_snd; exact Hin.
Qed.

(** ** the tables of a stored state satisfy the declared constraints *)

Lemma tables_constraints d ms :
  wf_store d -> length ms = length d -> constraints (tables_of d ms).
Proof.
  intros [Hids Hrecs] Hlen. split.
  - (* PRIMARY KEY (UploadID, RecordID, Name) *)
    unfold pk_labels, tables_of. cbn [t_labels]. rewrite map_flat_map.
    apply (NoDup_flat_map_tag (fun pk : bytes * N * bytes => fst (fst pk)) s_id); [exact Hids | |].
    + intros s pk _ Hpk. apply in_map_iff in Hpk as (r & <- & Hr).
      apply In_label_rows in Hr as (i & rc & k & v & _ & _ & ->). reflexivity.
    + intros s Hs. apply label_rows_nodup. apply Hrecs. exact Hs.
  - (* PRIMARY KEY (UploadID, RecordID) *)
    unfold pk_records, tables_of. cbn [t_records]. rewrite map_flat_map.
    apply (NoDup_flat_map_tag (fun k : key => fst k) s_id); [exact Hids | |].
    + intros s k _ Hk. apply in_map_iff in Hk as (r & <- & Hr).
      apply In_record_rows in Hr as (i & rc & _ & ->). reflexivity.
    + intros s _. apply record_rows_nodup.
  - (* PRIMARY KEY (UploadID) *)
    unfold pk_uploads, tables_of. cbn [t_uploads]. rewrite map_map. cbn [up_id].
    rewrite (map_fst_combine s_id d ms Hlen). exact Hids.
  - (* FOREIGN KEY (UploadID, RecordID) REFERENCES Records *)
    unfold fk_labels, tables_of. cbn [t_labels t_records]. intros r Hr.
    apply in_flat_map in Hr as (s & Hs & Hr). apply In_label_rows in Hr as (i & rc & k & v & Hi & _ & ->).
    apply in_map_iff. exists (mkRr (s_id s) i (rc_content rc)). split; [reflexivity|].
    apply in_flat_map. exists s. split; [exact Hs|]. apply In_record_rows. exists i, rc. auto.
  - (* FOREIGN KEY (UploadID) REFERENCES Uploads *)
    unfold fk_records, tables_of. cbn [t_records t_uploads]. intros r Hr.
    apply in_flat_map in Hr as (s & Hs & Hr). apply In_record_rows in Hr as (i & rc & _ & ->).
    rewrite map_map. cbn [up_id rr_upload]. rewrite (map_fst_combine s_id d ms Hlen). apply in_map. exact Hs.
Qed.

(** ** a stored record and its rows: same labels as a map *)

Lemma In_tables_labels d ms id i k v :
  In (mkLr id i k v) (t_labels (tables_of d ms)) <->
  exists s rc, In s d /\ s_id s = id /\ In (i, rc) (number 0 (s_recs s)) /\ In (k, v) (rec_all_labels rc).
Proof.
  unfold tables_of. cbn [t_labels]. rewrite in_flat_map. split.
  - intros (s & Hs & Hr). apply In_label_rows in Hr as (i' & rc & k' & v' & Hi & Hkv & E).
    inversion E; subst. exists s, rc. auto.
  - intros (s & rc & Hs & <- & Hi & Hkv). exists s. split; [exact Hs|].
    apply In_label_rows. exists i, rc, k, v. auto.
Qed.

Lemma lookup_eq_by_some (a b : labels) k :
  (forall v, lookup k a = Some v <-> lookup k b = Some v) -> lookup k a = lookup k b.
Proof.
  intros H. destruct (lookup k a) as [v|] eqn:Ea.
  - symmetry. apply H. reflexivity.
  - destruct (lookup k b) as [w|] eqn:Eb; [|reflexivity]. apply (proj2 (H w)). reflexivity.
Qed.

Lemma stored_labels_lookup d ms s i rc k :
  wf_store d -> length ms = length d -> In s d -> In (i, rc) (number 0 (s_recs s)) ->
  lookup k (labels_of (tables_of d ms) (s_id s, i)) = lookup k (rec_all_labels rc).
Proof.
  intros Hwf Hlen Hs Hi. pose proof (tables_constraints d ms Hwf Hlen) as HC. destruct Hwf as [Hids Hrecs].
  apply lookup_eq_by_some. intros v.
  rewrite (lookup_labels_of _ _ _ _ (c_pkl _ HC)). cbn [fst snd]. rewrite In_tables_labels. split.
  - intros (s' & rc' & Hs' & E & Hi' & Hkv).
    assert (s' = s) by (apply (NoDup_map_inj_in s_id d); assumption). subst s'.
    assert (Eq : (i, rc') = (i, rc)).
    { apply (NoDup_map_inj_in fst (number 0 (s_recs s))); [apply number_nodup | assumption | assumption | reflexivity]. }
    inversion Eq; subst rc'. apply nodup_lookup; [|exact Hkv].
    specialize (Hrecs s Hs). rewrite Forall_forall in Hrecs. apply Hrecs. eapply number_In_snd; exact Hi.
  - intros H. apply lookup_Some_In in H. exists s, rc. auto.
Qed.

Lemma part_selects_lookup p id (a b : labels) :
  (forall k, lookup k a = lookup k b) -> part_selects p (mkQrec id a) = part_selects p (mkQrec id b).
Proof. intros H. unfold part_selects. cbn [q_upload q_labels]. rewrite H. reflexivity. Qed.

Lemma stored_row_selected d ms ps s i rc :
  wf_store d -> length ms = length d -> In s d -> In (i, rc) (number 0 (s_recs s)) ->
  row_selected (tables_of d ms) ps (mkRr (s_id s) i (rc_content rc))
  = query_selects ps (qrec_of (s_id s) rc).
Proof.
  intros Hwf Hlen Hs Hi. unfold row_selected, query_selects. apply forallb_ext'. intros p.
  unfold qrec_of_row, qrec_of. cbn [rr_upload rr_key rr_id]. apply part_selects_lookup.
  intros k. apply stored_labels_lookup; assumption.
Qed.

Lemma number_filter_map {A B} (F : A -> B) (Q : A -> bool) (l : list A) : forall i0 (P : N -> A -> bool),
  (forall i x, In (i, x) (number i0 l) -> P i x = Q x) ->
  map (fun ix => F (snd ix)) (filter (fun ix => P (fst ix) (snd ix)) (number i0 l)) = map F (filter Q l).
Proof.
  induction l as [|a l IH]; intros i0 P H; [reflexivity|]. cbn [number filter fst snd].
  rewrite (H i0 a (or_introl eq_refl)).
  destruct (Q a); cbn [map snd]; rewrite (IH (i0 + 1)%N P) by (intros i x Hin; apply H; right; exact Hin); reflexivity.
Qed.

(** the selected rows of one upload, in the order of its records *)
Lemma upload_rows_selected {B} (h : bytes -> B) d ms ps s :
  wf_store d -> length ms = length d -> In s d ->
  map (fun r => h (rr_content r)) (filter (row_selected (tables_of d ms) ps) (record_rows (s_id s) (s_recs s)))
  = map (fun rc => h (rc_content rc)) (filter (fun rc => query_selects ps (qrec_of (s_id s) rc)) (s_recs s)).
Proof.
  intros Hwf Hlen Hs. unfold record_rows. rewrite filter_map_comm, map_map. cbn [rr_content].
  apply (number_filter_map (fun rc => h (rc_content rc)) (fun rc => query_selects ps (qrec_of (s_id s) rc))
           (s_recs s) 0%N
           (fun i rc => row_selected (tables_of d ms) ps (mkRr (s_id s) i (rc_content rc)))).
  intros i rc Hi. apply stored_row_selected; assumption.
Qed.

(** ** DB.Query *)

(** THE THEOREM: the SQL DB.Query sends — per key a sub-select over RecordLabels
    (or over Records for the key "upload") filtered by the part's bytewise
    comparison, INNER JOINed on (UploadID, RecordID), LEFT JOINed with Records —
    evaluated relationally over the tables of the stored state, returns the
    Content of exactly the stored records [query_selects] selects, each once
    and never NULL. [query_selects] is the meaning C19_query_returns_exactly,
    C19_query_means_terms and the listing theorems start from. *)
Theorem sql_semantics_is_query_selects d ms ps subs :
  wf_store d -> length ms = length d -> parts_sql ps = Some subs ->
  Permutation (sql_query (tables_of d ms) subs)
    (map (fun ir => Some (rc_content (snd ir)))
         (filter (fun ir => query_selects ps (qrec_of (fst ir) (snd ir))) (db_records d))).
Proof.
  intros Hwf Hlen Hs. pose proof (tables_constraints d ms Hwf Hlen) as HC.
  eapply Permutation_trans; [apply (sql_query_is_query_selects _ HC ps subs Hs)|].
  match goal with |- Permutation ?a ?b => assert (E : a = b); [|rewrite E; reflexivity] end.
  unfold db_records. cbn [tables_of t_records]. rewrite !filter_flat_map, !map_flat_map.
  apply flat_map_ext_in'. intros s Hs'.
  rewrite (upload_rows_selected (fun c => Some c) d ms ps s Hwf Hlen Hs').
  rewrite filter_map_comm, map_map. reflexivity.
Qed.

Lemma parse_query_parts_sql q ps : parse_query q = QOk ps -> exists subs, parts_sql ps = Some subs.
Proof.
  unfold parse_query. destruct (parse_words (split_words q) []) as [e| |m]; try discriminate.
  destruct (forallb sql_ok (sort_parts m)) eqn:Eok; [|discriminate]. intros [= <-].
  induction (sort_parts m) as [|p l IH]; [exists []; reflexivity|].
  cbn [forallb] in Eok. apply andb_true_iff in Eok as [Hp Hl].
  apply part_sql_ok in Hp as [s Hs]. destruct (IH Hl) as [ss Hss].
  exists (s :: ss). cbn [parts_sql]. rewrite Hs, Hss. reflexivity.
Qed.

(** ... so DB.Query(q), computed through the relational semantics of its SQL,
    yields the results [db_query] / [run_query] say (as a bag: SQL fixes no order) *)
Theorem sql_db_query d ms q ps :
  wf_store d -> length ms = length d -> parse_query q = QOk ps ->
  exists subs, parts_sql ps = Some subs
    /\ Permutation (flat_map read_content (sql_query (tables_of d ms) subs)) (run_query d ps)
    /\ db_query d q = inl (run_query d ps).
Proof.
  intros Hwf Hlen Hq. destruct (parse_query_parts_sql q ps Hq) as [subs Hs]. exists subs.
  split; [exact Hs|]. split; [|unfold db_query; rewrite Hq; reflexivity].
  eapply Permutation_trans;
    [apply Permutation_flat_map'; apply (sql_semantics_is_query_selects d ms ps subs Hwf Hlen Hs)|].
  unfold run_query. rewrite (flat_map_if_filter' (fun ir => query_selects ps (qrec_of (fst ir) (snd ir)))).
  rewrite flat_map_concat_map, map_map, <- flat_map_concat_map. reflexivity.
Qed.

(** ** DB.ListUploads *)

(** creation order = increasing (Day, Seq): what NewUpload produces under a
    clock that does not go back (C20_ids_increase; Day as 8-digit text) *)
Definition ups_increasing (ups : list up_row) : Prop :=
  StronglySorted (fun a b => lex (bcmp (up_day a) (up_day b)) (N.compare (up_seq a) (up_seq b)) = Lt) ups.

Lemma StronglySorted_map {A B} (R : A -> A -> Prop) (S : B -> B -> Prop) (f : A -> B) l :
  (forall x y, R x y -> S (f x) (f y)) -> StronglySorted R l -> StronglySorted S (map f l).
Proof.
  intros H. induction 1 as [|a l _ IH Ha]; cbn [map]; constructor; [exact IH|].
  rewrite Forall_forall in *. intros y Hy. apply in_map_iff in Hy as (x & <- & Hx). apply H, Ha, Hx.
Qed.

Lemma StronglySorted_filter {A} (R : A -> A -> Prop) (f : A -> bool) l :
  StronglySorted R l -> StronglySorted R (filter f l).
Proof.
  induction 1 as [|a l _ IH Ha]; cbn [filter]; [constructor|].
  destruct (f a); [|exact IH]. constructor; [exact IH|].
  rewrite Forall_forall in *. intros y Hy. apply filter_In in Hy as [Hy _]. exact (Ha y Hy).
Qed.

Lemma sql_limit_take {A} limit (l : list A) : sql_limit limit l = take_limit limit l.
Proof.
  unfold sql_limit, take_limit.
  destruct (Z.eqb_spec limit 0) as [->|Hn]; [reflexivity|].
  destruct (Z.ltb_spec limit 0), (Z.leb_spec limit 0); try reflexivity; lia.
Qed.

Lemma take_limit_map {A B} (f : A -> B) limit l : map f (take_limit limit l) = take_limit limit (map f l).
Proof. unfold take_limit. destruct (limit <=? 0)%Z; [reflexivity | symmetry; apply firstn_map]. Qed.

(** THE THEOREM for listings: the SQL DB.ListUploads sends (joined sub-selects,
    GROUP BY UploadID with COUNT, LEFT JOIN Uploads, ORDER BY Day DESC, Seq
    DESC, UploadID DESC, LIMIT; or its optimised form for the empty query)
    evaluated relationally is [list_uploads_parts]: per upload the number of
    stored records [query_selects] selects, uploads without one hidden, newest
    first, limited *)
Theorem sql_listing_is_list_uploads d ms ps subs limit :
  wf_store d -> length ms = length d -> ups_increasing (t_uploads (tables_of d ms)) ->
  parts_sql ps = Some subs ->
  sql_list_uploads (tables_of d ms) subs limit = list_uploads_parts d ps limit.
Proof.
  intros Hwf Hlen Hinc Hs. pose proof (tables_constraints d ms Hwf Hlen) as HC.
  rewrite (sql_list_is_counts _ HC ps subs limit Hs).
  set (T := tables_of d ms) in *.
  (* the rows are ascending, so the descending sort reverses them *)
  assert (Hasc : StronglySorted (fun x y => kcmp (rkey x) (rkey y) = Lt) (spec_rows T ps)).
  { unfold spec_rows. apply StronglySorted_filter.
    eapply StronglySorted_map; [|exact Hinc]. intros x y H. unfold kcmp, rkey, opt_cmp, lex'. cbn [fst snd lw_daysq lw_id].
    unfold lex in H. rewrite H. reflexivity. }
  rewrite (sort_desc_ext row_cmp (fun a b => kcmp (rkey a) (rkey b))) by apply row_cmp_kcmp.
  rewrite (sortd_of_ascending kcmp rkey okcmp_kcmp _ Hasc).
  rewrite sql_limit_take, take_limit_map. unfold list_uploads_parts. f_equal.
  unfold spec_rows. rewrite rev_filter, <- map_rev.
  change (fun w : list_row => negb (lw_count w =? 0)%N)
    with (fun w : list_row => (fun ic : bytes * N => negb (snd ic =? 0)%N) ((fun w => (lw_id w, lw_count w)) w)).
  rewrite <- filter_map_comm. f_equal. rewrite map_map, !map_rev. f_equal. cbn [lw_id lw_count].
  change (t_uploads T) with (map (fun sm : stored * (bytes * N) => mkUp (s_id (fst sm)) (fst (snd sm)) (snd (snd sm))) (combine d ms)).
  rewrite map_map. cbn [up_id].
  rewrite (map_fst_combine (fun s => (s_id s, N.of_nat (length (filter
             (fun r => beq (rr_upload r) (s_id s) && row_selected T ps r) (t_records T))))) d ms Hlen).
  apply map_ext_in. intros s Hs'. do 3 f_equal.
  change (t_records T) with (flat_map (fun s => record_rows (s_id s) (s_recs s)) d).
  rewrite (filter_flat_map_select s_id rr_upload (fun s => record_rows (s_id s) (s_recs s))
             (row_selected T ps) d s (proj1 Hwf) Hs').
  - rewrite <- (map_length (fun r => tt)). unfold T.
    rewrite (upload_rows_selected (fun _ => tt) d ms ps s Hwf Hlen Hs'). apply map_length.
  - intros y r _ Hr. apply In_record_rows in Hr as (i & rc & _ & ->). reflexivity.
Qed.

(** ** the insert model *)

(** *** at the level of the stored state: [apply_upload] keeps the invariant *)

Lemma ksorted_nodup_keys (l : labels) : ksorted l -> NoDup (map fst l).
Proof.
  induction l as [|[k v] l IH]; cbn [ksorted map fst]; intros H; [constructor|].
  destruct H as [Ha Hs]. constructor; [|exact (IH Hs)].
  intros Hin. apply in_map_iff in Hin as ([k' v'] & E & Hin). cbn in E. subst k'.
  exact (blt_irrefl k (Ha k v' Hin)).
Qed.

Lemma lhas_In k (l : labels) : lhas k l = true <-> In k (map fst l).
Proof.
  unfold lhas. split.
  - destruct (lookup k l) as [v|] eqn:E; [|discriminate]. intros _. apply lookup_Some_In in E.
    change k with (fst (k, v)). apply in_map. exact E.
  - intros H. apply in_map_iff in H as ([k' v] & E & Hin). cbn in E. subst k'.
    induction l as [|[a b] l IH]; [destruct Hin|]. cbn [lookup]. destruct (beq_spec a k) as [->|Hne]; [reflexivity|].
    destruct Hin as [E|Hin]; [inversion E; congruence | exact (IH Hin)].
Qed.

(** the collision test of process_upload, on label lists that are maps *)
Definition rec_collides (rc : rec) : bool :=
  existsb (fun kv => lhas (fst kv) (rc_namelabels rc)) (rc_labels rc).

Lemma rec_keys_distinct_iff rc :
  ksorted (rc_labels rc) -> ksorted (rc_namelabels rc) ->
  (rec_keys_distinct rc <-> rec_collides rc = false).
Proof.
  intros H1 H2. unfold rec_keys_distinct, rec_all_labels, rec_collides. rewrite map_app. split.
  - intros Hnd. destruct (existsb _ _) eqn:E; [|reflexivity]. exfalso.
    apply existsb_exists in E as ([k v] & Hin & Hh). cbn [fst] in Hh. apply lhas_In in Hh.
    revert Hnd. generalize (in_map fst _ _ Hin). cbn [fst]. generalize (map fst (rc_labels rc)) as a.
    intros a Ha Hnd. induction a as [|x a IH]; [destruct Ha|]. cbn [app] in Hnd.
    inversion Hnd as [|? ? Hn Hnd']; subst. destruct Ha as [->|Ha]; [|exact (IH Ha Hnd')].
    apply Hn. apply in_or_app. right. exact Hh.
  - intros E. apply NoDup_app_intro; [apply ksorted_nodup_keys; exact H1 | apply ksorted_nodup_keys; exact H2|].
    intros k Hk Hk2. apply in_map_iff in Hk as ([k' v] & Ek & Hin). cbn in Ek. subst k'.
    assert (existsb (fun kv => lhas (fst kv) (rc_namelabels rc)) (rc_labels rc) = true); [|congruence].
    apply existsb_exists. exists (k, v). split; [exact Hin|]. cbn [fst]. apply lhas_In. exact Hk2.
Qed.

Definition rec_sorted (rc : rec) : Prop := ksorted (rc_labels rc) /\ ksorted (rc_namelabels rc).
Definition res_sorted (r : result) : Prop := ksorted (r_labels r) /\ ksorted (r_namelabels r).

(** InsertRecord: a new record carries the labels of its first result; a
    coalesced one keeps them *)
Lemma insert_record_sorted st r :
  Forall rec_sorted (i_recs st) -> res_sorted r -> Forall rec_sorted (i_recs (insert_record st r)).
Proof.
  intros Hst Hr. unfold insert_record.
  assert (Hnew : forall last pend, Forall rec_sorted
            (i_recs (mkIns (mkRec (r_labels r) (r_namelabels r) (print_one [] r) :: i_recs st) last pend))).
  { intros. cbn [i_recs]. constructor; [exact Hr | exact Hst]. }
  destruct (i_last st) as [lr|]; [|destruct (ins_labels _ _ _); apply Hnew].
  destruct (i_recs st) as [|top others] eqn:Er; [destruct (ins_labels _ _ _); apply Hnew|].
  destruct (same_labels lr r).
  - cbn [i_recs]. inversion Hst; subst. constructor; assumption.
  - destruct (ins_labels _ _ _). apply Hnew.
Qed.

Lemma fold_insert_sorted rs : forall st,
  Forall rec_sorted (i_recs st) -> Forall res_sorted rs ->
  Forall rec_sorted (i_recs (fold_left insert_record rs st)).
Proof.
  induction rs as [|r rs IH]; intros st Hst Hrs; cbn [fold_left]; [exact Hst|].
  inversion Hrs; subst. apply IH; [apply insert_record_sorted|]; assumption.
Qed.

Lemma index_files_sorted u fs : forall i st st',
  Forall rec_sorted (i_recs st) -> index_files u i fs st = inl st' -> Forall rec_sorted (i_recs st').
Proof.
  induction fs as [|f fs IH]; intros i st st' Hst H; cbn [index_files] in H; [inversion H; subst; exact Hst|].
  destruct (read_with (file_meta u i f) (f_body f)) as [|r0 rs0] eqn:Er; [discriminate|].
  apply IH in H; [exact H|]. apply fold_insert_sorted; [exact Hst|]. rewrite <- Er.
  apply Forall_forall. intros r Hr. split.
  - eapply reader_labels_sorted_with; exact Hr.
  - unfold read_with in Hr. eapply read_loop_namelabels; exact Hr.
Qed.

(** the records of an upload the model accepts: one label row per (record, name) *)
Theorem process_upload_keys_distinct u recs :
  process_upload u = inl recs -> Forall rec_keys_distinct recs.
Proof.
  unfold process_upload. destruct (u_files u) as [|f fs]; [discriminate|].
  destruct (index_files u 0 (f :: fs) ins0) as [st|e] eqn:Ei; [|discriminate].
  destruct (existsb _ (rev (i_recs st))) eqn:Ec; [discriminate|]. intros [= <-].
  apply index_files_sorted in Ei; [|constructor].
  apply Forall_forall. intros rc Hrc. apply in_rev in Hrc.
  rewrite Forall_forall in Ei. destruct (Ei rc Hrc) as [H1 H2].
  apply rec_keys_distinct_iff; [exact H1 | exact H2|].
  destruct (rec_collides rc) eqn:E; [|reflexivity].
  assert (existsb (fun rc => existsb (fun kv => lhas (fst kv) (rc_namelabels rc)) (rc_labels rc)) (rev (i_recs st)) = true); [|congruence].
  apply existsb_exists. exists rc. split; [apply -> in_rev; exact Hrc | exact E].
Qed.

(** ... and a refusal for a label collision is a violation of exactly that *)
Theorem process_upload_collision u :
  process_upload u = inr FLabelCollision ->
  exists recs, ~ Forall rec_keys_distinct recs
    /\ exists st, index_files u 0 (u_files u) ins0 = inl st /\ recs = rev (i_recs st).
Proof.
  unfold process_upload. destruct (u_files u) as [|f fs]; [discriminate|].
  destruct (index_files u 0 (f :: fs) ins0) as [st|e] eqn:Ei; [|intros [= ->]].
  - destruct (existsb _ (rev (i_recs st))) eqn:Ec; [|discriminate]. intros _.
    exists (rev (i_recs st)). split; [|exists st; auto].
    apply existsb_exists in Ec as (rc & Hrc & Hc). intros Hall. rewrite Forall_forall in Hall.
    pose proof (index_files_sorted u (f :: fs) 0%N ins0 st (Forall_nil _) Ei) as Hs. rewrite Forall_forall in Hs.
    destruct (Hs rc (proj2 (in_rev _ _) Hrc)) as [H1 H2].
    apply (rec_keys_distinct_iff rc H1 H2) in Hall; [|exact Hrc]. unfold rec_collides in Hall. congruence.
  - exfalso.
    assert (G : forall gs st i, index_files u i gs st <> inr FLabelCollision).
    { induction gs as [|g gs IH]; intros st i H; cbn [index_files] in H; [discriminate|].
      destruct (read_with _ _); [discriminate | exact (IH _ _ H)]. }
    exact (G _ _ _ Ei).
Qed.

(** [apply_upload] (the insert model of the stored state) keeps the invariant,
    given that the upload's ID is new (C20_ids_never_reused) *)
Theorem apply_upload_keeps_wf_store d u :
  wf_store d -> ~ In (u_id u) (map s_id d) -> wf_store (fst (apply_upload d u)).
Proof.
  intros [Hids Hrecs] Hnew. unfold apply_upload.
  destruct (process_upload u) as [recs|e] eqn:Ep; cbn [fst]; [|split; assumption].
  split.
  - rewrite map_app. cbn [map s_id]. apply NoDup_app_intro; [exact Hids | constructor; [intros [] | constructor]|].
    intros x Hx [<-|[]]. exact (Hnew Hx).
  - intros s Hs. apply in_app_or in Hs as [Hs|[<-|[]]]; [exact (Hrecs s Hs)|].
    cbn [s_recs]. exact (process_upload_keys_distinct u recs Ep).
Qed.

Lemma wf_store_nil : wf_store [].
Proof. split; [constructor | intros s []]. Qed.

(** *** at the level of the tables: the INSERTs under the declared constraints *)

Lemma nodupb_spec {A} (eqb : A -> A -> bool) (Heq : forall a b, reflect (a = b) (eqb a b)) l :
  nodupb eqb l = true <-> NoDup l.
Proof.
  induction l as [|x l IH]; cbn [nodupb]; [split; [constructor | reflexivity]|].
  rewrite andb_true_iff, negb_true_iff, IH. split.
  - intros [Hn Hnd]. constructor; [|exact Hnd]. intros Hin.
    apply (existsb_eqb_In eqb Heq) in Hin. congruence.
  - intros H. inversion H as [|? ? Hn Hnd]; subst. split; [|exact Hnd].
    destruct (existsb (eqb x) l) eqn:E; [|reflexivity]. apply (existsb_eqb_In eqb Heq) in E. contradiction.
Qed.

Lemma pk3_eqb_spec a b : reflect (a = b) (pk3_eqb a b).
Proof.
  destruct a as [ka na], b as [kb nb]. unfold pk3_eqb. cbn [fst snd].
  destruct (key_eqb_spec ka kb) as [->|H1]; [|constructor; congruence].
  destruct (beq_spec na nb) as [->|H2]; constructor; congruence.
Qed.

Lemma tables_of_snoc d ms id recs day seq :
  length ms = length d ->
  tables_of (d ++ [mkStored id recs]) (ms ++ [(day, seq)])
  = mkT (t_uploads (tables_of d ms) ++ [mkUp id day seq])
        (t_records (tables_of d ms) ++ record_rows id recs)
        (t_labels (tables_of d ms) ++ label_rows id recs).
Proof.
  intros Hlen. unfold tables_of. cbn [t_uploads t_records t_labels].
  rewrite combine_app_eq by exact Hlen. rewrite map_app, !flat_map_app. cbn [combine map flat_map fst snd s_id s_recs].
  rewrite !app_nil_r. reflexivity.
Qed.

(** the INSERTs of an upload the model accepts succeed, and the tables
    afterwards are those of the extended stored state *)
Theorem store_upload_tables_of d ms id day seq recs :
  wf_store d -> length ms = length d -> ~ In id (map s_id d) -> Forall rec_keys_distinct recs ->
  store_upload (tables_of d ms) id day seq recs
  = Some (tables_of (d ++ [mkStored id recs]) (ms ++ [(day, seq)])).
Proof.
  intros Hwf Hlen Hnew Hrecs.
  assert (Hwf' : wf_store (d ++ [mkStored id recs])).
  { destruct Hwf as [Hids Hr]. split.
    - rewrite map_app. apply NoDup_app_intro; [exact Hids | constructor; [intros [] | constructor]|].
      intros x Hx [<-|[]]. exact (Hnew Hx).
    - intros s Hs. apply in_app_or in Hs as [Hs|[<-|[]]]; [exact (Hr s Hs) | exact Hrecs]. }
  assert (Hlen' : length (ms ++ [(day, seq)]) = length (d ++ [mkStored id recs])) by (rewrite !app_length; cbn; lia).
  pose proof (tables_constraints _ _ Hwf' Hlen') as HC'. rewrite (tables_of_snoc d ms id recs day seq Hlen) in *.
  set (T := tables_of d ms) in *.
  unfold store_upload, insert_upload. cbn [up_id].
  assert (Eu : existsb (fun x => beq (up_id x) id) (t_uploads T) = false).
  { destruct (existsb _ _) eqn:E; [|reflexivity]. exfalso. apply existsb_exists in E as (x & Hx & Ex).
    apply beq_eq in Ex. apply Hnew. unfold T, tables_of in Hx. cbn [t_uploads] in Hx.
    apply in_map_iff in Hx as ([s m] & <- & Hsm) . cbn [up_id fst] in Ex. rewrite <- Ex.
    apply in_map. eapply in_combine_l; exact Hsm. }
  rewrite Eu. unfold insert_records. cbn [t_records t_uploads t_labels].
  assert (E1 : nodupb key_eqb (map rr_key (t_records T ++ record_rows id recs)) = true).
  { apply (nodupb_spec key_eqb key_eqb_spec). exact (c_pkr _ HC'). }
  assert (E2 : forallb (fun r => existsb (fun u => beq (up_id u) (rr_upload r)) (t_uploads T ++ [mkUp id day seq]))
                 (record_rows id recs) = true).
  { apply forallb_forall. intros r Hr. apply In_record_rows in Hr as (i & rc & _ & ->). cbn [rr_upload].
    apply existsb_exists. exists (mkUp id day seq). split; [apply in_or_app; right; left; reflexivity | apply beq_refl]. }
  rewrite E1, E2. cbn [andb]. unfold insert_labels. cbn [t_records t_uploads t_labels].
  assert (E3 : nodupb pk3_eqb (map lr_pk (t_labels T ++ label_rows id recs)) = true).
  { apply (nodupb_spec pk3_eqb pk3_eqb_spec). exact (c_pkl _ HC'). }
  assert (E4 : forallb (fun r => existsb (fun x => key_eqb (rr_key x) (lr_key r)) (t_records T ++ record_rows id recs))
                 (label_rows id recs) = true).
  { apply forallb_forall. intros r Hr. apply In_label_rows in Hr as (i & rc & k & v & Hi & _ & ->).
    apply existsb_exists. exists (mkRr id i (rc_content rc)). split.
    - apply in_or_app. right. apply In_record_rows. exists i, rc. auto.
    - unfold key_eqb. cbn. rewrite beq_refl, N.eqb_refl. reflexivity. }
  rewrite E3, E4. reflexivity.
Qed.

Lemma NoDup_flat_map_piece {A B} (g : A -> list B) l x : NoDup (flat_map g l) -> In x l -> NoDup (g x).
Proof.
  induction l as [|a l IH]; cbn [flat_map]; intros Hnd Hx; [destruct Hx|].
  destruct Hx as [->|Hx]; [eapply NoDup_app_l; exact Hnd | apply IH; [eapply NoDup_app_r; exact Hnd | exact Hx]].
Qed.

(** a record with one label name twice (a file label that is also a name label)
    is refused by PRIMARY KEY (UploadID, RecordID, Name), whatever the tables hold *)
Theorem store_upload_refuses_collision T id day seq recs :
  ~ Forall rec_keys_distinct recs -> store_upload T id day seq recs = None.
Proof.
  intros Hbad. unfold store_upload. destruct (insert_upload _ T) as [T1|]; [|reflexivity].
  destruct (insert_records _ T1) as [T2|]; [|reflexivity]. unfold insert_labels.
  destruct (nodupb pk3_eqb (map lr_pk (t_labels T2 ++ label_rows id recs))) eqn:E; [|reflexivity].
  exfalso. apply Hbad. apply (nodupb_spec pk3_eqb pk3_eqb_spec) in E. rewrite map_app in E.
  apply NoDup_app_r in E. unfold label_rows in E. rewrite map_flat_map in E.
  apply Forall_forall. intros rc Hrc.
  assert (Hi : exists i, In (i, rc) (number 0 recs)).
  { rewrite <- (number_snd recs 0) in Hrc. apply in_map_iff in Hrc as ([i rc'] & Erc & Hin). cbn in Erc. subst rc'. eauto. }
  destruct Hi as [i Hi]. pose proof (NoDup_flat_map_piece _ _ _ E Hi) as Hp. cbn [fst snd] in Hp.
  assert (Em : forall l : labels, map lr_pk (map (fun kv => mkLr id i (fst kv) (snd kv)) l)
               = map (fun k => (id, i, k)) (map fst l)).
  { intros l. rewrite !map_map. apply map_ext. intros [k v]. reflexivity. }
  rewrite Em in Hp. unfold rec_keys_distinct. eapply NoDup_map_inv; exact Hp.
Qed.

(** whatever is inserted, the constraints keep holding (the INSERT statements
    check them): the storage invariant at the level of the tables *)
Theorem store_upload_constraints T id day seq recs T' :
  constraints T -> store_upload T id day seq recs = Some T' -> constraints T'.
Proof.
  intros [pkl pkr pku fkl fkr]. unfold store_upload, insert_upload, insert_records, insert_labels.
  destruct (existsb _ (t_uploads T)) eqn:Eu; [discriminate|]. cbn [up_id] in Eu. cbn [t_uploads t_records t_labels].
  destruct (nodupb key_eqb _ && _) eqn:Er; [|discriminate]. cbn [t_uploads t_records t_labels].
  destruct (nodupb pk3_eqb _ && _) eqn:El; [|discriminate]. intros [= <-].
  apply andb_true_iff in Er as [Er1 Er2]. apply andb_true_iff in El as [El1 El2].
  apply (nodupb_spec key_eqb key_eqb_spec) in Er1. apply (nodupb_spec pk3_eqb pk3_eqb_spec) in El1.
  rewrite forallb_forall in Er2, El2.
  split; unfold pk_labels, pk_records, pk_uploads, fk_labels, fk_records; cbn [t_uploads t_records t_labels].
  - exact El1.
  - exact Er1.
  - rewrite map_app. apply NoDup_app_intro; [exact pku | constructor; [intros [] | constructor]|].
    intros x Hx [<-|[]]. apply in_map_iff in Hx as (u & Eid & Hu).
    assert (existsb (fun x => beq (up_id x) id) (t_uploads T) = true); [|congruence].
    apply existsb_exists. exists u. split; [exact Hu | apply beq_eq; exact Eid].
  - intros r Hr. rewrite map_app. apply in_or_app. apply in_app_or in Hr as [Hr|Hr].
    + left. exact (fkl r Hr).
    + specialize (El2 r Hr). apply existsb_exists in El2 as (x & Hx & Ex).
      destruct (key_eqb_spec (rr_key x) (lr_key r)) as [<-|]; [|discriminate].
      apply in_app_or in Hx as [Hx|Hx]; [left | right]; apply in_map; exact Hx.
  - intros r Hr. rewrite map_app. apply in_or_app. apply in_app_or in Hr as [Hr|Hr].
    + left. exact (fkr r Hr).
    + specialize (Er2 r Hr). apply existsb_exists in Er2 as (u & Hu & Eu').
      apply beq_eq in Eu'. rewrite <- Eu'. apply in_app_or in Hu as [Hu|Hu]; [left | right]; apply in_map; exact Hu.
Qed.

(** the whole history: the tables are built by the relational INSERTs from the
    empty database, upload by upload *)
Fixpoint store_history (T : tables) (h : list (stored * (bytes * N))) : option tables :=
  match h with
  | [] => Some T
  | (s, m) :: h' =>
      match store_upload T (s_id s) (fst m) (snd m) (s_recs s) with
      | Some T' => store_history T' h'
      | None => None
      end
  end.

Theorem store_history_tables_of d ms :
  wf_store d -> length ms = length d ->
  store_history (mkT [] [] []) (combine d ms) = Some (tables_of d ms).
Proof.
  intros Hwf Hlen.
  assert (G : forall d2 ms2 d1 ms1, length ms1 = length d1 -> length ms2 = length d2 ->
            wf_store (d1 ++ d2) ->
            store_history (tables_of d1 ms1) (combine d2 ms2) = Some (tables_of (d1 ++ d2) (ms1 ++ ms2))).
  { induction d2 as [|s d2 IH]; intros ms2 d1 ms1 H1 H2 Hw.
    - destruct ms2; [|discriminate]. rewrite !app_nil_r. reflexivity.
    - destruct ms2 as [|[day seq] ms2]; [discriminate|]. cbn [combine store_history fst snd].
      destruct Hw as [Hids Hr].
      assert (Hw1 : wf_store d1).
      { split; [rewrite map_app in Hids; eapply NoDup_app_l; exact Hids|].
        intros x Hx. apply Hr. apply in_or_app. left; exact Hx. }
      rewrite (store_upload_tables_of d1 ms1 (s_id s) day seq (s_recs s) Hw1 H1).
      + destruct s as [id recs]. cbn [s_id s_recs].
        replace (d1 ++ mkStored id recs :: d2) with ((d1 ++ [mkStored id recs]) ++ d2) by (rewrite <- app_assoc; reflexivity).
        replace (ms1 ++ (day, seq) :: ms2) with ((ms1 ++ [(day, seq)]) ++ ms2) by (rewrite <- app_assoc; reflexivity).
        apply IH; [rewrite !app_length; cbn; lia | cbn in H2; lia|].
        rewrite <- app_assoc. split; assumption.
      + rewrite map_app in Hids. cbn [map] in Hids. intros Hin.
        apply NoDup_remove_2 in Hids. apply Hids. apply in_or_app. left; exact Hin.
      + apply Hr. apply in_or_app. right; left; reflexivity. }
  apply (G d ms [] []); auto.
Qed.

(** ** end to end: query text -> SQL -> relational evaluation -> the stored
    records satisfying every term *)

Theorem sql_query_returns_exactly d ms q ps :
  wf_db d -> wf_store d -> length ms = length d -> parse_query q = QOk ps ->
  exists subs ts, parts_sql ps = Some subs /\ query_terms q = Some ts
    /\ Permutation (flat_map read_content (sql_query (tables_of d ms) subs))
         (flat_map (fun ir => rec_results (snd ir)) (filter (rec_satisfies ts) (db_records d))).
Proof.
  intros Hdb Hwf Hlen Hq.
  destruct (sql_db_query d ms q ps Hwf Hlen Hq) as (subs & Hs & HP & Hdq).
  destruct (query_returns_exactly d q ps Hdb Hq) as (ts & Hts & Hex).
  exists subs, ts. split; [exact Hs|]. split; [exact Hts|].
  rewrite Hdq in Hex. injection Hex as E. rewrite <- E. exact HP.
Qed.

Theorem sql_listing_counts_matching_records d ms q ps limit :
  wf_db d -> wf_store d -> length ms = length d -> ups_increasing (t_uploads (tables_of d ms)) ->
  parse_query q = QOk ps ->
  exists subs ts, parts_sql ps = Some subs /\ query_terms q = Some ts
    /\ sql_list_uploads (tables_of d ms) subs limit
       = take_limit limit (filter (fun ic => negb (snd ic =? 0)%N) (map (upload_count ts) (rev d))).
Proof.
  intros Hdb Hwf Hlen Hinc Hq.
  destruct (parse_query_parts_sql q ps Hq) as [subs Hs].
  destruct (listing_counts_matching_records d q ps limit Hdb Hq) as (ts & Hts & Hl).
  exists subs, ts. split; [exact Hs|]. split; [exact Hts|].
  rewrite (sql_listing_is_list_uploads d ms ps subs limit Hwf Hlen Hinc Hs).
  unfold list_uploads in Hl. rewrite Hq in Hl. injection Hl as E. exact E.
Qed.
