(** Footnote marks and cell references of benchtab's renderings (Model/Render.v):
    - [superscript] is injective on every index below 10^20 (Go's buffer of 20
      runes; every Go int), multi-digit indices included, and a footnote cell
      "i j k" (marks joined by blanks) determines its list of indices;
    - [sheet_col] (spreadsheet column names A..Z, AA, ...) is injective below 26^10
      (ToCSV's 10-byte buffer);
    - [footnote] (ToText's warn closure): first-use numbering over a de-duplicated,
      only ever extended list. *)
From Perf Require Import Base.Bytes Model.Runes Model.TextTab Model.KeyHeader Model.Render.
Local Open Scope nat_scope.

(* ------------------------------------------------------------------ *)
(** ** decimal digits *)
Fixpoint digits (fuel i : nat) : list nat :=
  match fuel with
  | O => []
  | S f => if i =? 0 then [] else digits f (i / 10) ++ [i mod 10]
  end.

Definition value (ds : list nat) : nat := fold_left (fun a d => a * 10 + d) ds 0.

Lemma value_snoc ds d : value (ds ++ [d]) = value ds * 10 + d.
Proof. unfold value. rewrite fold_left_app. reflexivity. Qed.

Lemma digits_lt10 : forall f i, Forall (fun d => d < 10) (digits f i).
Proof.
  induction f as [|f IH]; intros i; cbn [digits]; [constructor|].
  destruct (i =? 0); [constructor|]. apply Forall_app. split; [apply IH|].
  constructor; [|constructor]. apply Nat.mod_upper_bound. lia.
Qed.

Lemma div_bound (k : nat) (p : N) i :
  1 < k -> (N.of_nat i < N.of_nat k * p)%N -> (N.of_nat (i / k) < p)%N.
Proof.
  intros Hk H. pose proof (Nat.div_mod i k ltac:(lia)) as E.
  assert (G : (N.of_nat k * N.of_nat (i / k) <= N.of_nat i)%N) by (rewrite <- Nat2N.inj_mul; lia).
  nia.
Qed.

Lemma digits_value : forall f i, (N.of_nat i < 10 ^ N.of_nat f)%N -> value (digits f i) = i.
Proof.
  induction f as [|f IH]; intros i H.
  - cbn in H. assert (i = 0) by lia. subst. reflexivity.
  - cbn [digits]. destruct (Nat.eqb_spec i 0) as [->|Hn]; [reflexivity|].
    rewrite value_snoc, IH.
    + pose proof (Nat.div_mod i 10 ltac:(lia)). lia.
    + rewrite Nat2N.inj_succ, N.pow_succ_r' in H. apply (div_bound 10); [lia|exact H].
Qed.

(* ------------------------------------------------------------------ *)
(** ** superscript *)
Definition sdigits (i : nat) : list nat := if i =? 0 then [0] else digits 20 i.

Lemma super_go_digits : forall f i acc, super_go f i acc = concat (map super_digit (digits f i)) ++ acc.
Proof.
  induction f as [|f IH]; intros i acc; cbn [super_go digits]; [reflexivity|].
  destruct (i =? 0); [reflexivity|].
  rewrite IH, map_app, concat_app. cbn [map concat]. rewrite app_nil_r, <- app_assoc. reflexivity.
Qed.

Lemma superscript_digits i : superscript i = concat (map super_digit (sdigits i)).
Proof.
  unfold superscript, sdigits. destruct (i =? 0).
  - cbn [map concat]. rewrite app_nil_r. reflexivity.
  - rewrite super_go_digits, app_nil_r. reflexivity.
Qed.

Lemma sdigits_lt10 i : Forall (fun d => d < 10) (sdigits i).
Proof. unfold sdigits. destruct (i =? 0); [repeat constructor|apply digits_lt10]. Qed.

Lemma sdigits_value i : (N.of_nat i < 10 ^ 20)%N -> value (sdigits i) = i.
Proof.
  intros H. unfold sdigits. destruct (Nat.eqb_spec i 0) as [->|Hn]; [reflexivity|].
  apply digits_value. exact H.
Qed.

Lemma sdigits_nonempty i : sdigits i <> [].
Proof.
  unfold sdigits. destruct (Nat.eqb_spec i 0) as [->|Hn]; [discriminate|].
  cbn [digits]. destruct (Nat.eqb_spec i 0); [contradiction|]. intros E. apply app_eq_nil in E as [_ E]. discriminate.
Qed.

Ltac ten x := destruct x as [|[|[|[|[|[|[|[|[|[|x]]]]]]]]]].

(** the ten superscript digits are a prefix code (they are distinct UTF-8 runes) *)
Lemma super_digit_prefix a b s t :
  a < 10 -> b < 10 -> super_digit a ++ s = super_digit b ++ t -> a = b /\ s = t.
Proof.
  intros Ha Hb H. ten a; try lia; ten b; try lia; cbn [super_digit app] in H;
    try discriminate; injection H as ->; split; reflexivity.
Qed.

Lemma super_digit_nonempty d : super_digit d <> [].
Proof. ten d; discriminate. Qed.

Lemma super_digit_nosp d : ~ In sp (super_digit d).
Proof. ten d; cbn [super_digit In]; intros H; repeat (destruct H as [H|H]; [discriminate|]); exact H. Qed.

Lemma concat_super_inj : forall ds es,
  Forall (fun d => d < 10) ds -> Forall (fun d => d < 10) es ->
  concat (map super_digit ds) = concat (map super_digit es) -> ds = es.
Proof.
  induction ds as [|d ds IH]; intros [|e es] Hd He H; cbn [map concat] in H.
  - reflexivity.
  - exfalso. symmetry in H. apply app_eq_nil in H as [H _]. exact (super_digit_nonempty e H).
  - exfalso. apply app_eq_nil in H as [H _]. exact (super_digit_nonempty d H).
  - inversion Hd; subst. inversion He; subst.
    destruct (super_digit_prefix d e _ _ ltac:(assumption) ltac:(assumption) H) as [-> H'].
    f_equal. apply IH; assumption.
Qed.

(** distinct indices give distinct mark strings (all indices below 10^20: every
    index Go's 20-rune buffer can hold, in particular every multi-digit one) *)
Theorem superscript_injective i j :
  (N.of_nat i < 10 ^ 20)%N -> (N.of_nat j < 10 ^ 20)%N -> superscript i = superscript j -> i = j.
Proof.
  intros Hi Hj H. rewrite !superscript_digits in H.
  apply concat_super_inj in H; [|apply sdigits_lt10|apply sdigits_lt10].
  rewrite <- (sdigits_value i Hi), <- (sdigits_value j Hj), H. reflexivity.
Qed.

Lemma superscript_nonempty i : superscript i <> [].
Proof.
  rewrite superscript_digits. pose proof (sdigits_nonempty i) as H.
  destruct (sdigits i) as [|d ds]; [congruence|]. cbn [map concat]. intros E.
  apply app_eq_nil in E as [E _]. exact (super_digit_nonempty d E).
Qed.

Lemma superscript_nosp i : ~ In sp (superscript i).
Proof.
  rewrite superscript_digits. induction (sdigits i) as [|d ds IH]; cbn [map concat]; [intros []|].
  intros H. apply in_app_or in H as [H|H]; [exact (super_digit_nosp d H)|exact (IH H)].
Qed.

(** multi-digit example: footnote 10 is "¹⁰", footnote 123 is "¹²³" *)
Example superscript_multi :
  superscript 10 = [xc2; xb9; xe2; x81; xb0] /\ superscript 123 = [xc2; xb9; xc2; xb2; xc2; xb3].
Proof. split; vm_compute; reflexivity. Qed.

(* ------------------------------------------------------------------ *)
(** ** a footnote cell determines its marks *)
Definition sp_tail (r : list bytes) : bytes := match r with [] => [] | _ => sp :: join_sp r end.

Lemma join_sp_cons x r : join_sp (x :: r) = x ++ sp_tail r.
Proof. destruct r; cbn [join_sp sp_tail]; [rewrite app_nil_r|]; reflexivity. Qed.

Lemma word_split : forall (x y s t : bytes),
  ~ In sp x -> ~ In sp y -> (s = [] \/ exists s', s = sp :: s') -> (t = [] \/ exists t', t = sp :: t') ->
  x ++ s = y ++ t -> x = y /\ s = t.
Proof.
  induction x as [|a x IH]; intros [|b y] s t Hx Hy Hs Ht H; cbn [app] in H.
  - split; [reflexivity|exact H].
  - exfalso. subst s. destruct Hs as [Hs|[s' Hs]]; [discriminate|]. injection Hs as -> _. apply Hy. left. reflexivity.
  - exfalso. subst t. destruct Ht as [Ht|[t' Ht]]; [discriminate|]. injection Ht as -> _. apply Hx. left. reflexivity.
  - injection H as <- H. destruct (IH y s t) as [-> ->]; try assumption.
    + intros Hi. apply Hx. right. exact Hi.
    + intros Hi. apply Hy. right. exact Hi.
    + split; reflexivity.
Qed.

Lemma join_sp_inj : forall xs ys,
  Forall (fun x => x <> [] /\ ~ In sp x) xs -> Forall (fun x => x <> [] /\ ~ In sp x) ys ->
  join_sp xs = join_sp ys -> xs = ys.
Proof.
  induction xs as [|x xs IH]; intros [|y ys] Hx Hy H.
  - reflexivity.
  - exfalso. inversion Hy as [|? ? [Hne _] _]; subst. rewrite join_sp_cons in H. cbn [join_sp] in H.
    symmetry in H. apply app_eq_nil in H as [H _]. contradiction.
  - exfalso. inversion Hx as [|? ? [Hne _] _]; subst. rewrite join_sp_cons in H. cbn [join_sp] in H.
    apply app_eq_nil in H as [H _]. contradiction.
  - inversion Hx as [|? ? [_ Nx] Hxs]; subst. inversion Hy as [|? ? [_ Ny] Hys]; subst.
    rewrite !join_sp_cons in H.
    destruct (word_split x y (sp_tail xs) (sp_tail ys) Nx Ny) as [-> Ht]; try exact H.
    + destruct xs; [left; reflexivity|right; eexists; reflexivity].
    + destruct ys; [left; reflexivity|right; eexists; reflexivity].
    + f_equal. destruct xs as [|x' xs'], ys as [|y' ys']; cbn [sp_tail] in Ht; try discriminate; [reflexivity|].
      injection Ht as Ht. apply IH; assumption.
Qed.

Definition marks_text (marks : list nat) : bytes := join_sp (map superscript marks).

Theorem marks_text_injective a b :
  Forall (fun i => (N.of_nat i < 10 ^ 20)%N) a -> Forall (fun i => (N.of_nat i < 10 ^ 20)%N) b ->
  marks_text a = marks_text b -> a = b.
Proof.
  intros Ha Hb H. unfold marks_text in H. apply join_sp_inj in H.
  - revert b Hb H. induction Ha as [|i a Hi Ha IH]; intros [|j b] Hb H; cbn [map] in H; try discriminate; [reflexivity|].
    injection H as H1 H2. inversion Hb; subst. f_equal; [apply superscript_injective; assumption|apply IH; assumption].
  - apply Forall_forall. intros x Hx. apply in_map_iff in Hx as [i [<- _]]. split; [apply superscript_nonempty|apply superscript_nosp].
  - apply Forall_forall. intros x Hx. apply in_map_iff in Hx as [i [<- _]]. split; [apply superscript_nonempty|apply superscript_nosp].
Qed.

(* ------------------------------------------------------------------ *)
(** ** spreadsheet column names *)
Definition sheet_char (n : nat) : byte :=
  match Byte.of_N (65 + N.of_nat (n mod 26)) with Some b => b | None => x41 end.

Fixpoint sheet_str (fuel n : nat) : bytes :=
  match fuel with
  | O => []
  | S f => if n <? 26 then [sheet_char n] else sheet_str f (n / 26 - 1) ++ [sheet_char n]
  end.

Lemma sheet_go_str : forall f n acc, sheet_go f n acc = sheet_str f n ++ acc.
Proof.
  induction f as [|f IH]; intros n acc; cbn [sheet_go sheet_str]; [reflexivity|].
  fold (sheet_char n). destruct (n <? 26); [reflexivity|]. rewrite IH, <- app_assoc. reflexivity.
Qed.

Lemma sheet_col_str n : sheet_col n = sheet_str 10 n.
Proof. unfold sheet_col. rewrite sheet_go_str, app_nil_r. reflexivity. Qed.

Lemma sheet_char_inj a b : a < 26 -> b < 26 -> sheet_char a = sheet_char b -> a = b.
Proof.
  intros Ha Hb H. unfold sheet_char in H. rewrite !Nat.mod_small in H by assumption.
  assert (G : forall x, x < 26 -> exists c, Byte.of_N (65 + N.of_nat x) = Some c /\ Byte.to_N c = (65 + N.of_nat x)%N).
  { intros x Hx. destruct (Byte.of_N (65 + N.of_nat x)) as [c|] eqn:E.
    - exists c. split; [reflexivity|]. apply Byte.to_of_N. exact E.
    - exfalso. apply Byte.of_N_None_iff in E. lia. }
  destruct (G a Ha) as [ca [Ea Ta]]. destruct (G b Hb) as [cb [Eb Tb]].
  rewrite Ea, Eb in H. subst cb. rewrite Ta in Tb. lia.
Qed.

(** enough fuel: [f] letters name the columns below 26 + 26^2 + ... + 26^f *)
Fixpoint gbound (f : nat) : N := match f with O => 0%N | S f => (26 * (gbound f + 1))%N end.

Lemma sheet_str_nonempty : forall f n, (N.of_nat n < gbound f)%N -> sheet_str f n <> [].
Proof.
  intros [|f] n H.
  - cbn [gbound] in H. lia.
  - cbn [sheet_str]. destruct (n <? 26); [discriminate|]. intros E. apply app_eq_nil in E as [_ E]. discriminate.
Qed.

Lemma sheet_step_bound (p : N) n : 26 <= n -> (N.of_nat n < 26 * (p + 1))%N -> (N.of_nat (n / 26 - 1) < p)%N.
Proof.
  intros Hn H. pose proof (div_bound 26 (p + 1) n ltac:(lia) H) as G.
  assert (1 <= n / 26) by (apply Nat.div_le_lower_bound; lia). lia.
Qed.

Lemma sheet_str_inj : forall f n m,
  (N.of_nat n < gbound f)%N -> (N.of_nat m < gbound f)%N -> sheet_str f n = sheet_str f m -> n = m.
Proof.
  induction f as [|f IH]; intros n m Hn Hm H.
  - cbn [gbound] in Hn. lia.
  - cbn [gbound] in Hn, Hm. cbn [sheet_str] in H.
    assert (Hc : forall a b, sheet_char a = sheet_char b -> a mod 26 = b mod 26).
    { intros a b E. apply sheet_char_inj; try (apply Nat.mod_upper_bound; lia).
      unfold sheet_char in *. rewrite !Nat.mod_mod by lia. exact E. }
    destruct (Nat.ltb_spec n 26) as [Ln|Ln], (Nat.ltb_spec m 26) as [Lm|Lm].
    + injection H as H. apply Hc in H. rewrite !Nat.mod_small in H by assumption. exact H.
    + exfalso. destruct (sheet_str f (m / 26 - 1)) as [|b0 l0] eqn:E; [|destruct l0; discriminate].
      exact (sheet_str_nonempty f _ (sheet_step_bound _ m Lm Hm) E).
    + exfalso. destruct (sheet_str f (n / 26 - 1)) as [|b0 l0] eqn:E; [|destruct l0; discriminate].
      exact (sheet_str_nonempty f _ (sheet_step_bound _ n Ln Hn) E).
    + apply app_inj_tail in H as [H1 H2]. apply Hc in H2.
      apply IH in H1; [|apply sheet_step_bound; assumption|apply sheet_step_bound; assumption].
      pose proof (Nat.div_mod n 26 ltac:(lia)). pose proof (Nat.div_mod m 26 ltac:(lia)).
      assert (1 <= n / 26) by (apply Nat.div_le_lower_bound; lia).
      assert (1 <= m / 26) by (apply Nat.div_le_lower_bound; lia).
      lia.
Qed.

(** the columns ToCSV's 10-byte name buffer certainly holds *)
Definition sheet_ok (n : nat) : Prop := (N.of_nat n < 26 ^ 10)%N.

Lemma sheet_ok_gbound n : sheet_ok n -> (N.of_nat n < gbound 10)%N.
Proof. unfold sheet_ok. intros H. eapply N.lt_le_trans; [exact H|]. vm_compute. discriminate. Qed.

(** distinct CSV columns have distinct names *)
Theorem sheet_col_injective n m : sheet_ok n -> sheet_ok m -> sheet_col n = sheet_col m -> n = m.
Proof.
  intros Hn Hm H. rewrite !sheet_col_str in H.
  apply (sheet_str_inj 10); [apply sheet_ok_gbound| apply sheet_ok_gbound|]; assumption.
Qed.

Lemma sheet_ok_le n m : sheet_ok n -> m <= n -> sheet_ok m.
Proof. unfold sheet_ok. lia. Qed.

(* ------------------------------------------------------------------ *)
(** ** the footnote list *)
Lemma index_of_some m : forall l i, index_of m l = Some i -> nth_error l i = Some m.
Proof.
  induction l as [|x l IH]; intros i H; cbn [index_of] in H; [discriminate|].
  destruct (beq_spec x m) as [->|Hn].
  - injection H as <-. reflexivity.
  - destruct (index_of m l) as [j|]; [|discriminate]. injection H as <-. cbn [nth_error]. apply IH. reflexivity.
Qed.

Lemma index_of_none m : forall l, index_of m l = None -> ~ In m l.
Proof.
  induction l as [|x l IH]; intros H; cbn [index_of] in H; [intros []|].
  destruct (beq_spec x m) as [->|Hn]; [discriminate|].
  destruct (index_of m l) as [j|]; [discriminate|]. intros [E|E]; [contradiction|]. exact (IH eq_refl E).
Qed.

Lemma index_of_in m : forall l, In m l -> exists i, index_of m l = Some i.
Proof.
  intros l H. destruct (index_of m l) as [i|] eqn:E; [exists i; reflexivity|].
  exfalso. exact (index_of_none m l E H).
Qed.

(** the number of a footnote (1-based) denotes an entry of the numbered list *)
Definition denote (wl : list bytes) (i : nat) : option bytes :=
  match i with O => None | S j => nth_error wl j end.

Definition prefix (a b : list bytes) : Prop := exists x, b = a ++ x.

Lemma prefix_refl a : prefix a a.
Proof. exists []. rewrite app_nil_r. reflexivity. Qed.
Lemma prefix_trans a b c : prefix a b -> prefix b c -> prefix a c.
Proof. intros [x ->] [y ->]. exists (x ++ y). rewrite app_assoc. reflexivity. Qed.

Lemma denote_prefix wl wl' i m : denote wl i = Some m -> prefix wl wl' -> denote wl' i = Some m.
Proof.
  intros H [x ->]. destruct i as [|j]; [discriminate|]. cbn [denote] in *.
  rewrite nth_error_app1; [exact H|]. apply nth_error_Some. congruence.
Qed.

Lemma map_denote_prefix wl wl' marks msgs :
  map (denote wl) marks = map Some msgs -> prefix wl wl' -> map (denote wl') marks = map Some msgs.
Proof.
  revert msgs; induction marks as [|i marks IH]; intros [|m msgs] H P; cbn [map] in *; try discriminate; [reflexivity|].
  injection H as H1 H2. f_equal; [eapply denote_prefix; eassumption|apply IH; assumption].
Qed.

Lemma NoDup_app_snoc {A} (l : list A) m : NoDup l -> ~ In m l -> NoDup (l ++ [m]).
Proof.
  induction l as [|x l IH]; intros Hn Hm; cbn [app]; [repeat constructor; intros []|].
  inversion Hn as [|? ? Hx Hl]; subst. constructor.
  - rewrite in_app_iff. cbn [In]. intros [H|[H|[]]]; [contradiction|]. apply Hm. left. symmetry. exact H.
  - apply IH; [exact Hl|]. intros H. apply Hm. right. exact H.
Qed.

(** ToText's warn: number by first occurrence *)
Definition fstep (st : list bytes * list nat) (m : bytes) : list bytes * list nat :=
  match index_of m (fst st) with
  | Some i => (fst st, snd st ++ [S i])
  | None => (fst st ++ [m], snd st ++ [S (length (fst st))])
  end.

Lemma footnote_fold msgs : forall wl ns,
  fold_left (fun '(wl, notes) m =>
      match index_of m wl with
      | Some i => (wl, notes ++ [superscript (S i)])
      | None => (wl ++ [m], notes ++ [superscript (S (length wl))])
      end) msgs (wl, map superscript ns)
  = (fst (fold_left fstep msgs (wl, ns)), map superscript (snd (fold_left fstep msgs (wl, ns)))).
Proof.
  induction msgs as [|m msgs IH]; intros wl ns; cbn [fold_left]; [reflexivity|].
  unfold fstep at 2 4. cbn [fst snd].
  destruct (index_of m wl) as [i|].
  - rewrite <- IH, map_app. reflexivity.
  - rewrite <- IH, map_app. reflexivity.
Qed.

Definition fnotes (wl : list bytes) (msgs : list bytes) : list bytes * list nat := fold_left fstep msgs (wl, []).

Lemma footnote_marks wl msgs :
  footnote wl msgs = (fst (fnotes wl msgs), marks_text (snd (fnotes wl msgs))).
Proof.
  unfold footnote, fnotes, marks_text.
  pose proof (footnote_fold msgs wl []) as E. cbn [map] in E. rewrite E. reflexivity.
Qed.

Lemma fstep_fold_spec : forall msgs wl ns,
  let st := fold_left fstep msgs (wl, ns) in
  prefix wl (fst st) /\ (NoDup wl -> NoDup (fst st)) /\
  (forall m, In m (fst st) <-> In m wl \/ In m msgs) /\
  exists new, snd st = ns ++ new /\ map (denote (fst st)) new = map Some msgs /\
              Forall (fun i => 1 <= i <= length (fst st)) new.
Proof.
  induction msgs as [|m msgs IH]; intros wl ns; cbn [fold_left]; cbn zeta.
  - cbn [fst snd]. split; [apply prefix_refl|]. split; [auto|]. split; [intros m; cbn [In]; tauto|].
    exists []. rewrite app_nil_r. repeat split. constructor.
  - assert (Es : fstep (wl, ns) m = match index_of m wl with
                                     | Some i => (wl, ns ++ [S i])
                                     | None => (wl ++ [m], ns ++ [S (length wl)]) end) by reflexivity.
    rewrite Es. clear Es. destruct (index_of m wl) as [i|] eqn:E.
    + specialize (IH wl (ns ++ [S i])). cbn zeta in IH. destruct IH as [P [ND [Hin [new [E1 [E2 E3]]]]]].
      set (st := fold_left fstep msgs (wl, ns ++ [S i])) in *.
      split; [exact P|]. split; [exact ND|]. split.
      * intros x. rewrite Hin. cbn [In]. pose proof (index_of_some m wl i E) as Hm. apply nth_error_In in Hm.
        split; [tauto|]. intros [H|[<-|H]]; tauto.
      * exists (S i :: new). rewrite E1, <- app_assoc. split; [reflexivity|]. split.
        -- cbn [map]. rewrite E2. f_equal. eapply denote_prefix; [|exact P]. cbn [denote]. apply index_of_some. exact E.
        -- constructor; [|exact E3]. pose proof (index_of_some m wl i E) as Hm.
           assert (i < length wl) by (apply nth_error_Some; congruence).
           destruct P as [x Px]. rewrite Px, app_length. lia.
    + specialize (IH (wl ++ [m]) (ns ++ [S (length wl)])). cbn zeta in IH.
      destruct IH as [P [ND [Hin [new [E1 [E2 E3]]]]]].
      set (st := fold_left fstep msgs (wl ++ [m], ns ++ [S (length wl)])) in *.
      assert (P' : prefix wl (fst st)) by (eapply prefix_trans; [exists [m]; reflexivity|exact P]).
      split; [exact P'|]. split.
      * intros Hnd. apply ND. apply NoDup_app_snoc; [exact Hnd|]. apply index_of_none. exact E.
      * split.
        -- intros x. rewrite Hin, in_app_iff. cbn [In]. tauto.
        -- exists (S (length wl) :: new). rewrite E1, <- app_assoc. split; [reflexivity|]. split.
           ++ cbn [map]. rewrite E2. f_equal. eapply denote_prefix; [|exact P]. cbn [denote].
              rewrite nth_error_app2 by lia. rewrite Nat.sub_diag. reflexivity.
           ++ constructor; [|exact E3]. destruct P as [x Px]. rewrite Px, !app_length. cbn [length]. lia.
Qed.
