(** The reader's scanners are sound and complete for the declarative grammar
    of Model/ReaderSpec.v, for fields, measurements, benchmark lines, the
    key=value items of unit lines, and the classification of a line (given the
    same for key/value lines, hypothesis [Hkv] of Section Classify):

      - [fields_iff], [fields_Tokens], [Tokens_functional];
      - [parse_vals_iff];
      - [parse_bench_iff];
      - [parse_unit_field_iff], [unit_rest_sound], [unit_rest_complete],
        [unit_rest_iff];
      - [classify_iff], [LineKind_functional], [LineKind_total]. *)
From Perf Require Import Base.Bytes Base.B64 Base.Utf8 Base.Unicode Model.Name Model.Extract Model.Units
  Model.Reader Model.Files Model.Writer Model.ReaderSpec Proofs.Units Proofs.WriterLines Proofs.ReaderFields.
Local Open Scope N_scope.

(** an ASCII string in front decodes byte by byte *)
Lemma runes_ascii_app s t : forallb is_ascii s = true -> runes (s ++ t) = achunks s ++ runes t.
Proof.
  induction s as [|x s IH]; intros H; [reflexivity|].
  cbn [forallb] in H. apply andb_true_iff in H as [Hx Hs]. cbn [app].
  pose proof (runes_app_ascii [] x (s ++ t) Hx) as E. rewrite runes_nil in E. cbn [app] in E. rewrite E.
  cbn [achunks map app]. unfold achunk at 1. f_equal. now apply IH.
Qed.

Lemma skipn_app_cons {A} (a : list A) x b : skipn (S (length a)) (a ++ x :: b) = b.
Proof. induction a as [|y a IH]; [reflexivity|]. cbn [length app]. exact IH. Qed.

Section S.
Variables is_space is_lower is_upper : N -> bool.
Variable atoi : bytes -> option Z.
Variable parse_float : bytes -> option b64.

Notation fspace := (fspace is_space).
Notation nsp := (nsp is_space).
Notation starts_sp := (starts_sp is_space).
Notation white := (white is_space).
Notation is_white := (is_white is_space).
Notation is_black := (is_black is_space).
Notation ends_field := (ends_field is_space).
Notation Tokens := (Tokens is_space).
Notation fields := (fields is_space).
Notation Meas := (Meas is_space parse_float).
Notation BenchFields := (BenchFields is_space atoi parse_float).
Notation BenchLine := (BenchLine is_space atoi parse_float).
Notation UnitLine := (UnitLine is_space).
Notation IsUnit := (IsUnit is_space).
Notation parse_vals := (parse_vals is_space parse_float).
Notation parse_bench := (parse_bench is_space atoi parse_float).
Notation atof := (atof parse_float).
Notation pair_fields := ReaderSpec.pair_fields.

(** ** 0. the grammar's white space is splitField's *)
Lemma white_fspace' r : white r = fspace r.
Proof.
  unfold ReaderSpec.white, Reader.fspace, ascii_space. destruct (r <? 128); [|reflexivity].
  destruct (N.eqb_spec r 9) as [->|H9]; [reflexivity|].
  destruct (N.eqb_spec r 10) as [->|H10]; [reflexivity|].
  destruct (N.eqb_spec r 11) as [->|H11]; [reflexivity|].
  destruct (N.eqb_spec r 12) as [->|H12]; [reflexivity|].
  destruct (N.eqb_spec r 13) as [->|H13]; [reflexivity|].
  destruct (N.eqb_spec r 32) as [->|H32]; [reflexivity|].
  cbn [orb]. destruct (N.leb_spec 9 r); [|reflexivity].
  destruct (N.leb_spec r 13); [lia|reflexivity].
Qed.

Lemma is_white_fspace c : is_white c <-> fspace (fst c) = true.
Proof. unfold ReaderSpec.is_white. now rewrite white_fspace'. Qed.

Lemma is_black_fspace c : is_black c <-> fspace (fst c) = false.
Proof. unfold ReaderSpec.is_black. now rewrite white_fspace'. Qed.

Lemma black_nsp l : Forall is_black l <-> nsp l.
Proof.
  unfold WriterLines.nsp. split; intros H; (eapply Forall_impl; [|exact H]); intros c Hc; now apply is_black_fspace.
Qed.

Lemma white_not_black c : is_white c -> is_black c -> False.
Proof. unfold ReaderSpec.is_white, ReaderSpec.is_black. congruence. Qed.

Lemma white_or_black c : is_white c \/ is_black c.
Proof. unfold ReaderSpec.is_white, ReaderSpec.is_black. destruct (white (fst c)); auto. Qed.

Lemma ends_starts l : ends_field l <-> starts_sp l.
Proof.
  unfold WriterLines.starts_sp. destruct l as [|c l]; cbn [ReaderSpec.ends_field].
  - split; auto.
  - rewrite is_white_fspace. split.
    + intros H. right. eauto.
    + intros [E|(c' & l' & [= -> ->] & H)]; [discriminate|exact H].
Qed.

(** a run of black runes in front of white space (or the end) is determined *)
Lemma black_split_unique f : forall f' l l',
  Forall is_black f -> Forall is_black f' -> ends_field l -> ends_field l' ->
  f ++ l = f' ++ l' -> f = f' /\ l = l'.
Proof.
  induction f as [|c f IH]; intros f' l l' Hf Hf' Hl Hl' E.
  - destruct f' as [|c' f']; [auto|]. cbn [app] in E. subst l. cbn in Hl.
    inversion Hf'; subst. exfalso. eapply white_not_black; eauto.
  - destruct f' as [|c' f'].
    + cbn [app] in E. subst l'. cbn in Hl'. inversion Hf; subst. exfalso. eapply white_not_black; eauto.
    + cbn [app] in E. injection E as -> E. inversion Hf; subst. inversion Hf'; subst.
      destruct (IH f' l l') as [-> ->]; auto.
Qed.

(** ** 1. fields *)
Theorem fields_iff l fs : Tokens l fs -> fields l = map flat fs.
Proof.
  unfold Reader.fields. induction 1 as [|c l fs Hc _ IH|f l fs Hne Hf Hl _ IH].
  - reflexivity.
  - cbn [fields_acc]. apply is_white_fspace in Hc. rewrite Hc. exact IH.
  - rewrite fields_acc_nsp by (now apply black_nsp).
    replace (negb (is_nil f)) with true by (destruct f; [congruence|reflexivity]). cbn [orb].
    rewrite fields_flush by (now apply ends_starts). rewrite frev_rev_append. cbn [map]. now rewrite IH.
Qed.

Lemma Tokens_total l : exists fs, Tokens l fs.
Proof.
  induction l as [|c l [fs IH]]; [exists []; constructor|].
  destruct (white_or_black c) as [Hc|Hc]; [exists fs; now constructor|].
  inversion IH as [|w l' fs' Hw Ht|f l' fs' Hne Hf Hl Ht]; subst.
  - exists [[c]]. apply (Tok_field is_space [c] [] []); [discriminate|now constructor|exact I|constructor].
  - exists ([c] :: fs). apply (Tok_field is_space [c] (w :: l') fs); [discriminate|now constructor|exact Hw|exact IH].
  - exists ((c :: f) :: fs'). apply (Tok_field is_space (c :: f) l' fs'); [discriminate|now constructor|exact Hl|exact Ht].
Qed.

Theorem fields_Tokens l : exists fs, Tokens l fs /\ fields l = map flat fs.
Proof. destruct (Tokens_total l) as [fs H]. exists fs. split; [exact H|now apply fields_iff]. Qed.

Theorem Tokens_functional l fs fs' : Tokens l fs -> Tokens l fs' -> fs = fs'.
Proof.
  intros H. revert fs'. induction H as [|c l fs Hc _ IH|f l fs Hne Hf Hl _ IH]; intros fs' H'.
  - inversion H' as [|? ? ? ? ? E|f' l' ? Hne' ? ? ? E]; subst; [reflexivity|].
    destruct f'; [congruence|discriminate].
  - inversion H' as [|? ? ? ? ? E|f' l' ? Hne' Hf' ? ? E]; subst; [auto|].
    destruct f' as [|c' f']; [congruence|]. cbn [app] in E. injection E as -> _.
    inversion Hf'; subst. exfalso. eapply white_not_black; eauto.
  - inversion H' as [E|c' l' ? Hc' ? E|f' l' fs'' Hne' Hf' Hl' Ht' E]; subst.
    + destruct f; [congruence|discriminate].
    + destruct f as [|c f]; [congruence|]. cbn [app] in E. injection E as -> _.
      inversion Hf; subst. exfalso. eapply white_not_black; eauto.
    + destruct (black_split_unique f' f l' l Hf' Hf Hl' Hl E) as [-> ->]. f_equal. auto.
Qed.

(** leading white space does not matter to the fields *)
Lemma fields_drop_space r : fields (drop_space is_space r) = fields r.
Proof.
  unfold Reader.fields. induction r as [|c r IH]; [reflexivity|]. cbn [drop_space fields_acc].
  destruct (fspace (fst c)) eqn:Ec; [exact IH|]. cbn [fields_acc]. now rewrite Ec.
Qed.

(** ** 2. measurements *)
(** the result of the measurements with [acc] already read *)
Definition mcond (acc : list value) (ps : list (bytes * bytes)) (xs : list b64) (tail : list bytes)
           (r : errkind + list value) : Prop :=
  match tail with
  | [] => r = if is_nil acc && is_nil ps then inl EMissingMeas else inr (acc ++ values_of is_space xs ps)
  | v :: tl => match atof v with None => r = inl EBadMeas | Some _ => tl = [] /\ r = inl EMissingUnit end
  end.

Definition MeasAcc (acc : list value) (ms : list bytes) (r : errkind + list value) : Prop :=
  exists ps xs tail, ms = concat (map pair_fields ps) ++ tail /\
    Forall2 (fun p x => atof (fst p) = Some x) ps xs /\ mcond acc ps xs tail r.

Lemma Meas_MeasAcc ms r : Meas ms r <-> MeasAcc [] ms r.
Proof.
  unfold ReaderSpec.Meas, MeasAcc, mcond.
  split; intros (ps & xs & tail & E & HF & H); exists ps, xs, tail; (split; [exact E|split; [exact HF|]]);
    destruct tail; auto; destruct ps; exact H.
Qed.

Lemma values_of_cons x xs p ps :
  values_of is_space (x :: xs) (p :: ps) = read_value is_space x (snd p) :: values_of is_space xs ps.
Proof. reflexivity. Qed.

Lemma mcond_step acc p ps x xs tail r :
  mcond (acc ++ [read_value is_space x (snd p)]) ps xs tail r <-> mcond acc (p :: ps) (x :: xs) tail r.
Proof.
  unfold mcond. destruct tail; [|reflexivity].
  rewrite values_of_cons, <- app_assoc. cbn [app is_nil andb].
  replace (is_nil (acc ++ [read_value is_space x (snd p)])) with false by (destruct acc; reflexivity).
  rewrite andb_false_r. cbn [andb]. reflexivity.
Qed.

Lemma parse_vals_sound n : forall ms acc, (length ms <= n)%nat -> MeasAcc acc ms (parse_vals ms acc).
Proof.
  induction n as [|n IH]; intros ms acc Hl.
  - destruct ms; [|cbn in Hl; lia]. exists [], [], []. split; [reflexivity|]. split; [constructor|].
    cbn [Reader.parse_vals mcond]. unfold values_of. cbn. rewrite app_nil_r, andb_true_r. destruct acc; reflexivity.
  - destruct ms as [|f [|u ms]]; cbn [Reader.parse_vals].
    + exists [], [], []. split; [reflexivity|]. split; [constructor|].
      cbn [mcond]. unfold values_of. cbn. rewrite app_nil_r, andb_true_r. destruct acc; reflexivity.
    + exists [], [], [f]. split; [reflexivity|]. split; [constructor|]. cbn [mcond].
      destruct (atof f); auto.
    + destruct (atof f) as [x|] eqn:Ef.
      * destruct (IH ms (acc ++ [read_value is_space x u])) as (ps & xs & tail & E & HF & H); [cbn [length] in Hl; lia|].
        exists ((f, u) :: ps), (x :: xs), tail. split; [rewrite E; reflexivity|].
        split; [constructor; [exact Ef|exact HF]|]. apply mcond_step. exact H.
      * exists [], [], (f :: u :: ms). split; [reflexivity|]. split; [constructor|]. cbn [mcond]. now rewrite Ef.
Qed.

Lemma parse_vals_complete ps : forall xs acc tail r,
  Forall2 (fun p x => atof (fst p) = Some x) ps xs -> mcond acc ps xs tail r ->
  parse_vals (concat (map pair_fields ps) ++ tail) acc = r.
Proof.
  induction ps as [|p ps IH]; intros xs acc tail r HF H.
  - inversion HF; subst. cbn [map concat app]. unfold mcond in H. destruct tail as [|v tl].
    + subst r. cbn [Reader.parse_vals]. unfold values_of. cbn. rewrite app_nil_r, andb_true_r. destruct acc; reflexivity.
    + cbn [Reader.parse_vals]. destruct (atof v); [|now subst]. destruct H as [-> ->]. reflexivity.
  - inversion HF as [|? x ? xs' Hp HF']; subst. cbn [map concat pair_fields app Reader.parse_vals].
    rewrite Hp. apply (IH xs'); [exact HF'|]. apply mcond_step. exact H.
Qed.

Lemma parse_vals_acc_iff ms acc r : parse_vals ms acc = r <-> MeasAcc acc ms r.
Proof.
  split.
  - intros <-. apply (parse_vals_sound (length ms)). lia.
  - intros (ps & xs & tail & -> & HF & H). eapply parse_vals_complete; eauto.
Qed.

Theorem parse_vals_iff ms r : parse_vals ms [] = r <-> Meas ms r.
Proof. rewrite Meas_MeasAcc. apply parse_vals_acc_iff. Qed.

(** ** 3. the benchmark line *)
(** the fields behind the name, as [parse_bench] reads them *)
Definition bfields (name : bytes) (fl : list bytes) : bench_out :=
  match fl with
  | [] => BErr EMissingIters
  | f :: fs =>
      match atoi f with
      | None => BErr EBadIters
      | Some iters => match parse_vals fs [] with inl k => BErr k | inr vals => BOk name iters vals end
      end
  end.

Lemma BenchFields_iff name fl o : BenchFields name fl o <-> bfields name fl = o.
Proof.
  split.
  - intros H. destruct H as [|f ms Hf|f it ms k Hf Hm|f it ms vals Hf Hm]; cbn [bfields]; try rewrite Hf; try reflexivity.
    + apply parse_vals_iff in Hm. now rewrite Hm.
    + apply parse_vals_iff in Hm. now rewrite Hm.
  - intros <-. destruct fl as [|f fs]; cbn [bfields]; [constructor|].
    destruct (atoi f) as [it|] eqn:Hf; [|now constructor].
    destruct (parse_vals fs []) as [k|vals] eqn:Hm; apply parse_vals_iff in Hm.
    + eapply BF_bad; eauto.
    + eapply BF_ok; eauto.
Qed.

Lemma parse_bench_eq rest :
  parse_bench rest =
  let '(f, r0) := take_field is_space (runes rest) in
  if is_nil (drop_space is_space r0) && (length (flat f) =? length rest)%nat then BSkip
  else bfields (flat f) (fields (drop_space is_space r0)).
Proof.
  unfold Reader.parse_bench, split_field, bfields.
  destruct (take_field is_space (runes rest)) as [f r0]. reflexivity.
Qed.

Lemma black_no_white name w l : Forall is_black (name ++ w :: l) -> is_white w -> False.
Proof.
  intros H Hw. apply Forall_app in H as [_ H]. inversion H; subst. eapply white_not_black; eauto.
Qed.

Theorem parse_bench_iff rest o : parse_bench rest = o <-> BenchLine rest o.
Proof.
  rewrite parse_bench_eq. destruct (take_field is_space (runes rest)) as [f r0] eqn:Et.
  destruct (take_field_inv _ _ _ _ Et) as (El & Hnf & Hsr).
  apply black_nsp in Hnf. pose proof (flat_runes rest) as Hfl.
  destruct Hsr as [->|(w & l & -> & Hw)].
  - (* the name and nothing else *)
    rewrite app_nil_r in El. rewrite El in Hfl. rewrite Hfl, Nat.eqb_refl. cbn [drop_space is_nil andb].
    split.
    + intros <-. apply BL_skip. now rewrite El.
    + intros H. destruct H as [|name w l fs o E _ Hw _ _]; [reflexivity|].
      exfalso. rewrite El in E. rewrite E in Hnf. eapply black_no_white; eauto.
  - apply is_white_fspace in Hw.
    assert (Hlen : (length (flat f) =? length rest)%nat = false).
    { apply Nat.eqb_neq. rewrite <- Hfl, El, flat_app, flat_cons, !app_length.
      pose proof (runes_chunks_nonempty rest) as Hne. rewrite El in Hne.
      apply Forall_app in Hne as [_ Hne]. inversion Hne as [|? ? Hwn _]; subst.
      apply nonempty_len in Hwn. destruct w as [rw bw]. cbn [snd] in *. lia. }
    rewrite Hlen, andb_false_r.
    assert (Hfs : fields (drop_space is_space (w :: l)) = fields l).
    { rewrite fields_drop_space. unfold Reader.fields. cbn [fields_acc].
      apply is_white_fspace in Hw. now rewrite Hw. }
    rewrite Hfs. destruct (fields_Tokens l) as (fs & Ht & Ef). rewrite Ef.
    split.
    + intros <-. eapply BL_fields; eauto. now apply BenchFields_iff.
    + intros H. destruct H as [Hb|name w' l' fs' o E Hname Hw' Ht' Hbf].
      * exfalso. rewrite El in Hb. eapply black_no_white; eauto.
      * rewrite El in E.
        destruct (black_split_unique f name (w :: l) (w' :: l') Hnf Hname Hw Hw' E) as [<- [= <- <-]].
        rewrite (Tokens_functional _ _ _ Ht Ht'). now apply BenchFields_iff.
Qed.

(** ** 4. unit lines *)
Lemma parse_unit_field_iff f k v : parse_unit_field f = UFKV k v <-> UnitItem f k v.
Proof.
  split; [apply parse_unit_field_inv|]. intros (-> & Hk & Hn).
  unfold parse_unit_field. rewrite index_byte_app_notin by exact Hn.
  destruct k as [|b k]; [congruence|]. cbn [length].
  change (S (length k)) with (length (b :: k)). now rewrite firstn_app_exact, skipn_app_cons.
Qed.

(** the classifier's test for a unit line: what stands behind "Unit" *)
Definition unit_rest (line : bytes) : option (list chunk) :=
  match line with
  | c :: _ =>
      if Byte.eqb c x55 then
        let '(f, rest) := split_field is_space (runes line) in
        if beq f (bs "Unit") then Some rest else None
      else None
  | [] => None
  end.

Lemma unit_rest_eq line :
  unit_rest line = let '(f, r0) := take_field is_space (runes line) in
                   if beq (flat f) (bs "Unit") then Some (drop_space is_space r0) else None.
Proof.
  unfold unit_rest, split_field. destruct (take_field is_space (runes line)) as [f r0] eqn:Et.
  destruct (take_field_inv _ _ _ _ Et) as (El & _ & _).
  pose proof (flat_runes line) as Hfl. rewrite El, flat_app in Hfl.
  destruct (beq_spec (flat f) (bs "Unit")) as [E|_].
  - rewrite E in Hfl. subst line. reflexivity.
  - destruct line as [|c line]; [reflexivity|]. destruct (Byte.eqb c x55); reflexivity.
Qed.

Lemma nsp_Unit : nsp (achunks (bs "Unit")).
Proof. repeat constructor. Qed.

Theorem unit_rest_sound line r : unit_rest line = Some r ->
  exists fs, UnitLine line fs /\ fields r = map flat fs.
Proof.
  rewrite unit_rest_eq. destruct (take_field is_space (runes line)) as [f r0] eqn:Et.
  destruct (take_field_inv _ _ _ _ Et) as (El & _ & Hsr).
  destruct (beq_spec (flat f) (bs "Unit")) as [E|_]; [|discriminate]. intros [= <-].
  pose proof (flat_runes line) as Hfl. rewrite El, flat_app, E in Hfl.
  destruct Hsr as [->|(w & l & -> & Hw)].
  - exists []. split; [left; split; [|reflexivity]|reflexivity]. rewrite <- Hfl. apply app_nil_r.
  - rewrite fields_drop_space. destruct (fields_Tokens l) as (fs & Ht & Ef). exists fs. split.
    + right. exists (flat (w :: l)), w, l. split; [now rewrite Hfl|]. split; [|split; [now apply is_white_fspace|exact Ht]].
      apply runes_wf. pose proof (wf_runes line) as Hwf. rewrite El in Hwf. now apply wf_app_r in Hwf.
    + unfold Reader.fields. cbn [fields_acc]. rewrite Hw. exact Ef.
Qed.

Theorem unit_rest_complete line fs : UnitLine line fs ->
  exists r, unit_rest line = Some r /\ fields r = map flat fs.
Proof.
  rewrite unit_rest_eq. intros [[-> ->]|(rest & w & l & -> & Er & Hw & Ht)].
  - exists []. split; reflexivity.
  - rewrite runes_ascii_app by reflexivity. rewrite Er. apply is_white_fspace in Hw.
    rewrite take_field_nsp by (exact nsp_Unit || exact Hw). rewrite flat_achunks.
    exists (drop_space is_space (w :: l)). split; [reflexivity|].
    rewrite fields_drop_space. unfold Reader.fields. cbn [fields_acc]. rewrite Hw. now apply fields_iff.
Qed.

Theorem unit_rest_iff line : (exists r, unit_rest line = Some r) <-> IsUnit line.
Proof.
  split.
  - intros [r H]. destruct (unit_rest_sound _ _ H) as (fs & Hu & _). now exists fs.
  - intros [fs H]. destruct (unit_rest_complete _ _ H) as (r & Hr & _). now exists r.
Qed.

Theorem UnitLine_functional line fs fs' : UnitLine line fs -> UnitLine line fs' -> map flat fs = map flat fs'.
Proof.
  intros H H'. destruct (unit_rest_complete _ _ H) as (r & Hr & E). destruct (unit_rest_complete _ _ H') as (r' & Hr' & E').
  rewrite Hr in Hr'. injection Hr' as <-. congruence.
Qed.

(** ** 5. the kind of a line *)
Section Classify.
Hypothesis Hkv : forall line k v,
  parse_kv is_space is_lower is_upper line = Some (k, v) <-> KVLine is_space is_lower is_upper line k v.

Notation classify := (classify is_space is_lower is_upper atoi parse_float).
Notation LineKind := (LineKind is_space is_lower is_upper atoi parse_float).
Notation KVLine := (KVLine is_space is_lower is_upper).

Lemma classify_eq line :
  classify line =
  if has_prefix line (bs "Benchmark") then LBench (parse_bench (skipn 9 line))
  else match unit_rest line with
       | Some rest => LUnit (fields rest)
       | None => match parse_kv is_space is_lower is_upper line with Some (k, v) => LKV k v | None => LOther end
       end.
Proof. reflexivity. Qed.

Theorem classify_iff line c : classify line = c <-> LineKind line c.
Proof.
  rewrite classify_eq. destruct (has_prefix line (bs "Benchmark")) eqn:Hp.
  - apply has_prefix_spec in Hp as Hb. destruct Hb as [rest ->].
    change (skipn 9 (bs "Benchmark" ++ rest)) with rest. split.
    + intros <-. eapply LK_bench; [reflexivity|]. now apply parse_bench_iff.
    + intros H. destruct H as [rest' o E Hb|fs Hn _|k v Hn _ _|Hn _ _];
        try (exfalso; apply Hn; now exists rest).
      apply app_inv_head in E. subst rest'. f_equal. now apply parse_bench_iff.
  - assert (Hnb : ~ IsBench line).
    { intros Hb. apply has_prefix_spec in Hb. congruence. }
    destruct (unit_rest line) as [r|] eqn:Eu.
    + destruct (unit_rest_sound _ _ Eu) as (fs & Hu & Ef). split.
      * intros <-. rewrite Ef. now apply LK_unit.
      * intros H. destruct H as [rest' o E _|fs' _ Hu'|k v _ Hn _|_ Hn _].
        -- exfalso. apply Hnb. now exists rest'.
        -- f_equal. rewrite Ef. eapply UnitLine_functional; eauto.
        -- exfalso. apply Hn. now exists fs.
        -- exfalso. apply Hn. now exists fs.
    + assert (Hnu : ~ IsUnit line).
      { intros Hu. apply unit_rest_iff in Hu as [r Hr]. congruence. }
      destruct (parse_kv is_space is_lower is_upper line) as [[k v]|] eqn:Ek.
      * apply Hkv in Ek as Hk. split.
        -- intros <-. now apply LK_kv.
        -- intros H. destruct H as [rest' o E _|fs' _ Hu'|k' v' _ _ Hk'|_ _ Hno].
           ++ exfalso. apply Hnb. now exists rest'.
           ++ exfalso. apply Hnu. now exists fs'.
           ++ apply Hkv in Hk'. congruence.
           ++ exfalso. eapply Hno; eauto.
      * split.
        -- intros <-. apply LK_other; auto. intros k v Hk. apply Hkv in Hk. congruence.
        -- intros H. destruct H as [rest' o E _|fs' _ Hu'|k' v' _ _ Hk'|_ _ Hno].
           ++ exfalso. apply Hnb. now exists rest'.
           ++ exfalso. apply Hnu. now exists fs'.
           ++ apply Hkv in Hk'. congruence.
           ++ reflexivity.
Qed.

Theorem LineKind_functional line c c' : LineKind line c -> LineKind line c' -> c = c'.
Proof. intros H H'. apply classify_iff in H, H'. congruence. Qed.

Theorem LineKind_total line : exists c, LineKind line c.
Proof. exists (classify line). now apply classify_iff. Qed.

End Classify.

End S.
