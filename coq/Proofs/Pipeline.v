(** Proofs about the composed benchstat model (Model/Pipeline.v): the run is
    total (never EInternal / EFuel: the component models fit together); the
    filter step is its specification; the tuples are exactly the kept
    measurements with the Keys the projection stream hands out; hence the
    cell theorems of C14, the key theorems of C08, the filter theorems of C06
    and the reader theorems of C02 hold of `file text + flags`. *)
From Perf Require Import Base.Bytes Base.B64.
From Perf Require Import Model.Name Model.Extract.
From Perf Require Model.Units Model.Reader Model.Files Model.FilterAst Model.FilterParse
  Model.ProjParse Model.FilterEval Model.Key Model.Projection Model.Sort Model.BenchTab.
From Perf Require Import Model.Pipeline.
From Perf Require Proofs.ReaderSlots Proofs.Reader Proofs.FilterFixed Proofs.FilterReject Proofs.ProjReject
  Proofs.Projection Proofs.Exclusion Proofs.KeyGet Proofs.Lossless Proofs.LosslessExec Proofs.BenchTab.
From Coq Require Import Lia Sorting.Permutation.

(** * small list facts *)
Lemma keep_length_le {A} (t : nat -> bool) : forall (l : list A) k, length (FilterEval.keep t l k) <= length l.
Proof. induction l as [|x l IH]; intros k; cbn [FilterEval.keep length]; [lia|]. destruct (t k); cbn [length]; specialize (IH (S k)); lia. Qed.

Lemma keep_nil_iff {A} (t : nat -> bool) : forall (l : list A) k,
  FilterEval.keep t l k = [] <-> existsb t (seq k (length l)) = false.
Proof.
  induction l as [|x l IH]; intros k; cbn [FilterEval.keep length seq existsb]; [tauto|].
  destruct (t k); cbn [orb]; [split; discriminate|]. apply IH.
Qed.

(** the value at position [i] survives [keep] iff the test holds at [i] *)
Lemma keep_In {A} (t : nat -> bool) : forall (l : list A) k x,
  In x (FilterEval.keep t l k) <-> exists i, nth_error l i = Some x /\ t (k + i) = true.
Proof.
  induction l as [|y l IH]; intros k x; cbn [FilterEval.keep].
  - split; [intros []|intros [[|i] [H _]]; discriminate].
  - destruct (t k) eqn:E.
    + cbn [In]. rewrite IH. split.
      * intros [->|[i [H1 H2]]]; [exists 0; rewrite Nat.add_0_r; auto|exists (S i); rewrite Nat.add_succ_r; auto].
      * intros [[|i] [H1 H2]]; [left; now injection H1|right; exists i; rewrite Nat.add_succ_r in H2; auto].
    + rewrite IH. split.
      * intros [i [H1 H2]]. exists (S i). rewrite Nat.add_succ_r. auto.
      * intros [[|i] [H1 H2]]; [rewrite Nat.add_0_r in H2; congruence|exists i; rewrite Nat.add_succ_r in H2; auto].
Qed.

Section PipelineProofs.
Variables is_space is_lower is_upper : N -> bool.
Variable atoi : bytes -> option Z.
Variable parse_float : bytes -> option b64.
Variable re_ok : bytes -> bool.
Variable rematch : bytes -> bytes -> bool.

Notation compile := (compile is_space re_ok).
Notation read_files := (read_files is_space is_lower is_upper atoi parse_float).
Notation keep_record := (keep_record rematch).
Notation spec_keep_record := (spec_keep_record rematch).
Notation apply_filter := (apply_filter rematch).
Notation meas_passes := (meas_passes rematch).
Notation spec_kept_vals := (spec_kept_vals rematch).
Notation benchstat_run := (benchstat_run is_space is_lower is_upper atoi parse_float re_ok rematch).
Notation benchstat_run_spec := (benchstat_run_spec is_space is_lower is_upper atoi parse_float re_ok rematch).
Notation benchstat_tuples := (benchstat_tuples is_space is_lower is_upper atoi parse_float re_ok rematch).
Notation run_with := (run_with is_space is_lower is_upper atoi parse_float).

(** * the reader delivers results with at least one value and distinct configuration keys *)
Definition res_ok (rec : Reader.record) : Prop :=
  match rec with Reader.RRes r => Reader.r_vals r <> [] | _ => True end.

Lemma parse_vals_nonempty : forall fs acc v,
  Reader.parse_vals is_space parse_float fs acc = inr v -> v <> [].
Proof.
  fix IH 1. intros [|f fs] acc v; cbn [Reader.parse_vals].
  - destruct acc; cbn [is_nil]; [discriminate|]. intros [= <-]. discriminate.
  - destruct (Reader.atof parse_float f); [|discriminate].
    destruct fs as [|u fs2]; [discriminate|]. apply IH.
Qed.

Lemma classify_bok line n i v :
  Reader.classify is_space is_lower is_upper atoi parse_float line = Reader.LBench (Reader.BOk n i v) -> v <> [].
Proof.
  unfold Reader.classify. destruct (has_prefix line (bs "Benchmark")).
  - intros [= H]. revert H. unfold Reader.parse_bench.
    destruct (Reader.split_field is_space _) as [name rest].
    destruct (is_nil rest && _); [discriminate|].
    destruct (Reader.fields is_space rest) as [|f fs]; [discriminate|].
    destruct (atoi f); [|discriminate].
    destruct (Reader.parse_vals is_space parse_float fs []) as [k|vals] eqn:E; [discriminate|].
    intros [= _ _ <-]. eapply parse_vals_nonempty; eauto.
  - repeat (match goal with
            | |- (match ?x with _ => _ end) = _ -> _ => destruct x
            end); discriminate.
Qed.

Lemma step_res_ok fname n st line rs st' :
  Reader.step is_space is_lower is_upper atoi parse_float fname n st line = (rs, st') -> Forall res_ok rs.
Proof.
  unfold Reader.step.
  destruct (Reader.classify is_space is_lower is_upper atoi parse_float line) as [[|k|name iters vals]|fs|k v|] eqn:E.
  - intros [= <- <-]. constructor.
  - intros [= <- <-]. repeat constructor.
  - intros [= <- <-]. constructor; [|constructor]. cbn. eapply classify_bok; eauto.
  - destruct (Reader.unit_line is_space fname n fs (Reader.rs_units st)) as [rs1 m1] eqn:U. intros [= <- <-].
    destruct (Proofs.Reader.unit_line_facts is_space _ _ _ _ _ _ U) as [H _].
    eapply Forall_impl; [|exact H]. intros [r|u|f l k] Hr; cbn in *; auto; contradiction.
  - intros [= <- <-]. constructor.
  - intros [= <- <-]. constructor.
Qed.

Lemma read_lines_res_ok fname ls : forall n st rs e st',
  Reader.read_lines is_space is_lower is_upper atoi parse_float fname n st ls = (rs, e, st') -> Forall res_ok rs.
Proof.
  induction ls as [|[b|] ls IH]; intros n st rs e st'; cbn [Reader.read_lines].
  - intros [= <- <- <-]. constructor.
  - destruct (Reader.step is_space is_lower is_upper atoi parse_float fname (n + 1) st b) as [rs1 st1] eqn:E1.
    destruct (Reader.read_lines is_space is_lower is_upper atoi parse_float fname (n + 1) st1 ls) as [[rs' e'] st2] eqn:E2.
    intros [= <- <- <-]. apply Forall_app. split; [eapply step_res_ok; eauto|eapply IH; eauto].
  - intros [= <- <- <-]. constructor.
Qed.

Lemma files_loop_res_ok fs ins : forall st rs e st',
  Files.files_loop is_space is_lower is_upper atoi parse_float fs ins st = (rs, e, st') -> Forall res_ok rs.
Proof.
  induction ins as [|i ins IH]; intros st rs e st'; cbn [Files.files_loop].
  - intros [= <- <- <-]. constructor.
  - destruct (Files.fs_find fs (Files.fi_path i)) as [content|]; [|intros [= <- <- <-]; constructor].
    destruct (Reader.read_file is_space is_lower is_upper atoi parse_float st (Files.fi_path i) _ content) as [[rs1 e1] st1] eqn:E1.
    pose proof (read_lines_res_ok _ _ _ _ _ _ _ E1) as H1.
    destruct e1 as [n|].
    + intros [= <- <- <-]. exact H1.
    + destruct (Files.files_loop is_space is_lower is_upper atoi parse_float fs ins st1) as [[rs' e'] st2] eqn:E2.
      intros [= <- <- <-]. apply Forall_app. split; auto. eapply IH; eauto.
Qed.

(** every result the files deliver has a measurement, and its configuration
    keys are pairwise distinct *)
Definition res_wf (rec : Reader.record) : Prop :=
  match rec with
  | Reader.RRes r => Reader.r_vals r <> [] /\ NoDup (map c_key (Reader.r_cfg r))
  | _ => True
  end.

Theorem read_files_wf files recs e st :
  read_files files = (recs, e, st) -> Forall res_wf recs.
Proof.
  unfold Pipeline.read_files, Files.files_run. intros H.
  pose proof (files_loop_res_ok _ _ _ _ _ _ H) as H1.
  destruct (Proofs.Reader.files_no_leak is_space is_lower is_upper atoi parse_float _ _ _ _ _ _ H) as (rs2 & _ & H2).
  clear H. revert H1. induction H2 as [|a b la lb Hab _ IH]; intros H1; constructor.
  - inversion H1; subst. destruct a as [r|u|f l k]; cbn; auto. split; auto.
    destruct b as [r'|u'|f' l' k']; cbn in Hab; try contradiction. apply Hab.
  - inversion H1; subst. auto.
Qed.

(** what the files deliver is, record for record, what the format prescribes
    for each file on its own (C02 lifted to the run): configuration as a map,
    nothing leaking from one file into the next, unit metadata carried along *)
Theorem read_files_refine_spec files recs e st :
  read_files files = (recs, e, st) ->
  exists recs2,
    Files.files_spec_loop is_space is_lower is_upper atoi parse_float (file_system files)
      (Files.files_inputs true (map fst files)) [] = (recs2, e, Reader.rs_units st) /\
    Forall2 Proofs.Reader.rec_equiv recs recs2.
Proof.
  unfold Pipeline.read_files, Files.files_run. intros H.
  exact (Proofs.Reader.files_no_leak is_space is_lower is_upper atoi parse_float _ _ _ _ _ _ H).
Qed.

(** * the filter step is its specification *)
Lemma fres_units_length r : length (FilterEval.fr_units (fres_of r)) = length (Reader.r_vals r).
Proof. unfold fres_of. cbn. apply map_length. Qed.

(** Filter.Apply with the filter main.go built (the -filter expression wrapped
    by the fixed-order fields of the four projection flags) keeps exactly the
    measurements of which [meas_passes] holds, in their order, and reports
    whether any is left *)
Theorem apply_filter_spec c r : Reader.r_vals r <> [] ->
  apply_filter c r = (spec_kept_vals c r, negb (is_nil (spec_kept_vals c r))).
Proof.
  intros Hne. unfold Pipeline.apply_filter, Pipeline.filter_res, Pipeline.spec_kept_vals, Pipeline.meas_passes.
  assert (Hlen : length (Reader.r_vals r) = length (FilterEval.fr_units (fres_of r))) by (symmetry; apply fres_units_length).
  assert (H1 : 1 <= length (FilterEval.fr_units (fres_of r))).
  { rewrite <- Hlen. destruct (Reader.r_vals r); [congruence|cbn; lia]. }
  rewrite (Proofs.FilterFixed.fixed_list_apply (fres_of r) _ rematch (cp_all c) (cp_filter c) (Reader.r_vals r) Hlen H1).
  rewrite Proofs.FilterFixed.keep_andc.
  destruct (FilterEval.fixed_keeps _ (cp_all c) (fres_of r)); cbn [andb]; [|reflexivity].
  f_equal. rewrite <- Hlen.
  destruct (FilterEval.keep _ (Reader.r_vals r) 0) as [|x l] eqn:E.
  - apply keep_nil_iff in E. cbn. exact E.
  - cbn. destruct (existsb _ (seq 0 (length (Reader.r_vals r)))) eqn:E2; auto.
    apply keep_nil_iff in E2. congruence.
Qed.

Theorem keep_record_spec c rec : res_wf rec -> keep_record c rec = spec_keep_record c rec.
Proof.
  destruct rec as [r|u|f l k]; cbn [Pipeline.keep_record Pipeline.spec_keep_record res_wf]; auto.
  intros [Hne _]. rewrite (apply_filter_spec c r Hne).
  destruct (spec_kept_vals c r); reflexivity.
Qed.

Lemma keep_records_ext (k1 k2 : compiled -> Reader.record -> option kept) c recs :
  Forall (fun rec => k1 c rec = k2 c rec) recs -> keep_records k1 c recs = keep_records k2 c recs.
Proof.
  induction 1 as [|rec recs H _ IH]; cbn [keep_records]; auto. rewrite H, IH. reflexivity.
Qed.

(** the run with the code's filter step IS the run with the specified one *)
Theorem run_is_spec_run fl files : benchstat_run fl files = benchstat_run_spec fl files.
Proof.
  unfold Pipeline.benchstat_run, Pipeline.benchstat_run_spec, Pipeline.run_flags.
  destruct (compile fl) as [c|e]; auto. unfold Pipeline.run_with.
  destruct (Projection.run_ops Projection.new_world (setup_ops c)) as [w0 outs0].
  destruct (negb (setup_outs_ok outs0)); auto.
  destruct (read_files files) as [[recs e] st] eqn:E. destruct e; auto.
  pose proof (read_files_wf _ _ _ _ E) as Hwf.
  rewrite (keep_records_ext keep_record spec_keep_record c recs); auto.
  eapply Forall_impl; [|exact Hwf]. intros rec. apply keep_record_spec.
Qed.

(** * the component models fit together: the run is total *)
(** a field the text parser and its semantic checks (C07) accept is a field
    makeProjection (C08) accepts *)
Lemma check_field_spec_ok p :
  ProjParse.check_field p = None -> Proofs.Exclusion.spec_ok (to_spec p) = true.
Proof.
  unfold ProjParse.check_field, Proofs.Exclusion.spec_ok, Projection.mp_proj, Projection.order_of_spec,
    to_spec, ProjParse.known_order, ProjParse.ord_fixed, ProjParse.ord_first, ProjParse.ord_alpha, ProjParse.ord_num,
    FilterParse.key_config, FilterParse.key_unit, Projection.key_config, Projection.key_unit, key_fullname.
  cbn [Projection.ps_key Projection.ps_order Projection.ps_fixed].
  destruct (beq (FilterAst.pf_order p) (bs "fixed")) eqn:E1; cbn [orb negb andb].
  - destruct (FilterAst.pf_fixed p) as [|w ws] eqn:Ef; [discriminate|]. cbn [Projection.is_fixed].
    destruct (beq (FilterAst.pf_key p) (bs ".config")); [discriminate|].
    destruct (beq (FilterAst.pf_key p) (bs ".fullname")).
    { intros _. now destruct (Projection.add_top_field _ _ _ _). }
    destruct (beq (FilterAst.pf_key p) (bs ".unit")); [discriminate|].
    destruct (FilterAst.pf_key p) eqn:Ek; [discriminate|]. cbn [is_nil].
    intros _. now destruct (Projection.add_top_field _ _ _ _).
  - destruct (beq (FilterAst.pf_order p) (bs "first")) eqn:E2; cbn [orb negb andb].
    { destruct (beq (FilterAst.pf_key p) (bs ".config")).
      { intros _. cbn [Projection.is_fixed]. now destruct (Projection.add_group _ _). }
      destruct (beq (FilterAst.pf_key p) (bs ".fullname")).
      { intros _. now destruct (Projection.add_top_field _ _ _ _). }
      destruct (beq (FilterAst.pf_key p) (bs ".unit")); [discriminate|].
      destruct (FilterAst.pf_key p) eqn:Ek; [discriminate|]. cbn [is_nil].
      intros _. now destruct (Projection.add_top_field _ _ _ _). }
    destruct (beq (FilterAst.pf_order p) (bs "alpha")) eqn:E3; cbn [orb negb andb].
    { destruct (beq (FilterAst.pf_key p) (bs ".config")).
      { intros _. cbn [Projection.is_fixed]. now destruct (Projection.add_group _ _). }
      destruct (beq (FilterAst.pf_key p) (bs ".fullname")).
      { intros _. now destruct (Projection.add_top_field _ _ _ _). }
      destruct (beq (FilterAst.pf_key p) (bs ".unit")); [discriminate|].
      destruct (FilterAst.pf_key p) eqn:Ek; [discriminate|]. cbn [is_nil].
      intros _. now destruct (Projection.add_top_field _ _ _ _). }
    destruct (beq (FilterAst.pf_order p) (bs "num")) eqn:E4; cbn [orb negb andb]; [|discriminate].
    destruct (beq (FilterAst.pf_key p) (bs ".config")).
    { intros _. cbn [Projection.is_fixed]. now destruct (Projection.add_group _ _). }
    destruct (beq (FilterAst.pf_key p) (bs ".fullname")).
    { intros _. now destruct (Projection.add_top_field _ _ _ _). }
    destruct (beq (FilterAst.pf_key p) (bs ".unit")); [discriminate|].
    destruct (FilterAst.pf_key p) eqn:Ek; [discriminate|]. cbn [is_nil].
    intros _. now destruct (Projection.add_top_field _ _ _ _).
Qed.

Lemma check_fields_spec_ok l :
  ProjParse.check_fields l = None -> forallb Proofs.Exclusion.spec_ok (map to_spec l) = true.
Proof.
  induction l as [|p l IH]; cbn [ProjParse.check_fields map forallb]; auto.
  destruct (ProjParse.check_field p) eqn:E; [discriminate|]. intros H.
  rewrite (check_field_spec_ok p E), (IH H). reflexivity.
Qed.

Lemma parse_proj_flag_ok which q l :
  parse_proj_flag is_space re_ok which q = POk l -> forallb Proofs.Exclusion.spec_ok (map to_spec l) = true.
Proof.
  unfold Pipeline.parse_proj_flag, ProjParse.new_projection.
  destruct (ProjParse.parse_projection is_space re_ok q) as [l'|off|]; try discriminate.
  destruct (ProjParse.check_fields l') eqn:E; [discriminate|]. intros [= <-]. now apply check_fields_spec_ok.
Qed.

(** the Parse calls main.go makes, as C08 names them *)
Definition calls_of (c : compiled) : list Proofs.Exclusion.call :=
  [(true, map to_spec (cp_table c)); (false, map to_spec (cp_row c));
   (false, map to_spec (cp_col c)); (false, map to_spec (cp_ignore c))].

Lemma setup_ops_calls c : setup_ops c = Proofs.Lossless.parse_ops (calls_of c) ++ [Projection.OpResidue].
Proof. reflexivity. Qed.

Theorem compile_calls_ok fl c : compile fl = POk c -> Forall Proofs.Lossless.call_ok (calls_of c).
Proof.
  unfold Pipeline.compile. destruct (FilterParse.new_filter is_space re_ok (fl_filter fl)); try discriminate.
  destruct (parse_proj_flag is_space re_ok 0 (fl_table fl)) as [t|] eqn:E0; [|discriminate].
  destruct (parse_proj_flag is_space re_ok 1 (fl_row fl)) as [r|] eqn:E1; [|discriminate].
  destruct (parse_proj_flag is_space re_ok 2 (fl_col fl)) as [cl|] eqn:E2; [|discriminate].
  destruct (parse_proj_flag is_space re_ok 3 (fl_ignore fl)) as [ig|] eqn:E3; [|discriminate].
  intros [= <-]. unfold calls_of, Proofs.Lossless.call_ok. cbn [cp_table cp_row cp_col cp_ignore].
  repeat constructor; cbn [snd]; eapply parse_proj_flag_ok; eauto.
Qed.

Theorem compile_never_fuel fl : compile fl <> PErr EFuel.
Proof.
  unfold Pipeline.compile, Pipeline.parse_proj_flag.
  pose proof (Proofs.FilterReject.new_filter_total is_space re_ok (fl_filter fl)) as T.
  pose proof (Proofs.ProjReject.new_projection_total is_space re_ok (fl_table fl)) as T0.
  pose proof (Proofs.ProjReject.new_projection_total is_space re_ok (fl_row fl)) as T1.
  pose proof (Proofs.ProjReject.new_projection_total is_space re_ok (fl_col fl)) as T2.
  pose proof (Proofs.ProjReject.new_projection_total is_space re_ok (fl_ignore fl)) as T3.
  destruct (FilterParse.new_filter is_space re_ok (fl_filter fl)); try congruence.
  destruct (ProjParse.new_projection is_space re_ok (fl_table fl)); try congruence.
  destruct (ProjParse.new_projection is_space re_ok (fl_row fl)); try congruence.
  destruct (ProjParse.new_projection is_space re_ok (fl_col fl)); try congruence.
  destruct (ProjParse.new_projection is_space re_ok (fl_ignore fl)); congruence.
Qed.

Lemma parse_proj_flag_not_internal which q : parse_proj_flag is_space re_ok which q <> PErr EInternal.
Proof. unfold Pipeline.parse_proj_flag. destruct (ProjParse.new_projection is_space re_ok q); discriminate. Qed.

Lemma compile_never_internal fl : compile fl <> PErr EInternal.
Proof.
  unfold Pipeline.compile.
  pose proof (parse_proj_flag_not_internal 0 (fl_table fl)) as T0.
  pose proof (parse_proj_flag_not_internal 1 (fl_row fl)) as T1.
  pose proof (parse_proj_flag_not_internal 2 (fl_col fl)) as T2.
  pose proof (parse_proj_flag_not_internal 3 (fl_ignore fl)) as T3.
  destruct (FilterParse.new_filter is_space re_ok (fl_filter fl)); try discriminate.
  destruct (parse_proj_flag is_space re_ok 0 (fl_table fl)); [|congruence].
  destruct (parse_proj_flag is_space re_ok 1 (fl_row fl)); [|congruence].
  destruct (parse_proj_flag is_space re_ok 2 (fl_col fl)); [|congruence].
  destruct (parse_proj_flag is_space re_ok 3 (fl_ignore fl)); [discriminate|congruence].
Qed.

(** ** the projection stream *)
Lemma step_parse_ok w wu fs : forallb Proofs.Exclusion.spec_ok fs = true ->
  exists w', Projection.step w (Projection.OpParse wu fs) = (w', Projection.OutParse true) /\
             length (Projection.w_projs w') = S (length (Projection.w_projs w)).
Proof.
  intros H. cbn [Projection.step].
  destruct (Proofs.Lossless.make_all_ok fs (Projection.w_pp w) Projection.new_projection H) as (pp' & p' & E).
  destruct wu.
  - unfold Projection.parse_with_unit, Projection.parse. rewrite E.
    destruct (Projection.add_top_field p' Projection.key_unit Projection.OFirst Projection.SUnit) as [p1 u].
    eexists. split; [reflexivity|]. cbn. rewrite app_length. cbn. lia.
  - unfold Projection.parse. rewrite E. eexists. split; [reflexivity|]. cbn. rewrite app_length. cbn. lia.
Qed.

Theorem setup_ok c : Forall Proofs.Lossless.call_ok (calls_of c) ->
  exists w0, Projection.run_ops Projection.new_world (setup_ops c)
             = (w0, [Projection.OutParse true; Projection.OutParse true; Projection.OutParse true;
                     Projection.OutParse true; Projection.OutNone]) /\
             length (Projection.w_projs w0) = 5.
Proof.
  intros H. unfold calls_of in H.
  inversion H as [|? ? H0 H']; subst. inversion H' as [|? ? H1 H'']; subst.
  inversion H'' as [|? ? H2 H''']; subst. inversion H''' as [|? ? H3 _]; subst.
  unfold Proofs.Lossless.call_ok in *. cbn [snd] in *.
  unfold setup_ops. cbn [Projection.run_ops].
  destruct (step_parse_ok Projection.new_world true _ H0) as (w1 & E1 & L1). rewrite E1.
  destruct (step_parse_ok w1 false _ H1) as (w2 & E2 & L2). rewrite E2.
  destruct (step_parse_ok w2 false _ H2) as (w3 & E3 & L3). rewrite E3.
  destruct (step_parse_ok w3 false _ H3) as (w4 & E4 & L4). rewrite E4.
  cbn [Projection.step]. destruct (Projection.residue (Projection.w_pp w4)) as [pp' p].
  eexists. split; [reflexivity|]. cbn [Projection.w_projs]. rewrite app_length. cbn in *. lia.
Qed.

Lemma step_project w pi r : pi < length (Projection.w_projs w) ->
  exists w' k, Projection.step w (Projection.OpProject pi r) = (w', Projection.OutKeys [k]) /\
               length (Projection.w_projs w') = length (Projection.w_projs w).
Proof.
  intros H. cbn [Projection.step].
  destruct (nth_error (Projection.w_projs w) pi) as [p|] eqn:E; [|apply nth_error_None in E; lia].
  destruct (Projection.project (Projection.w_pp w) p r) as [[pp' p'] k].
  eexists _, k. split; [reflexivity|]. cbn. apply Proofs.Projection.set_nth_length.
Qed.

Lemma step_project_values w pi r : pi < length (Projection.w_projs w) ->
  exists w' ks, Projection.step w (Projection.OpProjectValues pi r) = (w', Projection.OutKeys ks) /\
                length ks = length (Projection.r_units r) /\
                length (Projection.w_projs w') = length (Projection.w_projs w).
Proof.
  intros H. cbn [Projection.step].
  destruct (nth_error (Projection.w_projs w) pi) as [p|] eqn:E; [|apply nth_error_None in E; lia].
  pose proof (Proofs.Projection.project_values_length (Projection.w_pp w) p r) as L.
  destruct (Projection.project_values (Projection.w_pp w) p r) as [[pp' p'] ks].
  eexists _, ks. split; [reflexivity|]. split; auto. cbn. apply Proofs.Projection.set_nth_length.
Qed.

(** the Keys one result receives: table keys (one per remaining value), row, column, residue *)
Definition assignment := (list nat * nat * nat * nat)%type.
Definition outs_of (a : assignment) : list Projection.out :=
  let '(ts, r, c, res) := a in
  [Projection.OutKeys ts; Projection.OutKeys [r]; Projection.OutKeys [c]; Projection.OutKeys [res]].
Definition a_tables (a : assignment) : list nat := fst (fst (fst a)).
Definition a_row (a : assignment) : nat := snd (fst (fst a)).
Definition a_col (a : assignment) : nat := snd (fst a).
Definition a_res (a : assignment) : nat := snd a.

(** the tuples: result after result, value after value *)
Definition tuples_spec (ks : list kept) (assign : list assignment) : list BenchTab.meas :=
  flat_map (fun ka => meas_of (a_tables (snd ka)) (a_row (snd ka)) (a_col (snd ka)) (a_res (snd ka)) (k_vals (fst ka)))
           (combine ks assign).

Lemma tuples_of_outs ks assign :
  Forall2 (fun k a => length (a_tables a) = length (k_vals k)) ks assign ->
  tuples_of ks (flat_map outs_of assign) = Some (tuples_spec ks assign).
Proof.
  induction 1 as [|k a ks assign H _ IH]; [reflexivity|].
  destruct a as [[[ts r] c] res]. cbn [flat_map outs_of app tuples_of a_tables fst] in *.
  apply Nat.eqb_eq in H. rewrite H, IH. reflexivity.
Qed.

Definition kept_wf (k : kept) : Prop :=
  length (Projection.r_units (k_res k)) = length (k_vals k) /\ NoDup (map c_key (Projection.r_cfg (k_res k))).

Lemma stream_shape ks : forall w, 5 <= length (Projection.w_projs w) -> Forall kept_wf ks ->
  exists assign,
    snd (Projection.run_ops w (flat_map add_ops ks)) = flat_map outs_of assign /\
    Forall2 (fun k a => length (a_tables a) = length (k_vals k)) ks assign.
Proof.
  induction ks as [|k ks IH]; intros w Hw Hk.
  - exists []. split; [reflexivity|constructor].
  - inversion Hk as [|? ? [Hl _] Hk']; subst. cbn [flat_map add_ops app Projection.run_ops].
    unfold pi_table, pi_row, pi_col, pi_residue.
    destruct (step_project_values w 0 (k_res k) ltac:(lia)) as (w1 & ts & E1 & L1 & W1). rewrite E1.
    destruct (step_project w1 1 (k_res k) ltac:(lia)) as (w2 & r & E2 & W2). rewrite E2.
    destruct (step_project w2 2 (k_res k) ltac:(lia)) as (w3 & cl & E3 & W3). rewrite E3.
    destruct (step_project w3 4 (k_res k) ltac:(lia)) as (w4 & res & E4 & W4). rewrite E4.
    destruct (IH w4 ltac:(lia) Hk') as (assign & Ha & Hf).
    destruct (Projection.run_ops w4 (flat_map add_ops ks)) as [w5 outs]. cbn [snd] in *.
    exists ((ts, r, cl, res) :: assign). split.
    + cbn [flat_map outs_of app]. now rewrite Ha.
    + constructor; auto. cbn. congruence.
Qed.

Lemma kept_of_wf r vs : NoDup (map c_key (Reader.r_cfg r)) -> kept_wf (kept_of r vs).
Proof. intros H. split; [cbn; now rewrite !map_length|exact H]. Qed.

Lemma keep_records_wf c recs : Forall res_wf recs -> Forall kept_wf (keep_records spec_keep_record c recs).
Proof.
  induction 1 as [|rec recs H _ IH]; cbn [keep_records]; [constructor|].
  destruct rec as [r|u|f l k]; cbn [Pipeline.spec_keep_record]; auto.
  destruct (spec_kept_vals c r) as [|v vs]; auto. constructor; auto. apply kept_of_wf. apply H.
Qed.

(** ** the anatomy of a successful run *)
Record run_facts (fl : flags) (files : list (bytes * bytes)) (o : run_out) (assign : list assignment) : Prop := {
  rf_compile : compile fl = POk (o_compiled o);
  rf_calls : Forall Proofs.Lossless.call_ok (calls_of (o_compiled o));
  rf_read : exists st, read_files files = (o_records o, Files.FNone, st) /\ o_units o = Reader.rs_units st;
  rf_records : Forall res_wf (o_records o);
  rf_kept : o_kept o = keep_records spec_keep_record (o_compiled o) (o_records o);
  rf_kept_wf : Forall kept_wf (o_kept o);
  rf_stream : Projection.run_ops
                (fst (Projection.run_ops Projection.new_world (setup_ops (o_compiled o))))
                (flat_map add_ops (o_kept o)) = (o_world o, flat_map outs_of assign);
  rf_assign : Forall2 (fun k a => length (a_tables a) = length (k_vals k)) (o_kept o) assign;
  rf_tuples : o_tuples o = tuples_spec (o_kept o) assign
}.

Theorem run_spec_anatomy fl files :
  match benchstat_run_spec fl files with
  | POk o => exists assign, run_facts fl files o assign
  | PErr e => e <> EInternal /\ e <> EFuel
  end.
Proof.
  unfold Pipeline.benchstat_run_spec, Pipeline.run_flags.
  pose proof (compile_never_fuel fl) as NF. pose proof (compile_calls_ok fl) as CO.
  destruct (compile fl) as [c|e] eqn:EC.
  2:{ split; [|congruence]. intros ->. exact (compile_never_internal fl EC). }
  specialize (CO c eq_refl). unfold Pipeline.run_with.
  destruct (setup_ok c CO) as (w0 & E0 & L0). rewrite E0. cbn [setup_outs_ok negb].
  destruct (read_files files) as [[recs e] st] eqn:ER.
  destruct e as [| |n]; [|split; discriminate|split; discriminate].
  pose proof (read_files_wf _ _ _ _ ER) as Hwf.
  pose proof (keep_records_wf c recs Hwf) as Hk.
  destruct (stream_shape (keep_records spec_keep_record c recs) w0 ltac:(lia) Hk) as (assign & Ha & Hf).
  destruct (Projection.run_ops w0 (flat_map add_ops (keep_records spec_keep_record c recs))) as [w outs] eqn:ES.
  cbn [snd] in Ha. subst outs. rewrite (tuples_of_outs _ _ Hf).
  exists assign. constructor; cbn [o_compiled o_records o_units o_kept o_world o_tuples]; auto.
  - exists st. auto.
  - rewrite E0. cbn [fst]. exact ES.
Qed.

(** the run never fails for a reason of the model's own making, and a
    successful run has the anatomy above *)
Theorem run_anatomy fl files :
  match benchstat_run fl files with
  | POk o => exists assign, run_facts fl files o assign
  | PErr e => e <> EInternal /\ e <> EFuel
  end.
Proof. rewrite run_is_spec_run. apply run_spec_anatomy. Qed.

(** * the cells, from file text *)
(** what one kept result contributes to cell (t, r, c): nothing unless its row
    and column Keys are r and c; then its remaining values whose table Key is t *)
Definition contrib (t r c : N) (ka : kept * assignment) : list b64 :=
  if (N.of_nat (a_row (snd ka)) =? r)%N && (N.of_nat (a_col (snd ka)) =? c)%N
  then map snd (filter (fun tv => (N.of_nat (fst tv) =? t)%N) (combine (a_tables (snd ka)) (k_vals (fst ka))))
  else [].

Lemma m_is_mk t r c r' c' res tv :
  BenchTab.m_is t r c (mk_meas r' c' res tv) =
  (N.of_nat (fst tv) =? t)%N && (N.of_nat r' =? r)%N && (N.of_nat c' =? c)%N.
Proof. reflexivity. Qed.

Lemma meas_of_cell t r c ts r' c' res vals :
  map BenchTab.m_v (filter (BenchTab.m_is t r c) (meas_of ts r' c' res vals)) =
  if (N.of_nat r' =? r)%N && (N.of_nat c' =? c)%N
  then map snd (filter (fun tv => (N.of_nat (fst tv) =? t)%N) (combine ts vals)) else [].
Proof.
  unfold meas_of. induction (combine ts vals) as [|tv l IH]; cbn [map filter].
  - now destruct (_ && _).
  - rewrite m_is_mk. revert IH.
    destruct (N.of_nat r' =? r)%N, (N.of_nat c' =? c)%N; cbn [andb]; intros IH;
      rewrite ?andb_false_r, ?andb_true_r; auto.
    destruct (N.of_nat (fst tv) =? t)%N; cbn [map]; now rewrite IH.
Qed.

Lemma tuples_spec_cell t r c ks assign :
  map BenchTab.m_v (filter (BenchTab.m_is t r c) (tuples_spec ks assign)) = flat_map (contrib t r c) (combine ks assign).
Proof.
  unfold tuples_spec. induction (combine ks assign) as [|ka l IH]; [reflexivity|].
  cbn [flat_map]. rewrite filter_app, map_app, IH. f_equal. apply meas_of_cell.
Qed.

(** the sample of cell (t, r, c) is exactly: for every result line of the
    files in order that has a measurement passing the filter (in scope of its
    file configuration - the record carries it), if it projects to row r and
    column c, its passing measurements (tidied values, in line order) whose
    tidied unit projects with it to table t - each once, nothing else *)
Theorem cell_exact fl files o assign t r c :
  run_facts fl files o assign ->
  BenchTab.lookup_vals (BenchTab.build (o_tuples o)) t r c = flat_map (contrib t r c) (combine (o_kept o) assign).
Proof.
  intros F. rewrite Proofs.BenchTab.cell_sample_exact, (rf_tuples _ _ _ _ F). apply tuples_spec_cell.
Qed.

(** * what is kept: results and measurements passing the filter, nothing else *)
Lemma keep_records_In c recs k :
  In k (keep_records spec_keep_record c recs) <->
  exists r, In (Reader.RRes r) recs /\ spec_kept_vals c r <> [] /\ k = kept_of r (spec_kept_vals c r).
Proof.
  induction recs as [|rec recs IH]; cbn [keep_records].
  - split; [intros []|intros (r & [] & _)].
  - destruct (spec_keep_record c rec) as [k0|] eqn:E.
    + cbn [In]. rewrite IH. destruct rec as [r0|u|f l kk]; cbn [Pipeline.spec_keep_record] in E; try discriminate.
      destruct (spec_kept_vals c r0) as [|v vs] eqn:Ev; [discriminate|]. injection E as <-.
      split.
      * intros [<-|(r & Hin & Hne & ->)].
        -- exists r0. rewrite Ev. split; [now left|]. split; [discriminate|reflexivity].
        -- exists r. auto.
      * intros (r & [Hr|Hin] & Hne & ->).
        -- injection Hr as ->. left. now rewrite Ev.
        -- right. exists r. auto.
    + rewrite IH. split.
      * intros (r & Hin & Hne & ->). exists r. split; [now right|]. split; auto.
      * intros (r & [Hr|Hin] & Hne & ->); [|exists r; auto].
        subst rec. cbn [Pipeline.spec_keep_record] in E. destruct (spec_kept_vals c r); [congruence|discriminate].
Qed.

Theorem kept_measurement c r v :
  In v (spec_kept_vals c r) <-> exists i, nth_error (Reader.r_vals r) i = Some v /\ meas_passes c r i = true.
Proof. unfold Pipeline.spec_kept_vals. rewrite keep_In. reflexivity. Qed.

(** every tuple is a measurement of a result line of the files that passes the
    filter: a line or a measurement that fails it contributes to no cell *)
Theorem filter_sound fl files o assign m :
  run_facts fl files o assign -> In m (o_tuples o) ->
  exists r i v, In (Reader.RRes r) (o_records o) /\ nth_error (Reader.r_vals r) i = Some v /\
                meas_passes (o_compiled o) r i = true /\ BenchTab.m_v m = Units.v_val v.
Proof.
  intros F Hm. rewrite (rf_tuples _ _ _ _ F) in Hm. unfold tuples_spec in Hm.
  apply in_flat_map in Hm as ([k a] & Hka & Hm). cbn [fst snd] in Hm.
  unfold meas_of in Hm. apply in_map_iff in Hm as ([tk tvv] & <- & Htv). apply in_combine_r in Htv.
  apply in_combine_l in Hka. rewrite (rf_kept _ _ _ _ F) in Hka.
  apply keep_records_In in Hka as (r & Hr & _ & ->). cbn [kept_of k_vals] in Htv.
  apply in_map_iff in Htv as (v & Hv & Hin). apply kept_measurement in Hin as (i & Hi & Hp).
  exists r, i, v. cbn [mk_meas BenchTab.m_v]. auto.
Qed.

(** and conversely nothing that passes is lost: a result line with a passing
    measurement is kept, with exactly its passing measurements *)
Theorem filter_complete fl files o assign r :
  run_facts fl files o assign -> In (Reader.RRes r) (o_records o) ->
  (exists i, i < length (Reader.r_vals r) /\ meas_passes (o_compiled o) r i = true) ->
  In (kept_of r (spec_kept_vals (o_compiled o) r)) (o_kept o).
Proof.
  intros F Hr (i & Hi & Hp). rewrite (rf_kept _ _ _ _ F). apply keep_records_In.
  exists r. split; auto. split; auto.
  destruct (nth_error (Reader.r_vals r) i) as [v|] eqn:E; [|apply nth_error_None in E; lia].
  intros Hnil. assert (Hin : In v (spec_kept_vals (o_compiled o) r)) by (apply kept_measurement; eauto).
  rewrite Hnil in Hin. destruct Hin.
Qed.

(** * the Keys, from file text (C08 lifted to the run) *)
Lemma nth_flat_map_blocks {A B} (f : A -> list B) n : (forall x, length (f x) = n) ->
  forall l i x j, nth_error l i = Some x -> j < n ->
  nth_error (flat_map f l) (n * i + j) = nth_error (f x) j.
Proof.
  intros Hn. induction l as [|y l IH]; intros [|i] x j Hi Hj; try discriminate; cbn [flat_map].
  - injection Hi as ->. rewrite Nat.mul_0_r, Nat.add_0_l. apply nth_error_app1. now rewrite Hn.
  - cbn [nth_error] in Hi. rewrite nth_error_app2 by (rewrite Hn; lia).
    rewrite Hn. replace (n * S i + j - n) with (n * i + j) by lia. now apply IH.
Qed.

Lemma add_ops_no_parse ks : Forall Proofs.Exclusion.no_parse (flat_map add_ops ks).
Proof. induction ks; cbn [flat_map]; [constructor|]. repeat constructor. exact IHks. Qed.

Lemma add_ops_wf ks : Forall kept_wf ks -> Forall Proofs.KeyGet.op_wf (flat_map add_ops ks).
Proof.
  induction 1 as [|k ks [_ H] _ IH]; cbn [flat_map]; [constructor|].
  repeat (constructor; [exact H|]). exact IH.
Qed.

(** the Key a kept result received for its row (column, residue), read in the
    projections as they are AFTER the whole run: every field holds what its
    extractor yields on that result - [Extract.extract key] for a field made
    for one key, the full name minus the individually projected name keys for
    .fullname, the file-configuration value for a sub-field of .config; every
    file key of the result that no flag names individually has a sub-field in
    every .config group; and no .config group has a sub-field for a key that a
    flag (-ignore included) names individually *)
Theorem key_meaning fl files o assign i k a pi key :
  run_facts fl files o assign ->
  nth_error (o_kept o) i = Some k -> nth_error assign i = Some a ->
  In (pi, key) [(pi_row, a_row a); (pi_col, a_col a); (pi_residue, a_res a)] ->
  let pa := Proofs.Exclusion.parser_after (calls_of (o_compiled o)) in
  exists pF, nth_error (Projection.w_projs (o_world o)) pi = Some pF /\ key < length (Projection.p_keys pF) /\
    (forall idx f, nth_error (Projection.p_fields pF) idx = Some f ->
       Projection.key_get pF key idx = Proofs.KeyGet.want (Projection.pp_full pa) (k_res k) f) /\
    (forall g ord cf, In (Projection.PConfig g ord) (Projection.p_items pF) ->
       In cf (Projection.r_cfg (k_res k)) -> c_file cf = true -> ~ In (c_key cf) (Projection.pp_cfg pa) ->
       exists j, In j (Projection.group_subs pF g) /\ Projection.field_name pF j = c_key cf /\
                 Projection.key_get pF key j = c_val cf) /\
    (forall g j, In j (Projection.group_subs pF g) -> ~ In (Projection.field_name pF j) (Projection.pp_cfg pa)).
Proof.
  intros F Hk Ha Hin. cbv zeta.
  assert (J : exists j, j < 4 /\ nth_error (add_ops k) j = Some (Projection.OpProject pi (k_res k)) /\
                        nth_error (outs_of a) j = Some (Projection.OutKeys [key])).
  { destruct a as [[[ts r] c] res]. cbn [a_row a_col a_res fst snd] in Hin.
    destruct Hin as [E|[E|[E|[]]]]; injection E as <- <-;
      [exists 1|exists 2|exists 3]; (split; [lia|split; reflexivity]). }
  destruct J as (j & Hj & Hop & Hout).
  pose proof (Proofs.Lossless.group_contents (calls_of (o_compiled o)) (flat_map add_ops (o_kept o))
                (4 * i + j) pi (k_res k) key (rf_calls _ _ _ _ F) (add_ops_no_parse _)
                (add_ops_wf _ (rf_kept_wf _ _ _ _ F))) as G.
  cbv zeta in G. rewrite <- setup_ops_calls in G. rewrite (rf_stream _ _ _ _ F) in G. cbn [fst snd] in G.
  apply G.
  - rewrite (nth_flat_map_blocks add_ops 4 (fun _ => eq_refl) _ _ _ _ Hk Hj). exact Hop.
  - rewrite (nth_flat_map_blocks outs_of 4) with (x := a); auto. now intros [[[? ?] ?] ?].
Qed.

(** two kept results got the same row (column, residue) Key iff the Keys read
    the same in every field of the final projection *)
Theorem key_eq_iff_values fl files o assign pi p k1 k2 :
  run_facts fl files o assign ->
  nth_error (Projection.w_projs (o_world o)) pi = Some p ->
  k1 < length (Projection.p_keys p) -> k2 < length (Projection.p_keys p) ->
  (k1 = k2 <-> forall idx, idx < Projection.nfields p -> Projection.key_get p k1 idx = Projection.key_get p k2 idx).
Proof.
  intros F Hp H1 H2. apply Proofs.Projection.key_eq_iff_gets; auto.
  pose proof (Proofs.Projection.run_ops_spec (setup_ops (o_compiled o) ++ flat_map add_ops (o_kept o))
                Projection.new_world Proofs.Projection.WInv_new) as S.
  rewrite Proofs.Lossless.run_ops_app in S.
  destruct (Projection.run_ops Projection.new_world (setup_ops (o_compiled o))) as [w0 x0] eqn:E0.
  pose proof (rf_stream _ _ _ _ F) as ES. rewrite E0 in ES. cbn [fst] in ES. rewrite ES in S.
  destruct S as [W _]. unfold Proofs.Projection.WInv in W. rewrite Forall_forall in W.
  apply W. eapply nth_error_In; eauto.
Qed.

(** * -ignore (and every individually named key) never splits a .config group *)
(** a flag names [k] as a plain file-configuration key *)
Definition plain_flag_key (k : bytes) : Prop :=
  beq k Projection.key_config = false /\ beq k key_fullname = false /\
  beq k Projection.key_unit = false /\ Projection.is_fullname_key k = false.

Lemma adds_cfg_plain s : Proofs.Exclusion.spec_ok s = true -> plain_flag_key (Projection.ps_key s) ->
  Proofs.Exclusion.adds_cfg s (Projection.ps_key s) = true.
Proof.
  intros Hok (H1 & H2 & H3 & H4).
  unfold Proofs.Exclusion.adds_cfg, Projection.mp_parser.
  unfold Proofs.Exclusion.spec_ok, Projection.mp_proj in Hok.
  destruct (Projection.order_of_spec s) as [o|]; [|discriminate].
  rewrite H1, H2, H3, H4. cbn. now rewrite beq_refl.
Qed.

Lemma calls_of_fields c fields : In fields (cp_all c) ->
  exists call, In call (calls_of c) /\ snd call = map to_spec fields.
Proof.
  unfold cp_all, calls_of. intros [<-|[<-|[<-|[<-|[]]]]];
    [exists (true, map to_spec (cp_table c))|exists (false, map to_spec (cp_row c))
    |exists (false, map to_spec (cp_col c))|exists (false, map to_spec (cp_ignore c))];
    (split; [cbn; auto|reflexivity]).
Qed.

Theorem named_key_excluded c fields p :
  Forall Proofs.Lossless.call_ok (calls_of c) -> In fields (cp_all c) -> In p fields ->
  plain_flag_key (FilterAst.pf_key p) ->
  In (FilterAst.pf_key p) (Projection.pp_cfg (Proofs.Exclusion.parser_after (calls_of c))).
Proof.
  intros Hok Hf Hp Hplain. apply Proofs.Exclusion.mem_In.
  rewrite Proofs.Exclusion.parser_after_specs.
  destruct (Proofs.Exclusion.fold_parser_effect (flat_map Proofs.Exclusion.call_specs (calls_of c)) Projection.new_parser)
    as [H _]. cbv zeta in H. rewrite H. apply orb_true_iff. right. apply existsb_exists.
  exists (to_spec p). split.
  - apply in_flat_map.
    pose proof (calls_of_fields c fields Hf) as Hc.
    destruct Hc as (call & Hcall & Hs). exists call. split; auto.
    unfold Proofs.Exclusion.call_specs. rewrite Forall_forall in Hok. specialize (Hok call Hcall).
    unfold Proofs.Lossless.call_ok in Hok. rewrite (Proofs.LosslessExec.processed_ok _ Hok), Hs.
    now apply in_map.
  - apply (adds_cfg_plain (to_spec p)); auto.
    pose proof (calls_of_fields c fields Hf) as Hc.
    destruct Hc as (call & Hcall & Hs). rewrite Forall_forall in Hok. specialize (Hok call Hcall).
    unfold Proofs.Lossless.call_ok in Hok. rewrite Hs in Hok. rewrite forallb_forall in Hok.
    apply Hok. now apply in_map.
Qed.

(** after the whole run, in EVERY projection (table, row, column, residue), no
    .config group has a sub-field for a file-configuration key that some flag
    names individually - in particular for the keys of -ignore: results that
    differ only in such a key get the same table, row and column Keys unless
    the flag of that projection itself names the key *)
Theorem ignore_never_splits fl files o assign fields p pi pF g j :
  run_facts fl files o assign ->
  In fields (cp_all (o_compiled o)) -> In p fields -> plain_flag_key (FilterAst.pf_key p) ->
  nth_error (Projection.w_projs (o_world o)) pi = Some pF ->
  In j (Projection.group_subs pF g) -> Projection.field_name pF j <> FilterAst.pf_key p.
Proof.
  intros F Hf Hp Hplain HpF Hj Heq.
  pose proof (named_key_excluded _ _ _ (rf_calls _ _ _ _ F) Hf Hp Hplain) as Hin.
  destruct (Proofs.Lossless.after_parsing (calls_of (o_compiled o)) (rf_calls _ _ _ _ F)) as [I0 _].
  cbv zeta in I0. rewrite <- setup_ops_calls in I0.
  destruct (Proofs.Lossless.post_run _ _ (flat_map add_ops (o_kept o)) _ (add_ops_no_parse _)
              (add_ops_wf _ (rf_kept_wf _ _ _ _ F)) I0) as [I1 _].
  rewrite (rf_stream _ _ _ _ F) in I1. cbn [fst] in I1.
  pose proof (Proofs.Lossless.po_clean _ _ _ I1 pF (nth_error_In _ _ HpF) g j Hj) as Hc.
  apply Proofs.Exclusion.mem_In in Hin.
  unfold Projection.field_name in Heq. unfold Proofs.KeyGet.fname in Hc. rewrite Heq in Hc. congruence.
Qed.

(** * order of the lines *)
(** PARTIAL. Two runs whose tuple lists are permutations of each other (e.g.
    result lines reordered in a way that leaves every line's Keys unchanged)
    have, cell for cell, the same multiset of values.  The statement from the
    result RECORDS - permuted records change no cell up to the renaming of Keys
    that first-seen interning and first-seen .config sub-field creation induce -
    is Proofs/PipelinePerm.v (line_perm_records), on the Key-renaming invariant
    of the projection stream in Proofs/ProjectionRename.v.  What is left is the
    step from the TEXT to the records (permuting result lines within one
    configuration scope permutes the records). *)
Theorem line_perm_partial fl files fl' files' o o' assign assign' t r c :
  run_facts fl files o assign -> run_facts fl' files' o' assign' ->
  Permutation (o_tuples o) (o_tuples o') ->
  Permutation (BenchTab.lookup_vals (BenchTab.build (o_tuples o)) t r c)
              (BenchTab.lookup_vals (BenchTab.build (o_tuples o')) t r c).
Proof. intros _ _ H. now apply Proofs.BenchTab.line_perm_cell_invariant. Qed.

End PipelineProofs.
