(** RoundedInteger of Model/Decimal.v is round-half-even of the represented
    number, a set [trunc] flag standing for "a little more than recorded":
        roundedInteger a = sticky_rne (Vr a) (dc_trunc a)
    for a well-formed, trimmed decimal with dp <= 19 (no uint64 overflow). *)
From Coq Require Import ZArith Reals Lia Lra List Bool.
From Flocq Require Import Core.Core.
From Perf Require Import Base.Bytes Model.Decimal Proofs.DecimalBase Proofs.DecimalShift Proofs.RnB64 Proofs.DecimalValue.
Import ListNotations.
Local Open Scope Z_scope.

(** round to nearest; a tie goes up when [sticky], else to the even neighbour *)
Definition sticky_rne (v : R) (sticky : bool) : Z :=
  let i := Zfloor v in
  match Rcompare (v - IZR i) (/ 2) with
  | Lt => i
  | Gt => i + 1
  | Eq => if sticky then i + 1 else if Z.even i then i else i + 1
  end.

(** the same on  I + F / 10^f *)
Definition int_rne (I F f : Z) (sticky : bool) : Z :=
  match 2 * F ?= 10 ^ f with
  | Lt => I
  | Gt => I + 1
  | Eq => if sticky then I + 1 else if Z.even I then I else I + 1
  end.

Lemma sticky_rne_int I F f sticky v : 0 <= f -> 0 <= F < 10 ^ f ->
  v = (IZR I + IZR F * bpow radix10 (- f))%R -> sticky_rne v sticky = int_rne I F f sticky.
Proof.
  intros Hf HF ->. unfold sticky_rne, int_rne.
  pose proof (bpow_gt_0 radix10 f) as Hp. rewrite bpow_opp.
  assert (HFr : (0 <= IZR F * / bpow radix10 f < 1)%R).
  { rewrite <- IZR_pow10 in * by lia. split.
    - apply Rmult_le_pos; [apply IZR_le; lia|]. left. now apply Rinv_0_lt_compat.
    - apply Rmult_lt_reg_r with (IZR (10 ^ f)); [assumption|]. rewrite Rmult_assoc, Rinv_l, Rmult_1_r, Rmult_1_l by lra.
      apply IZR_lt. lia. }
  assert (Hfl : Zfloor (IZR I + IZR F * / bpow radix10 f) = I).
  { apply Zfloor_imp. rewrite plus_IZR. lra. }
  rewrite Hfl. replace (IZR I + IZR F * / bpow radix10 f - IZR I)%R with (IZR F * / bpow radix10 f)%R by ring.
  rewrite <- IZR_pow10 in * by lia. set (T := 10 ^ f) in *.
  assert (HT : (0 < IZR T)%R) by assumption.
  destruct (Z.compare_spec (2 * F) T) as [E|L|G].
  - rewrite Rcompare_Eq; [reflexivity|]. apply (f_equal IZR) in E. rewrite mult_IZR in E. field_simplify_eq; lra.
  - rewrite Rcompare_Lt; [reflexivity|]. apply IZR_lt in L. rewrite mult_IZR in L.
    apply Rmult_lt_reg_r with (IZR T); [assumption|]. rewrite Rmult_assoc, Rinv_l, Rmult_1_r by lra. lra.
  - rewrite Rcompare_Gt; [reflexivity|]. apply IZR_lt in G. rewrite mult_IZR in G.
    apply Rmult_lt_reg_r with (IZR T); [assumption|]. rewrite Rmult_assoc, Rinv_l, Rmult_1_r by lra. lra.
Qed.

(** ** the loops of RoundedInteger *)
Lemma ri_digits_all dp : forall l i n, digits_ok l -> 0 <= n -> i + zlen l <= dp ->
  n * 10 ^ zlen l + dv l < 2 ^ 64 ->
  ri_digits l i dp n = (n * 10 ^ zlen l + dv l, i + zlen l).
Proof.
  induction l as [|c l IH]; intros i n Hl Hn Hi Hb.
  - cbn [ri_digits]. rewrite zlen_nil, dv_nil, Z.pow_0_r. f_equal; lia.
  - apply digits_ok_cons in Hl as [Hc Hl]. rewrite zlen_cons in *. pose proof (zlen_nonneg l).
    pose proof (dv_bound l Hl). pose proof (pow10_gt0 (zlen l) ltac:(lia)).
    rewrite dv_cons in *. rewrite Z.pow_add_r, Z.pow_1_r in * by lia.
    cbn [ri_digits]. destruct (Z.ltb_spec i dp); [|lia].
    rewrite w64_small by nia. rewrite IH by (try assumption; nia). f_equal; lia.
Qed.

Lemma ri_digits_split dp l2 : forall l1 i n, digits_ok l1 -> 0 <= n -> i + zlen l1 = dp ->
  n * 10 ^ zlen l1 + dv l1 < 2 ^ 64 ->
  ri_digits (l1 ++ l2) i dp n = (n * 10 ^ zlen l1 + dv l1, dp).
Proof.
  induction l1 as [|c l IH]; intros i n Hl Hn Hi Hb.
  - rewrite zlen_nil in *. cbn [app]. rewrite dv_nil, Z.pow_0_r.
    destruct l2 as [|x l2]; cbn [ri_digits]; [f_equal; lia|].
    destruct (Z.ltb_spec i dp); [lia|]. f_equal; lia.
  - apply digits_ok_cons in Hl as [Hc Hl]. rewrite zlen_cons in *. pose proof (zlen_nonneg l).
    pose proof (dv_bound l Hl). pose proof (pow10_gt0 (zlen l) ltac:(lia)).
    rewrite dv_cons in *. rewrite Z.pow_add_r, Z.pow_1_r in * by lia.
    cbn [app ri_digits]. destruct (Z.ltb_spec i dp); [|lia].
    rewrite w64_small by nia. rewrite IH by (try assumption; nia). f_equal; lia.
Qed.

Lemma ri_zeros_spec dp : forall fuel i n, 0 <= n -> 0 <= dp - i <= Z.of_nat fuel ->
  n * 10 ^ (dp - i) < 2 ^ 64 -> ri_zeros fuel i dp n = n * 10 ^ (dp - i).
Proof.
  induction fuel as [|f IH]; intros i n Hn Hi Hb.
  - assert (dp - i = 0) by lia. cbn [ri_zeros]. rewrite H, Z.pow_0_r. lia.
  - cbn [ri_zeros]. destruct (Z.ltb_spec i dp) as [Hlt|Hge].
    + replace (dp - i) with ((dp - (i + 1)) + 1) in * by lia.
      rewrite Z.pow_add_r, Z.pow_1_r in * by lia.
      pose proof (pow10_gt0 (dp - (i + 1)) ltac:(lia)).
      rewrite w64_small by nia. rewrite IH by (try lia; nia). ring.
    + assert (dp - i = 0) by lia. rewrite H, Z.pow_0_r. lia.
Qed.

Lemma digit_at_app l1 l2 : digit_at (l1 ++ l2) (zlen l1) = nth 0 l2 0.
Proof.
  unfold digit_at, zlen. rewrite Nat2Z.id. rewrite app_nth2 by lia. now rewrite Nat.sub_diag.
Qed.

Lemma digit_at_last l1 l2 : l1 <> [] -> digit_at (l1 ++ l2) (zlen l1 - 1) = last l1 0.
Proof.
  intros Hne. destruct (exists_last Hne) as (l & x & ->). rewrite last_last.
  rewrite zlen_app. change (zlen [x]) with 1. replace (zlen l + 1 - 1) with (zlen l) by lia.
  rewrite <- app_assoc. now rewrite digit_at_app.
Qed.

Lemma last_app_nonnil (l1 l2 : list Z) d : l2 <> [] -> last (l1 ++ l2) d = last l2 d.
Proof.
  intros Hne. induction l1 as [|x l1 IH]; [reflexivity|].
  cbn [app]. rewrite <- IH. cbn [last]. destruct (l1 ++ l2) eqn:Ea; [|reflexivity].
  apply app_eq_nil in Ea as [_ ->]. contradiction.
Qed.

Lemma dv_last_parity l x : Z.even (dv (l ++ [x])) = Z.even x.
Proof.
  rewrite dv_snoc, Z.even_add, Z.even_mul. change (Z.even 10) with true. rewrite orb_true_r.
  destruct (Z.even x); reflexivity.
Qed.

Lemma split_at (l : list Z) n : 0 <= n <= zlen l -> exists l1 l2, l = l1 ++ l2 /\ zlen l1 = n.
Proof.
  intros H. exists (firstn (Z.to_nat n) l), (skipn (Z.to_nat n) l). split; [symmetry; apply firstn_skipn|].
  unfold zlen in *. rewrite firstn_length. lia.
Qed.

(** ** RoundedInteger, on integers *)
Theorem roundedInteger_int a : wf a -> trimmed a -> dc_dp a <= 19 ->
  exists I F f, 0 <= f /\ 0 <= I /\ 0 <= F < 10 ^ f /\
    ((zlen (dc_d a) <= dc_dp a /\ I = dv (dc_d a) * 10 ^ (dc_dp a - zlen (dc_d a)) /\ F = 0 /\ f = 0) \/
     (dc_dp a < zlen (dc_d a) /\ f = zlen (dc_d a) - dc_dp a /\ dv (dc_d a) = I * 10 ^ f + F)) /\
    roundedInteger a = int_rne I F f (dc_trunc a).
Proof.
  destruct a as [l dp ng tr]. unfold wf, trimmed, roundedInteger, shouldRoundUp, dc_nd. cbn [dc_d dc_dp dc_trunc dc_neg].
  intros (Hd & Hn & c & r & E & Hc) Htrim Hdp.
  set (nd := zlen l) in *.
  assert (Hnd : 0 < nd) by (unfold nd; rewrite E, zlen_cons; pose proof (zlen_nonneg r); lia).
  pose proof (dv_bound l Hd) as HD. fold nd in HD.
  assert (H1019 : 10 ^ 19 < 2 ^ 64) by (vm_compute; reflexivity).
  change (Z.of_nat (length l)) with nd. destruct (Z.ltb_spec 20 dp); [lia|].
  destruct (Z_le_gt_dec nd dp) as [Hall|Hpart].
  - (* every digit is before the decimal point *)
    exists (dv l * 10 ^ (dp - nd)), 0, 0.
    assert (Hpow : dv l * 10 ^ (dp - nd) < 10 ^ 19).
    { apply Z.lt_le_trans with (10 ^ nd * 10 ^ (dp - nd)).
      - apply Z.mul_lt_mono_pos_r; [apply pow10_gt0; lia|lia].
      - rewrite <- Z.pow_add_r by lia. apply Z.pow_le_mono_r; lia. }
    pose proof (pow10_gt0 (dp - nd) ltac:(lia)).
    split; [lia|]. split; [nia|]. split; [rewrite Z.pow_0_r; lia|]. split; [left; repeat split; lia|].
    rewrite (ri_digits_all dp l 0 0 Hd ltac:(lia) ltac:(fold nd; lia) ltac:(fold nd; lia)). fold nd.
    rewrite Z.mul_0_l, !Z.add_0_l.
    rewrite ri_zeros_spec by (try lia; change (Z.of_nat 20) with 20; lia).
    destruct (Z.ltb_spec dp 0); [lia|]. destruct (Z.leb_spec nd dp); [|lia]. cbn [orb].
    unfold int_rne. rewrite Z.pow_0_r. reflexivity.
  - destruct (Z_le_gt_dec dp 0) as [Hneg|Hpos].
    + (* no digit is before the decimal point *)
      exists 0, (dv l), (nd - dp).
      assert (Hpw : 10 ^ nd <= 10 ^ (nd - dp)) by (apply Z.pow_le_mono_r; lia).
      split; [lia|]. split; [lia|]. split; [lia|]. split; [right; repeat split; lia|].
      assert (Hri : ri_digits l 0 dp 0 = (0, 0)).
      { rewrite E. cbn [ri_digits]. destruct (Z.ltb_spec 0 dp); [lia|reflexivity]. }
      rewrite Hri. assert (Hrz : ri_zeros 20 0 dp 0 = 0) by (cbn [ri_zeros]; destruct (Z.ltb_spec 0 dp); [lia|reflexivity]).
      rewrite Hrz.
      destruct (Z.ltb_spec dp 0) as [Hlt|Hge]; cbn [orb].
      * (* dp < 0: below 0.1 *)
        unfold int_rne.
        assert (2 * dv l < 10 ^ (nd - dp)).
        { replace (nd - dp) with (nd + (- dp)) by lia. rewrite Z.pow_add_r by lia.
          assert (10 <= 10 ^ (- dp)) by (change 10 with (10 ^ 1) at 1; apply Z.pow_le_mono_r; lia). nia. }
        destruct (Z.compare_spec (2 * dv l) (10 ^ (nd - dp))); try reflexivity; lia.
      * assert (dp = 0) by lia. destruct (Z.leb_spec nd dp); [lia|].
        replace (nd - dp) with nd by lia. subst dp. unfold digit_at. change (Z.to_nat 0) with O.
        unfold nd in *. subst l. cbn [nth]. apply digits_ok_cons in Hd as [Hc9 Hr].
        rewrite dv_cons in *. rewrite zlen_cons in *. pose proof (zlen_nonneg r).
        pose proof (dv_bound r Hr). unfold int_rne. rewrite Z.pow_add_r, Z.pow_1_r by lia.
        pose proof (pow10_gt0 (zlen r) ltac:(lia)). set (T := 10 ^ zlen r) in *.
        rewrite Z.add_0_l. change (w64 1) with 1.
        destruct (Z.eqb_spec c 5) as [->|Hc5]; cbn [andb].
        -- destruct (Z.eqb_spec 1 (zlen r + 1)) as [E1|N1].
           ++ assert (r = []) by (apply zlen_zero; lia). subst r. unfold T. rewrite zlen_nil, Z.pow_0_r, dv_nil.
              cbn [Z.ltb andb Z.compare Z.mul Z.add Pos.mul Pos.compare Pos.compare_cont Z.even].
              destruct tr; reflexivity.
           ++ (* 5 followed by more digits, the last one non-zero: above one half *)
              assert (0 < dv r).
              { apply dv_pos_last; [assumption|intros ->; rewrite zlen_nil in *; lia|].
                destruct r; [rewrite zlen_nil in *; lia|exact Htrim]. }
              destruct (Z.leb_spec 5 5); [|lia].
              destruct (Z.compare_spec (2 * (5 * T + dv r)) (T * 10)); try reflexivity; lia.
        -- destruct (Z.leb_spec 5 c).
           ++ destruct (Z.compare_spec (2 * (c * T + dv r)) (T * 10)); try reflexivity; nia.
           ++ destruct (Z.compare_spec (2 * (c * T + dv r)) (T * 10)); try reflexivity; nia.
    + (* the decimal point is inside the digits *)
      destruct (split_at l dp ltac:(fold nd; lia)) as (l1 & l2 & El & Hl1).
      assert (Hd12 : digits_ok l1 /\ digits_ok l2) by (apply digits_ok_app; now rewrite <- El).
      destruct Hd12 as [Hd1 Hd2].
      assert (Hl2 : zlen l2 = nd - dp) by (unfold nd; rewrite El, zlen_app; lia).
      exists (dv l1), (dv l2), (nd - dp).
      pose proof (dv_bound l1 Hd1) as Hb1. pose proof (dv_bound l2 Hd2) as Hb2. rewrite Hl1 in Hb1. rewrite Hl2 in Hb2.
      split; [lia|]. split; [lia|]. split; [lia|].
      split; [right; split; [lia|split; [reflexivity|]]; rewrite El, dv_app, Hl2; reflexivity|].
      assert (H19 : 10 ^ dp <= 10 ^ 19) by (apply Z.pow_le_mono_r; lia).
      rewrite El. rewrite (ri_digits_split dp l2 l1 0 0 Hd1 ltac:(lia) ltac:(lia) ltac:(lia)).
      rewrite Z.mul_0_l, Z.add_0_l.
      rewrite ri_zeros_spec by (try lia; rewrite Z.sub_diag, Z.pow_0_r; lia).
      rewrite Z.sub_diag, Z.pow_0_r, Z.mul_1_r.
      rewrite w64_small by lia.
      rewrite <- El. fold nd.
      destruct (Z.ltb_spec dp 0); [lia|]. destruct (Z.leb_spec nd dp); [lia|]. cbn [orb].
      rewrite El.
      assert (Hda : digit_at (l1 ++ l2) dp = nth 0 l2 0) by (rewrite <- Hl1; apply digit_at_app).
      assert (Hdl : l1 <> [] -> digit_at (l1 ++ l2) (dp - 1) = last l1 0) by (intros; rewrite <- Hl1; now apply digit_at_last).
      rewrite Hda.
      destruct l2 as [|c2 r2]; [rewrite zlen_nil in Hl2; lia|]. cbn [nth].
      apply digits_ok_cons in Hd2 as [Hc2 Hr2]. rewrite dv_cons in *. rewrite zlen_cons in Hl2.
      pose proof (zlen_nonneg r2). pose proof (dv_bound r2 Hr2).
      replace (nd - dp) with (zlen r2 + 1) by lia. unfold int_rne. rewrite Z.pow_add_r, Z.pow_1_r by lia.
      pose proof (pow10_gt0 (zlen r2) ltac:(lia)). set (T := 10 ^ zlen r2) in *.
      destruct (Z.eqb_spec c2 5) as [->|Hc5]; cbn [andb].
      * destruct (Z.eqb_spec (dp + 1) nd) as [E1|N1].
        -- assert (r2 = []) by (apply zlen_zero; lia). subst r2. unfold T. rewrite zlen_nil, Z.pow_0_r, dv_nil.
           replace (2 * (5 * 1 + 0) ?= 1 * 10) with Eq by reflexivity.
           destruct tr; [reflexivity|].
           destruct (Z.ltb_spec 0 dp); [|lia]. cbn [andb].
           assert (Hne : l1 <> []) by (intros ->; rewrite zlen_nil in *; lia).
           rewrite Hdl by assumption.
           destruct (exists_last Hne) as (l0 & x & ->). rewrite last_last, dv_last_parity.
           assert (Hx : 0 <= x <= 9).
           { apply digits_ok_app in Hd1 as [_ Hx]. apply digits_ok_cons in Hx as [Hx _]. exact Hx. }
           rewrite (Zmod_even x). destruct (Z.even x); reflexivity.
        -- assert (0 < dv r2).
           { apply dv_pos_last; [assumption|intros ->; rewrite zlen_nil in *; lia|].
             rewrite El in Htrim. rewrite last_app_nonnil in Htrim by discriminate.
             destruct r2; [rewrite zlen_nil in *; lia|exact Htrim]. }
           destruct (Z.leb_spec 5 5); [|lia].
           destruct (Z.compare_spec (2 * (5 * T + dv r2)) (T * 10)); try reflexivity; lia.
      * destruct (Z.leb_spec 5 c2).
        -- destruct (Z.compare_spec (2 * (c2 * T + dv r2)) (T * 10)); try reflexivity; nia.
        -- destruct (Z.compare_spec (2 * (c2 * T + dv r2)) (T * 10)); try reflexivity; nia.
Qed.

(** ** RoundedInteger is round-half-even of the represented number, with the sticky rule *)
Theorem roundedInteger_correct a : wf a -> trimmed a -> dc_dp a <= 19 ->
  roundedInteger a = sticky_rne (Vr a) (dc_trunc a).
Proof.
  intros Hwf Htrim Hdp.
  destruct (roundedInteger_int a Hwf Htrim Hdp) as (I & F & f & Hf & HI & HF & Hcase & E).
  rewrite E. symmetry. apply sticky_rne_int; [assumption|assumption|]. unfold Vr.
  destruct Hcase as [(Hle & -> & -> & ->)|(Hlt & -> & HD)].
  - rewrite mult_IZR, IZR_pow10 by lia. rewrite Rmult_0_l, Rplus_0_r. reflexivity.
  - rewrite HD, plus_IZR, mult_IZR, IZR_pow10 by lia.
    replace (dc_dp a - zlen (dc_d a)) with (- (zlen (dc_d a) - dc_dp a)) by lia.
    rewrite bpow_opp. pose proof (bpow_gt_0 radix10 (zlen (dc_d a) - dc_dp a)). field. lra.
Qed.

(** what [sticky_rne] means for a number x that the decimal approximates from below
    without crossing an integer or a half-integer: the nearest-even integer of x *)
Lemma sticky_rne_nearest v sticky x :
  (v <= x)%R -> (sticky = false -> x = v) -> (sticky = true -> (v < x)%R) ->
  (forall h : Z, (v < IZR h / 2)%R -> (x < IZR h / 2)%R) ->
  sticky_rne v sticky = ZnearestE x.
Proof.
  intros Hle Hex Hst Hgrid. unfold sticky_rne.
  set (i := Zfloor v). pose proof (Zfloor_lb v) as Hlb. pose proof (Zfloor_ub v) as Hub. fold i in Hlb, Hub.
  assert (Hx1 : (x < IZR i + 1)%R).
  { specialize (Hgrid (2 * (i + 1))). rewrite mult_IZR, plus_IZR in Hgrid. lra. }
  assert (Hfx : Zfloor x = i) by (apply Zfloor_imp; rewrite plus_IZR; lra).
  destruct (Rcompare_spec (v - IZR i) (/ 2)) as [Hlt|Heq|Hgt].
  - (* below the midpoint: so is x *)
    assert (Hxm : (x < IZR i + / 2)%R).
    { specialize (Hgrid (2 * i + 1)). rewrite plus_IZR, mult_IZR in Hgrid. lra. }
    apply eq_sym, Znearest_imp. rewrite Rabs_pos_eq by lra. lra.
  - destruct sticky.
    + specialize (Hst eq_refl). apply eq_sym, Znearest_imp. rewrite plus_IZR, Rabs_left by lra. lra.
    + rewrite (Hex eq_refl). unfold ZnearestE, Znearest. fold i. rewrite Rcompare_Eq by lra.
      rewrite Zceil_floor_neq; [fold i; destruct (Z.even i); reflexivity|]. fold i. lra.
  - apply eq_sym, Znearest_imp. rewrite plus_IZR, Rabs_left by lra. lra.
Qed.
