(** Format as a whole: whatever permutation the span sort produced, every cell
    fits its span in the computed offsets, and every line is the row's printed
    cells placed at those offsets. *)
From Perf Require Import Base.Bytes Model.Runes Model.TextTab
     Proofs.Runes Proofs.TextTabWidths Proofs.TextTabEmit.
Local Open Scope Z_scope.

(** ** the oracle permutation reaches every cell *)
Lemma pick_spec cells : forall perm ordered,
  pick cells perm = Some ordered ->
  (forall c, In c ordered -> In c cells) /\
  (forall i c, In i perm -> nth_error cells i = Some c -> In c ordered).
Proof.
  induction perm as [|i r IH]; intros ordered H; cbn [pick] in H.
  - inversion H; subst. split; [intros c []|intros i c []].
  - destruct (nth_error cells i) as [ci|] eqn:Ei; [|discriminate].
    destruct (pick cells r) as [cs|] eqn:Er; [|discriminate].
    inversion H; subst. destruct (IH cs eq_refl) as [H1 H2]. split.
    + intros c [<-|Hc]; [eapply nth_error_In; eassumption|apply H1; exact Hc].
    + intros j c [<-|Hj] Hn; [left; congruence|right; eapply H2; eassumption].
Qed.

Lemma perm_ok_covers n perm i : perm_ok n perm = true -> (i < n)%nat -> In i perm.
Proof.
  unfold perm_ok. intros H Hi. apply andb_true_iff in H as [_ H].
  rewrite forallb_forall in H. specialize (H i). rewrite in_seq in H.
  specialize (H ltac:(lia)). apply existsb_exists in H as [j [Hj E]].
  apply Nat.eqb_eq in E. subst. exact Hj.
Qed.

(** ** what [format] returns *)
Definition spans_pos (cells : list cell) : Prop := forall c, In c cells -> (1 <= c_span c)%nat.

Lemma format_out t perm l :
  format t perm = OOut l ->
  exists ordered,
    (forall c, In c (t_cells t) -> (c_col c + c_span c <= t_cols t)%nat) /\
    (forall c, In c ordered <-> In c (t_cells t)) /\
    l_lm l = lmargins (t_cols t) (t_cells t) /\
    l_ws l = widths (l_lm l) (t_shrink t) (t_cols t) ordered /\
    l_offs l = offsets (l_ws l) /\
    l_lines l = if is_nilb (t_cells t) then []
                else map (fun r => emit_row (l_offs l) (l_lm l) (row_cells (t_cells t) r))
                         (seq 0 (S (last_row (t_cells t)))).
Proof.
  unfold format. intros H.
  destruct (forallb _ (t_cells t)) eqn:Ewf; cbn [negb] in H; [|discriminate].
  destruct (perm_ok (length (t_cells t)) perm) eqn:Ep; cbn [negb] in H; [|discriminate].
  destruct (pick (t_cells t) perm) as [ordered|] eqn:Epick; [|discriminate].
  destruct (nondecr (map c_span ordered)); cbn [negb] in H; [|discriminate].
  inversion H; subst; clear H. cbn [l_lm l_ws l_offs l_lines].
  exists ordered. destruct (pick_spec _ _ _ Epick) as [P1 P2].
  repeat split; try reflexivity.
  - intros c Hc. rewrite forallb_forall in Ewf. specialize (Ewf c Hc).
    apply andb_true_iff in Ewf as [_ E]. apply Nat.leb_le in E. exact E.
  - apply P1.
  - intros Hc. apply In_nth_error in Hc as [i Hi].
    eapply P2; [|exact Hi]. eapply perm_ok_covers; [exact Ep|].
    apply nth_error_Some. congruence.
Qed.

(** ** widths_satisfy_cells, on the final offsets *)
Theorem format_cells_fit t perm l :
  format t perm = OOut l -> spans_pos (t_cells t) ->
  forall c, In c (t_cells t) -> cell_fits (l_offs l) (l_lm l) c.
Proof.
  intros H Hsp c Hc. destruct (format_out t perm l H) as [ordered [Hb [Hin [Elm [Ews [Eoffs _]]]]]].
  destruct (lmargins_spec (t_cols t) (t_cells t)) as [_ [_ Hm]].
  pose proof (Hb c Hc) as Hcb. pose proof (Hsp c Hc) as Hs.
  split.
  - rewrite Elm. apply Hm; [exact Hc|lia].
  - rewrite Eoffs. unfold offsets. rewrite offs_diff by (rewrite Ews, widths_length; exact Hcb).
    rewrite Ews. pose proof (widths_satisfy (l_lm l) (t_shrink t) (t_cols t) ordered c) as W.
    unfold need in W. apply W; [|apply Hin; exact Hc].
    intros x Hx. apply Hin in Hx. split; [apply Hsp; exact Hx|apply Hb; exact Hx].
Qed.

Theorem format_offsets_monotone t perm l :
  format t perm = OOut l ->
  forall i j, (i <= j)%nat -> (j <= t_cols t)%nat -> getz (l_offs l) i <= getz (l_offs l) j.
Proof.
  intros H i j Hij Hj. destruct (format_out t perm l H) as [ordered [_ [_ [_ [Ews [Eoffs _]]]]]].
  rewrite Eoffs. unfold offsets. apply offs_mono; [|exact Hij|rewrite Ews, widths_length; exact Hj].
  intros k. rewrite Ews. apply widths_nonneg.
Qed.

(** ** rows *)
Lemma ins_col_in x a l : In x (ins_col a l) <-> x = a \/ In x l.
Proof.
  induction l as [|y l IH]; cbn [ins_col].
  - cbn. intuition.
  - destruct (c_col a <? c_col y)%nat; cbn [In]; [intuition|]. rewrite IH. intuition.
Qed.

Lemma sort_col_in x l : In x (sort_col l) <-> In x l.
Proof.
  unfold sort_col. induction l as [|a l IH]; cbn [fold_right]; [tauto|].
  rewrite ins_col_in, IH. cbn [In]. intuition.
Qed.

Lemma row_cells_in cells r c : In c (row_cells cells r) -> In c cells /\ printed c = true /\ c_row c = r.
Proof.
  unfold row_cells. rewrite sort_col_in, filter_In, andb_true_iff, Nat.eqb_eq. tauto.
Qed.

(** the cells of a row do not overlap: each starts at or after the end of the previous span *)
Fixpoint disjoint_from (lo : nat) (cs : list cell) : Prop :=
  match cs with
  | [] => True
  | c :: r => (lo <= c_col c)%nat /\ disjoint_from (c_col c + c_span c) r
  end.
Definition rows_disjoint (cells : list cell) : Prop := forall r, disjoint_from 0 (row_cells cells r).

Lemma chain_of_disjoint offs lm ncols :
  (forall i j, (i <= j)%nat -> (j <= ncols)%nat -> getz offs i <= getz offs j) ->
  forall cs lo,
  (forall c, In c cs -> cell_fits offs lm c /\ (c_col c + c_span c <= ncols)%nat) ->
  disjoint_from lo cs -> chain offs lm (getz offs lo) cs.
Proof.
  intros Hmono. induction cs as [|c r IH]; intros lo Hall Hd; cbn [chain]; [exact I|].
  destruct Hd as [H1 H2]. destruct (Hall c (or_introl eq_refl)) as [Hf Hb].
  repeat split; [apply Hmono; lia|apply Hf|apply Hf|].
  apply IH; [|exact H2]. intros x Hx. apply Hall. right. exact Hx.
Qed.

Theorem format_row_chain t perm l :
  format t perm = OOut l -> spans_pos (t_cells t) -> rows_disjoint (t_cells t) ->
  forall r, chain (l_offs l) (l_lm l) 0 (row_cells (t_cells t) r).
Proof.
  intros H Hsp Hrd r.
  destruct (format_out t perm l H) as [ordered [Hb [_ [_ [_ [Eoffs _]]]]]].
  replace 0 with (getz (l_offs l) 0) by (rewrite Eoffs; apply getz_offs_0).
  apply (chain_of_disjoint _ _ (t_cols t)).
  - apply (format_offsets_monotone t perm l H).
  - intros c Hc. apply row_cells_in in Hc as [Hc _]. split; [|apply Hb; exact Hc].
    eapply format_cells_fit; eassumption.
  - apply Hrd.
Qed.

Theorem format_line t perm l r :
  format t perm = OOut l -> t_cells t <> [] -> (r <= last_row (t_cells t))%nat ->
  nth_error (l_lines l) r = Some (emit_row (l_offs l) (l_lm l) (row_cells (t_cells t) r)).
Proof.
  intros H Hne Hr. destruct (format_out t perm l H) as [ordered [_ [_ [_ [_ [_ El]]]]]].
  rewrite El. destruct (t_cells t) as [|c0 cs] eqn:Ec; [congruence|]. cbn [is_nilb].
  rewrite nth_error_map. rewrite (nth_error_nth' _ 0%nat) by (rewrite seq_length; lia).
  rewrite seq_nth by lia. reflexivity.
Qed.
