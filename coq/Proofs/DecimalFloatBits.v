(** floatBits of Model/Decimal.v returns the correctly rounded binary64 of the number
    the decimal stands for — also when digits are dropped at the 800-digit limit,
    in the scanner ([trunc] on entry) or inside a shift. *)
From Coq Require Import ZArith Reals Lia Lra List Bool.
From Flocq Require Import Core.Core IEEE754.BinarySingleNaN.
From Perf Require Import Base.Bytes Base.B64 Base.DecSpec Model.Atoi Model.Atof Model.Decimal
                         Proofs.DecimalBase Proofs.DecimalShift Proofs.RnB64 Proofs.AtofExact
                         Proofs.DecimalValue Proofs.DecimalRound Proofs.DecimalInv Proofs.DecimalPhases
                         Proofs.DecimalBits.
Import ListNotations.
Local Open Scope Z_scope.

Local Instance Hprec53f : FLX.Prec_gt_0 53 := eq_refl _.
Local Instance Hmax1024f : Prec_lt_emax 53 1024 := eq_refl _.

(** the number a decimal stands for: with [trunc] set, a little more than the digits
    say (the specification's convention: one more digit 1) *)
Definition true_value (a : decimal) : R :=
  if dc_trunc a then (Vr a + bpow radix10 (dc_dp a - zlen (dc_d a) - 1))%R else Vr a.
Definition signed (neg : bool) (x : R) : R := if neg then (- x)%R else x.

(** ** the invariant holds initially *)
Lemma inv_init a B : wf a -> (dc_trunc a = true -> zlen (dc_d a) = 800) ->
  dc_dp a <= 800 -> B + 1 + dc_dp a <= 800 -> Inv a (true_value a) B 1.
Proof.
  intros Hwf Htr Hdp HB. pose proof (wf_Vr_pos a Hwf) as HVp. pose proof (wf_Vr_bounds a Hwf) as [HVl _].
  unfold true_value. destruct (dc_trunc a) eqn:Et.
  - specialize (Htr eq_refl). rewrite Htr.
    set (t := bpow radix10 (dc_dp a - 800 - 1)). assert (Ht : (0 < t)%R) by apply bpow_gt_0.
    set (u := bpow radix10 (dc_dp a - 800)). assert (Hu : (0 < u)%R) by apply bpow_gt_0.
    assert (Htu : (t < u)%R) by (apply bpow_lt; lia).
    constructor.
    + assumption.
    + lra.
    + intros; congruence.
    + intros _. lra.
    + intros c Hc Hlt. destruct (wf_on_lattice a Hwf) as [M HM]. fold u in HM.
      destruct (grid_on_lattice B (dc_dp a) c Hc Hdp HB) as [Mc HMc]. fold u in HMc.
      rewrite HM, HMc in Hlt. assert (IZR M < IZR Mc)%R by nra. apply lt_IZR in H.
      assert (IZR (M + 1) <= IZR Mc)%R by (apply IZR_le; lia). rewrite plus_IZR in H0.
      rewrite HM, HMc. nra.
    + replace (Vr a + t - Vr a)%R with t by ring. rewrite Rmult_1_l.
      apply Rle_trans with (bpow radix10 (-798) * bpow radix10 (dc_dp a - 1))%R.
      * unfold t. rewrite <- bpow_plus. apply bpow_le. lia.
      * apply Rmult_le_compat_l; [apply bpow_ge_0|assumption].
  - constructor.
    + assumption.
    + lra.
    + reflexivity.
    + intros; congruence.
    + intros; assumption.
    + pose proof (bpow_gt_0 radix10 (-798)). nra.
Qed.

(** ** the part of floatBits after the two scaling loops *)
Definition fb_step3 (a : decimal) (exp : Z) : option (decimal * Z) :=
  if exp <? flt_bias + 1 then
    let n := flt_bias + 1 - exp in
    match shift a (- n) with Some a' => Some (a', exp + n) | None => None end
  else Some (a, exp).

Definition fb_finish (neg : bool) (a : decimal) (exp : Z) : option (Z * bool) :=
  if Z.shiftl 1 flt_expbits - 1 <=? exp - flt_bias then Some (fb_overflow neg)
  else
    match shift a (1 + flt_mantbits) with
    | None => None
    | Some a =>
        let mant := roundedInteger a in
        let '(mant, exp, ovf) :=
          if mant =? Z.shiftl 2 flt_mantbits then
            (Z.shiftr mant 1, exp + 1, Z.shiftl 1 flt_expbits - 1 <=? exp + 1 - flt_bias)
          else (mant, exp, false) in
        if ovf then Some (fb_overflow neg)
        else
          let exp := if Z.land mant (Z.shiftl 1 flt_mantbits) =? 0 then flt_bias else exp in
          Some (fb_assemble mant exp neg, false)
    end.

Definition fb_tail (neg : bool) (a : decimal) (exp : Z) : option (Z * bool) :=
  match fb_step3 a (exp - 1) with
  | None => None
  | Some (a, exp) => fb_finish neg a exp
  end.

Lemma floatBits_unfold a : floatBits a =
  if dc_nd a =? 0 then Some (fb_assemble 0 flt_bias (dc_neg a), false)
  else if 310 <? dc_dp a then Some (fb_overflow (dc_neg a))
  else if dc_dp a <? -330 then Some (fb_assemble 0 flt_bias (dc_neg a), false)
  else match fb_down fb_fuel a 0 with
       | None => None
       | Some (a1, exp1) => match fb_up fb_fuel a1 exp1 with
                            | None => None
                            | Some (a2, exp2) => fb_tail (dc_neg a) a2 exp2
                            end
       end.
Proof. reflexivity. Qed.

(** ** rounding a positive number whose scaled mantissa is known *)
Lemma rnd64_of_mantissa x ce M : cexp radix2 fexp64 x = ce -> ZnearestE (x * bpow radix2 (- ce)) = M ->
  rnd64 x = (IZR M * bpow radix2 ce)%R.
Proof.
  intros Hc HM. unfold rnd64, Generic_fmt.round, scaled_mantissa, F2R. cbn [Fnum Fexp]. now rewrite Hc, HM.
Qed.

Lemma cexp_normal x e : -1022 <= e -> (bpow radix2 e <= x < bpow radix2 (e + 1))%R -> cexp radix2 fexp64 x = e - 52.
Proof.
  intros He Hx. unfold cexp. rewrite (mag_unique_pos radix2 x (e + 1)).
  - unfold fexp64, FLT_exp. lia.
  - now replace (e + 1 - 1) with e by lia.
Qed.

Lemma cexp_subnormal x : (0 < x < bpow radix2 (-1021))%R -> cexp radix2 fexp64 x = -1074.
Proof.
  intros Hx. unfold cexp. pose proof (mag_le_bpow radix2 x (-1021) ltac:(lra) ltac:(rewrite Rabs_pos_eq; lra)).
  unfold fexp64, FLT_exp. lia.
Qed.

Lemma rnd64_signed neg x : rnd64 (signed neg x) = signed neg (rnd64 x).
Proof. destruct neg; [apply rnd64_opp|reflexivity]. Qed.

Lemma rounds_to_inf neg x : (bpow radix2 1024 <= rnd64 x)%R -> rounds_to neg (signed neg x) (S754_infinity neg).
Proof.
  intros H. split; [reflexivity|]. rewrite rnd64_signed.
  assert (Rabs (signed neg (rnd64 x)) = rnd64 x).
  { pose proof (bpow_gt_0 radix2 1024). destruct neg; cbn [signed]; [rewrite Rabs_Ropp|]; apply Rabs_pos_eq; lra. }
  rewrite H0. now rewrite Rlt_bool_false.
Qed.

Lemma rounds_to_finite neg x z M E : rnd64 x = (IZR M * bpow radix2 (E - 52))%R -> 0 <= M < 2 ^ 53 -> E <= 1023 ->
  valid_binary 53 1024 z = true -> is_finite_SF z = true -> sign_SF z = neg ->
  SF2R radix2 z = ((if neg then -1 else 1) * IZR M * bpow radix2 (E - 52))%R ->
  rounds_to neg (signed neg x) z.
Proof.
  intros Hr HM HE Hv Hf Hs HR. split; [assumption|]. rewrite rnd64_signed, Hr.
  pose proof (bpow_gt_0 radix2 (E - 52)) as Hp.
  assert (HM0 : (0 <= IZR M)%R) by (apply IZR_le; lia).
  assert (Habs : Rabs (signed neg (IZR M * bpow radix2 (E - 52))) = (IZR M * bpow radix2 (E - 52))%R).
  { assert (0 <= IZR M * bpow radix2 (E - 52))%R by (apply Rmult_le_pos; lra).
    destruct neg; cbn [signed]; [rewrite Rabs_Ropp|]; now apply Rabs_pos_eq. }
  rewrite Habs. rewrite Rlt_bool_true.
  - split; [|split; assumption]. rewrite HR. destruct neg; cbn [signed]; ring.
  - apply Rlt_le_trans with (bpow radix2 53 * bpow radix2 (E - 52))%R.
    + apply Rmult_lt_compat_r; [assumption|]. rewrite <- IZR_pow2 by lia. apply IZR_lt. lia.
    + rewrite <- bpow_plus. apply bpow_le. lia.
Qed.

(** ** phase 3: the denormal adjustment *)
Lemma grid_one B : 0 <= B + 1 -> grid B 1%R.
Proof.
  intros H. exists (2 ^ (B + 1)). rewrite IZR_pow2 by lia. rewrite <- bpow_plus.
  replace (B + 1 + - (B + 1)) with 0 by lia. reflexivity.
Qed.

Lemma d798_small N : 0 <= N <= 1000000 -> (IZR N * bpow radix10 (-798) <= 1)%R.
Proof.
  intros HN. pose proof (bpow_gt_0 radix10 (-798)).
  apply Rle_trans with (IZR 1000000 * bpow radix10 (-798))%R; [apply Rmult_le_compat_r; [lra|apply IZR_le; lia]|].
  change 1000000 with (10 ^ 6). rewrite IZR_pow10 by lia. rewrite <- bpow_plus.
  change 1%R with (bpow radix10 0). apply bpow_le. lia.
Qed.

Lemma step3_correct a2 exp2 x0 N :
  Inv a2 (x0 * bpow radix2 (- exp2)) (if exp2 - 1 <? -1022 then 1074 + exp2 else 53) N ->
  dc_dp a2 = 0 -> (/ 2 <= Vr a2 < 1)%R -> 0 <= N <= 500000 -> -1200 <= exp2 ->
  exists a3 exp3 x3 N3, fb_step3 a2 (exp2 - 1) = Some (a3, exp3) /\
    Inv a3 x3 53 N3 /\ 0 <= N3 <= 600000 /\ dc_dp a3 <= 0 /\ (Vr a3 < 1)%R /\ (x3 < 1)%R /\
    -1022 <= exp3 /\ x3 = (x0 * bpow radix2 (- exp3 - 1))%R /\ (exp3 = -1022 \/ (/ 2 <= Vr a3)%R).
Proof.
  intros HI Hdp HV HN Hexp. unfold fb_step3. change (flt_bias + 1) with (-1022).
  set (x2 := (x0 * bpow radix2 (- exp2))%R) in *.
  pose proof (inv_wf _ _ _ _ HI) as W2.
  destruct (Z.ltb_spec (exp2 - 1) (-1022)) as [Hden|Hnorm].
  - (* denormal: shift right by n *)
    set (n := -1022 - (exp2 - 1)). assert (Hn : 1 <= n <= 200) by (unfold n; lia).
    assert (Hdiv : 0 <= n / 60 <= 4).
    { split; [apply Z.div_pos; lia|]. apply Z.div_le_upper_bound; lia. }
    destruct (shift_right_inv a2 n x2 (1074 + exp2) N HI ltac:(lia) ltac:(lia) ltac:(unfold n; lia) ltac:(lia) ltac:(lia))
      as (a3 & Es & HI3 & Hdp3 & _ & _ & HV3).
    cbv zeta. fold n. rewrite Es.
    replace (1074 + exp2 + n) with 53 in HI3 by (unfold n; lia).
    exists a3, (exp2 - 1 + n), (x2 * bpow radix2 (- n))%R, (N + n / 60 + 1).
    split; [reflexivity|]. split; [exact HI3|]. split; [lia|]. split; [lia|].
    pose proof (half_pow n ltac:(lia)) as Hhalf. pose proof (bpow_gt_0 radix2 (- n)) as Hp.
    pose proof (inv_err _ _ _ _ HI) as Herr. pose proof (d798_small N ltac:(lia)) as Hsm.
    pose proof (inv_le _ _ _ _ HI) as Hle.
    assert (Hx2 : (x2 < 2)%R) by nra.
    split; [nra|]. split; [nra|]. split; [unfold n; lia|]. split.
    + unfold x2. rewrite Rmult_assoc, <- bpow_plus. do 2 f_equal. unfold n. lia.
    + left. unfold n. lia.
  - exists a2, (exp2 - 1), x2, N.
    split; [reflexivity|]. split; [exact HI|]. split; [lia|]. split; [lia|]. split; [lra|].
    split; [apply (inv_grid _ _ _ _ HI); [apply grid_one; lia|lra]|].
    split; [lia|]. split; [unfold x2; do 2 f_equal; lia|]. right. lra.
Qed.

(** ** phase 4: the mantissa, the carry, the bits *)
Lemma pow2_53_le : (bpow radix2 53 <= bpow radix10 16)%R.
Proof. rewrite <- IZR_pow2, <- IZR_pow10 by lia. apply IZR_le. vm_compute. discriminate. Qed.

Lemma grid_half (h : Z) : grid 0 (IZR h / 2)%R.
Proof. exists h. change (- (0 + 1)) with (-1). change (bpow radix2 (-1)) with (/ 2)%R. reflexivity. Qed.

Lemma finite_not_inf z : is_finite_SF z = true -> b64_is_inf z = false.
Proof. destruct z; cbn; congruence. Qed.

Lemma finish_correct neg a3 exp3 x0 x3 N3 :
  Inv a3 x3 53 N3 -> 0 <= N3 <= 600000 -> dc_dp a3 <= 0 -> (Vr a3 < 1)%R -> (x3 < 1)%R ->
  -1022 <= exp3 -> x3 = (x0 * bpow radix2 (- exp3 - 1))%R -> (exp3 = -1022 \/ (/ 2 <= Vr a3)%R) ->
  exists bits ovf, fb_finish neg a3 exp3 = Some (bits, ovf) /\
    rounds_to neg (signed neg x0) (b64_of_bits bits) /\ ovf = b64_is_inf (b64_of_bits bits).
Proof.
  intros HI HN Hdp HV Hx1 Hexp Hx3 Hcase. unfold fb_finish.
  change (Z.shiftl 1 flt_expbits - 1) with 2047. change (1 + flt_mantbits) with 53.
  change (Z.shiftl 2 flt_mantbits) with (2 ^ 53). unfold flt_bias.
  pose proof (inv_wf _ _ _ _ HI) as W3. pose proof (wf_Vr_pos a3 W3) as HVp. pose proof (inv_le _ _ _ _ HI) as Hle3.
  assert (Hx0 : x0 = (x3 * bpow radix2 (exp3 + 1))%R).
  { rewrite Hx3, Rmult_assoc, <- bpow_plus. replace (- exp3 - 1 + (exp3 + 1)) with 0 by lia.
    change (bpow radix2 0) with 1%R. ring. }
  assert (Hx0p : (0 < x0)%R) by (rewrite Hx0; apply Rmult_lt_0_compat; [lra|apply bpow_gt_0]).
  destruct (Z.leb_spec 2047 (exp3 - -1023)) as [Hov|Hnov].
  - (* exponent beyond the range: the number is at least 2^1024 *)
    destruct (fb_overflow_decode neg) as [Hdec Hflag].
    exists (fst (fb_overflow neg)), (snd (fb_overflow neg)).
    split; [now destruct (fb_overflow neg)|]. rewrite Hdec, Hflag. split; [|reflexivity].
    apply rounds_to_inf. destruct Hcase as [->|Hhalf]; [lia|].
    assert (bpow radix2 1024 <= x0)%R.
    { rewrite Hx0. apply Rle_trans with (/ 2 * bpow radix2 (exp3 + 1))%R.
      - change (/ 2)%R with (bpow radix2 (-1)). rewrite <- bpow_plus. apply bpow_le. lia.
      - apply Rmult_le_compat_r; [apply bpow_ge_0|lra]. }
    unfold rnd64. apply round_ge_generic; [typeclasses eauto..| |assumption].
    apply generic_format_bpow. unfold fexp64, FLT_exp. lia.
  - (* shift up by 53 bits *)
    rewrite shift_left_single by (try assumption; lia).
    destruct (leftShift_real a3 53 W3 ltac:(lia)) as (a4 & lost & El & Hs). rewrite El.
    pose proof Hs as (W4 & T4 & _ & HV4 & [Hl0 _] & _).
    assert (HV4u : (Vr a4 < bpow radix2 53)%R).
    { pose proof (bpow_gt_0 radix2 53). nra. }
    assert (Hdp4 : dc_dp a4 <= 16).
    { apply dp_of_bounds; [assumption|]. pose proof pow2_53_le. lra. }
    pose proof (inv_step a3 a4 x3 53 N3 53 lost HI Hs ltac:(lia) ltac:(lia) ltac:(lia)) as HI4.
    replace (53 - 53) with 0 in HI4 by lia.
    set (x4 := (x3 * bpow radix2 53)%R) in *.
    (* the rounded integer is the nearest-even integer of the exact scaled number *)
    assert (HM : roundedInteger a4 = ZnearestE x4).
    { rewrite roundedInteger_correct by (try assumption; lia).
      apply sticky_rne_nearest.
      - apply (inv_le _ _ _ _ HI4).
      - apply (inv_exact _ _ _ _ HI4).
      - apply (inv_strict _ _ _ _ HI4).
      - intros h. apply (inv_grid _ _ _ _ HI4). apply grid_half. }
    set (M := roundedInteger a4) in *.
    assert (Hx4 : (0 < x4 < bpow radix2 53)%R).
    { unfold x4. pose proof (bpow_gt_0 radix2 53). split; nra. }
    assert (HMr : 0 <= M <= 2 ^ 53).
    { rewrite HM. split.
      - apply Z.le_trans with (Zfloor x4); [|apply Znearest_ge_floor].
        rewrite <- (Zfloor_IZR 0). apply Zfloor_le. lra.
      - apply Z.le_trans with (Zceil x4); [apply Znearest_le_ceil|].
        rewrite <- (Zceil_IZR (2 ^ 53)). apply Zceil_le. rewrite IZR_pow2 by lia. lra. }
    assert (HMlow : (/ 2 <= Vr a3)%R -> 2 ^ 52 <= M).
    { intros Hh. rewrite HM. apply Z.le_trans with (Zfloor x4); [|apply Znearest_ge_floor].
      rewrite <- (Zfloor_IZR (2 ^ 52)). apply Zfloor_le. rewrite IZR_pow2 by lia.
      unfold x4. apply Rle_trans with (/ 2 * bpow radix2 53)%R.
      - change (/ 2)%R with (bpow radix2 (-1)). rewrite <- bpow_plus. apply bpow_le. lia.
      - apply Rmult_le_compat_r; [apply bpow_ge_0|lra]. }
    (* the rounded value of x0 *)
    assert (Hce : cexp radix2 fexp64 x0 = exp3 - 52).
    { destruct Hcase as [Hmin|Hhalf].
      - destruct (Rle_or_lt (/ 2) x3) as [Hge|Hlt].
        + apply cexp_normal; [lia|]. rewrite Hx0. split.
          * apply Rle_trans with (/ 2 * bpow radix2 (exp3 + 1))%R.
            -- change (/ 2)%R with (bpow radix2 (-1)). rewrite <- bpow_plus. apply Req_le. f_equal. lia.
            -- apply Rmult_le_compat_r; [apply bpow_ge_0|lra].
          * rewrite <- (Rmult_1_l (bpow radix2 (exp3 + 1))) at 2.
            apply Rmult_lt_compat_r; [apply bpow_gt_0|lra].
        + rewrite Hmin. change (-1022 - 52) with (-1074). apply cexp_subnormal. split; [assumption|].
          rewrite Hx0, Hmin. change (-1022 + 1) with (-1021).
          apply Rlt_le_trans with (/ 2 * bpow radix2 (-1021))%R.
          * apply Rmult_lt_compat_r; [apply bpow_gt_0|lra].
          * pose proof (bpow_gt_0 radix2 (-1021)). lra.
      - apply cexp_normal; [lia|]. rewrite Hx0. split.
        + apply Rle_trans with (/ 2 * bpow radix2 (exp3 + 1))%R.
          * change (/ 2)%R with (bpow radix2 (-1)). rewrite <- bpow_plus. apply Req_le. f_equal. lia.
          * apply Rmult_le_compat_r; [apply bpow_ge_0|lra].
        + rewrite <- (Rmult_1_l (bpow radix2 (exp3 + 1))) at 2.
          apply Rmult_lt_compat_r; [apply bpow_gt_0|lra]. }
    assert (Hrnd : rnd64 x0 = (IZR M * bpow radix2 (exp3 - 52))%R).
    { apply rnd64_of_mantissa; [exact Hce|]. rewrite HM. f_equal. unfold x4. rewrite Hx3.
      rewrite !Rmult_assoc, <- !bpow_plus. do 2 f_equal. lia. }
    cbv zeta.
    destruct (Z.eqb_spec M (2 ^ 53)) as [Hcarry|Hnc].
    + (* rounding carried into the next binade *)
      rewrite Hcarry. change (Z.shiftr (2 ^ 53) 1) with (2 ^ 52).
      assert (Hrnd' : rnd64 x0 = (IZR (2 ^ 52) * bpow radix2 (exp3 + 1 - 52))%R).
      { rewrite Hrnd, Hcarry, !IZR_pow2 by lia. rewrite <- !bpow_plus. f_equal. lia. }
      destruct (Z.leb_spec 2047 (exp3 + 1 - -1023)) as [Hov2|Hnov2].
      * destruct (fb_overflow_decode neg) as [Hdec Hflag].
        exists (fst (fb_overflow neg)), (snd (fb_overflow neg)).
        split; [now destruct (fb_overflow neg)|]. rewrite Hdec, Hflag. split; [|reflexivity].
        apply rounds_to_inf. rewrite Hrnd', IZR_pow2, <- bpow_plus by lia. apply bpow_le. lia.
      * destruct (assemble_decode (2 ^ 52) (exp3 + 1) neg ltac:(lia) ltac:(lia) ltac:(lia)) as (Hv & Hf & Hsg & HR).
        cbv zeta in Hv, Hf, Hsg, HR.
        eexists; eexists. split; [reflexivity|]. split.
        -- apply (rounds_to_finite neg x0 _ (2 ^ 52) (exp3 + 1)); try assumption; lia.
        -- symmetry. apply finite_not_inf. exact Hf.
    + assert (HMlt : M < 2 ^ 53) by lia.
      destruct (assemble_decode M exp3 neg ltac:(lia) ltac:(lia)) as (Hv & Hf & Hsg & HR).
      { intros Hsub. destruct Hcase as [|Hhalf]; [assumption|]. specialize (HMlow Hhalf). lia. }
      cbv zeta in Hv, Hf, Hsg, HR.
      eexists; eexists. split; [reflexivity|]. split.
      * apply (rounds_to_finite neg x0 _ M exp3); try assumption; lia.
      * symmetry. apply finite_not_inf. exact Hf.
Qed.

Lemma tail_correct neg a2 exp2 x0 N :
  Inv a2 (x0 * bpow radix2 (- exp2)) (if exp2 - 1 <? -1022 then 1074 + exp2 else 53) N ->
  dc_dp a2 = 0 -> (/ 2 <= Vr a2 < 1)%R -> 0 <= N <= 500000 -> -1200 <= exp2 ->
  exists bits ovf, fb_tail neg a2 exp2 = Some (bits, ovf) /\
    rounds_to neg (signed neg x0) (b64_of_bits bits) /\ ovf = b64_is_inf (b64_of_bits bits).
Proof.
  intros HI Hdp HV HN Hexp.
  destruct (step3_correct a2 exp2 x0 N HI Hdp HV HN Hexp)
    as (a3 & exp3 & x3 & N3 & E3 & HI3 & HN3 & Hdp3 & HV3 & Hx3 & He3 & Hxe & Hcase).
  unfold fb_tail. rewrite E3. now apply (finish_correct neg a3 exp3 x0 x3 N3).
Qed.

(** ** the fuel of the two loops suffices *)
Lemma fb_fuel_eq : Z.of_nat fb_fuel = 2000.
Proof. vm_compute. reflexivity. Qed.

Lemma down_fuel_ok : (bpow radix10 310 <= bpow radix2 (Z.of_nat fb_fuel - 1))%R.
Proof.
  rewrite fb_fuel_eq. change (2000 - 1) with 1999. rewrite <- IZR_pow10, <- IZR_pow2 by lia.
  apply IZR_le. apply Z.leb_le. vm_compute. reflexivity.
Qed.

Lemma up_fuel_int : 2 ^ 2000 * 10 ^ 331 <= 2 * 3 ^ 2000.
Proof. apply Z.leb_le. vm_compute. reflexivity. Qed.

Lemma up_fuel_ok : (IZR (2 ^ Z.of_nat fb_fuel) <= 2 * bpow radix10 (-331) * IZR (3 ^ Z.of_nat fb_fuel))%R.
Proof.
  rewrite fb_fuel_eq. pose proof up_fuel_int as Hi. apply IZR_le in Hi. rewrite !mult_IZR in Hi.
  assert (H10 : (0 < IZR (10 ^ 331))%R) by (apply IZR_lt, Z.pow_pos_nonneg; lia).
  assert (Hb : bpow radix10 (-331) = (/ IZR (10 ^ 331))%R).
  { change (-331) with (Z.opp 331). rewrite bpow_opp, <- IZR_pow10 by lia. reflexivity. }
  rewrite Hb. generalize dependent (IZR (10 ^ 331)). generalize (IZR (3 ^ 2000)). generalize (IZR (2 ^ 2000)).
  intros W U T Hi HT _.
  apply Rmult_le_reg_r with T; [assumption|].
  replace (2 * / T * U * T)%R with (2 * U)%R by (field; lra). exact Hi.
Qed.

(** * floatBits rounds correctly *)
Theorem floatBits_rounds a : wf a -> -330 <= dc_dp a <= 310 -> (dc_trunc a = true -> zlen (dc_d a) = 800) ->
  exists bits ovf, floatBits a = Some (bits, ovf) /\
    rounds_to (dc_neg a) (signed (dc_neg a) (true_value a)) (b64_of_bits bits) /\
    ovf = b64_is_inf (b64_of_bits bits).
Proof.
  intros Hwf Hdp Htr. rewrite floatBits_unfold.
  pose proof (wf_pos a Hwf) as [_ Hnd]. rewrite dc_nd_zlen.
  destruct (Z.eqb_spec (zlen (dc_d a)) 0); [lia|].
  destruct (Z.ltb_spec 310 (dc_dp a)); [lia|]. destruct (Z.ltb_spec (dc_dp a) (-330)); [lia|].
  set (x0 := true_value a). pose proof fb_fuel_eq as Hfuel.
  (* phase 1 *)
  destruct (fb_down_total fb_fuel a 0 Hwf) as (a1 & exp1 & E1).
  { pose proof (wf_Vr_bounds a Hwf) as [_ Hu]. apply Rlt_le_trans with (1 := Hu).
    apply Rle_trans with (2 := down_fuel_ok). apply bpow_le. lia. }
  rewrite E1.
  destruct (fb_down_facts fb_fuel a 0 a1 exp1 E1 Hwf) as (W1 & D1 & N1 & X1 & Hstay & Hmove).
  assert (Hdp1 : -330 <= dc_dp a1 /\ (-318 <= dc_dp a1 \/ exp1 <= 0)).
  { destruct (Z_le_gt_dec (dc_dp a) 0) as [Hle|Hgt].
    - destruct (Hstay Hle) as [-> ->]. split; [lia|right; lia].
    - destruct (Hmove ltac:(lia)) as [H8 _]. split; [lia|left; lia]. }
  destruct Hdp1 as [Hdp1 Hcase1].
  (* phase 2 *)
  destruct (fb_up_total fb_fuel a1 exp1 W1 D1) as (a2 & exp2 & E2).
  { apply Rle_trans with (1 := up_fuel_ok). pose proof (wf_Vr_bounds a1 W1) as [Hl _].
    assert (bpow radix10 (-331) <= Vr a1)%R by (apply Rle_trans with (2 := Hl); apply bpow_le; lia).
    assert (0 < IZR (3 ^ Z.of_nat fb_fuel))%R by (apply IZR_lt, Z.pow_pos_nonneg; lia).
    apply Rmult_le_compat_r; [lra|]. lra. }
  rewrite E2.
  destruct (fb_up_facts fb_fuel a1 exp1 a2 exp2 E2 W1 D1 ltac:(lia)) as (W2 & D2 & V2 & X2 & N2 & _ & _ & _).
  destruct (fb_up_log fb_fuel a1 exp1 a2 exp2 E2 W1 D1 ltac:(lia)) as [Hr Hlog].
  set (B2 := if exp2 - 1 <? -1022 then 1074 + exp2 else 53).
  assert (HB2 : B2 <= 53 /\ B2 <= 1074 + exp2).
  { unfold B2. destruct (Z.ltb_spec (exp2 - 1) (-1022)); lia. }
  destruct HB2 as [HB2a HB2b].
  (* the invariant after phase 1 *)
  assert (HI1 : Inv a1 (x0 * bpow radix2 (- exp1)) (B2 + (exp1 - exp2)) 2001).
  { destruct (Z_le_gt_dec (dc_dp a) 0) as [Hle|Hgt].
    - destruct (Hstay Hle) as [Ea Ee]. subst a1 exp1. change (bpow radix2 (- 0)) with 1%R. rewrite Rmult_1_r.
      apply (inv_mono_N _ _ _ 1); [lia|]. apply inv_init; try assumption; [lia|].
      destruct (phase2_cond fb_fuel a 0 a2 exp2 B2 E2 Hwf ltac:(lia) ltac:(lia) ltac:(right; lia) HB2a HB2b) as [_ Hc].
      lia.
    - destruct (Hmove ltac:(lia)) as [H8 _].
      assert (HI0 : Inv a x0 (B2 + (exp1 - exp2) - (exp1 - 0)) 1) by (apply inv_init; try assumption; lia).
      pose proof (fb_down_inv fb_fuel a 0 a1 exp1 E1 x0 (B2 + (exp1 - exp2)) 1 HI0 ltac:(lia) ltac:(lia) ltac:(lia) ltac:(lia)) as HIa.
      rewrite Z.sub_0_r in HIa. rewrite Hfuel in HIa. exact HIa. }
  (* phase 2 *)
  pose proof (fb_up_inv fb_fuel a1 exp1 a2 exp2 E2 _ B2 2001 HI1 ltac:(lia) Hcase1 HB2a HB2b ltac:(lia) ltac:(lia) ltac:(lia)) as HI2.
  rewrite Hfuel in HI2.
  replace (x0 * bpow radix2 (- exp1) * bpow radix2 (exp1 - exp2))%R with (x0 * bpow radix2 (- exp2))%R in HI2
    by (rewrite Rmult_assoc, <- bpow_plus; do 2 f_equal; lia).
  rewrite <- N1, <- N2.
  apply (tail_correct (dc_neg a2) a2 exp2 x0 (2001 + 2000)); try assumption; lia.
Qed.
