(** C08: the exclusion of specifically projected keys from the .config and
    .fullname groups does not depend on the order (or repetition) of the Parse
    calls. *)
From Perf Require Import Base.Bytes Model.Name Model.Extract Model.Key Model.Projection
  Proofs.Projection.

Definition seteq (a b : list bytes) : Prop := forall k, In k a <-> In k b.

Lemma seteq_refl a : seteq a a.
Proof. intros k; tauto. Qed.

Lemma existsb_seteq {f : bytes -> bool} a b : seteq a b -> existsb f a = existsb f b.
Proof.
  intros H. apply eq_true_iff_eq. rewrite !existsb_exists.
  split; intros [x [Hx Hf]]; exists x; split; auto; now apply H.
Qed.

Lemma mem_seteq k a b : seteq a b -> mem k a = mem k b.
Proof. apply existsb_seteq. Qed.

Lemma mem_In k l : mem k l = true <-> In k l.
Proof.
  unfold mem. rewrite existsb_exists. split.
  - intros [x [Hx He]]. apply beq_eq in He. now subst.
  - intros H. exists k. split; auto. apply beq_refl.
Qed.

Lemma existsb_map {A B} (f : B -> bool) (g : A -> B) l :
  existsb f (map g l) = existsb (fun x => f (g x)) l.
Proof. induction l as [|x l IH]; cbn; auto. now rewrite IH. Qed.

Lemma existsb_filter {A} (f h : A -> bool) l :
  existsb f (filter h l) = existsb (fun x => h x && f x) l.
Proof.
  induction l as [|x l IH]; cbn; auto. destruct (h x); cbn; now rewrite IH.
Qed.

Lemma is_nil_existsb {A} (l : list A) : is_nil l = negb (existsb (fun _ => true) l).
Proof. destruct l; reflexivity. Qed.

(** ** the full-name extractor depends on the exclude list only as a set *)
Definition same_tests (d1 d2 : list bytes) : Prop :=
  forall f : bytes -> bool, existsb f d1 = existsb f d2.

Lemma filter_ext_all {A} (f g : A -> bool) l : (forall x, f x = g x) -> filter f l = filter g l.
Proof. intros H. induction l as [|x l IH]; cbn; auto. rewrite H, IH. reflexivity. Qed.

Lemma extract_full_excluded_same n d1 d2 en eg :
  same_tests d1 d2 -> extract_full_excluded n d1 en eg = extract_full_excluded n d2 en eg.
Proof.
  intros H. unfold extract_full_excluded. rewrite (H (contains n)).
  destruct (negb _); auto. destruct (parts n) as [b ps]. f_equal. f_equal.
  apply filter_ext_all. intros p. unfold part_deleted. now rewrite (H (has_prefix p)).
Qed.

Definition delete_list (ex : list bytes) : list bytes :=
  map (fun k => k ++ [c_eq]) (filter is_subname_key ex).

Lemma delete_list_same a b : seteq a b -> same_tests (delete_list a) (delete_list b).
Proof.
  intros H f. unfold delete_list. rewrite !existsb_map, !existsb_filter. now apply existsb_seteq.
Qed.

Theorem extractor_fullname_seteq a b n :
  seteq a b -> extractor_fullname a n = extractor_fullname b n.
Proof.
  intros H. unfold extractor_fullname. cbv zeta. fold (delete_list a). fold (delete_list b).
  pose proof (delete_list_same a b H) as Hd.
  rewrite !is_nil_existsb.
  replace (existsb (fun _ : list byte => true) (delete_list a))
    with (existsb (fun _ : list byte => true) (delete_list b)) by (symmetry; apply Hd).
  rewrite (existsb_seteq (f := beq key_name) a b H), (existsb_seteq (f := beq key_gomaxprocs) a b H).
  destruct (_ && _ && _); auto. now apply extract_full_excluded_same.
Qed.

(** ** parsers that exclude the same keys *)
Definition pp_equiv (a b : parser) : Prop :=
  seteq (pp_cfg a) (pp_cfg b) /\ seteq (pp_full a) (pp_full b) /\
  pp_havecfg a = pp_havecfg b /\ pp_havefull a = pp_havefull b /\
  match pp_fullext a, pp_fullext b with
  | Some x, Some y => seteq x y
  | None, None => True
  | _, _ => False
  end.

Lemma pp_equiv_refl a : pp_equiv a a.
Proof.
  repeat split; try tauto. destruct (pp_fullext a); auto. apply seteq_refl.
Qed.

(** *** what a sequence of Parse calls does to the parser *)
Definition spec_ok (s : pspec) : bool :=
  match mp_proj new_projection s with Some _ => true | None => false end.

Lemma mp_proj_ok p s : (exists p', mp_proj p s = Some p') <-> spec_ok s = true.
Proof.
  unfold spec_ok, mp_proj. destruct (order_of_spec s) as [o|]; [|split; [intros [? ?]|]; discriminate].
  destruct (beq (ps_key s) key_config).
  { destruct (is_fixed o); [split; [intros [? ?]|]; discriminate|].
    split; auto. intros _. destruct (add_group p key_config). eauto. }
  destruct (beq (ps_key s) key_fullname).
  { split; auto. intros _. destruct (add_top_field p key_fullname o SFull). eauto. }
  destruct (beq (ps_key s) key_unit); [split; [intros [? ?]|]; discriminate|].
  destruct (is_nil (ps_key s)); [split; [intros [? ?]|]; discriminate|].
  split; auto. intros _. destruct (add_top_field p (ps_key s) o (SKey (ps_key s))). eauto.
Qed.

(** the fields of one expression that makeProjection gets to see: up to and
    including the first one it rejects *)
Fixpoint processed (fs : list pspec) : list pspec :=
  match fs with
  | [] => []
  | s :: fs' => if spec_ok s then s :: processed fs' else [s]
  end.

Lemma make_all_parser fs : forall pp p,
  fst (make_all pp p fs) = fold_left mp_parser (processed fs) pp.
Proof.
  induction fs as [|s fs IH]; intros pp p; cbn [make_all processed]; auto.
  unfold make_projection. destruct (mp_proj p s) as [p1|] eqn:E.
  - assert (spec_ok s = true) as -> by (apply (mp_proj_ok p); eauto). cbn. apply IH.
  - destruct (spec_ok s) eqn:Ok; auto.
    apply (mp_proj_ok p) in Ok as [p' Hp']. congruence.
Qed.

(** the projection built for an expression does not depend on the parser *)
Lemma make_all_proj_indep fs : forall pp1 pp2 p,
  snd (make_all pp1 p fs) = snd (make_all pp2 p fs).
Proof.
  induction fs as [|s fs IH]; intros pp1 pp2 p; cbn [make_all]; auto.
  unfold make_projection. destruct (mp_proj p s); auto.
Qed.

Definition call := (bool * list pspec)%type.     (* ParseWithUnit?, fields *)

Definition do_call (pp : parser) (c : call) : parser * option projection :=
  (if fst c then parse_with_unit else parse) pp (snd c).

Lemma do_call_parser pp c : fst (do_call pp c) = fold_left mp_parser (processed (snd c)) pp.
Proof.
  unfold do_call, parse_with_unit, parse. destruct c as [[|] fs]; cbn [fst snd].
  - rewrite <- (make_all_parser fs pp new_projection).
    destruct (make_all pp new_projection fs) as [pp1 [p1|]]; auto.
  - apply make_all_parser.
Qed.

Theorem parse_proj_indep pp1 pp2 c : snd (do_call pp1 c) = snd (do_call pp2 c).
Proof.
  unfold do_call, parse_with_unit, parse. destruct c as [[|] fs]; cbn [fst snd].
  - pose proof (make_all_proj_indep fs pp1 pp2 new_projection) as H.
    destruct (make_all pp1 new_projection fs) as [q1 [p1|]];
    destruct (make_all pp2 new_projection fs) as [q2 [p2|]]; cbn in H; try discriminate; auto.
    injection H as ->. destruct (add_top_field p2 key_unit OFirst SUnit); auto.
  - apply make_all_proj_indep.
Qed.

Definition parser_after (calls : list call) : parser :=
  fold_left (fun pp c => fst (do_call pp c)) calls new_parser.

(** each field only adds to the parser: characterise membership after a fold *)
Definition adds_cfg (s : pspec) (k : bytes) : bool := mem k (pp_cfg (mp_parser new_parser s)).
Definition adds_full (s : pspec) (k : bytes) : bool := mem k (pp_full (mp_parser new_parser s)).
Definition sets_havecfg (s : pspec) : bool := pp_havecfg (mp_parser new_parser s).
Definition sets_havefull (s : pspec) : bool := pp_havefull (mp_parser new_parser s).

Lemma mem_app k a b : mem k (a ++ b) = mem k a || mem k b.
Proof. apply existsb_app. Qed.

Lemma mp_parser_effect pp s :
  (forall k, mem k (pp_cfg (mp_parser pp s)) = mem k (pp_cfg pp) || adds_cfg s k) /\
  (forall k, mem k (pp_full (mp_parser pp s)) = mem k (pp_full pp) || adds_full s k) /\
  pp_havecfg (mp_parser pp s) = pp_havecfg pp || sets_havecfg s /\
  pp_havefull (mp_parser pp s) = pp_havefull pp || sets_havefull s /\
  pp_fullext (mp_parser pp s) = pp_fullext pp.
Proof.
  unfold adds_cfg, adds_full, sets_havecfg, sets_havefull, mp_parser.
  assert (T : forall A B C D E : Prop, A -> B -> C -> D -> E -> A /\ B /\ C /\ D /\ E) by tauto.
  destruct (order_of_spec s) as [o|].
  2:{ apply T; intros; unfold mem; cbn; now rewrite ?orb_false_r. }
  destruct (beq (ps_key s) key_config).
  { destruct (is_fixed o); apply T; intros; unfold mem; cbn; now rewrite ?orb_false_r, ?orb_true_r. }
  destruct (beq (ps_key s) key_fullname).
  { apply T; intros; unfold mem; cbn; now rewrite ?orb_false_r, ?orb_true_r. }
  destruct (beq (ps_key s) key_unit).
  { apply T; intros; unfold mem; cbn; now rewrite ?orb_false_r, ?orb_true_r. }
  destruct (is_fullname_key (ps_key s)); apply T; intros; unfold mem; cbn;
    rewrite ?orb_false_r, ?orb_true_r; auto.
  - rewrite existsb_app. cbn. now rewrite orb_false_r.
  - apply orb_comm.
Qed.

Lemma fold_parser_effect ss : forall pp,
  let pp' := fold_left mp_parser ss pp in
  (forall k, mem k (pp_cfg pp') = mem k (pp_cfg pp) || existsb (fun s => adds_cfg s k) ss) /\
  (forall k, mem k (pp_full pp') = mem k (pp_full pp) || existsb (fun s => adds_full s k) ss) /\
  pp_havecfg pp' = pp_havecfg pp || existsb sets_havecfg ss /\
  pp_havefull pp' = pp_havefull pp || existsb sets_havefull ss /\
  pp_fullext pp' = pp_fullext pp.
Proof.
  induction ss as [|s ss IH]; intros pp; cbn.
  - repeat split; intros; now rewrite ?orb_false_r.
  - destruct (IH (mp_parser pp s)) as [H1 [H2 [H3 [H4 H5]]]].
    destruct (mp_parser_effect pp s) as [E1 [E2 [E3 [E4 E5]]]].
    repeat split; intros.
    + rewrite H1, E1. now rewrite orb_assoc.
    + rewrite H2, E2. now rewrite orb_assoc.
    + rewrite H3, E3. now rewrite orb_assoc.
    + rewrite H4, E4. now rewrite orb_assoc.
    + congruence.
Qed.

Definition call_specs (c : call) : list pspec := processed (snd c).

Lemma parser_after_specs calls :
  parser_after calls = fold_left mp_parser (flat_map call_specs calls) new_parser.
Proof.
  unfold parser_after. generalize new_parser.
  induction calls as [|c calls IH]; intros pp; cbn; auto.
  rewrite fold_left_app, IH, do_call_parser. unfold call_specs; reflexivity.
Qed.

Lemma existsb_flat_map {A B} (f : B -> bool) (g : A -> list B) l :
  existsb f (flat_map g l) = existsb (fun x => existsb f (g x)) l.
Proof. induction l as [|x l IH]; cbn; auto. now rewrite existsb_app, IH. Qed.

Lemma existsb_same_set {A} (f : A -> bool) a b :
  (forall x, In x a <-> In x b) -> existsb f a = existsb f b.
Proof.
  intros H. apply eq_true_iff_eq. rewrite !existsb_exists.
  split; intros [x [Hx Hf]]; exists x; split; auto; now apply H.
Qed.

Lemma seteq_of_mem a b : (forall k, mem k a = mem k b) -> seteq a b.
Proof. intros H k. rewrite <- !mem_In, H. tauto. Qed.

(** the headline: any two sequences of Parse / ParseWithUnit calls made of the same
    calls (in any order, any call repeated any number of times, failing calls
    included) leave the parser excluding exactly the same keys *)
Theorem exclusion_order_independent calls1 calls2 :
  (forall c, In c calls1 <-> In c calls2) ->
  pp_equiv (parser_after calls1) (parser_after calls2).
Proof.
  intros H. rewrite !parser_after_specs.
  set (g := call_specs).
  destruct (fold_parser_effect (flat_map g calls1) new_parser) as [A1 [A2 [A3 [A4 A5]]]].
  destruct (fold_parser_effect (flat_map g calls2) new_parser) as [B1 [B2 [B3 [B4 B5]]]].
  unfold pp_equiv. rewrite A5, B5. cbn [pp_fullext new_parser].
  split; [|split; [|split; [|split]]]; auto.
  - apply seteq_of_mem. intros k. rewrite A1, B1, !existsb_flat_map.
    f_equal. now apply existsb_same_set.
  - apply seteq_of_mem. intros k. rewrite A2, B2, !existsb_flat_map.
    f_equal. now apply existsb_same_set.
  - rewrite A3, B3, !existsb_flat_map. f_equal. now apply existsb_same_set.
  - rewrite A4, B4, !existsb_flat_map. f_equal. now apply existsb_same_set.
Qed.

(** ** ... and everything done afterwards only looks at the parser up to [pp_equiv] *)
Lemma config_step_equiv c1 c2 g o p c :
  seteq c1 c2 -> config_step c1 g o p c = config_step c2 g o p c.
Proof. intros H. unfold config_step. now rewrite (mem_seteq _ c1 c2 H). Qed.

Lemma fold_left_ext {A B} (f g : A -> B -> A) l : (forall a b, f a b = g a b) ->
  forall a, fold_left f l a = fold_left g l a.
Proof. intros H. induction l as [|x l IH]; intros a; cbn; auto. rewrite H. apply IH. Qed.

Lemma full_extract_equiv a b n :
  pp_equiv a b ->
  pp_equiv (fst (full_extract a n)) (fst (full_extract b n)) /\
  snd (full_extract a n) = snd (full_extract b n).
Proof.
  intros [H1 [H2 [H3 [H4 H5]]]]. unfold full_extract.
  destruct (pp_fullext a) as [x|] eqn:Ea; destruct (pp_fullext b) as [y|] eqn:Eb; try tauto; cbn.
  - split; [|now apply extractor_fullname_seteq].
    repeat split; auto; try apply H1; try apply H2. now rewrite Ea, Eb.
  - split; [|now apply extractor_fullname_seteq].
    repeat split; auto; try apply H1; try apply H2; cbn; apply H2.
Qed.

Lemma run_item_equiv r a b p it :
  pp_equiv a b ->
  pp_equiv (fst (run_item r (a, p) it)) (fst (run_item r (b, p) it)) /\
  snd (run_item r (a, p) it) = snd (run_item r (b, p) it).
Proof.
  intros H. destruct it as [g o|idx|k idx]; cbn.
  - split; auto. apply fold_left_ext. intros q c. apply config_step_equiv. apply H.
  - destruct (full_extract_equiv a b (r_name r) H) as [E1 E2].
    destruct (full_extract a (r_name r)) as [a' va], (full_extract b (r_name r)) as [b' vb].
    cbn in *. subst. auto.
  - auto.
Qed.

Lemma fold_items_equiv r items : forall a b p,
  pp_equiv a b ->
  pp_equiv (fst (fold_left (run_item r) items (a, p))) (fst (fold_left (run_item r) items (b, p))) /\
  snd (fold_left (run_item r) items (a, p)) = snd (fold_left (run_item r) items (b, p)).
Proof.
  induction items as [|it items IH]; intros a b p H; cbn [fold_left]; auto.
  destruct (run_item_equiv r a b p it H) as [E1 E2].
  destruct (run_item r (a, p) it) as [a1 p1], (run_item r (b, p) it) as [b1 p2]. cbn in *. subst.
  now apply IH.
Qed.

Theorem project_equiv a b p r :
  pp_equiv a b ->
  let '(a', pa, ka) := project a p r in
  let '(b', pb, kb) := project b p r in
  pp_equiv a' b' /\ pa = pb /\ ka = kb.
Proof.
  intros H. unfold project, populate.
  destruct (fold_items_equiv r (p_items p) a b (clear_row p) H) as [E1 E2].
  destruct (fold_left (run_item r) (p_items p) (a, clear_row p)) as [a1 p1],
           (fold_left (run_item r) (p_items p) (b, clear_row p)) as [b1 p2]. cbn in *. subst.
  destruct (intern_row p2). auto.
Qed.

Theorem project_values_equiv a b p r :
  pp_equiv a b ->
  let '(a', pa, ka) := project_values a p r in
  let '(b', pb, kb) := project_values b p r in
  pp_equiv a' b' /\ pa = pb /\ ka = kb.
Proof.
  intros H. unfold project_values, populate.
  destruct (fold_items_equiv r (p_items p) a b (clear_row p) H) as [E1 E2].
  destruct (fold_left (run_item r) (p_items p) (a, clear_row p)) as [a1 p1],
           (fold_left (run_item r) (p_items p) (b, clear_row p)) as [b1 p2]. cbn in *. subst.
  destruct (p_unit p2).
  - destruct (intern_units p2 n (r_units r)). auto.
  - destruct (intern_row p2). auto.
Qed.

Lemma mp_parser_equiv a b s : pp_equiv a b -> pp_equiv (mp_parser a s) (mp_parser b s).
Proof.
  intros [H1 [H2 [H3 [H4 H5]]]].
  destruct (mp_parser_effect a s) as [A1 [A2 [A3 [A4 A5]]]].
  destruct (mp_parser_effect b s) as [B1 [B2 [B3 [B4 B5]]]].
  unfold pp_equiv. rewrite A3, A4, A5, B3, B4, B5, H3, H4.
  split; [|split; [|split; [|split]]]; auto.
  - apply seteq_of_mem. intros k. now rewrite A1, B1, (mem_seteq k _ _ H1).
  - apply seteq_of_mem. intros k. now rewrite A2, B2, (mem_seteq k _ _ H2).
Qed.

Lemma residue_add_equiv a b s k :
  pp_equiv a b ->
  pp_equiv (fst (residue_add (a, s) k)) (fst (residue_add (b, s) k)) /\
  snd (residue_add (a, s) k) = snd (residue_add (b, s) k).
Proof.
  intros H. unfold residue_add, make_projection. cbn [fst snd].
  destruct (mp_proj s (spec_first k)); cbn [fst snd]; split; auto using mp_parser_equiv.
Qed.

Theorem residue_equiv a b :
  pp_equiv a b ->
  pp_equiv (fst (residue a)) (fst (residue b)) /\ snd (residue a) = snd (residue b).
Proof.
  intros H. unfold residue.
  set (sa := if pp_havecfg a then (a, new_projection) else residue_add (a, new_projection) key_config).
  set (sb := if pp_havecfg b then (b, new_projection) else residue_add (b, new_projection) key_config).
  assert (pp_equiv (fst sa) (fst sb) /\ snd sa = snd sb) as [E1 E2].
  { unfold sa, sb. assert (pp_havecfg a = pp_havecfg b) as <- by apply H.
    destruct (pp_havecfg a); [cbn [fst snd]; split; auto|].
    now apply residue_add_equiv. }
  destruct sa as [a1 s1], sb as [b1 s2]. cbn [fst snd] in *. subst s2.
  assert (pp_havefull a1 = pp_havefull b1) as <- by apply E1.
  destruct (pp_havefull a1); [cbn; auto|]. now apply residue_add_equiv.
Qed.

(** a whole stream of Residue / Project / ProjectValues calls gives the same Keys
    and the same projections from equivalent parsers *)
Definition no_parse (o : op) : Prop := match o with OpParse _ _ => False | _ => True end.

Theorem stream_equiv ops : forall a b projs,
  Forall no_parse ops -> pp_equiv a b ->
  let '(wa, xa) := run_ops (mkW a projs) ops in
  let '(wb, xb) := run_ops (mkW b projs) ops in
  pp_equiv (w_pp wa) (w_pp wb) /\ w_projs wa = w_projs wb /\ xa = xb.
Proof.
  induction ops as [|o ops IH]; intros a b projs Hn H; cbn [run_ops].
  - cbn. auto.
  - inversion Hn as [|? ? Ho Hops]; subst.
    assert (exists a1 b1 projs1 x, step (mkW a projs) o = (mkW a1 projs1, x) /\
              step (mkW b projs) o = (mkW b1 projs1, x) /\ pp_equiv a1 b1) as [a1 [b1 [projs1 [x [Sa [Sb E]]]]]].
    { destruct o as [wu fs| |pi r|pi r]; cbn [step w_pp w_projs]; [contradiction| | |].
      - destruct (residue_equiv a b H) as [E1 E2].
        destruct (residue a) as [a1 pa], (residue b) as [b1 pb]. cbn in *. subst. eauto 10.
      - destruct (nth_error projs pi) as [p|]; [|eauto 10].
        pose proof (project_equiv a b p r H) as E.
        destruct (project a p r) as [[a1 pa] ka], (project b p r) as [[b1 pb] kb].
        destruct E as [E1 [-> ->]]. eauto 10.
      - destruct (nth_error projs pi) as [p|]; [|eauto 10].
        pose proof (project_values_equiv a b p r H) as E.
        destruct (project_values a p r) as [[a1 pa] ka], (project_values b p r) as [[b1 pb] kb].
        destruct E as [E1 [-> ->]]. eauto 10. }
    rewrite Sa, Sb. specialize (IH a1 b1 projs1 Hops E).
    destruct (run_ops (mkW a1 projs1) ops) as [wa xa], (run_ops (mkW b1 projs1) ops) as [wb xb].
    destruct IH as [I1 [I2 I3]]. subst. auto.
Qed.

(** while only Parse calls have been made, the full-name extractor is not built
    yet: it will be built from all the specific name keys recorded so far *)
Lemma parser_after_fullext calls : pp_fullext (parser_after calls) = None.
Proof.
  rewrite parser_after_specs.
  destruct (fold_parser_effect (flat_map call_specs calls) new_parser) as [_ [_ [_ [_ H]]]]. exact H.
Qed.
