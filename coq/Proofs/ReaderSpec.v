(** The line classifier of the reader decides the declarative grammar of
    Model/ReaderSpec.v: assembly of Proofs/ReaderSpecKV.v (key/value lines,
    line splitting) and Proofs/ReaderSpecFields.v (fields, measurements,
    benchmark and unit lines, order of precedence). *)
From Perf Require Import Base.Bytes Base.B64 Base.Utf8 Base.Unicode Base.UnicodeTables Model.Name Model.Extract Model.Units
  Model.Reader Model.Files Model.ReaderSpec Proofs.ReaderSpecKV Proofs.ReaderSpecFields.
Local Open Scope N_scope.

Section Grammar.
Variables is_space is_lower is_upper : N -> bool.
Variable atoi : bytes -> option Z.
Variable parse_float : bytes -> option b64.
(** ':' is neither white space nor an upper-case letter *)
Hypothesis Hcolon : is_space 58 = false /\ is_upper 58 = false.

Notation classify := (classify is_space is_lower is_upper atoi parse_float).
Notation LineKind := (LineKind is_space is_lower is_upper atoi parse_float).

Theorem classify_grammar line c : classify line = c <-> LineKind line c.
Proof. apply classify_iff. intros l k v. now apply parse_kv_iff. Qed.

Theorem line_kind_unique line c c' : LineKind line c -> LineKind line c' -> c = c'.
Proof. apply LineKind_functional. intros l k v. now apply parse_kv_iff. Qed.

Theorem line_kind_total line : exists c, LineKind line c.
Proof. apply LineKind_total. intros l k v. now apply parse_kv_iff. Qed.
End Grammar.

(** every stretch of a line has its fields in exactly one way, and those are
    what the successive splitField calls deliver *)
Theorem fields_grammar is_space l :
  exists fs, Tokens is_space l fs /\ fields is_space l = map flat fs /\
             forall fs', Tokens is_space l fs' -> fs' = fs.
Proof.
  destruct (fields_Tokens is_space l) as (fs & H & E).
  exists fs. split; [exact H|]. split; [exact E|]. intros fs' H'. exact (Tokens_functional is_space l fs' fs H' H).
Qed.
