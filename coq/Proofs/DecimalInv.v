(** The invariant that carries correct rounding through the shifts of floatBits.

    [Inv a x B N]: the decimal [a] approximates the real number [x] (the exact
    value scaled so far) from below; it is exact unless [trunc] is set; and no
    point of the grid 2^-(B+1) * Z lies in (Vr a, x].  B is (an upper bound of)
    the net left shift still to come, so the grid contains the preimages of all
    integers and half-integers of the final scaling: the final comparison of the
    decimal with a half-integer decides as the exact number would.
    A shift keeps the invariant (B decreases by the shift count) provided the
    grid points are representable in the 800-digit window of the result:
        dp' <= 800  and  B' + 1 + dp' <= 800.
    N counts truncations for a crude bound of the relative error. *)
From Coq Require Import ZArith Reals Lia Lra List Bool.
From Flocq Require Import Core.Core.
From Perf Require Import Base.Bytes Model.Decimal Proofs.DecimalBase Proofs.DecimalShift Proofs.RnB64 Proofs.DecimalValue.
Import ListNotations.
Local Open Scope Z_scope.

Definition grid (B : Z) (c : R) : Prop := exists H : Z, c = (IZR H * bpow radix2 (- (B + 1)))%R.

Record Inv (a : decimal) (x : R) (B N : Z) : Prop := mkInv {
  inv_wf : wf a;
  inv_le : (Vr a <= x)%R;
  inv_exact : dc_trunc a = false -> x = Vr a;
  inv_strict : dc_trunc a = true -> (Vr a < x)%R;
  inv_grid : forall c, grid B c -> (Vr a < c)%R -> (x < c)%R;
  inv_err : (x - Vr a <= IZR N * bpow radix10 (-798) * Vr a)%R
}.

Lemma inv_mono_N a x B N N' : N <= N' -> Inv a x B N -> Inv a x B N'.
Proof.
  intros H [W L E S G R]. constructor; try assumption.
  pose proof (wf_Vr_pos a W). pose proof (bpow_gt_0 radix10 (-798)).
  apply Rle_trans with (1 := R). apply Rmult_le_compat_r; [lra|].
  apply Rmult_le_compat_r; [lra|]. now apply IZR_le.
Qed.

Lemma grid_mono B B' c : B <= B' -> grid B c -> grid B' c.
Proof.
  intros H [h ->]. exists (h * 2 ^ (B' - B)). rewrite mult_IZR, IZR_pow2 by lia.
  rewrite Rmult_assoc, <- bpow_plus. do 2 f_equal. lia.
Qed.

Lemma inv_mono_B a x B B' N : B' <= B -> Inv a x B N -> Inv a x B' N.
Proof.
  intros H [W L E S G R]. constructor; try assumption.
  intros c Hc. apply G. now apply (grid_mono B').
Qed.

(** ** lattices *)
Lemma wf_on_lattice a : wf a -> exists M, Vr a = (IZR M * bpow radix10 (dc_dp a - 800))%R.
Proof.
  intros (Hd & Hn & _). exists (dv (dc_d a) * 10 ^ (800 - zlen (dc_d a))).
  unfold Vr. rewrite mult_IZR, IZR_pow10 by lia. rewrite Rmult_assoc, <- bpow_plus. do 2 f_equal. lia.
Qed.

Lemma pow2_pow5 n : 0 <= n -> bpow radix2 (- n) = (IZR (5 ^ n) * bpow radix10 (- n))%R.
Proof.
  intros Hn. rewrite !bpow_opp, <- IZR_pow2, <- IZR_pow10 by lia.
  assert (H10 : 10 ^ n = 2 ^ n * 5 ^ n) by (rewrite <- Z.pow_mul_l; reflexivity).
  rewrite H10, mult_IZR.
  assert (0 < IZR (2 ^ n))%R by (apply IZR_lt, Z.pow_pos_nonneg; lia).
  assert (0 < IZR (5 ^ n))%R by (apply IZR_lt, Z.pow_pos_nonneg; lia).
  field. split; lra.
Qed.

Lemma grid_on_lattice B dp c : grid B c -> dp <= 800 -> B + 1 + dp <= 800 ->
  exists M, c = (IZR M * bpow radix10 (dp - 800))%R.
Proof.
  intros [h ->] Hdp HB. destruct (Z_le_gt_dec 0 (B + 1)) as [Hpos|Hneg].
  - exists (h * 5 ^ (B + 1) * 10 ^ (800 - dp - (B + 1))).
    rewrite pow2_pow5 by lia. rewrite !mult_IZR, (IZR_pow10 (800 - dp - (B + 1))) by lia.
    rewrite !Rmult_assoc. do 2 f_equal. rewrite <- !bpow_plus. f_equal. lia.
  - exists (h * 2 ^ (- (B + 1)) * 10 ^ (800 - dp)).
    rewrite !mult_IZR, IZR_pow2, IZR_pow10 by lia. rewrite !Rmult_assoc. do 2 f_equal.
    rewrite <- bpow_plus. replace (800 - dp + (dp - 800)) with 0 by lia. change (bpow radix10 0) with 1%R. ring.
Qed.

(** two lattice points less than one unit apart, in order, are ... not: *)
Lemma lattice_gap u M Mc : (0 < u)%R -> (IZR M * u < IZR Mc * u)%R -> (IZR Mc * u < IZR M * u + u)%R -> False.
Proof.
  intros Hu H1 H2.
  assert (IZR M < IZR Mc)%R by nra. assert (IZR Mc < IZR M + 1)%R by nra.
  apply lt_IZR in H. rewrite <- plus_IZR in H0. apply lt_IZR in H0. lia.
Qed.

(** ** one shift *)
Lemma inv_step a a' x B N kappa lost :
  Inv a x B N -> shifted a a' (bpow radix2 kappa) lost ->
  dc_dp a' <= 800 -> B - kappa + 1 + dc_dp a' <= 800 -> 0 <= N <= 1000000 ->
  Inv a' (x * bpow radix2 kappa) (B - kappa) (N + 1).
Proof.
  intros [W L E S G R] (W' & _ & _ & HV & [Hl0 Hl1] & Ht0 & Ht1) Hdp HB HN.
  set (s := bpow radix2 kappa) in *. assert (Hs : (0 < s)%R) by apply bpow_gt_0.
  pose proof (wf_Vr_pos a W) as HVpos. pose proof (wf_Vr_pos a' W') as HVpos'.
  pose proof (wf_Vr_bounds a' W') as [HVlow' _].
  set (u := bpow radix10 (dc_dp a' - 800)) in *. assert (Hu : (0 < u)%R) by apply bpow_gt_0.
  constructor.
  - assumption.
  - assert (Vr a * s <= x * s)%R by (apply Rmult_le_compat_r; lra). lra.
  - intros Hf. destruct (Req_dec lost 0) as [Hz|Hnz]; [|rewrite (Ht1 Hnz) in Hf; discriminate].
    rewrite (Ht0 Hz) in Hf. rewrite (E Hf). lra.
  - intros Ht. destruct (Req_dec lost 0) as [Hz|Hnz].
    + rewrite (Ht0 Hz) in Ht. specialize (S Ht). assert (Vr a * s < x * s)%R by (apply Rmult_lt_compat_r; lra). lra.
    + assert (Vr a * s <= x * s)%R by (apply Rmult_le_compat_r; lra). lra.
  - intros c' Hc' Hlt.
    destruct Hc' as [h Hh].
    set (c := (IZR h * bpow radix2 (- (B + 1)))%R).
    assert (Hcc : c' = (c * s)%R).
    { rewrite Hh. unfold c, s. rewrite Rmult_assoc, <- bpow_plus. do 2 f_equal. lia. }
    destruct (Rlt_or_le (Vr a) c) as [Hac|Hca].
    + assert (x < c)%R by (apply G; [now exists h|assumption]).
      rewrite Hcc. apply Rmult_lt_compat_r; assumption.
    + exfalso. assert (Hcs : (c * s <= Vr a * s)%R) by (apply Rmult_le_compat_r; lra).
      destruct (wf_on_lattice a' W') as [M HM].
      destruct (grid_on_lattice (B - kappa) (dc_dp a') c' ltac:(now exists h) Hdp HB) as [Mc HMc].
      fold u in HM, HMc. apply (lattice_gap u M Mc Hu); [rewrite <- HM, <- HMc; assumption|].
      rewrite <- HM, <- HMc. lra.
  - (* relative error *)
    set (d8 := bpow radix10 (-798)) in *.
    assert (Hd8 : (0 < d8)%R) by apply bpow_gt_0.
    assert (HNd : (IZR N * d8 <= 1)%R).
    { apply Rle_trans with (IZR 1000000 * d8)%R; [apply Rmult_le_compat_r; [lra|apply IZR_le; lia]|].
      change 1000000 with (10 ^ 6). rewrite IZR_pow10 by lia. unfold d8. rewrite <- bpow_plus.
      change 1%R with (bpow radix10 0). apply bpow_le. lia. }
    assert (HN0 : (0 <= IZR N)%R) by (apply IZR_le; lia).
    assert (Hlost : (lost <= bpow radix10 (-799) * Vr a')%R).
    { apply Rle_trans with u; [lra|]. apply Rle_trans with (bpow radix10 (-799) * bpow radix10 (dc_dp a' - 1))%R.
      - unfold u. rewrite <- bpow_plus. apply bpow_le. lia.
      - apply Rmult_le_compat_l; [apply bpow_ge_0|assumption]. }
    assert (H10 : d8 = (10 * bpow radix10 (-799))%R).
    { unfold d8. change 10%R with (bpow radix10 1). rewrite <- bpow_plus. reflexivity. }
    set (d9 := bpow radix10 (-799)) in *. assert (Hd9 : (0 < d9)%R) by apply bpow_gt_0.
    rewrite plus_IZR.
    assert (Hx : (x * s - Vr a' = (x - Vr a) * s + lost)%R) by lra.
    rewrite Hx.
    assert (H1 : ((x - Vr a) * s <= IZR N * d8 * (Vr a' + lost))%R).
    { rewrite HV. rewrite <- Rmult_assoc. apply Rmult_le_compat_r; lra. }
    assert (H2 : (IZR N * d8 * lost <= lost)%R).
    { rewrite <- (Rmult_1_l lost) at 2. apply Rmult_le_compat_r; lra. }
    nra.
Qed.

(** ** Shift: a single leftShift, a run of rightShifts *)
Lemma shift_left_single a k : wf a -> 0 < k <= 60 -> shift a k = leftShift a k.
Proof.
  intros Hwf Hk. pose proof (wf_pos a Hwf) as [_ Hnd]. unfold shift. rewrite dc_nd_zlen.
  destruct (Z.eqb_spec (zlen (dc_d a)) 0); [lia|]. destruct (Z.ltb_spec 0 k); [|lia].
  destruct (Z.to_nat (k / maxShift)); cbn [shift_left_loop]; unfold maxShift;
    destruct (Z.ltb_spec 60 k); try lia; reflexivity.
Qed.

Lemma shifted_right_dp a a' k lost : wf a -> 0 <= k -> shifted a a' (bpow radix2 (- k)) lost -> dc_dp a' <= dc_dp a.
Proof.
  intros Hwf Hk (W' & _ & _ & HV & [Hl0 _] & _).
  pose proof (wf_Vr_bounds a Hwf) as [_ Hup]. pose proof (wf_Vr_bounds a' W') as [Hlow _].
  pose proof (wf_Vr_pos a Hwf).
  assert (bpow radix2 (- k) <= 1)%R by (change 1%R with (bpow radix2 0); apply bpow_le; lia).
  assert (Vr a * bpow radix2 (- k) <= Vr a)%R by nra.
  assert (bpow radix10 (dc_dp a' - 1) < bpow radix10 (dc_dp a))%R by lra.
  apply lt_bpow in H2. lia.
Qed.

Lemma shift_right_loop_inv : forall fuel a k x B N,
  Inv a x B N -> 0 < k -> k / 60 < Z.of_nat fuel ->
  dc_dp a <= 800 -> B + k + 1 + dc_dp a <= 800 -> 0 <= N -> N + k / 60 + 1 <= 1000000 ->
  exists a', shift_right_loop fuel a k = Some a' /\
    Inv a' (x * bpow radix2 (- k)) (B + k) (N + k / 60 + 1) /\ dc_dp a' <= dc_dp a /\
    trimmed a' /\ dc_neg a' = dc_neg a /\
    (Vr a' <= Vr a * bpow radix2 (- k))%R.
Proof.
  induction fuel as [|f IH]; intros a k x B N HI Hk Hf Hdp HB HN0 HN.
  - pose proof (Z.div_pos k 60 ltac:(lia) ltac:(lia)). lia.
  - pose proof (inv_wf _ _ _ _ HI) as Hwf. cbn [shift_right_loop]. unfold maxShift.
    destruct (Z.ltb_spec 60 k) as [Hbig|Hsmall].
    + destruct (rightShift_real a 60 Hwf ltac:(lia)) as (a1 & lost & E & Hs). rewrite E.
      pose proof (shifted_right_dp a a1 60 lost Hwf ltac:(lia) Hs) as Hdp1.
      assert (Hdiv : k / 60 = (k - 60) / 60 + 1).
      { replace k with ((k - 60) + 1 * 60) at 1 by lia. now rewrite Z.div_add by lia. }
      assert (0 <= (k - 60) / 60) by (apply Z.div_pos; lia).
      pose proof (inv_step a a1 x B N (-60) lost HI Hs ltac:(lia) ltac:(lia) ltac:(lia)) as HI1.
      replace (B - -60) with (B + 60) in HI1 by lia.
      destruct (IH a1 (k - 60) (x * bpow radix2 (-60))%R (B + 60) (N + 1) HI1 ltac:(lia) ltac:(lia) ltac:(lia) ltac:(lia) ltac:(lia) ltac:(lia))
        as (a' & E' & HI' & Hdp' & Htr' & Hneg' & HV').
      exists a'. split; [exact E'|]. destruct Hs as (_ & _ & Hneg1 & HV1 & [Hl0 _] & _).
      split; [|split; [lia|split; [assumption|split; [congruence|]]]].
      * replace (B + k) with (B + 60 + (k - 60)) by lia.
        replace (N + k / 60 + 1) with (N + 1 + (k - 60) / 60 + 1) by lia.
        replace (x * bpow radix2 (- k))%R with (x * bpow radix2 (-60) * bpow radix2 (- (k - 60)))%R; [exact HI'|].
        rewrite Rmult_assoc, <- bpow_plus. do 2 f_equal. lia.
      * replace (- k) with (-60 + - (k - 60)) by lia. rewrite bpow_plus.
        change (Z.opp 60) with (-60) in HV1.
        pose proof (bpow_gt_0 radix2 (- (k - 60))) as HP. set (P := bpow radix2 (- (k - 60))) in *.
        assert (Vr a1 * P <= Vr a * bpow radix2 (-60) * P)%R by (apply Rmult_le_compat_r; lra). lra.
    + destruct (rightShift_real a k Hwf ltac:(lia)) as (a1 & lost & E & Hs). rewrite E.
      pose proof (shifted_right_dp a a1 k lost Hwf ltac:(lia) Hs) as Hdp1.
      assert (0 <= k / 60) by (apply Z.div_pos; lia).
      pose proof (inv_step a a1 x B N (- k) lost HI Hs ltac:(lia) ltac:(lia) ltac:(lia)) as HI1.
      replace (B - - k) with (B + k) in HI1 by lia.
      exists a1. split; [reflexivity|]. destruct Hs as (_ & Htr1 & Hneg1 & HV1 & [Hl0 _] & _).
      split; [apply (inv_mono_N _ _ _ (N + 1)); [lia|assumption]|]. repeat split; try assumption. lra.
Qed.

Lemma shift_right_inv a n x B N :
  Inv a x B N -> 0 < n ->
  dc_dp a <= 800 -> B + n + 1 + dc_dp a <= 800 -> 0 <= N -> N + n / 60 + 1 <= 1000000 ->
  exists a', shift a (- n) = Some a' /\
    Inv a' (x * bpow radix2 (- n)) (B + n) (N + n / 60 + 1) /\ dc_dp a' <= dc_dp a /\
    trimmed a' /\ dc_neg a' = dc_neg a /\ (Vr a' <= Vr a * bpow radix2 (- n))%R.
Proof.
  intros HI Hn Hdp HB HN0 HN. pose proof (inv_wf _ _ _ _ HI) as Hwf. pose proof (wf_pos a Hwf) as [_ Hnd].
  unfold shift. rewrite dc_nd_zlen. destruct (Z.eqb_spec (zlen (dc_d a)) 0); [lia|].
  destruct (Z.ltb_spec 0 (- n)); [lia|]. destruct (Z.ltb_spec (- n) 0); [|lia].
  rewrite Z.opp_involutive. unfold maxShift.
  apply shift_right_loop_inv; try assumption.
  pose proof (Z.div_pos n 60 ltac:(lia) ltac:(lia)). lia.
Qed.
