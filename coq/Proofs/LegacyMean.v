(** Proofs about StatsF.mean_f as used by the legacy benchstat library: the
    incremental binary64 mean  m <- m + (x - m) / float64(i+1)  stays within
    the hull of the values met so far, provided no difference x - m overflows.
    Real-number reasoning through Flocq (classical reals in Print Assumptions). *)
From Coq Require Import ZArith Reals Lia Lra Bool List.
From Flocq Require Import Core BinarySingleNaN Plus_error.
From Perf Require Import Base.Bytes Base.B64 Model.StatsF Model.Legacy Proofs.B64Flocq Proofs.LegacySort.
Import ListNotations.
Local Open Scope R_scope.

Notation fexp64 := (SpecFloat.fexp 53 1024).
Notation F64 := (generic_format radix2 fexp64).
Notation RN := (round radix2 fexp64 ZnearestE).

Lemma fexp64_FLT : fexp64 = FLT_exp (-1074) 53.
Proof. reflexivity. Qed.

Global Instance fexp64_valid : Valid_exp fexp64.
Proof. rewrite fexp64_FLT. apply FLT_exp_valid. exact b64_prec_gt_0. Qed.
Global Instance fexp64_monotone : Monotone_exp fexp64.
Proof. rewrite fexp64_FLT. apply FLT_exp_monotone. Qed.

(** * one step on real numbers *)
Lemma RN_nonneg y : 0 <= y -> 0 <= RN y.
Proof.
  intros H. rewrite <- (round_0 radix2 fexp64 ZnearestE). apply round_le; try typeclasses eauto. exact H.
Qed.

Lemma RN_id x : F64 x -> RN x = x.
Proof. intros H. apply round_generic; try typeclasses eauto. exact H. Qed.

Lemma RN_le x y : x <= y -> RN x <= RN y.
Proof. intros H. apply round_le; try typeclasses eauto. exact H. Qed.

(** the quotient added in one step never carries the mean past the new value *)
Lemma step_upper m x nf :
  F64 m -> F64 x -> m <= x -> 2 <= nf ->
  0 <= RN (RN (x - m) / nf) /\ m + RN (RN (x - m) / nf) <= x.
Proof.
  intros Fm Fx Hmx Hn.
  set (y := x - m). assert (Hy : 0 <= y) by (unfold y; lra).
  assert (Hd0 : 0 <= RN y) by now apply RN_nonneg.
  assert (Hinv : 0 < / nf) by (apply Rinv_0_lt_compat; lra).
  split.
  { apply RN_nonneg. apply Rmult_le_pos; lra. }
  cut (RN (RN y / nf) <= y); [unfold y; lra|].
  destruct (generic_format_EM radix2 fexp64 y) as [Fy|NFy].
  - (* the difference is exact *)
    rewrite (RN_id y Fy). rewrite <- (RN_id y Fy) at 2. apply RN_le.
    apply Rle_trans with (y * 1); [|lra]. unfold Rdiv. apply Rmult_le_compat_l; auto.
    rewrite <- Rinv_1. apply Rinv_le_contravar; lra.
  - (* inexact difference: it is large, and RN y <= 2 * DN y *)
    assert (Hbig : bpow radix2 (53 + -1074) < y).
    { apply Rnot_le_lt. intros Hle. apply NFy. unfold y, Rminus.
      apply (FLT_format_plus_small radix2 (-1074) 53 x (- m)).
      - exact Fx.
      - apply generic_format_opp. exact Fm.
      - fold (x - m). fold y. rewrite Rabs_pos_eq; auto. }
    set (dn := round radix2 fexp64 Zfloor y). set (up := round radix2 fexp64 Zceil y).
    assert (Fdn : F64 dn) by (apply generic_format_round; typeclasses eauto).
    assert (Hdn : bpow radix2 (53 + -1074) <= dn).
    { apply round_ge_generic; try typeclasses eauto; [|lra].
      apply generic_format_bpow. cbn. lia. }
    assert (Hdnpos : 0 < dn) by (pose proof (bpow_gt_0 radix2 (53 + -1074)); lra).
    destruct (round_DN_UP_lt radix2 fexp64 y NFy) as [Hlo Hhi]. fold dn in Hlo. fold up in Hhi.
    assert (Hup : up <= 2 * dn).
    { unfold up. rewrite (round_UP_DN_ulp radix2 fexp64 y NFy). fold dn.
      rewrite <- (ulp_DN radix2 fexp64 y Hy). fold dn.
      pose proof (ulp_le_id radix2 fexp64 dn Hdnpos Fdn). lra. }
    assert (Hd : RN y <= up).
    { destruct (round_DN_or_UP radix2 fexp64 ZnearestE y) as [E|E]; rewrite E; fold dn; fold up; lra. }
    apply Rle_trans with dn; [|lra].
    rewrite <- (RN_id dn Fdn). apply RN_le.
    apply Rle_trans with (RN y / 2).
    + unfold Rdiv. apply Rmult_le_compat_l; auto. apply Rinv_le_contravar; lra.
    + lra.
Qed.

(** one step keeps the mean between the old mean and the new value (upward) *)
Lemma step_up m x nf :
  F64 m -> F64 x -> m <= x -> 2 <= nf ->
  m <= RN (m + RN (RN (x - m) / nf)) <= x.
Proof.
  intros Fm Fx Hmx Hn. destruct (step_upper m x nf Fm Fx Hmx Hn) as [H0 H1]. split.
  - rewrite <- (RN_id m Fm) at 1. apply RN_le. lra.
  - rewrite <- (RN_id x Fx) at 2. apply RN_le. exact H1.
Qed.

Lemma RN_opp y : RN (- y) = - RN y.
Proof. apply round_NE_opp. Qed.

(** ... and downward, by symmetry of round-to-nearest-even *)
Lemma step_down m x nf :
  F64 m -> F64 x -> x <= m -> 2 <= nf ->
  x <= RN (m + RN (RN (x - m) / nf)) <= m.
Proof.
  intros Fm Fx Hxm Hn.
  assert (Fm' : F64 (- m)) by now apply generic_format_opp.
  assert (Fx' : F64 (- x)) by now apply generic_format_opp.
  destruct (step_up (- m) (- x) nf Fm' Fx' ltac:(lra) Hn) as [H1 H2].
  replace (- x - - m) with (- (x - m)) in H1, H2 by lra.
  rewrite RN_opp in H1, H2.
  replace (- RN (x - m) / nf) with (- (RN (x - m) / nf)) in H1, H2 by (unfold Rdiv; lra).
  rewrite RN_opp in H1, H2.
  replace (- m + - RN (RN (x - m) / nf)) with (- (m + RN (RN (x - m) / nf))) in H1, H2 by lra.
  rewrite RN_opp in H1, H2. lra.
Qed.

Lemma step_hull m x nf lo hi :
  F64 m -> F64 x -> 2 <= nf -> lo <= m <= hi -> lo <= x <= hi ->
  lo <= RN (m + RN (RN (x - m) / nf)) <= hi.
Proof.
  intros Fm Fx Hn Hm Hx. destruct (Rle_or_lt m x) as [H|H].
  - destruct (step_up m x nf Fm Fx H Hn). lra.
  - destruct (step_down m x nf Fm Fx ltac:(lra) Hn). lra.
Qed.

(** * bridge: spec_float [+ -] and int conversion are Flocq's (cf. Flocq's PrimFloat.v) *)
Lemma binary_round_equiv s m e :
  SpecFloat.binary_round 53 1024 s m e = BinarySingleNaN.binary_round 53 1024 mode_NE s m e.
Proof.
  unfold SpecFloat.binary_round, BinarySingleNaN.binary_round, shl_align_fexp.
  set (mez := shl_align _ _ _); case mez as [mz ez].
  apply binary_round_aux_equiv.
Qed.

Lemma binary_normalize_equiv m e szero :
  SpecFloat.binary_normalize 53 1024 m e szero
  = B2SF (BinarySingleNaN.binary_normalize 53 1024 _ _ mode_NE m e szero).
Proof.
  case m as [ | p | p].
  - now simpl.
  - simpl; rewrite B2SF_SF2B; apply binary_round_equiv.
  - simpl; rewrite B2SF_SF2B; apply binary_round_equiv.
Qed.

Lemma b64_add_Bplus (x y : Bf) : b64_add (B2SF x) (B2SF y) = B2SF (Bplus mode_NE x y).
Proof.
  destruct x as [sx|sx| |sx mx ex Bx], y as [sy|sy| |sy my ey By];
    try reflexivity; try (cbn; now case Bool.eqb).
  apply binary_normalize_equiv.
Qed.

Lemma b64_sub_Bminus (x y : Bf) : b64_sub (B2SF x) (B2SF y) = B2SF (Bminus mode_NE x y).
Proof.
  destruct x as [sx|sx| |sx mx ex Bx], y as [sy|sy| |sy my ey By];
    try reflexivity; try (cbn; now case Bool.eqb).
  unfold b64_sub, Bminus. cbn [B2SF SFsub Bopp Bplus].
  unfold Zminus. rewrite <- cond_Zopp_negb.
  apply binary_normalize_equiv.
Qed.

Definition BofZ (z : Z) : Bf := BinarySingleNaN.binary_normalize 53 1024 _ _ mode_NE z 0 false.

Lemma b64_of_Z_BofZ z : b64_of_Z z = B2SF (BofZ z).
Proof. apply binary_normalize_equiv. Qed.

Lemma BofZ_exact n :
  (0 <= n < 2 ^ 53)%Z -> is_finite (BofZ n) = true /\ B2R (BofZ n) = IZR n.
Proof.
  intros Hn.
  pose proof (binary_normalize_correct 53 1024 _ _ mode_NE n 0 false) as H.
  cbn zeta in H. cbn [round_mode] in H.
  assert (E : F2R (Float radix2 n 0) = IZR n) by (unfold F2R; cbn; lra).
  rewrite E in H.
  assert (Fn : F64 (IZR n)).
  { rewrite <- E. apply generic_format_F2R. intros Hz. unfold cexp. rewrite E.
    change (SpecFloat.fexp 53 1024 (mag radix2 (IZR n)) <= 0)%Z.
    destruct (mag radix2 (IZR n)) as [e He]. cbn [mag_val].
    assert (Hz' : IZR n <> 0) by (apply not_0_IZR; exact Hz).
    specialize (He Hz'). rewrite <- abs_IZR in He.
    assert (e <= 53)%Z.
    { destruct (Z_lt_le_dec 53 e) as [L|L]; [exfalso|lia].
      assert (bpow radix2 53 <= bpow radix2 (e - 1)) by (apply bpow_le; lia).
      assert (IZR (Z.abs n) < IZR (2 ^ 53)) by (apply IZR_lt; lia).
      change (bpow radix2 53) with (IZR (2 ^ 53)) in H0. lra. }
    unfold SpecFloat.fexp, SpecFloat.emin. lia. }
  rewrite (RN_id _ Fn) in H.
  rewrite Rlt_bool_true in H.
  - destruct H as [H1 [H2 _]]. auto.
  - rewrite <- abs_IZR. apply Rle_lt_trans with (IZR (2 ^ 53)); [apply IZR_le; lia|].
    change (bpow radix2 1024) with (IZR (2 ^ 1024)). apply IZR_lt. lia.
Qed.

(** * one step on binary64 values *)
Definition step_real (m x nf : R) : R := RN (m + RN (RN (x - m) / nf)).

Lemma mean_step_B (m x : Bf) (n : Z) :
  is_finite m = true -> is_finite x = true -> (1 <= n < 2 ^ 53)%Z ->
  is_finite (Bminus mode_NE x m) = true ->
  Rabs (RN (RN (B2R x - B2R m) / IZR n)) < bpow radix2 1024 ->
  Rabs (step_real (B2R m) (B2R x) (IZR n)) < bpow radix2 1024 ->
  exists m' : Bf, mean_step (B2SF m) (n - 1) (B2SF x) = B2SF m'
    /\ is_finite m' = true /\ B2R m' = step_real (B2R m) (B2R x) (IZR n).
Proof.
  intros Fm Fx Hn Fd Hq Hs.
  unfold mean_step. replace (n - 1 + 1)%Z with n by lia.
  rewrite b64_sub_Bminus, b64_of_Z_BofZ, b64_div_Bdiv, b64_add_Bplus.
  destruct (BofZ_exact n ltac:(lia)) as [Fn Rn].
  set (d := Bminus mode_NE x m) in *.
  assert (Rd : B2R d = RN (B2R x - B2R m)).
  { pose proof (Bminus_correct 53 1024 _ _ mode_NE x m Fx Fm) as H. cbn [round_mode] in H.
    fold d in H.
    destruct (Rlt_bool _ _) in H.
    - now destruct H as [H _].
    - destruct H as [H _]. exfalso. rewrite <- sf_finite_B2SF, H in Fd.
      unfold binary_overflow in Fd. cbn in Fd. discriminate. }
  assert (Pn : 0 < B2R (BofZ n)) by (rewrite Rn; apply IZR_lt; lia).
  set (q := Bdiv mode_NE d (BofZ n)).
  assert (Hqq : is_finite q = true /\ B2R q = RN (RN (B2R x - B2R m) / IZR n)).
  { destruct (Bdiv_cases d (BofZ n) Fd Pn) as [(H1 & H2 & _)|(_ & H2)].
    - rewrite Rd, Rn in H2. auto.
    - exfalso. rewrite Rd, Rn in H2. lra. }
  destruct Hqq as [Fq Rq].
  exists (Bplus mode_NE m q). split; [reflexivity|].
  pose proof (Bplus_correct 53 1024 _ _ mode_NE m q Fm Fq) as H. cbn [round_mode] in H.
  rewrite Rq in H. fold (step_real (B2R m) (B2R x) (IZR n)) in H.
  rewrite Rlt_bool_true in H by exact Hs.
  destruct H as [H1 [H2 _]]. auto.
Qed.

(** * no operation of a step overflows once the difference is finite *)
Lemma quotient_bound d n : F64 d -> 1 <= n -> Rabs (RN (d / n)) <= Rabs d.
Proof.
  intros Fd Hn. assert (Hinv : 0 < / n <= 1).
  { split; [apply Rinv_0_lt_compat; lra|]. rewrite <- Rinv_1. apply Rinv_le_contravar; lra. }
  destruct (Rle_or_lt 0 d) as [H|H].
  - rewrite (Rabs_pos_eq d H). rewrite Rabs_pos_eq.
    + rewrite <- (RN_id d Fd) at 2. apply RN_le. unfold Rdiv. nra.
    + apply RN_nonneg. unfold Rdiv. nra.
  - rewrite (Rabs_left d H). rewrite Rabs_left1.
    + apply Ropp_le_contravar. rewrite <- (RN_id d Fd) at 1. apply RN_le. unfold Rdiv. nra.
    + rewrite <- (round_0 radix2 fexp64 ZnearestE). apply RN_le. unfold Rdiv. nra.
Qed.

Lemma step_first x : F64 x -> step_real 0 x 1 = x.
Proof.
  intros Fx. unfold step_real. rewrite Rminus_0_r, (RN_id x Fx). unfold Rdiv.
  rewrite Rinv_1, Rmult_1_r, (RN_id x Fx), Rplus_0_l. now apply RN_id.
Qed.

Lemma b64_is_finite_B2SF (z : Bf) : b64_is_finite (B2SF z) = is_finite z.
Proof. now destruct z. Qed.

Lemma F64_B2R (x : Bf) : F64 (B2R x).
Proof. apply generic_format_B2R. Qed.

Lemma Rabs_between lo hi v b : lo <= v <= hi -> Rabs lo < b -> Rabs hi < b -> Rabs v < b.
Proof.
  intros H Hl Hh. unfold Rabs in *.
  destruct (Rcase_abs lo), (Rcase_abs hi), (Rcase_abs v); lra.
Qed.

(** * the loop *)
Lemma mean_loop_hull (bxs : list Bf) : forall (m : Bf) (i : Z) (lo hi : Bf),
  is_finite m = true -> (1 <= i)%Z -> (i + Z.of_nat (length bxs) < 2 ^ 53)%Z ->
  Forall (fun x => is_finite x = true /\ B2R lo <= B2R x <= B2R hi) bxs ->
  B2R lo <= B2R m <= B2R hi ->
  mean_no_overflow_loop (B2SF m) i (map B2SF bxs) = true ->
  exists m' : Bf, mean_loop (B2SF m) i (map B2SF bxs) = B2SF m'
    /\ is_finite m' = true /\ B2R lo <= B2R m' <= B2R hi.
Proof.
  induction bxs as [|x bxs IH]; intros m i lo hi Fm Hi Hlen Hall Hm Hg; cbn [map mean_loop].
  - exists m. auto.
  - inversion Hall as [|? ? [Fx Hx] Hall']; subst.
    cbn [map mean_no_overflow_loop] in Hg. apply andb_true_iff in Hg as [Hd Hg].
    rewrite b64_sub_Bminus, b64_is_finite_B2SF in Hd.
    cbn [length] in Hlen.
    assert (Hn : (1 <= i + 1 < 2 ^ 53)%Z) by lia.
    assert (Hs : B2R lo <= step_real (B2R m) (B2R x) (IZR (i + 1)) <= B2R hi).
    { apply step_hull; auto using F64_B2R. apply (IZR_le 2). lia. }
    destruct (mean_step_B m x (i + 1) Fm Fx Hn Hd) as [m' [E [Fm' Rm']]].
    + eapply Rle_lt_trans; [apply quotient_bound|].
      * apply generic_format_round; typeclasses eauto.
      * apply (IZR_le 1). lia.
      * pose proof (Bminus_correct 53 1024 _ _ mode_NE x m Fx Fm) as H. cbn [round_mode] in H.
        destruct (Rlt_bool_spec (Rabs (RN (B2R x - B2R m))) (bpow radix2 1024)) as [L|L]; auto.
        destruct H as [H _]. exfalso. rewrite <- b64_is_finite_B2SF, H in Hd.
        unfold binary_overflow in Hd. cbn in Hd. discriminate.
    + apply (Rabs_between _ _ _ _ Hs); apply abs_B2R_lt_emax.
    + replace (i + 1 - 1)%Z with i in E by lia. rewrite E.
      rewrite E in Hg.
      apply (IH m' (i + 1)%Z lo hi); auto; try lia. now rewrite Rm'.
Qed.

Lemma not_nan_finite (x : Bf) : is_finite x = true -> not_nan (B2SF x).
Proof. now destruct x. Qed.

(** Min <= Mean <= Max for the binary64 incremental mean *)
Theorem mean_in_hull_B (bxs : list Bf) :
  bxs <> [] -> Forall (fun x => is_finite x = true) bxs ->
  (Z.of_nat (length bxs) < 2 ^ 53)%Z ->
  mean_no_overflow (map B2SF bxs) = true ->
  let '(mn, mx) := bounds_f (map B2SF bxs) in
  b64_le mn (mean_f (map B2SF bxs)) = true /\ b64_le (mean_f (map B2SF bxs)) mx = true.
Proof.
  intros Hne Hfin Hlen Hg.
  assert (HN : Forall not_nan (map B2SF bxs)).
  { rewrite Forall_map. eapply Forall_impl; [|exact Hfin]. intros x. apply not_nan_finite. }
  assert (Hne' : map B2SF bxs <> []) by (destruct bxs; cbn; congruence).
  pose proof (LegacySort.bounds_are_extremes (map B2SF bxs) Hne' HN) as HB.
  destruct (bounds_f (map B2SF bxs)) as [mn mx].
  destruct HB as [Imn [Imx [Hext _]]].
  apply in_map_iff in Imn as [lo [<- Ilo]]. apply in_map_iff in Imx as [hi [<- Ihi]].
  rewrite Forall_forall in Hfin.
  assert (Flo := Hfin lo Ilo). assert (Fhi := Hfin hi Ihi).
  assert (Hall : Forall (fun x => is_finite x = true /\ B2R lo <= B2R x <= B2R hi) bxs).
  { rewrite Forall_forall. intros x Hx. assert (Fx := Hfin x Hx). split; auto.
    destruct (Hext (B2SF x) (in_map B2SF _ _ Hx)) as [H1 H2]. split.
    - change (Bltb x lo = false) in H1. rewrite (Bltb_correct 53 1024 x lo Fx Flo) in H1.
      destruct (Rlt_bool_spec (B2R x) (B2R lo)); [discriminate | lra].
    - change (Bltb hi x = false) in H2. rewrite (Bltb_correct 53 1024 hi x Fhi Fx) in H2.
      destruct (Rlt_bool_spec (B2R hi) (B2R x)); [discriminate | lra]. }
  destruct bxs as [|x0 bxs]; [congruence|].
  inversion Hall as [|? ? [Fx0 Hx0] Hall']; subst.
  unfold mean_no_overflow in Hg. cbn [map mean_no_overflow_loop] in Hg.
  apply andb_true_iff in Hg as [Hd Hg].
  change f_zero with (B2SF (B754_zero false : Bf)) in Hd, Hg.
  rewrite b64_sub_Bminus, b64_is_finite_B2SF in Hd.
  destruct (mean_step_B (B754_zero false) x0 1 eq_refl Fx0 ltac:(lia) Hd) as [m1 [E [Fm1 Rm1]]].
  - cbn [B2R]. rewrite Rminus_0_r, (RN_id _ (F64_B2R x0)). unfold Rdiv.
    rewrite Rinv_1, Rmult_1_r, (RN_id _ (F64_B2R x0)). apply abs_B2R_lt_emax.
  - cbn [B2R]. rewrite (step_first _ (F64_B2R x0)). apply abs_B2R_lt_emax.
  - cbn [B2R] in Rm1. rewrite (step_first _ (F64_B2R x0)) in Rm1.
    change (1 - 1)%Z with 0%Z in E.
    cbn [length] in Hlen.
    destruct (mean_loop_hull bxs m1 1 lo hi Fm1 ltac:(lia) ltac:(lia) Hall') as [m' [E' [Fm' Hm']]].
    + now rewrite Rm1.
    + change (0 + 1)%Z with 1%Z in Hg. now rewrite <- E.
    + unfold mean_f. cbn [map mean_loop]. change f_zero with (B2SF (B754_zero false : Bf)).
      rewrite E. change (0 + 1)%Z with 1%Z. rewrite E'.
      split.
      * change (Bleb lo m' = true). rewrite (Bleb_correct 53 1024 lo m' Flo Fm').
        apply Rle_bool_true. lra.
      * change (Bleb m' hi = true). rewrite (Bleb_correct 53 1024 m' hi Fm' Fhi).
        apply Rle_bool_true. lra.
Qed.

(** * the same for arbitrary valid [spec_float] values *)
Lemma valid_list_lift (xs : list b64) :
  Forall (fun x => valid x = true) xs -> exists bxs : list Bf, xs = map B2SF bxs.
Proof.
  induction 1 as [|x xs Hx _ [bxs ->]].
  - exists []. reflexivity.
  - exists (SF2B x Hx :: bxs). cbn. now rewrite B2SF_SF2B.
Qed.

(** Theorem (min_le_mean_le_max_b64). For a non-empty sample of valid finite
    binary64 values (fewer than 2^53 of them), if no difference [x - m] formed
    by the incremental mean overflows ([mean_no_overflow]), then
    Bounds' min <= Mean <= Bounds' max, with Go's [<=] on float64. *)
Theorem min_le_mean_le_max_b64 (xs : list b64) :
  xs <> [] ->
  Forall (fun x => valid x = true /\ b64_is_finite x = true) xs ->
  (Z.of_nat (length xs) < 2 ^ 53)%Z ->
  mean_no_overflow xs = true ->
  b64_le (fst (bounds_f xs)) (mean_f xs) = true /\ b64_le (mean_f xs) (snd (bounds_f xs)) = true.
Proof.
  intros Hne Hall Hlen Hg.
  destruct (valid_list_lift xs) as [bxs ->].
  { eapply Forall_impl; [|exact Hall]. now intros x [H _]. }
  assert (Hfin : Forall (fun x : Bf => is_finite x = true) bxs).
  { rewrite Forall_map in Hall. eapply Forall_impl; [|exact Hall].
    intros x [_ H]. now rewrite b64_is_finite_B2SF in H. }
  rewrite map_length in Hlen.
  pose proof (mean_in_hull_B bxs) as H.
  destruct (bounds_f (map B2SF bxs)) as [mn mx]. cbn [fst snd].
  apply H; auto. intros ->. now apply Hne.
Qed.

(** a simple sufficient condition for the guard: all magnitudes at most 2^1022 *)
Lemma no_overflow_loop_of_bound (bxs : list Bf) : forall (m : Bf) (i : Z) (lo hi : Bf),
  is_finite m = true -> (1 <= i)%Z -> (i + Z.of_nat (length bxs) < 2 ^ 53)%Z ->
  Forall (fun x => is_finite x = true /\ B2R lo <= B2R x <= B2R hi) bxs ->
  B2R lo <= B2R m <= B2R hi ->
  Rabs (B2R lo) <= bpow radix2 1022 -> Rabs (B2R hi) <= bpow radix2 1022 ->
  mean_no_overflow_loop (B2SF m) i (map B2SF bxs) = true.
Proof.
  induction bxs as [|x bxs IH]; intros m i lo hi Fm Hi Hlen Hall Hm Blo Bhi; cbn [map mean_no_overflow_loop]; auto.
  inversion Hall as [|? ? [Fx Hx] Hall']; subst. cbn [length] in Hlen.
  assert (Hd : is_finite (Bminus mode_NE x m) = true).
  { pose proof (Bminus_correct 53 1024 _ _ mode_NE x m Fx Fm) as H. cbn [round_mode] in H.
    rewrite Rlt_bool_true in H; [now destruct H as [_ [H _]]|].
    apply Rle_lt_trans with (bpow radix2 1023); [|apply bpow_lt; lia].
    apply abs_round_le_generic; try typeclasses eauto.
    - apply generic_format_bpow. cbn. lia.
    - change (bpow radix2 1023) with (2 * bpow radix2 1022).
      unfold Rabs in *. destruct (Rcase_abs (B2R lo)), (Rcase_abs (B2R hi)), (Rcase_abs (B2R x - B2R m)); lra. }
  rewrite b64_sub_Bminus, b64_is_finite_B2SF, Hd. cbn [andb].
  assert (Hn : (1 <= i + 1 < 2 ^ 53)%Z) by lia.
  assert (Hs : B2R lo <= step_real (B2R m) (B2R x) (IZR (i + 1)) <= B2R hi).
  { apply step_hull; auto using F64_B2R. apply (IZR_le 2). lia. }
  destruct (mean_step_B m x (i + 1) Fm Fx Hn Hd) as [m' [E [Fm' Rm']]].
  - eapply Rle_lt_trans; [apply quotient_bound|].
    + apply generic_format_round; typeclasses eauto.
    + apply (IZR_le 1). lia.
    + pose proof (Bminus_correct 53 1024 _ _ mode_NE x m Fx Fm) as H. cbn [round_mode] in H.
      destruct (Rlt_bool_spec (Rabs (RN (B2R x - B2R m))) (bpow radix2 1024)) as [L|L]; auto.
      destruct H as [H _]. exfalso. rewrite <- b64_is_finite_B2SF, H in Hd.
      unfold binary_overflow in Hd. cbn in Hd. discriminate.
  - apply (Rabs_between _ _ _ _ Hs); apply abs_B2R_lt_emax.
  - replace (i + 1 - 1)%Z with i in E by lia. rewrite E.
    apply (IH m' (i + 1)%Z lo hi); auto; try lia. now rewrite Rm'.
Qed.

Theorem mean_no_overflow_of_magnitude (bxs : list Bf) :
  Forall (fun x => is_finite x = true /\ Rabs (B2R x) <= bpow radix2 1022) bxs ->
  (Z.of_nat (length bxs) < 2 ^ 53)%Z ->
  mean_no_overflow (map B2SF bxs) = true.
Proof.
  intros Hall Hlen. destruct bxs as [|x0 bxs]; [reflexivity|].
  assert (Hfin : Forall (fun x : Bf => is_finite x = true) (x0 :: bxs)).
  { eapply Forall_impl; [|exact Hall]. now intros x [H _]. }
  assert (HN : Forall not_nan (map B2SF (x0 :: bxs))).
  { rewrite Forall_map. eapply Forall_impl; [|exact Hfin]. intros x. apply not_nan_finite. }
  pose proof (LegacySort.bounds_are_extremes (map B2SF (x0 :: bxs)) ltac:(cbn; congruence) HN) as HB.
  destruct (bounds_f (map B2SF (x0 :: bxs))) as [mn mx].
  destruct HB as [Imn [Imx [Hext _]]].
  apply in_map_iff in Imn as [lo [<- Ilo]]. apply in_map_iff in Imx as [hi [<- Ihi]].
  rewrite Forall_forall in Hfin, Hall.
  assert (Flo := Hfin lo Ilo). assert (Fhi := Hfin hi Ihi).
  assert (Hall2 : Forall (fun x => is_finite x = true /\ B2R lo <= B2R x <= B2R hi) (x0 :: bxs)).
  { rewrite Forall_forall. intros x Hx. assert (Fx := Hfin x Hx). split; auto.
    destruct (Hext (B2SF x) (in_map B2SF _ _ Hx)) as [H1 H2]. split.
    - change (Bltb x lo = false) in H1. rewrite (Bltb_correct 53 1024 x lo Fx Flo) in H1.
      destruct (Rlt_bool_spec (B2R x) (B2R lo)); [discriminate | lra].
    - change (Bltb hi x = false) in H2. rewrite (Bltb_correct 53 1024 hi x Fhi Fx) in H2.
      destruct (Rlt_bool_spec (B2R hi) (B2R x)); [discriminate | lra]. }
  inversion Hall2 as [|? ? [Fx0 Hx0] Hall']; subst.
  unfold mean_no_overflow. cbn [map mean_no_overflow_loop].
  change f_zero with (B2SF (B754_zero false : Bf)).
  assert (Hd : is_finite (Bminus mode_NE x0 (B754_zero false)) = true).
  { pose proof (Bminus_correct 53 1024 _ _ mode_NE x0 (B754_zero false) Fx0 eq_refl) as H.
    cbn [round_mode B2R] in H. rewrite Rminus_0_r, (RN_id _ (F64_B2R x0)) in H.
    rewrite Rlt_bool_true in H by apply abs_B2R_lt_emax. now destruct H as [_ [H _]]. }
  rewrite b64_sub_Bminus, b64_is_finite_B2SF, Hd. cbn [andb].
  destruct (mean_step_B (B754_zero false) x0 1 eq_refl Fx0 ltac:(lia) Hd) as [m1 [E [Fm1 Rm1]]].
  - cbn [B2R]. rewrite Rminus_0_r, (RN_id _ (F64_B2R x0)). unfold Rdiv.
    rewrite Rinv_1, Rmult_1_r, (RN_id _ (F64_B2R x0)). apply abs_B2R_lt_emax.
  - cbn [B2R]. rewrite (step_first _ (F64_B2R x0)). apply abs_B2R_lt_emax.
  - cbn [B2R] in Rm1. rewrite (step_first _ (F64_B2R x0)) in Rm1.
    change (1 - 1)%Z with 0%Z in E. rewrite E. change (0 + 1)%Z with 1%Z.
    cbn [length] in Hlen.
    apply (no_overflow_loop_of_bound bxs m1 1 lo hi); auto; try lia.
    + now rewrite Rm1.
    + apply (Hall lo Ilo).
    + apply (Hall hi Ihi).
Qed.
