(** Sample.Percentile (R8, Weights == nil) in binary64, as modelled by
    StatsF.percentile_f, stays within the sample's bounds:

      percentile_in_hull_b64: for a non-empty sample of valid finite values
      (fewer than 2^53), sorted if the caller says so, any non-NaN p, if
      max - min does not overflow then  min <= Percentile(p) <= max
      where (min, max) = Sample.Bounds as coded.

    Ingredients: the R8 position 1/3 + p (N + 1/3) is a finite positive value
    below 2^54; math.Modf splits it into an integer part that int() converts
    and a fractional part in [0,1) (exact subtraction); the interpolation
    a + frac (b - a) of neighbouring order statistics a <= b stays in [a, b]
    (Proofs/PercentileB64.v).
    Through Flocq (classical reals in Print Assumptions). *)
From Coq Require Import ZArith Reals Lia Lra Bool List Sorting.Sorted Sorting.Permutation.
From Flocq Require Import Core BinarySingleNaN.
From Perf Require Import Base.Bytes Base.B64 Base.B64Order Model.StatsF
     Proofs.B64Flocq Proofs.LegacyMean Proofs.LegacySort Proofs.B64Ops Proofs.PercentileB64 Proofs.BenchMath.
Import ListNotations.
Local Open Scope R_scope.

(** * validity of a finite value: exponent and mantissa ranges *)
Lemma bounded_facts m e : SpecFloat.bounded 53 1024 m e = true -> (-1074 <= e)%Z /\ (Z.pos m < 2 ^ 53)%Z.
Proof.
  unfold SpecFloat.bounded, SpecFloat.canonical_mantissa. intros H.
  apply andb_true_iff in H as [H _]. apply Zeq_bool_eq in H.
  unfold SpecFloat.fexp, SpecFloat.emin in H.
  rewrite Zpos_digits2_pos in H.
  pose proof (Zdigits_correct radix2 (Z.pos m)) as [_ Hd].
  set (d := Zdigits radix2 (Z.pos m)) in *.
  assert (Hd53 : (d <= 53)%Z) by lia.
  split; [lia|].
  rewrite Z.abs_eq in Hd by lia. eapply Z.lt_le_trans; [exact Hd|].
  change (Zpower radix2 d) with (2 ^ d)%Z.
  destruct (Z_le_dec 0 d) as [H0|H0]; [apply Z.pow_le_mono_r; lia|].
  rewrite Z.pow_neg_r by lia. lia.
Qed.

Lemma finite_neg_R (s : bool) m e (B : SpecFloat.bounded 53 1024 m e = true) :
  0 <= B2R (B754_finite s m e B : Bf) -> s = false.
Proof.
  destruct s; [|reflexivity]. cbn [B2R cond_Zopp Z.opp]. intros H. exfalso.
  pose proof (F2R_lt_0 radix2 (Float radix2 (Z.neg m) e) ltac:(cbn; lia)). lra.
Qed.

(** * int(f) of a finite value in [0, 2^63) is defined *)
Lemma b64_to_int_defined (X : Bf) : is_finite X = true -> 0 <= B2R X < IZR (2 ^ 63) ->
  exists k, b64_to_int (B2SF X) = Some k.
Proof.
  intros FX [H0 H1]. destruct X as [s| | |s m e B]; try discriminate.
  - exists 0%Z. reflexivity.
  - pose proof (finite_neg_R s m e B H0) as ->.
    cbn [B2SF b64_to_int]. cbn [B2R cond_Zopp] in H1. unfold F2R in H1. cbn [Fnum Fexp] in H1.
    set (a := if (0 <=? e)%Z then Z.shiftl (Z.pos m) e else Z.shiftr (Z.pos m) (- e)).
    assert (Ha : (a < 2 ^ 63)%Z).
    { apply lt_IZR. eapply Rle_lt_trans; [|exact H1]. unfold a.
      destruct (Z.leb_spec 0 e) as [He|He].
      - rewrite Z.shiftl_mul_pow2 by lia. rewrite mult_IZR.
        change 2%Z with (radix_val radix2). rewrite (IZR_Zpower radix2 e He). lra.
      - rewrite Z.shiftr_div_pow2 by lia.
        pose proof (bpow_gt_0 radix2 e) as Hb.
        assert (Hp : (0 < 2 ^ (- e))%Z) by (apply Z.pow_pos_nonneg; lia).
        pose proof (Z.mul_div_le (Z.pos m) (2 ^ (- e)) Hp) as Hq.
        apply IZR_le in Hq. rewrite mult_IZR in Hq.
        change 2%Z with (radix_val radix2) in Hq. rewrite (IZR_Zpower radix2 (- e)) in Hq by lia.
        apply Rmult_le_compat_r with (r := bpow radix2 e) in Hq; [|lra].
        rewrite Rmult_comm, <- Rmult_assoc, <- bpow_plus in Hq.
        replace (e + - e)%Z with 0%Z in Hq by lia. cbn [bpow] in Hq.
        change (radix_val radix2) with 2%Z in Hq. lra. }
    apply Z.ltb_lt in Ha. rewrite Ha. eauto.
Qed.

(** * math.Modf of a finite positive value below 2^63 *)
Lemma modf_pos (P : Bf) m e : B2SF P = S754_finite false m e -> B2R P < IZR (2 ^ 63) ->
  exists k (Fr : Bf),
    b64_to_int (fst (modf_f (B2SF P))) = Some k /\ snd (modf_f (B2SF P)) = B2SF Fr
    /\ is_finite Fr = true /\ 0 <= B2R Fr < 1.
Proof.
  intros EP Hlt.
  assert (FP : is_finite P = true) by (rewrite <- sf_finite_B2SF, EP; reflexivity).
  assert (Hpos : 0 <= B2R P).
  { rewrite <- SF2R_B2SF, EP. cbn [SF2R cond_Zopp]. apply F2R_ge_0. cbn. lia. }
  rewrite EP. cbn [modf_f]. unfold modf_abs.
  destruct (Z.leb_spec 0 e) as [He|He]; cbn [fst snd].
  - rewrite <- EP. destruct (b64_to_int_defined P FP (conj Hpos Hlt)) as [k Hk].
    exists k, Bzero. repeat split; auto; cbn; lra.
  - assert (B : SpecFloat.bounded 53 1024 m e = true).
    { pose proof (valid_binary_B2SF 53 1024 P) as V. rewrite EP in V. exact V. }
    destruct (bounded_facts m e B) as [Hemin Hm].
    set (q := Z.shiftr (Z.pos m) (- e)).
    assert (Hq : q = (Z.pos m / 2 ^ (- e))%Z) by (unfold q; apply Z.shiftr_div_pow2; lia).
    assert (Hp : (0 < 2 ^ (- e))%Z) by (apply Z.pow_pos_nonneg; lia).
    assert (Hq0 : (0 <= q)%Z) by (rewrite Hq; apply Z.div_pos; lia).
    assert (Hqm : (q <= Z.pos m)%Z).
    { rewrite Hq. apply Z.div_le_upper_bound; [lia|]. nia. }
    destruct (BofZ_exact q ltac:(lia)) as [Fq Rq].
    rewrite b64_of_Z_BofZ.
    (* the exact value: x = m 2^e, x - q = (m mod 2^-e) 2^e *)
    set (r := (Z.pos m mod 2 ^ (- e))%Z).
    assert (Hr : (0 <= r < 2 ^ (- e))%Z) by (apply Z.mod_pos_bound; lia).
    assert (Hmr : Z.pos m = (2 ^ (- e) * q + r)%Z) by (rewrite Hq; apply Z.div_mod; lia).
    assert (RP : B2R P = IZR (Z.pos m) * bpow radix2 e).
    { rewrite <- SF2R_B2SF, EP. reflexivity. }
    assert (Ebp : IZR (2 ^ (- e)) * bpow radix2 e = 1).
    { change 2%Z with (radix_val radix2). rewrite (IZR_Zpower radix2 (- e)) by lia.
      rewrite <- bpow_plus. replace (- e + e)%Z with 0%Z by lia. reflexivity. }
    assert (Ex : B2R P - IZR q = IZR r * bpow radix2 e).
    { rewrite RP, Hmr, plus_IZR, mult_IZR. rewrite Rmult_plus_distr_r.
      replace (IZR (2 ^ (- e)) * IZR q * bpow radix2 e) with (IZR q * (IZR (2 ^ (- e)) * bpow radix2 e)) by ring.
      rewrite Ebp. ring. }
    assert (Hx01 : 0 <= IZR r * bpow radix2 e < 1).
    { pose proof (bpow_gt_0 radix2 e). split.
      - apply Rmult_le_pos; [apply IZR_le; lia|lra].
      - rewrite <- Ebp. apply Rmult_lt_compat_r; [lra|]. apply IZR_lt. lia. }
    assert (Fx : F64 (IZR r * bpow radix2 e)).
    { rewrite fexp64_FLT. apply generic_format_FLT.
      exists (Float radix2 r e); [reflexivity| |exact Hemin].
      cbn [Fnum]. rewrite Z.abs_eq by lia. change (Zpower radix2 53) with (2 ^ 53)%Z.
      assert (r <= Z.pos m)%Z by nia. lia. }
    assert (HqR : 0 <= B2R (BofZ q) < IZR (2 ^ 63)).
    { rewrite Rq. split; [apply IZR_le; lia|]. apply IZR_lt. lia. }
    destruct (b64_to_int_defined (BofZ q) Fq HqR) as [k Hk].
    rewrite <- EP.
    destruct (sub_R P (BofZ q) FP Fq) as (Fr & EF & FF & RF).
    { rewrite Rq, Ex, (RN_id _ Fx). pose proof bpow1024_big. apply Rabs_def1; lra. }
    exists k, Fr. rewrite Rq, Ex, (RN_id _ Fx) in RF. rewrite RF. auto.
Qed.

(** * the R8 position *)
Definition Bthird : Bf := @SF2B 53 1024 f_third eq_refl.
Lemma third_B : f_third = B2SF Bthird /\ is_finite Bthird = true /\ / 4 <= B2R Bthird <= / 2.
Proof.
  split; [unfold Bthird; now rewrite B2SF_SF2B|]. split; [reflexivity|].
  unfold Bthird. rewrite B2R_SF2B.
  replace f_third with (S754_finite false 6004799503160661 (-54)) by (vm_compute; reflexivity).
  cbn [SF2R cond_Zopp]. unfold F2R. cbn [Fnum Fexp].
  change (bpow radix2 (-54)) with (/ 18014398509481984). lra.
Qed.

Lemma F64_IZR_small n : (0 <= n <= 2 ^ 53)%Z -> F64 (IZR n).
Proof.
  intros Hn. rewrite fexp64_FLT. apply generic_format_FLT.
  destruct (Z.eq_dec n (2 ^ 53)) as [->|Hne].
  - exists (Float radix2 (2 ^ 52) 1); cbn; try lia. unfold F2R. cbn. lra.
  - exists (Float radix2 n 0); cbn; try lia. unfold F2R. cbn. lra.
Qed.

Ltac atoms :=
  set (BB := bpow radix2 1024) in *; set (K53 := IZR (2 ^ 53)) in *;
  try set (K54 := IZR (2 ^ 54)) in *; try set (K63 := IZR (2 ^ 63)) in *.
Ltac fin_lra := apply Rabs_def1; atoms; lra.

Lemma r8_pos_B (P : Bf) len :
  is_finite P = true -> 0 < B2R P < 1 -> (1 <= len < 2 ^ 53)%Z ->
  exists Q : Bf, r8_pos_f len (B2SF P) = B2SF Q /\ is_finite Q = true
    /\ / 4 <= B2R Q < IZR (2 ^ 63).
Proof.
  intros FP HP Hlen. unfold r8_pos_f.
  destruct third_B as (Et & Ft & Rt). rewrite Et, b64_of_Z_BofZ.
  destruct (BofZ_exact len ltac:(lia)) as [Fn Rn].
  assert (Hn1 : 1 <= IZR len) by (apply IZR_le; lia).
  assert (Hn2 : IZR len + 1 <= IZR (2 ^ 53)) by (rewrite <- plus_IZR; apply IZR_le; lia).
  assert (F1 : F64 (IZR len)) by (apply F64_IZR_small; lia).
  assert (F2 : F64 (IZR len + 1)) by (rewrite <- plus_IZR; apply F64_IZR_small; lia).
  assert (Hbig : IZR (2 ^ 53) + 1 < bpow radix2 1024).
  { change (bpow radix2 1024) with (IZR (2 ^ 1024)). rewrite <- plus_IZR. apply IZR_lt. lia. }
  pose proof (bpow_gt_0 radix2 1024) as Hbpos.
  (* N + 1/3 *)
  assert (Hs : IZR len <= RN (B2R (BofZ len) + B2R Bthird) <= IZR len + 1).
  { rewrite Rn. split; [apply RN_ge_F|apply RN_le_F]; auto; lra. }
  destruct (add_R (BofZ len) Bthird Fn Ft) as (S1 & -> & FS & RS).
  { fin_lra. }
  rewrite <- RS in Hs.
  (* p * (N + 1/3) *)
  assert (Ht : 0 <= RN (B2R P * B2R S1) <= B2R S1).
  { split; [apply RN_nonneg; nra|]. apply RN_le_F; [apply F64_B2R|]. nra. }
  destruct (mul_R P S1 FP FS) as (T & -> & FT & RT).
  { fin_lra. }
  rewrite <- RT in Ht.
  (* 1/3 + ... *)
  assert (F54 : F64 (IZR (2 ^ 54))).
  { change (IZR (2 ^ 54)) with (bpow radix2 54). apply generic_format_bpow. cbn. lia. }
  assert (H54 : IZR (2 ^ 53) + 1 <= IZR (2 ^ 54)) by (rewrite <- plus_IZR; apply IZR_le; lia).
  assert (Hq : B2R Bthird <= RN (B2R Bthird + B2R T) <= IZR (2 ^ 54)).
  { split; [apply RN_ge_F; [apply F64_B2R|lra]|apply RN_le_F; [exact F54|atoms; lra]]. }
  assert (H5463 : IZR (2 ^ 54) < IZR (2 ^ 63)) by (apply IZR_lt; lia).
  assert (Hbig2 : IZR (2 ^ 63) < bpow radix2 1024).
  { change (bpow radix2 1024) with (IZR (2 ^ 1024)). apply IZR_lt. lia. }
  destruct (add_R Bthird T Ft FT) as (Q & -> & FQ & RQ).
  { fin_lra. }
  exists Q. rewrite RQ. repeat split; auto; atoms; lra.
Qed.

(** * order statistics of a sorted list *)
Lemma sorted_nth (xs : list b64) d : StronglySorted leP xs -> Forall nonnan xs ->
  forall i j, (i <= j < length xs)%nat -> b64_le (nth i xs d) (nth j xs d) = true.
Proof.
  induction 1 as [|x xs Hs IH Hx]; intros Hn i j Hij; cbn [length] in Hij; [lia|].
  inversion Hn as [|? ? Nx Hn']; subst.
  destruct j as [|j].
  - assert (i = 0)%nat by lia. subst i. cbn. now apply b64_le_refl.
  - destruct i as [|i]; cbn [nth].
    + rewrite Forall_forall in Hx. apply Hx. apply nth_In. lia.
    + apply IH; auto. lia.
Qed.

Lemma last_is_nth (xs : list b64) d : last xs d = nth (length xs - 1) xs d.
Proof.
  induction xs as [|x xs IH]; [reflexivity|]. destruct xs as [|y xs]; [reflexivity|].
  change (last (x :: y :: xs) d) with (last (y :: xs) d). rewrite IH. cbn [length].
  replace (S (S (length xs)) - 1)%nat with (S (length xs)) by lia.
  replace (S (length xs) - 1)%nat with (length xs) by lia. reflexivity.
Qed.

Definition vf (x : b64) : Prop := valid x = true /\ b64_is_finite x = true.

Lemma vf_nonnan x : vf x -> nonnan x.
Proof. intros [_ H] ->. discriminate. Qed.

Lemma vf_lift x : vf x -> exists X : Bf, x = B2SF X /\ is_finite X = true.
Proof.
  intros [V F]. destruct (lift_valid x V) as [X ->]. exists X. split; auto.
  now rewrite b64_is_finite_B2SF in F.
Qed.

(** a difference inside a wider finite difference is finite *)
Lemma sub_finite_mono (mn a b mx : b64) : vf mn -> vf a -> vf b -> vf mx ->
  b64_le mn a = true -> b64_le a b = true -> b64_le b mx = true ->
  b64_is_finite (b64_sub mx mn) = true -> b64_is_finite (b64_sub b a) = true.
Proof.
  intros Vmn Va Vb Vmx H1 H2 H3 Hf.
  destruct (vf_lift _ Vmn) as (MN & -> & Fmn). destruct (vf_lift _ Va) as (A & -> & Fa).
  destruct (vf_lift _ Vb) as (B & -> & Fb). destruct (vf_lift _ Vmx) as (MX & -> & Fmx).
  pose proof (SFleb_R _ _ Fmn Fa H1). pose proof (SFleb_R _ _ Fa Fb H2). pose proof (SFleb_R _ _ Fb Fmx H3).
  pose proof (sub_finite_R MX MN Fmx Fmn Hf) as Hb.
  destruct (sub_R B A Fb Fa) as (D & -> & FD & _).
  - assert (0 <= RN (B2R B - B2R A)) by (apply RN_nonneg; lra).
    assert (RN (B2R B - B2R A) <= RN (B2R MX - B2R MN)) by (apply RN_le; lra).
    apply Rabs_def2 in Hb. apply Rabs_def1; lra.
  - now rewrite b64_is_finite_B2SF.
Qed.

(** * the interpolation on a sorted list, 0 < p < 1 *)
Lemma percentile_sorted_hull (xs : list b64) (p mn mx : b64) :
  xs <> [] -> Forall vf xs -> StronglySorted leP xs ->
  (Z.of_nat (length xs) < 2 ^ 53)%Z ->
  valid p = true -> b64_lt b64_zero p = true -> b64_lt p b64_one = true ->
  vf mn -> vf mx ->
  b64_le mn (nth_f xs 0) = true -> b64_le (nth_f xs (Z.of_nat (length xs) - 1)) mx = true ->
  b64_is_finite (b64_sub mx mn) = true ->
  let r := percentile_sorted_f xs p in
  vf r /\ b64_le mn r = true /\ b64_le r mx = true.
Proof.
  intros Hne Hall Hs Hlen Vp Hp0 Hp1 Vmn Vmx Hmn Hmx Hov. cbn zeta.
  assert (Hnn : Forall nonnan xs) by (eapply Forall_impl; [|exact Hall]; apply vf_nonnan).
  set (len := Z.of_nat (length xs)) in *.
  assert (Hlen1 : (1 <= len)%Z) by (unfold len; destruct xs; [congruence|cbn [length]; lia]).
  assert (Hnth : forall k, (0 <= k < len)%Z -> vf (nth_f xs k)).
  { intros k Hk. rewrite Forall_forall in Hall. apply Hall. unfold nth_f. apply nth_In. unfold len in Hk. lia. }
  assert (Hord : forall i j, (0 <= i <= j)%Z -> (j < len)%Z -> b64_le (nth_f xs i) (nth_f xs j) = true).
  { intros i j Hij Hj. unfold nth_f. apply sorted_nth; auto. unfold len in Hj. lia. }
  assert (Hin : forall k, (0 <= k < len)%Z -> b64_le mn (nth_f xs k) = true /\ b64_le (nth_f xs k) mx = true).
  { intros k Hk. split.
    - apply (b64_le_trans mn (nth_f xs 0) (nth_f xs k));
        [apply vf_nonnan; auto | apply vf_nonnan, Hnth; lia | apply vf_nonnan, Hnth; lia | exact Hmn | apply Hord; lia].
    - apply (b64_le_trans (nth_f xs k) (nth_f xs (len - 1)) mx);
        [apply vf_nonnan, Hnth; lia | apply vf_nonnan, Hnth; lia | apply vf_nonnan; auto | apply Hord; lia | exact Hmx]. }
  (* the position *)
  destruct (lift_valid p Vp) as [P ->].
  assert (FP : is_finite P = true).
  { destruct P as [s|[|]| |s m e B]; try reflexivity; discriminate. }
  destruct B2R_one as [F1 R1].
  assert (HP : 0 < B2R P < 1).
  { split.
    - rewrite b64_zero_B in Hp0. apply (SFltb_R Bzero P eq_refl FP Hp0).
    - rewrite b64_one_B in Hp1. rewrite <- R1. apply (SFltb_R P (BofZ 1) FP F1 Hp1). }
  destruct (r8_pos_B P len FP HP ltac:(lia)) as (Q & EQ & FQ & RQ).
  unfold percentile_sorted_f. fold len. rewrite EQ.
  assert (Hshape : exists m e, B2SF Q = S754_finite false m e).
  { destruct Q as [s| | |s m e B]; try discriminate.
    - cbn [B2R] in RQ. lra.
    - pose proof (finite_neg_R s m e B ltac:(lra)) as ->. exists m, e. reflexivity. }
  destruct Hshape as (m & e & Esh).
  destruct (modf_pos Q m e Esh (proj2 RQ)) as (k & Fr & Hk & Hfr & FF & RF).
  destruct (modf_f (B2SF Q)) as [kf frac]. cbn [fst snd] in Hk, Hfr. rewrite Hk. subst frac.
  destruct (Z.leb_spec k 0) as [Hk0|Hk0].
  { split; [apply Hnth; lia|]. apply Hin; lia. }
  destruct (Z.leb_spec len k) as [Hkl|Hkl].
  { split; [apply Hnth; lia|]. apply Hin; lia. }
  (* interpolation between neighbours *)
  set (a := nth_f xs (k - 1)). set (b := nth_f xs k).
  assert (Va : vf a) by (apply Hnth; lia). assert (Vb : vf b) by (apply Hnth; lia).
  assert (Hab : b64_le a b = true) by (apply Hord; lia).
  destruct (Hin (k - 1)%Z ltac:(lia)) as [Ha1 Ha2]. destruct (Hin k ltac:(lia)) as [Hb1 Hb2].
  fold a b in Ha1, Ha2, Hb1, Hb2.
  assert (Hfin : b64_is_finite (b64_sub b a) = true).
  { apply (sub_finite_mono mn a b mx); auto. }
  destruct (unit_of_R Fr FF ltac:(lra)) as [U0 _].
  assert (U1 : b64_lt (B2SF Fr) b64_one = true).
  { rewrite b64_one_B. apply b64_lt_of_R; auto. lra. }
  destruct (percentile_between_neighbours_b64 a b (B2SF Fr) (proj1 Va) (proj1 Vb) (valid_binary_B2SF 53 1024 Fr)
              (proj2 Va) (proj2 Vb) Hab U0 U1 Hfin) as (Vr & Fr' & L1 & L2).
  set (r := b64_add a (b64_mul (B2SF Fr) (b64_sub b a))) in *.
  assert (Vfr : vf r) by (split; assumption).
  split; [exact Vfr|]. split.
  - apply (b64_le_trans mn a r); auto using vf_nonnan.
  - apply (b64_le_trans r b mx); auto using vf_nonnan.
Qed.

(** * Percentile as coded, any p *)
Lemma lt_false_le x y : nonnan x -> nonnan y -> b64_lt y x = false -> b64_le x y = true.
Proof.
  intros Nx Ny H. change (b64_lt y x) with (b64_gt x y) in H.
  rewrite (b64_gt_not_le x y Nx Ny) in H. now apply negb_false_iff in H.
Qed.

Lemma le_false_lt x y : nonnan x -> nonnan y -> b64_le x y = false -> b64_lt y x = true.
Proof.
  intros Nx Ny H. change (b64_lt y x) with (b64_gt x y).
  rewrite (b64_gt_not_le x y Nx Ny), H. reflexivity.
Qed.

Lemma nonnan_of_is_nan p : b64_is_nan p = false -> nonnan p.
Proof. intros H ->. discriminate. Qed.

(** the three cases of Percentile on a list already sorted, with bounds mn <= all <= mx *)
Lemma percentile_cases_hull (ys : list b64) (p mn mx : b64) :
  ys <> [] -> Forall vf ys -> StronglySorted leP ys ->
  (Z.of_nat (length ys) < 2 ^ 53)%Z ->
  valid p = true -> b64_is_nan p = false ->
  vf mn -> vf mx -> b64_le mn mx = true ->
  b64_le mn (nth_f ys 0) = true -> b64_le (nth_f ys (Z.of_nat (length ys) - 1)) mx = true ->
  b64_is_finite (b64_sub mx mn) = true ->
  let r := if b64_le p f_zero then mn else if b64_ge p b64_one then mx else percentile_sorted_f ys p in
  b64_le mn r = true /\ b64_le r mx = true.
Proof.
  intros Hne Hall Hs Hlen Vp Np Vmn Vmx Hmm H1 H2 Hov. cbn zeta.
  pose proof (nonnan_of_is_nan p Np) as Nnp.
  destruct (b64_le p f_zero) eqn:E0.
  { split; [apply b64_le_refl, vf_nonnan, Vmn|exact Hmm]. }
  change (b64_ge p b64_one) with (b64_le b64_one p). destruct (b64_le b64_one p) eqn:E1.
  { split; [exact Hmm|apply b64_le_refl, vf_nonnan, Vmx]. }
  assert (P0 : b64_lt b64_zero p = true) by (apply le_false_lt; auto; discriminate).
  assert (P1 : b64_lt p b64_one = true) by (apply le_false_lt; auto; discriminate).
  apply (percentile_sorted_hull ys p mn mx); auto.
Qed.

Lemma nth_f_last (ys : list b64) : last ys f_nan = nth_f ys (Z.of_nat (length ys) - 1).
Proof.
  rewrite last_is_nth. unfold nth_f. f_equal. lia.
Qed.

(** Theorem (percentile_in_hull_b64) *)
Theorem percentile_in_hull_b64 (sorted : bool) (xs : list b64) (p : b64) :
  xs <> [] -> Forall vf xs -> (sorted = true -> StronglySorted leP xs) ->
  (Z.of_nat (length xs) < 2 ^ 53)%Z ->
  valid p = true -> b64_is_nan p = false ->
  let mn := fst (sample_bounds_f sorted xs) in
  let mx := snd (sample_bounds_f sorted xs) in
  b64_is_finite (b64_sub mx mn) = true ->
  b64_le mn (percentile_f sorted xs p) = true /\ b64_le (percentile_f sorted xs p) mx = true.
Proof.
  intros Hne Hall Hsorted Hlen Vp Np. cbn zeta.
  assert (Hnn : Forall nonnan xs) by (eapply Forall_impl; [|exact Hall]; apply vf_nonnan).
  destruct xs as [|x0 t] eqn:Exs; [congruence|]. rewrite <- Exs in *.
  assert (Epf : percentile_f sorted xs p =
     if b64_le p f_zero then fst (sample_bounds_f sorted xs)
     else if b64_ge p b64_one then snd (sample_bounds_f sorted xs)
     else percentile_sorted_f (if sorted then xs else sort_f xs) p).
  { rewrite Exs. reflexivity. }
  rewrite Epf. clear Epf.
  rewrite Forall_forall in Hall.
  destruct sorted.
  - (* the caller's promise: xs is sorted; Bounds = first and last *)
    specialize (Hsorted eq_refl).
    assert (Eb : sample_bounds_f true xs = (nth_f xs 0, nth_f xs (Z.of_nat (length xs) - 1))).
    { rewrite <- nth_f_last. rewrite Exs. reflexivity. }
    rewrite Eb. cbn [fst snd]. intros Hov.
    assert (Hl : (0 < length xs)%nat) by (rewrite Exs; cbn; lia).
    assert (V0 : vf (nth_f xs 0)) by (apply Hall; unfold nth_f; apply nth_In; lia).
    assert (V1 : vf (nth_f xs (Z.of_nat (length xs) - 1))) by (apply Hall; unfold nth_f; apply nth_In; lia).
    apply (percentile_cases_hull xs p); auto.
    + now apply Forall_forall.
    + unfold nth_f. apply sorted_nth; auto. lia.
    + apply b64_le_refl, vf_nonnan, V0.
    + apply b64_le_refl, vf_nonnan, V1.
  - (* unsorted: Bounds scans, Percentile sorts a copy *)
    clear Hsorted.
    assert (Eb : sample_bounds_f false xs = bounds_f xs) by (rewrite Exs; reflexivity).
    rewrite Eb.
    assert (HN : Forall LegacySort.not_nan xs).
    { apply Forall_forall. intros y Hy. destruct (Hall y Hy) as [_ F]. now destruct y. }
    pose proof (LegacySort.bounds_are_extremes xs Hne HN) as HB.
    destruct (bounds_f xs) as [mn mx]. destruct HB as (Imn & Imx & Hext & Hmm). cbn [fst snd].
    intros Hov.
    set (ys := sort_f xs).
    assert (Hperm : Permutation xs ys) by apply sort_f_perm.
    assert (Hys : Forall vf ys) by (apply sort_f_Forall; now apply Forall_forall).
    assert (Hlen' : length ys = length xs) by (symmetry; now apply Permutation_length).
    assert (Hl : (0 < length ys)%nat) by (rewrite Hlen', Exs; cbn; lia).
    assert (Hyne : ys <> []) by (intros E; rewrite E in Hl; cbn in Hl; lia).
    assert (Vmn : vf mn) by auto. assert (Vmx : vf mx) by auto.
    assert (Hin : forall k, (k < length ys)%nat -> In (nth k ys f_nan) xs).
    { intros k Hk. apply (Permutation_in _ (Permutation_sym Hperm)). now apply nth_In. }
    apply (percentile_cases_hull ys p mn mx); auto.
    + apply sort_f_sorted. exact Hnn.
    + rewrite Hlen'. exact Hlen.
    + apply lt_false_le; auto using vf_nonnan.
    + unfold nth_f. specialize (Hin (Z.to_nat 0) ltac:(lia)).
      apply lt_false_le; auto using vf_nonnan. apply (Hext _ Hin).
    + unfold nth_f. specialize (Hin (Z.to_nat (Z.of_nat (length ys) - 1)) ltac:(lia)).
      apply lt_false_le; auto using vf_nonnan. apply (Hext _ Hin).
Qed.
