(** C08: the repaired Parse (Model/ProjectionTx.v: a failing Parse call restores
    the parser). A failing call is a no-op on the world, so every stream of
    calls reaches the world that the stream WITHOUT its failing Parse calls
    reaches in the model of the code as it is (Model/Projection.v). All the
    theorems about reachable worlds therefore carry over, and the losslessness
    theorems no longer need the hypothesis that every Parse call succeeds. *)
From Perf Require Import Base.Bytes Model.Name Model.Extract Model.Key Model.Projection Model.ProjectionTx
  Proofs.Key Proofs.Projection Proofs.Exclusion Proofs.KeyGet Proofs.Lossless Proofs.LosslessUnits.

Definition call_okb (c : call) : bool := forallb spec_ok (snd c).

Lemma call_okb_spec c : call_okb c = true <-> call_ok c.
Proof. reflexivity. Qed.

(** whether a Parse call returns an error depends on the expression alone *)
Definition op_fails (o : op) : bool :=
  match o with OpParse _ fs => negb (forallb spec_ok fs) | _ => false end.

Definition keeps (o : op) : bool := negb (op_fails o).

Lemma make_all_some fs : forall pp p pp' p',
  make_all pp p fs = (pp', Some p') -> forallb spec_ok fs = true.
Proof.
  induction fs as [|s fs IH]; intros pp p pp' p' H; cbn [make_all forallb] in *; [reflexivity|].
  unfold make_projection in H. destruct (mp_proj p s) as [p1|] eqn:E; [|discriminate].
  rewrite (proj1 (mp_proj_ok p s) (ex_intro (fun q => mp_proj p s = Some q) p1 E)). cbn. eapply IH; eauto.
Qed.

Lemma parse_fails (wu : bool) fs pp :
  forallb spec_ok fs = false ->
  exists pp', (if wu then parse_with_unit else parse) pp fs = (pp', None).
Proof.
  intros Hf. destruct (make_all pp new_projection fs) as [pp' [p'|]] eqn:E.
  - apply make_all_some in E. congruence.
  - exists pp'. destruct wu; unfold parse_with_unit, parse; now rewrite E.
Qed.

Lemma parse_succeeds (wu : bool) fs pp :
  forallb spec_ok fs = true ->
  exists pp' p', (if wu then parse_with_unit else parse) pp fs = (pp', Some p').
Proof.
  intros Hf. destruct (make_all_ok fs pp new_projection Hf) as [pp' [p' E]].
  destruct wu; unfold parse_with_unit, parse; rewrite E; [|eauto].
  destruct (add_top_field p' key_unit OFirst SUnit). eauto.
Qed.

Lemma step_tx_fails w o : op_fails o = true -> step_tx w o = (w, OutParse false).
Proof.
  destruct o as [wu fs| | |]; cbn [op_fails]; try discriminate. intros H.
  apply Bool.negb_true_iff in H. destruct (parse_fails wu fs (w_pp w) H) as [pp' E].
  unfold step_tx. now rewrite E.
Qed.

Lemma step_tx_keeps w o : op_fails o = false -> step_tx w o = step w o.
Proof.
  destruct o as [wu fs| | |]; cbn [op_fails]; try reflexivity. intros H.
  apply Bool.negb_false_iff in H. destruct (parse_succeeds wu fs (w_pp w) H) as [pp' [p' E]].
  unfold step_tx, step. now rewrite E.
Qed.

(** the world reached = the world the stream without its failing calls reaches
    in the model of the unrepaired code *)
Lemma run_ops_tx_world ops : forall w,
  fst (run_ops_tx w ops) = fst (run_ops w (filter keeps ops)).
Proof.
  induction ops as [|o ops IH]; intros w; cbn [run_ops_tx filter]; [reflexivity|].
  unfold keeps at 1. destruct (op_fails o) eqn:F; cbn [negb].
  - rewrite (step_tx_fails w o F). specialize (IH w).
    destruct (run_ops_tx w ops) as [w2 xs]. exact IH.
  - rewrite (step_tx_keeps w o F). cbn [run_ops]. destruct (step w o) as [w1 x]. specialize (IH w1).
    destruct (run_ops_tx w1 ops) as [w2 xs]. destruct (run_ops w1 (filter keeps ops)) as [w3 ys]. exact IH.
Qed.

(** streams without failing calls behave identically, outputs included *)
Lemma run_ops_tx_same ops : forall w,
  forallb keeps ops = true -> run_ops_tx w ops = run_ops w ops.
Proof.
  induction ops as [|o ops IH]; intros w H; cbn [run_ops_tx run_ops forallb] in *; [reflexivity|].
  apply andb_prop in H as [H1 H2]. unfold keeps in H1. apply Bool.negb_true_iff in H1.
  rewrite (step_tx_keeps w o H1). destruct (step w o) as [w1 x]. now rewrite (IH w1 H2).
Qed.

Lemma no_parse_keeps rest : Forall no_parse rest -> forallb keeps rest = true.
Proof.
  induction 1 as [|o rest Ho _ IH]; [reflexivity|]. cbn [forallb]. rewrite IH, Bool.andb_true_r.
  destruct o; try reflexivity. destruct Ho.
Qed.

Lemma run_ops_tx_app a : forall w b,
  run_ops_tx w (a ++ b) =
  let '(w1, x1) := run_ops_tx w a in let '(w2, x2) := run_ops_tx w1 b in (w2, x1 ++ x2).
Proof.
  induction a as [|o a IH]; intros w b; cbn [app run_ops_tx].
  - destruct (run_ops_tx w b). reflexivity.
  - destruct (step_tx w o) as [w1 x]. rewrite IH.
    destruct (run_ops_tx w1 a) as [w2 xs]. destruct (run_ops_tx w2 b) as [w3 ys]. reflexivity.
Qed.

Lemma filter_parse_ops calls : filter keeps (parse_ops calls) = parse_ops (filter call_okb calls).
Proof.
  induction calls as [|c calls IH]; [reflexivity|]. cbn [parse_ops map filter].
  unfold keeps at 1, op_fails, call_okb at 1. rewrite Bool.negb_involutive.
  destruct (forallb spec_ok (snd c)); cbn [parse_ops map]; fold (parse_ops calls);
    fold (parse_ops (filter call_okb calls)); now rewrite IH.
Qed.

Lemma good_calls_ok calls : Forall call_ok (filter call_okb calls).
Proof. apply Forall_forall. intros c Hc. apply filter_In in Hc as [_ Hc]. exact Hc. Qed.

(** the world after the parse phase and Residue: failing calls leave no trace *)
Lemma parse_phase_tx calls :
  fst (run_ops_tx new_world (parse_ops calls ++ [OpResidue]))
  = fst (run_ops new_world (parse_ops (filter call_okb calls) ++ [OpResidue])).
Proof.
  rewrite run_ops_tx_world, filter_app, filter_parse_ops. reflexivity.
Qed.

Lemma parser_after_run calls :
  Forall call_ok calls -> w_pp (fst (run_ops new_world (parse_ops calls))) = parser_after calls.
Proof.
  intros Hok. pose proof (parse_phase calls new_world Hok PhaseInv_new) as H.
  destruct (run_ops new_world (parse_ops calls)) as [w' xs]. destruct H as [_ [_ H]]. exact H.
Qed.

(** the parser after any Parse calls, failing ones included, is the parser
    after the successful ones *)
Theorem parser_after_tx calls :
  w_pp (fst (run_ops_tx new_world (parse_ops calls))) = parser_after (filter call_okb calls).
Proof.
  rewrite run_ops_tx_world, filter_parse_ops. apply parser_after_run, good_calls_ok.
Qed.

(** exclusion is independent of the order (and repetition) of the Parse calls,
    and keys named only in failing calls are not excluded *)
Theorem exclusion_order_independent_tx calls1 calls2 :
  (forall c, In c calls1 <-> In c calls2) ->
  pp_equiv (w_pp (fst (run_ops_tx new_world (parse_ops calls1))))
           (w_pp (fst (run_ops_tx new_world (parse_ops calls2)))).
Proof.
  intros H. rewrite !parser_after_tx. apply exclusion_order_independent.
  intros c. rewrite !filter_In. now rewrite H.
Qed.

(** ** reachable worlds *)
Lemma tx_reachable ops w xs :
  run_ops_tx new_world ops = (w, xs) ->
  exists ops' xs', run_ops new_world ops' = (w, xs') /\ (Forall op_wf ops -> Forall op_wf ops').
Proof.
  intros H. exists (filter keeps ops).
  pose proof (run_ops_tx_world ops new_world) as E. rewrite H in E. cbn [fst] in E.
  destruct (run_ops new_world (filter keeps ops)) as [w' xs'] eqn:R. cbn [fst] in E. subst w'.
  exists xs'. split; [reflexivity|].
  intros F. apply Forall_forall. intros o Ho. apply filter_In in Ho as [Ho _].
  rewrite Forall_forall in F. auto.
Qed.

Theorem intern_inv_tx ops w xs :
  run_ops_tx new_world ops = (w, xs) ->
  forall p, In p (w_projs w) ->
    NoDup (p_keys p) /\
    forall r, In r (p_keys p) -> trimmed r /\ (r <> [] -> last r [] <> []) /\ length r <= nfields p.
Proof.
  intros H. destruct (tx_reachable ops w xs H) as [ops' [xs' [R _]]]. exact (intern_inv ops' w xs' R).
Qed.

Theorem key_eq_iff_values_tx ops w xs pi p k1 k2 :
  run_ops_tx new_world ops = (w, xs) -> nth_error (w_projs w) pi = Some p ->
  k1 < length (p_keys p) -> k2 < length (p_keys p) ->
  (k1 = k2 <-> forall idx, idx < nfields p -> key_get p k1 idx = key_get p k2 idx).
Proof.
  intros H Hp H1 H2. destruct (tx_reachable ops w xs H) as [ops' [xs' [R _]]].
  apply key_eq_iff_gets; auto.
  pose proof (run_ops_spec ops' new_world WInv_new) as S. rewrite R in S.
  destruct S as [W _]. unfold WInv in W. rewrite Forall_forall in W.
  apply W. eapply nth_error_In; eauto.
Qed.

Theorem key_get_extracted_tx ops w xs pi p r :
  Forall op_wf ops -> run_ops_tx new_world ops = (w, xs) -> nth_error (w_projs w) pi = Some p ->
  NoDup (map c_key (r_cfg r)) ->
  let '(pp', p', k) := project (w_pp w) p r in
  forall idx f, nth_error (p_fields p') idx = Some f ->
    match fi_src f with
    | SKey key => fi_name f = key /\ key_get p' k idx = extract key (r_name r) (r_cfg r)
    | SFull => key_get p' k idx = extractor_fullname (ext_of (w_pp w)) (r_name r)
    | SCfg => key_get p' k idx = cfg_file_val (r_cfg r) (fi_name f)
    | SUnit => key_get p' k idx = []
    end.
Proof.
  intros Hwf H. destruct (tx_reachable ops w xs H) as [ops' [xs' [R F]]].
  exact (key_get_extracted_reachable ops' w xs' pi p r (F Hwf) R).
Qed.

(** ** losslessness without the hypothesis that every Parse call succeeds *)
Theorem projections_plus_residue_lossless_tx calls rest a b (ia ib ka kb : nat -> nat) :
  Forall no_parse rest -> Forall op_wf rest ->
  let good := filter call_okb calls in
  let pa := parser_after good in
  let w0 := fst (run_ops_tx new_world (parse_ops calls ++ [OpResidue])) in
  let xs := snd (run_ops_tx w0 rest) in
  (forall pi, pi <= length good ->
     nth_error rest (ia pi) = Some (OpProject pi a) /\ nth_error xs (ia pi) = Some (OutKeys [ka pi]) /\
     nth_error rest (ib pi) = Some (OpProject pi b) /\ nth_error xs (ib pi) = Some (OutKeys [kb pi])) ->
  ((forall pi, pi <= length good -> ka pi = kb pi) <-> same_info (pp_cfg pa) (pp_full pa) a b).
Proof.
  intros Hnp Hwf. cbv zeta. rewrite parse_phase_tx, (run_ops_tx_same rest _ (no_parse_keeps rest Hnp)).
  exact (projections_plus_residue_lossless (filter call_okb calls) rest a b ia ib ka kb
           (good_calls_ok calls) Hnp Hwf).
Qed.

Theorem projections_plus_residue_lossless_units_tx calls rest a b (ia ib : nat -> nat) (ka kb : nat -> list nat) :
  Forall no_parse rest -> Forall op_wf rest ->
  let good := filter call_okb calls in
  let w0 := fst (run_ops_tx new_world (parse_ops calls ++ [OpResidue])) in
  let xs := snd (run_ops_tx w0 rest) in
  (forall pi, pi <= length good ->
     nth_error rest (ia pi) = Some (proj_op good pi a) /\ nth_error xs (ia pi) = Some (OutKeys (ka pi)) /\
     nth_error rest (ib pi) = Some (proj_op good pi b) /\ nth_error xs (ib pi) = Some (OutKeys (kb pi))) ->
  (existsb fst good = true -> r_units a <> [] \/ r_units b <> []) ->
  ((forall pi, pi <= length good -> ka pi = kb pi) <-> same_info_units good a b).
Proof.
  intros Hnp Hwf. cbv zeta. rewrite parse_phase_tx, (run_ops_tx_same rest _ (no_parse_keeps rest Hnp)).
  exact (projections_plus_residue_lossless_units (filter call_okb calls) rest a b ia ib ka kb
           (good_calls_ok calls) Hnp Hwf).
Qed.

Theorem group_contents_tx calls rest i pi r k :
  Forall no_parse rest -> Forall op_wf rest ->
  let pa := parser_after (filter call_okb calls) in
  let w0 := fst (run_ops_tx new_world (parse_ops calls ++ [OpResidue])) in
  nth_error rest i = Some (OpProject pi r) ->
  nth_error (snd (run_ops_tx w0 rest)) i = Some (OutKeys [k]) ->
  exists pF, nth_error (w_projs (fst (run_ops_tx w0 rest))) pi = Some pF /\ k < length (p_keys pF) /\
    (forall idx f, nth_error (p_fields pF) idx = Some f -> key_get pF k idx = want (pp_full pa) r f) /\
    (forall g o c, In (PConfig g o) (p_items pF) ->
       In c (r_cfg r) -> c_file c = true -> ~ In (c_key c) (pp_cfg pa) ->
       exists j, In j (group_subs pF g) /\ field_name pF j = c_key c /\ key_get pF k j = c_val c) /\
    (forall g j, In j (group_subs pF g) -> ~ In (field_name pF j) (pp_cfg pa)).
Proof.
  intros Hnp Hwf. cbv zeta. rewrite parse_phase_tx, (run_ops_tx_same rest _ (no_parse_keeps rest Hnp)).
  exact (group_contents (filter call_okb calls) rest i pi r k (good_calls_ok calls) Hnp Hwf).
Qed.
